package main

// Last known form of every codec guard (written from a run on /repo after the fix commits
// 8f1f086, 8ebb19d, 3dc8984).  Used only when an anchor is no longer found in the source: the
// translator still reports the broken tie (the check then fails), but the model keeps compiling
// with the last known guard so that the correspondence run and the oracle can still look for a
// concrete failing input.

var codecDefaults = map[string]string{
	"g_MsgLabelEvent": `Definition g_MsgLabelEvent : str :=
  ([69; 86; 69; 78; 84]%N : str).`,
	"g_MsgLabelReq": `Definition g_MsgLabelReq : str :=
  ([82; 69; 81]%N : str).`,
	"g_MsgLabelClose": `Definition g_MsgLabelClose : str :=
  ([67; 76; 79; 83; 69]%N : str).`,
	"g_MsgLabelAuth": `Definition g_MsgLabelAuth : str :=
  ([65; 85; 84; 72]%N : str).`,
	"g_MsgLabelCount": `Definition g_MsgLabelCount : str :=
  ([67; 79; 85; 78; 84]%N : str).`,
	"g_MsgLabelEOSE": `Definition g_MsgLabelEOSE : str :=
  ([69; 79; 83; 69]%N : str).`,
	"g_MsgLabelNotice": `Definition g_MsgLabelNotice : str :=
  ([78; 79; 84; 73; 67; 69]%N : str).`,
	"g_MsgLabelOK": `Definition g_MsgLabelOK : str :=
  ([79; 75]%N : str).`,
	"g_MsgLabelClosed": `Definition g_MsgLabelClosed : str :=
  ([67; 76; 79; 83; 69; 68]%N : str).`,
	"g_MachineReadablePrefixPoW": `Definition g_MachineReadablePrefixPoW : str :=
  ([112; 111; 119; 58; 32]%N : str).`,
	"g_MachineReadablePrefixDuplicate": `Definition g_MachineReadablePrefixDuplicate : str :=
  ([100; 117; 112; 108; 105; 99; 97; 116; 101; 58; 32]%N : str).`,
	"g_MachineReadablePrefixBlocked": `Definition g_MachineReadablePrefixBlocked : str :=
  ([98; 108; 111; 99; 107; 101; 100; 58; 32]%N : str).`,
	"g_MachineReadablePrefixRateLimited": `Definition g_MachineReadablePrefixRateLimited : str :=
  ([114; 97; 116; 101; 45; 108; 105; 109; 105; 116; 101; 100; 58; 32]%N : str).`,
	"g_MachineReadablePrefixInvalid": `Definition g_MachineReadablePrefixInvalid : str :=
  ([105; 110; 118; 97; 108; 105; 100; 58; 32]%N : str).`,
	"g_MachineReadablePrefixError": `Definition g_MachineReadablePrefixError : str :=
  ([101; 114; 114; 111; 114; 58; 32]%N : str).`,
	"g_client_msg_regexp": `Definition g_client_msg_regexp : str :=
  ([94; 92; 115; 42; 92; 91; 92; 115; 42; 34; 40; 92; 119; 42; 41; 34]%N : str).`,
	"g_naddr_split_n": `Definition g_naddr_split_n : Z :=
  (3).`,
	"g_naddr_sep": `Definition g_naddr_sep : N :=
  (58)%N.`,
	"g_cevent_arity_bad": `Definition g_cevent_arity_bad (len : Z) : bool :=
  (negb (len =? (2))).`,
	"g_cevent_label_bad": `Definition g_cevent_label_bad (label : str) : bool :=
  (negb (str_eqb label g_MsgLabelEvent)).`,
	"g_creq_arity_bad": `Definition g_creq_arity_bad (len : Z) : bool :=
  (len <? (3)).`,
	"g_creq_label_bad": `Definition g_creq_label_bad (label : str) : bool :=
  (negb (str_eqb label g_MsgLabelReq)).`,
	"g_cclose_arity_bad": `Definition g_cclose_arity_bad (len : Z) : bool :=
  (negb (len =? (2))).`,
	"g_cclose_label_bad": `Definition g_cclose_label_bad (label : str) : bool :=
  (negb (str_eqb label g_MsgLabelClose)).`,
	"g_cauth_arity_bad": `Definition g_cauth_arity_bad (len : Z) : bool :=
  (negb (len =? (2))).`,
	"g_cauth_label_bad": `Definition g_cauth_label_bad (label : str) : bool :=
  (negb (str_eqb label g_MsgLabelAuth)).`,
	"g_ccount_arity_bad": `Definition g_ccount_arity_bad (len : Z) : bool :=
  (len <? (3)).`,
	"g_ccount_label_bad": `Definition g_ccount_label_bad (label : str) : bool :=
  (negb (str_eqb label g_MsgLabelCount)).`,
	"g_seose_arity_bad": `Definition g_seose_arity_bad (len : Z) : bool :=
  (negb (len =? (2))).`,
	"g_seose_label_bad": `Definition g_seose_label_bad (label : str) : bool :=
  (negb (str_eqb label g_MsgLabelEOSE)).`,
	"g_sevent_arity_bad": `Definition g_sevent_arity_bad (len : Z) : bool :=
  (negb (len =? (3))).`,
	"g_sevent_label_bad": `Definition g_sevent_label_bad (label : str) : bool :=
  (negb (str_eqb label g_MsgLabelEvent)).`,
	"g_snotice_arity_bad": `Definition g_snotice_arity_bad (len : Z) : bool :=
  (negb (len =? (2))).`,
	"g_snotice_label_bad": `Definition g_snotice_label_bad (label : str) : bool :=
  (negb (str_eqb label g_MsgLabelNotice)).`,
	"g_sok_arity_bad": `Definition g_sok_arity_bad (len : Z) : bool :=
  (negb (len =? (4))).`,
	"g_sok_label_bad": `Definition g_sok_label_bad (label : str) : bool :=
  (negb (str_eqb label g_MsgLabelOK)).`,
	"g_sauth_arity_bad": `Definition g_sauth_arity_bad (len : Z) : bool :=
  (negb (len =? (2))).`,
	"g_sauth_label_bad": `Definition g_sauth_label_bad (label : str) : bool :=
  (negb (str_eqb label g_MsgLabelAuth)).`,
	"g_scount_arity_bad": `Definition g_scount_arity_bad (len : Z) : bool :=
  (negb (len =? (3))).`,
	"g_scount_label_bad": `Definition g_scount_label_bad (label : str) : bool :=
  (negb (str_eqb label g_MsgLabelCount)).`,
	"g_sclosed_arity_bad": `Definition g_sclosed_arity_bad (len : Z) : bool :=
  (negb (len =? (3))).`,
	"g_sclosed_label_bad": `Definition g_sclosed_label_bad (label : str) : bool :=
  (negb (str_eqb label g_MsgLabelClosed)).`,
	"g_event_nfields_bad": `Definition g_event_nfields_bad (len : Z) : bool :=
  (negb (len =? (7))).`,
	"g_event_valid": `Definition g_event_valid (nonnil id_ok pk_ok kind_ok tags_nonnil tags_ok sig_ok : bool) : bool :=
  ((((((nonnil && id_ok) && pk_ok) && kind_ok) && tags_nonnil) && tags_ok) && sig_ok).`,
	"g_cevent_valid": `Definition g_cevent_valid (nonnil ev_valid : bool) : bool :=
  (nonnil && ev_valid).`,
	"g_cauth_valid": `Definition g_cauth_valid (nonnil ev_valid : bool) : bool :=
  (nonnil && ev_valid).`,
	"g_cclose_valid": `Definition g_cclose_valid (nonnil : bool) : bool :=
  nonnil.`,
	"g_creq_nofilters": `Definition g_creq_nofilters (n : Z) : bool :=
  (n =? (0)).`,
	"g_ccount_nofilters": `Definition g_ccount_nofilters (n : Z) : bool :=
  (n =? (0)).`,
	"g_filter_tagname_bad": `Definition g_filter_tagname_bad (len t0 : Z) : bool :=
  ((negb (len =? (1))) || (negb ((((65) <=? t0) && (t0 <=? (90))) || (((97) <=? t0) && (t0 <=? (122)))))).`,
	"g_filter_since_neg": `Definition g_filter_since_neg (since : Z) : bool :=
  (since <? (0)).`,
	"g_filter_until_neg": `Definition g_filter_until_neg (until : Z) : bool :=
  (until <? (0)).`,
	"g_filter_window_checked": `Definition g_filter_window_checked (has_since has_until : bool) : bool :=
  (has_since && has_until).`,
	"g_filter_window_bad": `Definition g_filter_window_bad (since until : Z) : bool :=
  (since >? until).`,
	"g_filter_limit_neg": `Definition g_filter_limit_neg (limit : Z) : bool :=
  (limit <? (0)).`,
	"g_naddr_arity_bad": `Definition g_naddr_arity_bad (len : Z) : bool :=
  (negb (len =? (3))).`,
	"g_fkey_ids": `Definition g_fkey_ids (k : str) : bool :=
  (str_eqb k ([105; 100; 115]%N : str)).`,
	"g_fkey_authors": `Definition g_fkey_authors (k : str) : bool :=
  (str_eqb k ([97; 117; 116; 104; 111; 114; 115]%N : str)).`,
	"g_fkey_kinds": `Definition g_fkey_kinds (k : str) : bool :=
  (str_eqb k ([107; 105; 110; 100; 115]%N : str)).`,
	"g_fkey_tag": `Definition g_fkey_tag (len k0 k1 : Z) : bool :=
  (((len =? (2)) && (k0 =? (35))) && ((((65) <=? k1) && (k1 <=? (90))) || (((97) <=? k1) && (k1 <=? (122))))).`,
	"g_fkey_since": `Definition g_fkey_since (k : str) : bool :=
  (str_eqb k ([115; 105; 110; 99; 101]%N : str)).`,
	"g_fkey_until": `Definition g_fkey_until (k : str) : bool :=
  (str_eqb k ([117; 110; 116; 105; 108]%N : str)).`,
	"g_fkey_limit": `Definition g_fkey_limit (k : str) : bool :=
  (str_eqb k ([108; 105; 109; 105; 116]%N : str)).`,
}
