package main

// Guards of the wire codec and of the admission validators (message.go,
// utils.go), regenerated into coq/theories/Gen/GenCodec.v and used by
// coq/theories/Codec.v and coq/theories/Valid.v (properties C10, C11).
//
// Everything is produced by one "extra" function so that the order inside the
// generated file is under control: string constants first (labels, machine
// readable prefixes, the label regexp), then the guards, which may mention the
// constants.

import (
	"fmt"
	"go/ast"
	"go/parser"
	"go/token"
	"path/filepath"
	"strconv"
	"strings"
)

func init() { extraFns = append(extraFns, codecExtras) }

const codecOut = "GenCodec"

func codecFile(repo string, files map[string]*ast.File, name string) (*ast.File, error) {
	if f := files[name]; f != nil {
		return f, nil
	}
	f, err := parser.ParseFile(fset, filepath.Join(repo, name), nil, 0)
	if err != nil {
		return nil, err
	}
	files[name] = f
	return f, nil
}

// codecConst: a package-level string constant -> Definition g_<Name> : str.
func codecConst(f *ast.File, name string) (matched, error) {
	for _, d := range f.Decls {
		gd, ok := d.(*ast.GenDecl)
		if !ok || gd.Tok != token.CONST {
			continue
		}
		for _, sp := range gd.Specs {
			vs := sp.(*ast.ValueSpec)
			for i, id := range vs.Names {
				if id.Name != name || i >= len(vs.Values) {
					continue
				}
				bl, ok := vs.Values[i].(*ast.BasicLit)
				if !ok || bl.Kind != token.STRING {
					return matched{}, fmt.Errorf("anchor g_%s (message.go const): not a string literal", name)
				}
				s, err := strconv.Unquote(bl.Value)
				if err != nil {
					return matched{}, fmt.Errorf("anchor g_%s (message.go const): %v", name, err)
				}
				coq := fmt.Sprintf("Definition g_%s : str :=\n  %s.", name, coqStr(s))
				return matched{"g_" + name, "message.go", "const " + name, fset.Position(vs.Pos()).Line, pr(vs), coq}, nil
			}
		}
	}
	return matched{}, fmt.Errorf("anchor g_%s (message.go const): constant not found", name)
}

// codecRegexp: var clientMsgRegexp = regexp.MustCompile(`...`) -> the pattern text.
func codecRegexp(f *ast.File) (matched, error) {
	const nm = "g_client_msg_regexp"
	for _, d := range f.Decls {
		gd, ok := d.(*ast.GenDecl)
		if !ok || gd.Tok != token.VAR {
			continue
		}
		for _, sp := range gd.Specs {
			vs := sp.(*ast.ValueSpec)
			for i, id := range vs.Names {
				if id.Name != "clientMsgRegexp" || i >= len(vs.Values) {
					continue
				}
				call, ok := vs.Values[i].(*ast.CallExpr)
				if !ok || pr(call.Fun) != "regexp.MustCompile" || len(call.Args) != 1 {
					return matched{}, fmt.Errorf("anchor %s (message.go var clientMsgRegexp): not regexp.MustCompile(literal)", nm)
				}
				bl, ok := call.Args[0].(*ast.BasicLit)
				if !ok || bl.Kind != token.STRING {
					return matched{}, fmt.Errorf("anchor %s (message.go var clientMsgRegexp): pattern is not a literal", nm)
				}
				s, err := strconv.Unquote(bl.Value)
				if err != nil {
					return matched{}, fmt.Errorf("anchor %s: %v", nm, err)
				}
				coq := fmt.Sprintf("Definition %s : str :=\n  %s.", nm, coqStr(s))
				return matched{nm, "message.go", "var clientMsgRegexp", fset.Position(vs.Pos()).Line, pr(vs), coq}, nil
			}
		}
	}
	return matched{}, fmt.Errorf("anchor %s (message.go var clientMsgRegexp): not found", nm)
}

// codecSplitN: the way validNaddr cuts its argument:
//
//	elems := strings.Split(naddr, ":")      -> g_naddr_split_n = -1  (all parts)
//	elems := strings.SplitN(naddr, ":", n)  -> g_naddr_split_n = n
//
// and the separator as g_naddr_sep.
func codecSplitN(f *ast.File) ([]matched, error) {
	const nm = "g_naddr_split_n"
	fd := findFunc(f, "", "validNaddr")
	if fd == nil || fd.Body == nil {
		return nil, fmt.Errorf("anchor %s (message.go validNaddr): function not found", nm)
	}
	var hit *ast.CallExpr
	var at token.Pos
	ast.Inspect(fd.Body, func(n ast.Node) bool {
		if hit != nil {
			return false
		}
		if as, ok := n.(*ast.AssignStmt); ok && len(as.Lhs) == 1 && len(as.Rhs) == 1 && pr(as.Lhs[0]) == "elems" {
			if c, ok := as.Rhs[0].(*ast.CallExpr); ok {
				hit, at = c, as.Pos()
			}
		}
		return true
	})
	if hit == nil {
		return nil, fmt.Errorf("anchor %s (message.go validNaddr): no assignment elems := strings.Split…", nm)
	}
	fn := pr(hit.Fun)
	n := int64(-1)
	switch {
	case fn == "strings.Split" && len(hit.Args) == 2:
	case fn == "strings.SplitN" && len(hit.Args) == 3:
		bl, ok := hit.Args[2].(*ast.BasicLit)
		if !ok || bl.Kind != token.INT {
			return nil, fmt.Errorf("anchor %s (message.go validNaddr): SplitN count is not an integer literal", nm)
		}
		v, err := strconv.ParseInt(bl.Value, 0, 64)
		if err != nil {
			return nil, fmt.Errorf("anchor %s: %v", nm, err)
		}
		n = v
	default:
		return nil, fmt.Errorf("anchor %s (message.go validNaddr): unsupported splitter %s", nm, pr(hit))
	}
	if pr(hit.Args[0]) != "naddr" {
		return nil, fmt.Errorf("anchor %s (message.go validNaddr): splits %s, not naddr", nm, pr(hit.Args[0]))
	}
	bl, ok := hit.Args[1].(*ast.BasicLit)
	if !ok || bl.Kind != token.STRING {
		return nil, fmt.Errorf("anchor %s (message.go validNaddr): separator is not a literal", nm)
	}
	sep, err := strconv.Unquote(bl.Value)
	if err != nil || len(sep) != 1 {
		return nil, fmt.Errorf("anchor %s (message.go validNaddr): separator must be one byte, got %s", nm, bl.Value)
	}
	line := fset.Position(at).Line
	return []matched{
		{nm, "message.go", ".validNaddr", line, pr(hit), fmt.Sprintf("Definition %s : Z :=\n  (%d).", nm, n)},
		{"g_naddr_sep", "message.go", ".validNaddr", line, pr(hit), fmt.Sprintf("Definition g_naddr_sep : N :=\n  (%d)%%N.", sep[0])},
	}, nil
}

// codecCase: the condition of one case clause of an expression-less switch
// (`switch { case cond: … }`), selected like an "ifcond" anchor.
func codecCase(f *ast.File, a anchor) (m matched, err error) {
	defer func() {
		if r := recover(); r != nil {
			if fl, ok := r.(failure); ok {
				err = fmt.Errorf("anchor %s (%s %s.%s): %s", a.Name, a.File, a.Recv, a.Func, fl.msg)
				return
			}
			panic(r)
		}
	}()
	fd := findFunc(f, a.Recv, a.Func)
	if fd == nil || fd.Body == nil {
		failf("function not found")
	}
	n := 0
	var hit ast.Expr
	ast.Inspect(fd.Body, func(nd ast.Node) bool {
		if hit != nil {
			return false
		}
		if cc, ok := nd.(*ast.CaseClause); ok && len(cc.List) == 1 && strings.Contains(pr(cc.List[0]), a.Select) {
			if n == a.Nth {
				hit = cc.List[0]
				return false
			}
			n++
		}
		return true
	})
	if hit == nil {
		failf("no case clause mentioning %q (occurrence %d)", a.Select, a.Nth)
	}
	t := &tr{syms: a.Syms}
	body, ty := t.expr(hit)
	if ty != a.RetTy {
		failf("case condition of sort %s", ty)
	}
	coq := fmt.Sprintf("Definition %s %s : %s :=\n  %s.", a.Name, a.Header, a.RetTy, body)
	return matched{a.Name, a.File, a.Recv + "." + a.Func, fset.Position(hit.Pos()).Line, pr(hit), coq}, nil
}

// codecLost: the anchor is gone; keep the model compiling with its last known form
func codecLost(name string, err error) (matched, bool) {
	def, ok := codecDefaults[name]
	if !ok {
		return matched{}, false
	}
	return matched{name, "message.go", "ANCHOR LOST", 0,
		"TIE BROKEN (" + strings.ReplaceAll(err.Error(), "*)", "* )") + "): last known form kept so that the correspondence run can proceed", def}, true
}

func codecExtras(repo string, files map[string]*ast.File) (map[string][]matched, []string) {
	var out []matched
	var errs []string
	msg, err := codecFile(repo, files, "message.go")
	if err != nil {
		return nil, []string{"anchor g_client_msg_regexp (message.go): parse error: " + err.Error()}
	}

	// ---- constants ------------------------------------------------------
	consts := []string{
		"MsgLabelEvent", "MsgLabelReq", "MsgLabelClose", "MsgLabelAuth", "MsgLabelCount",
		"MsgLabelEOSE", "MsgLabelNotice", "MsgLabelOK", "MsgLabelClosed",
		"MachineReadablePrefixPoW", "MachineReadablePrefixDuplicate", "MachineReadablePrefixBlocked",
		"MachineReadablePrefixRateLimited", "MachineReadablePrefixInvalid", "MachineReadablePrefixError",
	}
	constSyms := map[string]sym{}
	for _, c := range consts {
		m, err := codecConst(msg, c)
		if err != nil {
			errs = append(errs, err.Error())
			var ok bool
			if m, ok = codecLost("g_"+c, err); !ok {
				continue
			}
		}
		out = append(out, m)
		constSyms[c] = s("g_" + c)
	}
	if m, err := codecRegexp(msg); err != nil {
		errs = append(errs, err.Error())
		if m, ok := codecLost("g_client_msg_regexp", err); ok {
			out = append(out, m)
		}
	} else {
		out = append(out, m)
	}
	if ms, err := codecSplitN(msg); err != nil {
		errs = append(errs, err.Error())
		for _, n := range []string{"g_naddr_split_n", "g_naddr_sep"} {
			if m, ok := codecLost(n, err); ok {
				out = append(out, m)
			}
		}
	} else {
		out = append(out, ms...)
	}

	with := func(extra map[string]sym) map[string]sym {
		r := map[string]sym{}
		for k, v := range constSyms {
			r[k] = v
		}
		for k, v := range extra {
			r[k] = v
		}
		return r
	}
	lenZ := "(len : Z)"
	const f = "message.go"
	un := "UnmarshalJSON"
	arity := func(name, recv string) anchor {
		return anchor{Name: name, File: f, Recv: recv, Func: un, Kind: "ifcond", Select: "len(elems)",
			Header: lenZ, RetTy: "bool", Out: codecOut, Syms: map[string]sym{"len(elems)": z("len")}}
	}
	label := func(name, recv, sel string) anchor {
		return anchor{Name: name, File: f, Recv: recv, Func: un, Kind: "ifcond", Select: sel,
			Header: "(label : str)", RetTy: "bool", Out: codecOut,
			Syms: with(map[string]sym{"label": s("label"), "elems[0]": s("label")})}
	}
	as := []anchor{
		// ---- decoders: arity and label tests --------------------------------
		arity("g_cevent_arity_bad", "ClientEventMsg"), label("g_cevent_label_bad", "ClientEventMsg", "label != "),
		arity("g_creq_arity_bad", "ClientReqMsg"), label("g_creq_label_bad", "ClientReqMsg", "label != "),
		arity("g_cclose_arity_bad", "ClientCloseMsg"), label("g_cclose_label_bad", "ClientCloseMsg", "elems[0] != "),
		arity("g_cauth_arity_bad", "ClientAuthMsg"), label("g_cauth_label_bad", "ClientAuthMsg", "label != "),
		arity("g_ccount_arity_bad", "ClientCountMsg"), label("g_ccount_label_bad", "ClientCountMsg", "label != "),
		arity("g_seose_arity_bad", "ServerEOSEMsg"), label("g_seose_label_bad", "ServerEOSEMsg", "elems[0] != "),
		arity("g_sevent_arity_bad", "ServerEventMsg"), label("g_sevent_label_bad", "ServerEventMsg", "label != "),
		arity("g_snotice_arity_bad", "ServerNoticeMsg"), label("g_snotice_label_bad", "ServerNoticeMsg", "elems[0] != "),
		arity("g_sok_arity_bad", "ServerOKMsg"), label("g_sok_label_bad", "ServerOKMsg", "label != "),
		arity("g_sauth_arity_bad", "ServerAuthMsg"), label("g_sauth_label_bad", "ServerAuthMsg", "elems[0] != "),
		arity("g_scount_arity_bad", "ServerCountMsg"), label("g_scount_label_bad", "ServerCountMsg", "label != "),
		arity("g_sclosed_arity_bad", "ServerClosedMsg"), label("g_sclosed_label_bad", "ServerClosedMsg", "elems[0] != "),
		{Name: "g_event_nfields_bad", File: f, Recv: "Event", Func: un, Kind: "ifcond", Select: "l != 7",
			Header: lenZ, RetTy: "bool", Out: codecOut, Syms: map[string]sym{"l": z("len")}},

		// ---- validators ------------------------------------------------------
		{Name: "g_event_valid", File: f, Recv: "Event", Func: "Valid", Kind: "body",
			Header: "(nonnil id_ok pk_ok kind_ok tags_nonnil tags_ok sig_ok : bool)", RetTy: "bool", Out: codecOut,
			Syms: map[string]sym{"ev != nil": b("nonnil"), "validID(ev.ID)": b("id_ok"), "validPubkey(ev.Pubkey)": b("pk_ok"),
				"validKind(ev.Kind)": b("kind_ok"), "ev.Tags != nil": b("tags_nonnil"),
				"sliceAllFunc(ev.Tags, validTag)": b("tags_ok"), "validSig(ev.Sig)": b("sig_ok")}},
		{Name: "g_cevent_valid", File: f, Recv: "ClientEventMsg", Func: "Valid", Kind: "body",
			Header: "(nonnil ev_valid : bool)", RetTy: "bool", Out: codecOut,
			Syms: map[string]sym{"msg != nil": b("nonnil"), "msg.Event.Valid()": b("ev_valid")}},
		{Name: "g_cauth_valid", File: f, Recv: "ClientAuthMsg", Func: "Valid", Kind: "body",
			Header: "(nonnil ev_valid : bool)", RetTy: "bool", Out: codecOut,
			Syms: map[string]sym{"msg != nil": b("nonnil"), "msg.Event.Valid()": b("ev_valid")}},
		{Name: "g_cclose_valid", File: f, Recv: "ClientCloseMsg", Func: "Valid", Kind: "body",
			Header: "(nonnil : bool)", RetTy: "bool", Out: codecOut,
			Syms: map[string]sym{"msg != nil": b("nonnil")}},
		{Name: "g_creq_nofilters", File: f, Recv: "ClientReqMsg", Func: "Valid", Kind: "ifcond", Select: "len(msg.ReqFilters)",
			Header: "(n : Z)", RetTy: "bool", Out: codecOut, Syms: map[string]sym{"len(msg.ReqFilters)": z("n")}},
		{Name: "g_ccount_nofilters", File: f, Recv: "ClientCountMsg", Func: "Valid", Kind: "ifcond", Select: "len(msg.ReqFilters)",
			Header: "(n : Z)", RetTy: "bool", Out: codecOut, Syms: map[string]sym{"len(msg.ReqFilters)": z("n")}},
		{Name: "g_filter_tagname_bad", File: f, Recv: "ReqFilter", Func: "Valid", Kind: "ifcond", Select: "len(tag) != 1",
			Header: "(len t0 : Z)", RetTy: "bool", Out: codecOut,
			Syms: map[string]sym{"len(tag)": z("len"), "tag[0]": z("t0")}},
		{Name: "g_filter_since_neg", File: f, Recv: "ReqFilter", Func: "Valid", Kind: "ifcond", Select: "*fil.Since < 0",
			Header: "(since : Z)", RetTy: "bool", Out: codecOut, Syms: map[string]sym{"*fil.Since": z("since")}},
		{Name: "g_filter_until_neg", File: f, Recv: "ReqFilter", Func: "Valid", Kind: "ifcond", Select: "*fil.Until < 0",
			Header: "(until : Z)", RetTy: "bool", Out: codecOut, Syms: map[string]sym{"*fil.Until": z("until")}},
		{Name: "g_filter_window_checked", File: f, Recv: "ReqFilter", Func: "Valid", Kind: "ifcond", Select: "fil.Since != nil &&",
			Header: "(has_since has_until : bool)", RetTy: "bool", Out: codecOut,
			Syms: map[string]sym{"fil.Since != nil": b("has_since"), "fil.Until != nil": b("has_until")}},
		{Name: "g_filter_window_bad", File: f, Recv: "ReqFilter", Func: "Valid", Kind: "ifcond", Select: "*fil.Since > *fil.Until",
			Header: "(since until : Z)", RetTy: "bool", Out: codecOut,
			Syms: map[string]sym{"*fil.Since": z("since"), "*fil.Until": z("until")}},
		{Name: "g_filter_limit_neg", File: f, Recv: "ReqFilter", Func: "Valid", Kind: "ifcond", Select: "*fil.Limit < 0",
			Header: "(limit : Z)", RetTy: "bool", Out: codecOut, Syms: map[string]sym{"*fil.Limit": z("limit")}},
		{Name: "g_naddr_arity_bad", File: f, Func: "validNaddr", Kind: "ifcond", Select: "len(elems)",
			Header: lenZ, RetTy: "bool", Out: codecOut, Syms: map[string]sym{"len(elems)": z("len")}},
	}
	for _, a := range as {
		m, err := translate(repo, a, files)
		if err != nil {
			errs = append(errs, err.Error())
			var ok bool
			if m, ok = codecLost(a.Name, err); !ok {
				continue
			}
		}
		out = append(out, m)
	}

	// ---- the key dispatch of ReqFilter.UnmarshalJSON (case clauses) --------
	key := func(name, lit string) anchor {
		return anchor{Name: name, File: f, Recv: "ReqFilter", Func: un, Select: `k == "` + lit + `"`,
			Header: "(k : str)", RetTy: "bool", Syms: map[string]sym{"k": s("k")}}
	}
	cs := []anchor{
		key("g_fkey_ids", "ids"), key("g_fkey_authors", "authors"), key("g_fkey_kinds", "kinds"),
		{Name: "g_fkey_tag", File: f, Recv: "ReqFilter", Func: un, Select: "len(k) == 2",
			Header: "(len k0 k1 : Z)", RetTy: "bool",
			Syms: map[string]sym{"len(k)": z("len"), "k[0]": z("k0"), "k[1]": z("k1")}},
		key("g_fkey_since", "since"), key("g_fkey_until", "until"), key("g_fkey_limit", "limit"),
	}
	for _, a := range cs {
		m, err := codecCase(msg, a)
		if err != nil {
			errs = append(errs, err.Error())
			var ok bool
			if m, ok = codecLost(a.Name, err); !ok {
				continue
			}
		}
		out = append(out, m)
	}
	return map[string][]matched{codecOut: out}, errs
}
