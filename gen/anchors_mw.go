package main

// Anchors of group mw (C17, C18): the rejecting condition of every limit
// middleware, the constructor range checks, the quota test, the look-up used
// by the two unique filters, and the structure of BuildMiddlewareFromNIP11
// (nil guards, names and order of the chain).  Output: Gen/GenMw.v.

import (
	"flag"
	"fmt"
	"go/ast"
	"go/parser"
	"go/token"
	"path/filepath"
	"strings"
)

func init() {
	anchorSets = append(anchorSets, mwAnchors)
	extraFns = append(extraFns, mwExtras)
}

func mwAnchors() []anchor {
	const out = "GenMw"
	const h = "handler.go"
	cnt := func(name, recv, sel string, nth int, lenExpr, limExpr string) anchor {
		return anchor{Name: name, File: h, Recv: recv, Func: "ServeNostrClientMsg", Kind: "ifcond", Select: sel, Nth: nth,
			Header: "(n max : Z)", RetTy: "bool", Out: out,
			Syms: map[string]sym{lenExpr: z("n"), limExpr: z("max")}}
	}
	ctor := func(name, fn, arg string) anchor {
		return anchor{Name: name, File: h, Func: fn, Kind: "ifcond", Select: arg,
			Header: "(n : Z)", RetTy: "bool", Out: out, Syms: map[string]sym{arg: z("n")}}
	}
	return []anchor{
		// ---- rejecting conditions (true = the message is answered, not forwarded)
		cnt("g_mw_max_filters_req", "simpleMaxReqFiltersMiddlewareBase", "len(msg.ReqFilters)", 0, "len(msg.ReqFilters)", "m.maxFilters"),
		cnt("g_mw_max_filters_count", "simpleMaxReqFiltersMiddlewareBase", "len(msg.ReqFilters)", 1, "len(msg.ReqFilters)", "m.maxFilters"),
		cnt("g_mw_max_subid_req", "simpleMaxSubIDLengthMiddlewareBase", "len(msg.SubscriptionID)", 0, "len(msg.SubscriptionID)", "m.maxSubIDLength"),
		cnt("g_mw_max_subid_count", "simpleMaxSubIDLengthMiddlewareBase", "len(msg.SubscriptionID)", 1, "len(msg.SubscriptionID)", "m.maxSubIDLength"),
		cnt("g_mw_max_event_tags", "simpleMaxEventTagsMiddlewareBase", "len(msg.Event.Tags)", 0, "len(msg.Event.Tags)", "m.maxEventTags"),
		cnt("g_mw_max_content", "simpleMaxContentLengthMiddlewareBase", "len(msg.Event.Content)", 0, "len(msg.Event.Content)", "m.maxContentLength"),
		// time-based ones, on integer seconds: time.Second is the unit
		{Name: "g_mw_created_lower", File: h, Recv: "simpleCreatedAtLowerLimitMiddlewareBase", Func: "ServeNostrClientMsg",
			Kind: "ifcond", Select: "sinceCreatedAt", Header: "(now created_at lower : Z)", RetTy: "bool", Out: out,
			Syms: map[string]sym{"sinceCreatedAt(msg.Event)": z("(now - created_at)"),
				"time.Duration(m.lower)": z("lower"), "time.Second": z("1")}},
		{Name: "g_mw_created_upper", File: h, Recv: "simpleCreatedAtUpperLimitMiddlewareBase", Func: "ServeNostrClientMsg",
			Kind: "ifcond", Select: "untilCreatedAt", Header: "(now created_at upper : Z)", RetTy: "bool", Out: out,
			Syms: map[string]sym{"untilCreatedAt(msg.Event)": z("(created_at - now)"),
				"time.Duration(m.upper)": z("upper"), "time.Second": z("1")}},
		// EventCreatedAtMiddleware: sub := time.Until(created)
		{Name: "g_mw_created_window_old", File: h, Recv: "simpleEventCreatedAtMiddlewareBase", Func: "ServeNostrClientMsg",
			Kind: "ifcond", Select: "m.from", Header: "(now created_at from to : Z)", RetTy: "bool", Out: out,
			Syms: map[string]sym{"sub": z("(created_at - now)"), "m.from": z("from"), "m.to": z("to")}},
		{Name: "g_mw_created_window_far", File: h, Recv: "simpleEventCreatedAtMiddlewareBase", Func: "ServeNostrClientMsg",
			Kind: "ifcond", Select: "m.to", Header: "(now created_at from to : Z)", RetTy: "bool", Out: out,
			Syms: map[string]sym{"sub": z("(created_at - now)"), "m.from": z("from"), "m.to": z("to")}},
		{Name: "g_mw_allow_reject", File: h, Recv: "simpleRecvEventAllowFilterMiddlewareBase", Func: "ServeNostrClientMsg",
			Kind: "ifcond", Select: "m.matcher.Match", Header: "(matched : bool)", RetTy: "bool", Out: out,
			Syms: map[string]sym{"m.matcher.Match(msg.Event)": b("matched")}},
		{Name: "g_mw_deny_reject", File: h, Recv: "simpleRecvEventDenyFilterMiddlewareBase", Func: "ServeNostrClientMsg",
			Kind: "ifcond", Select: "m.matcher.Match", Header: "(matched : bool)", RetTy: "bool", Out: out,
			Syms: map[string]sym{"m.matcher.Match(msg.Event)": b("matched")}},
		// ---- C18
		{Name: "g_quota_over", File: h, Recv: "simpleMaxSubscriptionsMiddlewareBase", Func: "handleClientReqMsg",
			Kind: "ifcond", Select: "len(v.subs)", Header: "(n max : Z)", RetTy: "bool", Out: out,
			Syms: map[string]sym{"len(v.subs)": z("n"), "m.maxSubs": z("max")}},
		{Name: "g_recv_unique_hit", File: h, Recv: "simpleRecvEventUniqueFilterMiddlewareBase", Func: "ServeNostrClientMsg",
			Kind: "ifcond", Select: "found", Header: "(found : bool)", RetTy: "bool", Out: out,
			Syms: map[string]sym{"found": b("found")}},
		{Name: "g_send_unique_hit", File: h, Recv: "simpleSendEventUniqueFilterMiddlewareBase", Func: "ServeNostrServerMsg",
			Kind: "ifcond", Select: "found", Header: "(found : bool)", RetTy: "bool", Out: out,
			Syms: map[string]sym{"found": b("found")}},
		// ---- constructor range checks (true = the constructor panics)
		ctor("g_mw_ctor_bad_max_subs", "newSimpleMaxSubscriptionsMiddlewareBase", "maxSubs"),
		ctor("g_mw_ctor_bad_max_filters", "newSimpleMaxReqFiltersMiddlewareBase", "maxFilters"),
		ctor("g_mw_ctor_bad_max_limit", "newSimpleMaxLimitMiddlewareBase", "maxLimit"),
		ctor("g_mw_ctor_bad_max_subid", "newSimpleMaxSubIDLengthMiddlewareBase", "maxSubIDLength"),
		ctor("g_mw_ctor_bad_max_event_tags", "newSimpleMaxEventTagsMiddlewareBase", "maxEventTags"),
		ctor("g_mw_ctor_bad_max_content", "newSimpleMaxContentLengthMiddlewareBase", "maxContentLength"),
	}
}

// ---------------------------------------------------------------------------
// material that is not a single if-condition

func mwParse(repo string, files map[string]*ast.File, name string) *ast.File {
	f := files[name]
	if f == nil {
		var err error
		f, err = parser.ParseFile(fset, filepath.Join(repo, name), nil, 0)
		if err != nil {
			failf("parse error: %v", err)
		}
		files[name] = f
	}
	return f
}

func mwGuarded(name string, errs *[]string, f func() matched) (m matched, ok bool) {
	defer func() {
		if r := recover(); r != nil {
			if fl, isf := r.(failure); isf {
				*errs = append(*errs, fmt.Sprintf("anchor %s (handler.go): %s", name, fl.msg))
				ok = false
				return
			}
			panic(r)
		}
	}()
	return f(), true
}

func mwExtras(repo string, files map[string]*ast.File) (map[string][]matched, []string) {
	const out = "GenMw"
	var errs []string
	res := map[string][]matched{}
	// on a lost anchor keep the last generated definition, marked stale (as main.go does
	// for plain anchors), so that the model still compiles and the search for a failing
	// input can run
	stale := func(name string) {
		dir := ""
		if f := flag.Lookup("out"); f != nil {
			dir = f.Value.String()
		}
		if old := oldDefinition(filepath.Join(dir, out+".v"), name); old != "" {
			res[out] = append(res[out], matched{name, "handler.go", "", 0,
				"STALE: anchor no longer found in the source; last generated definition kept", old})
		}
	}
	add := func(name string, f func() matched) {
		if m, ok := mwGuarded(name, &errs, f); ok {
			res[out] = append(res[out], m)
		} else {
			stale(name)
		}
	}
	// the predicate handed to slices.ContainsFunc in MaxLimitMiddleware (REQ and COUNT branch)
	for i, name := range []string{"g_mw_max_limit_req", "g_mw_max_limit_count"} {
		i, name := i, name
		add(name, func() matched {
			f := mwParse(repo, files, "handler.go")
			fd := findFunc(f, "simpleMaxLimitMiddlewareBase", "ServeNostrClientMsg")
			if fd == nil {
				failf("function not found")
			}
			var lits []*ast.FuncLit
			ast.Inspect(fd.Body, func(n ast.Node) bool {
				if c, ok := n.(*ast.CallExpr); ok && pr(c.Fun) == "slices.ContainsFunc" && len(c.Args) == 2 {
					if fl, ok := c.Args[1].(*ast.FuncLit); ok {
						lits = append(lits, fl)
					}
				}
				return true
			})
			if i >= len(lits) {
				failf("slices.ContainsFunc with a function literal, occurrence %d, not found", i)
			}
			fl := lits[i]
			if len(fl.Body.List) != 1 {
				failf("predicate body is not a single return")
			}
			ret, ok := fl.Body.List[0].(*ast.ReturnStmt)
			if !ok || len(ret.Results) != 1 {
				failf("predicate body is not a single return")
			}
			t := &tr{syms: map[string]sym{"f.Limit != nil": b("has_limit"), "*f.Limit": z("limit"), "int64(m.maxLimit)": z("max")}}
			body, ty := t.expr(ret.Results[0])
			if ty != "bool" {
				failf("predicate of sort %s", ty)
			}
			coq := fmt.Sprintf("Definition %s (has_limit : bool) (limit max : Z) : bool :=\n  %s.", name, body)
			return matched{name, "handler.go", "simpleMaxLimitMiddlewareBase.ServeNostrClientMsg", fset.Position(fl.Pos()).Line, pr(ret.Results[0]), coq}
		})
	}
	// which look-up the unique filters use: Get promotes the entry, Peek / Contains do not
	for _, it := range [][3]string{
		{"g_recv_unique_lookup_promotes", "simpleRecvEventUniqueFilterMiddlewareBase", "ServeNostrClientMsg"},
		{"g_send_unique_lookup_promotes", "simpleSendEventUniqueFilterMiddlewareBase", "ServeNostrServerMsg"},
	} {
		it := it
		add(it[0], func() matched {
			f := mwParse(repo, files, "handler.go")
			fd := findFunc(f, it[1], it[2])
			if fd == nil {
				failf("function not found")
			}
			var hit *ast.IfStmt
			ast.Inspect(fd.Body, func(n ast.Node) bool {
				if is, ok := n.(*ast.IfStmt); ok && hit == nil && pr(is.Cond) == "found" {
					hit = is
				}
				return hit == nil
			})
			if hit == nil || hit.Init == nil {
				failf("no `if _, found := m.c.X(id); found`")
			}
			as, ok := hit.Init.(*ast.AssignStmt)
			if !ok || len(as.Rhs) != 1 {
				failf("unsupported look-up %s", pr(hit.Init))
			}
			call, ok := as.Rhs[0].(*ast.CallExpr)
			if !ok {
				failf("unsupported look-up %s", pr(hit.Init))
			}
			var v string
			switch pr(call.Fun) {
			case "m.c.Get":
				v = "true"
			case "m.c.Peek", "m.c.Contains":
				v = "false"
			default:
				failf("unknown look-up method %s", pr(call.Fun))
			}
			if len(call.Args) != 1 || pr(call.Args[0]) != "msg.Event.ID" {
				failf("look-up key is %s, expected msg.Event.ID", pr(call))
			}
			coq := fmt.Sprintf("Definition %s : bool := %s.", it[0], v)
			return matched{it[0], "handler.go", it[1] + "." + it[2], fset.Position(hit.Pos()).Line, pr(hit.Init), coq}
		})
	}
	// BuildMiddlewareFromNIP11
	var chain []matched
	if _, ok := mwGuarded("g_nip11_chain", &errs, func() matched {
		chain = mwNip11(repo, files)
		return matched{}
	}); ok {
		res[out] = append(res[out], chain...)
	} else {
		for _, n := range []string{"g_nip11_outer_identity", "g_nip11_inner_identity", "g_nip11_chain"} {
			stale(n)
		}
	}
	return res, errs
}

// mwNip11 reads BuildMiddlewareFromNIP11:
//
//	{ if G { return <identity> } | x := nip11.Limitation }*   outer guards, alias
//	return func(h Handler) Handler {
//	    { x := nip11.Limitation }?             alias
//	    { if G { return h } }*                 inner guards (before the first chain entry)
//	    { if v := <lim>.F; C(v) { h = NewY(v)(h) } }*
//	    return h
//	}
//
// and emits g_nip11_outer_identity, g_nip11_inner_identity (disjunction of the
// guards over doc_nil / lim_nil) and g_nip11_chain (field, constructor,
// condition; in source order, i.e. innermost first).
func mwNip11(repo string, files map[string]*ast.File) []matched {
	f := mwParse(repo, files, "handler.go")
	fd := findFunc(f, "", "BuildMiddlewareFromNIP11")
	if fd == nil || fd.Body == nil {
		failf("function not found")
	}
	if fd.Type.Params == nil || len(fd.Type.Params.List) != 1 || len(fd.Type.Params.List[0].Names) != 1 {
		failf("unexpected parameter list")
	}
	doc := fd.Type.Params.List[0].Names[0].Name
	lim := map[string]bool{doc + ".Limitation": true}
	guardSyms := func() map[string]sym {
		m := map[string]sym{doc + " == nil": b("doc_nil"), doc + " != nil": b("(negb doc_nil)")}
		for l := range lim {
			m[l+" == nil"] = b("lim_nil")
			m[l+" != nil"] = b("(negb lim_nil)")
		}
		return m
	}
	guard := func(e ast.Expr) string {
		t := &tr{syms: guardSyms()}
		c, ty := t.expr(e)
		if ty != "bool" {
			failf("guard of sort %s", ty)
		}
		return c
	}
	isIdentityLit := func(e ast.Expr) bool {
		fl, ok := e.(*ast.FuncLit)
		if !ok || fl.Type.Params == nil || len(fl.Type.Params.List) != 1 || len(fl.Type.Params.List[0].Names) != 1 {
			return false
		}
		p := fl.Type.Params.List[0].Names[0].Name
		if len(fl.Body.List) != 1 {
			return false
		}
		r, ok := fl.Body.List[0].(*ast.ReturnStmt)
		return ok && len(r.Results) == 1 && pr(r.Results[0]) == p
	}
	var outer, outerGo []string
	var lit *ast.FuncLit
	for i, st := range fd.Body.List {
		switch s := st.(type) {
		case *ast.IfStmt:
			if s.Init != nil || s.Else != nil || len(s.Body.List) != 1 {
				failf("unsupported outer statement %q", pr(s))
			}
			r, ok := s.Body.List[0].(*ast.ReturnStmt)
			if !ok || len(r.Results) != 1 || !isIdentityLit(r.Results[0]) {
				failf("outer guard does not return the identity middleware: %q", pr(s))
			}
			outer = append(outer, guard(s.Cond))
			outerGo = append(outerGo, pr(s.Cond))
		case *ast.AssignStmt: // alias of the limitation block: x := nip11.Limitation
			if s.Tok != token.DEFINE || len(s.Lhs) != 1 || len(s.Rhs) != 1 || !lim[pr(s.Rhs[0])] {
				failf("unsupported outer statement %q", pr(s))
			}
			lim[pr(s.Lhs[0])] = true
		case *ast.ReturnStmt:
			if i != len(fd.Body.List)-1 || len(s.Results) != 1 {
				failf("unsupported return %q", pr(s))
			}
			fl, ok := s.Results[0].(*ast.FuncLit)
			if !ok {
				failf("final return is not a function literal")
			}
			lit = fl
		default:
			failf("unsupported outer statement %q", pr(st))
		}
	}
	if lit == nil || lit.Type.Params == nil || len(lit.Type.Params.List) != 1 || len(lit.Type.Params.List[0].Names) != 1 {
		failf("no returned func(h Handler) Handler")
	}
	hname := lit.Type.Params.List[0].Names[0].Name
	var inner, innerGo []string
	type entry struct{ field, ctor, cond, gotext string }
	var chain []entry
	sawReturn := false
	for i, st := range lit.Body.List {
		switch s := st.(type) {
		case *ast.AssignStmt:
			if s.Tok != token.DEFINE || len(s.Lhs) != 1 || len(s.Rhs) != 1 || !lim[pr(s.Rhs[0])] || len(chain) > 0 {
				failf("unsupported statement %q", pr(s))
			}
			lim[pr(s.Lhs[0])] = true
		case *ast.IfStmt:
			if s.Else != nil || len(s.Body.List) != 1 {
				failf("unsupported statement %q", pr(s))
			}
			if s.Init == nil {
				r, ok := s.Body.List[0].(*ast.ReturnStmt)
				if !ok || len(r.Results) != 1 || pr(r.Results[0]) != hname || len(chain) > 0 {
					failf("unsupported inner guard %q", pr(s))
				}
				inner = append(inner, guard(s.Cond))
				innerGo = append(innerGo, pr(s.Cond))
				continue
			}
			as, ok := s.Init.(*ast.AssignStmt)
			if !ok || as.Tok != token.DEFINE || len(as.Lhs) != 1 || len(as.Rhs) != 1 {
				failf("unsupported chain entry %q", pr(s))
			}
			v := pr(as.Lhs[0])
			sel, ok := as.Rhs[0].(*ast.SelectorExpr)
			if !ok || !lim[pr(sel.X)] {
				failf("chain entry reads %s, expected a field of %s.Limitation", pr(as.Rhs[0]), doc)
			}
			t := &tr{syms: map[string]sym{v: z("v")}}
			c, ty := t.expr(s.Cond)
			if ty != "bool" {
				failf("chain condition of sort %s", ty)
			}
			// body: h = NewY(v)(h)
			bs, ok := s.Body.List[0].(*ast.AssignStmt)
			if !ok || bs.Tok != token.ASSIGN || len(bs.Lhs) != 1 || len(bs.Rhs) != 1 || pr(bs.Lhs[0]) != hname {
				failf("unsupported chain body %q", pr(s.Body))
			}
			app, ok := bs.Rhs[0].(*ast.CallExpr)
			if !ok || len(app.Args) != 1 || pr(app.Args[0]) != hname {
				failf("unsupported chain body %q", pr(s.Body))
			}
			mk, ok := app.Fun.(*ast.CallExpr)
			if !ok || len(mk.Args) != 1 || pr(mk.Args[0]) != v {
				failf("unsupported chain body %q", pr(s.Body))
			}
			id, ok := mk.Fun.(*ast.Ident)
			if !ok {
				failf("unsupported constructor %q", pr(mk.Fun))
			}
			chain = append(chain, entry{sel.Sel.Name, id.Name, c, pr(s.Init) + "; " + pr(s.Cond) + " { " + pr(bs) + " }"})
		case *ast.ReturnStmt:
			if i != len(lit.Body.List)-1 || len(s.Results) != 1 || pr(s.Results[0]) != hname {
				failf("unsupported return %q", pr(s))
			}
			sawReturn = true
		default:
			failf("unsupported statement %q", pr(st))
		}
	}
	if !sawReturn {
		failf("closure does not end in return %s", hname)
	}
	disj := func(xs []string) string {
		if len(xs) == 0 {
			return "false"
		}
		return "(" + strings.Join(xs, " || ") + ")"
	}
	line := fset.Position(fd.Pos()).Line
	fn := ".BuildMiddlewareFromNIP11"
	ms := []matched{
		{"g_nip11_outer_identity", "handler.go", fn, line, "guards returning the identity middleware before the closure: " + strings.Join(outerGo, " ; "),
			"Definition g_nip11_outer_identity (doc_nil lim_nil : bool) : bool :=\n  " + disj(outer) + "."},
		{"g_nip11_inner_identity", "handler.go", fn, fset.Position(lit.Pos()).Line, "guards returning h inside the closure, before the first limit: " + strings.Join(innerGo, " ; "),
			"Definition g_nip11_inner_identity (doc_nil lim_nil : bool) : bool :=\n  " + disj(inner) + "."},
	}
	var items, gos []string
	for _, e := range chain {
		items = append(items, fmt.Sprintf("(%s, %s, fun v : Z => %s)", coqStr(e.field), coqStr(e.ctor), e.cond))
		gos = append(gos, "if "+e.gotext)
	}
	body := "[]"
	if len(items) > 0 {
		body = "[ " + strings.Join(items, ";\n    ") + " ]"
	}
	ms = append(ms, matched{"g_nip11_chain", "handler.go", fn, fset.Position(lit.Pos()).Line, strings.Join(gos, " ; "),
		"Definition g_nip11_chain : list (str * str * (Z -> bool)) :=\n  " + body + "."})
	return ms
}
