package main

// Guards of the merge handler (handler.go: MergeHandler, mergeHandlerSession and
// its three state types), regenerated into coq/theories/Gen/GenMerge.v and used
// by coq/theories/Merge.v wherever the code has a length test, a comparison or a
// negation that a plausible edit would change.

func init() { anchorSets = append(anchorSets, mergeAnchors) }

func mergeAnchors() []anchor {
	const f = "handler.go"
	const out = "GenMerge"
	ss := "mergeHandlerSession"
	okS := "mergeHandlerSessionOKState"
	rqS := "mergeHandlerSessionReqState"
	cnS := "mergeHandlerSessionCountState"
	lenZ := "(len : Z)"
	return []anchor{
		// ---- construction ------------------------------------------------
		{Name: "g_merge_too_few", File: f, Func: "NewMergeHandler", Kind: "ifcond", Select: "len(handlers)",
			Header: "(n : Z)", RetTy: "bool", Out: out,
			Syms: map[string]sym{"len(handlers)": z("n")}},

		// ---- handleSend*: the gates between state and the client ---------
		{Name: "g_eose_already", File: f, Recv: ss, Func: "handleSendEOSEMsg", Kind: "ifcond", Select: "s.AllEOSE", Nth: 0,
			Header: "(all : bool)", RetTy: "bool", Out: out,
			Syms: map[string]sym{"s.AllEOSE(m.SubscriptionID)": b("all")}},
		{Name: "g_eose_incomplete", File: f, Recv: ss, Func: "handleSendEOSEMsg", Kind: "ifcond", Select: "s.AllEOSE", Nth: 1,
			Header: "(all : bool)", RetTy: "bool", Out: out,
			Syms: map[string]sym{"s.AllEOSE(m.SubscriptionID)": b("all")}},
		{Name: "g_event_unsendable", File: f, Recv: ss, Func: "handleSendEventMsg", Kind: "ifcond", Select: "s.IsSendableEventMsg",
			Header: "(sendable : bool)", RetTy: "bool", Out: out,
			Syms: map[string]sym{"s.IsSendableEventMsg(msg.Idx, m)": b("sendable")}},
		{Name: "g_ok_not_ready", File: f, Recv: ss, Func: "handleSendOKMsg", Kind: "ifcond", Select: "s.Ready",
			Header: "(ready : bool)", RetTy: "bool", Out: out,
			Syms: map[string]sym{"s.Ready(m.EventID)": b("ready")}},
		{Name: "g_count_not_ready", File: f, Recv: ss, Func: "handleSendCountMsg", Kind: "ifcond", Select: "s.Ready",
			Header: "(ready : bool)", RetTy: "bool", Out: out,
			Syms: map[string]sym{"s.Ready(m.SubscriptionID, msg.Idx)": b("ready")}},

		// ---- OK state ------------------------------------------------------
		{Name: "g_ok_no_slot", File: f, Recv: okS, Func: "TrySetEventID", Kind: "ifcond", Select: "len(stat.s[eventID])",
			Header: lenZ, RetTy: "bool", Out: out,
			Syms: map[string]sym{"len(stat.s[eventID])": z("len")}},
		// a reply is dropped when nobody waits for the id or the child has already answered every pending submission
		{Name: "g_ok_setmsg_drop", File: f, Recv: okS, Func: "SetMsg", Kind: "ifcond", Select: "len(msgs)",
			Header: "(len qlen pending : Z)", RetTy: "bool", Out: out,
			Syms: map[string]sym{"len(msgs)": z("len"), "len(msgs[chIdx])": z("qlen"),
				"stat.pending[msg.EventID]": z("pending")}},
		{Name: "g_ok_clear_done", File: f, Recv: okS, Func: "ClearEventID", Kind: "ifcond", Select: "stat.pending[eventID]",
			Header: "(pending : Z)", RetTy: "bool", Out: out,
			Syms: map[string]sym{"stat.pending[eventID]": z("pending")}},
		{Name: "g_ok_ready_absent", File: f, Recv: okS, Func: "Ready", Kind: "ifcond", Select: "len(msgs)",
			Header: lenZ, RetTy: "bool", Out: out,
			Syms: map[string]sym{"len(msgs)": z("len")}},
		{Name: "g_ok_msg_absent", File: f, Recv: okS, Func: "Msg", Kind: "ifcond", Select: "len(msgs)",
			Header: lenZ, RetTy: "bool", Out: out,
			Syms: map[string]sym{"len(msgs)": z("len")}},
		{Name: "g_ok_is_accepted", File: f, Recv: okS, Func: "Msg", Kind: "ifcond", Select: "msg.Accepted",
			Header: "(accepted : bool)", RetTy: "bool", Out: out,
			Syms: map[string]sym{"msg.Accepted": b("accepted")}},
		{Name: "g_ok_any_rejected", File: f, Recv: okS, Func: "Msg", Kind: "ifcond", Select: "len(ngs)",
			Header: "(nrejected : Z)", RetTy: "bool", Out: out,
			Syms: map[string]sym{"len(ngs)": z("nrejected")}},

		// ---- REQ state -----------------------------------------------------
		{Name: "g_req_seteose_absent", File: f, Recv: rqS, Func: "SetEOSE", Kind: "ifcond", Select: "len(stat.eose[subID])",
			Header: lenZ, RetTy: "bool", Out: out,
			Syms: map[string]sym{"len(stat.eose[subID])": z("len")}},
		{Name: "g_req_alleose_missing", File: f, Recv: rqS, Func: "AllEOSE", Kind: "ifcond", Select: "ok",
			Header: "(present : bool)", RetTy: "bool", Out: out,
			Syms: map[string]sym{"ok": b("present")}},
		{Name: "g_req_alleose_delete", File: f, Recv: rqS, Func: "AllEOSE", Kind: "ifcond", Select: "res",
			Header: "(res : bool)", RetTy: "bool", Out: out,
			Syms: map[string]sym{"res": b("res")}},
		{Name: "g_ev_all_eose", File: f, Recv: rqS, Func: "IsSendableEventMsg", Kind: "ifcond", Select: "stat.AllEOSE",
			Header: "(all : bool)", RetTy: "bool", Out: out,
			Syms: map[string]sym{"stat.AllEOSE(msg.SubscriptionID)": b("all")}},
		{Name: "g_ev_child_eose", File: f, Recv: rqS, Func: "IsSendableEventMsg", Kind: "ifcond", Select: "stat.IsEOSE",
			Header: "(child_eose : bool)", RetTy: "bool", Out: out,
			Syms: map[string]sym{"stat.IsEOSE(msg.SubscriptionID, chIdx)": b("child_eose")}},
		{Name: "g_ev_has_last", File: f, Recv: rqS, Func: "IsSendableEventMsg", Kind: "ifcond", Select: "last != nil",
			Header: "(has_last : bool)", RetTy: "bool", Out: out,
			Syms: map[string]sym{"last != nil": b("has_last")}},
		// res is cmp.Compare(last.Event.CreatedAt, msg.Event.CreatedAt): -1, 0 or +1
		{Name: "g_ev_older_first", File: f, Recv: rqS, Func: "IsSendableEventMsg", Kind: "ifcond", Select: "res < 0",
			Header: "(res : Z)", RetTy: "bool", Out: out,
			Syms: map[string]sym{"res": z("res")}},
		{Name: "g_ev_ts_decreased", File: f, Recv: rqS, Func: "IsSendableEventMsg", Kind: "ifcond", Select: "res > 0",
			Header: "(res : Z)", RetTy: "bool", Out: out,
			Syms: map[string]sym{"res": z("res")}},
		{Name: "g_ev_seen_reject", File: f, Recv: rqS, Func: "IsSendableEventMsg", Kind: "ifcond", Select: "stat.seen",
			Header: "(seen_nil seen_has : bool)", RetTy: "bool", Out: out,
			Syms: map[string]sym{
				"stat.seen[msg.SubscriptionID] == nil":        b("seen_nil"),
				"stat.seen[msg.SubscriptionID][msg.Event.ID]": b("seen_has")}},
		{Name: "g_ev_done", File: f, Recv: rqS, Func: "IsSendableEventMsg", Kind: "ifcond", Select: "Done()",
			Header: "(done : bool)", RetTy: "bool", Out: out,
			Syms: map[string]sym{"stat.matcher[msg.SubscriptionID].Done()": b("done")}},
		{Name: "g_ev_nomatch", File: f, Recv: rqS, Func: "IsSendableEventMsg", Kind: "ifcond", Select: "LimitMatch",
			Header: "(matched : bool)", RetTy: "bool", Out: out,
			Syms: map[string]sym{"stat.matcher[msg.SubscriptionID].LimitMatch(msg.Event)": b("matched")}},

		// ---- COUNT state ---------------------------------------------------
		{Name: "g_cnt_no_slot", File: f, Recv: cnS, Func: "SetSubID", Kind: "ifcond", Select: "len(stat.counts[subID])",
			Header: lenZ, RetTy: "bool", Out: out,
			Syms: map[string]sym{"len(stat.counts[subID])": z("len")}},
		{Name: "g_cnt_set_drop", File: f, Recv: cnS, Func: "SetCountMsg", Kind: "ifcond", Select: "len(counts)",
			Header: "(len qlen pending : Z)", RetTy: "bool", Out: out,
			Syms: map[string]sym{"len(counts)": z("len"), "len(counts[chIdx])": z("qlen"),
				"stat.pending[msg.SubscriptionID]": z("pending")}},
		{Name: "g_cnt_clear_done", File: f, Recv: cnS, Func: "ClearSubID", Kind: "ifcond", Select: "stat.pending[subID]",
			Header: "(pending : Z)", RetTy: "bool", Out: out,
			Syms: map[string]sym{"stat.pending[subID]": z("pending")}},
		{Name: "g_cnt_ready_absent", File: f, Recv: cnS, Func: "Ready", Kind: "ifcond", Select: "len(counts)",
			Header: lenZ, RetTy: "bool", Out: out,
			Syms: map[string]sym{"len(counts)": z("len")}},
	}
}
