package main

// Anchors of the `sql` group (C06, C14): handler/sqlite/{insert,query,migrate}.go.
//
// Besides ordinary if-condition anchors this file registers an "extras"
// function that
//   - pins the text of the five insert statements, the DDL list, the pragmas
//     and the two seed statements: each string constant is white-space
//     normalised and emitted as a Coq byte list (GenSql.v); SqlProofs.v proves
//     each equal to the text the relational model was written for, so any
//     edit of the SQL breaks a named obligation;
//   - reads the comparison method used by appendSinceQuery / appendUntilQuery
//     (goqu's Gte / Lte / Gt / Lt / Eq) and emits it as a Gallina comparison.

import (
	"fmt"
	"go/ast"
	"go/parser"
	"go/token"
	"path/filepath"
	"strconv"
	"strings"
)

const (
	sqlInsert  = "handler/sqlite/insert.go"
	sqlQuery   = "handler/sqlite/query.go"
	sqlMigrate = "handler/sqlite/migrate.go"
)

func init() {
	anchorSets = append(anchorSets, sqlAnchors)
	extraFns = append(extraFns, sqlExtras)
}

func sqlAnchors() []anchor {
	out := "GenSql"
	return []anchor{
		// ---- insertEvents ------------------------------------------------
		{Name: "g_sql_no_params", File: sqlInsert, Func: "insertEvents", Kind: "ifcond", Select: "len(params)",
			Header: "(n : Z)", RetTy: "bool", Out: out,
			Syms: map[string]sym{"len(params)": z("n")}},
		{Name: "g_sql_unaffected", File: sqlInsert, Func: "insertEvents", Kind: "ifcond", Select: "affected",
			Header: "(affected : Z)", RetTy: "bool", Out: out,
			Syms: map[string]sym{"affected": z("affected")}},

		// ---- buildInsertEventsParamsTags ---------------------------------
		{Name: "g_sql_tag_empty", File: sqlInsert, Func: "buildInsertEventsParamsTags", Kind: "ifcond", Select: "len(tag) == 0",
			Header: "(len : Z)", RetTy: "bool", Out: out,
			Syms: map[string]sym{"len(tag)": z("len")}},
		{Name: "g_sql_tag_name_len_bad", File: sqlInsert, Func: "buildInsertEventsParamsTags", Kind: "ifcond", Select: "len(tag[0])",
			Header: "(len : Z)", RetTy: "bool", Out: out,
			Syms: map[string]sym{"len(tag[0])": z("len")}},
		{Name: "g_sql_tag_name_not_letter", File: sqlInsert, Func: "buildInsertEventsParamsTags", Kind: "ifcond", Select: "tag[0][0]",
			Header: "(c : Z)", RetTy: "bool", Out: out,
			Syms: map[string]sym{"tag[0][0]": z("c")}},
		{Name: "g_sql_tag_has_value", File: sqlInsert, Func: "buildInsertEventsParamsTags", Kind: "ifcond", Select: "len(tag) > 1",
			Header: "(len : Z)", RetTy: "bool", Out: out,
			Syms: map[string]sym{"len(tag)": z("len")}},

		// ---- tombstones: deleted_event_keys ------------------------------
		{Name: "g_sql_dkey_not_k5", File: sqlInsert, Func: "buildInsertEventsParamsDeletedEventKeys", Kind: "ifcond", Select: "event.Kind",
			Header: "(kind : Z)", RetTy: "bool", Out: out,
			Syms: map[string]sym{"event.Kind": z("kind")}},
		{Name: "g_sql_dkey_skip_len", File: sqlInsert, Func: "buildInsertEventsParamsDeletedEventKeys", Kind: "ifcond", Select: "len(tag)",
			Header: "(len : Z)", RetTy: "bool", Out: out,
			Syms: map[string]sym{"len(tag)": z("len")}},
		{Name: "g_sql_dkey_skip_name", File: sqlInsert, Func: "buildInsertEventsParamsDeletedEventKeys", Kind: "ifcond", Select: "tag[0]",
			Header: "(name : str)", RetTy: "bool", Out: out,
			Syms: map[string]sym{"tag[0]": s("name")}},
		{Name: "g_sql_dkey_elems_short", File: sqlInsert, Func: "buildInsertEventsParamsDeletedEventKeys", Kind: "ifcond", Select: "len(elems)",
			Header: "(len : Z)", RetTy: "bool", Out: out,
			Syms: map[string]sym{"len(elems)": z("len")}},

		// ---- tombstones: deleted_event_ids -------------------------------
		{Name: "g_sql_did_not_k5", File: sqlInsert, Func: "buildInsertEventsParamsDeletedEventIDs", Kind: "ifcond", Select: "event.Kind",
			Header: "(kind : Z)", RetTy: "bool", Out: out,
			Syms: map[string]sym{"event.Kind": z("kind")}},
		{Name: "g_sql_did_skip_len", File: sqlInsert, Func: "buildInsertEventsParamsDeletedEventIDs", Kind: "ifcond", Select: "len(tag)",
			Header: "(len : Z)", RetTy: "bool", Out: out,
			Syms: map[string]sym{"len(tag)": z("len")}},
		{Name: "g_sql_did_skip_name", File: sqlInsert, Func: "buildInsertEventsParamsDeletedEventIDs", Kind: "ifcond", Select: "tag[0]",
			Header: "(name : str)", RetTy: "bool", Out: out,
			Syms: map[string]sym{"tag[0]": s("name")}},

		// ---- getEventKey ---------------------------------------------------
		{Name: "g_sql_no_d_tag", File: sqlInsert, Func: "getEventKey", Kind: "ifcond", Select: "idx",
			Header: "(idx : Z)", RetTy: "bool", Out: out,
			Syms: map[string]sym{"idx": z("idx")}},
		{Name: "g_sql_d_has_value", File: sqlInsert, Func: "getEventKey", Kind: "ifcond", Select: "len(event.Tags[idx])",
			Header: "(len : Z)", RetTy: "bool", Out: out,
			Syms: map[string]sym{"len(event.Tags[idx])": z("len")}},

		// ---- query.go ------------------------------------------------------
		{Name: "g_sql_limit_present", File: sqlQuery, Func: "appendLimitQuery", Kind: "ifcond", Select: "limit",
			Header: "(present : bool)", RetTy: "bool", Out: out,
			Syms: map[string]sym{"limit != nil": b("present")}},
		{Name: "g_sql_has_limit", File: sqlQuery, Func: "appendLimitQuery", Kind: "ifcond", Select: "NoLimit",
			Header: "(l nolimit : Z)", RetTy: "bool", Out: out,
			Syms: map[string]sym{"l": z("l"), "NoLimit": z("nolimit")}},
		// the repair of F7: `if f.Limit != nil && *f.Limit == 0 { sub = sub.Where(goqu.L("0")) }`
		{Name: "g_sql_limit0_empty", File: sqlQuery, Func: "buildEventQuery", Kind: "ifcond", Select: "*f.Limit == 0",
			Header: "(present : bool) (limit : Z)", RetTy: "bool", Out: out,
			Syms: map[string]sym{"f.Limit != nil": b("present"), "*f.Limit": z("limit")}},
		{Name: "g_sql_since_present", File: sqlQuery, Func: "appendSinceQuery", Kind: "ifcond", Select: "since",
			Header: "(present : bool)", RetTy: "bool", Out: out,
			Syms: map[string]sym{"since != nil": b("present")}},
		{Name: "g_sql_until_present", File: sqlQuery, Func: "appendUntilQuery", Kind: "ifcond", Select: "until",
			Header: "(present : bool)", RetTy: "bool", Out: out,
			Syms: map[string]sym{"until != nil": b("present")}},

		// ---- migrate.go ----------------------------------------------------
		{Name: "g_sql_seed_generate", File: sqlMigrate, Func: "setOrLoadXXHashSeed", Kind: "ifcond", Select: "ErrNoRows",
			Header: "(norows : bool)", RetTy: "bool", Out: out,
			Syms: map[string]sym{"err == sql.ErrNoRows": b("norows")}},
	}
}

// ---------------------------------------------------------------------------
// extras

func sqlParse(repo, rel string, files map[string]*ast.File) (*ast.File, error) {
	if f := files[rel]; f != nil {
		return f, nil
	}
	f, err := parser.ParseFile(fset, filepath.Join(repo, rel), nil, 0)
	if err != nil {
		return nil, err
	}
	files[rel] = f
	return f, nil
}

func normSQL(s string) string { return strings.Join(strings.Fields(s), " ") }

func strLit(e ast.Expr) (string, bool) {
	bl, ok := e.(*ast.BasicLit)
	if !ok || bl.Kind != token.STRING {
		return "", false
	}
	v, err := strconv.Unquote(bl.Value)
	if err != nil {
		return "", false
	}
	return v, true
}

func coqBytes(s string) string {
	if s == "" {
		return "([] : str)"
	}
	parts := make([]string, 0, len(s))
	for _, c := range []byte(s) {
		parts = append(parts, strconv.Itoa(int(c)))
	}
	return "([" + strings.Join(parts, ";") + "]%N : str)"
}

// constString finds `const name = "..."` at file level.
func constString(f *ast.File, name string) (string, token.Pos, bool) {
	for _, d := range f.Decls {
		gd, ok := d.(*ast.GenDecl)
		if !ok || (gd.Tok != token.CONST && gd.Tok != token.VAR) {
			continue
		}
		for _, sp := range gd.Specs {
			vs, ok := sp.(*ast.ValueSpec)
			if !ok {
				continue
			}
			for i, n := range vs.Names {
				if n.Name == name && i < len(vs.Values) {
					if v, ok := strLit(vs.Values[i]); ok {
						return v, vs.Pos(), true
					}
				}
			}
		}
	}
	return "", 0, false
}

// sliceOfStrings finds `name := []string{...}` inside function fn.
func sliceOfStrings(f *ast.File, fn, name string) ([]string, token.Pos, bool) {
	fd := findFunc(f, "", fn)
	if fd == nil || fd.Body == nil {
		return nil, 0, false
	}
	var out []string
	var pos token.Pos
	found := false
	ast.Inspect(fd.Body, func(n ast.Node) bool {
		as, ok := n.(*ast.AssignStmt)
		if !ok || found || len(as.Lhs) != 1 || len(as.Rhs) != 1 {
			return true
		}
		id, ok := as.Lhs[0].(*ast.Ident)
		if !ok || id.Name != name {
			return true
		}
		cl, ok := as.Rhs[0].(*ast.CompositeLit)
		if !ok {
			return true
		}
		good := true
		for _, el := range cl.Elts {
			v, ok := strLit(el)
			if !ok {
				good = false
				break
			}
			out = append(out, v)
		}
		if good {
			found = true
			pos = as.Pos()
		}
		return true
	})
	return out, pos, found
}

// callStringArgs collects the string literals passed to calls of the given
// method names inside function fn, in source order.
func callStringArgs(f *ast.File, fn string, methods map[string]bool) ([]string, token.Pos, bool) {
	fd := findFunc(f, "", fn)
	if fd == nil || fd.Body == nil {
		return nil, 0, false
	}
	var out []string
	ast.Inspect(fd.Body, func(n ast.Node) bool {
		ce, ok := n.(*ast.CallExpr)
		if !ok {
			return true
		}
		se, ok := ce.Fun.(*ast.SelectorExpr)
		if !ok || !methods[se.Sel.Name] {
			return true
		}
		for _, a := range ce.Args {
			if v, ok := strLit(a); ok {
				out = append(out, v)
			}
		}
		return true
	})
	return out, fd.Pos(), true
}

// cmpMethod finds, inside fn, the single call `<col>.<M>(*<arg>)` with M one
// of goqu's comparison methods and returns M.
func cmpMethod(f *ast.File, fn, arg string) (string, token.Pos, error) {
	fd := findFunc(f, "", fn)
	if fd == nil || fd.Body == nil {
		return "", 0, fmt.Errorf("function not found")
	}
	ops := map[string]bool{"Gte": true, "Gt": true, "Lte": true, "Lt": true, "Eq": true, "Neq": true}
	var hits []string
	var pos token.Pos
	ast.Inspect(fd.Body, func(n ast.Node) bool {
		ce, ok := n.(*ast.CallExpr)
		if !ok || len(ce.Args) != 1 {
			return true
		}
		se, ok := ce.Fun.(*ast.SelectorExpr)
		if !ok || !ops[se.Sel.Name] {
			return true
		}
		if pr(ce.Args[0]) != "*"+arg {
			return true
		}
		if pr(se.X) != "createdAtCol" {
			return true
		}
		hits = append(hits, se.Sel.Name)
		pos = ce.Pos()
		return true
	})
	if len(hits) != 1 {
		return "", 0, fmt.Errorf("expected exactly one comparison createdAtCol.<op>(*%s), found %d", arg, len(hits))
	}
	return hits[0], pos, nil
}

func sqlExtras(repo string, files map[string]*ast.File) (map[string][]matched, []string) {
	out := map[string][]matched{}
	var errs []string
	add := func(m matched) { out["GenSql"] = append(out["GenSql"], m) }
	fail := func(name, msg string) {
		errs = append(errs, fmt.Sprintf("anchor %s (sql extras): %s", name, msg))
	}

	// -- comparison operators of the since / until conditions
	if qf, err := sqlParse(repo, sqlQuery, files); err != nil {
		fail("g_sql_since_ok", err.Error())
	} else {
		coqOp := map[string]string{"Gte": "(ts >=? bound)", "Gt": "(ts >? bound)", "Lte": "(ts <=? bound)",
			"Lt": "(ts <? bound)", "Eq": "(ts =? bound)", "Neq": "(negb (ts =? bound))"}
		for _, c := range []struct{ name, fn, arg string }{
			{"g_sql_since_ok", "appendSinceQuery", "since"},
			{"g_sql_until_ok", "appendUntilQuery", "until"},
		} {
			m, pos, err := cmpMethod(qf, c.fn, c.arg)
			if err != nil {
				fail(c.name, err.Error())
				continue
			}
			add(matched{Name: c.name, File: sqlQuery, Func: "." + c.fn, Line: fset.Position(pos).Line,
				GoText: "createdAtCol." + m + "( *" + c.arg + " )",
				Coq:    fmt.Sprintf("Definition %s (ts bound : Z) : bool :=\n  %s.", c.name, coqOp[m])})
		}
	}

	// -- text pinning: the five insert statements
	if inf, err := sqlParse(repo, sqlInsert, files); err != nil {
		fail("g_sql_text_*", err.Error())
	} else {
		for _, c := range []struct{ coq, goName string }{
			{"g_sql_text_insert_events", "insertEventsQuery"},
			{"g_sql_text_insert_payloads", "insertEventPayloadsQuery"},
			{"g_sql_text_insert_tags", "insertTagsQuery"},
			{"g_sql_text_insert_dkeys", "insertDeletedEventKeysQuery"},
			{"g_sql_text_insert_dids", "insertDeletedEventIDsQuery"},
		} {
			v, pos, ok := constString(inf, c.goName)
			if !ok {
				fail(c.coq, "string constant "+c.goName+" not found")
				continue
			}
			t := normSQL(v)
			add(matched{Name: c.coq, File: sqlInsert, Func: "." + c.goName, Line: fset.Position(pos).Line,
				GoText: t, Coq: fmt.Sprintf("Definition %s : str :=\n  %s.", c.coq, coqBytes(t))})
		}
	}

	// -- text pinning: DDL list, pragmas, seed statements
	if mf, err := sqlParse(repo, sqlMigrate, files); err != nil {
		fail("g_sql_text_ddls", err.Error())
	} else {
		listDef := func(coq, fn, name string) {
			vs, pos, ok := sliceOfStrings(mf, fn, name)
			if !ok {
				fail(coq, "string slice "+name+" in "+fn+" not found")
				return
			}
			items := make([]string, len(vs))
			texts := make([]string, len(vs))
			for i, v := range vs {
				texts[i] = normSQL(v)
				items[i] = coqBytes(texts[i])
			}
			body := "[]"
			if len(items) > 0 {
				body = "[ " + strings.Join(items, ";\n    ") + " ]"
			}
			add(matched{Name: coq, File: sqlMigrate, Func: "." + fn, Line: fset.Position(pos).Line,
				GoText: strings.Join(texts, " | "), Coq: fmt.Sprintf("Definition %s : list str :=\n  %s.", coq, body)})
		}
		listDef("g_sql_text_ddls", "Migrate", "ddls")
		listDef("g_sql_text_pragmas", "SetPragmas", "pragmas")
		vs, pos, ok := callStringArgs(mf, "setOrLoadXXHashSeed", map[string]bool{"QueryRowContext": true, "ExecContext": true})
		if !ok {
			fail("g_sql_text_seed", "setOrLoadXXHashSeed not found")
		} else {
			items := make([]string, len(vs))
			texts := make([]string, len(vs))
			for i, v := range vs {
				texts[i] = normSQL(v)
				items[i] = coqBytes(texts[i])
			}
			body := "[]"
			if len(items) > 0 {
				body = "[ " + strings.Join(items, ";\n    ") + " ]"
			}
			add(matched{Name: "g_sql_text_seed", File: sqlMigrate, Func: ".setOrLoadXXHashSeed", Line: fset.Position(pos).Line,
				GoText: strings.Join(texts, " | "), Coq: fmt.Sprintf("Definition g_sql_text_seed : list str :=\n  %s.", body)})
		}
	}
	return out, errs
}
