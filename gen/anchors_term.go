package main

// Group term (C13): sessions terminate and release everything.
//
// Output: Gen/GenSession.v
//
//   g_write_deadline_guard / g_ping_deadline_guard
//       the `if` condition that guards context.WithTimeout in
//       Relay.sendMsgWithTimeout / Relay.sendPingWithTimeout
//
//   g_blocking_points : list bp_row
//       EVERY blocking operation of every function and function literal of the
//       session code (all non-test files of the root package, handler/sqlite and
//       middleware/prometheus): each `select` with its cases, each bare channel
//       send, bare receive, range over a channel, WaitGroup.Wait, each call of
//       the guarded-send helpers of utils.go and each blocking library call
//       that takes a context (conn.Read/Write/Ping, limiter.Wait).
//   g_chan_makes  : every make(chan T[, cap]) with the text of its capacity
//   g_defers      : per function unit, the deferred calls in source order
//   g_spawns      : every `go` statement
//   g_closes      : every close(ch)
//
// A function unit is a FuncDecl ("Recv.Name", prefixed "sqlite." / "prometheus."
// outside the root package) or a function literal, named after its enclosing
// unit: "Unit$k" is the k-th literal (1-based, source order) directly inside Unit.
// Ordinals count the blocking operations of one unit in source order from 0.
//
// The walker is purely syntactic.  "Is a channel" for `range x` is decided from
// the declarations visible in the file set: parameters and variables of channel
// type, variables initialised by make(chan …), struct fields of channel type.
// Anything it cannot classify makes it fail loudly (TIE-BROKEN).

import (
	"fmt"
	"go/ast"
	"go/parser"
	"go/token"
	"os"
	"path/filepath"
	"sort"
	"strconv"
	"strings"
)

func init() {
	anchorSets = append(anchorSets, termAnchors)
	extraFns = append(extraFns, termExtras)
}

func termAnchors() []anchor {
	syms := map[string]sym{"relay.opt.PingDuration": z("ping"), "relay.opt.SendTimeout": z("send_timeout")}
	return []anchor{
		{Name: "g_write_deadline_guard", File: "relay.go", Recv: "Relay", Func: "sendMsgWithTimeout", Kind: "ifcond",
			Select: "relay.opt.", Header: "(ping send_timeout : Z)", RetTy: "bool", Out: "GenSession", Syms: syms},
		{Name: "g_ping_deadline_guard", File: "relay.go", Recv: "Relay", Func: "sendPingWithTimeout", Kind: "ifcond",
			Select: "relay.opt.", Header: "(ping send_timeout : Z)", RetTy: "bool", Out: "GenSession", Syms: syms},
	}
}

// directories scanned (relative to the repository) and the prefix of their unit names
var termDirs = []struct{ dir, prefix string }{
	{".", ""},
	{"handler/sqlite", "sqlite."},
	{"middleware/prometheus", "prometheus."},
}

var termHelpers = map[string]bool{"sendCtx": true, "trySendCtx": true, "sendClientMsgCtx": true, "sendServerMsgCtx": true}
var termLibCtx = map[string]bool{"Read": true, "Write": true, "Ping": true, "Wait": true}

type termRow struct {
	unit    string
	ord     int
	kind    string // Gallina term of type bp_kind
	hasDone bool
	hasDef  bool
	line    int
	text    string
}

type termWalk struct {
	prefix     string
	chanFields map[string]bool // struct fields of channel type (whole file set of the directory)
	rows       []termRow
	makes      [][3]string
	defers     map[string][]string
	deferOrder []string
	spawns     [][2]string
	closes     [][2]string
	seenMake   map[ast.Expr]bool
}

func isChanType(e ast.Expr) bool {
	switch t := e.(type) {
	case *ast.ChanType:
		return true
	case *ast.ParenExpr:
		return isChanType(t.X)
	case *ast.IndexExpr: // bufCh[T]
		if id, ok := t.X.(*ast.Ident); ok && id.Name == "bufCh" {
			return true
		}
	}
	return false
}

func isMakeChan(e ast.Expr) (capText string, ok bool) {
	c, isCall := e.(*ast.CallExpr)
	if !isCall {
		return "", false
	}
	id, isId := c.Fun.(*ast.Ident)
	if !isId || id.Name != "make" || len(c.Args) == 0 || !isChanType(c.Args[0]) {
		return "", false
	}
	if len(c.Args) >= 2 {
		return pr(c.Args[1]), true
	}
	return "", true
}

// unit: one function body being walked
type termUnit struct {
	w     *termWalk
	name  string
	chans map[string]bool // identifiers of channel type visible here
	ord   int
	lits  int
}

func (u *termUnit) child(name string) *termUnit {
	c := &termUnit{w: u.w, name: name, chans: map[string]bool{}}
	for k := range u.chans {
		c.chans[k] = true
	}
	return c
}

func (u *termUnit) addParams(ft *ast.FuncType) {
	if ft == nil || ft.Params == nil {
		return
	}
	for _, f := range ft.Params.List {
		if isChanType(f.Type) {
			for _, n := range f.Names {
				u.chans[n.Name] = true
			}
		}
	}
}

func (u *termUnit) isChanExpr(e ast.Expr) bool {
	switch x := e.(type) {
	case *ast.Ident:
		return u.chans[x.Name]
	case *ast.SelectorExpr:
		return u.w.chanFields[x.Sel.Name]
	case *ast.ParenExpr:
		return u.isChanExpr(x.X)
	}
	return false
}

func (u *termUnit) emit(n ast.Node, kind string, hasDone, hasDef bool) {
	u.w.rows = append(u.w.rows, termRow{u.name, u.ord, kind, hasDone, hasDef, fset.Position(n.Pos()).Line, pr(n)})
	u.ord++
}

func recvOf(e ast.Expr) (ast.Expr, bool) {
	for {
		p, ok := e.(*ast.ParenExpr)
		if !ok {
			break
		}
		e = p.X
	}
	if ue, ok := e.(*ast.UnaryExpr); ok && ue.Op == token.ARROW {
		return ue.X, true
	}
	return nil, false
}

func isDoneCall(e ast.Expr) (ctx string, ok bool) {
	c, isCall := e.(*ast.CallExpr)
	if !isCall || len(c.Args) != 0 {
		return "", false
	}
	s, isSel := c.Fun.(*ast.SelectorExpr)
	if !isSel || s.Sel.Name != "Done" {
		return "", false
	}
	return pr(s.X), true
}

func (u *termUnit) selectStmt(s *ast.SelectStmt) {
	var cases []string
	hasDone, hasDef := false, false
	for _, cl := range s.Body.List {
		cc := cl.(*ast.CommClause)
		switch c := cc.Comm.(type) {
		case nil:
			cases = append(cases, "CDefault")
			hasDef = true
		case *ast.SendStmt:
			cases = append(cases, "CSend "+coqStr(pr(c.Chan)))
		case *ast.ExprStmt:
			x, ok := recvOf(c.X)
			if !ok {
				failf("select case %q is neither send nor receive", pr(c))
			}
			if ctx, ok := isDoneCall(x); ok {
				cases = append(cases, "CDone "+coqStr(ctx))
				hasDone = true
			} else {
				cases = append(cases, "CRecv "+coqStr(pr(x)))
			}
		case *ast.AssignStmt:
			if len(c.Rhs) != 1 {
				failf("select case %q", pr(c))
			}
			x, ok := recvOf(c.Rhs[0])
			if !ok {
				failf("select case %q is not a receive", pr(c))
			}
			if ctx, ok := isDoneCall(x); ok {
				cases = append(cases, "CDone "+coqStr(ctx))
				hasDone = true
			} else {
				cases = append(cases, "CRecv "+coqStr(pr(x)))
			}
		default:
			failf("unsupported select case %q", pr(cc.Comm))
		}
	}
	// the header only (the bodies are walked separately)
	u.w.rows = append(u.w.rows, termRow{u.name, u.ord, "BSelect [" + strings.Join(cases, "; ") + "]", hasDone, hasDef,
		fset.Position(s.Pos()).Line, "select { " + strings.Join(selectHeads(s), " | ") + " }"})
	u.ord++
	for _, cl := range s.Body.List {
		cc := cl.(*ast.CommClause)
		for _, st := range cc.Body {
			u.walk(st)
		}
	}
}

func selectHeads(s *ast.SelectStmt) []string {
	var hs []string
	for _, cl := range s.Body.List {
		cc := cl.(*ast.CommClause)
		if cc.Comm == nil {
			hs = append(hs, "default")
		} else {
			hs = append(hs, "case "+pr(cc.Comm))
		}
	}
	return hs
}

// walk visits n in source order.  ast.Inspect is pre-order and visits children
// in source order, which is what the ordinals need; select statements and
// function literals are handled by hand.
func (u *termUnit) walk(n ast.Node) {
	if n == nil {
		return
	}
	ast.Inspect(n, func(nd ast.Node) bool {
		switch x := nd.(type) {
		case nil:
			return false
		case *ast.FuncLit:
			u.lits++
			c := u.child(u.name + "$" + strconv.Itoa(u.lits))
			c.addParams(x.Type)
			c.walk(x.Body)
			return false
		case *ast.SelectStmt:
			u.selectStmt(x)
			return false
		case *ast.SendStmt:
			// evaluate operands first (they may contain receives or calls)
			u.walk(x.Chan)
			u.walk(x.Value)
			u.emit(x, "BSend "+coqStr(pr(x.Chan)), false, false)
			return false
		case *ast.UnaryExpr:
			if x.Op == token.ARROW {
				u.walk(x.X)
				ctx, isDone := isDoneCall(x.X)
				_ = ctx
				u.emit(x, "BRecv "+coqStr(pr(x.X)), isDone, false)
				return false
			}
		case *ast.RangeStmt:
			if u.isChanExpr(x.X) {
				u.emit(x.X, "BRange "+coqStr(pr(x.X)), false, false)
			}
			return true
		case *ast.AssignStmt:
			for i, r := range x.Rhs {
				if capText, ok := isMakeChan(r); ok {
					u.w.seenMake[r] = true
					lhs := "?"
					if i < len(x.Lhs) {
						lhs = pr(x.Lhs[i])
						if id, isId := x.Lhs[i].(*ast.Ident); isId {
							u.chans[id.Name] = true
						}
					}
					u.w.makes = append(u.w.makes, [3]string{u.name, lhs, capText})
				}
			}
			return true
		case *ast.KeyValueExpr:
			if capText, ok := isMakeChan(x.Value); ok {
				u.w.seenMake[x.Value] = true
				u.w.makes = append(u.w.makes, [3]string{u.name, pr(x.Key), capText})
				return false
			}
		case *ast.ValueSpec:
			if x.Type != nil && isChanType(x.Type) {
				for _, nm := range x.Names {
					u.chans[nm.Name] = true
				}
			}
			for i, v := range x.Values {
				if capText, ok := isMakeChan(v); ok {
					u.w.seenMake[v] = true
					lhs := "?"
					if i < len(x.Names) {
						lhs = x.Names[i].Name
						u.chans[lhs] = true
					}
					u.w.makes = append(u.w.makes, [3]string{u.name, lhs, capText})
				}
			}
			return true
		case *ast.DeferStmt:
			txt := ""
			if fl, ok := x.Call.Fun.(*ast.FuncLit); ok {
				// the literal is walked as a unit of its own; name it here
				txt = u.name + "$" + strconv.Itoa(u.lits+1)
				_ = fl
			} else {
				txt = pr(x.Call)
			}
			if _, seen := u.w.defers[u.name]; !seen {
				u.w.deferOrder = append(u.w.deferOrder, u.name)
			}
			u.w.defers[u.name] = append(u.w.defers[u.name], txt)
			if id, ok := x.Call.Fun.(*ast.Ident); ok && id.Name == "close" && len(x.Call.Args) == 1 {
				u.w.closes = append(u.w.closes, [2]string{u.name, pr(x.Call.Args[0])})
				return false
			}
			return true
		case *ast.GoStmt:
			txt := ""
			if _, ok := x.Call.Fun.(*ast.FuncLit); ok {
				txt = u.name + "$" + strconv.Itoa(u.lits+1)
			} else {
				txt = pr(x.Call)
			}
			u.w.spawns = append(u.w.spawns, [2]string{u.name, txt})
			return true
		case *ast.CallExpr:
			// arguments first (source order of evaluation), then the call itself
			switch f := x.Fun.(type) {
			case *ast.Ident:
				name := f.Name
				if name == "make" {
					if _, ok := isMakeChan(x); ok && !u.w.seenMake[x] {
						// a make(chan) that is not the right-hand side of an assignment / field
						u.w.makes = append(u.w.makes, [3]string{u.name, "?", func() string { c, _ := isMakeChan(x); return c }()})
					}
					return true
				}
				if name == "close" && len(x.Args) == 1 {
					u.w.closes = append(u.w.closes, [2]string{u.name, pr(x.Args[0])})
					return true
				}
				if termHelpers[name] {
					if len(x.Args) != 3 {
						failf("%s: helper %s called with %d arguments", u.name, name, len(x.Args))
					}
					for _, a := range x.Args {
						u.walk(a)
					}
					ctx := pr(x.Args[0])
					guarded := ctx != "context.TODO()" && ctx != "context.Background()"
					u.emit(x, "BCall "+coqStr(name)+" "+coqStr(ctx)+" "+coqStr(pr(x.Args[1])), guarded, name == "trySendCtx")
					return false
				}
			case *ast.IndexExpr: // explicit instantiation sendCtx[T](…)
				if id, ok := f.X.(*ast.Ident); ok && termHelpers[id.Name] {
					failf("%s: explicit instantiation of helper %s is not supported", u.name, id.Name)
				}
			case *ast.SelectorExpr:
				m := f.Sel.Name
				if m == "Wait" && len(x.Args) == 0 {
					u.emit(x, "BWait "+coqStr(pr(f.X)), false, false)
					return false
				}
				if termLibCtx[m] && len(x.Args) >= 1 {
					ctx := pr(x.Args[0])
					// only calls whose first argument is a context expression
					if ctx == "ctx" || strings.HasPrefix(ctx, "context.") {
						for _, a := range x.Args {
							u.walk(a)
						}
						guarded := ctx != "context.TODO()" && ctx != "context.Background()"
						u.emit(x, "BLib "+coqStr(pr(f.X)+"."+m)+" "+coqStr(ctx), guarded, false)
						return false
					}
				}
			}
			return true
		}
		return true
	})
}

func termScanDir(repo, dir, prefix string) (*termWalk, error) {
	ents, err := os.ReadDir(filepath.Join(repo, dir))
	if err != nil {
		return nil, err
	}
	var names []string
	for _, e := range ents {
		n := e.Name()
		if e.IsDir() || !strings.HasSuffix(n, ".go") || strings.HasSuffix(n, "_test.go") || n == "verif_export.go" {
			continue
		}
		names = append(names, n)
	}
	sort.Strings(names)
	w := &termWalk{prefix: prefix, chanFields: map[string]bool{}, defers: map[string][]string{}, seenMake: map[ast.Expr]bool{}}
	var parsed []*ast.File
	for _, n := range names {
		f, err := parser.ParseFile(fset, filepath.Join(repo, dir, n), nil, 0)
		if err != nil {
			return nil, err
		}
		parsed = append(parsed, f)
		ast.Inspect(f, func(nd ast.Node) bool {
			if st, ok := nd.(*ast.StructType); ok && st.Fields != nil {
				for _, fl := range st.Fields.List {
					if isChanType(fl.Type) {
						for _, nm := range fl.Names {
							w.chanFields[nm.Name] = true
						}
					}
				}
			}
			return true
		})
	}
	for _, f := range parsed {
		for _, d := range f.Decls {
			fd, ok := d.(*ast.FuncDecl)
			if !ok || fd.Body == nil {
				continue
			}
			recv := ""
			if fd.Recv != nil && len(fd.Recv.List) == 1 {
				ty := fd.Recv.List[0].Type
				if st, ok := ty.(*ast.StarExpr); ok {
					ty = st.X
				}
				if ix, ok := ty.(*ast.IndexExpr); ok {
					ty = ix.X
				}
				if id, ok := ty.(*ast.Ident); ok {
					recv = id.Name
				}
			}
			name := prefix + fd.Name.Name
			if recv != "" {
				name = prefix + recv + "." + fd.Name.Name
			}
			u := &termUnit{w: w, name: name, chans: map[string]bool{}}
			u.addParams(fd.Type)
			u.walk(fd.Body)
		}
	}
	return w, nil
}

func termBool(b bool) string {
	if b {
		return "true"
	}
	return "false"
}

func termExtras(repo string, files map[string]*ast.File) (out map[string][]matched, errs []string) {
	out = map[string][]matched{}
	defer func() {
		if r := recover(); r != nil {
			if f, ok := r.(failure); ok {
				errs = append(errs, "anchor g_blocking_points: "+f.msg)
				out = map[string][]matched{}
				return
			}
			panic(r)
		}
	}()
	var rows []termRow
	var makes [][3]string
	deferLists := map[string][]string{}
	var deferOrder []string
	var spawns, closes [][2]string
	for _, d := range termDirs {
		w, err := termScanDir(repo, d.dir, d.prefix)
		if err != nil {
			failf("scan %s: %v", d.dir, err)
		}
		rows = append(rows, w.rows...)
		makes = append(makes, w.makes...)
		// only the units of top-level functions that contain a blocking operation or a `go`
		active := map[string]bool{}
		top := func(u string) string {
			if i := strings.Index(u, "$"); i >= 0 {
				return u[:i]
			}
			return u
		}
		for _, r := range w.rows {
			active[top(r.unit)] = true
		}
		for _, sp := range w.spawns {
			active[top(sp[0])] = true
		}
		for _, u := range w.deferOrder {
			if !active[top(u)] {
				continue
			}
			deferLists[u] = w.defers[u]
			deferOrder = append(deferOrder, u)
		}
		spawns = append(spawns, w.spawns...)
		closes = append(closes, w.closes...)
	}
	types := `Inductive bp_case := CDone (ctx : str) | CRecv (ch : str) | CSend (ch : str) | CDefault.
Inductive bp_kind :=
| BSelect (cases : list bp_case)
| BSend (ch : str)
| BRecv (ch : str)
| BRange (ch : str)
| BWait (wg : str)
| BCall (fn ctx ch : str)
| BLib (fn ctx : str).
(* function unit, ordinal in the unit, kind, has a ctx.Done() alternative, has a default *)
Definition bp_row := (str * nat * bp_kind * bool * bool)%type.`
	out["GenSession"] = append(out["GenSession"], matched{Name: "bp_kind", File: "(types)", Func: "", Line: 0,
		GoText: "types of the tables below", Coq: types})

	var b strings.Builder
	b.WriteString("Definition g_blocking_points : list bp_row := [\n")
	for i, r := range rows {
		sep := ";"
		if i == len(rows)-1 {
			sep = ""
		}
		fmt.Fprintf(&b, "  (* %s #%d line %d: %s *)\n  (%s, %d%%nat, %s, %s, %s)%s\n", r.unit, r.ord, r.line,
			strings.ReplaceAll(r.text, "*)", "* )"), coqStr(r.unit), r.ord, r.kind, termBool(r.hasDone), termBool(r.hasDef), sep)
	}
	b.WriteString("].")
	out["GenSession"] = append(out["GenSession"], matched{Name: "g_blocking_points", File: "handler.go relay.go utils.go handler/sqlite middleware/prometheus",
		Func: "(all functions)", Line: 0, GoText: fmt.Sprintf("%d blocking operations", len(rows)), Coq: b.String()})

	pairList := func(name string, xs [][2]string) matched {
		var s strings.Builder
		fmt.Fprintf(&s, "Definition %s : list (str * str) := [\n", name)
		for i, x := range xs {
			sep := ";"
			if i == len(xs)-1 {
				sep = ""
			}
			fmt.Fprintf(&s, "  (* %s: %s *)\n  (%s, %s)%s\n", x[0], strings.ReplaceAll(x[1], "*)", "* )"), coqStr(x[0]), coqStr(x[1]), sep)
		}
		s.WriteString("].")
		return matched{Name: name, File: "(session files)", Func: "(all functions)", GoText: fmt.Sprintf("%d entries", len(xs)), Coq: s.String()}
	}

	var m strings.Builder
	m.WriteString("Definition g_chan_makes : list (str * str * str) := [\n")
	for i, x := range makes {
		sep := ";"
		if i == len(makes)-1 {
			sep = ""
		}
		fmt.Fprintf(&m, "  (* %s: %s := make(chan, %s) *)\n  (%s, %s, %s)%s\n", x[0], x[1], x[2], coqStr(x[0]), coqStr(x[1]), coqStr(x[2]), sep)
	}
	m.WriteString("].")
	out["GenSession"] = append(out["GenSession"], matched{Name: "g_chan_makes", File: "(session files)", Func: "(all functions)",
		GoText: fmt.Sprintf("%d channel allocations; third component is the capacity expression (empty = unbuffered)", len(makes)), Coq: m.String()})

	var d strings.Builder
	d.WriteString("Definition g_defers : list (str * list str) := [\n")
	for i, u := range deferOrder {
		sep := ";"
		if i == len(deferOrder)-1 {
			sep = ""
		}
		fmt.Fprintf(&d, "  (* %s: defer %s *)\n  (%s, %s)%s\n", u, strings.ReplaceAll(strings.Join(deferLists[u], " ; defer "), "*)", "* )"),
			coqStr(u), coqStrList(deferLists[u]), sep)
	}
	d.WriteString("].")
	out["GenSession"] = append(out["GenSession"], matched{Name: "g_defers", File: "(session files)", Func: "(all functions)",
		GoText: fmt.Sprintf("%d units with deferred calls, in source order (executed in reverse)", len(deferOrder)), Coq: d.String()})

	out["GenSession"] = append(out["GenSession"], pairList("g_spawns", spawns))
	out["GenSession"] = append(out["GenSession"], pairList("g_closes", closes))
	return out, errs
}
