package main

// C15 (group lin): the LOCK TABLE of the shared in-memory stores.
//
// For every method of EventCache (event_cache.go) and safeMap (data_structure.go) the
// translator extracts, syntactically (go/ast, no type information):
//
//   lock      0 = none, 1 = recv.mu.RLock(), 2 = recv.mu.Lock()
//   deferred  the lock call is a top-level statement of the body, it is immediately followed
//             by `defer recv.mu.(R)Unlock()` of the matching kind, and the body contains no
//             other call on recv.mu (so the critical section is "the rest of the body", on
//             every path)
//   writes    the body, or a same-receiver method it calls (transitively), stores to receiver
//             state: an assignment / op-assignment / ++ / -- whose target is rooted at the
//             receiver (c.evs[k] = e, c.deleted[k][id] = true, m.m[k] = v, c.hits++),
//             delete(x, ..) with x rooted at the receiver, or a method call on a receiver
//             field (c.evsCreatedAt.Set/Del, c.evsIndex.Add/Delete, ...) whose name is not in
//             the read-only list below
//   exported  the method name is exported
//   touches   the method's own body mentions a receiver field other than mu
//   unprot    a receiver field other than mu is mentioned outside the method's own critical
//             section (before the lock call; anywhere if the method takes no lock or the
//             lock shape is irregular), or the receiver is captured by a closure / go statement
//   leaks     a reference into receiver state may escape the critical section: `return c.f`,
//             `x := c.f` / `x = c.f` with a bare field selector, `&c.f...`, or the receiver
//             itself used as a value
//   calls     same-receiver methods called outside the method's own critical section
//             (delegation: Find -> findNeedLock)
//   callers   per method, every (exported entry point, lock mode held at the call) pair
//             through which it can be reached along same-receiver calls
//   outside   private fields of the two types mentioned outside their methods (files of the
//             root package, without _test.go files and files behind a build tag)
//
// The output is coq/theories/Gen/GenLocks.v; LinCache.v computes the lock discipline from it
// and LinProofs.v proves `cache_lock_discipline` by reflexivity.

import (
	"fmt"
	"go/ast"
	"go/parser"
	"go/token"
	"os"
	"path/filepath"
	"sort"
	"strings"
)

func init() { extraFns = append(extraFns, linExtras) }

type linType struct {
	file string
	name string
}

var linTypes = []linType{
	{"event_cache.go", "EventCache"},
	{"data_structure.go", "safeMap"},
}

// methods on receiver *fields* that do not modify the field's value
var linReadOnlyCalls = map[string]bool{
	"Iterator": true, "Reverse": true, "Find": true, "Len": true, "Value": true, "Key": true,
	"Valid": true, "Get": true, "Contains": true, "Range": true, "LowerBound": true, "UpperBound": true,
}

type linMethod struct {
	typ, name string
	exported  bool
	line      int
	text      string
	lock      int
	deferred  bool
	ownWrites bool
	writes    bool
	touches   bool
	unprot    bool
	leaks     bool
	callsProt []string // callees inside the critical section
	callsOut  []string // callees outside it
	fd        *ast.FuncDecl
}

func linRecvType(fd *ast.FuncDecl) (typ, recv string) {
	if fd.Recv == nil || len(fd.Recv.List) != 1 {
		return "", ""
	}
	ty := fd.Recv.List[0].Type
	if st, ok := ty.(*ast.StarExpr); ok {
		ty = st.X
	}
	if ix, ok := ty.(*ast.IndexExpr); ok {
		ty = ix.X
	}
	if ix, ok := ty.(*ast.IndexListExpr); ok {
		ty = ix.X
	}
	id, ok := ty.(*ast.Ident)
	if !ok {
		return "", ""
	}
	if len(fd.Recv.List[0].Names) == 1 {
		recv = fd.Recv.List[0].Names[0].Name
	}
	return id.Name, recv
}

// linRoot strips selectors, indexing, calls, stars and parentheses and returns the identifier
// at the bottom together with the number of layers stripped.
func linRoot(e ast.Expr) (*ast.Ident, int) {
	d := 0
	for {
		switch x := e.(type) {
		case *ast.Ident:
			return x, d
		case *ast.SelectorExpr:
			e = x.X
		case *ast.IndexExpr:
			e = x.X
		case *ast.StarExpr:
			e = x.X
		case *ast.ParenExpr:
			e = x.X
		case *ast.CallExpr:
			e = x.Fun
		case *ast.SliceExpr:
			e = x.X
		default:
			return nil, d
		}
		d++
	}
}

func linRooted(e ast.Expr, recv string) bool {
	id, d := linRoot(e)
	return id != nil && id.Name == recv && d >= 1
}

// bare selector chain recv.f(.g)*
func linBareField(e ast.Expr, recv string, methods map[string]bool) bool {
	for {
		switch x := e.(type) {
		case *ast.ParenExpr:
			e = x.X
			continue
		case *ast.SelectorExpr:
			if id, ok := x.X.(*ast.Ident); ok {
				return id.Name == recv && !methods[x.Sel.Name]
			}
			e = x.X
			continue
		}
		return false
	}
}

// is call a call on recv.mu ?  returns the method name
func linMuCall(c *ast.CallExpr, recv string) string {
	sel, ok := c.Fun.(*ast.SelectorExpr)
	if !ok {
		return ""
	}
	in, ok := sel.X.(*ast.SelectorExpr)
	if !ok || in.Sel.Name != "mu" {
		return ""
	}
	id, ok := in.X.(*ast.Ident)
	if !ok || id.Name != recv {
		return ""
	}
	return sel.Sel.Name
}

func linAnalyse(m *linMethod, recv string, methods map[string]bool) {
	body := m.fd.Body.List
	if recv == "" || recv == "_" {
		return // the receiver cannot be mentioned
	}

	// ---- lock shape
	var muCalls []string
	ast.Inspect(m.fd.Body, func(n ast.Node) bool {
		if c, ok := n.(*ast.CallExpr); ok {
			if nm := linMuCall(c, recv); nm != "" {
				muCalls = append(muCalls, nm)
			}
		}
		return true
	})
	lockAt := -1
	for i, s := range body {
		es, ok := s.(*ast.ExprStmt)
		if !ok {
			continue
		}
		c, ok := es.X.(*ast.CallExpr)
		if !ok {
			continue
		}
		nm := linMuCall(c, recv)
		if nm == "Lock" || nm == "RLock" {
			lockAt = i
			m.lock = map[string]int{"RLock": 1, "Lock": 2}[nm]
			break
		}
	}
	regular := false
	if len(muCalls) > 0 && lockAt < 0 {
		// a lock call somewhere else than at the top level of the body
		for _, nm := range muCalls {
			if nm == "Lock" && m.lock < 2 {
				m.lock = 2
			} else if nm == "RLock" && m.lock < 1 {
				m.lock = 1
			}
		}
	}
	if lockAt >= 0 && lockAt+1 < len(body) && len(muCalls) == 2 {
		if d, ok := body[lockAt+1].(*ast.DeferStmt); ok {
			want := map[int]string{1: "RUnlock", 2: "Unlock"}[m.lock]
			if linMuCall(d.Call, recv) == want {
				regular = true
			}
		}
	}
	m.deferred = regular

	// ---- accesses, statement by statement (protected = after the deferred unlock)
	scan := func(n ast.Node, protected bool) {
		ast.Inspect(n, func(n ast.Node) bool {
			switch x := n.(type) {
			case *ast.FuncLit:
				mentions := false
				ast.Inspect(x.Body, func(k ast.Node) bool {
					if id, ok := k.(*ast.Ident); ok && id.Name == recv {
						mentions = true
					}
					return true
				})
				if mentions {
					m.unprot = true // a closure may run outside the critical section
					m.leaks = true
				}
			case *ast.GoStmt:
				mentions := false
				ast.Inspect(x.Call, func(k ast.Node) bool {
					if id, ok := k.(*ast.Ident); ok && id.Name == recv {
						mentions = true
					}
					return true
				})
				if mentions {
					m.unprot = true
					m.leaks = true
				}
			case *ast.SelectorExpr:
				if id, ok := x.X.(*ast.Ident); ok && id.Name == recv {
					switch {
					case x.Sel.Name == "mu":
					case methods[x.Sel.Name]:
						if protected {
							m.callsProt = append(m.callsProt, x.Sel.Name)
						} else {
							m.callsOut = append(m.callsOut, x.Sel.Name)
						}
					default:
						m.touches = true
						if !protected {
							m.unprot = true
						}
					}
				}
			case *ast.AssignStmt:
				for _, l := range x.Lhs {
					if linRooted(l, recv) {
						m.ownWrites = true
					}
				}
				for _, r := range x.Rhs {
					if linBareField(r, recv, methods) {
						m.leaks = true
					}
				}
			case *ast.ValueSpec:
				for _, r := range x.Values {
					if linBareField(r, recv, methods) {
						m.leaks = true
					}
				}
			case *ast.IncDecStmt:
				if linRooted(x.X, recv) {
					m.ownWrites = true
				}
			case *ast.ReturnStmt:
				for _, r := range x.Results {
					if linBareField(r, recv, methods) {
						m.leaks = true
					}
				}
			case *ast.UnaryExpr:
				if x.Op == token.AND && linRooted(x.X, recv) {
					m.leaks = true
				}
			case *ast.CallExpr:
				if id, ok := x.Fun.(*ast.Ident); ok && id.Name == "delete" && len(x.Args) >= 1 && linRooted(x.Args[0], recv) {
					m.ownWrites = true
				}
				if sel, ok := x.Fun.(*ast.SelectorExpr); ok && linMuCall(x, recv) == "" {
					// a method call on something reached through a receiver field
					if id, d := linRoot(sel.X); id != nil && id.Name == recv && d >= 1 && !linReadOnlyCalls[sel.Sel.Name] {
						m.ownWrites = true
					}
				}
				for _, a := range x.Args {
					if id, ok := a.(*ast.Ident); ok && id.Name == recv {
						m.leaks = true // the receiver itself handed to other code
					}
				}
			}
			return true
		})
	}
	for i, s := range body {
		if regular && (i == lockAt || i == lockAt+1) {
			continue
		}
		scan(s, regular && i > lockAt+1)
	}
}

func linStr(s string) string { return coqStr(s) }

func linBool(b bool) string {
	if b {
		return "true"
	}
	return "false"
}

func linExtras(repo string, files map[string]*ast.File) (map[string][]matched, []string) {
	var errs []string
	var all []*linMethod
	byName := map[string]*linMethod{}
	privFields := map[string]string{} // field -> type
	fallback := func(msg string) (map[string][]matched, []string) {
		errs = append(errs, "g_lock_table: "+msg)
		var out []matched
		for _, d := range [][2]string{
			{"g_lock_table", "list (str * (Z * bool * bool))"},
			{"g_lock_flags", "list (str * (bool * bool * bool * bool))"},
			{"g_lock_calls", "list (str * list str)"},
			{"g_lock_callers", "list (str * list (str * Z))"},
			{"g_lock_outside", "list (str * str)"},
		} {
			out = append(out, matched{d[0], "event_cache.go", "-", 0, msg, fmt.Sprintf("Definition %s : %s := [].", d[0], d[1])})
		}
		return map[string][]matched{"GenLocks": out}, errs
	}

	for _, lt := range linTypes {
		f := files[lt.file]
		if f == nil {
			var err error
			f, err = parser.ParseFile(fset, filepath.Join(repo, lt.file), nil, 0)
			if err != nil {
				return fallback(fmt.Sprintf("parse error in %s: %v", lt.file, err))
			}
			files[lt.file] = f
		}
		methods := map[string]bool{}
		for _, d := range f.Decls {
			if fd, ok := d.(*ast.FuncDecl); ok && fd.Body != nil {
				if ty, _ := linRecvType(fd); ty == lt.name {
					methods[fd.Name.Name] = true
				}
			}
			// private fields of the struct
			if gd, ok := d.(*ast.GenDecl); ok && gd.Tok == token.TYPE {
				for _, sp := range gd.Specs {
					ts := sp.(*ast.TypeSpec)
					st, ok := ts.Type.(*ast.StructType)
					if !ok || ts.Name.Name != lt.name {
						continue
					}
					for _, fl := range st.Fields.List {
						for _, nm := range fl.Names {
							if !ast.IsExported(nm.Name) && nm.Name != "mu" {
								privFields[nm.Name] = lt.name
							}
						}
					}
				}
			}
		}
		if len(methods) == 0 {
			return fallback("no methods of " + lt.name + " found in " + lt.file)
		}
		for _, d := range f.Decls {
			fd, ok := d.(*ast.FuncDecl)
			if !ok || fd.Body == nil {
				continue
			}
			ty, recv := linRecvType(fd)
			if ty != lt.name {
				continue
			}
			m := &linMethod{typ: lt.name, name: fd.Name.Name, exported: ast.IsExported(fd.Name.Name),
				line: fset.Position(fd.Pos()).Line, fd: fd, text: safeGoLin(pr(fd.Body))}
			linAnalyse(m, recv, methods)
			all = append(all, m)
			byName[lt.name+"."+m.name] = m
		}
	}

	// ---- transitive writes
	for changed := true; changed; {
		changed = false
		for _, m := range all {
			w := m.ownWrites
			for _, c := range append(append([]string{}, m.callsProt...), m.callsOut...) {
				if h := byName[m.typ+"."+c]; h != nil && h.writes {
					w = true
				}
			}
			if w && !m.writes {
				m.writes = true
				changed = true
			}
		}
	}

	// ---- calling contexts from the exported entry points
	type ctx struct {
		entry string
		held  int
	}
	callers := map[string]map[ctx]bool{}
	var walk func(entry string, m *linMethod, held int, seen map[string]bool)
	walk = func(entry string, m *linMethod, held int, seen map[string]bool) {
		key := fmt.Sprintf("%s.%s/%d", m.typ, m.name, held)
		if seen[key] {
			return
		}
		seen[key] = true
		visit := func(c string, h int) {
			callee := byName[m.typ+"."+c]
			if callee == nil {
				return
			}
			k := m.typ + "." + c
			if callers[k] == nil {
				callers[k] = map[ctx]bool{}
			}
			callers[k][ctx{entry, h}] = true
			walk(entry, callee, h, seen)
		}
		for _, c := range m.callsOut {
			visit(c, held)
		}
		inside := held
		if m.lock > inside {
			inside = m.lock
		}
		for _, c := range m.callsProt {
			visit(c, inside)
		}
	}
	for _, m := range all {
		if m.exported {
			walk(m.typ+"."+m.name, m, 0, map[string]bool{})
		}
	}

	// ---- private fields mentioned outside the methods (root package only)
	type outsideHit struct{ fn, field string }
	var outside []outsideHit
	ents, err := os.ReadDir(repo)
	if err != nil {
		return fallback("cannot list " + repo)
	}
	for _, e := range ents {
		nm := e.Name()
		if e.IsDir() || !strings.HasSuffix(nm, ".go") || strings.HasSuffix(nm, "_test.go") {
			continue
		}
		src, err := os.ReadFile(filepath.Join(repo, nm))
		if err != nil {
			continue
		}
		if strings.Contains(string(src), "//go:build") {
			continue // the verif hooks (add-only, tag `verif`) and other tagged files
		}
		f := files[nm]
		if f == nil {
			f, err = parser.ParseFile(fset, filepath.Join(repo, nm), nil, 0)
			if err != nil {
				return fallback(fmt.Sprintf("parse error in %s: %v", nm, err))
			}
		}
		for _, d := range f.Decls {
			fd, ok := d.(*ast.FuncDecl)
			if !ok || fd.Body == nil {
				continue
			}
			ty, _ := linRecvType(fd)
			fname := fd.Name.Name
			if ty != "" {
				fname = ty + "." + fname
			}
			ast.Inspect(fd.Body, func(n ast.Node) bool {
				sel, ok := n.(*ast.SelectorExpr)
				if !ok {
					return true
				}
				owner, priv := privFields[sel.Sel.Name]
				if !priv || owner == ty {
					return true
				}
				// the one-letter field `m` of safeMap: only count it in the file that declares safeMap's users
				outside = append(outside, outsideHit{fname, sel.Sel.Name})
				return true
			})
		}
	}
	sort.Slice(outside, func(i, j int) bool {
		if outside[i].fn != outside[j].fn {
			return outside[i].fn < outside[j].fn
		}
		return outside[i].field < outside[j].field
	})

	// ---- print
	var tb, fl, cl, cr, ou []string
	for _, m := range all {
		q := linStr(m.typ + "." + m.name)
		tb = append(tb, fmt.Sprintf("(%s, (%d, %s, %s))", q, m.lock, linBool(m.deferred), linBool(m.writes)))
		fl = append(fl, fmt.Sprintf("(%s, (%s, %s, %s, %s))", q, linBool(m.exported), linBool(m.touches), linBool(m.unprot), linBool(m.leaks)))
		var cs []string
		for _, c := range m.callsOut {
			cs = append(cs, linStr(m.typ+"."+c))
		}
		cl = append(cl, fmt.Sprintf("(%s, [%s])", q, strings.Join(cs, "; ")))
		var ks []ctx
		for k := range callers[m.typ+"."+m.name] {
			ks = append(ks, k)
		}
		sort.Slice(ks, func(i, j int) bool {
			if ks[i].entry != ks[j].entry {
				return ks[i].entry < ks[j].entry
			}
			return ks[i].held < ks[j].held
		})
		var xs []string
		for _, k := range ks {
			xs = append(xs, fmt.Sprintf("(%s, %d)", linStr(k.entry), k.held))
		}
		cr = append(cr, fmt.Sprintf("(%s, [%s])", q, strings.Join(xs, "; ")))
	}
	for _, o := range outside {
		ou = append(ou, fmt.Sprintf("(%s, %s)", linStr(o.fn), linStr(o.field)))
	}
	var summary []string
	for _, m := range all {
		summary = append(summary, fmt.Sprintf("%s.%s:%d lock=%d deferred=%v writes=%v exported=%v touches=%v unprot=%v leaks=%v calls_out=%v calls_in=%v",
			m.typ, m.name, m.line, m.lock, m.deferred, m.writes, m.exported, m.touches, m.unprot, m.leaks, m.callsOut, m.callsProt))
	}
	sum := strings.Join(summary, "\n   ")
	list := func(xs []string) string {
		if len(xs) == 0 {
			return "[]"
		}
		return "[\n    " + strings.Join(xs, ";\n    ") + "\n  ]"
	}
	mk := func(name, ty string, xs []string, note string) matched {
		return matched{name, "event_cache.go+data_structure.go", "methods of EventCache, safeMap", 0, note,
			fmt.Sprintf("Definition %s : %s :=\n  %s.", name, ty, list(xs))}
	}
	out := []matched{
		mk("g_lock_table", "list (str * (Z * bool * bool))", tb, "(method, (lock 0/1/2, unlock deferred, writes receiver state))\n   "+sum),
		mk("g_lock_flags", "list (str * (bool * bool * bool * bool))", fl, "(method, (exported, touches fields, touches fields outside its own critical section, leaks a reference))"),
		mk("g_lock_calls", "list (str * list str)", cl, "(method, same-receiver methods it calls outside its own critical section)"),
		mk("g_lock_callers", "list (str * list (str * Z))", cr, "(method, [(exported entry point, lock mode held at the call)])"),
		mk("g_lock_outside", "list (str * str)", ou, "(function, private field of EventCache/safeMap mentioned outside the type's methods)"),
	}
	return map[string][]matched{"GenLocks": out}, errs
}

func safeGoLin(s string) string {
	s = strings.ReplaceAll(s, "(*", "( *")
	return strings.ReplaceAll(s, "*)", "* )")
}
