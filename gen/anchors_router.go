package main

// Anchors of group router (C07): what the translator can tie of the router's
// concurrency structure.  Output: Gen/GenRouter.v.
//
//   g_router_buflen_bad      the constructor's range check (buflen <= 0 panics)
//   g_trysend_has_default    trySendCtx's select has a `default:` clause (non-blocking enqueue)
//   g_trysend_cases          the select's clauses, in order
//   g_sendifmatch_method     the matcher method SendIfMatch calls (Match, not LimitMatch)
//   g_sendifmatch_trysend    SendIfMatch enqueues with trySendCtx (not sendCtx)
//   g_recv_req_shape         the REQ branch of recv: Subscribe precedes the EOSE reply
//   g_recv_event_shape       the EVENT branch of recv: Publish precedes the OK reply
//   g_serve_defers_unsuball  ServeNostr defers subs.UnsubscribeAll(reqID)
//   g_publish_nested_loop    Publish = outer Loop { inner Loop { SendIfMatch } }
//   g_safemap_locks          LOCK TABLE of safeMap: per method (exclusive lock at entry,
//                            unlock of the same kind deferred directly after, body writes m.m)

import (
	"fmt"
	"go/ast"
	"go/parser"
	"go/token"
	"path/filepath"
	"sort"
	"strings"
)

func init() {
	anchorSets = append(anchorSets, routerAnchors)
	extraFns = append(extraFns, routerExtras)
}

func routerAnchors() []anchor {
	return []anchor{
		{Name: "g_router_buflen_bad", File: "handler.go", Func: "NewRouterHandler", Kind: "ifcond", Select: "buflen",
			Header: "(buflen : Z)", RetTy: "bool", Out: "GenRouter",
			Syms: map[string]sym{"buflen": z("buflen")}},
	}
}

func routerParse(repo string, files map[string]*ast.File, name string) *ast.File {
	if f := files[name]; f != nil {
		return f
	}
	f, err := parser.ParseFile(fset, filepath.Join(repo, name), nil, 0)
	if err != nil {
		failf("parse error: %v", err)
	}
	files[name] = f
	return f
}

func routerBool(v bool) string {
	if v {
		return "true"
	}
	return "false"
}

func routerStrList(xs []string) string {
	if len(xs) == 0 {
		return "(@nil str)"
	}
	ps := make([]string, len(xs))
	for i, x := range xs {
		ps[i] = coqStr(x)
	}
	return "[" + strings.Join(ps, "; ") + "]"
}

// routerCalls lists, in source order, the printed callee of every call expression under n;
// a call started with `go` or `defer` is prefixed accordingly (it does not run in sequence).
func routerCalls(n ast.Node) []string {
	var out []string
	special := map[*ast.CallExpr]string{}
	ast.Inspect(n, func(x ast.Node) bool {
		switch st := x.(type) {
		case *ast.GoStmt:
			special[st.Call] = "go "
		case *ast.DeferStmt:
			special[st.Call] = "defer "
		case *ast.CallExpr:
			out = append(out, special[st]+pr(st.Fun))
		}
		return true
	})
	return out
}

func routerExtras(repo string, files map[string]*ast.File) (map[string][]matched, []string) {
	const out = "GenRouter"
	res := map[string][]matched{}
	var errs []string
	// when a shape is not recognised the anchor is reported as lost AND a neutral
	// definition is emitted, so that the model and the correspondence check still
	// compile (model_applicable becomes false, the proofs break at that lemma)
	fallback := map[string]string{
		"g_trysend_cases": "list str := (@nil str)", "g_trysend_has_default": "bool := false",
		"g_sendifmatch_method": "str := ([] : str)", "g_sendifmatch_trysend": "bool := false",
		"g_recv_req_shape": "list str := (@nil str)", "g_recv_event_shape": "list str := (@nil str)",
		"g_recv_close_shape": "list str := (@nil str)", "g_serve_defers_unsuball": "bool := false",
		"g_serve_queue_cap_is_buflen": "bool := false", "g_subs_subscribe_calls": "list str := (@nil str)",
		"g_subs_unsubscribe_calls": "list str := (@nil str)", "g_subs_unsuball_calls": "list str := (@nil str)",
		"g_subs_publish_calls": "list str := (@nil str)",
		"g_safemap_locks": "list (str * (bool * bool * bool)) := (@nil (str * (bool * bool * bool)))",
	}
	add := func(name string, f func() matched) {
		defer func() {
			if r := recover(); r != nil {
				if fl, ok := r.(failure); ok {
					errs = append(errs, fmt.Sprintf("anchor %s: %s", name, fl.msg))
					if fb, ok := fallback[name]; ok {
						res[out] = append(res[out], matched{name, "?", "shape not recognised", 0, fl.msg,
							fmt.Sprintf("Definition %s : %s.", name, fb)})
					}
					return
				}
				panic(r)
			}
		}()
		res[out] = append(res[out], f())
	}

	// ---- utils.go trySendCtx: the clauses of its select
	add("g_trysend_cases", func() matched {
		f := routerParse(repo, files, "utils.go")
		fd := findFunc(f, "", "trySendCtx")
		if fd == nil || fd.Body == nil {
			failf("trySendCtx not found")
		}
		var sel *ast.SelectStmt
		ast.Inspect(fd.Body, func(n ast.Node) bool {
			if s, ok := n.(*ast.SelectStmt); ok && sel == nil {
				sel = s
			}
			return sel == nil
		})
		if sel == nil {
			failf("trySendCtx has no select")
		}
		var cases []string
		for _, c := range sel.Body.List {
			cc := c.(*ast.CommClause)
			if cc.Comm == nil {
				cases = append(cases, "default")
			} else {
				cases = append(cases, pr(cc.Comm))
			}
		}
		coq := fmt.Sprintf("Definition g_trysend_cases : list str :=\n  %s.", routerStrList(cases))
		return matched{"g_trysend_cases", "utils.go", "trySendCtx", fset.Position(sel.Pos()).Line, strings.Join(cases, " | "), coq}
	})
	add("g_trysend_has_default", func() matched {
		f := routerParse(repo, files, "utils.go")
		fd := findFunc(f, "", "trySendCtx")
		if fd == nil || fd.Body == nil {
			failf("trySendCtx not found")
		}
		has, sends := false, 0
		var pos token.Pos
		ast.Inspect(fd.Body, func(n ast.Node) bool {
			if s, ok := n.(*ast.SelectStmt); ok {
				pos = s.Pos()
				for _, c := range s.Body.List {
					cc := c.(*ast.CommClause)
					if cc.Comm == nil {
						has = true
					} else if _, ok := cc.Comm.(*ast.SendStmt); ok {
						sends++
					}
				}
			}
			return true
		})
		if sends != 1 {
			failf("trySendCtx: expected exactly one send clause, found %d", sends)
		}
		coq := fmt.Sprintf("Definition g_trysend_has_default : bool :=\n  %s.", routerBool(has))
		return matched{"g_trysend_has_default", "utils.go", "trySendCtx", fset.Position(pos).Line, "select { ... default: ... }", coq}
	})

	// ---- handler.go subscriber.SendIfMatch
	add("g_sendifmatch_method", func() matched {
		f := routerParse(repo, files, "handler.go")
		fd := findFunc(f, "subscriber", "SendIfMatch")
		if fd == nil || fd.Body == nil {
			failf("SendIfMatch not found")
		}
		if len(fd.Body.List) != 1 {
			failf("SendIfMatch: body is not a single if")
		}
		is, ok := fd.Body.List[0].(*ast.IfStmt)
		if !ok || is.Else != nil || is.Init != nil {
			failf("SendIfMatch: body is not a plain if")
		}
		call, ok := is.Cond.(*ast.CallExpr)
		if !ok {
			failf("SendIfMatch: condition %q is not a single call", pr(is.Cond))
		}
		se, ok := call.Fun.(*ast.SelectorExpr)
		if !ok || pr(se.X) != "sub.Matcher" || len(call.Args) != 1 || pr(call.Args[0]) != "event" {
			failf("SendIfMatch: condition %q is not sub.Matcher.<M>(event)", pr(is.Cond))
		}
		coq := fmt.Sprintf("Definition g_sendifmatch_method : str :=\n  %s.", coqStr(se.Sel.Name))
		return matched{"g_sendifmatch_method", "handler.go", "subscriber.SendIfMatch", fset.Position(is.Pos()).Line, pr(is.Cond), coq}
	})
	add("g_sendifmatch_trysend", func() matched {
		f := routerParse(repo, files, "handler.go")
		fd := findFunc(f, "subscriber", "SendIfMatch")
		if fd == nil || fd.Body == nil {
			failf("SendIfMatch not found")
		}
		is, ok := fd.Body.List[0].(*ast.IfStmt)
		if !ok {
			failf("SendIfMatch: body is not an if")
		}
		okShape := false
		txt := pr(is.Body)
		if len(is.Body.List) == 1 {
			if es, ok := is.Body.List[0].(*ast.ExprStmt); ok {
				if c, ok := es.X.(*ast.CallExpr); ok && pr(c.Fun) == "trySendCtx" && len(c.Args) == 3 && pr(c.Args[1]) == "sub.Ch" &&
					strings.Contains(pr(c.Args[2]), "NewServerEventMsg(sub.SubscriptionID, event)") {
					okShape = true
				}
			}
		}
		coq := fmt.Sprintf("Definition g_sendifmatch_trysend : bool :=\n  %s.", routerBool(okShape))
		return matched{"g_sendifmatch_trysend", "handler.go", "subscriber.SendIfMatch", fset.Position(is.Body.Pos()).Line, txt, coq}
	})

	// ---- handler.go RouterHandler.recv: order of effect and reply per branch
	branch := func(name, typ string) {
		add(name, func() matched {
			f := routerParse(repo, files, "handler.go")
			fd := findFunc(f, "RouterHandler", "recv")
			if fd == nil || fd.Body == nil {
				failf("RouterHandler.recv not found")
			}
			var hit *ast.CaseClause
			ast.Inspect(fd.Body, func(n ast.Node) bool {
				if cc, ok := n.(*ast.CaseClause); ok && len(cc.List) == 1 && pr(cc.List[0]) == typ {
					hit = cc
				}
				return hit == nil
			})
			if hit == nil {
				failf("recv: no case %s", typ)
			}
			var calls []string
			for _, st := range hit.Body {
				calls = append(calls, routerCalls(st)...)
			}
			coq := fmt.Sprintf("Definition %s : list str :=\n  %s.", name, routerStrList(calls))
			var b []string
			for _, st := range hit.Body {
				b = append(b, pr(st))
			}
			return matched{name, "handler.go", "RouterHandler.recv", fset.Position(hit.Pos()).Line, strings.Join(b, "; "), coq}
		})
	}
	branch("g_recv_req_shape", "*ClientReqMsg")
	branch("g_recv_event_shape", "*ClientEventMsg")
	branch("g_recv_close_shape", "*ClientCloseMsg")

	// ---- ServeNostr defers UnsubscribeAll(reqID); the queue has capacity buflen
	add("g_serve_defers_unsuball", func() matched {
		f := routerParse(repo, files, "handler.go")
		fd := findFunc(f, "RouterHandler", "ServeNostr")
		if fd == nil || fd.Body == nil {
			failf("RouterHandler.ServeNostr not found")
		}
		found := false
		var pos token.Pos = fd.Pos()
		for _, st := range fd.Body.List { // top level only: runs on every return path
			if d, ok := st.(*ast.DeferStmt); ok && pr(d.Call) == "router.subs.UnsubscribeAll(reqID)" {
				found = true
				pos = d.Pos()
			}
		}
		coq := fmt.Sprintf("Definition g_serve_defers_unsuball : bool :=\n  %s.", routerBool(found))
		return matched{"g_serve_defers_unsuball", "handler.go", "RouterHandler.ServeNostr", fset.Position(pos).Line, "defer router.subs.UnsubscribeAll(reqID)", coq}
	})
	add("g_serve_queue_cap_is_buflen", func() matched {
		f := routerParse(repo, files, "handler.go")
		fd := findFunc(f, "RouterHandler", "ServeNostr")
		if fd == nil || fd.Body == nil {
			failf("RouterHandler.ServeNostr not found")
		}
		found := false
		var pos token.Pos = fd.Pos()
		ast.Inspect(fd.Body, func(n ast.Node) bool {
			if as, ok := n.(*ast.AssignStmt); ok && len(as.Lhs) == 1 && pr(as.Lhs[0]) == "subCh" && len(as.Rhs) == 1 &&
				pr(as.Rhs[0]) == "make(chan ServerMsg, router.buflen)" {
				found = true
				pos = as.Pos()
			}
			return true
		})
		coq := fmt.Sprintf("Definition g_serve_queue_cap_is_buflen : bool :=\n  %s.", routerBool(found))
		return matched{"g_serve_queue_cap_is_buflen", "handler.go", "RouterHandler.ServeNostr", fset.Position(pos).Line, "subCh := make(chan ServerMsg, router.buflen)", coq}
	})

	// ---- the bodies of the four registry operations, as call sequences
	for _, it := range [][2]string{
		{"g_subs_subscribe_calls", "Subscribe"}, {"g_subs_unsubscribe_calls", "Unsubscribe"},
		{"g_subs_unsuball_calls", "UnsubscribeAll"}, {"g_subs_publish_calls", "Publish"},
	} {
		it := it
		add(it[0], func() matched {
			f := routerParse(repo, files, "handler.go")
			fd := findFunc(f, "subscribers", it[1])
			if fd == nil || fd.Body == nil {
				failf("subscribers.%s not found", it[1])
			}
			calls := routerCalls(fd.Body)
			coq := fmt.Sprintf("Definition %s : list str :=\n  %s.", it[0], routerStrList(calls))
			return matched{it[0], "handler.go", "subscribers." + it[1], fset.Position(fd.Pos()).Line, pr(fd.Body), coq}
		})
	}

	// ---- data_structure.go: the lock table of safeMap
	add("g_safemap_locks", func() matched {
		f := routerParse(repo, files, "data_structure.go")
		type row struct {
			name             string
			excl, defer_, wr bool
		}
		var rows []row
		for _, d := range f.Decls {
			fd, ok := d.(*ast.FuncDecl)
			if !ok || fd.Recv == nil || fd.Body == nil {
				continue
			}
			if len(fd.Recv.List) != 1 || !strings.HasPrefix(strings.TrimPrefix(pr(fd.Recv.List[0].Type), "*"), "safeMap[") {
				continue
			}
			if len(fd.Recv.List[0].Names) != 1 || fd.Recv.List[0].Names[0].Name != "m" {
				failf("safeMap.%s: receiver is not named m", fd.Name.Name)
			}
			r := row{name: fd.Name.Name}
			// entry: first statement must be m.mu.Lock() or m.mu.RLock()
			kind := ""
			if len(fd.Body.List) >= 2 {
				if es, ok := fd.Body.List[0].(*ast.ExprStmt); ok {
					switch pr(es.X) {
					case "m.mu.Lock()":
						kind = "Lock"
					case "m.mu.RLock()":
						kind = "RLock"
					}
				}
				if ds, ok := fd.Body.List[1].(*ast.DeferStmt); ok {
					want := map[string]string{"Lock": "m.mu.Unlock()", "RLock": "m.mu.RUnlock()"}[kind]
					r.defer_ = kind != "" && pr(ds.Call) == want
				}
			}
			if kind == "" {
				failf("safeMap.%s does not take m.mu at entry", fd.Name.Name)
			}
			r.excl = kind == "Lock"
			// no other use of m.mu in the body (no early unlock, no re-lock)
			nmu := 0
			ast.Inspect(fd.Body, func(n ast.Node) bool {
				if se, ok := n.(*ast.SelectorExpr); ok && pr(se) == "m.mu" {
					nmu++
				}
				return true
			})
			if nmu != 2 {
				r.defer_ = false
			}
			// writes: assignment to m.m[...] / m.m, delete(m.m, ...), clear(m.m)
			ast.Inspect(fd.Body, func(n ast.Node) bool {
				switch x := n.(type) {
				case *ast.AssignStmt:
					for _, l := range x.Lhs {
						if s := pr(l); s == "m.m" || strings.HasPrefix(s, "m.m[") {
							r.wr = true
						}
					}
				case *ast.IncDecStmt:
					if s := pr(x.X); strings.HasPrefix(s, "m.m[") {
						r.wr = true
					}
				case *ast.CallExpr:
					if fn := pr(x.Fun); (fn == "delete" || fn == "clear") && len(x.Args) >= 1 && pr(x.Args[0]) == "m.m" {
						r.wr = true
					}
				}
				return true
			})
			rows = append(rows, r)
		}
		if len(rows) == 0 {
			failf("no method of safeMap found")
		}
		sort.Slice(rows, func(i, j int) bool { return rows[i].name < rows[j].name })
		var ps, txt []string
		for _, r := range rows {
			ps = append(ps, fmt.Sprintf("(%s, (%s, %s, %s))", coqStr(r.name), routerBool(r.excl), routerBool(r.defer_), routerBool(r.wr)))
			txt = append(txt, fmt.Sprintf("%s: exclusive=%v deferred-unlock=%v writes=%v", r.name, r.excl, r.defer_, r.wr))
		}
		coq := "Definition g_safemap_locks : list (str * (bool * bool * bool)) :=\n  [" + strings.Join(ps, ";\n   ") + "]."
		return matched{"g_safemap_locks", "data_structure.go", "safeMap.*", 1, strings.Join(txt, "; "), coq}
	})
	return res, errs
}
