// gen: the guard translator.  It re-reads a fixed list of pure predicates and
// if-conditions from /repo's Go sources and regenerates Coq definitions
// (coq/theories/Gen/*.v).  Only a small expression language is supported;
// anything else makes the translator fail loudly (exit 2, message naming the
// anchor) instead of guessing.
//
// usage: gen -repo /repo -out /verif/coq/theories/Gen [-report file.json]
package main

import (
	"bytes"
	"encoding/json"
	"flag"
	"fmt"
	"go/ast"
	"go/parser"
	"go/printer"
	"go/token"
	"os"
	"path/filepath"
	"sort"
	"strconv"
	"strings"
)

// sym: how a Go expression (printed) is rendered in Gallina and its sort.
type sym struct {
	coq string
	ty  string // "Z", "str", "bool", "ret"
}

// anchor: one generated definition.
type anchor struct {
	Name   string // Coq name
	File   string // path relative to repo
	Recv   string // receiver type name ("" for plain function), without *
	Func   string
	Kind   string // "body" (if-chain/return of whole body), "ifcond" (condition of one if), "retexpr" (single return expression)
	Select string // for ifcond: substring that the printed condition must contain (first match in pre-order)
	Nth    int    // for ifcond: which match (0-based) among those containing Select
	Header string // Gallina binder text, e.g. "(kind : Z)"
	RetTy  string // Gallina result type
	Syms   map[string]sym
	Out    string // output file (without .v)
}

type matched struct {
	Name   string `json:"name"`
	File   string `json:"file"`
	Func   string `json:"func"`
	Line   int    `json:"line"`
	GoText string `json:"go"`
	Coq    string `json:"coq"`
}

var fset = token.NewFileSet()

func pr(n ast.Node) string {
	var b bytes.Buffer
	printer.Fprint(&b, fset, n)
	return strings.Join(strings.Fields(b.String()), " ")
}

type failure struct{ msg string }

func failf(f string, a ...any) { panic(failure{fmt.Sprintf(f, a...)}) }

type tr struct{ syms map[string]sym }

func coqStr(s string) string {
	if s == "" {
		return "([] : str)"
	}
	parts := make([]string, 0, len(s))
	for _, b := range []byte(s) {
		parts = append(parts, strconv.Itoa(int(b)))
	}
	return "([" + strings.Join(parts, "; ") + "]%N : str)"
}

// expr translates e and returns (gallina, sort).
func (t *tr) expr(e ast.Expr) (string, string) {
	if s, ok := t.syms[pr(e)]; ok {
		return s.coq, s.ty
	}
	switch e := e.(type) {
	case *ast.ParenExpr:
		return t.expr(e.X)
	case *ast.BasicLit:
		switch e.Kind {
		case token.INT:
			v, err := strconv.ParseInt(strings.ReplaceAll(e.Value, "_", ""), 0, 64)
			if err != nil {
				failf("bad int literal %s", e.Value)
			}
			return fmt.Sprintf("(%d)", v), "Z"
		case token.CHAR:
			r, _, _, err := strconv.UnquoteChar(e.Value[1:len(e.Value)-1], '\'')
			if err != nil {
				failf("bad char literal %s", e.Value)
			}
			return fmt.Sprintf("(%d)", r), "Z"
		case token.STRING:
			s, err := strconv.Unquote(e.Value)
			if err != nil {
				failf("bad string literal %s", e.Value)
			}
			return coqStr(s), "str"
		}
	case *ast.Ident:
		switch e.Name {
		case "true":
			return "true", "bool"
		case "false":
			return "false", "bool"
		}
	case *ast.UnaryExpr:
		if e.Op == token.NOT {
			x, ty := t.expr(e.X)
			if ty != "bool" {
				failf("! applied to %s", ty)
			}
			return "(negb " + x + ")", "bool"
		}
		if e.Op == token.SUB {
			x, ty := t.expr(e.X)
			if ty != "Z" {
				failf("- applied to %s", ty)
			}
			return "(- " + x + ")", "Z"
		}
	case *ast.BinaryExpr:
		x, tx := t.expr(e.X)
		y, ty := t.expr(e.Y)
		switch e.Op {
		case token.LAND, token.LOR:
			if tx != "bool" || ty != "bool" {
				failf("%s on %s,%s in %s", e.Op, tx, ty, pr(e))
			}
			if e.Op == token.LAND {
				return "(" + x + " && " + y + ")", "bool"
			}
			return "(" + x + " || " + y + ")", "bool"
		case token.LSS, token.LEQ, token.GTR, token.GEQ, token.EQL, token.NEQ:
			if tx != ty {
				failf("comparison of %s with %s in %s", tx, ty, pr(e))
			}
			switch tx {
			case "Z":
				op := map[token.Token]string{token.LSS: "<?", token.LEQ: "<=?", token.GTR: ">?", token.GEQ: ">=?", token.EQL: "=?"}
				if e.Op == token.NEQ {
					return "(negb (" + x + " =? " + y + "))", "bool"
				}
				return "(" + x + " " + op[e.Op] + " " + y + ")", "bool"
			case "str":
				switch e.Op {
				case token.EQL:
					return "(str_eqb " + x + " " + y + ")", "bool"
				case token.NEQ:
					return "(negb (str_eqb " + x + " " + y + "))", "bool"
				case token.LSS:
					return "(str_ltb " + x + " " + y + ")", "bool"
				}
			case "bool":
				switch e.Op {
				case token.EQL:
					return "(Bool.eqb " + x + " " + y + ")", "bool"
				case token.NEQ:
					return "(negb (Bool.eqb " + x + " " + y + "))", "bool"
				}
			}
		case token.ADD, token.SUB, token.MUL:
			if tx != "Z" || ty != "Z" {
				failf("arithmetic on %s,%s in %s", tx, ty, pr(e))
			}
			return "(" + x + " " + e.Op.String() + " " + y + ")", "Z"
		}
	}
	failf("unsupported expression %q", pr(e))
	return "", ""
}

// stmts translates a statement list that must end in a return on every path
// (if-chains returning expressions).
func (t *tr) stmts(ss []ast.Stmt, retTy string) string {
	if len(ss) == 0 {
		failf("fell off the end of a body without return")
	}
	switch s := ss[0].(type) {
	case *ast.ReturnStmt:
		if len(s.Results) != 1 {
			failf("return with %d results", len(s.Results))
		}
		x, ty := t.expr(s.Results[0])
		if ty != retTy {
			failf("return of sort %s, expected %s (%s)", ty, retTy, pr(s))
		}
		return x
	case *ast.IfStmt:
		var init []ast.Stmt
		if s.Init != nil {
			// `if kind := ev.Kind; cond` — accept only if the symbol table knows the bound name
			as, ok := s.Init.(*ast.AssignStmt)
			if !ok || len(as.Lhs) != 1 {
				failf("unsupported if-init %s", pr(s.Init))
			}
			if _, ok := t.syms[pr(as.Lhs[0])]; !ok {
				failf("if-init binds unknown name %s", pr(as.Lhs[0]))
			}
			l, _ := t.expr(as.Lhs[0])
			r, _ := t.expr(as.Rhs[0])
			if l != r {
				failf("if-init %s: bound name must denote the same Gallina term as its initialiser (%s vs %s)", pr(s.Init), l, r)
			}
		}
		_ = init
		c, ty := t.expr(s.Cond)
		if ty != "bool" {
			failf("if condition of sort %s", ty)
		}
		thn := t.stmts(s.Body.List, retTy)
		var els string
		switch e := s.Else.(type) {
		case nil:
			els = t.stmts(ss[1:], retTy)
		case *ast.BlockStmt:
			if terminates(e.List) {
				els = t.stmts(e.List, retTy)
			} else {
				els = t.stmts(append(append([]ast.Stmt{}, e.List...), ss[1:]...), retTy)
			}
		case *ast.IfStmt:
			els = t.stmts(append([]ast.Stmt{e}, ss[1:]...), retTy)
		}
		return "(if " + c + " then " + thn + " else " + els + ")"
	}
	failf("unsupported statement %q", pr(ss[0]))
	return ""
}

func terminates(ss []ast.Stmt) bool {
	if len(ss) == 0 {
		return false
	}
	_, ok := ss[len(ss)-1].(*ast.ReturnStmt)
	return ok
}

func findFunc(f *ast.File, recv, name string) *ast.FuncDecl {
	for _, d := range f.Decls {
		fd, ok := d.(*ast.FuncDecl)
		if !ok || fd.Name.Name != name {
			continue
		}
		r := ""
		if fd.Recv != nil && len(fd.Recv.List) == 1 {
			ty := fd.Recv.List[0].Type
			if st, ok := ty.(*ast.StarExpr); ok {
				ty = st.X
			}
			if ix, ok := ty.(*ast.IndexExpr); ok {
				ty = ix.X
			}
			if id, ok := ty.(*ast.Ident); ok {
				r = id.Name
			}
		}
		if r == recv {
			return fd
		}
	}
	return nil
}

func translate(repo string, a anchor, files map[string]*ast.File) (m matched, err error) {
	defer func() {
		if r := recover(); r != nil {
			if f, ok := r.(failure); ok {
				err = fmt.Errorf("anchor %s (%s %s.%s): %s", a.Name, a.File, a.Recv, a.Func, f.msg)
				return
			}
			panic(r)
		}
	}()
	f := files[a.File]
	if f == nil {
		var perr error
		f, perr = parser.ParseFile(fset, filepath.Join(repo, a.File), nil, 0)
		if perr != nil {
			failf("parse error: %v", perr)
		}
		files[a.File] = f
	}
	fd := findFunc(f, a.Recv, a.Func)
	if fd == nil || fd.Body == nil {
		failf("function not found")
	}
	t := &tr{syms: a.Syms}
	var body, gotext string
	var pos token.Pos
	switch a.Kind {
	case "body":
		body = t.stmts(fd.Body.List, a.RetTy)
		gotext = pr(fd.Body)
		pos = fd.Pos()
	case "ifcond":
		n := 0
		var hit *ast.IfStmt
		ast.Inspect(fd.Body, func(nd ast.Node) bool {
			if hit != nil {
				return false
			}
			if is, ok := nd.(*ast.IfStmt); ok && strings.Contains(pr(is.Cond), a.Select) {
				if n == a.Nth {
					hit = is
					return false
				}
				n++
			}
			return true
		})
		if hit == nil {
			failf("no if-condition mentioning %q (occurrence %d)", a.Select, a.Nth)
		}
		var ty string
		body, ty = t.expr(hit.Cond)
		if ty != a.RetTy {
			failf("condition of sort %s", ty)
		}
		gotext = pr(hit.Cond)
		pos = hit.Pos()
	default:
		failf("unknown anchor kind %s", a.Kind)
	}
	coq := fmt.Sprintf("Definition %s %s : %s :=\n  %s.", a.Name, a.Header, a.RetTy, body)
	return matched{a.Name, a.File, a.Recv + "." + a.Func, fset.Position(pos).Line, gotext, coq}, nil
}

func main() {
	repo := flag.String("repo", "/repo", "repository root")
	out := flag.String("out", "", "output directory for Gen/*.v")
	report := flag.String("report", "", "write a JSON report of what was matched")
	flag.Parse()
	if *out == "" {
		fmt.Fprintln(os.Stderr, "gen: -out required")
		os.Exit(2)
	}
	files := map[string]*ast.File{}
	byOut := map[string][]matched{}
	var all []matched
	var errs []string
	for _, a := range anchors() {
		m, err := translate(*repo, a, files)
		if err != nil {
			errs = append(errs, err.Error())
			// keep the last definition that was generated for this anchor, marked stale, so
			// that the model still compiles and the search for a failing input can run
			if old := oldDefinition(filepath.Join(*out, a.Out+".v"), a.Name); old != "" {
				byOut[a.Out] = append(byOut[a.Out], matched{a.Name, a.File, a.Recv + "." + a.Func, 0,
					"STALE: anchor no longer found in the source; last generated definition kept", old})
			}
			continue
		}
		byOut[a.Out] = append(byOut[a.Out], m)
		all = append(all, m)
	}
	extra, eerrs := extras(*repo, files)
	errs = append(errs, eerrs...)
	for k, v := range extra {
		byOut[k] = append(byOut[k], v...)
		all = append(all, v...)
	}
	outs := make([]string, 0, len(byOut))
	for k := range byOut {
		outs = append(outs, k)
	}
	sort.Strings(outs)
	changed := []string{}
	for _, o := range outs {
		var b strings.Builder
		b.WriteString("(* GENERATED by /verif/gen from /repo's current sources — do not edit. *)\n")
		b.WriteString("From Moc Require Import Base.\nOpen Scope Z_scope.\n\n")
		for _, m := range byOut[o] {
			fmt.Fprintf(&b, "(* %s %s line %d:\n   %s *)\n%s\n\n", m.File, m.Func, m.Line, strings.ReplaceAll(m.GoText, "*)", "* )"), m.Coq)
		}
		p := filepath.Join(*out, o+".v")
		old, _ := os.ReadFile(p)
		// line numbers are informative only: compare without the comment lines
		if stripComments(string(old)) != stripComments(b.String()) {
			if err := os.WriteFile(p, []byte(b.String()), 0o644); err != nil {
				fmt.Fprintln(os.Stderr, "gen:", err)
				os.Exit(2)
			}
			changed = append(changed, o)
		}
	}
	if *report != "" {
		j, _ := json.MarshalIndent(map[string]any{"matched": all, "errors": errs, "changed": changed}, "", " ")
		os.WriteFile(*report, j, 0o644)
	}
	for _, c := range changed {
		fmt.Println("gen: changed", c)
	}
	if len(errs) > 0 {
		for _, e := range errs {
			fmt.Fprintln(os.Stderr, "gen: TIE-BROKEN:", e)
		}
		os.Exit(3)
	}
}

// oldDefinition returns the text "Definition name ... ." of a previously generated file.
func oldDefinition(path, name string) string {
	b, err := os.ReadFile(path)
	if err != nil {
		return ""
	}
	txt := stripComments(string(b))
	i := strings.Index(txt, "Definition "+name+" ")
	if i < 0 {
		return ""
	}
	rest := txt[i:]
	j := strings.Index(rest, ".\n")
	if j < 0 {
		return ""
	}
	return strings.TrimSpace(rest[:j+1])
}

func stripComments(s string) string {
	var b strings.Builder
	depth := 0
	for i := 0; i < len(s); i++ {
		if i+1 < len(s) && s[i] == '(' && s[i+1] == '*' {
			depth++
			i++
			continue
		}
		if i+1 < len(s) && s[i] == '*' && s[i+1] == ')' && depth > 0 {
			depth--
			i++
			continue
		}
		if depth == 0 {
			b.WriteByte(s[i])
		}
	}
	return b.String()
}
