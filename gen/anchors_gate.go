package main

// Guards of the WebSocket session gate (relay.go: serveRead, serveWriteLoop,
// sendMsgWithTimeout), regenerated into coq/theories/Gen/GenGate.v and used by
// coq/theories/Gate.v.  Besides the single conditions, gateExtras emits
//   g_gate_order        the shape of serveRead as a list of step names in source order
//                       (which test, how many notices in its body, what it returns),
//   g_gate_notice_fmts  the format strings of the six notices in source order,
//   g_gate_write_type   the frame type serveWriteLoop writes (1 = text, 2 = binary),
//   g_gate_write_order  the shape of the `case msg := <-send` arm of serveWriteLoop.
// Gate.v's GateProofs.v pins the two shapes by reflexivity: an edit that reorders the
// tests, drops a `return nil`, sends a second notice, adds a test or removes one breaks
// a named lemma.

import (
	"fmt"
	"go/ast"
	"go/parser"
	"go/token"
	"path/filepath"
	"strconv"
	"strings"
)

func init() {
	extraFns = append(extraFns, gateExtras)
}

// gateAnchors: the single conditions.  They are translated from gateExtras (not
// through the common anchor table) so that an anchor the translator cannot
// follow any more leaves its pinned-tree meaning behind as a FALLBACK: Gate.v
// and the correspondence check keep compiling and keep running — the oracle
// can still find a failing input — while the loss is reported three times over:
// as a translator error, in g_gate_untranslated (pinned to [] by
// GateProofs.gate_all_translated), and, for the two shapes, by an empty list.
func gateAnchors() []anchor {
	const f = "relay.go"
	const out = "GenGate"
	return []anchor{
		// websocket.MessageText = 1, websocket.MessageBinary = 2 (coder/websocket conn.go, iota + 1)
		{Name: "g_gate_not_text", File: f, Recv: "Relay", Func: "serveRead", Kind: "ifcond", Select: "websocket.Message",
			Header: "(typ : Z)", RetTy: "bool", Out: out,
			Syms: map[string]sym{"typ": z("typ"), "websocket.MessageText": z("1"), "websocket.MessageBinary": z("2")}},
		{Name: "g_gate_bad_json", File: f, Recv: "Relay", Func: "serveRead", Kind: "ifcond", Select: "json.Valid",
			Header: "(utf8 json : bool)", RetTy: "bool", Out: out,
			Syms: map[string]sym{"utf8.Valid(payload)": b("utf8"), "json.Valid(payload)": b("json")}},
		{Name: "g_gate_invalid", File: f, Recv: "Relay", Func: "serveRead", Kind: "ifcond", Select: "ValidClientMsg",
			Header: "(valid : bool)", RetTy: "bool", Out: out,
			Syms: map[string]sym{"ValidClientMsg(msg)": b("valid")}},
		// `valid` is the first result of msg.Event.Verify()
		{Name: "g_gate_not_authentic", File: f, Recv: "Relay", Func: "serveRead", Kind: "ifcond", Select: "valid",
			Header: "(authentic : bool)", RetTy: "bool", Out: out,
			Syms: map[string]sym{"valid": b("authentic")}},
	}
}

// gateFallback: the meaning on the pinned tree (see gateAnchors).
var gateFallback = map[string]string{
	"g_gate_not_text":      "Definition g_gate_not_text (typ : Z) : bool :=\n  (negb (typ =? 1)).",
	"g_gate_bad_json":      "Definition g_gate_bad_json (utf8 json : bool) : bool :=\n  ((negb utf8) || (negb json)).",
	"g_gate_invalid":       "Definition g_gate_invalid (valid : bool) : bool :=\n  (negb valid).",
	"g_gate_not_authentic": "Definition g_gate_not_authentic (authentic : bool) : bool :=\n  (negb authentic).",
	"g_gate_parse_err":     "Definition g_gate_parse_err (err : bool) : bool :=\n  err.",
	"g_gate_verify_err":    "Definition g_gate_verify_err (err : bool) : bool :=\n  err.",
	"g_gate_order":         "Definition g_gate_order : list str :=\n  [].",
	"g_gate_notice_fmts": "Definition g_gate_notice_fmts : list str :=\n  " + gateStrList([]string{
		"binary websocket message type is not allowed", "invalid json msg", "invalid client msg", "invalid client msg: %s",
		"internal error", "invalid sig event: %s"}) + ".",
	"g_gate_write_type":  "Definition g_gate_write_type : Z :=\n  1.",
	"g_gate_write_order": "Definition g_gate_write_order : list str :=\n  [].",
}

func gateParse(repo string, files map[string]*ast.File, name string) *ast.File {
	f := files[name]
	if f == nil {
		var err error
		f, err = parser.ParseFile(fset, filepath.Join(repo, name), nil, 0)
		if err != nil {
			failf("parse error: %v", err)
		}
		files[name] = f
	}
	return f
}

func gateGuarded(name string, errs *[]string, f func() []matched) (m []matched, ok bool) {
	defer func() {
		if r := recover(); r != nil {
			if fl, isf := r.(failure); isf {
				*errs = append(*errs, fmt.Sprintf("anchor %s (relay.go): %s", name, fl.msg))
				ok = false
				return
			}
			panic(r)
		}
	}()
	return f(), true
}

func gateStrList(xs []string) string {
	ps := make([]string, len(xs))
	for i, x := range xs {
		ps[i] = coqStr(x)
	}
	return "[" + strings.Join(ps, ";\n   ") + "]"
}

// gateBlockShape describes what a rejecting branch does: every statement of
// the block, reduced to the ones that matter (notices sent, forwarding,
// returns); logging and the construction of the notice are skipped.
// fmts collects the notice format strings in source order.
func gateBlockShape(ss []ast.Stmt, fmts *[]string) string {
	var parts []string
	for _, s := range ss {
		switch s := s.(type) {
		case *ast.ExprStmt:
			c, ok := s.X.(*ast.CallExpr)
			if !ok {
				failf("unsupported statement %q", pr(s))
			}
			switch fn := pr(c.Fun); {
			case fn == "relay.logWarn" || fn == "relay.logInfo":
			case fn == "sendServerMsgCtx":
				if len(c.Args) != 3 || pr(c.Args[1]) != "send" || pr(c.Args[2]) != "notice" {
					failf("unexpected send %q", pr(s))
				}
				parts = append(parts, "notice")
			case fn == "sendCtx":
				if len(c.Args) != 3 || pr(c.Args[1]) != "recv" || pr(c.Args[2]) != "msg" {
					failf("unexpected forward %q", pr(s))
				}
				parts = append(parts, "forward")
			default:
				failf("unsupported call %q", pr(s))
			}
		case *ast.AssignStmt:
			if len(s.Lhs) == 1 && pr(s.Lhs[0]) == "notice" && len(s.Rhs) == 1 {
				c, ok := s.Rhs[0].(*ast.CallExpr)
				if !ok || (pr(c.Fun) != "NewServerNoticeMsgf" && pr(c.Fun) != "NewServerNoticeMsg") || len(c.Args) == 0 {
					failf("unsupported notice construction %q", pr(s))
				}
				lit, ok := c.Args[0].(*ast.BasicLit)
				if !ok || lit.Kind != token.STRING {
					failf("notice text is not a string literal: %q", pr(s))
				}
				txt, err := strconv.Unquote(lit.Value)
				if err != nil {
					failf("bad string literal %s", lit.Value)
				}
				if pr(c.Fun) == "NewServerNoticeMsg" {
					// not a format: a literal percent sign stays what it is
					txt = strings.ReplaceAll(txt, "%", "%%")
				}
				// only "%s" (at most once) and "%%" are understood by Gate.v's formatter
				rest := strings.ReplaceAll(txt, "%%", "")
				if strings.Count(rest, "%") != strings.Count(rest, "%s") || strings.Count(rest, "%s") > 1 ||
					strings.Count(rest, "%s") != len(c.Args)-1 {
					failf("unsupported notice format %q", txt)
				}
				if len(c.Args) == 2 {
					a := pr(c.Args[1])
					if a != "payload" && a != "msg.Event.ID" {
						failf("unsupported notice argument %q", a)
					}
					parts = append(parts, "text("+a+")")
				} else {
					parts = append(parts, "text")
				}
				*fmts = append(*fmts, txt)
				continue
			}
			failf("unsupported statement %q", pr(s))
		case *ast.ReturnStmt:
			if len(s.Results) != 1 {
				failf("unsupported return %q", pr(s))
			}
			parts = append(parts, "return "+pr(s.Results[0]))
		default:
			failf("unsupported statement %q", pr(s))
		}
	}
	return strings.Join(parts, "; ")
}

func gateExtras(repo string, files map[string]*ast.File) (map[string][]matched, []string) {
	const out = "GenGate"
	var errs []string
	res := map[string][]matched{}
	var lost []string
	// add runs one producer; every name it was expected to define and did not gets its fallback
	add := func(names []string, f func() []matched) {
		got := map[string]bool{}
		if m, ok := gateGuarded(names[0], &errs, f); ok {
			for _, x := range m {
				got[x.Name] = true
			}
			res[out] = append(res[out], m...)
		}
		for _, n := range names {
			if !got[n] {
				if len(errs) == 0 || !strings.Contains(errs[len(errs)-1], n) {
					errs = append(errs, fmt.Sprintf("anchor %s (relay.go): not produced", n))
				}
				lost = append(lost, n)
				res[out] = append(res[out], matched{n, "relay.go", "FALLBACK", 0, "FALLBACK: the translator could not follow the source; pinned-tree meaning", gateFallback[n]})
			}
		}
	}
	for _, a := range gateAnchors() {
		a := a
		add([]string{a.Name}, func() []matched {
			m, err := translate(repo, a, files)
			if err != nil {
				failf("%v", err)
			}
			return []matched{m}
		})
	}

	add([]string{"g_gate_order", "g_gate_notice_fmts", "g_gate_parse_err", "g_gate_verify_err"}, func() []matched {
		f := gateParse(repo, files, "relay.go")
		fd := findFunc(f, "Relay", "serveRead")
		if fd == nil || fd.Body == nil {
			failf("function not found")
		}
		var steps, fmts []string
		var errGuards []matched
		errGuard := func(name string, is *ast.IfStmt) {
			t := &tr{syms: map[string]sym{"err != nil": b("err"), "err == nil": b("(negb err)")}}
			body, ty := t.expr(is.Cond)
			if ty != "bool" {
				failf("condition of sort %s", ty)
			}
			errGuards = append(errGuards, matched{name, "relay.go", "Relay.serveRead", fset.Position(is.Pos()).Line, pr(is.Cond),
				fmt.Sprintf("Definition %s (err : bool) : bool :=\n  %s.", name, body)})
		}
		ifStep := func(name string, is *ast.IfStmt) {
			if is.Else != nil {
				failf("unexpected else in %q", pr(is.Cond))
			}
			steps = append(steps, "if "+name+" { "+gateBlockShape(is.Body.List, &fmts)+" }")
		}
		var walk func(ss []ast.Stmt, inEvent bool)
		walk = func(ss []ast.Stmt, inEvent bool) {
			for _, s := range ss {
				switch s := s.(type) {
				case *ast.IfStmt:
					cond := pr(s.Cond)
					switch {
					case s.Init != nil && strings.Contains(pr(s.Init), "limiter.Wait"):
						steps = append(steps, "wait")
					case s.Init != nil && strings.Contains(pr(s.Init), ".(*"):
						// if msg, ok := msg.(*ClientEventMsg); ok { ... }
						if cond != "ok" || inEvent || s.Else != nil {
							failf("unsupported type test %q", pr(s.Init))
						}
						as, ok := s.Init.(*ast.AssignStmt)
						if !ok || len(as.Rhs) != 1 {
							failf("unsupported type test %q", pr(s.Init))
						}
						ta, ok := as.Rhs[0].(*ast.TypeAssertExpr)
						if !ok || pr(ta.X) != "msg" {
							failf("unsupported type test %q", pr(s.Init))
						}
						steps = append(steps, "when "+pr(ta.Type)+" {")
						walk(s.Body.List, true)
						steps = append(steps, "}")
					case s.Init != nil:
						failf("unsupported if-init %q", pr(s.Init))
					case strings.Contains(cond, "websocket.MessageText") || strings.Contains(cond, "websocket.MessageBinary"):
						ifStep("not_text", s)
					case strings.Contains(cond, "json.Valid") || strings.Contains(cond, "utf8.Valid"):
						ifStep("bad_json", s)
					case strings.Contains(cond, "ValidClientMsg"):
						ifStep("invalid", s)
					case cond == "err != nil" || cond == "err == nil":
						if len(steps) == 0 {
							failf("error test without a preceding call")
						}
						switch last := steps[len(steps)-1]; last {
						case "read":
							if cond != "err != nil" {
								failf("unsupported read error test %q", cond)
							}
							steps = append(steps, "if read_err { stop }")
						case "parse":
							errGuard("g_gate_parse_err", s)
							ifStep("parse_err", s)
						case "verify":
							errGuard("g_gate_verify_err", s)
							ifStep("verify_err", s)
						default:
							failf("error test after %q", last)
						}
					case strings.Contains(cond, "valid"):
						ifStep("not_authentic", s)
					default:
						failf("unknown test %q", cond)
					}
				case *ast.AssignStmt:
					if len(s.Rhs) != 1 {
						failf("unsupported statement %q", pr(s))
					}
					switch rhs := pr(s.Rhs[0]); rhs {
					case "conn.Read(ctx)":
						steps = append(steps, "read")
					case "ParseClientMsg(payload)":
						steps = append(steps, "parse")
					case "msg.Event.Verify()":
						if !inEvent || len(s.Lhs) != 2 || pr(s.Lhs[0]) != "valid" || pr(s.Lhs[1]) != "err" {
							failf("unsupported verify %q", pr(s))
						}
						steps = append(steps, "verify")
					default:
						failf("unsupported statement %q", pr(s))
					}
				case *ast.ExprStmt, *ast.ReturnStmt:
					steps = append(steps, gateBlockShape([]ast.Stmt{s}, &fmts))
				default:
					failf("unsupported statement %q", pr(s))
				}
			}
		}
		walk(fd.Body.List, false)
		line := fset.Position(fd.Pos()).Line
		ms := []matched{
			{"g_gate_order", "relay.go", "Relay.serveRead", line, "statement shape of serveRead",
				"Definition g_gate_order : list str :=\n  " + gateStrList(steps) + "."},
			{"g_gate_notice_fmts", "relay.go", "Relay.serveRead", line, "notice format strings of serveRead in source order",
				"Definition g_gate_notice_fmts : list str :=\n  " + gateStrList(fmts) + "."},
		}
		return append(errGuards, ms...)
	})

	add([]string{"g_gate_write_type"}, func() []matched {
		f := gateParse(repo, files, "relay.go")
		fd := findFunc(f, "Relay", "sendMsgWithTimeout")
		if fd == nil || fd.Body == nil {
			failf("function not found")
		}
		var calls []*ast.CallExpr
		ast.Inspect(fd.Body, func(n ast.Node) bool {
			if c, ok := n.(*ast.CallExpr); ok && pr(c.Fun) == "conn.Write" {
				calls = append(calls, c)
			}
			return true
		})
		if len(calls) != 1 || len(calls[0].Args) != 3 || pr(calls[0].Args[2]) != "msg" {
			failf("expected exactly one conn.Write(ctx, type, msg)")
		}
		last, ok := fd.Body.List[len(fd.Body.List)-1].(*ast.ReturnStmt)
		if !ok || len(last.Results) != 1 || last.Results[0] != ast.Expr(calls[0]) {
			failf("sendMsgWithTimeout does not end in `return conn.Write(...)`")
		}
		var v string
		switch pr(calls[0].Args[1]) {
		case "websocket.MessageText":
			v = "1"
		case "websocket.MessageBinary":
			v = "2"
		default:
			failf("unknown frame type %q", pr(calls[0].Args[1]))
		}
		return []matched{{"g_gate_write_type", "relay.go", "Relay.sendMsgWithTimeout", fset.Position(calls[0].Pos()).Line, pr(calls[0]),
			"Definition g_gate_write_type : Z :=\n  " + v + "."}}
	})

	add([]string{"g_gate_write_order"}, func() []matched {
		f := gateParse(repo, files, "relay.go")
		fd := findFunc(f, "Relay", "serveWriteLoop")
		if fd == nil || fd.Body == nil {
			failf("function not found")
		}
		var arm *ast.CommClause
		ast.Inspect(fd.Body, func(n ast.Node) bool {
			if cc, ok := n.(*ast.CommClause); ok && cc.Comm != nil && pr(cc.Comm) == "msg := <-send" {
				if arm != nil {
					failf("two arms receive from send")
				}
				arm = cc
			}
			return true
		})
		if arm == nil {
			failf("no `case msg := <-send` arm")
		}
		var steps []string
		for _, s := range arm.Body {
			switch s := s.(type) {
			case *ast.AssignStmt:
				if len(s.Rhs) != 1 || pr(s.Rhs[0]) != "json.Marshal(msg)" || len(s.Lhs) != 2 || pr(s.Lhs[0]) != "jsonMsg" {
					failf("unsupported statement %q", pr(s))
				}
				steps = append(steps, "marshal")
			case *ast.IfStmt:
				switch {
				case s.Init == nil && pr(s.Cond) == "err != nil" && len(steps) > 0 && steps[len(steps)-1] == "marshal":
					steps = append(steps, "if marshal_err { stop }")
				case s.Init != nil && pr(s.Init) == "err := relay.sendMsgWithTimeout(ctx, conn, jsonMsg)" && pr(s.Cond) == "err != nil":
					steps = append(steps, "write", "if write_err { stop }")
				default:
					failf("unsupported statement %q", pr(s.Cond))
				}
				if !terminates(s.Body.List) || s.Else != nil {
					failf("error branch does not return")
				}
			default:
				failf("unsupported statement %q", pr(s))
			}
		}
		return []matched{{"g_gate_write_order", "relay.go", "Relay.serveWriteLoop", fset.Position(arm.Pos()).Line, "case msg := <-send: ...",
			"Definition g_gate_write_order : list str :=\n  " + gateStrList(steps) + "."}}
	})
	res[out] = append(res[out], matched{"g_gate_untranslated", "relay.go", "-", 0, "anchors that fell back to their pinned-tree meaning on this run",
		"Definition g_gate_untranslated : list str :=\n  " + gateStrList(lost) + "."})
	return res, errs
}
