package main

// Guards and tables for C19 (middleware/prometheus/prometheus.go -> GenProm.v)
// and C20 (server.go, nip11.go -> GenHttp.v).
//
// Besides three ordinary if-condition anchors, the material here is extracted
// by small special-purpose walkers, because the code in question is not a pure
// expression: type switches that pick a label, mutex-protected map updates
// guarded by `if _, ok := c.m[reqID][sub]; ok`, an if / else-if / else chain
// whose branches perform an action instead of returning a value, struct tags.
// Every walker accepts exactly the statement shapes listed in its comment and
// fails loudly (TIE-BROKEN) on anything else; it never guesses.

import (
	"fmt"
	"go/ast"
	"go/parser"
	"go/token"
	"path/filepath"
	"reflect"
	"sort"
	"strconv"
	"strings"
)

const promFile = "middleware/prometheus/prometheus.go"

func init() {
	extraFns = append(extraFns, promExtras, httpExtras)
}

func promhttpAnchors() []anchor {
	return []anchor{
		{Name: "g_kind_single", File: "nip11.go", Recv: "Nip11Kind", Func: "MarshalJSON", Kind: "ifcond", Select: "k.From",
			Header: "(from to : Z)", RetTy: "bool", Out: "GenHttp",
			Syms: map[string]sym{"k.From": z("from"), "k.To": z("to")}},
		{Name: "g_kind_pair_len_bad", File: "nip11.go", Recv: "Nip11Kind", Func: "UnmarshalJSON", Kind: "ifcond", Select: "len(v)",
			Header: "(len : Z)", RetTy: "bool", Out: "GenHttp",
			Syms: map[string]sym{"len(v)": z("len")}},
		{Name: "g_nip11_bad_accept", File: "nip11.go", Recv: "NIP11", Func: "ServeHTTP", Kind: "ifcond", Select: "Accept",
			Header: "(accept : str)", RetTy: "bool", Out: "GenHttp",
			Syms: map[string]sym{`r.Header.Get("Accept")`: s("accept")}},
	}
}

// ---------------------------------------------------------------------------
// helpers

func phParse(repo string, files map[string]*ast.File, name string) *ast.File {
	if f := files[name]; f != nil {
		return f
	}
	f, err := parser.ParseFile(fset, filepath.Join(repo, name), nil, 0)
	if err != nil {
		failf("parse error in %s: %v", name, err)
	}
	files[name] = f
	return f
}

// phFallback: when an anchor can no longer be translated the error is reported (the tie is
// broken, the check fails) but a neutral definition is still emitted, so that the Coq files
// keep compiling and the specification oracle can still search for a failing input.
// name -> {binders and type, value}
var phFallback = map[string][2]string{
	"g_prom_recv_labels":    {": list (str * str)", "[]"},
	"g_prom_send_labels":    {": list (str * str)", "[]"},
	"g_prom_kind_rule":      {": str * Z", "(([] : str), 0)"},
	"g_prom_conn":           {": list (str * Z)", "[]"},
	"g_prom_req_rules":      {": list (str * (Z * (Z * Z)))", "[]"},
	"g_prom_start_fresh":    {": bool", "false"},
	"g_prom_end_rule":       {": bool * bool", "(false, false)"},
	"g_prom_locks":          {": list (str * bool)", "[]"},
	"g_prom_session_key":    {": list str", "[]"},
	"g_prom_dispatch":       {": list (str * list str)", "[]"},
	"g_prom_client_forward": {": Z", "0"},
	"g_prom_server_forward": {": Z", "0"},
	"g_mux_route":           {"(upgrade accept : str) (nip11_nil default_nil : bool) : Z * str", "(5, ([] : str))"},
	"g_nip11_headers":       {": list (str * str)", "[]"},
	"g_nip11_tags":          {": list (str * list (str * (str * (str * bool))))", "[]"},
	"g_kind_single":         {"(from to : Z) : bool", "false"},
	"g_kind_pair_len_bad":   {"(len : Z) : bool", "false"},
	"g_nip11_bad_accept":    {"(accept : str) : bool", "false"},
}

func phFallbackFor(name, msg string) (matched, bool) {
	fb, ok := phFallback[name]
	if !ok {
		return matched{}, false
	}
	return matched{name, "-", "-", 0, "TIE BROKEN, neutral fallback: " + safeGo(msg),
		fmt.Sprintf("Definition %s %s :=\n  %s.", name, fb[0], fb[1])}, true
}

// phGuard runs f and turns a failf into an error string (plus the fallback definition).
func phGuard(name string, errs *[]string, f func() matched) (m matched, ok bool) {
	defer func() {
		if r := recover(); r != nil {
			if fl, isf := r.(failure); isf {
				*errs = append(*errs, fmt.Sprintf("anchor %s: %s", name, fl.msg))
				m, ok = phFallbackFor(name, fl.msg)
				return
			}
			panic(r)
		}
	}()
	return f(), true
}

func phFunc(f *ast.File, file, recv, name string) *ast.FuncDecl {
	fd := findFunc(f, recv, name)
	if fd == nil || fd.Body == nil {
		failf("%s: method %s.%s not found", file, recv, name)
	}
	return fd
}

func coqStrList(xs []string) string {
	if len(xs) == 0 {
		return "([] : list str)"
	}
	parts := make([]string, len(xs))
	for i, x := range xs {
		parts[i] = coqStr(x)
	}
	return "[" + strings.Join(parts, "; ") + "]"
}

// typeName: *mocrelay.ClientEventMsg -> ClientEventMsg
func typeName(e ast.Expr) string {
	if st, ok := e.(*ast.StarExpr); ok {
		e = st.X
	}
	if se, ok := e.(*ast.SelectorExpr); ok {
		return se.Sel.Name
	}
	if id, ok := e.(*ast.Ident); ok {
		return id.Name
	}
	failf("unsupported case type %q", pr(e))
	return ""
}

// the single type switch at the top level of a body
func soleTypeSwitch(fd *ast.FuncDecl) *ast.TypeSwitchStmt {
	var ts *ast.TypeSwitchStmt
	for _, s := range fd.Body.List {
		switch s := s.(type) {
		case *ast.TypeSwitchStmt:
			if ts != nil {
				failf("more than one type switch")
			}
			ts = s
		case *ast.ReturnStmt:
		default:
			failf("unsupported top-level statement %q", pr(s))
		}
	}
	if ts == nil {
		failf("no type switch found")
	}
	return ts
}

func clauseTypes(cc *ast.CaseClause) []string {
	if cc.List == nil {
		return []string{"default"}
	}
	var out []string
	for _, t := range cc.List {
		out = append(out, typeName(t))
	}
	return out
}

// labelOfInc: `c.c.WithLabelValues("X").Inc()` -> X
func labelOfInc(s ast.Stmt) string {
	es, ok := s.(*ast.ExprStmt)
	if !ok {
		failf("expected a counter increment, got %q", pr(s))
	}
	txt := pr(es.X)
	const pre, post = `c.c.WithLabelValues(`, `).Inc()`
	if !strings.HasPrefix(txt, pre) || !strings.HasSuffix(txt, post) {
		failf("expected c.c.WithLabelValues(\"..\").Inc(), got %q", txt)
	}
	lit := txt[len(pre) : len(txt)-len(post)]
	v, err := strconv.Unquote(lit)
	if err != nil {
		failf("label is not a string literal: %q", lit)
	}
	return v
}

// labelTable: a method whose body is one type switch, each clause exactly one
// `c.c.WithLabelValues("X").Inc()`.
func labelTable(fd *ast.FuncDecl) string {
	ts := soleTypeSwitch(fd)
	var rows []string
	for _, st := range ts.Body.List {
		cc := st.(*ast.CaseClause)
		if len(cc.Body) != 1 {
			failf("case %v must consist of exactly one increment", clauseTypes(cc))
		}
		l := labelOfInc(cc.Body[0])
		for _, tn := range clauseTypes(cc) {
			rows = append(rows, "("+coqStr(tn)+", "+coqStr(l)+")")
		}
	}
	return "[" + strings.Join(rows, ";\n   ") + "]"
}

// gaugeDelta of one statement: c.c.Inc() = +1, c.c.Dec() = -1, otherwise not a gauge op
func gaugeDelta(s ast.Stmt) (int, bool) {
	es, ok := s.(*ast.ExprStmt)
	if !ok {
		return 0, false
	}
	switch pr(es.X) {
	case "c.c.Inc()":
		return 1, true
	case "c.c.Dec()":
		return -1, true
	}
	return 0, false
}

// reqRule: the body of one clause of reqCounter's type switches:
//
//	reqID := getRequestID(ctx)
//	c.mu.Lock()
//	defer c.mu.Unlock()
//	if _, ok := c.m[reqID][msg.SubscriptionID]; ok|!ok { OPS }      (guard 1 | 0)
//	or OPS directly                                                  (guard 2)
//
// OPS: c.m[reqID][msg.SubscriptionID] = true (map op 1), delete(c.m[reqID], msg.SubscriptionID)
// (map op 2), c.c.Inc(), c.c.Dec() (summed).  Result "(guard, (mapop, delta))".
func reqRule(body []ast.Stmt) string {
	guard, mapop, delta := -1, 0, 0
	ops := func(ss []ast.Stmt) {
		for _, s := range ss {
			if d, ok := gaugeDelta(s); ok {
				delta += d
				continue
			}
			switch pr(s) {
			case "c.m[reqID][msg.SubscriptionID] = true":
				if mapop != 0 {
					failf("two map operations in one rule")
				}
				mapop = 1
			case "delete(c.m[reqID], msg.SubscriptionID)":
				if mapop != 0 {
					failf("two map operations in one rule")
				}
				mapop = 2
			default:
				failf("unsupported operation %q", pr(s))
			}
		}
	}
	for _, s := range body {
		switch pr(s) {
		case "reqID := getRequestID(ctx)", "c.mu.Lock()", "defer c.mu.Unlock()":
			continue
		}
		if is, ok := s.(*ast.IfStmt); ok {
			if guard != -1 {
				failf("more than one guarded block in a rule, or operations before the guard")
			}
			if is.Init == nil || pr(is.Init) != "_, ok := c.m[reqID][msg.SubscriptionID]" || is.Else != nil {
				failf("unsupported guard %q", pr(is))
			}
			switch pr(is.Cond) {
			case "ok":
				guard = 1
			case "!ok":
				guard = 0
			default:
				failf("unsupported guard condition %q", pr(is.Cond))
			}
			ops(is.Body.List)
			continue
		}
		if guard != -1 && guard != 2 {
			failf("operation %q beside a guarded block", pr(s))
		}
		guard = 2
		ops([]ast.Stmt{s})
	}
	if guard == -1 {
		guard = 2
	}
	return fmt.Sprintf("(%d, (%d, %d))", guard, mapop, delta)
}

func reqRules(fd *ast.FuncDecl) []string {
	ts := soleTypeSwitch(fd)
	var rows []string
	for _, st := range ts.Body.List {
		cc := st.(*ast.CaseClause)
		r := reqRule(cc.Body)
		for _, tn := range clauseTypes(cc) {
			rows = append(rows, "("+coqStr(tn)+", "+r+")")
		}
	}
	return rows
}

// lockedMethod: the method takes c.mu.Lock() with a deferred c.mu.Unlock()
// before every statement that touches c.m or c.c (on every path), and does
// take it at least once.
func lockedMethod(fd *ast.FuncDecl) bool {
	took := false
	okAll := true
	touches := func(n ast.Node) bool {
		hit := false
		ast.Inspect(n, func(x ast.Node) bool {
			if se, ok := x.(*ast.SelectorExpr); ok {
				if id, ok := se.X.(*ast.Ident); ok && id.Name == "c" && (se.Sel.Name == "m" || se.Sel.Name == "c") {
					hit = true
				}
			}
			return !hit
		})
		return hit
	}
	var walk func(ss []ast.Stmt, locked bool)
	walk = func(ss []ast.Stmt, locked bool) {
		for i, s := range ss {
			if pr(s) == "c.mu.Lock()" {
				if i+1 < len(ss) && pr(ss[i+1]) == "defer c.mu.Unlock()" {
					locked = true
					took = true
				} else {
					okAll = false
				}
				continue
			}
			switch s := s.(type) {
			case *ast.BlockStmt:
				walk(s.List, locked)
			case *ast.IfStmt:
				if s.Init != nil && touches(s.Init) && !locked {
					okAll = false
				}
				if touches(s.Cond) && !locked {
					okAll = false
				}
				walk(s.Body.List, locked)
				switch e := s.Else.(type) {
				case *ast.BlockStmt:
					walk(e.List, locked)
				case *ast.IfStmt:
					walk([]ast.Stmt{e}, locked)
				}
			case *ast.TypeSwitchStmt:
				for _, c := range s.Body.List {
					walk(c.(*ast.CaseClause).Body, locked)
				}
			case *ast.SwitchStmt:
				for _, c := range s.Body.List {
					walk(c.(*ast.CaseClause).Body, locked)
				}
			default:
				if touches(s) && !locked {
					okAll = false
				}
			}
		}
	}
	walk(fd.Body.List, false)
	return took && okAll
}

// safeGo: Go text that goes into a Coq comment must not open a nested comment or a string.
func safeGo(s string) string {
	s = strings.ReplaceAll(s, "\"", "'")
	s = strings.ReplaceAll(s, "(*", "( *")
	return strings.ReplaceAll(s, "*)", "* )")
}

func cbool(b bool) string {
	if b {
		return "true"
	}
	return "false"
}

var promMethods = []string{"ServeNostrStart", "ServeNostrEnd", "ServeNostrClientMsg", "ServeNostrServerMsg"}

// ---------------------------------------------------------------------------
// C19

func promExtras(repo string, files map[string]*ast.File) (map[string][]matched, []string) {
	var errs []string
	var out []matched
	var f *ast.File
	if _, ok := phGuard("GenProm", &errs, func() matched { f = phParse(repo, files, promFile); return matched{} }); !ok {
		for name := range phFallback {
			if strings.HasPrefix(name, "g_prom_") {
				m, _ := phFallbackFor(name, "prometheus.go does not parse")
				out = append(out, m)
			}
		}
		sort.Slice(out, func(i, j int) bool { return out[i].Name < out[j].Name })
		return map[string][]matched{"GenProm": out}, errs
	}
	add := func(name, recv, fn, ty string, body func(fd *ast.FuncDecl) string) {
		m, ok := phGuard(name, &errs, func() matched {
			fd := phFunc(f, promFile, recv, fn)
			b := body(fd)
			return matched{name, promFile, recv + "." + fn, fset.Position(fd.Pos()).Line, safeGo(pr(fd.Body)),
				fmt.Sprintf("Definition %s : %s :=\n  %s.", name, ty, b)}
		})
		if ok {
			out = append(out, m)
		}
	}

	// label tables of the two per-type counters
	add("g_prom_recv_labels", "recvMsgCounter", "ServeNostrClientMsg", "list (str * str)", labelTable)
	add("g_prom_send_labels", "sendMsgCounter", "ServeNostrServerMsg", "list (str * str)", labelTable)

	// recvEventCounter: if msg, ok := msg.(*mocrelay.ClientEventMsg); ok { k := strconv.FormatInt(msg.Event.Kind, 10); c.c.WithLabelValues(k).Inc() }
	add("g_prom_kind_rule", "recvEventCounter", "ServeNostrClientMsg", "str * Z", func(fd *ast.FuncDecl) string {
		var is *ast.IfStmt
		for _, s := range fd.Body.List {
			switch s := s.(type) {
			case *ast.IfStmt:
				if is != nil {
					failf("more than one if")
				}
				is = s
			case *ast.ReturnStmt:
			default:
				failf("unsupported statement %q", pr(s))
			}
		}
		if is == nil || is.Init == nil || is.Else != nil || pr(is.Cond) != "ok" {
			failf("expected `if msg, ok := msg.(*T); ok {..}`")
		}
		as, ok := is.Init.(*ast.AssignStmt)
		if !ok || len(as.Rhs) != 1 || pr(as.Lhs[0]) != "msg" {
			failf("unsupported if-init %q", pr(is.Init))
		}
		ta, ok := as.Rhs[0].(*ast.TypeAssertExpr)
		if !ok || pr(ta.X) != "msg" {
			failf("unsupported if-init %q", pr(is.Init))
		}
		tn := typeName(ta.Type)
		if len(is.Body.List) != 2 || pr(is.Body.List[1]) != "c.c.WithLabelValues(k).Inc()" {
			failf("unsupported body %q", pr(is.Body))
		}
		const pre = "k := strconv.FormatInt(msg.Event.Kind, "
		t0 := pr(is.Body.List[0])
		if !strings.HasPrefix(t0, pre) || !strings.HasSuffix(t0, ")") {
			failf("unsupported label computation %q", t0)
		}
		base, err := strconv.Atoi(t0[len(pre) : len(t0)-1])
		if err != nil {
			failf("unsupported base in %q", t0)
		}
		return fmt.Sprintf("(%s, %d)", coqStr(tn), base)
	})

	// connection gauge: net effect of each method of connectionCounter
	m, ok := phGuard("g_prom_conn", &errs, func() matched {
		var rows []string
		line := 0
		for _, mn := range promMethods {
			fd := phFunc(f, promFile, "connectionCounter", mn)
			if line == 0 {
				line = fset.Position(fd.Pos()).Line
			}
			d := 0
			for _, s := range fd.Body.List {
				if x, ok := gaugeDelta(s); ok {
					d += x
					continue
				}
				if _, ok := s.(*ast.ReturnStmt); ok {
					continue
				}
				failf("connectionCounter.%s: unsupported statement %q", mn, pr(s))
			}
			rows = append(rows, fmt.Sprintf("(%s, %d)", coqStr(mn), d))
		}
		return matched{"g_prom_conn", promFile, "connectionCounter.*", line, "c.c.Inc() / c.c.Dec() per method",
			"Definition g_prom_conn : list (str * Z) :=\n  [" + strings.Join(rows, ";\n   ") + "]."}
	})
	if ok {
		out = append(out, m)
	}

	// reqCounter: rules of the two message methods, keyed by message type
	m, ok = phGuard("g_prom_req_rules", &errs, func() matched {
		fc := phFunc(f, promFile, "reqCounter", "ServeNostrClientMsg")
		fs := phFunc(f, promFile, "reqCounter", "ServeNostrServerMsg")
		rc := reqRules(fc)
		rs := reqRules(fs)
		return matched{"g_prom_req_rules", promFile, "reqCounter.ServeNostrClientMsg/ServerMsg", fset.Position(fc.Pos()).Line,
			safeGo(pr(fc.Body) + " " + pr(fs.Body)),
			"Definition g_prom_req_rules : list (str * (Z * (Z * Z))) :=\n  [" + strings.Join(append(rc, rs...), ";\n   ") + "]."}
	})
	if ok {
		out = append(out, m)
	}

	// reqCounter.ServeNostrStart: c.m[reqID] = make(map[string]bool)
	add("g_prom_start_fresh", "reqCounter", "ServeNostrStart", "bool", func(fd *ast.FuncDecl) string {
		fresh := false
		for _, s := range fd.Body.List {
			switch pr(s) {
			case "reqID := getRequestID(ctx)", "c.mu.Lock()", "defer c.mu.Unlock()", "return ctx, nil":
			case "c.m[reqID] = make(map[string]bool)":
				fresh = true
			default:
				failf("unsupported statement %q", pr(s))
			}
		}
		return cbool(fresh)
	})
	// reqCounter.ServeNostrEnd: cnt := len(c.m[reqID]); c.c.Sub(float64(cnt)); delete(c.m, reqID)
	add("g_prom_end_rule", "reqCounter", "ServeNostrEnd", "bool * bool", func(fd *ast.FuncDecl) string {
		cnt, sub, del := false, false, false
		for _, s := range fd.Body.List {
			switch pr(s) {
			case "reqID := getRequestID(ctx)", "c.mu.Lock()", "defer c.mu.Unlock()", "return nil":
			case "cnt := len(c.m[reqID])":
				if del {
					failf("length taken after the session was deleted")
				}
				cnt = true
			case "c.c.Sub(float64(cnt))":
				if !cnt {
					failf("Sub before cnt is computed")
				}
				sub = true
			case "delete(c.m, reqID)":
				del = true
			default:
				failf("unsupported statement %q", pr(s))
			}
		}
		return "(" + cbool(sub) + ", " + cbool(del) + ")"
	})

	// lock table of reqCounter
	m, ok = phGuard("g_prom_locks", &errs, func() matched {
		var rows []string
		line := 0
		for _, mn := range promMethods {
			fd := phFunc(f, promFile, "reqCounter", mn)
			if line == 0 {
				line = fset.Position(fd.Pos()).Line
			}
			rows = append(rows, fmt.Sprintf("(%s, %s)", coqStr(mn), cbool(lockedMethod(fd))))
		}
		return matched{"g_prom_locks", promFile, "reqCounter.*", line,
			"c.mu.Lock(); defer c.mu.Unlock() before every access to c.m / c.c",
			"Definition g_prom_locks : list (str * bool) :=\n  [" + strings.Join(rows, ";\n   ") + "]."}
	})
	if ok {
		out = append(out, m)
	}

	// the key under which a session's bookkeeping is stored: every statement of
	// simplePrometheusMiddlewareBase.ServeNostrStart that is not a dispatch to a counter and not
	// the final return (reqID := uuid.NewString(); ctx = setRequestID(ctx, reqID))
	add("g_prom_session_key", "simplePrometheusMiddlewareBase", "ServeNostrStart", "list str", func(fd *ast.FuncDecl) string {
		var stmts []string
		for _, s := range fd.Body.List {
			txt := pr(s)
			if es, ok := s.(*ast.ExprStmt); ok && strings.HasPrefix(pr(es.X), "m.") {
				continue
			}
			if txt == "return ctx, nil" {
				continue
			}
			stmts = append(stmts, txt)
		}
		return coqStrList(stmts)
	})

	// dispatch of simplePrometheusMiddlewareBase: which counters each method calls, and how
	// many times the message itself is forwarded
	m, ok = phGuard("g_prom_dispatch", &errs, func() matched {
		var rows []string
		line := 0
		for _, mn := range promMethods {
			fd := phFunc(f, promFile, "simplePrometheusMiddlewareBase", mn)
			if line == 0 {
				line = fset.Position(fd.Pos()).Line
			}
			var called []string
			for _, s := range fd.Body.List {
				es, ok := s.(*ast.ExprStmt)
				if !ok {
					continue
				}
				txt := pr(es.X)
				if strings.HasPrefix(txt, "m.") && strings.Contains(txt, "."+mn+"(ctx") {
					called = append(called, strings.TrimPrefix(txt[:strings.Index(txt, "."+mn+"(")], "m."))
				} else {
					failf("%s: unsupported call %q", mn, txt)
				}
			}
			rows = append(rows, "("+coqStr(mn)+", "+coqStrList(called)+")")
		}
		return matched{"g_prom_dispatch", promFile, "simplePrometheusMiddlewareBase.*", line, "m.<counter>.<method>(ctx, ...) calls",
			"Definition g_prom_dispatch : list (str * list str) :=\n  [" + strings.Join(rows, ";\n   ") + "]."}
	})
	if ok {
		out = append(out, m)
	}

	forward := func(name, fn, ch, chanTy, ret string) {
		add(name, "simplePrometheusMiddlewareBase", fn, "Z", func(fd *ast.FuncDecl) string {
			n, made, closed, returned := 0, false, false, false
			for _, s := range fd.Body.List {
				txt := pr(s)
				switch {
				case txt == ch+" := make(chan "+chanTy+", 1)":
					made = true
				case txt == "defer close("+ch+")":
					closed = true
				case txt == ch+" <- msg":
					n++
				case txt == ret:
					returned = true
				default:
					if _, ok := s.(*ast.ExprStmt); ok && strings.HasPrefix(txt, "m.") {
						continue
					}
					if _, ok := s.(*ast.SendStmt); ok {
						failf("%s sends something other than the message itself: %q", fn, txt)
					}
					failf("%s: unsupported statement %q", fn, txt)
				}
			}
			if !made || !closed || !returned {
				failf("%s: expected `%s := make(chan %s, 1); defer close(%s); ...; %s`", fn, ch, chanTy, ch, ret)
			}
			return strconv.Itoa(n)
		})
	}
	forward("g_prom_client_forward", "ServeNostrClientMsg", "ret", "mocrelay.ClientMsg", "return ret, nil, nil")
	forward("g_prom_server_forward", "ServeNostrServerMsg", "res", "mocrelay.ServerMsg", "return res, nil")

	return map[string][]matched{"GenProm": out}, errs
}

// ---------------------------------------------------------------------------
// C20

// muxRoute: the if / else-if / else chain of (*ServeMux).ServeHTTP.  Every
// branch performs, besides logging, exactly one action:
//
//	mux.Relay.ServeHTTP(w, r)    -> (0, "")
//	io.WriteString(w, "{}")      -> (1, "{}")         an empty JSON object
//	mux.NIP11.ServeHTTP(w, r)    -> (2, "")
//	io.WriteString(w, other)     -> (3, other)        a fixed text
//	mux.Default.ServeHTTP(w, r)  -> (4, "")
func muxRoute(fd *ast.FuncDecl, t *tr) string {
	var walk func(ss []ast.Stmt) string
	walk = func(ss []ast.Stmt) string {
		var res []string
		for _, s := range ss {
			switch s := s.(type) {
			case *ast.ExprStmt:
				txt := pr(s.X)
				switch {
				case strings.HasPrefix(txt, "mux.logInfo("):
				case txt == "mux.Relay.ServeHTTP(w, r)":
					res = append(res, "(0, ([] : str))")
				case txt == "mux.NIP11.ServeHTTP(w, r)":
					res = append(res, "(2, ([] : str))")
				case txt == "mux.Default.ServeHTTP(w, r)":
					res = append(res, "(4, ([] : str))")
				case strings.HasPrefix(txt, "io.WriteString(w, ") && strings.HasSuffix(txt, ")"):
					lit, err := strconv.Unquote(txt[len("io.WriteString(w, ") : len(txt)-1])
					if err != nil {
						failf("io.WriteString of a non-literal: %q", txt)
					}
					code := 3
					if lit == "{}" {
						code = 1
					}
					res = append(res, fmt.Sprintf("(%d, %s)", code, coqStr(lit)))
				default:
					failf("unsupported action %q", txt)
				}
			case *ast.IfStmt:
				if s.Init != nil {
					failf("unsupported if-init %q", pr(s.Init))
				}
				c, ty := t.expr(s.Cond)
				if ty != "bool" {
					failf("condition of sort %s", ty)
				}
				thn := walk(s.Body.List)
				var els string
				switch e := s.Else.(type) {
				case *ast.BlockStmt:
					els = walk(e.List)
				case *ast.IfStmt:
					els = walk([]ast.Stmt{e})
				default:
					failf("if without else in the routing chain: %q", pr(s.Cond))
				}
				res = append(res, "(if "+c+"\n   then "+thn+"\n   else "+els+")")
			default:
				failf("unsupported statement %q", pr(s))
			}
		}
		if len(res) != 1 {
			failf("a branch must perform exactly one action, found %d", len(res))
		}
		return res[0]
	}
	return walk(fd.Body.List)
}

var nip11Structs = []string{"NIP11", "NIP11Limitation", "NIP11Retention", "NIP11Fees", "Nip11Fee"}

func httpExtras(repo string, files map[string]*ast.File) (map[string][]matched, []string) {
	var errs []string
	var out []matched

	// ordinary if-conditions, through the shared expression translator
	for _, a := range promhttpAnchors() {
		mm, err := translate(repo, a, files)
		if err != nil {
			errs = append(errs, err.Error())
			var ok bool
			if mm, ok = phFallbackFor(a.Name, err.Error()); !ok {
				continue
			}
		}
		out = append(out, mm)
	}

	m, ok := phGuard("g_mux_route", &errs, func() matched {
		f := phParse(repo, files, "server.go")
		fd := phFunc(f, "server.go", "ServeMux", "ServeHTTP")
		t := &tr{syms: map[string]sym{
			`r.Header.Get("Upgrade")`: s("upgrade"),
			`r.Header.Get("Accept")`:  s("accept"),
			"mux.NIP11 == nil":        b("nip11_nil"),
			"mux.Default == nil":      b("default_nil"),
		}}
		body := muxRoute(fd, t)
		return matched{"g_mux_route", "server.go", "ServeMux.ServeHTTP", fset.Position(fd.Pos()).Line, safeGo(pr(fd.Body)),
			"Definition g_mux_route (upgrade accept : str) (nip11_nil default_nil : bool) : Z * str :=\n  " + body + "."}
	})
	if ok {
		out = append(out, m)
	}

	// NIP11.ServeHTTP: the headers added before the body is written, in order, and the
	// status codes written explicitly
	m, ok = phGuard("g_nip11_headers", &errs, func() matched {
		f := phParse(repo, files, "nip11.go")
		fd := phFunc(f, "nip11.go", "NIP11", "ServeHTTP")
		var rows []string
		wrote := false
		for _, st := range fd.Body.List {
			txt := pr(st)
			if strings.HasPrefix(txt, "w.Header().") {
				if wrote {
					failf("header set after the body was written: %q", txt)
				}
				ce, ok := st.(*ast.ExprStmt).X.(*ast.CallExpr)
				if !ok || len(ce.Args) != 2 || !(strings.HasPrefix(txt, "w.Header().Add(") || strings.HasPrefix(txt, "w.Header().Set(")) {
					failf("unsupported header statement %q", txt)
				}
				k, e1 := strconv.Unquote(pr(ce.Args[0]))
				v, e2 := strconv.Unquote(pr(ce.Args[1]))
				if e1 != nil || e2 != nil {
					failf("header name/value is not a literal: %q", txt)
				}
				rows = append(rows, "("+coqStr(k)+", "+coqStr(v)+")")
			}
			if txt == "w.Write(nip11json)" {
				wrote = true
			}
		}
		if !wrote {
			failf("no w.Write(nip11json)")
		}
		body := "[" + strings.Join(rows, ";\n   ") + "]"
		if len(rows) == 0 {
			body = "[]"
		}
		return matched{"g_nip11_headers", "nip11.go", "NIP11.ServeHTTP", fset.Position(fd.Pos()).Line, safeGo(pr(fd.Body)),
			"Definition g_nip11_headers : list (str * str) :=\n  " + body + "."}
	})
	if ok {
		out = append(out, m)
	}

	// struct tags: (struct, [(field, (Go type, (JSON key, omitempty)))])
	m, ok = phGuard("g_nip11_tags", &errs, func() matched {
		f := phParse(repo, files, "nip11.go")
		var rows []string
		line := 0
		for _, sn := range nip11Structs {
			var st *ast.StructType
			for _, d := range f.Decls {
				gd, ok := d.(*ast.GenDecl)
				if !ok || gd.Tok != token.TYPE {
					continue
				}
				for _, sp := range gd.Specs {
					ts := sp.(*ast.TypeSpec)
					if ts.Name.Name == sn {
						st, _ = ts.Type.(*ast.StructType)
						if line == 0 {
							line = fset.Position(ts.Pos()).Line
						}
					}
				}
			}
			if st == nil {
				failf("struct %s not found", sn)
			}
			var frows []string
			for _, fl := range st.Fields.List {
				if fl.Tag == nil {
					failf("%s: field without a tag", sn)
				}
				raw, err := strconv.Unquote(fl.Tag.Value)
				if err != nil {
					failf("%s: bad tag %s", sn, fl.Tag.Value)
				}
				jt, found := reflect.StructTag(raw).Lookup("json")
				if !found {
					failf("%s: no json tag in %s", sn, raw)
				}
				parts := strings.Split(jt, ",")
				omit := false
				for _, o := range parts[1:] {
					if o == "omitempty" {
						omit = true
					} else {
						failf("%s: unsupported tag option %q", sn, o)
					}
				}
				if len(fl.Names) == 0 {
					failf("%s: embedded field", sn)
				}
				for _, nm := range fl.Names {
					frows = append(frows, fmt.Sprintf("(%s, (%s, (%s, %s)))", coqStr(nm.Name), coqStr(pr(fl.Type)), coqStr(parts[0]), cbool(omit)))
				}
			}
			rows = append(rows, "("+coqStr(sn)+",\n    ["+strings.Join(frows, ";\n     ")+"])")
		}
		return matched{"g_nip11_tags", "nip11.go", "struct tags", line, strings.Join(nip11Structs, ", "),
			"Definition g_nip11_tags : list (str * list (str * (str * (str * bool)))) :=\n  [" + strings.Join(rows, ";\n   ") + "]."}
	})
	if ok {
		out = append(out, m)
	}

	return map[string][]matched{"GenHttp": out}, errs
}
