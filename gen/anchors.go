package main

import "go/ast"

func z(c string) sym { return sym{c, "Z"} }
func s(c string) sym { return sym{c, "str"} }
func b(c string) sym { return sym{c, "bool"} }

// anchorSets: every file of this package may register more anchors from an
// init() function (anchorSets = append(anchorSets, myAnchors)).
var anchorSets []func() []anchor

// anchors lists every guard that is regenerated from the source.
func anchors() []anchor {
	var all []anchor
	for _, f := range anchorSets {
		all = append(all, f()...)
	}
	return all
}

func init() { anchorSets = append(anchorSets, coreAnchors) }

func coreAnchors() []anchor {
	return []anchor{
		// ---- message.go -------------------------------------------------
		{Name: "g_event_type", File: "message.go", Recv: "Event", Func: "EventType", Kind: "body",
			Header: "(kind : Z)", RetTy: "Z", Out: "GenMsg",
			Syms: map[string]sym{
				"kind": z("kind"), "ev.Kind": z("kind"),
				"EventTypeRegular": z("1"), "EventTypeReplaceable": z("2"),
				"EventTypeEphemeral": z("3"), "EventTypeParamReplaceable": z("4"),
			}},
		{Name: "g_valid_kind", File: "message.go", Func: "validKind", Kind: "body",
			Header: "(kind : Z)", RetTy: "bool", Out: "GenMsg",
			Syms: map[string]sym{"kind": z("kind")}},
		{Name: "g_valid_id", File: "message.go", Func: "validID", Kind: "body",
			Header: "(len : Z) (hex : bool)", RetTy: "bool", Out: "GenMsg",
			Syms: map[string]sym{"len(id)": z("len"), "validHexString(id)": b("hex")}},
		{Name: "g_valid_pubkey", File: "message.go", Func: "validPubkey", Kind: "body",
			Header: "(len : Z) (hex : bool)", RetTy: "bool", Out: "GenMsg",
			Syms: map[string]sym{"len(pubkey)": z("len"), "validHexString(pubkey)": b("hex")}},
		{Name: "g_valid_sig", File: "message.go", Func: "validSig", Kind: "body",
			Header: "(len : Z) (hex : bool)", RetTy: "bool", Out: "GenMsg",
			Syms: map[string]sym{"len(sig)": z("len"), "validHexString(sig)": b("hex")}},
		{Name: "g_valid_tag", File: "message.go", Func: "validTag", Kind: "body",
			Header: "(len : Z) (first : str)", RetTy: "bool", Out: "GenMsg",
			Syms: map[string]sym{"len(tag)": z("len"), "tag[0]": s("first")}},
		{Name: "g_hex_char_bad", File: "utils.go", Func: "validHexString", Kind: "ifcond", Select: "'0'",
			Header: "(r : Z)", RetTy: "bool", Out: "GenMsg",
			Syms: map[string]sym{"r": z("r")}},
		{Name: "g_hex_empty", File: "utils.go", Func: "validHexString", Kind: "ifcond", Select: "len(s)",
			Header: "(len : Z)", RetTy: "bool", Out: "GenMsg",
			Syms: map[string]sym{"len(s)": z("len")}},

		// ---- event_matcher.go ------------------------------------------
		{Name: "g_since_reject", File: "event_matcher.go", Recv: "ReqFilterEventLimitMatcher", Func: "Match",
			Kind: "ifcond", Select: "*m.f.Since",
			Header: "(created_at since : Z)", RetTy: "bool", Out: "GenMatch",
			Syms: map[string]sym{"event.CreatedAt": z("created_at"), "*m.f.Since": z("since")}},
		{Name: "g_until_reject", File: "event_matcher.go", Recv: "ReqFilterEventLimitMatcher", Func: "Match",
			Kind: "ifcond", Select: "*m.f.Until",
			Header: "(created_at until : Z)", RetTy: "bool", Out: "GenMatch",
			Syms: map[string]sym{"event.CreatedAt": z("created_at"), "*m.f.Until": z("until")}},
		{Name: "g_ids_reject", File: "event_matcher.go", Recv: "ReqFilterEventLimitMatcher", Func: "Match",
			Kind: "ifcond", Select: "m.f.IDs",
			Header: "(present member : bool)", RetTy: "bool", Out: "GenMatch",
			Syms: map[string]sym{"m.f.IDs != nil": b("present"), "m.f.IDs[event.ID]": b("member")}},
		{Name: "g_kinds_reject", File: "event_matcher.go", Recv: "ReqFilterEventLimitMatcher", Func: "Match",
			Kind: "ifcond", Select: "m.f.Kinds",
			Header: "(present member : bool)", RetTy: "bool", Out: "GenMatch",
			Syms: map[string]sym{"m.f.Kinds != nil": b("present"), "m.f.Kinds[event.Kind]": b("member")}},
		{Name: "g_authors_reject", File: "event_matcher.go", Recv: "ReqFilterEventLimitMatcher", Func: "Match",
			Kind: "ifcond", Select: "m.f.Authors",
			Header: "(present member : bool)", RetTy: "bool", Out: "GenMatch",
			Syms: map[string]sym{"m.f.Authors != nil": b("present"), "m.f.Authors[event.Pubkey]": b("member")}},
		{Name: "g_tags_reject", File: "event_matcher.go", Recv: "ReqFilterEventLimitMatcher", Func: "Match",
			Kind: "ifcond", Select: "len(found)",
			Header: "(nfound ntags : Z)", RetTy: "bool", Out: "GenMatch",
			Syms: map[string]sym{"len(found)": z("nfound"), "len(m.f.Tags)": z("ntags")}},
		{Name: "g_tag_has_value", File: "event_matcher.go", Recv: "ReqFilterEventLimitMatcher", Func: "Match",
			Kind: "ifcond", Select: "len(tag)",
			Header: "(len : Z)", RetTy: "bool", Out: "GenMatch",
			Syms: map[string]sym{"len(tag)": z("len")}},
		{Name: "g_done", File: "event_matcher.go", Recv: "ReqFilterEventLimitMatcher", Func: "Done", Kind: "body",
			Header: "(has_limit : bool) (limit cnt : Z)", RetTy: "bool", Out: "GenMatch",
			Syms: map[string]sym{"m.f.Limit != nil": b("has_limit"), "*m.f.Limit": z("limit"), "m.cnt": z("cnt")}},

		// ---- event_cache.go --------------------------------------------
		{Name: "g_created_key_lt", File: "event_cache.go", Func: "eventCacheEvsCreatedAtKeyTreeCmp", Kind: "body",
			Header: "(a_ts : Z) (a_id : str) (b_ts : Z) (b_id : str)", RetTy: "bool", Out: "GenCache",
			Syms: map[string]sym{"a.CreatedAt": z("a_ts"), "b.CreatedAt": z("b_ts"), "a.ID": s("a_id"), "b.ID": s("b_id")}},
		{Name: "g_add_keep_old", File: "event_cache.go", Recv: "EventCache", Func: "add", Kind: "ifcond", Select: "old.CreatedAt",
			Header: "(old_ts new_ts : Z)", RetTy: "bool", Out: "GenCache",
			Syms: map[string]sym{"old.CreatedAt": z("old_ts"), "event.CreatedAt": z("new_ts")}},
		{Name: "g_over_cap", File: "event_cache.go", Recv: "EventCache", Func: "Add", Kind: "ifcond", Select: "c.Cap",
			Header: "(n cap : Z)", RetTy: "bool", Out: "GenCache",
			Syms: map[string]sym{"len(c.evs)": z("n"), "c.Cap": z("cap")}},
		{Name: "g_add_skip_ephemeral", File: "event_cache.go", Recv: "EventCache", Func: "Add", Kind: "ifcond", Select: "EventTypeEphemeral",
			Header: "(ty : Z)", RetTy: "bool", Out: "GenCache",
			Syms: map[string]sym{"event.EventType()": z("ty"), "EventTypeEphemeral": z("3")}},
		{Name: "g_add_blocked", File: "event_cache.go", Recv: "EventCache", Func: "Add", Kind: "ifcond", Select: "isDeleted",
			Header: "(by_key by_id : bool)", RetTy: "bool", Out: "GenCache",
			Syms: map[string]sym{"c.isDeleted(eventKey, event.Pubkey)": b("by_key"), "c.isDeleted(event.ID, event.Pubkey)": b("by_id")}},
		{Name: "g_is_kind5", File: "event_cache.go", Recv: "EventCache", Func: "Add", Kind: "ifcond", Select: "event.Kind",
			Header: "(kind : Z)", RetTy: "bool", Out: "GenCache",
			Syms: map[string]sym{"event.Kind": z("kind")}},
		{Name: "g_del_other_author", File: "event_cache.go", Recv: "EventCache", Func: "delete", Kind: "ifcond", Select: "cand.Pubkey",
			Header: "(cand_pk del_pk : str)", RetTy: "bool", Out: "GenCache",
			Syms: map[string]sym{"cand.Pubkey": s("cand_pk"), "delEvKey.Pubkey": s("del_pk")}},
		{Name: "g_del_is_kind5", File: "event_cache.go", Recv: "EventCache", Func: "delete", Kind: "ifcond", Select: "cand.Kind",
			Header: "(kind : Z)", RetTy: "bool", Out: "GenCache",
			Syms: map[string]sym{"cand.Kind": z("kind")}},
		{Name: "g_k5_tag_short", File: "event_cache.go", Recv: "EventCache", Func: "getEventKeyFromKind5Tags", Kind: "ifcond", Select: "len(tag)",
			Header: "(len : Z)", RetTy: "bool", Out: "GenCache",
			Syms: map[string]sym{"len(tag)": z("len")}},
		{Name: "g_k5_tag_name", File: "event_cache.go", Recv: "EventCache", Func: "getEventKeyFromKind5Tags", Kind: "ifcond", Select: "tag[0]",
			Header: "(name : str)", RetTy: "bool", Out: "GenCache",
			Syms: map[string]sym{"tag[0]": s("name")}},
		{Name: "g_full_scan", File: "event_cache.go", Recv: "eventCacheEvsIndex", Func: "isFullScanReqFilter", Kind: "body",
			Header: "(ids authors kinds tags : bool)", RetTy: "bool", Out: "GenCache",
			Syms: map[string]sym{"filter.IDs == nil": b("(negb ids)"), "filter.Authors == nil": b("(negb authors)"),
				"filter.Kinds == nil": b("(negb kinds)"), "filter.Tags == nil": b("(negb tags)")}},
		{Name: "g_index_over_limit", File: "event_cache.go", Recv: "eventCacheEvsIndex", Func: "Find", Kind: "ifcond", Select: "cnt > limit",
			Header: "(cnt limit : Z)", RetTy: "bool", Out: "GenCache",
			Syms: map[string]sym{"cnt": z("cnt"), "limit": z("limit")}},
	}
}

// extras: generated material that is not a single expression (filled in by
// later files of this package; the default has nothing).
var extraFns []func(repo string, files map[string]*ast.File) (map[string][]matched, []string)

func extras(repo string, files map[string]*ast.File) (map[string][]matched, []string) {
	out := map[string][]matched{}
	var errs []string
	for _, f := range extraFns {
		m, e := f(repo, files)
		for k, v := range m {
			out[k] = append(out[k], v...)
		}
		errs = append(errs, e...)
	}
	return out, errs
}
