package main

// anchors_ser.go — C01 (group ser): generated material for Event.Serialize /
// Event.Verify of message.go, written to Gen/GenSer.v.
//
//   g_serialize_uses_json_marshal : bool   true iff Serialize's body calls json.Marshal
//   g_verify_id_reject (eq : bool) : bool  the condition under which Verify answers false
//                                           after comparing the decoded id with the hash
// and, when Serialize is hand-written (no json.Marshal):
//   g_ser_layout : list (Z * str)           the sequence of appends of Serialize
//        (0, bytes)  a literal;  (11, []) string-escaped ev.Pubkey; (15, []) ev.Content;
//        (16, []) ev.ID; (17, []) ev.Sig; (22, []) decimal ev.CreatedAt; (23, []) decimal ev.Kind;
//        (30, []) the `if ev.Tags == nil { … } else { … }` block
//   g_ser_tags_block_is_reference : bool    the text of that block equals the text ser_tags was modelled from
//   g_ser_esc_short (b : Z) : option str    the `case 'x': dst = append(dst, …)` clauses of the escaper
//   g_ser_esc_is_ctl (b : Z) : bool         the condition of the `if` in its default clause
//   g_ser_ctl_prefix : str                  the literal bytes written before the two hex digits
//   g_ser_hex_digits : str                  the digit table indexed by c>>4 and c&0xf
// When Serialize still calls json.Marshal there is no escaper to read; the last five
// definitions are then emitted as the NIP-01 table (they are not used by the
// correspondence on such a tree: Ser.serialize selects the json.Marshal model).

import (
	"flag"
	"fmt"
	"go/ast"
	"go/parser"
	"go/token"
	"path/filepath"
	"strconv"
	"strings"
)

const serOut = "GenSer"

func init() {
	anchorSets = append(anchorSets, func() []anchor {
		return []anchor{
			{Name: "g_verify_id_reject", File: "message.go", Recv: "Event", Func: "Verify", Kind: "ifcond", Select: "bytes.Equal",
				Header: "(eq : bool)", RetTy: "bool", Out: serOut,
				Syms: map[string]sym{"bytes.Equal(idBin, hash[:])": b("eq")}},
		}
	})
	extraFns = append(extraFns, serExtras)
}

const serTagsBlockReference = `if ev.Tags == nil { ret = append(ret, "null"...) } else { ret = append(ret, '[') for i, tag := range ev.Tags { if i > 0 { ret = append(ret, ',') } if tag == nil { ret = append(ret, "null"...) continue } ret = append(ret, '[') for j, s := range tag { if j > 0 { ret = append(ret, ',') } ret = appendNIP01String(ret, s) } ret = append(ret, ']') } ret = append(ret, ']') }`

const serDefaultTable = `Definition g_ser_tags_block_is_reference : bool :=
  false.
Definition g_ser_layout : list (Z * str) :=
  [(0, [91; 48; 44]%N); (11, []); (0, [44]%N); (22, []); (0, [44]%N); (23, []); (0, [44]%N); (30, []); (0, [44]%N); (15, []); (0, [93]%N)].
Definition g_ser_esc_short (b : Z) : option str :=
  if b =? 34 then Some [92; 34]%N else if b =? 92 then Some [92; 92]%N else if b =? 10 then Some [92; 110]%N else if b =? 13 then Some [92; 114]%N else if b =? 9 then Some [92; 116]%N else if b =? 8 then Some [92; 98]%N else if b =? 12 then Some [92; 102]%N else None.
Definition g_ser_esc_is_ctl (b : Z) : bool :=
  (b <? (32)).
Definition g_ser_ctl_prefix : str :=
  [92; 117; 48; 48]%N.
Definition g_ser_hex_digits : str :=
  [48; 49; 50; 51; 52; 53; 54; 55; 56; 57; 97; 98; 99; 100; 101; 102]%N.`

func serBytes(bs []byte) string {
	if len(bs) == 0 {
		return "[]"
	}
	parts := make([]string, len(bs))
	for i, c := range bs {
		parts[i] = strconv.Itoa(int(c))
	}
	return "[" + strings.Join(parts, "; ") + "]%N"
}

// serAppendArgs: `x = append(x, args…)` or `return append(x, args…)` -> the
// appended constant bytes (char literals, or one string literal followed by ...).
func serAppendCall(e ast.Expr, dst string) (*ast.CallExpr, bool) {
	c, ok := e.(*ast.CallExpr)
	if !ok || pr(c.Fun) != "append" || len(c.Args) < 1 || pr(c.Args[0]) != dst {
		return nil, false
	}
	return c, true
}

func serConstBytes(args []ast.Expr, ellipsis bool) ([]byte, error) {
	var out []byte
	for _, a := range args {
		bl, ok := a.(*ast.BasicLit)
		if !ok {
			return nil, fmt.Errorf("appended value %s is not a literal", pr(a))
		}
		switch bl.Kind {
		case token.CHAR:
			r, _, _, err := strconv.UnquoteChar(bl.Value[1:len(bl.Value)-1], '\'')
			if err != nil || r > 255 {
				return nil, fmt.Errorf("bad char literal %s", bl.Value)
			}
			out = append(out, byte(r))
		case token.STRING:
			if !ellipsis || len(args) != 1 {
				return nil, fmt.Errorf("string literal %s appended without ...", bl.Value)
			}
			s, err := strconv.Unquote(bl.Value)
			if err != nil {
				return nil, fmt.Errorf("bad string literal %s", bl.Value)
			}
			out = append(out, s...)
		default:
			return nil, fmt.Errorf("appended literal %s of unsupported kind", bl.Value)
		}
	}
	return out, nil
}

var serFieldCode = map[string]int{"ev.Pubkey": 1, "ev.CreatedAt": 2, "ev.Kind": 3, "ev.Content": 5, "ev.ID": 6, "ev.Sig": 7}

// serLayout reads the hand-written Serialize: the sequence of appends to `ret`.
func serLayout(fd *ast.FuncDecl, escaper string) (string, error) {
	type item struct {
		code int
		lit  []byte
	}
	var items []item
	lit := func(bs []byte) {
		if n := len(items); n > 0 && items[n-1].code == 0 {
			items[n-1].lit = append(items[n-1].lit, bs...)
		} else {
			items = append(items, item{0, append([]byte{}, bs...)})
		}
	}
	for i, st := range fd.Body.List {
		switch s := st.(type) {
		case *ast.IfStmt:
			c := pr(s.Cond)
			if i == 0 && c == "ev == nil" {
				continue
			}
			if c == "ev.Tags == nil" && s.Init == nil {
				items = append(items, item{30, nil})
				continue
			}
			return "", fmt.Errorf("unsupported if statement (%s)", c)
		case *ast.AssignStmt:
			if len(s.Lhs) != 1 || len(s.Rhs) != 1 || pr(s.Lhs[0]) != "ret" {
				return "", fmt.Errorf("unsupported assignment %s", pr(s))
			}
			if s.Tok == token.DEFINE {
				if c, ok := s.Rhs[0].(*ast.CallExpr); ok && pr(c.Fun) == "make" {
					continue
				}
				return "", fmt.Errorf("ret is not initialised by make: %s", pr(s))
			}
			if c, ok := serAppendCall(s.Rhs[0], "ret"); ok {
				bs, err := serConstBytes(c.Args[1:], c.Ellipsis != token.NoPos)
				if err != nil {
					return "", fmt.Errorf("%s: %v", pr(s), err)
				}
				lit(bs)
				continue
			}
			c, ok := s.Rhs[0].(*ast.CallExpr)
			if !ok {
				return "", fmt.Errorf("unsupported statement %s", pr(s))
			}
			switch fn := pr(c.Fun); {
			case fn == escaper && len(c.Args) == 2 && pr(c.Args[0]) == "ret":
				f, ok := serFieldCode[pr(c.Args[1])]
				if !ok {
					return "", fmt.Errorf("unknown field %s", pr(c.Args[1]))
				}
				items = append(items, item{10 + f, nil})
			case fn == "strconv.AppendInt" && len(c.Args) == 3 && pr(c.Args[0]) == "ret" && pr(c.Args[2]) == "10":
				f, ok := serFieldCode[pr(c.Args[1])]
				if !ok {
					return "", fmt.Errorf("unknown field %s", pr(c.Args[1]))
				}
				items = append(items, item{20 + f, nil})
			default:
				return "", fmt.Errorf("unsupported call %s", pr(s))
			}
		case *ast.ReturnStmt:
			if i != len(fd.Body.List)-1 || len(s.Results) != 2 || pr(s.Results[0]) != "ret" || pr(s.Results[1]) != "nil" {
				return "", fmt.Errorf("unsupported return %s", pr(s))
			}
		case *ast.EmptyStmt:
		default:
			return "", fmt.Errorf("unsupported statement %s", pr(st))
		}
	}
	parts := make([]string, len(items))
	for i, it := range items {
		parts[i] = fmt.Sprintf("(%d, %s)", it.code, serBytes(it.lit))
	}
	return "Definition g_ser_layout : list (Z * str) :=\n  [" + strings.Join(parts, "; ") + "].", nil
}

// serEscaper reads the escaping function: a byte loop whose body is
// `switch c := s[i]; c { case 'x': dst = append(dst, …) … default: if COND { dst = append(dst, lits…, T[c>>4], T[c&0xf]) } else { dst = append(dst, c) } }`.
func serEscaper(f *ast.File, fd *ast.FuncDecl) ([]string, string, error) {
	var sw *ast.SwitchStmt
	n := 0
	ast.Inspect(fd.Body, func(nd ast.Node) bool {
		if s, ok := nd.(*ast.SwitchStmt); ok {
			n++
			sw = s
		}
		return true
	})
	if n != 1 {
		return nil, "", fmt.Errorf("expected exactly one switch, found %d", n)
	}
	v := ""
	if sw.Tag != nil {
		v = pr(sw.Tag)
	}
	if as, ok := sw.Init.(*ast.AssignStmt); !ok || len(as.Lhs) != 1 || pr(as.Lhs[0]) != v || pr(as.Rhs[0]) != "s[i]" || v == "" {
		return nil, "", fmt.Errorf("switch header is not `switch c := s[i]; c`")
	}
	// the loop must visit every byte once: for i := 0; i < len(s); i++
	var loop *ast.ForStmt
	ast.Inspect(fd.Body, func(nd ast.Node) bool {
		if fs, ok := nd.(*ast.ForStmt); ok && loop == nil {
			loop = fs
		}
		return true
	})
	if loop == nil || loop.Init == nil || loop.Cond == nil || loop.Post == nil ||
		pr(loop.Init) != "i := 0" || pr(loop.Cond) != "i < len(s)" || pr(loop.Post) != "i++" ||
		len(loop.Body.List) != 1 || loop.Body.List[0] != ast.Stmt(sw) {
		return nil, "", fmt.Errorf("escaper loop is not `for i := 0; i < len(s); i++ { switch … }`")
	}
	// the opening and closing quote
	if len(fd.Body.List) != 3 {
		return nil, "", fmt.Errorf("escaper body is not quote; loop; return quote")
	}
	if as, ok := fd.Body.List[0].(*ast.AssignStmt); !ok || pr(as) != `dst = append(dst, '"')` {
		return nil, "", fmt.Errorf("escaper does not start with dst = append(dst, '\"')")
	}
	if rs, ok := fd.Body.List[2].(*ast.ReturnStmt); !ok || pr(rs) != `return append(dst, '"')` {
		return nil, "", fmt.Errorf("escaper does not end with return append(dst, '\"')")
	}
	one := func(ss []ast.Stmt) (*ast.CallExpr, error) {
		if len(ss) != 1 {
			return nil, fmt.Errorf("clause with %d statements", len(ss))
		}
		as, ok := ss[0].(*ast.AssignStmt)
		if !ok || len(as.Lhs) != 1 || pr(as.Lhs[0]) != "dst" || as.Tok != token.ASSIGN {
			return nil, fmt.Errorf("clause is not dst = append(dst, …): %s", pr(ss[0]))
		}
		c, ok := serAppendCall(as.Rhs[0], "dst")
		if !ok {
			return nil, fmt.Errorf("clause is not dst = append(dst, …): %s", pr(ss[0]))
		}
		return c, nil
	}
	short := "None"
	var chain []string
	var defs []string
	var gotext []string
	seenDefault := false
	for _, cl := range sw.Body.List {
		cc := cl.(*ast.CaseClause)
		if cc.List == nil {
			seenDefault = true
			if len(cc.Body) != 1 {
				return nil, "", fmt.Errorf("default clause is not a single if")
			}
			is, ok := cc.Body[0].(*ast.IfStmt)
			if !ok || is.Init != nil {
				return nil, "", fmt.Errorf("default clause is not a single if")
			}
			eb, ok := is.Else.(*ast.BlockStmt)
			if !ok {
				return nil, "", fmt.Errorf("default clause: if without else block")
			}
			t := &tr{syms: map[string]sym{v: z("b")}}
			var cond, cty string
			func() {
				defer func() {
					if r := recover(); r != nil {
						if fl, ok := r.(failure); ok {
							cond, cty = "", fl.msg
							return
						}
						panic(r)
					}
				}()
				cond, cty = t.expr(is.Cond)
			}()
			if cond == "" || cty != "bool" {
				return nil, "", fmt.Errorf("default clause condition %s: %s", pr(is.Cond), cty)
			}
			defs = append(defs, "Definition g_ser_esc_is_ctl (b : Z) : bool :=\n  "+cond+".")
			c, err := one(is.Body.List)
			if err != nil {
				return nil, "", err
			}
			if len(c.Args) < 3 {
				return nil, "", fmt.Errorf("control escape %s too short", pr(c))
			}
			k := len(c.Args)
			hi, lo := c.Args[k-2], c.Args[k-1]
			ih, ok1 := hi.(*ast.IndexExpr)
			il, ok2 := lo.(*ast.IndexExpr)
			nosp := func(e ast.Expr) string { return strings.ReplaceAll(pr(e), " ", "") }
			if !ok1 || !ok2 || pr(ih.X) != pr(il.X) || nosp(ih.Index) != v+">>4" || (nosp(il.Index) != v+"&0xf" && nosp(il.Index) != v+"&0xF" && nosp(il.Index) != v+"&15") {
				return nil, "", fmt.Errorf("control escape does not end with T[%s>>4], T[%s&0xf]: %s", v, v, pr(c))
			}
			pre, err := serConstBytes(c.Args[1:k-2], false)
			if err != nil {
				return nil, "", fmt.Errorf("control escape %s: %v", pr(c), err)
			}
			defs = append(defs, "Definition g_ser_ctl_prefix : str :=\n  "+serBytes(pre)+".")
			// the digit table
			tab := ""
			found := false
			for _, d := range f.Decls {
				gd, ok := d.(*ast.GenDecl)
				if !ok || gd.Tok != token.CONST {
					continue
				}
				for _, sp := range gd.Specs {
					vs := sp.(*ast.ValueSpec)
					for i, id := range vs.Names {
						if id.Name == pr(ih.X) && i < len(vs.Values) {
							if bl, ok := vs.Values[i].(*ast.BasicLit); ok && bl.Kind == token.STRING {
								if s, err := strconv.Unquote(bl.Value); err == nil {
									tab, found = s, true
								}
							}
						}
					}
				}
			}
			if !found {
				return nil, "", fmt.Errorf("digit table %s is not a string constant of message.go", pr(ih.X))
			}
			defs = append(defs, "Definition g_ser_hex_digits : str :=\n  "+serBytes([]byte(tab))+".")
			ec, err := one(eb.List)
			if err != nil {
				return nil, "", err
			}
			if len(ec.Args) != 2 || pr(ec.Args[1]) != v || ec.Ellipsis != token.NoPos {
				return nil, "", fmt.Errorf("else branch does not copy the byte: %s", pr(ec))
			}
			gotext = append(gotext, "default: "+pr(is))
			continue
		}
		if seenDefault {
			return nil, "", fmt.Errorf("case clause after default")
		}
		c, err := one(cc.Body)
		if err != nil {
			return nil, "", err
		}
		bs, err := serConstBytes(c.Args[1:], c.Ellipsis != token.NoPos)
		if err != nil {
			return nil, "", fmt.Errorf("%s: %v", pr(c), err)
		}
		for _, e := range cc.List {
			bl, ok := e.(*ast.BasicLit)
			if !ok || bl.Kind != token.CHAR {
				return nil, "", fmt.Errorf("case label %s is not a char literal", pr(e))
			}
			r, _, _, err := strconv.UnquoteChar(bl.Value[1:len(bl.Value)-1], '\'')
			if err != nil {
				return nil, "", fmt.Errorf("bad case label %s", bl.Value)
			}
			chain = append(chain, fmt.Sprintf("if b =? %d then Some %s", r, serBytes(bs)))
		}
		gotext = append(gotext, "case "+pr(cc.List[0])+": "+pr(cc.Body[0]))
	}
	if !seenDefault {
		return nil, "", fmt.Errorf("switch has no default clause")
	}
	if len(chain) > 0 {
		short = strings.Join(chain, " else ") + " else None"
	}
	defs = append([]string{"Definition g_ser_esc_short (b : Z) : option str :=\n  " + short + "."}, defs...)
	return defs, strings.Join(gotext, " | "), nil
}

func serFile(repo string, files map[string]*ast.File, name string) (*ast.File, error) {
	if f := files[name]; f != nil {
		return f, nil
	}
	f, err := parser.ParseFile(fset, filepath.Join(repo, name), nil, 0)
	if err != nil {
		return nil, err
	}
	files[name] = f
	return f, nil
}

// serNames: every definition of GenSer.v that serExtras is responsible for, with the neutral
// definition used when the anchor is lost and no earlier generated file exists.
var serNames = []string{"g_serialize_uses_json_marshal", "g_ser_layout", "g_ser_tags_block_is_reference",
	"g_ser_esc_short", "g_ser_esc_is_ctl", "g_ser_ctl_prefix", "g_ser_hex_digits"}

func serNeutral(name string) string {
	if name == "g_serialize_uses_json_marshal" {
		return "Definition g_serialize_uses_json_marshal : bool :=\n  false."
	}
	for _, d := range strings.Split(serDefaultTable, "\nDefinition ") {
		d = strings.TrimPrefix(d, "Definition ")
		if strings.HasPrefix(d, name+" ") {
			return "Definition " + d
		}
	}
	return ""
}

// serExtras never leaves GenSer.v without one of its definitions: when a part of
// Serialize or of the escaper is no longer in the shape the translator reads, the tie is
// reported as broken (the error list) and the last generated definition is kept (or, when
// there is none, the NIP-01 table), so that Ser.v and Check/C01Check.v still compile and
// the oracle still judges the implementation.
func serExtras(repo string, files map[string]*ast.File) (map[string][]matched, []string) {
	out, errs := serExtrasRead(repo, files)
	have := map[string]bool{}
	for _, m := range out[serOut] {
		for _, n := range serNames {
			if strings.Contains(m.Coq, "Definition "+n+" ") {
				have[n] = true
			}
		}
	}
	dir := ""
	if f := flag.Lookup("out"); f != nil {
		dir = f.Value.String()
	}
	for _, n := range serNames {
		if have[n] {
			continue
		}
		if len(errs) == 0 {
			errs = append(errs, "anchor "+n+" (message.go): not produced")
		}
		if old := oldDefinition(filepath.Join(dir, serOut+".v"), n); old != "" {
			out[serOut] = append(out[serOut], matched{n, "message.go", "", 0,
				"STALE: anchor no longer found in the source; last generated definition kept", old})
		} else {
			out[serOut] = append(out[serOut], matched{n, "message.go", "", 0,
				"STALE: anchor no longer found in the source and no earlier definition; neutral (NIP-01) definition", serNeutral(n)})
		}
	}
	return out, errs
}

func serExtrasRead(repo string, files map[string]*ast.File) (map[string][]matched, []string) {
	out := map[string][]matched{}
	f, err := serFile(repo, files, "message.go")
	if err != nil {
		return out, []string{"anchor g_serialize_uses_json_marshal (message.go): " + err.Error()}
	}
	fd := findFunc(f, "Event", "Serialize")
	if fd == nil || fd.Body == nil {
		return out, []string{"anchor g_serialize_uses_json_marshal (message.go Event.Serialize): function not found"}
	}
	uses := false
	escaper := ""
	ast.Inspect(fd.Body, func(nd ast.Node) bool {
		if c, ok := nd.(*ast.CallExpr); ok {
			fn := pr(c.Fun)
			if strings.HasPrefix(fn, "json.") {
				uses = true
			}
			if id, ok := c.Fun.(*ast.Ident); ok && len(c.Args) == 2 && pr(c.Args[0]) == "ret" && id.Name != "append" {
				if escaper == "" {
					escaper = id.Name
				} else if escaper != id.Name {
					escaper = "?"
				}
			}
		}
		return true
	})
	line := fset.Position(fd.Pos()).Line
	var errs []string
	add := func(name, fn string, ln int, gotext, coq string) {
		out[serOut] = append(out[serOut], matched{name, "message.go", fn, ln, gotext, coq})
	}
	add("g_serialize_uses_json_marshal", "Event.Serialize", line, pr(fd.Body),
		fmt.Sprintf("Definition g_serialize_uses_json_marshal : bool :=\n  %v.", uses))
	if uses {
		add("g_ser_table", "Event.Serialize", line,
			"Serialize calls json.Marshal: no hand-written escaper in this tree; the NIP-01 table is emitted (unused by serialize)",
			serDefaultTable)
		return out, errs
	}
	lay, err := serLayout(fd, escaper)
	if err != nil {
		errs = append(errs, "anchor g_ser_layout (message.go Event.Serialize): "+err.Error())
		return out, errs
	}
	add("g_ser_layout", "Event.Serialize", line, "(the appends of the body above)", lay)
	// the tags block is not translated; it is pinned textually (its behaviour is what
	// Ser.ser_tags models and the correspondence run exercises)
	isRef := false
	for _, st := range fd.Body.List {
		if is, ok := st.(*ast.IfStmt); ok && pr(is.Cond) == "ev.Tags == nil" {
			isRef = pr(is) == serTagsBlockReference
		}
	}
	add("g_ser_tags_block_is_reference", "Event.Serialize", line, "(the if ev.Tags == nil statement of the body above, compared with the text the model ser_tags was written from)",
		fmt.Sprintf("Definition g_ser_tags_block_is_reference : bool :=\n  %v.", isRef))
	efd := findFunc(f, "", escaper)
	if efd == nil || efd.Body == nil {
		errs = append(errs, "anchor g_ser_esc_short (message.go): escaping function "+escaper+" not found")
		return out, errs
	}
	defs, gotext, err := serEscaper(f, efd)
	if err != nil {
		errs = append(errs, "anchor g_ser_esc_short (message.go "+escaper+"): "+err.Error())
		return out, errs
	}
	add("g_ser_esc_short", "."+escaper, fset.Position(efd.Pos()).Line, gotext, strings.Join(defs, "\n"))
	return out, errs
}
