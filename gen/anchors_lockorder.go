package main

// Group lockorder (C13, C15): the LOCK ORDER of the root package.
//
// Output: Gen/GenLockOrder.v
//
//   g_lock_classes : list (str * Z)
//       the lock classes and their levels.  A lock owner is a struct with a field of type
//       sync.Mutex / sync.RWMutex (discovered, not listed).  A generic owner (safeMap[K, V]) is a
//       family of classes, one per instantiation: an instantiation whose values are again
//       owners (the registry subs.subs : safeMap[reqID]*safeMap[subID]*subscriber) lies one
//       level below its values, the outermost at level 0.  The other owners get 10, 20, ... in
//       the order of their names (EventCache.mu = 10).
//   g_lock_callbacks : list (str * (Z * Z * Z))
//       (function, (parameter index, level, mode)): the function calls its function-typed
//       parameter while it holds that lock (level -2 = the receiver's own lock): safeMap.Loop.
//   g_lock_nest : list (str * (Z * Z * Z))
//       (function, (level held, level acquired, mode acquired 1 = RLock / 2 = Lock)):
//       every place where a lock is acquired while another one is held, i.e.
//         - a call x.mu.Lock() / x.mu.RLock(), or a call of a function that (transitively)
//           acquires a lock (a locking method of an owner: safeMap.Get/TryGet/Add/Delete/Loop,
//           EventCache.Len/Add/findNeedLock, ... - computed from the bodies)
//         - that occurs in a body between x.mu.Lock()/RLock() and the matching unlock (to the
//           end of the function when the unlock is deferred or missing), or inside a function
//           literal handed to a function that calls it under a lock (the callback of Loop), or,
//           transitively, in a function called from such a place.
//       A level is -1 when it cannot be derived: the type of the receiver expression is not an
//       owner, or for a generic owner the syntactic origin of the expression (a struct field =
//       root; bound from a method of a map of level k, or a parameter of a callback handed to
//       it = k+1; freshly constructed) disagrees with the level of its type or is not visible
//       (function parameters); also when code that cannot be followed (a function value that
//       is neither a parameter nor a literal) is called with a lock held.
//   g_lock_blocking_under_lock : list (str * Z)
//       (function, level held): a blocking operation with a lock held in the above sense: a
//       select without default, a bare channel send (except on a channel made in the same
//       function with a capacity) or receive, range over a channel, WaitGroup.Wait, time.Sleep,
//       a library call taking a context (Read/Write/Ping/Wait), or a call of a function that
//       may do one of these (sendCtx, sendServerMsgCtx, ...; trySendCtx has a default).
//
// The package is type-checked with go/types so that receivers, callees and instantiations
// are exact; "context", "sync" and "time" are read from GOROOT, every other import is
// replaced by an empty package (errors are ignored, expressions that depend on them have no
// type).  Calls through an interface are resolved to every method of that name in the
// package.  Files behind a build tag (the verif hooks) and tests are not read.

import (
	"flag"
	"fmt"
	"go/ast"
	"go/importer"
	"go/parser"
	"go/token"
	"go/types"
	"os"
	"path/filepath"
	"sort"
	"strings"
)

func init() { extraFns = append(extraFns, lockOrderExtras) }

const loOut = "GenLockOrder"

var loDefNames = [][3]string{
	{"g_lock_classes", "list (str * Z)", "[]"},
	{"g_lock_callbacks", "list (str * (Z * Z * Z))", "[]"},
	// without an earlier definition a lost tie must not look like an empty table
	{"g_lock_nest", "list (str * (Z * Z * Z))", "[(([63]%N : str), ((-1), (-1), 2))]"},
	{"g_lock_blocking_under_lock", "list (str * Z)", "[(([63]%N : str), (-1))]"},
}

type loLock struct {
	level int  // -1 unknown
	self  bool // the receiver's own lock in a method of a generic owner; decided at the call site
	mode  int  // 1 read, 2 write
}

type loHeld struct {
	lock loLock
	key  string // printed lock expression (matches the unlock)
}

type loSummary struct {
	acquires map[loLock]string       // locks the function may acquire when called -> where
	blocks   string                  // "" or the reason why it may block
	cb       map[int]map[loLock]bool // parameter index -> locks held when the parameter is called
}

func (s *loSummary) size() int {
	n := len(s.acquires)
	if s.blocks != "" {
		n++
	}
	for _, m := range s.cb {
		n += len(m)
	}
	return n
}

type loOwner struct {
	name    string
	mutexes map[string]bool // mutex field -> is RWMutex
	generic bool
	level   int
}

type loNestRow struct {
	fn              string
	held, acq, mode int
	heldMode        int
	line            int
	text            string
}

type loBlkRow struct {
	fn   string
	held int
	line int
	text string
}

type loPkg struct {
	pkg     *types.Package
	info    *types.Info
	owners  map[string]*loOwner
	muNames map[string]bool
	decls   map[*types.Func]*ast.FuncDecl
	names   map[*types.Func]string
	order   []*types.Func
	byName  map[string][]*types.Func
	sums    map[*types.Func]*loSummary
	maxH    int
	insts   map[string]int // printed instantiation of a generic owner -> level
	nest    map[string]*loNestRow
	blk     map[string]*loBlkRow
}

// ---------------------------------------------------------------- importer

type loImporter struct {
	src  types.Importer
	fake map[string]*types.Package
}

var loStdFromSource = map[string]bool{"context": true, "sync": true, "time": true}

func (im *loImporter) Import(path string) (*types.Package, error) {
	if loStdFromSource[path] && im.src != nil {
		if p, err := im.src.Import(path); err == nil && p != nil {
			return p, nil
		}
	}
	if p := im.fake[path]; p != nil {
		return p, nil
	}
	parts := strings.Split(path, "/")
	name := parts[len(parts)-1]
	if len(parts) > 1 && len(name) >= 2 && name[0] == 'v' && strings.Trim(name[1:], "0123456789") == "" {
		name = parts[len(parts)-2]
	}
	name = strings.TrimPrefix(name, "go-")
	p := types.NewPackage(path, name)
	im.fake[path] = p
	return p, nil
}

// ---------------------------------------------------------------- types

func loDeref(t types.Type) types.Type {
	for {
		p, ok := t.(*types.Pointer)
		if !ok {
			return t
		}
		t = p.Elem()
	}
}

func (p *loPkg) ownerOf(t types.Type) (*loOwner, *types.Named) {
	if t == nil {
		return nil, nil
	}
	n, ok := loDeref(t).(*types.Named)
	if !ok || n.Obj() == nil || n.Obj().Pkg() != p.pkg {
		return nil, nil
	}
	o := p.owners[n.Obj().Name()]
	if o == nil {
		return nil, nil
	}
	return o, n
}

// height of an instantiation of a generic owner: 0 if no type argument is a generic owner,
// -1 if a type argument is a type parameter
func (p *loPkg) height(n *types.Named) int {
	h := 0
	ta := n.TypeArgs()
	if ta == nil || ta.Len() == 0 {
		return -1
	}
	for i := 0; i < ta.Len(); i++ {
		a := loDeref(ta.At(i))
		if _, isTP := a.(*types.TypeParam); isTP {
			return -1
		}
		if o, an := p.ownerOf(a); o != nil && o.generic {
			ah := p.height(an)
			if ah < 0 {
				return -1
			}
			if ah+1 > h {
				h = ah + 1
			}
		}
	}
	return h
}

func (p *loPkg) typeLevel(n *types.Named) int {
	h := p.height(n)
	if h < 0 || h > p.maxH {
		return -1
	}
	return p.maxH - h
}

func loIsSyncMutex(t types.Type) (rw, ok bool) {
	n, isN := loDeref(t).(*types.Named)
	if !isN || n.Obj() == nil || n.Obj().Pkg() == nil || n.Obj().Pkg().Path() != "sync" {
		return false, false
	}
	switch n.Obj().Name() {
	case "Mutex":
		return false, true
	case "RWMutex":
		return true, true
	}
	return false, false
}

// ---------------------------------------------------------------- per-function walker

const (
	loDerived = iota
	loFresh
	loAlias
	loUnknownDef
)

type loDef struct {
	kind int
	from ast.Expr
}

type loWalk struct {
	p        *loPkg
	fobj     *types.Func
	name     string
	recvVar  *types.Var
	selfFn   bool
	params   map[*types.Var]int
	defs     map[*types.Var][]loDef
	localBuf map[*types.Var]bool
	sum      *loSummary
	emit     bool
	detached int
	visiting map[*types.Var]bool
}

func loStrip(e ast.Expr) ast.Expr {
	for {
		switch x := e.(type) {
		case *ast.ParenExpr:
			e = x.X
		case *ast.StarExpr:
			e = x.X
		default:
			return e
		}
	}
}

func (w *loWalk) varOf(id *ast.Ident) *types.Var {
	if o, ok := w.p.info.Uses[id].(*types.Var); ok {
		return o
	}
	if o, ok := w.p.info.Defs[id].(*types.Var); ok {
		return o
	}
	return nil
}

func (w *loWalk) typeOf(e ast.Expr) types.Type {
	if tv, ok := w.p.info.Types[e]; ok && tv.Type != nil {
		if b, isB := tv.Type.(*types.Basic); isB && b.Kind() == types.Invalid {
			return nil
		}
		return tv.Type
	}
	if id, ok := e.(*ast.Ident); ok {
		if v := w.varOf(id); v != nil {
			return v.Type()
		}
	}
	return nil
}

func (w *loWalk) genericOwnerTyped(t types.Type) bool {
	o, _ := w.p.ownerOf(t)
	return o != nil && o.generic
}

// is the function (declared in the package) a constructor: every return hands out a composite literal
func (p *loPkg) isConstructor(fn *types.Func) bool {
	fd := p.decls[fn]
	if fd == nil || fd.Recv != nil {
		return false
	}
	n, ok := 0, true
	ast.Inspect(fd.Body, func(nd ast.Node) bool {
		switch x := nd.(type) {
		case *ast.FuncLit:
			return false
		case *ast.ReturnStmt:
			n++
			if len(x.Results) != 1 {
				ok = false
				return false
			}
			r := x.Results[0]
			if u, isU := r.(*ast.UnaryExpr); isU && u.Op == token.AND {
				r = u.X
			}
			if _, isC := r.(*ast.CompositeLit); !isC {
				ok = false
			}
		}
		return true
	})
	return ok && n > 0
}

func (w *loWalk) classifyRhs(r ast.Expr) loDef {
	for {
		pe, ok := r.(*ast.ParenExpr)
		if !ok {
			break
		}
		r = pe.X
	}
	switch x := r.(type) {
	case *ast.CompositeLit:
		return loDef{kind: loFresh}
	case *ast.UnaryExpr:
		if x.Op == token.AND {
			if _, ok := x.X.(*ast.CompositeLit); ok {
				return loDef{kind: loFresh}
			}
		}
	case *ast.Ident:
		if x.Name == "nil" {
			return loDef{kind: loFresh}
		}
		return loDef{kind: loAlias, from: x}
	case *ast.SelectorExpr:
		return loDef{kind: loAlias, from: x}
	case *ast.CallExpr:
		fun := w.calleeExpr(x)
		switch f := fun.(type) {
		case *ast.SelectorExpr:
			if sel := w.p.info.Selections[f]; sel != nil && sel.Kind() == types.MethodVal && w.genericOwnerTyped(w.typeOf(f.X)) {
				return loDef{kind: loDerived, from: f.X}
			}
		case *ast.Ident:
			if fn, ok := w.p.info.Uses[f].(*types.Func); ok && w.p.isConstructor(fn.Origin()) {
				return loDef{kind: loFresh}
			}
		}
	}
	return loDef{kind: loUnknownDef}
}

func (w *loWalk) collectDefs(body *ast.BlockStmt) {
	add := func(id *ast.Ident, d loDef) {
		if id == nil || id.Name == "_" {
			return
		}
		v := w.varOf(id)
		if v == nil || !w.genericOwnerTyped(v.Type()) {
			return
		}
		w.defs[v] = append(w.defs[v], d)
	}
	ast.Inspect(body, func(n ast.Node) bool {
		switch x := n.(type) {
		case *ast.AssignStmt:
			for i, l := range x.Lhs {
				id, ok := l.(*ast.Ident)
				if !ok {
					continue
				}
				switch {
				case len(x.Rhs) == len(x.Lhs):
					add(id, w.classifyRhs(x.Rhs[i]))
				case len(x.Rhs) == 1 && i == 0:
					add(id, w.classifyRhs(x.Rhs[0]))
				default:
					add(id, loDef{kind: loUnknownDef})
				}
			}
		case *ast.ValueSpec:
			for i, id := range x.Names {
				switch {
				case len(x.Values) == 0:
					add(id, loDef{kind: loFresh})
				case len(x.Values) == len(x.Names):
					add(id, w.classifyRhs(x.Values[i]))
				case i == 0:
					add(id, w.classifyRhs(x.Values[0]))
				default:
					add(id, loDef{kind: loUnknownDef})
				}
			}
		case *ast.RangeStmt:
			for _, e := range []ast.Expr{x.Key, x.Value} {
				if id, ok := e.(*ast.Ident); ok {
					add(id, loDef{kind: loUnknownDef})
				}
			}
		case *ast.CallExpr:
			f, ok := w.calleeExpr(x).(*ast.SelectorExpr)
			if !ok {
				return true
			}
			sel := w.p.info.Selections[f]
			if sel == nil || sel.Kind() != types.MethodVal || !w.genericOwnerTyped(w.typeOf(f.X)) {
				return true
			}
			for _, a := range x.Args {
				lit, isLit := a.(*ast.FuncLit)
				if !isLit || lit.Type.Params == nil {
					continue
				}
				for _, fl := range lit.Type.Params.List {
					for _, nm := range fl.Names {
						add(nm, loDef{kind: loDerived, from: f.X})
					}
				}
			}
		}
		return true
	})
}

const (
	loProvKnown = iota
	loProvFresh
	loProvUnknown
)

func (w *loWalk) prov(e ast.Expr) (int, int) {
	e = loStrip(e)
	switch x := e.(type) {
	case *ast.SelectorExpr:
		if sel := w.p.info.Selections[x]; sel != nil && sel.Kind() == types.FieldVal {
			if _, n := w.p.ownerOf(w.typeOf(x)); n != nil {
				if tl := w.p.typeLevel(n); tl >= 0 {
					return tl, loProvKnown // a struct field: a root, it defines its class
				}
			}
		}
		return -1, loProvUnknown
	case *ast.Ident:
		v := w.varOf(x)
		if v == nil || w.visiting[v] {
			return -1, loProvUnknown
		}
		ds := w.defs[v]
		if len(ds) == 0 {
			return -1, loProvUnknown
		}
		w.visiting[v] = true
		defer delete(w.visiting, v)
		lvl, kind := -1, loProvFresh
		for _, d := range ds {
			l, k := w.provDef(d)
			switch k {
			case loProvUnknown:
				return -1, loProvUnknown
			case loProvKnown:
				if kind == loProvKnown && l != lvl {
					return -1, loProvUnknown
				}
				lvl, kind = l, loProvKnown
			}
		}
		return lvl, kind
	case *ast.CallExpr, *ast.CompositeLit, *ast.UnaryExpr:
		return w.provDef(w.classifyRhs(e))
	}
	return -1, loProvUnknown
}

func (w *loWalk) provDef(d loDef) (int, int) {
	switch d.kind {
	case loFresh:
		return -1, loProvFresh
	case loAlias:
		return w.prov(d.from)
	case loDerived:
		l, self := w.levelOf(d.from)
		if self || l < 0 {
			return -1, loProvUnknown
		}
		return l + 1, loProvKnown
	}
	return -1, loProvUnknown
}

// levelOf: the level of the lock owned by the value of e
func (w *loWalk) levelOf(e ast.Expr) (int, bool) {
	o, n := w.p.ownerOf(w.typeOf(e))
	if o == nil {
		return -1, false
	}
	if !o.generic {
		return o.level, false
	}
	if id, ok := loStrip(e).(*ast.Ident); ok && w.recvVar != nil && w.varOf(id) == w.recvVar && w.selfFn {
		return 0, true
	}
	tl := w.p.typeLevel(n)
	if tl < 0 {
		return -1, false
	}
	l, k := w.prov(e)
	if k == loProvFresh || (k == loProvKnown && l == tl) {
		return tl, false
	}
	return -1, false
}

func (w *loWalk) calleeExpr(c *ast.CallExpr) ast.Expr {
	fun := c.Fun
	for {
		switch x := fun.(type) {
		case *ast.ParenExpr:
			fun = x.X
			continue
		case *ast.IndexExpr:
			if tv, ok := w.p.info.Types[x.Index]; ok && tv.IsType() {
				fun = x.X
				continue
			}
		case *ast.IndexListExpr:
			fun = x.X
			continue
		}
		return fun
	}
}

func loClone(h []loHeld) []loHeld { return append([]loHeld(nil), h...) }

func loUnion(a, b []loHeld) []loHeld {
	out := loClone(a)
	for _, x := range b {
		found := false
		for _, y := range out {
			if x == y {
				found = true
				break
			}
		}
		if !found {
			out = append(out, x)
		}
	}
	return out
}

func loShow(l loLock) int {
	if l.self {
		return -1
	}
	return l.level
}

func (w *loWalk) acquire(l loLock, held []loHeld, n ast.Node, why string) {
	pos := fset.Position(n.Pos())
	if w.detached == 0 {
		if _, ok := w.sum.acquires[l]; !ok {
			w.sum.acquires[l] = fmt.Sprintf("%s:%d %s", filepath.Base(pos.Filename), pos.Line, why)
		}
	}
	if !w.emit {
		return
	}
	for _, h := range held {
		hl, al := loShow(h.lock), loShow(l)
		if h.lock.self && l.self {
			hl, al = 0, 0 // the receiver's own lock taken again: the same lock at whatever level
		}
		key := fmt.Sprintf("%s|%d|%d|%d", w.name, hl, al, l.mode)
		if w.p.nest[key] == nil {
			w.p.nest[key] = &loNestRow{w.name, hl, al, l.mode, h.lock.mode, pos.Line,
				fmt.Sprintf("%s  [holding %s]", why, h.key)}
		}
	}
}

func (w *loWalk) block(held []loHeld, n ast.Node, why string) {
	pos := fset.Position(n.Pos())
	if w.detached == 0 && w.sum.blocks == "" {
		w.sum.blocks = fmt.Sprintf("%s:%d %s", filepath.Base(pos.Filename), pos.Line, why)
	}
	if !w.emit {
		return
	}
	for _, h := range held {
		key := fmt.Sprintf("%s|%d", w.name, loShow(h.lock))
		if w.p.blk[key] == nil {
			w.p.blk[key] = &loBlkRow{w.name, loShow(h.lock), pos.Line, fmt.Sprintf("%s  [holding %s]", why, h.key)}
		}
	}
}

func (w *loWalk) cbNote(idx int, held []loHeld) {
	if len(held) == 0 || w.detached > 0 {
		return
	}
	if w.sum.cb[idx] == nil {
		w.sum.cb[idx] = map[loLock]bool{}
	}
	for _, h := range held {
		w.sum.cb[idx][h.lock] = true
	}
}

// muCall recognises x.mu.Lock() and friends; owner is the expression that owns the mutex (nil if unknown)
func (w *loWalk) muCall(c *ast.CallExpr) (owner ast.Expr, key string, method string, ok bool) {
	sel, isSel := c.Fun.(*ast.SelectorExpr)
	if !isSel || len(c.Args) != 0 {
		return nil, "", "", false
	}
	switch sel.Sel.Name {
	case "Lock", "RLock", "Unlock", "RUnlock":
	default:
		return nil, "", "", false
	}
	// the receiver of the call: a mutex field of an owner, an owner with an embedded mutex, or some other mutex
	if in, isIn := sel.X.(*ast.SelectorExpr); isIn {
		if o, _ := w.p.ownerOf(w.typeOf(in.X)); o != nil {
			if _, isMu := o.mutexes[in.Sel.Name]; isMu {
				return in.X, pr(sel.X), sel.Sel.Name, true
			}
		}
		if w.typeOf(in.X) == nil && w.p.muNames[in.Sel.Name] {
			return nil, pr(sel.X), sel.Sel.Name, true // x has no type here; the field is named like a mutex of an owner
		}
	}
	if t := w.typeOf(sel.X); t != nil {
		if _, isMu := loIsSyncMutex(t); isMu {
			return nil, pr(sel.X), sel.Sel.Name, true // a mutex that is not a field of an owner
		}
		if o, _ := w.p.ownerOf(t); o != nil {
			for f := range o.mutexes {
				if f == "Mutex" || f == "RWMutex" { // embedded
					return sel.X, pr(sel.X), sel.Sel.Name, true
				}
			}
		}
	}
	return nil, "", "", false
}

func (w *loWalk) stmts(list []ast.Stmt, held []loHeld) []loHeld {
	for _, s := range list {
		held = w.stmt(s, held)
	}
	return held
}

func (w *loWalk) lockStmt(c *ast.CallExpr, held []loHeld) ([]loHeld, bool) {
	owner, key, method, ok := w.muCall(c)
	if !ok {
		return held, false
	}
	switch method {
	case "Lock", "RLock":
		l := loLock{level: -1, mode: 2}
		if method == "RLock" {
			l.mode = 1
		}
		if owner != nil {
			l.level, l.self = w.levelOf(owner)
		}
		w.acquire(l, held, c, pr(c))
		return append(loClone(held), loHeld{l, key}), true
	default:
		out := loClone(held)
		for i := len(out) - 1; i >= 0; i-- {
			if out[i].key == key {
				out = append(out[:i], out[i+1:]...)
				break
			}
		}
		return out, true
	}
}

func (w *loWalk) stmt(s ast.Stmt, held []loHeld) []loHeld {
	switch x := s.(type) {
	case nil:
		return held
	case *ast.ExprStmt:
		if c, ok := x.X.(*ast.CallExpr); ok {
			if h, isLock := w.lockStmt(c, held); isLock {
				return h
			}
		}
		w.expr(x.X, held)
	case *ast.DeferStmt:
		if _, _, m, ok := w.muCall(x.Call); ok && (m == "Unlock" || m == "RUnlock") {
			return held // released when the function returns: held to the end
		}
		w.call(x.Call, held)
	case *ast.GoStmt:
		w.detached++
		w.call(x.Call, nil)
		w.detached--
	case *ast.BlockStmt:
		return w.stmts(x.List, held)
	case *ast.LabeledStmt:
		return w.stmt(x.Stmt, held)
	case *ast.IfStmt:
		held = w.stmt(x.Init, held)
		w.expr(x.Cond, held)
		a := w.stmts(x.Body.List, held)
		b := held
		if x.Else != nil {
			b = w.stmt(x.Else, held)
		}
		return loUnion(a, b)
	case *ast.ForStmt:
		held = w.stmt(x.Init, held)
		w.expr(x.Cond, held)
		out := w.stmts(x.Body.List, held)
		out = w.stmt(x.Post, out)
		return loUnion(held, out)
	case *ast.RangeStmt:
		w.expr(x.X, held)
		if t := w.typeOf(x.X); t != nil {
			if _, isCh := t.Underlying().(*types.Chan); isCh {
				w.block(held, x, "range over channel "+pr(x.X))
			}
		}
		return loUnion(held, w.stmts(x.Body.List, held))
	case *ast.SwitchStmt:
		held = w.stmt(x.Init, held)
		w.expr(x.Tag, held)
		return w.clauses(x.Body, held)
	case *ast.TypeSwitchStmt:
		held = w.stmt(x.Init, held)
		held = w.stmt(x.Assign, held)
		return w.clauses(x.Body, held)
	case *ast.SelectStmt:
		hasDefault := false
		for _, cl := range x.Body.List {
			cc := cl.(*ast.CommClause)
			switch c := cc.Comm.(type) {
			case nil:
				hasDefault = true
			case *ast.SendStmt:
				w.expr(c.Chan, held)
				w.expr(c.Value, held)
			case *ast.ExprStmt:
				w.commRecv(c.X, held)
			case *ast.AssignStmt:
				for _, r := range c.Rhs {
					w.commRecv(r, held)
				}
			}
		}
		if !hasDefault {
			w.block(held, x, "select without default { "+strings.Join(selectHeads(x), " | ")+" }")
		}
		out := held
		for _, cl := range x.Body.List {
			out = loUnion(out, w.stmts(cl.(*ast.CommClause).Body, held))
		}
		return out
	case *ast.SendStmt:
		w.expr(x.Chan, held)
		w.expr(x.Value, held)
		if id, ok := loStrip(x.Chan).(*ast.Ident); ok {
			if v := w.varOf(id); v != nil && w.localBuf[v] {
				return held // a channel made here with a capacity
			}
		}
		w.block(held, x, "send "+pr(x))
	case *ast.AssignStmt:
		for i, r := range x.Rhs {
			if capText, ok := isMakeChan(r); ok && capText != "" && capText != "0" && i < len(x.Lhs) {
				if id, isId := x.Lhs[i].(*ast.Ident); isId {
					if v := w.varOf(id); v != nil {
						w.localBuf[v] = true
					}
				}
			}
			w.expr(r, held)
		}
		for _, l := range x.Lhs {
			w.expr(l, held)
		}
	case *ast.DeclStmt:
		w.expr(x.Decl, held)
	case *ast.ReturnStmt:
		for _, r := range x.Results {
			w.expr(r, held)
		}
	case *ast.IncDecStmt:
		w.expr(x.X, held)
	}
	return held
}

func (w *loWalk) commRecv(e ast.Expr, held []loHeld) {
	if x, ok := recvOf(e); ok {
		w.expr(x, held)
		return
	}
	w.expr(e, held)
}

func (w *loWalk) clauses(body *ast.BlockStmt, held []loHeld) []loHeld {
	out := held
	for _, cl := range body.List {
		cc, ok := cl.(*ast.CaseClause)
		if !ok {
			continue
		}
		for _, e := range cc.List {
			w.expr(e, held)
		}
		out = loUnion(out, w.stmts(cc.Body, held))
	}
	return out
}

func (w *loWalk) expr(e ast.Node, held []loHeld) {
	if e == nil {
		return
	}
	ast.Inspect(e, func(n ast.Node) bool {
		switch x := n.(type) {
		case *ast.FuncLit:
			w.stmts(x.Body.List, loClone(held))
			return false
		case *ast.UnaryExpr:
			if x.Op == token.ARROW {
				w.expr(x.X, held)
				w.block(held, x, "receive "+pr(x))
				return false
			}
		case *ast.CallExpr:
			w.call(x, held)
			return false
		}
		return true
	})
}

var loLibCtx = map[string]bool{"Read": true, "Write": true, "Ping": true, "Wait": true, "Reader": true, "Writer": true}

func (w *loWalk) staticFn(e ast.Expr) (*types.Func, ast.Expr) {
	switch f := e.(type) {
	case *ast.Ident:
		if fn, ok := w.p.info.Uses[f].(*types.Func); ok && w.p.decls[fn.Origin()] != nil {
			return fn.Origin(), nil
		}
	case *ast.SelectorExpr:
		if sel := w.p.info.Selections[f]; sel != nil && sel.Kind() == types.MethodVal && !types.IsInterface(sel.Recv()) {
			if fn, ok := sel.Obj().(*types.Func); ok && w.p.decls[fn.Origin()] != nil {
				return fn.Origin(), f.X
			}
		}
	}
	return nil, nil
}

func (w *loWalk) call(c *ast.CallExpr, held []loHeld) {
	if owner, key, m, ok := w.muCall(c); ok {
		// a lock call that is not a statement of its own: acquired, nobody knows until when
		if m == "Lock" || m == "RLock" {
			l := loLock{level: -1, mode: 2}
			if m == "RLock" {
				l.mode = 1
			}
			if owner != nil {
				l.level, l.self = w.levelOf(owner)
			}
			w.acquire(l, held, c, pr(c)+" ("+key+")")
		}
		return
	}
	fun := w.calleeExpr(c)
	info := w.p.info
	var fns []*types.Func
	var recv ast.Expr
	external, unknown := false, false
	extName := ""
	switch f := fun.(type) {
	case *ast.FuncLit:
		for _, a := range c.Args {
			w.expr(a, held)
		}
		w.stmts(f.Body.List, loClone(held))
		return
	case *ast.Ident:
		switch o := info.Uses[f].(type) {
		case *types.Func:
			if w.p.decls[o.Origin()] != nil {
				fns = []*types.Func{o.Origin()}
			} else {
				external, extName = true, f.Name
			}
		case *types.Builtin, *types.TypeName:
			for _, a := range c.Args {
				w.expr(a, held)
			}
			return
		case *types.Var:
			for _, a := range c.Args {
				w.expr(a, held)
			}
			if idx, ok := w.params[o]; ok {
				w.cbNote(idx, held)
				return
			}
			unknown = true
		default:
			external, extName = true, f.Name
		}
	case *ast.SelectorExpr:
		recv = f.X
		sel := info.Selections[f]
		switch {
		case sel != nil && sel.Kind() == types.MethodVal:
			_, isTP := sel.Recv().(*types.TypeParam)
			if types.IsInterface(sel.Recv()) || isTP {
				fns = w.p.byName[f.Sel.Name]
				if len(fns) == 0 {
					external, extName = true, f.Sel.Name
				}
			} else if fn, ok := sel.Obj().(*types.Func); ok && w.p.decls[fn.Origin()] != nil {
				fns = []*types.Func{fn.Origin()}
			} else {
				external, extName = true, f.Sel.Name
			}
		case sel != nil && sel.Kind() == types.FieldVal:
			unknown = true
		default:
			external, extName = true, f.Sel.Name
			if id, ok := f.X.(*ast.Ident); ok {
				if _, isPkg := info.Uses[id].(*types.PkgName); isPkg {
					recv = nil
				}
			}
		}
	default:
		if tv, ok := info.Types[fun]; ok && tv.IsType() {
			for _, a := range c.Args {
				w.expr(a, held)
			}
			return
		}
		unknown = true
	}
	if recv != nil {
		w.expr(recv, held)
	}
	if unknown {
		w.expr(fun, held)
		for _, a := range c.Args {
			w.expr(a, held)
		}
		w.acquire(loLock{level: -1, mode: 2}, held, c, "call of a function value that cannot be followed: "+pr(c.Fun))
		return
	}
	if external {
		for _, a := range c.Args {
			if id, ok := a.(*ast.Ident); ok {
				if v := w.varOf(id); v != nil {
					if idx, isP := w.params[v]; isP {
						w.cbNote(idx, held)
					}
				}
			}
			w.expr(a, held)
		}
		switch {
		case extName == "Wait" && len(c.Args) == 0:
			w.block(held, c, "wait "+pr(c))
		case extName == "Sleep":
			w.block(held, c, "sleep "+pr(c))
		case loLibCtx[extName] && len(c.Args) >= 1:
			if ctx := pr(c.Args[0]); ctx == "ctx" || strings.HasPrefix(ctx, "context.") {
				w.block(held, c, "library call with a context "+pr(c.Fun))
			}
		}
		return
	}
	// functions of the package, by their summaries
	cbHeld := map[int][]loHeld{}
	for _, fn := range fns {
		w.apply(fn, recv, c, held, cbHeld)
	}
	for i, a := range c.Args {
		under := loUnion(held, cbHeld[i])
		switch x := a.(type) {
		case *ast.FuncLit:
			w.stmts(x.Body.List, loClone(under))
			continue
		case *ast.Ident:
			if v := w.varOf(x); v != nil {
				if idx, isP := w.params[v]; isP {
					w.cbNote(idx, under)
					continue
				}
			}
		}
		if len(cbHeld[i]) > 0 {
			if fn2, recv2 := w.staticFn(a); fn2 != nil {
				w.apply(fn2, recv2, c, under, map[int][]loHeld{})
			} else if t := w.typeOf(a); t != nil {
				if _, isFn := t.Underlying().(*types.Signature); isFn {
					w.acquire(loLock{level: -1, mode: 2}, under, c, "callback that cannot be followed: "+pr(a))
				}
			}
		}
		w.expr(a, held)
	}
}

// apply the summary of fn at the call c
func (w *loWalk) apply(fn *types.Func, recv ast.Expr, c *ast.CallExpr, held []loHeld, cbHeld map[int][]loHeld) {
	sum := w.p.sums[fn]
	if sum == nil {
		return
	}
	rl, rself := -1, false
	if recv != nil {
		rl, rself = w.levelOf(recv)
	}
	inst := func(l loLock) loLock {
		if !l.self {
			return l
		}
		if rself {
			return l
		}
		return loLock{level: rl, mode: l.mode}
	}
	name := w.p.names[fn]
	var ls []loLock
	for l := range sum.acquires {
		ls = append(ls, l)
	}
	sort.Slice(ls, func(i, j int) bool {
		if ls[i].level != ls[j].level {
			return ls[i].level < ls[j].level
		}
		return ls[i].mode < ls[j].mode
	})
	for _, l := range ls {
		w.acquire(inst(l), held, c, fmt.Sprintf("%s  (%s locks at %s)", pr(c.Fun), name, sum.acquires[l]))
	}
	if sum.blocks != "" {
		w.block(held, c, fmt.Sprintf("%s  (%s may block at %s)", pr(c.Fun), name, sum.blocks))
	}
	for i, m := range sum.cb {
		var ks []loLock
		for l := range m {
			ks = append(ks, l)
		}
		sort.Slice(ks, func(a, b int) bool {
			if ks[a].level != ks[b].level {
				return ks[a].level < ks[b].level
			}
			return ks[a].mode < ks[b].mode
		})
		for _, l := range ks {
			h := loHeld{inst(l), "callback of " + pr(c.Fun)}
			cbHeld[i] = loUnion(cbHeld[i], []loHeld{h})
		}
	}
}

// ---------------------------------------------------------------- driver

func loZ(n int) string {
	if n < 0 {
		return fmt.Sprintf("(%d)", n)
	}
	return fmt.Sprintf("%d", n)
}

func loList(xs []string) string {
	if len(xs) == 0 {
		return "[]"
	}
	return "[\n    " + strings.Join(xs, ";\n    ") + "\n  ]"
}

func lockOrderExtras(repo string, files map[string]*ast.File) (res map[string][]matched, errs []string) {
	fallback := func(msg string) (map[string][]matched, []string) {
		dir := ""
		if f := flag.Lookup("out"); f != nil {
			dir = f.Value.String()
		}
		var out []matched
		for _, d := range loDefNames {
			if old := oldDefinition(filepath.Join(dir, loOut+".v"), d[0]); old != "" {
				out = append(out, matched{d[0], "(root package)", "", 0,
					"STALE: " + msg + "; last generated definition kept", old})
			} else {
				out = append(out, matched{d[0], "(root package)", "", 0,
					"STALE: " + msg + "; no earlier definition", fmt.Sprintf("Definition %s : %s :=\n  %s.", d[0], d[1], d[2])})
			}
		}
		return map[string][]matched{loOut: out}, []string{"anchor g_lock_nest g_lock_blocking_under_lock g_lock_classes g_lock_callbacks (lock order of the root package): " + msg}
	}
	defer func() {
		if r := recover(); r != nil {
			if f, ok := r.(failure); ok {
				res, errs = fallback(f.msg)
				return
			}
			res, errs = fallback(fmt.Sprintf("translator panic: %v", r))
		}
	}()

	// ---- the files of the root package
	ents, err := os.ReadDir(repo)
	if err != nil {
		return fallback("cannot list " + repo)
	}
	var names []string
	for _, e := range ents {
		nm := e.Name()
		if e.IsDir() || !strings.HasSuffix(nm, ".go") || strings.HasSuffix(nm, "_test.go") {
			continue
		}
		src, err := os.ReadFile(filepath.Join(repo, nm))
		if err != nil || strings.Contains(string(src), "//go:build") {
			continue
		}
		names = append(names, nm)
	}
	sort.Strings(names)
	var parsed []*ast.File
	for _, nm := range names {
		f := files[nm]
		if f == nil {
			f, err = parser.ParseFile(fset, filepath.Join(repo, nm), nil, 0)
			if err != nil {
				return fallback(fmt.Sprintf("parse error in %s: %v", nm, err))
			}
			files[nm] = f
		}
		parsed = append(parsed, f)
	}
	if len(parsed) == 0 {
		return fallback("no source files in " + repo)
	}
	for _, need := range []string{"handler.go", "data_structure.go", "event_cache.go"} {
		if files[need] == nil {
			return fallback(need + " not found")
		}
	}

	// ---- types
	p := &loPkg{owners: map[string]*loOwner{}, muNames: map[string]bool{}, decls: map[*types.Func]*ast.FuncDecl{},
		names: map[*types.Func]string{}, byName: map[string][]*types.Func{}, sums: map[*types.Func]*loSummary{},
		insts: map[string]int{}, nest: map[string]*loNestRow{}, blk: map[string]*loBlkRow{}}
	p.info = &types.Info{Types: map[ast.Expr]types.TypeAndValue{}, Defs: map[*ast.Ident]types.Object{},
		Uses: map[*ast.Ident]types.Object{}, Selections: map[*ast.SelectorExpr]*types.Selection{}}
	conf := types.Config{Importer: &loImporter{src: importer.ForCompiler(fset, "source", nil), fake: map[string]*types.Package{}},
		Error: func(error) {}, DisableUnusedImportCheck: true}
	p.pkg, _ = conf.Check(parsed[0].Name.Name, fset, parsed, p.info)
	if p.pkg == nil {
		return fallback("the package cannot be type-checked")
	}

	// ---- owners: structs with a sync.Mutex / sync.RWMutex field
	for _, f := range parsed {
		for _, d := range f.Decls {
			gd, ok := d.(*ast.GenDecl)
			if !ok || gd.Tok != token.TYPE {
				continue
			}
			for _, sp := range gd.Specs {
				ts := sp.(*ast.TypeSpec)
				st, ok := ts.Type.(*ast.StructType)
				if !ok {
					continue
				}
				for _, fl := range st.Fields.List {
					ty := strings.TrimPrefix(pr(fl.Type), "*")
					if ty != "sync.Mutex" && ty != "sync.RWMutex" {
						continue
					}
					o := p.owners[ts.Name.Name]
					if o == nil {
						o = &loOwner{name: ts.Name.Name, mutexes: map[string]bool{}, generic: ts.TypeParams != nil && len(ts.TypeParams.List) > 0}
						p.owners[ts.Name.Name] = o
					}
					if len(fl.Names) == 0 {
						o.mutexes[strings.TrimPrefix(ty, "sync.")] = ty == "sync.RWMutex"
					}
					for _, nm := range fl.Names {
						o.mutexes[nm.Name] = ty == "sync.RWMutex"
						p.muNames[nm.Name] = true
					}
				}
			}
		}
	}
	if len(p.owners) == 0 {
		return fallback("no struct with a sync.Mutex / sync.RWMutex field found")
	}
	var onames []string
	for n := range p.owners {
		onames = append(onames, n)
	}
	sort.Strings(onames)
	lv := 10
	for _, n := range onames {
		if !p.owners[n].generic {
			p.owners[n].level = lv
			lv += 10
		}
	}
	// the deepest nesting of a generic owner among the types that occur
	note := func(t types.Type) {
		if o, n := p.ownerOf(t); o != nil && o.generic {
			if h := p.height(n); h > p.maxH {
				p.maxH = h
			}
		}
	}
	for _, tv := range p.info.Types {
		if tv.Type != nil {
			note(tv.Type)
		}
	}
	for _, o := range p.info.Defs {
		if o != nil && o.Type() != nil {
			note(o.Type())
		}
	}
	record := func(t types.Type) {
		if o, n := p.ownerOf(t); o != nil && o.generic {
			if tl := p.typeLevel(n); tl >= 0 {
				p.insts[types.TypeString(n, func(*types.Package) string { return "" })] = tl
			}
		}
	}
	for _, tv := range p.info.Types {
		if tv.Type != nil {
			record(tv.Type)
		}
	}
	for _, o := range p.info.Defs {
		if o != nil && o.Type() != nil {
			record(o.Type())
		}
	}

	// ---- functions
	for _, f := range parsed {
		for _, d := range f.Decls {
			fd, ok := d.(*ast.FuncDecl)
			if !ok || fd.Body == nil {
				continue
			}
			fn, ok := p.info.Defs[fd.Name].(*types.Func)
			if !ok {
				continue
			}
			p.decls[fn] = fd
			p.order = append(p.order, fn)
			nm := fd.Name.Name
			if ty, _ := linRecvType(fd); ty != "" {
				nm = ty + "." + nm
				p.byName[fd.Name.Name] = append(p.byName[fd.Name.Name], fn)
			}
			p.names[fn] = nm
			p.sums[fn] = &loSummary{acquires: map[loLock]string{}, cb: map[int]map[loLock]bool{}}
		}
	}

	walk := func(fn *types.Func, emit bool) {
		fd := p.decls[fn]
		w := &loWalk{p: p, fobj: fn, name: p.names[fn], params: map[*types.Var]int{}, defs: map[*types.Var][]loDef{},
			localBuf: map[*types.Var]bool{}, sum: p.sums[fn], emit: emit, visiting: map[*types.Var]bool{}}
		sig := fn.Type().(*types.Signature)
		if r := sig.Recv(); r != nil {
			w.recvVar = r
			if o, _ := p.ownerOf(r.Type()); o != nil && o.generic {
				w.selfFn = true
			}
		}
		for i := 0; i < sig.Params().Len(); i++ {
			v := sig.Params().At(i)
			if _, isFn := v.Type().Underlying().(*types.Signature); isFn {
				w.params[v] = i
			}
		}
		w.collectDefs(fd.Body)
		w.stmts(fd.Body.List, nil)
	}
	for round := 0; ; round++ {
		before := 0
		for _, s := range p.sums {
			before += s.size()
		}
		for _, fn := range p.order {
			walk(fn, false)
		}
		after := 0
		for _, s := range p.sums {
			after += s.size()
		}
		if after == before {
			break
		}
		if round > 50 {
			return fallback("the summaries do not stabilise")
		}
	}
	for _, fn := range p.order {
		walk(fn, true)
	}

	// ---- the expected shape: the locking methods of the owners were recognised
	locking := 0
	for _, fn := range p.order {
		if len(p.sums[fn].acquires) > 0 {
			locking++
		}
	}
	if locking == 0 {
		return fallback("no function of the package takes a lock")
	}

	// ---- print
	var classes []string
	var classNote []string
	var instNames []string
	for n := range p.insts {
		instNames = append(instNames, n)
	}
	sort.Slice(instNames, func(i, j int) bool {
		if p.insts[instNames[i]] != p.insts[instNames[j]] {
			return p.insts[instNames[i]] < p.insts[instNames[j]]
		}
		return instNames[i] < instNames[j]
	})
	for _, n := range instNames {
		classes = append(classes, fmt.Sprintf("(%s, %s)", coqStr(n), loZ(p.insts[n])))
		classNote = append(classNote, fmt.Sprintf("%s = %d", n, p.insts[n]))
	}
	for _, n := range onames {
		o := p.owners[n]
		if o.generic {
			continue
		}
		var fs []string
		for f := range o.mutexes {
			fs = append(fs, f)
		}
		sort.Strings(fs)
		for _, f := range fs {
			classes = append(classes, fmt.Sprintf("(%s, %s)", coqStr(n+"."+f), loZ(o.level)))
			classNote = append(classNote, fmt.Sprintf("%s.%s = %d", n, f, o.level))
		}
	}

	var cbs, cbNote []string
	for _, fn := range p.order {
		s := p.sums[fn]
		var idxs []int
		for i := range s.cb {
			idxs = append(idxs, i)
		}
		sort.Ints(idxs)
		for _, i := range idxs {
			var ks []loLock
			for l := range s.cb[i] {
				ks = append(ks, l)
			}
			sort.Slice(ks, func(a, b int) bool {
				if ks[a].level != ks[b].level {
					return ks[a].level < ks[b].level
				}
				return ks[a].mode < ks[b].mode
			})
			for _, l := range ks {
				lvl := l.level
				if l.self {
					lvl = -2
				}
				cbs = append(cbs, fmt.Sprintf("(%s, (%d, %s, %d))", coqStr(p.names[fn]), i, loZ(lvl), l.mode))
				cbNote = append(cbNote, fmt.Sprintf("%s calls its parameter #%d holding level %d mode %d", p.names[fn], i, lvl, l.mode))
			}
		}
	}

	var nrows []*loNestRow
	for _, r := range p.nest {
		nrows = append(nrows, r)
	}
	sort.Slice(nrows, func(i, j int) bool {
		a, b := nrows[i], nrows[j]
		if a.fn != b.fn {
			return a.fn < b.fn
		}
		if a.held != b.held {
			return a.held < b.held
		}
		if a.acq != b.acq {
			return a.acq < b.acq
		}
		return a.mode < b.mode
	})
	var nest, nestNote []string
	for _, r := range nrows {
		nest = append(nest, fmt.Sprintf("(%s, (%s, %s, %d))", coqStr(r.fn), loZ(r.held), loZ(r.acq), r.mode))
		nestNote = append(nestNote, fmt.Sprintf("%s:%d holds level %d (mode %d), acquires level %d (mode %d): %s", r.fn, r.line, r.held, r.heldMode, r.acq, r.mode, r.text))
	}
	var brows []*loBlkRow
	for _, r := range p.blk {
		brows = append(brows, r)
	}
	sort.Slice(brows, func(i, j int) bool {
		if brows[i].fn != brows[j].fn {
			return brows[i].fn < brows[j].fn
		}
		return brows[i].held < brows[j].held
	})
	var blk, blkNote []string
	for _, r := range brows {
		blk = append(blk, fmt.Sprintf("(%s, %s)", coqStr(r.fn), loZ(r.held)))
		blkNote = append(blkNote, fmt.Sprintf("%s:%d holds level %d: %s", r.fn, r.line, r.held, r.text))
	}
	var lockers []string
	for _, fn := range p.order {
		s := p.sums[fn]
		if len(s.acquires) == 0 {
			continue
		}
		if r := fn.Type().(*types.Signature).Recv(); r == nil {
			continue
		} else if o, _ := p.ownerOf(r.Type()); o == nil {
			continue
		}
		var ks []string
		for l := range s.acquires {
			lvl := fmt.Sprint(l.level)
			if l.self {
				lvl = "self"
			}
			ks = append(ks, fmt.Sprintf("%s/%d", lvl, l.mode))
		}
		sort.Strings(ks)
		lockers = append(lockers, p.names[fn]+"{"+strings.Join(ks, ",")+"}")
	}
	mk := func(name, ty string, xs []string, note string) matched {
		return matched{name, strings.Join(names, "+"), "(all functions)", 0, safeGoLin(note),
			fmt.Sprintf("Definition %s : %s :=\n  %s.", name, ty, loList(xs))}
	}
	join := func(xs []string) string {
		if len(xs) == 0 {
			return "(none)"
		}
		return strings.Join(xs, "\n   ")
	}
	out := []matched{
		mk("g_lock_classes", "list (str * Z)", classes, "(lock class, level)\n   "+join(classNote)),
		mk("g_lock_callbacks", "list (str * (Z * Z * Z))", cbs, "(function, (parameter index, level held when the parameter is called (-2 = the receiver's own lock), mode))\n   "+join(cbNote)),
		mk("g_lock_nest", "list (str * (Z * Z * Z))", nest, "(function, (level held, level acquired, mode acquired))\n   "+join(nestNote)+
			"\n   methods of the owners that take a lock (level/mode): "+strings.Join(lockers, " ")),
		mk("g_lock_blocking_under_lock", "list (str * Z)", blk, "(function, level held) blocking operations with a lock held\n   "+join(blkNote)),
	}
	return map[string][]matched{loOut: out}, errs
}
