(* Proc.v — a small-step semantics of networks of sequential processes over
   Go-like channels and contexts (C13).  Definitions only; proofs are in
   ProcProofs.v.

   What is modelled
   - channels: unbuffered (rendezvous), buffered with a capacity, closable;
     messages carry no data (only the number of buffered items matters for
     blocking behaviour);
   - contexts: a cancellation flag per context, arranged in a tree by naming:
     a flag is a list of numbers and the contexts derived from [f] are the
     extensions of [f]; a context is done when it or one of its ancestors
     (prefixes) has been cancelled; cancellation is monotone;
   - joins: [Join j] waits until process [j] has reached [Exit] (wg.Wait, the
     deferred [<-errCh] of a goroutine that sends exactly once before exiting,
     and a synchronous call of another handler's ServeNostr);
   - a process is an automaton over program counters; its states are the
     blocking points of the goroutine ([Select] over [ADone]/[ARecv]/[ASend]/
     [ADefault] alternatives, [Join]) and the non-blocking effects that matter
     (cancel(), close(ch), allocation of a fresh reply channel); straight-line
     code between them is collapsed, data-dependent branching appears as a
     list of possible successor states of an alternative.

   What is not modelled: message contents, the Go scheduler (every
   interleaving is allowed; [select] may pick any ready alternative), timers,
   panics (sending on a closed channel has no transition). *)
From Moc Require Import Base.
Import ListNotations.
Open Scope nat_scope.

(** * Names *)
Definition path := list nat.

(* A process name: position of its component in the composition, a local
   number, and its rank (joins go to strictly smaller ranks). *)
Record pid := mkPid { p_path : path; p_id : nat; p_rank : nat }.

Inductive cclass :=
| Plain     (* ordinary channel: every operation on it sits in a guarded select *)
| Bounded   (* buffered error channel: bare sends, at most [c_cap] of them *)
| Token.    (* 1-slot state channel: take, straight-line code, put *)

(* A channel name: allocation site (component path, local number) together
   with its static attributes. *)
Record chan := mkChan { c_path : path; c_id : nat; c_cap : nat; c_class : cclass }.

Definition flag := list nat.
Definition pc := nat.

Definition pid_eq_dec (a b : pid) : {a = b} + {a <> b}.
Proof. decide equality; try apply Nat.eq_dec; apply (list_eq_dec Nat.eq_dec). Defined.

Definition cclass_eq_dec (a b : cclass) : {a = b} + {a <> b}.
Proof. decide equality. Defined.

Definition chan_eq_dec (a b : chan) : {a = b} + {a <> b}.
Proof. decide equality; try apply Nat.eq_dec; try apply cclass_eq_dec; apply (list_eq_dec Nat.eq_dec). Defined.

Definition flag_eq_dec (a b : flag) : {a = b} + {a <> b} := list_eq_dec Nat.eq_dec a b.

(** * Programs *)
Inductive alt :=
| ADone (f : flag) (next : pc)                       (* case <-ctx.Done() *)
| ARecv (c : chan) (oks : list pc) (closeds : list pc) (* case v, ok := <-c : received / channel closed and empty *)
| ASend (c : chan) (nexts : list pc)                 (* case c <- v *)
| ADefault (nexts : list pc).                        (* default *)

Inductive instr :=
| Select (alts : list alt)          (* a select statement; one alternative = a bare send / receive *)
| Join (j : pid) (next : pc)        (* wait for process j to exit *)
| Cancel (f : flag) (next : pc)     (* cancel() of context f *)
| Close (c : chan) (next : pc)      (* close(c) *)
| Fresh (c : chan) (lens : list nat) (closed : bool) (next : pc)
                                    (* c := a freshly made channel holding k items for some k in lens,
                                       already closed or not (make; fill; close of a reply channel) *)
| Exit.

(* A process.  [pr_meas] and [pr_pend] are annotations used only by the
   guardedness predicate below (a ranking function towards Exit and the number
   of sends a process still owes to / holds of a Bounded / Token channel); the
   transition relation does not look at them. *)
Record proc := mkProc {
  pr_id : pid;
  pr_code : pc -> instr;
  pr_len : nat;                (* the program counters in use are 0 .. pr_len-1 (for tables only) *)
  pr_meas : pc -> nat;
  pr_pend : pc -> chan -> nat
}.

Definition net := list proc.

(** * States *)
Record chst := mkCh { ch_len : nat; ch_closed : bool }.

Record state := mkSt {
  st_pc : pid -> pc;
  st_ch : chan -> chst;
  st_fl : flag -> bool
}.

Definition upd {A B} (dec : forall a b : A, {a = b} + {a <> b}) (f : A -> B) (k : A) (v : B) : A -> B :=
  fun x => if dec x k then v else f x.

Definition set_pc (st : state) (p : pid) (k : pc) : state :=
  mkSt (upd pid_eq_dec (st_pc st) p k) (st_ch st) (st_fl st).
Definition set_ch (st : state) (c : chan) (v : chst) : state :=
  mkSt (st_pc st) (upd chan_eq_dec (st_ch st) c v) (st_fl st).
Definition set_fl (st : state) (f : flag) : state :=
  mkSt (st_pc st) (st_ch st) (upd flag_eq_dec (st_fl st) f true).

(* prefixes of a flag = the context and all its ancestors *)
Fixpoint prefixes (f : flag) : list flag :=
  match f with
  | [] => [[]]
  | x :: r => [] :: List.map (cons x) (prefixes r)
  end.

Definition isdone (st : state) (f : flag) : bool := existsb (st_fl st) (prefixes f).

Definition is_prefix (a b : flag) : Prop := exists r, b = a ++ r.

Definition init_len (c : chan) : nat := match c_class c with Token => 1 | _ => 0 end.

Definition init_state : state :=
  mkSt (fun _ => 0) (fun c => mkCh (init_len c) false) (fun _ => false).

Definition at_instr (st : state) (pr : proc) : instr := pr_code pr (st_pc st (pr_id pr)).

(* process j has exited (a name that denotes no process of the net counts as exited) *)
Definition exited (N : net) (st : state) (j : pid) : Prop :=
  forall prj, In prj N -> pr_id prj = j -> at_instr st prj = Exit.

Definition live (st : state) (pr : proc) : Prop := at_instr st pr <> Exit.

(** * Transitions *)
(* steps one process takes on its own *)
Inductive solo (N : net) (pr : proc) (st : state) : state -> Prop :=
| solo_done : forall alts f n,
    at_instr st pr = Select alts -> In (ADone f n) alts -> isdone st f = true ->
    solo N pr st (set_pc st (pr_id pr) n)
| solo_default : forall alts ns n,
    at_instr st pr = Select alts -> In (ADefault ns) alts -> In n ns ->
    solo N pr st (set_pc st (pr_id pr) n)
| solo_send : forall alts c ns n,          (* buffered send with room *)
    at_instr st pr = Select alts -> In (ASend c ns) alts -> In n ns ->
    ch_closed (st_ch st c) = false -> ch_len (st_ch st c) < c_cap c ->
    solo N pr st (set_pc (set_ch st c (mkCh (S (ch_len (st_ch st c))) false)) (pr_id pr) n)
| solo_recv : forall alts c oks cls n k,   (* a buffered item is available *)
    at_instr st pr = Select alts -> In (ARecv c oks cls) alts -> In n oks ->
    ch_len (st_ch st c) = S k ->
    solo N pr st (set_pc (set_ch st c (mkCh k (ch_closed (st_ch st c)))) (pr_id pr) n)
| solo_recv_closed : forall alts c oks cls n,
    at_instr st pr = Select alts -> In (ARecv c oks cls) alts -> In n cls ->
    ch_len (st_ch st c) = 0 -> ch_closed (st_ch st c) = true ->
    solo N pr st (set_pc st (pr_id pr) n)
| solo_join : forall j n,
    at_instr st pr = Join j n -> exited N st j ->
    solo N pr st (set_pc st (pr_id pr) n)
| solo_cancel : forall f n,
    at_instr st pr = Cancel f n ->
    solo N pr st (set_pc (set_fl st f) (pr_id pr) n)
| solo_close : forall c n,
    at_instr st pr = Close c n ->
    solo N pr st (set_pc (set_ch st c (mkCh (ch_len (st_ch st c)) true)) (pr_id pr) n)
| solo_fresh : forall c lens cl n k,
    at_instr st pr = Fresh c lens cl n -> In k lens ->
    solo N pr st (set_pc (set_ch st c (mkCh k cl)) (pr_id pr) n).

(* rendezvous on an unbuffered channel: sender ps and receiver pq move together *)
Inductive rendezvous (N : net) (ps pq : proc) (st : state) : state -> Prop :=
| rdv : forall altss altsq c ns n oks cls m,
    pr_id ps <> pr_id pq ->
    at_instr st ps = Select altss -> In (ASend c ns) altss -> In n ns ->
    at_instr st pq = Select altsq -> In (ARecv c oks cls) altsq -> In m oks ->
    c_cap c = 0 -> ch_closed (st_ch st c) = false -> ch_len (st_ch st c) = 0 ->
    rendezvous N ps pq st (set_pc (set_pc st (pr_id ps) n) (pr_id pq) m).

Inductive step (N : net) (st st' : state) : Prop :=
| step_solo : forall pr, In pr N -> solo N pr st st' -> step N st st'
| step_rdv : forall ps pq, In ps N -> In pq N -> rendezvous N ps pq st st' -> step N st st'.

Inductive reachable (N : net) : state -> Prop :=
| reach_init : reachable N init_state
| reach_step : forall st st', reachable N st -> step N st st' -> reachable N st'.

(* k steps *)
Inductive steps (N : net) : nat -> state -> state -> Prop :=
| steps_0 : forall st, steps N 0 st st
| steps_S : forall k st st' st'', step N st st' -> steps N k st' st'' -> steps N (S k) st st''.

(* k steps of process pr alone *)
Inductive solo_run (N : net) (pr : proc) : nat -> state -> state -> Prop :=
| solo_run_0 : forall st, solo_run N pr 0 st st
| solo_run_S : forall k st st' st'', solo N pr st st' -> solo_run N pr k st' st'' -> solo_run N pr (S k) st st''.

Definition all_exited (N : net) (st : state) : Prop := forall pr, In pr N -> at_instr st pr = Exit.

Definition solo_enabled (N : net) (pr : proc) (st : state) : Prop := exists st', solo N pr st st'.

(** * Guardedness: the static discipline under which cancellation unblocks everything *)

Fixpoint sum_over {A} (f : A -> nat) (l : list A) : nat :=
  match l with [] => 0 | x :: r => f x + sum_over f r end.

Definition total_meas (N : net) (st : state) : nat :=
  sum_over (fun pr => pr_meas pr (st_pc st (pr_id pr))) N.

Definition total_pend (N : net) (st : state) (c : chan) : nat :=
  sum_over (fun pr => pr_pend pr (st_pc st (pr_id pr)) c) N.

Definition dec (pr : proc) (k n : pc) : Prop := pr_meas pr n < pr_meas pr k.

Definition is_put (c : chan) (i : instr) : Prop := exists ns, i = Select [ASend c ns].

(* Every program point has a way towards Exit that needs nobody's help once
   the root context is cancelled:
   (a) a select with a ctx.Done() alternative on a context below the root,
   (a') a select with a default,
   (b) a join on a process of smaller rank,
   (c) a token take whose successor is the matching put,
   (d) a bare send on a Bounded/Token channel for which this process still
       holds a reservation ([pr_pend] >= 1),
   and the non-blocking effects.  [pr_meas] decreases along that way. *)
Definition exit_ok (root : flag) (pr : proc) (k : pc) : Prop :=
  match pr_code pr k with
  | Exit => True
  | Cancel _ n => dec pr k n
  | Close c n => c_class c = Plain /\ dec pr k n
  | Fresh c lens _ n => c_class c = Plain /\ lens <> [] /\ dec pr k n
  | Join j n => p_rank j < p_rank (pr_id pr) /\ dec pr k n
  | Select alts =>
      (exists f n, In (ADone f n) alts /\ is_prefix root f /\ dec pr k n)
      \/ (exists ns, In (ADefault ns) alts /\ ns <> [] /\ Forall (dec pr k) ns)
      \/ (exists c ns, alts = [ASend c ns] /\ c_class c <> Plain /\ 1 <= pr_pend pr k c
                       /\ ns <> [] /\ Forall (dec pr k) ns)
      \/ (exists c oks cls, alts = [ARecv c oks cls] /\ c_class c = Token /\ oks <> []
                       /\ Forall (fun n => dec pr k n /\ is_put c (pr_code pr n)) oks)
  end.

(* Accounting of sends on Bounded and Token channels.  For a channel d the
   quantity  (buffered items of d) + (sum of pr_pend over all processes)  never
   increases (Bounded) resp. stays constant (Token): a transition k -> n that
   sends on d uses up one reservation, one that receives from d may create one. *)
Definition pend_step (pr : proc) (k n : pc) (snt rcv : option chan) : Prop :=
  forall d, c_class d <> Plain ->
    let s := match snt with Some c => if chan_eq_dec c d then 1 else 0 | None => 0 end in
    let r := match rcv with Some c => if chan_eq_dec c d then 1 else 0 | None => 0 end in
    pr_pend pr n d + s <= pr_pend pr k d + r
    /\ (c_class d = Token -> pr_pend pr n d + s = pr_pend pr k d + r).

Definition alt_pend_ok (pr : proc) (k : pc) (a : alt) : Prop :=
  match a with
  | ADone _ n => pend_step pr k n None None
  | ADefault ns => Forall (fun n => pend_step pr k n None None) ns
  | ASend c ns => Forall (fun n => pend_step pr k n (Some c) None) ns
  | ARecv c oks cls => Forall (fun n => pend_step pr k n None (Some c)) oks
                       /\ Forall (fun n => pend_step pr k n None None) cls
  end.

Definition pend_ok (pr : proc) (k : pc) : Prop :=
  match pr_code pr k with
  | Exit => True
  | Cancel _ n | Close _ n | Join _ n | Fresh _ _ _ n => pend_step pr k n None None
  | Select alts => Forall (alt_pend_ok pr k) alts
  end.

(* whoever holds a reservation on a token channel is at the put *)
Definition hold_ok (pr : proc) (k : pc) : Prop :=
  forall d, c_class d = Token -> 1 <= pr_pend pr k d -> c_cap d = 1 /\ is_put d (pr_code pr k).

Definition proc_ok (root : flag) (pr : proc) : Prop :=
  (forall k, exit_ok root pr k /\ pend_ok pr k /\ hold_ok pr k)
  /\ (forall d, c_class d = Token -> pr_pend pr 0 d = 0).

(* initially the reservations on a Bounded channel fit its capacity *)
Definition init_ok (N : net) : Prop :=
  forall d, c_class d = Bounded -> sum_over (fun pr => pr_pend pr 0 d) N <= c_cap d.

Record guarded (root : flag) (N : net) : Prop := mkGuarded {
  g_nodup : NoDup (List.map pr_id N);
  g_procs : Forall (proc_ok root) N;
  g_init : init_ok N
}.

(** * What "not stuck" means for one live process in a state *)
Inductive waits_ok (N : net) (st : state) (pr : proc) : Prop :=
| w_enabled : solo_enabled N pr st -> waits_ok N st pr
| w_join : forall j n prj,
    at_instr st pr = Join j n -> In prj N -> pr_id prj = j -> live st prj ->
    p_rank j < p_rank (pr_id pr) -> waits_ok N st pr
| w_token : forall c oks cls q,
    at_instr st pr = Select [ARecv c oks cls] -> c_class c = Token ->
    In q N -> is_put c (at_instr st q) -> solo_enabled N q st -> waits_ok N st pr.
