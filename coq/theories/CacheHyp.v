(* CacheHyp.v — hypotheses on events and histories used by the C04/C05
   theorems beyond [hist_ok] of CacheInv.v, with boolean checkers so that
   the non-vacuity examples are checked by computation.  Definitions only
   (proofs: CacheFacts.v). *)
From Moc Require Import Base Match Cache CacheSpec CacheInv.
Open Scope Z_scope.

(** number of ':' in a string *)
Definition ncolon (s : str) : nat := length (List.filter (N.eqb colon) s).

(** A deletion request's references have the shape NIP-09 gives them: an
    [e] tag carries an event id (no ':'), an [a] tag carries
    kind:pubkey:d (at least two ':').  Without this the code and the
    property text differ: the code treats both tag names alike and compares
    the value with the stored key *and* with the id (see
    [C05_tag_shape_needed_*] in Properties/C05.v). *)
Definition k5_tag_wf (t : tag) : Prop :=
  match t with
  | n :: v :: _ => (n = e_str -> colon_free v) /\ (n = a_str -> (2 <= ncolon v)%nat)
  | _ => True
  end.

Definition k5_wf (d : event) : Prop := ev_kind d = 5 -> Forall k5_tag_wf (ev_tags d).

Definition k5_tag_wfb (t : tag) : bool :=
  match t with
  | n :: v :: _ => (negb (str_eqb n e_str) || colon_freeb v) &&
                   (negb (str_eqb n a_str) || Nat.leb 2 (ncolon v))
  | _ => true
  end.

Definition k5_wfb (d : event) : bool := negb (ev_kind d =? 5) || forallb k5_tag_wfb (ev_tags d).

(** The code accepts an ephemeral event before it looks at the deletion
    registry; the property text wants a suppressed event reported as not
    new.  The step theorems therefore exclude an ephemeral event that a
    retained deletion request of its author references. *)
Definition eph_ok (R : list event) (e : event) : Prop :=
  cls_ephemeral (ev_kind e) = true -> suppressed R e = false.

Definition eph_okb (R : list event) (e : event) : bool :=
  negb (cls_ephemeral (ev_kind e)) || negb (suppressed R e).

(** history-level form: no ephemeral event of the history is referenced by a
    deletion request of the same author in the history *)
Definition eph_unref (h : list event) : Prop :=
  forall d e, In d h -> In e h -> is_k5 d = true -> cls_ephemeral (ev_kind e) = true ->
              ev_pk d = ev_pk e -> refs d e = false.

Definition eph_unrefb (h : list event) : bool :=
  forallb (fun d => forallb (fun e =>
     negb (is_k5 d && cls_ephemeral (ev_kind e) && str_eqb (ev_pk d) (ev_pk e) && refs d e)) h) h.

(** boolean forms of [ids_functional], [key_wf], [hist_ok] *)
Definition ids_functionalb (l : list event) : bool :=
  forallb (fun a => forallb (fun b => negb (str_eqb (ev_id a) (ev_id b)) || event_eqb a b) l) l.

Definition key_wfb (e : event) : bool := colon_freeb (ev_id e) && colon_freeb (ev_pk e).

Definition hist_okb (h : list event) : bool := ids_functionalb h && forallb key_wfb h.

(** the full hypothesis on histories for C04/C05 *)
Definition hist_ok5 (h : list event) : Prop := hist_ok h /\ Forall k5_wf h /\ eph_unref h.
Definition hist_ok5b (h : list event) : bool := hist_okb h && forallb k5_wfb h && eph_unrefb h.

(** everything the step theorems assume about a state and the event offered *)
Definition step_hyps (s : cstate) (e : event) : Prop :=
  Inv s /\ ids_functional (e :: retained s) /\
  key_wf e /\ Forall key_wf (retained s) /\
  k5_wf e /\ Forall k5_wf (retained s) /\
  eph_ok (c_listing s) e /\ 1 <= c_cap s.
