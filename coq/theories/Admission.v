(* Admission.v — the admission path of relay.go `serveRead`, end to end:
   the decision chain of Gate.v (C12) with its abstract fields INSTANTIATED by
   the real functions of the other models — ParseClientMsg (Codec.v, C10),
   ValidClientMsg (Valid.v, C11) and Event.Verify (Ser.v, C01).
   Definitions only; proofs are in AdmissionProofs.v, statements in
   Properties/Admission.v.

   What stays abstract, exactly as in the composed models:
   - text <-> JSON value (encoding/json, utf8.Valid, json.Valid): a text frame
     is given by its payload bytes, whether utf8.Valid holds, and — if
     json.Valid holds — the [ctext] of Codec.v (the JSON value plus the two
     token-level facts ParseClientMsg's label pattern looks at);
   - SHA-256 and BIP-340: the Section variables H PK SG V of Ser.v.

   Part 1  concrete frames and the instantiation of Gate.frame
   Part 2  the declarative specification of "admissible"
   Part 3  computable toy oracles and concrete frames for the examples *)
From Moc Require Import Base Json CodecMsg Codec Valid Ser Gate.
Import String.StringSyntax.
Open Scope Z_scope.

(* ================================================================== *)
(** * Part 1: concrete frames *)

(** What conn.Read hands to serveRead.  [json = None]: json.Valid(payload) is
    false.  utf8.Valid and json.Valid are independent tests in Go (json.Valid
    does not look at the encoding inside strings), so both are kept. *)
Inductive wsframe :=
| Binary (payload : str)
| Text (payload : str) (utf8_ok : bool) (json : option ctext).

Definition payload_of (f : wsframe) : str :=
  match f with Binary p => p | Text p _ _ => p end.

Definition frame_text (f : wsframe) : option ctext :=
  match f with Text _ _ (Some t) => Some t | _ => None end.

Definition kind_of_cmsg (m : cmsg) : cmsg_kind :=
  match m with
  | CEvent _ => KEvent | CReq _ _ => KReq | CClose _ => KClose | CAuth _ => KAuth | CCount _ _ => KCount
  end.

(** [msg, err := ParseClientMsg(payload)]; [None] = err != nil.  (A run-time
    panic of the decoder is a third outcome of the codec model; it is mapped to
    [None] here and shown never to occur: AdmissionProofs.parsed_never_panics.) *)
Definition parsed (f : wsframe) : option cmsg :=
  match frame_text f with
  | Some t => match parse_client_msg t with Val m => Some m | Err => None | Panic => None end
  | None => None
  end.

Definition gate_vo (r : Ser.vres) : Gate.verify_outcome :=
  match r with Ser.VOk b => Gate.VOk b | Ser.VErr => Gate.VErr end.

Section Admission.
  (** SHA-256; schnorr.ParsePubKey succeeds; schnorr.ParseSignature succeeds;
      sig.Verify — as in Ser.v *)
  Variable H : str -> str.
  Variable PK : str -> bool.
  Variable SG : str -> bool.
  Variable V : str -> str -> str -> bool.

  (** [msg.Event.Verify()] for a *ClientEventMsg, on the tree under test
      ([verify_tree]: with the serializer the tree has).  A nil *Event is
      Verify's first branch: (false, "nil event").  The Go-level event is read
      through the view [event_of_gevent] (nil Tags / nil Tag as empty): the
      decoder never produces those nils, so for every PARSED message the view
      loses nothing (AdmissionProofs.parsed_event_view_lossless) and the
      [null] branches of Serialize, which Ser.v leaves out, are not reached.
      Other message kinds: the gate does not look at this field. *)
  Definition verify_cmsg (m : cmsg) : verify_outcome :=
    match m with
    | CEvent (Some e) => gate_vo (verify_tree H PK SG V (event_of_gevent e))
    | CEvent None => Gate.VErr
    | _ => Gate.VErr
    end.

  (** [msg.Event.ID] of the "invalid sig event: %s" notice *)
  Definition evid_of (m : cmsg) : str :=
    match m with CEvent (Some e) => ge_id e | _ => [] end.

  (** The record of outcomes that Gate.gate decides on, computed from the
      frame by the real functions.  [i] is the abstract message id Gate.v asks
      for (relay_session uses the frame's position).  For a binary frame the
      UTF-8 / JSON fields are not looked at. *)
  Definition frame_outcomes (i : Z) (f : wsframe) : frame :=
    mkFrame i
      (match f with Text _ _ _ => true | Binary _ => false end)
      (match f with Text _ u _ => u | Binary _ => false end)
      (match f with Text _ _ (Some _) => true | _ => false end)
      (option_map kind_of_cmsg (parsed f))
      (valid_client_msg_opt (parsed f))
      (match parsed f with Some m => verify_cmsg m | None => Gate.VErr end)
      (payload_of f)
      (match parsed f with Some m => evid_of m | None => [] end).

  (** serveRead on one frame *)
  Definition admit_frame (f : wsframe) : verdict := gate (frame_outcomes 0 f).

  (** what is sent on [recv] for the frame, if anything: [sendCtx(ctx, recv, msg)] *)
  Definition forwarded (f : wsframe) : option cmsg :=
    match admit_frame f with
    | Forward _ => parsed f
    | Reject _ => None
    end.

  (** serveReadLoop over a frame sequence: Gate.session on the outcomes, the
      message id of a frame being its position *)
  Fixpoint number (i : Z) (fs : list wsframe) : list frame :=
    match fs with
    | [] => []
    | f :: r => frame_outcomes i f :: number (i + 1) r
    end.

  Definition relay_session (fs : list wsframe) : sess := session (number 0 fs).

  (** the message behind an id of the session *)
  Definition msg_at (fs : list wsframe) (i : Z) : option cmsg :=
    if i <? 0 then None
    else match nth_error fs (Z.to_nat i) with Some f => parsed f | None => None end.

  (** the handler's input as messages, in order *)
  Definition handler_msgs (fs : list wsframe) : list (option cmsg) :=
    List.map (msg_at fs) (handler_input (relay_session fs)).

  (* ================================================================ *)
  (** * Part 2: specification, written without the structure of the code *)

  (** "when it is an EVENT, the event is authentic" (C01's [authentic_spec]:
      the id is a hexadecimal writing of H of the NIP-01 canonical
      serialization and the signature oracle accepts) *)
  Definition authentic_if_event_msg (m : cmsg) : Prop :=
    forall e, m = CEvent (Some e) -> authentic_spec H PK SG V (event_of_gevent e).

  (** frame [f] is admissible and carries message [m]: a text frame of valid
      UTF-8 and valid JSON whose text decodes to [m], [m] is well-formed under
      NIP-01 (C11's declarative predicate on the decoded message) and, for an
      EVENT, authentic *)
  Definition admissible (f : wsframe) (m : cmsg) : Prop :=
    exists p t,
      f = Text p true (Some t) /\ parse_client_msg t = Val m /\ wf_nip01 m /\ authentic_if_event_msg m.

  (** the handler's input for a frame sequence, declaratively: the messages of
      the admissible frames, once each, in order *)
  Inductive delivers : list wsframe -> list cmsg -> Prop :=
  | dl_nil : delivers [] []
  | dl_admit f m fs ms : admissible f m -> delivers fs ms -> delivers (f :: fs) (m :: ms)
  | dl_reject f fs ms : (forall m, ~ admissible f m) -> delivers fs ms -> delivers (f :: fs) ms.
End Admission.

(* ================================================================== *)
(** * Part 3: computable oracles and concrete frames (non-vacuity) *)

Definition hex_encode (s : str) : str :=
  flat_map (fun b => [lc_hex (b / 16); lc_hex (b mod 16)]%N) s.

(** a toy 32-byte "hash": a rolling sum of the bytes, spread over 32 bytes *)
Definition toy_H (s : str) : str :=
  let a := fold_left (fun acc b => ((acc * 31 + b + 1) mod 256)%N) s 7%N in
  List.map (fun i => ((a + 7 * N.of_nat i) mod 256)%N) (seq 0 32).

(** "ParsePubKey": 32 bytes, and not the all-ones key *)
Definition toy_PK (pk : str) : bool := Nat.eqb (length pk) 32 && negb (forallb (N.eqb 255) pk).
Definition toy_SG (sg : str) : bool := Nat.eqb (length sg) 64.
(** a toy "signature scheme": the signature of message m under key pk is m ++ pk *)
Definition toy_V (pk m sg : str) : bool := str_eqb sg (m ++ pk).

Definition ex_pk : str := repeat 97%N 64.          (* "aa...a": the key bytes are 32 times 0xaa *)
Definition ex_pk_bytes : str := repeat 170%N 32.
Definition ex_pk_bad : str := repeat 102%N 64.      (* "ff...f": well-formed text, refused by toy_PK *)

(** the event with the given pubkey and content; id and sig are computed with
    the toy oracles (neither is covered by the serialization) *)
Definition ex_base (pk content : str) : event :=
  mkEvent [] pk 1700000000 1 [[gtxt "t"; gtxt "x"]] content [].
Definition ex_id_bytes (pk content : str) : str := toy_H (canonical (ex_base pk content)).

Definition ex_id : str := Eval vm_compute in hex_encode (ex_id_bytes ex_pk (gtxt "hi")).
Definition ex_sig : str := Eval vm_compute in hex_encode (ex_id_bytes ex_pk (gtxt "hi") ++ ex_pk_bytes).
Definition ex_id_badpk : str := Eval vm_compute in hex_encode (ex_id_bytes ex_pk_bad (gtxt "hi")).

Definition ex_event_json (id pk content sig : str) : jv :=
  JObj [ (k_id, JStr id); (k_pubkey, JStr pk); (k_created_at, JInt 1700000000); (k_kind, JInt 1);
         (k_tags, JArr [JArr [JStr (gtxt "t"); JStr (gtxt "x")]]);
         (k_content, JStr content); (k_sig, JStr sig) ].

(** ["EVENT", {...}] with a correct id and signature, and altered copies:
    another content under the same id and sig; another sig; and an event whose
    id is right but whose pubkey does not parse *)
Definition ex_event_ast : jv := JArr [JStr L_EVENT; ex_event_json ex_id ex_pk (gtxt "hi") ex_sig].
Definition ex_event_ast_content_altered : jv :=
  JArr [JStr L_EVENT; ex_event_json ex_id ex_pk (gtxt "ho") ex_sig].
Definition ex_event_ast_sig_altered : jv :=
  JArr [JStr L_EVENT; ex_event_json ex_id ex_pk (gtxt "hi") (repeat 48%N 128)].
Definition ex_event_ast_bad_pubkey : jv :=
  JArr [JStr L_EVENT; ex_event_json ex_id_badpk ex_pk_bad (gtxt "hi") ex_sig].

(** ["REQ", "sub1", {"kinds":[1],"#t":["x"],"limit":10}, {}] *)
Definition ex_req_ast : jv :=
  JArr [ JStr L_REQ; JStr (gtxt "sub1");
         JObj [ (k_kinds, JArr [JInt 1]); ([35; 116]%N, JArr [JStr (gtxt "x")]); (k_limit, JInt 10) ];
         JObj [] ].

(** ["AUTH", {...}] carrying the content-altered event: AUTH events are not verified *)
Definition ex_auth_ast : jv := JArr [JStr L_AUTH; ex_event_json ex_id ex_pk (gtxt "ho") ex_sig].

Definition text_frame (payload : String.string) (j : jv) : wsframe :=
  Text (str_of_string payload) true (Some (plain_text j)).
Arguments text_frame payload%string_scope j.

Definition ex_frames_adm : list wsframe :=
  [ text_frame "<req>" ex_req_ast;                                       (* 0 forwarded *)
    Binary (gtxt "<req>");                                               (* 1 binary *)
    Text [255%N] false None;                                             (* 2 invalid UTF-8 *)
    Text (gtxt "{") true None;                                           (* 3 not JSON *)
    text_frame "[""HELLO""]" (JArr [JStr (gtxt "HELLO")]);               (* 4 JSON, no client message *)
    text_frame "<req kinds 70000>"
      (JArr [JStr L_REQ; JStr []; JObj [(k_kinds, JArr [JInt 70000])]]); (* 5 parses, invalid *)
    text_frame "<event>" ex_event_ast;                                   (* 6 authentic: forwarded *)
    text_frame "<event content altered>" ex_event_ast_content_altered;   (* 7 altered content *)
    text_frame "<event sig altered>" ex_event_ast_sig_altered;           (* 8 altered sig *)
    text_frame "<event bad pubkey>" ex_event_ast_bad_pubkey;             (* 9 Verify returns an error *)
    text_frame "<auth>" ex_auth_ast;                                     (* 10 AUTH: forwarded unverified *)
    Text (gtxt " [""CLOSE"",""sub1""]") true
      (Some (mkCText true false (JArr [JStr L_CLOSE; JStr (gtxt "sub1")]))) ].  (* 11 leading white space *)
