(* SqlProofsFixed.v — C06 after the repairs of F6 (`len(tag) < 2`) and F7
   (a filter with `limit: 0` selects nothing): the two side conditions of the
   core theorem hold for every history and every filter list, so the full
   statement of the property is proved.  Replaces SqlPinned.v. *)
From Moc Require Import SqlProofs.
From Moc.Gen Require Import GenMsg GenSql.
Open Scope Z_scope.

(** F6 repaired: every e / a tag with at least two elements is counted *)
Lemma g_sql_dkey_skip_len_spec n : g_sql_dkey_skip_len n = (n <? 2).
Proof. reflexivity. Qed.
Lemma g_sql_did_skip_len_spec n : g_sql_did_skip_len n = (n <? 2).
Proof. reflexivity. Qed.

Lemma k5_counted_always es : k5_counted es.
Proof.
  intros d n v rest _ _ _. rewrite g_sql_did_skip_len_spec, g_sql_dkey_skip_len_spec.
  assert (L : (zlen (n :: v :: rest) <? 2) = false).
  { apply Z.ltb_ge. unfold zlen. simpl length. lia. }
  rewrite L. auto.
Qed.

(** F7 repaired: the generated LIMIT (or WHERE 0) is the specified limit *)
Lemma g_sql_limit0_empty_spec p l : g_sql_limit0_empty p l = (p && (l =? 0)).
Proof. reflexivity. Qed.

Lemma limits_agree_always fs maxLimit :
  Forall (fun f => gate_valid_filter f = true) fs -> 0 < maxLimit <= NoLimit -> limits_agree fs maxLimit.
Proof.
  intros Gf Hml f Hf. rewrite Forall_forall in Gf.
  destruct (gate_valid_filter_facts f (Gf f Hf)) as [_ [_ [_ Hl]]].
  unfold sub_limit_of. rewrite g_sql_limit0_empty_spec.
  destruct (f_limit f) as [l|]; simpl.
  - specialize (Hl l eq_refl). destruct (l =? 0) eqn:L0.
    + apply Z.eqb_eq in L0. subst l. split; [|lia]. unfold spec_limit. f_equal. lia.
    + apply Z.eqb_neq in L0. split; [|apply goqu_limit_nonneg].
      unfold goqu_limit_of, eff_limit, spec_limit. rewrite g_sql_limit_present_spec, g_sql_has_limit_spec. simpl.
      assert (U : to_uint l = l). { unfold to_uint, two64, two63 in *. apply Z.mod_small. lia. }
      rewrite U. unfold NoLimit, two63 in *.
      destruct (Z.min maxLimit l =? 18446744073709551615) eqn:E; simpl; [apply Z.eqb_eq in E; lia|].
      destruct (0 <? Z.min maxLimit l) eqn:L; [now rewrite Z.min_comm | apply Z.ltb_ge in L; lia].
  - split; [|apply goqu_limit_nonneg].
    unfold goqu_limit_of, eff_limit, spec_limit. rewrite g_sql_limit_present_spec, g_sql_has_limit_spec. simpl.
    destruct (maxLimit =? NoLimit) eqn:E; simpl; [reflexivity|].
    destruct (0 <? maxLimit) eqn:L; [reflexivity | apply Z.ltb_ge in L; lia].
Qed.

(** C06 query_correct: for every batch history of gate-valid events with
    functional ids and every non-empty list of gate-valid filters - limit 0
    and deletion-request tags with extra elements included - the query over
    the tables answers exactly as specified *)
Theorem query_correct
  (xx : Z -> str -> Z) (md5 : str -> str) seed (h : list (list event)) fs maxLimit :
  no_collision xx md5 seed (concat h) fs ->
  gate_valid (concat h) -> ids_functional (concat h) ->
  e_refs_canonical (concat h) = true -> a_refs_scoped (concat h) = true ->
  fs <> [] -> Forall (fun f => gate_valid_filter f = true) fs -> 0 < maxLimit <= NoLimit ->
  exists out, query (run seed empty_db h) fs maxLimit = Some out /\ query_spec (concat h) fs maxLimit out.
Proof.
  intros NC G F Ec As Ne Gf Hml.
  apply (query_correct_history xx md5); auto.
  - apply k5_counted_always.
  - now apply limits_agree_always.
Qed.

(* ------------------------------------------------------------------ *)
(** * the oracle of the correspondence run and the model *)

Lemma gate_valid_limits fs : Forall (fun f => gate_valid_filter f = true) fs ->
  forall f l, In f fs -> f_limit f = Some l -> 0 <= l.
Proof.
  intros Gf f l Hf E. rewrite Forall_forall in Gf.
  destruct (gate_valid_filter_facts f (Gf f Hf)) as [_ [_ [_ Hl]]]. specialize (Hl l E). lia.
Qed.

(** C06 oracle_exact: on gate-valid filter lists the boolean oracle accepts an
    answer exactly when the property's statement holds of it - it never
    accepts an answer the property forbids and never rejects one it allows,
    also when a small maxLimit cuts the merged answer *)
Theorem oracle_exact es fs maxLimit out :
  Forall (fun f => gate_valid_filter f = true) fs -> 0 <= maxLimit ->
  (query_specb es fs maxLimit out = true <-> query_spec es fs maxLimit out).
Proof.
  intros Gf Hml. apply query_specb_spec; [assumption | now apply gate_valid_limits].
Qed.

(** C06 model_satisfies_oracle: under the hypotheses of [query_correct] the
    oracle accepts the model's answer, for every history and filter list: the
    check cannot raise a false alarm on an implementation that agrees with
    the model *)
Theorem model_satisfies_oracle
  (xx : Z -> str -> Z) (md5 : str -> str) seed (h : list (list event)) fs maxLimit :
  no_collision xx md5 seed (concat h) fs ->
  gate_valid (concat h) -> ids_functional (concat h) ->
  e_refs_canonical (concat h) = true -> a_refs_scoped (concat h) = true ->
  fs <> [] -> Forall (fun f => gate_valid_filter f = true) fs -> 0 < maxLimit <= NoLimit ->
  exists out, query (run seed empty_db h) fs maxLimit = Some out /\
              query_specb (concat h) fs maxLimit out = true.
Proof.
  intros NC G F Ec As Ne Gf Hml.
  destruct (query_correct xx md5 seed h fs maxLimit NC G F Ec As Ne Gf Hml) as [out [Q S]].
  exists out. split; [assumption|]. apply oracle_exact; [assumption | lia | assumption].
Qed.

(* ------------------------------------------------------------------ *)
(** * the store keyed by hash values *)

(** C06 hashed_query_correct: the statement of the property for the store as
    the implementation keeps it - 64-bit keys [key64 xx k], tag hashes [md5 s]
    (SqlHashed.v) - for any functions [xx], [md5] that do not collide on what
    the history and the filter list mention.  Here [no_collision] is used. *)
Theorem hashed_query_correct
  (xx : Z -> str -> Z) (md5 : str -> str) seed (h : list (list event)) fs maxLimit :
  no_collision xx md5 seed (concat h) fs ->
  gate_valid (concat h) -> ids_functional (concat h) ->
  e_refs_canonical (concat h) = true -> a_refs_scoped (concat h) = true ->
  fs <> [] -> Forall (fun f => gate_valid_filter f = true) fs -> 0 < maxLimit <= NoLimit ->
  exists out, query_h md5 (run_h xx md5 seed empty_db h) fs maxLimit = Some out /\
              query_spec (concat h) fs maxLimit out.
Proof.
  intros NC G F Ec As Ne Gf Hml.
  destruct (hashed_store_refines xx md5 seed h fs maxLimit NC) as [_ E]. rewrite E.
  now apply (query_correct xx md5).
Qed.

(* ------------------------------------------------------------------ *)
(** * the former witnesses now behave as specified *)

Definition w_pk : str := repeat 97%N 64.
Definition w_sig : str := repeat 48%N 128.
Definition w_id1 : str := repeat 49%N 64.
Definition w_id2 : str := repeat 50%N 64.
Definition w_id3 : str := repeat 51%N 64.
Definition w_relay : str := [119; 115; 115]%N.
Definition w_note : event := mkEvent w_id1 w_pk 1 1 [] [104; 105]%N w_sig.
Definition w_del3 : event := mkEvent w_id2 w_pk 2 5 [[s_e; w_id1; w_relay]] [] w_sig.
Definition w_meta1 : event := mkEvent w_id3 w_pk 1 0 [] [] w_sig.
Definition f_all : rfilter := empty_filter.
Definition f_limit0 : rfilter := mkFilter None None None None None None (Some 0).

Example limit0_selects_nothing : query (run 0 empty_db [[w_note]]) [f_limit0] NoLimit = Some [].
Proof. vm_compute. reflexivity. Qed.

Example three_element_tag_deletes :
  query (run 0 empty_db [[w_note; w_del3]]) [f_all] NoLimit = Some [w_del3].
Proof. vm_compute. reflexivity. Qed.

(** the hypotheses of [query_correct] are satisfiable on a history with a
    replaceable event, a note and a deletion request carrying a relay hint *)
Example query_correct_example :
  let h := [[w_meta1; w_note]; [w_del3]] in
  gate_valid (concat h) /\ ids_functional (concat h) /\
  e_refs_canonical (concat h) = true /\ a_refs_scoped (concat h) = true /\
  query (run 0 empty_db h) [f_all; f_limit0] NoLimit = Some [w_del3; w_meta1].
Proof.
  simpl. split; [repeat constructor|]. split.
  { intros x y Hx Hy E. simpl in Hx, Hy.
    destruct Hx as [<- |[<- |[<- |[]]]]; destruct Hy as [<- |[<- |[<- |[]]]];
      try reflexivity; vm_compute in E; discriminate. }
  split; [reflexivity|]. split; [reflexivity|]. vm_compute. reflexivity.
Qed.

(** [no_collision] is satisfiable: an injective positional encoding in place
    of xxHash32, the identity in place of MD5, on the history above *)
Definition ex_xx (sd : Z) (s : str) : Z := fold_left (fun acc c => acc * 257 + Z.of_N c + 1) s sd.

Example no_collision_example :
  no_collision ex_xx (fun s => s) 0 (concat [[w_meta1; w_note]; [w_del3]]) [f_all; f_limit0].
Proof.
  split.
  - intros a b Ha Hb E. vm_compute in Ha, Hb.
    destruct Ha as [<- |[<- |[<- |[]]]]; destruct Hb as [<- |[<- |[<- |[]]]];
      try reflexivity; vm_compute in E; discriminate.
  - intros a b Ha Hb E. exact E.
Qed.

Example hashed_query_example :
  query_h (fun s => s) (run_h ex_xx (fun s => s) 0 empty_db [[w_meta1; w_note]; [w_del3]]) [f_all; f_limit0] NoLimit
  = Some [w_del3; w_meta1].
Proof. vm_compute. reflexivity. Qed.
