(* RouterTrans.v — C07: the step function of Router.v as a labelled
   transition relation with one constructor per kind of atomic step, and the
   lemma that every step is a stutter or one of these transitions.  All
   invariant proofs go by cases on [trans]. *)
From Moc Require Import Base Match Router RouterLemmas.
From Moc.Gen Require Import GenRouter.
Open Scope Z_scope.

Definition is_reply_instr (i : instr) (m : smsg) : Prop :=
  match i with
  | IEose sub => m = MEose sub
  | ICount sub => m = MCount sub
  | IOk id => m = MOk id
  | _ => False
  end.

Inductive trans (s : rstate) : label -> rstate -> Prop :=
| T_op c o :
    c_pc (r_cs s c) = [] -> c_dead (r_cs s c) = false -> ~ In c (r_cancel s) ->
    trans s (LOp c o)
      (with_cs s (upd (r_cs s) c
         (mkC (program s c o) (c_q (r_cs s c)) (c_hand (r_cs s c)) (c_out (r_cs s c)) (c_rd (r_cs s c))
              (c_ctr (r_cs s c)) (is_disc o) (c_ops (r_cs s c) ++ [o]) (c_drops (r_cs s c)))))
| T_regadd c rest :
    c_pc (r_cs s c) = IRegAdd :: rest -> r_pubs s = [] ->
    trans s (LRun c) (mkR (r_buf s) (reg_set c [] (r_reg s)) (r_pubs s) (r_cancel s) (upd (r_cs s) c (set_pc (r_cs s c) rest)))
| T_subadd c sub fs rest m :
    c_pc (r_cs s c) = ISubAdd sub fs :: rest -> c_rd (r_cs s c) = [] -> reg_get c (r_reg s) = Some m ->
    trans s (LRun c)
      (mkR (r_buf s) (reg_set c (sm_set sub fs m) (r_reg s)) (r_pubs s) (r_cancel s) (upd (r_cs s) c (set_pc (r_cs s c) rest)))
| T_subadd_none c sub fs rest :
    c_pc (r_cs s c) = ISubAdd sub fs :: rest -> c_rd (r_cs s c) = [] -> reg_get c (r_reg s) = None ->
    trans s (LRun c) (with_cs s (upd (r_cs s) c (set_pc (r_cs s c) rest)))
| T_subdel c sub rest m :
    c_pc (r_cs s c) = ISubDel sub :: rest -> c_rd (r_cs s c) = [] -> reg_get c (r_reg s) = Some m ->
    trans s (LRun c)
      (mkR (r_buf s) (reg_set c (sm_del sub m) (r_reg s)) (r_pubs s) (r_cancel s) (upd (r_cs s) c (set_pc (r_cs s c) rest)))
| T_subdel_none c sub rest :
    c_pc (r_cs s c) = ISubDel sub :: rest -> c_rd (r_cs s c) = [] -> reg_get c (r_reg s) = None ->
    trans s (LRun c) (with_cs s (upd (r_cs s) c (set_pc (r_cs s c) rest)))
| T_reply c i rest m :
    c_pc (r_cs s c) = i :: rest -> is_reply_instr i m ->
    trans s (LRun c) (with_cs s (upd (r_cs s) c (push_out (set_pc (r_cs s c) rest) m)))
| T_pubbegin c e rest :
    c_pc (r_cs s c) = IPubBegin e :: rest ->
    trans s (LRun c)
      (mkR (r_buf s) (r_reg s) (c :: r_pubs s) (r_cancel s)
         (upd (r_cs s) c
            (mkC (IPub e (c, c_ctr (r_cs s c)) (List.map fst (r_reg s)) :: rest) (c_q (r_cs s c)) (c_hand (r_cs s c))
                 (c_out (r_cs s c)) (c_rd (r_cs s c)) (S (c_ctr (r_cs s c))) (c_dead (r_cs s c))
                 (c_ops (r_cs s c)) (c_drops (r_cs s c)))))
| T_pubend c e t rest :
    c_pc (r_cs s c) = IPub e t [] :: rest ->
    trans s (LRun c) (mkR (r_buf s) (r_reg s) (remove_conn c (r_pubs s)) (r_cancel s) (upd (r_cs s) c (set_pc (r_cs s c) rest)))
| T_visit l c c' ord e t rem rest :
    c_pc (r_cs s c) = IPub e t rem :: rest -> In c' rem ->
    (l = LVisit c c' ord \/ (l = LRun c /\ ord = [] /\ exists rem', rem = c' :: rem')) ->
    trans s l (start_visit s c c' ord e t rem rest)
| T_visitend c e t c' rest :
    c_pc (r_cs s c) = IVisit e t c' [] :: rest ->
    trans s (LRun c)
      (with_cs s (upd (upd (r_cs s) c (set_pc (r_cs s c) rest)) c'
         (set_rd (upd (r_cs s) c (set_pc (r_cs s c) rest) c')
                 (remove_conn c (c_rd (upd (r_cs s) c (set_pc (r_cs s c) rest) c'))))))
| T_send c e t c' sub fs todo rest :
    c_pc (r_cs s c) = IVisit e t c' ((sub, fs) :: todo) :: rest ->
    trans s (LRun c)
      (with_cs s (upd (upd (r_cs s) c (set_pc (r_cs s c) (IVisit e t c' todo :: rest))) c'
         (send_if_match (r_buf s) e t sub fs (upd (r_cs s) c (set_pc (r_cs s c) (IVisit e t c' todo :: rest)) c'))))
| T_unsuball c rest :
    c_pc (r_cs s c) = IUnsubAll :: rest -> r_pubs s = [] ->
    trans s (LRun c)
      (mkR (r_buf s) (reg_del c (r_reg s)) (r_pubs s) (r_cancel s)
         (upd (r_cs s) c
            (mkC rest [] None (c_out (r_cs s c)) (c_rd (r_cs s c)) (c_ctr (r_cs s c)) (c_dead (r_cs s c))
                 (c_ops (r_cs s c)) (c_drops (r_cs s c)))))
| T_take c m q' :
    c_dead (r_cs s c) = false -> c_hand (r_cs s c) = None -> c_q (r_cs s c) = m :: q' ->
    trans s (LTake c)
      (with_cs s (upd (r_cs s) c
         (mkC (c_pc (r_cs s c)) q' (Some m) (c_out (r_cs s c)) (c_rd (r_cs s c)) (c_ctr (r_cs s c))
              (c_dead (r_cs s c)) (c_ops (r_cs s c)) (c_drops (r_cs s c)))))
| T_deliver c m :
    c_dead (r_cs s c) = false -> c_hand (r_cs s c) = Some m ->
    trans s (LDeliver c)
      (with_cs s (upd (r_cs s) c
         (mkC (c_pc (r_cs s c)) (c_q (r_cs s c)) None (c_out (r_cs s c) ++ [m]) (c_rd (r_cs s c)) (c_ctr (r_cs s c))
              (c_dead (r_cs s c)) (c_ops (r_cs s c)) (c_drops (r_cs s c)))))
(* the session's context is cancelled while its recv loop is at work *)
| T_cancel c :
    c_pc (r_cs s c) <> [] -> c_dead (r_cs s c) = false -> ~ In c (r_cancel s) ->
    trans s (LOp c ODisc) (mkR (r_buf s) (r_reg s) (r_pubs s) (c :: r_cancel s) (r_cs s))
(* sendServerMsgCtx with a cancelled context: the reply is given up *)
| T_skip c i rest m :
    c_pc (r_cs s c) = i :: rest -> is_reply_instr i m -> In c (r_cancel s) ->
    trans s (LSkip c) (with_cs s (upd (r_cs s) c (set_pc (r_cs s c) rest)))
(* the loop notices the cancellation: ServeNostr returns, the deferred UnsubscribeAll is next *)
| T_defer c :
    c_pc (r_cs s c) = [] -> In c (r_cancel s) ->
    trans s (LRun c)
      (mkR (r_buf s) (r_reg s) (r_pubs s) (remove_conn c (r_cancel s))
         (upd (r_cs s) c
            (mkC [IUnsubAll] (c_q (r_cs s c)) (c_hand (r_cs s c)) (c_out (r_cs s c)) (c_rd (r_cs s c))
                 (c_ctr (r_cs s c)) true (c_ops (r_cs s c) ++ [ODisc]) (c_drops (r_cs s c))))).

Lemma pubs_nil (l : list conn) : match l with [] => true | _ => false end = true -> l = [].
Proof. destruct l; [reflexivity | discriminate]. Qed.

Lemma mem_conn_false c l : mem_conn c l = false <-> ~ In c l.
Proof. rewrite <- mem_conn_In. destruct (mem_conn c l); split; congruence. Qed.

Lemma is_reply_instrb_spec i : is_reply_instrb i = true -> exists m, is_reply_instr i m.
Proof. destruct i; cbn; try discriminate; eauto. Qed.

Lemma step_trans s l : step s l = s \/ trans s l (step s l).
Proof.
  unfold step. destruct (enabled s l) eqn:Hen; [|now left].
  destruct l as [c o|c|c c' ord|c|c|c]; cbn [step_enabled].
  - destruct (c_pc (r_cs s c)) eqn:Hpc.
    + destruct (c_dead (r_cs s c)) eqn:Hd; [now left|]. cbn [orb].
      destruct (mem_conn c (r_cancel s)) eqn:Hm; [now left|]. right. apply T_op; auto. now apply mem_conn_false.
    + destruct (is_disc o) eqn:Ho; [|now left]. destruct (c_dead (r_cs s c)) eqn:Hd; [now left|].
      destruct (mem_conn c (r_cancel s)) eqn:Hm; [now left|]. cbn [andb negb]. right.
      destruct o; try discriminate. apply T_cancel; [congruence | assumption | now apply mem_conn_false].
  - unfold run_instr. cbn [enabled] in Hen.
    destruct (c_pc (r_cs s c)) as [|i rest] eqn:Hpc.
    { destruct (mem_conn c (r_cancel s)) eqn:Hm; [|now left]. right. apply T_defer; [assumption | now apply mem_conn_In]. }
    right.
    destruct i.
    + apply T_regadd; [assumption | now apply pubs_nil].
    + destruct (reg_get c (r_reg s)) eqn:Hg.
      * eapply T_subadd; eauto. now apply pubs_nil.
      * eapply T_subadd_none; eauto. now apply pubs_nil.
    + eapply T_reply; [eassumption | reflexivity].
    + destruct (reg_get c (r_reg s)) eqn:Hg.
      * eapply T_subdel; eauto. now apply pubs_nil.
      * eapply T_subdel_none; eauto. now apply pubs_nil.
    + eapply T_reply; [eassumption | reflexivity].
    + now apply T_pubbegin.
    + destruct rem as [|c1 rem].
      * eapply T_pubend; eassumption.
      * eapply T_visit; [eassumption | now left | right; eauto].
    + destruct todo as [|[sub fs] todo].
      * eapply T_visitend; eassumption.
      * eapply T_send; eassumption.
    + eapply T_reply; [eassumption | reflexivity].
    + apply T_unsuball; [assumption | now apply pubs_nil].
  - destruct (c_pc (r_cs s c)) as [|i rest] eqn:Hpc; [now left|].
    destruct i; try (now left).
    destruct (mem_conn c' rem) eqn:Hm; [|now left]. right.
    eapply T_visit; [eassumption | now apply mem_conn_In | now left].
  - destruct (c_dead (r_cs s c)) eqn:Hd; [now left|].
    destruct (c_hand (r_cs s c)) eqn:Hh; [now left|].
    destruct (c_q (r_cs s c)) eqn:Hq; [now left|]. right.
    pose proof (T_take s c _ _ Hd Hh Hq) as T. rewrite Hd in T. exact T.
  - destruct (c_dead (r_cs s c)) eqn:Hd; [now left|].
    destruct (c_hand (r_cs s c)) eqn:Hh; [|now left]. right.
    pose proof (T_deliver s c _ Hd Hh) as T. rewrite Hd in T. exact T.
  - destruct (c_pc (r_cs s c)) as [|i rest] eqn:Hpc; [now left|].
    destruct (mem_conn c (r_cancel s)) eqn:Hm; [|now left]. destruct (is_reply_instrb i) eqn:Hi; [|now left].
    cbn [andb]. right. destruct (is_reply_instrb_spec i Hi) as [m Hm'].
    eapply T_skip; [eassumption | eassumption | now apply mem_conn_In].
Qed.

(** proving an invariant: it holds initially and every transition keeps it *)
Lemma reachable_ind' (P : rstate -> Prop) buf :
  P (r_init buf) ->
  (forall s l s', reachable buf s -> P s -> trans s l s' -> P s') ->
  forall s, reachable buf s -> P s.
Proof.
  intros H0 Hs s R. induction R as [|s l R IH]; [assumption|].
  destruct (step_trans s l) as [E|T]; [now rewrite E | eapply Hs; eauto].
Qed.

(** likewise along a trace, for a property that may depend on the labels *)
Lemma run_ind' (P : rstate -> Prop) (ok : label -> bool) :
  (forall s l s', P s -> ok l = true -> trans s l s' -> P s') ->
  forall tr s, P s -> Forall (fun l => ok l = true) tr -> P (run s tr).
Proof.
  intros Hs tr. induction tr as [|l tr IH]; intros s H F; [assumption|].
  inversion F as [|? ? Hl F']; subst. rewrite run_cons. apply IH; [|assumption].
  destruct (step_trans s l) as [E|T]; [now rewrite E | eapply Hs; eauto].
Qed.
