(* Proofs about joint observations (MergeJoint.v): when the model reproduces
   every group's joint observation, the attribution computed by [joint_split]
   is a trace the model reproduces step by step, over exactly the inputs of the
   groups in order.  The oracle theorems for step-by-step traces then apply. *)
From Coq Require Import List Bool Lia.
From Moc Require Import Base Match Merge MergeOracleProofs MergeJoint.
Import ListNotations.
Open Scope Z_scope.

Lemma list_eqb_smsg_refl (l : list smsg) : list_eqb smsg_eqb l l = true.
Proof. induction l as [|m l IH]; cbn [list_eqb]; [reflexivity|]. now rewrite smsg_eqb_refl, IH. Qed.

Lemma run_group_inputs : forall xs s s2 r ok,
  run_group s xs = (s2, r, ok) -> map fst r = xs.
Proof.
  induction xs as [|x xs IH]; intros s s2 r ok H; cbn [run_group] in H.
  - inversion H; reflexivity.
  - destruct (merge_step s x) as [s1 o] eqn:Es.
    destruct (run_group s1 xs) as [[s3 r3] ok3] eqn:Er.
    inversion H; subst. cbn [map fst]. f_equal. eapply IH; eassumption.
Qed.

Lemma run_group_agrees : forall xs s s2 r rest,
  run_group s xs = (s2, r, true) ->
  model_agrees s (r ++ rest) = model_agrees s2 rest.
Proof.
  induction xs as [|x xs IH]; intros s s2 r rest H; cbn [run_group] in H.
  - inversion H; subst. reflexivity.
  - destruct (merge_step s x) as [s1 o] eqn:Es.
    destruct (run_group s1 xs) as [[s3 r3] ok3] eqn:Er.
    inversion H as [[H1 H2 H3]]; subst s3 r.
    apply andb_true_iff in H3 as [Hd Hok]. subst ok3.
    cbn [app model_agrees]. rewrite Es, Hd. cbn [andb].
    rewrite list_eqb_smsg_refl. cbn [andb]. eapply IH; eassumption.
Qed.

Lemma joint_split_agrees : forall t s tr,
  joint_split s t = (true, tr) ->
  model_agrees s tr = true /\ map fst tr = concat (map fst t).
Proof.
  induction t as [|[xs obs] t IH]; intros s tr H; cbn [joint_split] in H.
  - inversion H; subst. split; reflexivity.
  - destruct (run_group s xs) as [[s1 r] ok] eqn:Er.
    destruct (joint_split s1 t) as [a' r'] eqn:Ej.
    injection H as Ha Htr.
    apply andb_true_iff in Ha as [Hagree Ha']. subst a'.
    rewrite Hagree in Htr. subst tr.
    apply andb_true_iff in Hagree as [Hok _]. subst ok.
    destruct (IH _ _ Ej) as [IH1 IH2].
    split.
    + rewrite (run_group_agrees _ _ _ _ r' Er). exact IH1.
    + rewrite map_app, IH2, (run_group_inputs _ _ _ _ _ Er). reflexivity.
Qed.
