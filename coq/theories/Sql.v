(* Sql.v — C06 / C14: relational model of handler/sqlite (insert.go, query.go,
   migrate.go).  Definitions only; proofs are in SqlProofs.v.

   Tables are lists of rows.  The 64-bit event keys (two xxHash32 values) and
   the MD5 tag hashes are modelled by their PRE-IMAGES: a key is the seed plus
   the strings that are hashed, a tag hash is the concatenated string
   name ++ value.  This is faithful exactly when the hash functions are
   injective on the strings that occur ([no_collision], SqlSpec.v).

   The model follows the code that exists:
   - [get_event_key]      getEventKey (incl. the uint32 truncation of created_at)
   - [insert_params]      buildInsertEventsParams (events whose hex fields do
                          not decode are skipped)
   - [upsert]/[upsert_guard]  insertEventsQuery (text pinned: g_sql_text_insert_events)
   - triggers             tr_event_payloads_update / tr_event_tags_update
   - [tag_rows_of]        buildInsertEventsParamsTags
   - [k5_dkeys]/[k5_dids] buildInsertEventsParamsDeletedEventKeys / ...IDs
   - [insert_event]       the loop body of insertEvents with the
                          `affected == 0 -> continue` short-cut
   - [sub_select]/[query] buildEventQuery as relational algebra
   - [goqu_limit_of]      appendLimitQuery + goqu's Limit; [sub_limit_of] (MODEL-F7 below)
   - [insert_batch_faulty], [open_db], [reopen]   C14 *)
From Moc Require Import Base Match.
From Moc.Gen Require Import GenMsg GenSql.
Open Scope Z_scope.

(* ------------------------------------------------------------------ *)
(** * Keys, hex blobs, small helpers *)

(** vm_compute is call-by-value: [a && b] evaluates [b] even when [a] is
    false.  The evaluators below use these short-circuit forms; they are
    [andb] / [orb] (lemmas [land_andb], [lor_orb] in SqlProofs.v). *)
Notation "a &&& b" := (if a then b else false) (at level 40, left associativity).
Notation "a ||| b" := (if a then true else b) (at level 50, left associativity).

(** pre-image of the 64-bit event key:
    regular      int64(uint32(created_at))<<32 | xx(seed, id)
    (param)replaceable / tombstone  xx(seed, pubkey-part)<<32 | xx(seed, address) *)
Inductive ekey :=
| KReg (seed ts32 : Z) (id : str)
| KAddr (seed : Z) (pkpart addr : str).

Definition ekey_eqb (a b : ekey) : bool :=
  match a, b with
  | KReg s1 t1 i1, KReg s2 t2 i2 => (s1 =? s2) &&& (t1 =? t2) &&& str_eqb i1 i2
  | KAddr s1 p1 a1, KAddr s2 p2 a2 => (s1 =? s2) &&& str_eqb a1 a2 &&& str_eqb p1 p2
  | _, _ => false
  end.

Definition mem_key (k : ekey) (l : list ekey) : bool := existsb (ekey_eqb k) l.

(** hex.DecodeString succeeds on even-length strings of hex digits (either
    case); a decoded blob is represented by its lower-case hex text (what
    hex.EncodeToString gives back) *)
Definition is_hex_char (c : N) : bool :=
  ((48 <=? c) && (c <=? 57) || (97 <=? c) && (c <=? 102) || (65 <=? c) && (c <=? 70))%N.

Fixpoint even_len {A} (l : list A) : bool :=
  match l with
  | [] => true
  | [_] => false
  | _ :: _ :: l' => even_len l'
  end.

Definition hex_ok (s : str) : bool := even_len s &&& forallb is_hex_char s.

Definition lower_char (c : N) : N := (if (65 <=? c) && (c <=? 70) then c + 32 else c)%N.
Definition hexl (s : str) : str := List.map lower_char s.

(** strings.Split(s, ":") *)
Fixpoint split_colon (s : str) : list str :=
  match s with
  | [] => [[]]
  | c :: s' =>
      if N.eqb c colon then [] :: split_colon s'
      else match split_colon s' with
           | [] => [[c]]
           | h :: t => (c :: h) :: t
           end
  end.

Definition zlen {A} (l : list A) : Z := Z.of_nat (length l).

Definition two32 : Z := 4294967296.
Definition two63 : Z := 9223372036854775808.
Definition two64 : Z := 18446744073709551616.
(** NoLimit = math.MaxUint *)
Definition NoLimit : Z := 18446744073709551615.
(** Go conversions int64 -> uint and uint -> int64 *)
Definition to_uint (z : Z) : Z := z mod two64.
Definition to_int64 (z : Z) : Z := let m := z mod two64 in if m <? two63 then m else m - two64.

Definition s_d : str := [100]%N.   (* "d" *)

(* ------------------------------------------------------------------ *)
(** * Rows and the database *)

Record erow := mkERow { r_key : ekey; r_id : str; r_pk : str; r_ts : Z; r_kind : Z }.
Record prow := mkPRow { p_key : ekey; p_tags : list tag; p_content : str; p_sig : str }.
Record trow := mkTRow { t_hash : str; t_ts : Z; t_key : ekey }.

Record db := mkDb {
  d_seed : option Z;                 (* table xxhash_seed: empty or one row *)
  d_events : list erow;
  d_payloads : list prow;
  d_tags : list trow;
  d_dkeys : list (ekey * str);       (* deleted_event_keys (event_key, pubkey) *)
  d_dids : list (str * str)          (* deleted_event_ids (id, pubkey) *)
}.

Definition empty_db : db := mkDb None [] [] [] [] [].

Definition trow_eqb (a b : trow) : bool :=
  str_eqb (t_hash a) (t_hash b) &&& (t_ts a =? t_ts b) &&& ekey_eqb (t_key a) (t_key b).

(* ------------------------------------------------------------------ *)
(** * getEventKey *)

Definition is_d_tag (t : tag) : bool :=
  match t with
  | n :: _ => str_eqb n s_d
  | [] => false
  end.

(** slices.IndexFunc *)
Fixpoint index_of {A} (p : A -> bool) (l : list A) (i : Z) : Z :=
  match l with
  | [] => -1
  | x :: l' => if p x then i else index_of p l' (i + 1)
  end.

Definition addr2 (kind : Z) (pk : str) : str := showZ kind ++ [colon] ++ pk.
Definition addr3 (kind : Z) (pk d : str) : str := showZ kind ++ [colon] ++ pk ++ [colon] ++ d.

Definition get_event_key (seed : Z) (e : event) : option ekey :=
  let ty := g_event_type (ev_kind e) in
  if ty =? 1 then Some (KReg seed (ev_ts e mod two32) (ev_id e))
  else if ty =? 2 then Some (KAddr seed (ev_pk e) (addr2 (ev_kind e) (ev_pk e)))
  else if ty =? 4 then
    if g_sql_no_d_tag (index_of is_d_tag (ev_tags e) 0) then None
    else match find is_d_tag (ev_tags e) with
         | None => None
         | Some t =>
             let d := if g_sql_d_has_value (zlen t) then tag_value t else [] in
             Some (KAddr seed (ev_pk e) (addr3 (ev_kind e) (ev_pk e) d))
         end
  else None.

(* ------------------------------------------------------------------ *)
(** * Parameters of one event *)

Definition row_of (k : ekey) (e : event) : erow :=
  mkERow k (hexl (ev_id e)) (hexl (ev_pk e)) (ev_ts e) (ev_kind e).

Definition prow_of (k : ekey) (e : event) : prow :=
  mkPRow k (ev_tags e) (ev_content e) (hexl (ev_sig e)).

Fixpoint dedup {A} (eqb : A -> A -> bool) (l : list A) (seen : list A) : list A :=
  match l with
  | [] => []
  | x :: l' => if existsb (eqb x) seen then dedup eqb l' seen else x :: dedup eqb l' (x :: seen)
  end.

(** buildInsertEventsParamsTags: one row per tag whose name is a single ASCII
    letter; hash pre-image name ++ value; duplicates dropped *)
Definition tag_row (k : ekey) (ts : Z) (t : tag) : list trow :=
  if g_sql_tag_empty (zlen t) then []
  else match t with
       | [] => []
       | n :: _ =>
           if g_sql_tag_name_len_bad (zlen n) then []
           else match n with
                | [] => []
                | c :: _ =>
                    if g_sql_tag_name_not_letter (Z.of_N c) then []
                    else
                      let v := if g_sql_tag_has_value (zlen t) then tag_value t else [] in
                      [mkTRow (n ++ v) ts k]
                end
       end.

Definition tag_rows_of (k : ekey) (e : event) : list trow :=
  dedup trow_eqb (flat_map (tag_row k (ev_ts e)) (ev_tags e)) [].

(** buildInsertEventsParamsDeletedEventKeys *)
Definition k5_dkey_of_tag (seed : Z) (pk : str) (t : tag) : list (ekey * str) :=
  if g_sql_dkey_skip_len (zlen t) then []
  else match t with
       | [] => []
       | n :: _ =>
           if g_sql_dkey_skip_name n then []
           else
             let elems := split_colon (tag_value t) in
             if g_sql_dkey_elems_short (zlen elems) then []
             else [(KAddr seed (nth 1 elems []) (tag_value t), hexl pk)]
       end.

Definition k5_dkeys (seed : Z) (e : event) : list (ekey * str) :=
  if g_sql_dkey_not_k5 (ev_kind e) then []
  else flat_map (k5_dkey_of_tag seed (ev_pk e)) (ev_tags e).

(** buildInsertEventsParamsDeletedEventIDs *)
Definition k5_did_of_tag (pk : str) (t : tag) : list (str * str) :=
  if g_sql_did_skip_len (zlen t) then []
  else match t with
       | [] => []
       | n :: _ =>
           if g_sql_did_skip_name n then []
           else if hex_ok (tag_value t) then [(hexl (tag_value t), hexl pk)] else []
       end.

Definition k5_dids (e : event) : list (str * str) :=
  if g_sql_did_not_k5 (ev_kind e) then []
  else flat_map (k5_did_of_tag (ev_pk e)) (ev_tags e).

(** buildInsertEventsParams: [None] = the event is skipped (no key, or one of
    id / pubkey / sig is not hex) *)
Definition insert_params (seed : Z) (e : event) : option (ekey * event) :=
  match get_event_key seed e with
  | None => None
  | Some k => if hex_ok (ev_id e) &&& hex_ok (ev_pk e) &&& hex_ok (ev_sig e) then Some (k, e) else None
  end.

Fixpoint filter_map {A B} (f : A -> option B) (l : list A) : list B :=
  match l with
  | [] => []
  | x :: l' => match f x with Some y => y :: filter_map f l' | None => filter_map f l' end
  end.

(* ------------------------------------------------------------------ *)
(** * The five statements *)

(** the `where` of `on conflict(event_key) do update` (insertEventsQuery):
    events.id <> excluded.id and (kind ranges of the EXISTING row) and
    events.created_at < excluded.created_at *)
Definition sql_kind_replaceable (k : Z) : bool :=
  (k =? 0) || (k =? 3) || ((10000 <=? k) && (k <? 20000)) || ((30000 <=? k) && (k <? 40000)).

Definition upsert_guard (old new : erow) : bool :=
  negb (str_eqb (r_id old) (r_id new)) && sql_kind_replaceable (r_kind old) && (r_ts old <? r_ts new).

Inductive upres := UInserted | UUpdated (old : erow) | UNone.

Fixpoint upsert (rows : list erow) (new : erow) : list erow * upres :=
  match rows with
  | [] => ([new], UInserted)
  | r :: rest =>
      if ekey_eqb (r_key r) (r_key new) then
        if upsert_guard r new then (new :: rest, UUpdated r) else (r :: rest, UNone)
      else let '(rest', u) := upsert rest new in (r :: rest', u)
  end.

(** `on conflict (...) do nothing` on a table whose primary key is the whole row *)
Definition set_add {A} (eqb : A -> A -> bool) (x : A) (l : list A) : list A :=
  if existsb (eqb x) l then l else l ++ [x].

Definition dkey_eqb (a b : ekey * str) : bool := str_eqb (snd a) (snd b) &&& ekey_eqb (fst a) (fst b).
Definition did_eqb (a b : str * str) : bool := str_eqb (fst a) (fst b) &&& str_eqb (snd a) (snd b).

(** loop body of insertEvents for one parameter set; the second component is
    the number of statement executions (driver calls) it made *)
Definition insert_event (seed : Z) (s : db) (ke : ekey * event) : db * nat :=
  let '(k, e) := ke in
  let '(evs, u) := upsert (d_events s) (row_of k e) in
  (* after-update triggers *)
  let pls := match u with
             | UUpdated old => filter (fun p => negb (ekey_eqb (p_key p) (r_key old))) (d_payloads s)
             | _ => d_payloads s
             end in
  let tgs := match u with
             | UUpdated old => filter (fun t => negb (ekey_eqb (t_key t) (r_key old))) (d_tags s)
             | _ => d_tags s
             end in
  let affected := match u with UNone => 0 | _ => 1 end in
  if g_sql_unaffected affected then (mkDb (d_seed s) evs pls tgs (d_dkeys s) (d_dids s), 1%nat)
  else
    let trs := tag_rows_of k e in
    let dks := k5_dkeys seed e in
    let dis := k5_dids e in
    (mkDb (d_seed s) evs (pls ++ [prow_of k e]) (tgs ++ trs)
          (fold_left (fun l x => set_add dkey_eqb x l) dks (d_dkeys s))
          (fold_left (fun l x => set_add did_eqb x l) dis (d_dids s)),
     (2 + length trs + length dks + length dis)%nat).

Definition insert_events (seed : Z) (s : db) (ps : list (ekey * event)) : db * nat :=
  fold_left (fun (acc : db * nat) ke =>
               let '(s', n) := insert_event seed (fst acc) ke in (s', (snd acc + n)%nat))
            ps (s, 0%nat).

(** insertEvents without faults: one transaction, committed *)
Definition insert_batch (seed : Z) (s : db) (b : list event) : db :=
  let ps := filter_map (insert_params seed) b in
  if g_sql_no_params (zlen ps) then s else fst (insert_events seed s ps).

(** number of driver calls of a batch: begin, five prepares, the statement
    executions, commit (none at all when every event is skipped) *)
Definition batch_calls (seed : Z) (s : db) (b : list event) : nat :=
  let ps := filter_map (insert_params seed) b in
  if g_sql_no_params (zlen ps) then 0%nat else (1 + 5 + snd (insert_events seed s ps) + 1)%nat.

(** a fault at driver call [k] (0-based) makes insertEvents return an error
    and roll back: ASSUMPTION (SQLite's contract, not proved): a rolled-back
    transaction leaves every table as it was *)
Definition insert_batch_faulty (seed : Z) (s : db) (b : list event) (k : nat) : db :=
  if (k <? batch_calls seed s b)%nat then s else insert_batch seed s b.

Definition run (seed : Z) (s : db) (h : list (list event)) : db :=
  fold_left (insert_batch seed) h s.

(* ------------------------------------------------------------------ *)
(** * Opening the database (migrate.go setOrLoadXXHashSeed) *)

Record handle := mkHandle { h_db : db; h_seed : Z }.

(** [rnd] is what rand.Uint32() returns if it is called *)
Definition open_db (d : db) (rnd : Z) : handle :=
  match d_seed d with
  | Some sd => mkHandle d sd
  | None =>
      if g_sql_seed_generate true
      then mkHandle (mkDb (Some rnd) (d_events d) (d_payloads d) (d_tags d) (d_dkeys d) (d_dids d)) rnd
      else mkHandle d 0     (* error path: not reached on the pinned tree *)
  end.

Definition close_db (h : handle) : db := h_db h.
Definition reopen (h : handle) (rnd : Z) : handle := open_db (close_db h) rnd.

Definition h_insert (h : handle) (b : list event) : handle :=
  mkHandle (insert_batch (h_seed h) (h_db h) b) (h_seed h).

(* ------------------------------------------------------------------ *)
(** * Queries (query.go) *)

(** effective limit of appendLimitQuery: l := maxLimit; if limit != nil { l = min(l, uint( *limit)) } *)
Definition eff_limit (limit : option Z) (maxLimit : Z) : Z :=
  if g_sql_limit_present (isSome limit)
  then Z.min maxLimit (to_uint (match limit with Some l => l | None => 0 end))
  else maxLimit.

(** appendLimitQuery's `if l != NoLimit { b = b.Limit(l) }` together with goqu
    v9.19 SelectDataset.Limit:
        if limit > 0 { SetLimit(limit) } else { ClearLimit() }
    [None] = the generated SQL has no LIMIT clause.  An effective limit of 0
    therefore yields NO limit. *)
Definition goqu_limit_of (limit : option Z) (maxLimit : Z) : option Z :=
  let l := eff_limit limit maxLimit in
  if g_sql_has_limit l NoLimit then (if 0 <? l then Some l else None) else None.

(* MODEL-F7 begin — the LIMIT of a filter's sub-select in buildEventQuery:
   appendLimitQuery, and (the repair of F7)
       if f.Limit != nil && *f.Limit == 0 { sub = sub.Where(goqu.L("0")) }
   a WHERE 0 selects no row, which is what LIMIT 0 means. *)
Definition sub_limit_of (limit : option Z) (maxLimit : Z) : option Z :=
  if g_sql_limit0_empty (isSome limit) (match limit with Some l => l | None => 0 end)
  then Some 0 else goqu_limit_of limit maxLimit.
(* MODEL-F7 end *)

Fixpoint firstnZ {A} (l : Z) (rows : list A) : list A :=
  match rows with
  | [] => []
  | x :: r => if 0 <? l then x :: firstnZ (l - 1) r else []
  end.

Definition apply_limit {A} (lim : option Z) (rows : list A) : list A :=
  match lim with
  | None => rows
  | Some l => firstnZ l rows
  end.

(** ORDER BY created_at DESC (stable; the order among equal timestamps is
    SQLite's and is never compared) *)
Fixpoint insert_desc {A} (ts : A -> Z) (x : A) (l : list A) : list A :=
  match l with
  | [] => [x]
  | y :: l' => if ts y <=? ts x then x :: y :: l' else y :: insert_desc ts x l'
  end.

Definition sort_desc {A} (ts : A -> Z) (l : list A) : list A := fold_right (insert_desc ts) [] l.

(** the two `not exists` tombstone tests *)
Definition tomb_free (s : db) (r : erow) : bool :=
  negb (existsb (fun d => str_eqb (snd d) (r_pk r) &&& ekey_eqb (fst d) (r_key r)) (d_dkeys s)) &&&
  negb (existsb (fun d => str_eqb (fst d) (r_id r) &&& str_eqb (snd d) (r_pk r)) (d_dids s)).

(** number of rows of `events AS x` joined ON (event_key, created_at) and
    satisfying [p] *)
Definition self_join_count (s : db) (r : erow) (p : erow -> bool) : nat :=
  length (filter (fun r' => (r_ts r' =? r_ts r) &&& ekey_eqb (r_key r') (r_key r) &&& p r') (d_events s)).

(** number of rows of `event_tags AS etag<key>` joined ON (event_key,
    created_at) whose hash is in the list *)
Definition tag_join_count (s : db) (r : erow) (hashes : list str) : nat :=
  length (filter (fun t => (t_ts t =? r_ts r) &&& ekey_eqb (t_key t) (r_key r) &&& mem_str (t_hash t) hashes)
                 (d_tags s)).

Definition opt_count {A} (o : option A) (f : A -> nat) : nat :=
  match o with None => 1%nat | Some x => f x end.

Definition decode_all (l : option (list str)) : option (option (list str)) :=
  match l with
  | None => Some None
  | Some xs => if forallb hex_ok xs then Some (Some (List.map hexl xs)) else None
  end.

Definition since_ok (f : rfilter) (ts : Z) : bool :=
  if g_sql_since_present (isSome (f_since f))
  then g_sql_since_ok ts (match f_since f with Some b => b | None => 0 end) else true.

Definition until_ok (f : rfilter) (ts : Z) : bool :=
  if g_sql_until_present (isSome (f_until f))
  then g_sql_until_ok ts (match f_until f with Some b => b | None => 0 end) else true.

(** rows of the sub-select before DISTINCT / ORDER BY / LIMIT, with the
    multiplicities the joins give *)
Definition sub_mult (s : db) (f : rfilter) (ids authors : option (list str)) (r : erow) : nat :=
  (opt_count ids (fun l => self_join_count s r (fun r' => mem_str (r_id r') l)) *
   opt_count authors (fun l => self_join_count s r (fun r' => mem_str (r_pk r') l)) *
   opt_count (f_kinds f) (fun l => self_join_count s r (fun r' => mem_Z (r_kind r') l)) *
   opt_count (f_tags f) (fun m =>
      fold_right (fun nv acc => (tag_join_count s r (List.map (fun v => fst nv ++ v) (snd nv)) * acc)%nat) 1%nat m))%nat.

Definition sub_rows (s : db) (f : rfilter) (ids authors : option (list str)) : list erow :=
  flat_map (fun r => if since_ok f (r_ts r) &&& until_ok f (r_ts r) &&& tomb_free s r
                     then repeat r (sub_mult s f ids authors r) else [])
           (d_events s).

Definition erow_key_eqb (a b : erow) : bool := ekey_eqb (r_key a) (r_key b).

(** the candidate rows of one filter: after DISTINCT (present iff the filter
    has a tag map), before ORDER BY / LIMIT.  [None]: an id or author of the
    filter is not hex (buildEventQuery returns an error) *)
Definition sub_candidates (s : db) (f : rfilter) : option (list erow) :=
  match decode_all (f_ids f), decode_all (f_authors f) with
  | Some ids, Some authors =>
      let rows := sub_rows s f ids authors in
      Some (if isSome (f_tags f) then dedup erow_key_eqb rows [] else rows)
  | _, _ => None
  end.

Definition sub_select (s : db) (maxLimit : Z) (f : rfilter) : option (list ekey) :=
  match sub_candidates s f with
  | None => None
  | Some rows =>
      Some (List.map r_key (apply_limit (sub_limit_of (f_limit f) maxLimit) (sort_desc r_ts rows)))
  end.

Fixpoint all_some {A} (l : list (option A)) : option (list A) :=
  match l with
  | [] => Some []
  | None :: _ => None
  | Some x :: l' => match all_some l' with Some r => Some (x :: r) | None => None end
  end.

Definition event_of_row (r : erow) (p : prow) : event :=
  mkEvent (r_id r) (r_pk r) (r_ts r) (r_kind r) (p_tags p) (p_content p) (p_sig p).

(** events JOIN event_payloads ON event_key *)
Definition join_payloads (s : db) (rows : list erow) : list (erow * prow) :=
  flat_map (fun r => List.map (fun p => (r, p)) (filter (fun p => ekey_eqb (p_key p) (r_key r)) (d_payloads s))) rows.

(** queryEvent: [None] = error.  With an empty filter list goqu.Or() is empty
    and the WHERE clause disappears: every row is returned, tombstoned or not
    (the gate never passes an empty list). *)
Definition query (s : db) (fs : list rfilter) (maxLimit : Z) : option (list event) :=
  match all_some (List.map (sub_select s maxLimit) fs) with
  | None => None
  | Some subs =>
      let rows := match fs with
                  | [] => d_events s
                  | _ => filter (fun r => existsb (mem_key (r_key r)) subs) (d_events s)
                  end in
      let joined := sort_desc (fun rp => r_ts (fst rp)) (join_payloads s rows) in
      let lim := goqu_limit_of (Some (to_int64 maxLimit)) maxLimit in
      Some (List.map (fun rp => event_of_row (fst rp) (snd rp)) (apply_limit lim joined))
  end.
