(* RouterEnv.v — C07: what a transition can do to the parts of the state that
   other connections' invariants mention (registry entries, reader sets). *)
From Moc Require Import Base Match Router RouterLemmas RouterFrame RouterTrans RouterData.
From Moc.Gen Require Import GenRouter.
Open Scope Z_scope.

Lemma rd_upd_pc f c pc x : c_rd (upd f c (set_pc (f c) pc) x) = c_rd (f x).
Proof. destruct (upd_cases f c (set_pc (f c) pc) x) as [[-> ->]|[_ ->]]; reflexivity. Qed.

(** how the reader set of connection [y]'s inner map changes *)
Inductive rdchange (s : rstate) (l : label) (y : conn) (r r' : list conn) : Prop :=
| R_same : r' = r -> rdchange s l y r r'
| R_enter c e t rem rest :
    label_of_conn c l = true -> c_pc (r_cs s c) = IPub e t rem :: rest -> In y rem -> r' = c :: r -> rdchange s l y r r'
| R_leave c e t rest :
    l = LRun c -> c_pc (r_cs s c) = IVisit e t y [] :: rest -> r' = remove_conn c r -> rdchange s l y r r'.

Lemma rd_trans s l s' y : trans s l s' -> rdchange s l y (c_rd (r_cs s y)) (c_rd (r_cs s' y)).
Proof.
  intro T. inversion T; subst; cbn [r_cs with_cs].
  - apply R_same. destruct (upd_cases (r_cs s) c
      (mkC (program s c o) (c_q (r_cs s c)) (c_hand (r_cs s c)) (c_out (r_cs s c)) (c_rd (r_cs s c))
           (c_ctr (r_cs s c)) (is_disc o) (c_ops (r_cs s c) ++ [o]) (c_drops (r_cs s c))) y) as [[-> ->]|[_ ->]]; reflexivity.
  - apply R_same, rd_upd_pc.
  - apply R_same, rd_upd_pc.
  - apply R_same, rd_upd_pc.
  - apply R_same, rd_upd_pc.
  - apply R_same, rd_upd_pc.
  - apply R_same. match goal with |- c_rd (upd ?f ?k ?v y) = _ => destruct (upd_cases f k v y) as [[-> ->]|[_ ->]] end; reflexivity.
  - apply R_same. match goal with |- c_rd (upd ?f ?k ?v y) = _ => destruct (upd_cases f k v y) as [[-> ->]|[_ ->]] end; reflexivity.
  - apply R_same, rd_upd_pc.
  - unfold start_visit. cbn [r_cs with_cs].
    match goal with |- rdchange _ _ _ _ (c_rd (upd ?f ?k ?v y)) => destruct (upd_cases f k v y) as [[-> ->]|[_ ->]] end.
    + eapply R_enter; [|eassumption|assumption|].
      * destruct H1 as [->|[-> _]]; cbn; apply Nat.eqb_refl.
      * cbn. now rewrite rd_upd_pc.
    + apply R_same, rd_upd_pc.
  - match goal with |- rdchange _ _ _ _ (c_rd (upd ?f ?k ?v y)) => destruct (upd_cases f k v y) as [[-> ->]|[_ ->]] end.
    + eapply R_leave; [reflexivity | eassumption |]. cbn. now rewrite rd_upd_pc.
    + apply R_same, rd_upd_pc.
  - apply R_same.
    match goal with |- c_rd (upd ?f ?k ?v y) = _ => destruct (upd_cases f k v y) as [[-> ->]|[_ ->]] end.
    + rewrite send_if_match_rd. apply rd_upd_pc.
    + apply rd_upd_pc.
  - apply R_same. match goal with |- c_rd (upd ?f ?k ?v y) = _ => destruct (upd_cases f k v y) as [[-> ->]|[_ ->]] end; reflexivity.
  - apply R_same. match goal with |- c_rd (upd ?f ?k ?v y) = _ => destruct (upd_cases f k v y) as [[-> ->]|[_ ->]] end; reflexivity.
  - apply R_same. match goal with |- c_rd (upd ?f ?k ?v y) = _ => destruct (upd_cases f k v y) as [[-> ->]|[_ ->]] end; reflexivity.
  - now apply R_same.
  - apply R_same, rd_upd_pc.
  - apply R_same. match goal with |- c_rd (upd ?f ?k ?v y) = _ => destruct (upd_cases f k v y) as [[-> ->]|[_ ->]] end; reflexivity.
Qed.

(** a reader other than the acting connection stays a reader *)
Lemma env_rd s l s' x y : trans s l s' -> l <> LRun x -> In x (c_rd (r_cs s y)) -> In x (c_rd (r_cs s' y)).
Proof.
  intros T Hl Hin. destruct (rd_trans s l s' y T) as [E|c e t rem rest _ _ _ E|c e t rest El _ E]; rewrite E.
  - assumption.
  - now right.
  - apply remove_conn_In. split; [|assumption]. intro; subst. now apply Hl.
Qed.

(** the reader set of the outer map *)
Lemma pubs_trans s l s' :
  trans s l s' ->
  r_pubs s' = r_pubs s \/
  (exists c e rest, l = LRun c /\ c_pc (r_cs s c) = IPubBegin e :: rest /\ r_pubs s' = c :: r_pubs s) \/
  (exists c e t rest, l = LRun c /\ c_pc (r_cs s c) = IPub e t [] :: rest /\ r_pubs s' = remove_conn c (r_pubs s)).
Proof.
  intro T. inversion T; subst; cbn; try (now left).
  - right; left. exists c, e, rest. auto.
  - right; right. exists c, e, t, rest. auto.
Qed.

Lemma env_pubs s l s' x : trans s l s' -> l <> LRun x -> In x (r_pubs s) -> In x (r_pubs s').
Proof.
  intros T Hl Hin. destruct (pubs_trans s l s' T) as [E|[(c & e & rest & El & _ & E)|(c & e & t & rest & El & _ & E)]]; rewrite E.
  - assumption.
  - now right.
  - apply remove_conn_In. split; [|assumption]. intro; subst. now apply Hl.
Qed.

(** the registry *)
Lemma reg_trans s l s' :
  trans s l s' ->
  r_reg s' = r_reg s \/
  (exists c, l = LRun c /\ r_pubs s = [] /\
             (r_reg s' = reg_set c [] (r_reg s) \/ r_reg s' = reg_del c (r_reg s))) \/
  (exists c m m', l = LRun c /\ c_rd (r_cs s c) = [] /\ reg_get c (r_reg s) = Some m /\
                  r_reg s' = reg_set c m' (r_reg s) /\
                  ((exists sub fs, m' = sm_set sub fs m) \/ (exists sub, m' = sm_del sub m))).
Proof.
  intro T. inversion T; subst; cbn; try (now left).
  - right; left. exists c. auto.
  - right; right. exists c, m, (sm_set sub fs m). repeat split; auto. left; eauto.
  - right; right. exists c, m, (sm_del sub m). repeat split; auto. right; eauto.
  - right; left. exists c. auto.
Qed.

Lemma env_reg s l s' x : trans s l s' -> l <> LRun x -> reg_get x (r_reg s') = reg_get x (r_reg s).
Proof.
  intros T Hl. destruct (reg_trans s l s' T) as [E|[(c & El & _ & [E|E])|(c & m & m' & El & _ & _ & E & _)]]; rewrite E;
    try reflexivity; assert (x <> c) by (intro; subst; now apply Hl).
  - now apply reg_get_set_other.
  - now apply reg_get_del_other.
  - now apply reg_get_set_other.
Qed.

(** while x holds both read locks on its way through y's map, y's entry does
    not change *)
Lemma env_map s l s' x y :
  trans s l s' -> In x (r_pubs s) -> In x (c_rd (r_cs s y)) -> reg_get y (r_reg s') = reg_get y (r_reg s).
Proof.
  intros T Hp Hr. destruct (reg_trans s l s' T) as [E|[(c & El & Ep & _)|(c & m & m' & El & Erd & _ & E & _)]].
  - now rewrite E.
  - rewrite Ep in Hp. contradiction.
  - rewrite E. destruct (Nat.eq_dec y c) as [->|N].
    + rewrite Erd in Hr. contradiction.
    + now apply reg_get_set_other.
Qed.
