(* LinCacheDischarge.v — C15: the sequential premises of
   [cache_find_invariants] discharged from the theorems of the cache groups
   (Properties/C03.v: the answer of a query lies inside the match-everything
   listing and has no duplicate ids; Properties/C04.v: capacity bound and one
   event per address for the listing of a reachable state; Properties/C05.v:
   closedness of the retained set under retained deletion requests and the
   agreement of the code's reading of a deletion request's tags with [refs]). *)
From Coq Require Import List Arith Lia Permutation.
From Moc Require Import Base Match Cache CacheSpec CacheInv CacheHyp Lin LinProofs LinCache LinCacheProofs.
From Moc Require CacheInvProofs CacheFindProofs.
From Moc.Properties Require C03 C04 C05.
From Moc.Gen Require Import GenMsg GenCache.
Import ListNotations.
Open Scope Z_scope.

Notation filter_ok := CacheFindProofs.filter_ok.

(* ------------------------------------------------------------------ *)
(** * The hypothesis on the inserted events is inherited by sub-collections *)

Lemma hist_ok5_incl h h' : hist_ok5 h -> incl h' h -> hist_ok5 h'.
Proof.
  intros [[IF KW] [K5 EU]] Hsub. repeat split.
  - intros a b Ha Hb. apply IF; apply Hsub; assumption.
  - apply Forall_forall. intros x Hx. rewrite Forall_forall in KW. apply KW, Hsub, Hx.
  - apply Forall_forall. intros x Hx. rewrite Forall_forall in K5. apply K5, Hsub, Hx.
  - intros d e Hd He. apply EU; apply Hsub; assumption.
Qed.

(* ------------------------------------------------------------------ *)
(** * Boolean list predicates *)

Lemma subset_In a b : subset a b = true -> forall x, In x a -> In x b.
Proof.
  unfold subset. intros Hs x Hx. rewrite forallb_forall in Hs. specialize (Hs x Hx).
  unfold ev_in in Hs. apply existsb_exists in Hs. destruct Hs as (y & Hy & E).
  apply event_eqb_eq in E. subst. exact Hy.
Qed.

Lemma nodup_ids_NoDup l : nodup_ids l = true -> NoDup l.
Proof.
  induction l as [|x l IH]; simpl; intros Hn; [constructor|].
  apply andb_prop in Hn. destruct Hn as [H1 H2]. constructor; [|apply IH; exact H2].
  intros Hin. apply Bool.negb_true_iff in H1. unfold id_in in H1.
  assert (existsb (fun y => str_eqb (ev_id x) (ev_id y)) l = true).
  { apply existsb_exists. exists x. split; [exact Hin | apply str_eqb_refl]. }
  congruence.
Qed.

Lemma one_per_address_of l :
  NoDup l -> (forall x y, In x l -> In y l -> same_address x y = true -> x = y) -> one_per_address l = true.
Proof.
  induction l as [|x l IH]; simpl; intros Hnd Hu; [reflexivity|].
  inversion Hnd as [|? ? Hx Hnd']; subst. apply andb_true_intro. split.
  - apply Bool.negb_true_iff. destruct (existsb (same_address x) l) eqn:E; [|reflexivity].
    apply existsb_exists in E. destruct E as (y & Hy & Hs).
    assert (x = y) by (apply Hu; [left; reflexivity | right; exact Hy | exact Hs]). subst. contradiction.
  - apply IH; [exact Hnd'|]. intros a b Ha Hb. apply Hu; right; assumption.
Qed.

(* ------------------------------------------------------------------ *)
(** * The sequential facts about one query answer *)

Section Seq.
  Variables (cap : Z) (h : list event) (fs : list rfilter) (out : list event).
  Hypothesis Hh : hist_ok5 h.
  Hypothesis Hcap : 1 <= cap.
  Hypothesis Hfs : Forall filter_ok fs.
  Hypothesis Hfind : c_find (c_run cap h) fs = Ok out.

  Let Hok : hist_ok h. Proof. destruct Hh as [Hk _]. exact Hk. Qed.
  Let HInv : Inv (c_run cap h). Proof. apply C04.C04_inv_reachable. exact Hok. Qed.

  Lemma answer_in_listing : NoDup out /\ forall x, In x out -> In x (c_listing (c_run cap h)).
  Proof.
    pose proof (C03.C03_find_correct _ HInv fs out Hfs Hfind) as Hs.
    unfold find_spec_ok in Hs.
    repeat (apply andb_prop in Hs; destruct Hs as [Hs ?]).
    split; [apply nodup_ids_NoDup; assumption | apply subset_In; assumption].
  Qed.

  Lemma seq_cap_bound : Z.of_nat (length out) <= cap.
  Proof.
    destruct answer_in_listing as [Hnd Hsub].
    pose proof (C04.C04_cap_bound cap h Hok Hcap) as Hc.
    assert (length out <= length (c_listing (c_run cap h)))%nat by (apply NoDup_incl_length; assumption).
    lia.
  Qed.

  Lemma seq_one_per_address : one_per_address out = true.
  Proof.
    destruct answer_in_listing as [Hnd Hsub]. apply one_per_address_of; [exact Hnd|].
    intros x y Hx Hy. apply (C04.C04_one_per_address cap h Hok Hcap); apply Hsub; assumption.
  Qed.

  Lemma seq_closed : no_deleted_pair out.
  Proof.
    destruct answer_in_listing as [_ Hsub]. intros x d Hx Hd Hk Hpk.
    pose proof (C04.C04_listing_is_retained _ HInv) as Hperm.
    assert (Hxr : In x (retained (c_run cap h))) by (eapply Permutation_in; [exact Hperm | apply Hsub, Hx]).
    assert (Hdr : In d (retained (c_run cap h))) by (eapply Permutation_in; [exact Hperm | apply Hsub, Hd]).
    destruct Hok as [IF KW]. destruct Hh as [_ [K5 _]].
    destruct (CacheInvProofs.run_inv_sub cap h IF) as (_ & Hret & _).
    unfold is_k5 in Hk. apply Z.eqb_eq in Hk.
    destruct (refs d x) eqn:Hr; [exfalso | reflexivity].
    destruct (C05.C05_closed_reachable cap h x d (conj IF KW) Hxr Hdr Hk (eq_sym Hpk)) as [N1 N2].
    assert (Hk5 : k5_wf d) by (rewrite Forall_forall in K5; apply K5, Hret, Hdr).
    assert (Hkw : key_wf x) by (rewrite Forall_forall in KW; apply KW, Hret, Hxr).
    assert (Hne : g_event_type (ev_kind x) <> 3) by (apply (inv_no_ephemeral _ HInv); exact Hxr).
    apply (C05.C05_names_is_refs d x Hk Hk5 Hkw Hne) in Hr.
    destruct Hr as (k & Hkin & [E | E]); subst k; contradiction.
  Qed.
End Seq.

(* ------------------------------------------------------------------ *)
(** * C15, third part, without premises about the sequential cache *)

Theorem cache_find_invariants_closed cap tr c :
  1 <= cap ->
  steps cstate cop cres cache_sem cache_mode cache_wr (init cstate cop cres (c_empty cap)) tr c ->
  hist_ok5 (hist_adds (hist cop cres tr)) ->
  (forall i t fs, In (HInv i t (OFind fs)) (hist cop cres tr) -> Forall filter_ok fs) ->
  forall i t out, In (HResp i t (RFound (Ok out))) (hist cop cres tr) -> find_answer_ok cap out.
Proof.
  apply (cache_find_invariants hist_ok5 hist_ok5_incl filter_ok).
  - intros. eapply seq_cap_bound; eassumption.
  - intros. eapply seq_one_per_address; eassumption.
  - intros. eapply seq_closed; eassumption.
Qed.
