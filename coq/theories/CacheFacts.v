(* CacheFacts.v — facts about the building blocks of the cache model:
   one characterising lemma per generated guard, association lists, event
   sets, the created_at tree, index and registry maintenance, reflection of
   the boolean hypotheses.  (Key structure: CacheKeyFacts.v, re-exported.) *)
From Coq Require Import Permutation Sorted.
From Moc Require Import Base Match MatchProofs Cache CacheSpec CacheInv CacheHyp.
From Moc Require Export CacheKeyFacts.
From Moc.Gen Require Import GenMsg GenCache.
Open Scope Z_scope.

(* ------------------------------------------------------------------ *)
(** * Guards (the only place where the generated definitions are unfolded) *)

Lemma g_add_keep_old_spec o n : g_add_keep_old o n = true <-> n <= o.
Proof. unfold g_add_keep_old. rewrite Z.geb_le. reflexivity. Qed.

Lemma g_over_cap_spec n cap : g_over_cap n cap = true <-> cap < n.
Proof. unfold g_over_cap. rewrite Z.gtb_lt. reflexivity. Qed.

Lemma g_add_skip_ephemeral_spec ty : g_add_skip_ephemeral ty = true <-> ty = 3.
Proof. unfold g_add_skip_ephemeral. apply Z.eqb_eq. Qed.

Lemma g_add_blocked_spec a b : g_add_blocked a b = a || b.
Proof. reflexivity. Qed.

Lemma g_is_kind5_spec k : g_is_kind5 k = true <-> k = 5.
Proof. unfold g_is_kind5. apply Z.eqb_eq. Qed.

Lemma g_del_is_kind5_spec k : g_del_is_kind5 k = true <-> k = 5.
Proof. unfold g_del_is_kind5. apply Z.eqb_eq. Qed.

Lemma g_del_other_author_spec a b : g_del_other_author a b = true <-> a <> b.
Proof. unfold g_del_other_author. rewrite negb_true_iff. apply str_eqb_neq. Qed.

Lemma g_k5_tag_short_spec n : g_k5_tag_short n = true <-> n < 2.
Proof. unfold g_k5_tag_short. apply Z.ltb_lt. Qed.

Lemma g_k5_tag_name_spec n : g_k5_tag_name n = true <-> n = a_str \/ n = e_str.
Proof.
  unfold g_k5_tag_name, a_str, e_str. rewrite orb_true_iff, !str_eqb_eq. reflexivity.
Qed.

Lemma g_full_scan_spec i a k t :
  g_full_scan i a k t = true <-> i = false /\ a = false /\ k = false /\ t = false.
Proof. unfold g_full_scan. destruct i, a, k, t; cbn; intuition congruence. Qed.

(** derived forms used by the proofs *)
Lemma g_is_kind5_del k : g_is_kind5 k = g_del_is_kind5 k.
Proof.
  destruct (g_is_kind5 k) eqn:A, (g_del_is_kind5 k) eqn:B; try reflexivity.
  - apply g_is_kind5_spec in A. apply g_del_is_kind5_spec in A. congruence.
  - apply g_del_is_kind5_spec in B. apply g_is_kind5_spec in B. congruence.
Qed.

Lemma g_del_is_kind5_is_k5 e : g_del_is_kind5 (ev_kind e) = is_k5 e.
Proof.
  unfold is_k5. destruct (g_del_is_kind5 (ev_kind e)) eqn:A.
  - apply g_del_is_kind5_spec in A. rewrite A. reflexivity.
  - symmetry. apply Z.eqb_neq. intro E. apply g_del_is_kind5_spec in E. congruence.
Qed.

(* ------------------------------------------------------------------ *)
(** * Small list facts *)

Lemma nil_of_no_elements {A} (l : list A) : (forall x, ~ In x l) -> l = [].
Proof. destruct l as [|a l]; [reflexivity|]. intro H. exfalso. apply (H a). now left. Qed.

Lemma NoDup_map_inj_on {A B} (f : A -> B) l a b :
  NoDup (List.map f l) -> In a l -> In b l -> f a = f b -> a = b.
Proof.
  induction l as [|x l IH]; cbn; [contradiction|].
  intros ND Ha Hb E. inversion ND as [|? ? Hn ND']; subst.
  destruct Ha as [->|Ha], Hb as [->|Hb].
  - reflexivity.
  - exfalso. apply Hn. rewrite E. now apply in_map.
  - exfalso. apply Hn. rewrite <- E. now apply in_map.
  - now apply IH.
Qed.

Lemma NoDup_of_map {A B} (f : A -> B) l : NoDup (List.map f l) -> NoDup l.
Proof.
  induction l as [|x l IH]; cbn; intro ND; [constructor|].
  inversion ND as [|? ? Hn ND']; subst. constructor.
  - intro Hin. apply Hn. now apply in_map.
  - now apply IH.
Qed.

Lemma filter_idem {A} (p : A -> bool) l : List.filter p (List.filter p l) = List.filter p l.
Proof.
  induction l as [|x l IH]; cbn; [reflexivity|].
  destruct (p x) eqn:E; cbn; [rewrite E, IH|]; auto.
Qed.

Lemma NoDup_same_length {A} (a b : list A) :
  NoDup a -> NoDup b -> (forall x, In x a <-> In x b) -> length a = length b.
Proof.
  intros Ha Hb H. apply Permutation_length. now apply NoDup_Permutation.
Qed.

(* ------------------------------------------------------------------ *)
(** * Association lists *)

Section ALFacts.
  Context {K V : Type} (keqb : K -> K -> bool).
  Hypothesis keqb_eq : forall a b, keqb a b = true <-> a = b.

  Lemma keqb_refl k : keqb k k = true.
  Proof. now apply keqb_eq. Qed.

  Lemma keqb_neq a b : keqb a b = false <-> a <> b.
  Proof.
    split.
    - intros H E. apply keqb_eq in E. congruence.
    - intro H. destruct (keqb a b) eqn:E; [apply keqb_eq in E; contradiction | reflexivity].
  Qed.

  Lemma al_get_In k (l : list (K * V)) v : al_get keqb k l = Some v -> In (k, v) l.
  Proof.
    induction l as [|[k' v'] l IH]; cbn; [discriminate|].
    destruct (keqb k k') eqn:E.
    - intro H; inversion H; subst. apply keqb_eq in E; subst. now left.
    - intro H. right. now apply IH.
  Qed.

  Lemma al_get_None k (l : list (K * V)) : al_get keqb k l = None <-> ~ In k (List.map fst l).
  Proof.
    induction l as [|[k' v'] l IH]; cbn.
    - split; [auto | reflexivity].
    - destruct (keqb k k') eqn:E.
      + apply keqb_eq in E; subst. split; [discriminate | intro H; exfalso; apply H; now left].
      + apply keqb_neq in E. rewrite IH. split.
        * intros H [H1|H1]; [congruence | contradiction].
        * intros H H1. apply H. now right.
  Qed.

  Lemma In_al_get k v (l : list (K * V)) :
    NoDup (List.map fst l) -> In (k, v) l -> al_get keqb k l = Some v.
  Proof.
    induction l as [|[k' v'] l IH]; cbn; [contradiction|].
    intros ND [E|Hin].
    - inversion E; subst. now rewrite keqb_refl.
    - inversion ND as [|? ? Hn ND']; subst.
      destruct (keqb k k') eqn:E.
      + apply keqb_eq in E; subst. exfalso. apply Hn.
        change k' with (fst (k', v)). now apply in_map.
      + now apply IH.
  Qed.

  Lemma al_get_set_same k v (l : list (K * V)) : al_get keqb k (al_set keqb k v l) = Some v.
  Proof.
    induction l as [|[k' v'] l IH]; cbn.
    - now rewrite keqb_refl.
    - destruct (keqb k k') eqn:E; cbn.
      + now rewrite keqb_refl.
      + now rewrite E.
  Qed.

  Lemma al_get_set_other k k' v (l : list (K * V)) :
    k' <> k -> al_get keqb k' (al_set keqb k v l) = al_get keqb k' l.
  Proof.
    intro N. induction l as [|[k2 v2] l IH]; cbn.
    - apply keqb_neq in N. now rewrite N.
    - destruct (keqb k k2) eqn:E; cbn.
      + apply keqb_eq in E; subst k2. apply keqb_neq in N. now rewrite N.
      + destruct (keqb k' k2); [reflexivity | exact IH].
  Qed.

  Lemma al_get_set k k' v (l : list (K * V)) :
    al_get keqb k' (al_set keqb k v l) = if keqb k' k then Some v else al_get keqb k' l.
  Proof.
    destruct (keqb k' k) eqn:E.
    - apply keqb_eq in E; subst. apply al_get_set_same.
    - apply keqb_neq in E. now apply al_get_set_other.
  Qed.

  Lemma al_del_In k (l : list (K * V)) p : In p (al_del keqb k l) -> In p l.
  Proof.
    induction l as [|[k' v'] l IH]; cbn; [auto|].
    destruct (keqb k k'); cbn.
    - intro H. now right.
    - intros [H|H]; [now left | right; now apply IH].
  Qed.

  Lemma al_del_keys_incl k (l : list (K * V)) x :
    In x (List.map fst (al_del keqb k l)) -> In x (List.map fst l).
  Proof.
    intro H. apply in_map_iff in H as [p [E Hp]]. apply in_map_iff. exists p.
    split; [assumption | now apply al_del_In in Hp].
  Qed.

  Lemma al_del_nodup k (l : list (K * V)) :
    NoDup (List.map fst l) -> NoDup (List.map fst (al_del keqb k l)).
  Proof.
    induction l as [|[k' v'] l IH]; cbn; [auto|].
    intro ND. inversion ND as [|? ? Hn ND']; subst.
    destruct (keqb k k'); cbn; [assumption|].
    constructor; [|now apply IH].
    intro H. apply Hn. now apply al_del_keys_incl in H.
  Qed.

  Lemma al_get_del_same k (l : list (K * V)) :
    NoDup (List.map fst l) -> al_get keqb k (al_del keqb k l) = None.
  Proof.
    induction l as [|[k' v'] l IH]; cbn; [reflexivity|].
    intro ND. inversion ND as [|? ? Hn ND']; subst.
    destruct (keqb k k') eqn:E; cbn.
    - apply keqb_eq in E; subst. now apply al_get_None.
    - rewrite E. now apply IH.
  Qed.

  Lemma al_get_del_other k k' (l : list (K * V)) :
    k' <> k -> al_get keqb k' (al_del keqb k l) = al_get keqb k' l.
  Proof.
    intro N. induction l as [|[k2 v2] l IH]; cbn; [reflexivity|].
    destruct (keqb k k2) eqn:E; cbn.
    - apply keqb_eq in E; subst k2. apply keqb_neq in N. now rewrite N.
    - destruct (keqb k' k2); [reflexivity | exact IH].
  Qed.

  Lemma al_get_del k k' (l : list (K * V)) :
    NoDup (List.map fst l) ->
    al_get keqb k' (al_del keqb k l) = if keqb k' k then None else al_get keqb k' l.
  Proof.
    intro ND. destruct (keqb k' k) eqn:E.
    - apply keqb_eq in E; subst. now apply al_get_del_same.
    - apply keqb_neq in E. now apply al_get_del_other.
  Qed.

  Lemma al_del_absent k (l : list (K * V)) : al_get keqb k l = None -> al_del keqb k l = l.
  Proof.
    induction l as [|[k' v'] l IH]; cbn; [reflexivity|].
    destruct (keqb k k'); [discriminate|]. intro H. now rewrite IH.
  Qed.

  Lemma al_set_keys_in k v (l : list (K * V)) x :
    In x (List.map fst (al_set keqb k v l)) <-> x = k \/ In x (List.map fst l).
  Proof.
    induction l as [|[k' v'] l IH]; cbn.
    - intuition.
    - destruct (keqb k k') eqn:E; cbn.
      + apply keqb_eq in E; subst. intuition.
      + rewrite IH. intuition.
  Qed.

  Lemma al_set_nodup k v (l : list (K * V)) :
    NoDup (List.map fst l) -> NoDup (List.map fst (al_set keqb k v l)).
  Proof.
    induction l as [|[k' v'] l IH]; cbn; intro ND.
    - constructor; [auto | constructor].
    - inversion ND as [|? ? Hn ND']; subst.
      destruct (keqb k k') eqn:E; cbn.
      + apply keqb_eq in E; subst. now constructor.
      + constructor; [|now apply IH].
        intro H. apply al_set_keys_in in H as [H|H]; [|contradiction].
        subst. rewrite keqb_refl in E. discriminate.
  Qed.

  Lemma al_set_absent k v (l : list (K * V)) :
    al_get keqb k l = None -> al_set keqb k v l = l ++ [(k, v)].
  Proof.
    induction l as [|[k' v'] l IH]; cbn; [reflexivity|].
    destruct (keqb k k'); [discriminate|]. intro H. now rewrite IH.
  Qed.

  Lemma al_del_perm k v (l : list (K * V)) :
    al_get keqb k l = Some v -> Permutation l ((k, v) :: al_del keqb k l).
  Proof.
    induction l as [|[k' v'] l IH]; cbn; [discriminate|].
    destruct (keqb k k') eqn:E.
    - intro H; inversion H; subst. apply keqb_eq in E; subst. apply Permutation_refl.
    - intro H. eapply perm_trans; [apply perm_skip, IH, H | apply perm_swap].
  Qed.

  Lemma al_get_snd (l : list (K * V)) v :
    NoDup (List.map fst l) ->
    (In v (List.map snd l) <-> exists k, al_get keqb k l = Some v).
  Proof.
    intro ND. split.
    - intro H. apply in_map_iff in H as [[k v'] [E Hp]]. cbn in E; subst.
      exists k. now apply In_al_get.
    - intros [k H]. apply al_get_In in H. apply in_map_iff. now exists (k, v).
  Qed.
End ALFacts.

(** key equalities reflect Leibniz equality *)
Lemma ikey_eqb_eq a b : ikey_eqb a b = true <-> a = b.
Proof.
  destruct a, b; cbn; try (split; [discriminate | intro H; discriminate]).
  - rewrite str_eqb_eq. split; [now intros -> | now inversion 1].
  - rewrite str_eqb_eq. split; [now intros -> | now inversion 1].
  - rewrite Z.eqb_eq. split; [now intros -> | now inversion 1].
  - rewrite andb_true_iff, !str_eqb_eq. split; [now intros [-> ->] | now inversion 1].
Qed.

Lemma dkey_eqb_eq a b : dkey_eqb a b = true <-> a = b.
Proof.
  destruct a as [a1 a2], b as [b1 b2]. unfold dkey_eqb; cbn.
  rewrite andb_true_iff, !str_eqb_eq. split; [now intros [-> ->] | now inversion 1].
Qed.

(** the decomposition form of "keys are pairwise distinct" used by [Inv] *)
Lemma idx_keys_nodup_iff (idx : list (ikey * eset)) :
  (forall ik1 ik2 s1 s2 l1 l2 l3,
      idx = l1 ++ (ik1, s1) :: l2 ++ (ik2, s2) :: l3 -> ikey_eqb ik1 ik2 = false)
  <-> NoDup (List.map fst idx).
Proof.
  split.
  - induction idx as [|[k s] r IH]; intro H; cbn; [constructor|].
    constructor.
    + intro Hin. apply in_map_iff in Hin as [[k2 s2] [E Hp]]. cbn in E; subst k2.
      apply in_split in Hp as [l2 [l3 ->]].
      specialize (H k k s s2 [] l2 l3 eq_refl).
      rewrite (proj2 (ikey_eqb_eq k k) eq_refl) in H. discriminate.
    + apply IH. intros ik1 ik2 s1 s2 l1 l2 l3 E.
      apply (H ik1 ik2 s1 s2 ((k, s) :: l1) l2 l3). now rewrite E.
  - intros ND ik1 ik2 s1 s2 l1 l2 l3 E. subst idx.
    rewrite map_app in ND. cbn in ND. apply NoDup_remove_2 in ND.
    destruct (ikey_eqb ik1 ik2) eqn:Q; [|reflexivity].
    apply ikey_eqb_eq in Q; subst. exfalso. apply ND.
    apply in_or_app. right. rewrite map_app. apply in_or_app. right. now left.
Qed.

(* ------------------------------------------------------------------ *)
(** * Event sets *)

Lemma eset_mem_In e s : eset_mem e s = true <-> In e s.
Proof.
  unfold eset_mem. rewrite existsb_exists. split.
  - intros [y [Hy E]]. apply event_eqb_eq in E. now subst.
  - intro H. exists e. split; [assumption | now apply event_eqb_eq].
Qed.

Lemma eset_remove_In c s x : In x (eset_remove c s) <-> In x s /\ x <> c.
Proof.
  unfold eset_remove. rewrite filter_In, negb_true_iff. split.
  - intros [H E]. split; [assumption|]. intro Q; subst.
    rewrite (proj2 (event_eqb_eq c c) eq_refl) in E. discriminate.
  - intros [H N]. split; [assumption|]. destruct (event_eqb c x) eqn:E; [|reflexivity].
    apply event_eqb_eq in E. congruence.
Qed.

Lemma eset_remove_nodup c s : NoDup s -> NoDup (eset_remove c s).
Proof. apply NoDup_filter. Qed.

Lemma eset_remove_idem c s : eset_remove c (eset_remove c s) = eset_remove c s.
Proof. apply filter_idem. Qed.

Lemma eset_add_In e s x : In x (eset_add e s) <-> x = e \/ In x s.
Proof.
  unfold eset_add. destruct (eset_mem e s) eqn:M.
  - apply eset_mem_In in M. split; [auto | intros [->|H]; assumption].
  - rewrite in_app_iff. cbn. intuition.
Qed.

Lemma eset_add_nodup e s : NoDup s -> NoDup (eset_add e s).
Proof.
  unfold eset_add. destruct (eset_mem e s) eqn:M; [auto|]. intro ND.
  assert (~ In e s) as N by (intro H; apply eset_mem_In in H; congruence).
  clear M. induction s as [|y s IH]; cbn.
  - constructor; [auto | constructor].
  - inversion ND as [|? ? Hn ND']; subst. constructor.
    + rewrite in_app_iff. cbn. intros [H|[H|[]]]; [contradiction|]. subst. apply N. now left.
    + apply IH; [assumption|]. intro H. apply N. now right.
Qed.

Lemma eset_add_idem e s : eset_add e (eset_add e s) = eset_add e s.
Proof.
  destruct (eset_mem e s) eqn:M.
  - unfold eset_add. now rewrite !M.
  - assert (eset_add e s = s ++ [e]) as -> by (unfold eset_add; now rewrite M).
    unfold eset_add. assert (eset_mem e (s ++ [e]) = true) as ->; [|reflexivity].
    apply eset_mem_In. apply in_or_app. right. now left.
Qed.

Lemma eset_add_nonempty e s : eset_add e s <> [].
Proof.
  unfold eset_add. destruct (eset_mem e s) eqn:M.
  - intro E; subst. cbn in M. discriminate.
  - destruct s; discriminate.
Qed.

(* ------------------------------------------------------------------ *)
(** * Folding a keyed update over a list of keys *)

Section FoldUpd.
  Context {K K0 V : Type} (keqb : K -> K -> bool).
  Hypothesis keqb_eq : forall a b, keqb a b = true <-> a = b.
  Variable kf : K0 -> K.
  Variable upd : list (K * V) -> K0 -> list (K * V).
  Variable g : option V -> option V.
  Hypothesis upd_get : forall l k k', NoDup (List.map fst l) ->
      al_get keqb k' (upd l k) = if keqb k' (kf k) then g (al_get keqb k' l) else al_get keqb k' l.
  Hypothesis upd_nodup : forall l k, NoDup (List.map fst l) -> NoDup (List.map fst (upd l k)).
  Hypothesis g_idem : forall o, g (g o) = g o.

  Lemma fold_upd_nodup ks : forall l, NoDup (List.map fst l) -> NoDup (List.map fst (fold_left upd ks l)).
  Proof. induction ks as [|k ks IH]; cbn; intros l ND; [assumption|]. apply IH. now apply upd_nodup. Qed.

  Lemma fold_upd_get ks : forall l k', NoDup (List.map fst l) ->
      al_get keqb k' (fold_left upd ks l) =
      if existsb (fun k => keqb k' (kf k)) ks then g (al_get keqb k' l) else al_get keqb k' l.
  Proof.
    induction ks as [|k ks IH]; cbn; intros l k' ND; [reflexivity|].
    rewrite IH by now apply upd_nodup. rewrite upd_get by assumption.
    destruct (keqb k' (kf k)); cbn.
    - rewrite g_idem. now destruct (existsb _ ks).
    - reflexivity.
  Qed.
End FoldUpd.

(* ------------------------------------------------------------------ *)
(** * Index maintenance *)

Definition rm_set (c : event) (o : option eset) : option eset :=
  match o with
  | None => None
  | Some s => match eset_remove c s with [] => None | s' => Some s' end
  end.

Definition add_ev (e : event) (o : option eset) : option eset :=
  match o with Some s => Some (eset_add e s) | None => Some [e] end.

Lemma rm_set_idem c o : rm_set c (rm_set c o) = rm_set c o.
Proof.
  destruct o as [s|]; cbn; [|reflexivity].
  destruct (eset_remove c s) as [|y r] eqn:E; cbn [rm_set]; [reflexivity|].
  assert (eset_remove c (y :: r) = y :: r) as -> by (rewrite <- E; apply eset_remove_idem).
  reflexivity.
Qed.

Lemma add_ev_idem e o : add_ev e (add_ev e o) = add_ev e o.
Proof.
  destruct o as [s|]; cbn.
  - now rewrite eset_add_idem.
  - unfold eset_add. cbn. now rewrite (proj2 (event_eqb_eq e e) eq_refl).
Qed.

Lemma idx_del_key_get c idx k ik : NoDup (List.map fst idx) ->
  al_get ikey_eqb ik (idx_del_key c idx k) =
  if ikey_eqb ik k then rm_set c (al_get ikey_eqb ik idx) else al_get ikey_eqb ik idx.
Proof.
  intro ND. unfold idx_del_key.
  destruct (ikey_eqb ik k) eqn:Q.
  - apply ikey_eqb_eq in Q; subst ik.
    destruct (al_get ikey_eqb k idx) as [s|] eqn:G; cbn; [|now rewrite G].
    destruct (eset_remove c s) as [|y r] eqn:E.
    + now apply (al_get_del_same ikey_eqb ikey_eqb_eq).
    + apply al_get_set_same. exact ikey_eqb_eq.
  - assert (ik <> k) as N by (intro E; apply ikey_eqb_eq in E; congruence).
    destruct (al_get ikey_eqb k idx) as [s|] eqn:G; [|reflexivity].
    destruct (eset_remove c s) as [|y r] eqn:E.
    + now apply (al_get_del_other ikey_eqb ikey_eqb_eq).
    + now apply (al_get_set_other ikey_eqb ikey_eqb_eq).
Qed.

Lemma idx_del_key_nodup c idx k : NoDup (List.map fst idx) -> NoDup (List.map fst (idx_del_key c idx k)).
Proof.
  intro ND. unfold idx_del_key. destruct (al_get ikey_eqb k idx) as [s|]; [|assumption].
  destruct (eset_remove c s).
  - now apply al_del_nodup.
  - now apply (al_set_nodup ikey_eqb ikey_eqb_eq).
Qed.

Lemma idx_delete_nodup c idx : NoDup (List.map fst idx) -> NoDup (List.map fst (idx_delete c idx)).
Proof.
  unfold idx_delete. apply (fold_upd_nodup (fun l k => idx_del_key c l k)).
  intros l k. apply idx_del_key_nodup.
Qed.

Lemma idx_delete_get c idx ik : NoDup (List.map fst idx) ->
  al_get ikey_eqb ik (idx_delete c idx) =
  if has_ikey ik c then rm_set c (al_get ikey_eqb ik idx) else al_get ikey_eqb ik idx.
Proof.
  intro ND. unfold idx_delete, has_ikey.
  apply (fold_upd_get ikey_eqb (fun k => k) (fun l k => idx_del_key c l k) (rm_set c)).
  - intros l k k' H. now apply idx_del_key_get.
  - intros l k. apply idx_del_key_nodup.
  - apply rm_set_idem.
  - assumption.
Qed.

Lemma idx_add_key_get e idx k ik :
  al_get ikey_eqb ik (idx_add_key e idx k) =
  if ikey_eqb ik k then add_ev e (al_get ikey_eqb ik idx) else al_get ikey_eqb ik idx.
Proof.
  unfold idx_add_key.
  destruct (ikey_eqb ik k) eqn:Q.
  - apply ikey_eqb_eq in Q; subst ik.
    destruct (al_get ikey_eqb k idx) as [s|] eqn:G; cbn; apply al_get_set_same; exact ikey_eqb_eq.
  - assert (ik <> k) as N by (intro E; apply ikey_eqb_eq in E; congruence).
    destruct (al_get ikey_eqb k idx) as [s|] eqn:G; now apply (al_get_set_other ikey_eqb ikey_eqb_eq).
Qed.

Lemma idx_add_key_nodup e idx k : NoDup (List.map fst idx) -> NoDup (List.map fst (idx_add_key e idx k)).
Proof.
  intro ND. unfold idx_add_key.
  destruct (al_get ikey_eqb k idx); now apply (al_set_nodup ikey_eqb ikey_eqb_eq).
Qed.

Lemma idx_add_nodup e idx : NoDup (List.map fst idx) -> NoDup (List.map fst (idx_add e idx)).
Proof.
  unfold idx_add. apply (fold_upd_nodup (fun l k => idx_add_key e l k)).
  intros l k. apply idx_add_key_nodup.
Qed.

Lemma idx_add_get e idx ik : NoDup (List.map fst idx) ->
  al_get ikey_eqb ik (idx_add e idx) =
  if has_ikey ik e then add_ev e (al_get ikey_eqb ik idx) else al_get ikey_eqb ik idx.
Proof.
  intro ND. unfold idx_add, has_ikey.
  apply (fold_upd_get ikey_eqb (fun k => k) (fun l k => idx_add_key e l k) (add_ev e)).
  - intros l k k' H. apply idx_add_key_get.
  - intros l k. apply idx_add_key_nodup.
  - apply add_ev_idem.
  - assumption.
Qed.

(** only the id key of an event can equal an id key *)
Lemma has_ikey_id k e : has_ikey (IKId k) e = true <-> ev_id e = k.
Proof.
  unfold has_ikey, ikeys_of_event. cbn [app existsb ikey_eqb].
  rewrite !orb_false_l.
  assert (existsb (ikey_eqb (IKId k)) (tag_ikeys (ev_tags e)) = false) as ->.
  { destruct (existsb _ _) eqn:E; [|reflexivity].
    apply existsb_exists in E as [y [Hy E]]. unfold tag_ikeys in Hy.
    apply in_flat_map in Hy as [t [_ Hy]].
    destruct t as [|n r]; [destruct Hy|].
    destruct (Nat.eqb (length n) 1); [|destruct Hy].
    destruct Hy as [<-|[]]. cbn in E. discriminate. }
  rewrite orb_false_r, str_eqb_eq. split; congruence.
Qed.

(* ------------------------------------------------------------------ *)
(** * Registry maintenance *)

Definition rm_id (i : str) (o : option (list str)) : option (list str) :=
  match o with
  | None => None
  | Some ids => match List.filter (fun x => negb (str_eqb x i)) ids with [] => None | ids' => Some ids' end
  end.

Definition add_id (i : str) (o : option (list str)) : option (list str) :=
  match o with
  | None => Some [i]
  | Some ids => if mem_str i ids then Some ids else Some (ids ++ [i])
  end.

Lemma rm_id_idem i o : rm_id i (rm_id i o) = rm_id i o.
Proof.
  destruct o as [s|]; cbn; [|reflexivity].
  destruct (List.filter _ s) as [|y r] eqn:E; cbn [rm_id]; [reflexivity|].
  assert (List.filter (fun x => negb (str_eqb x i)) (y :: r) = y :: r) as ->
      by (rewrite <- E; apply filter_idem).
  reflexivity.
Qed.

Lemma add_id_idem i o : add_id i (add_id i o) = add_id i o.
Proof.
  destruct o as [s|]; cbn.
  - destruct (mem_str i s) eqn:M; cbn; [now rewrite M|].
    assert (mem_str i (s ++ [i]) = true) as ->; [|reflexivity].
    apply mem_str_In, in_or_app. right. now left.
  - now rewrite str_eqb_refl.
Qed.

Lemma del_unregister_get pk i del k dk : NoDup (List.map fst del) ->
  al_get dkey_eqb dk (del_unregister pk i del k) =
  if dkey_eqb dk (k, pk) then rm_id i (al_get dkey_eqb dk del) else al_get dkey_eqb dk del.
Proof.
  intro ND. unfold del_unregister.
  destruct (dkey_eqb dk (k, pk)) eqn:Q.
  - apply dkey_eqb_eq in Q; subst dk.
    destruct (al_get dkey_eqb (k, pk) del) as [s|] eqn:G; cbn; [|now rewrite G].
    destruct (List.filter _ s) as [|y r] eqn:E.
    + now apply (al_get_del_same dkey_eqb dkey_eqb_eq).
    + apply al_get_set_same. exact dkey_eqb_eq.
  - assert (dk <> (k, pk)) as N by (intro E; apply dkey_eqb_eq in E; congruence).
    destruct (al_get dkey_eqb (k, pk) del) as [s|] eqn:G; [|reflexivity].
    destruct (List.filter _ s) as [|y r] eqn:E.
    + now apply (al_get_del_other dkey_eqb dkey_eqb_eq).
    + now apply (al_get_set_other dkey_eqb dkey_eqb_eq).
Qed.

Lemma del_unregister_nodup pk i del k :
  NoDup (List.map fst del) -> NoDup (List.map fst (del_unregister pk i del k)).
Proof.
  intro ND. unfold del_unregister. destruct (al_get dkey_eqb (k, pk) del) as [s|]; [|assumption].
  destruct (List.filter _ s).
  - now apply al_del_nodup.
  - now apply (al_set_nodup dkey_eqb dkey_eqb_eq).
Qed.

Lemma del_register_get pk i del k dk :
  al_get dkey_eqb dk (del_register pk i del k) =
  if dkey_eqb dk (k, pk) then add_id i (al_get dkey_eqb dk del) else al_get dkey_eqb dk del.
Proof.
  unfold del_register.
  destruct (dkey_eqb dk (k, pk)) eqn:Q.
  - apply dkey_eqb_eq in Q; subst dk.
    destruct (al_get dkey_eqb (k, pk) del) as [s|] eqn:G; cbn.
    + destruct (mem_str i s); [assumption|]. apply al_get_set_same. exact dkey_eqb_eq.
    + apply al_get_set_same. exact dkey_eqb_eq.
  - assert (dk <> (k, pk)) as N by (intro E; apply dkey_eqb_eq in E; congruence).
    destruct (al_get dkey_eqb (k, pk) del) as [s|] eqn:G.
    + destruct (mem_str i s); [reflexivity|]. now apply (al_get_set_other dkey_eqb dkey_eqb_eq).
    + now apply (al_get_set_other dkey_eqb dkey_eqb_eq).
Qed.

Lemma del_register_nodup pk i del k :
  NoDup (List.map fst del) -> NoDup (List.map fst (del_register pk i del k)).
Proof.
  intro ND. unfold del_register. destruct (al_get dkey_eqb (k, pk) del) as [s|].
  - destruct (mem_str i s); [assumption|]. now apply (al_set_nodup dkey_eqb dkey_eqb_eq).
  - now apply (al_set_nodup dkey_eqb dkey_eqb_eq).
Qed.

Lemma existsb_dkey dk pk ks :
  existsb (fun k => dkey_eqb dk (k, pk)) ks = str_eqb (snd dk) pk && mem_str (fst dk) ks.
Proof.
  unfold mem_str. induction ks as [|k ks IH]; cbn; [now rewrite andb_false_r|].
  rewrite IH. unfold dkey_eqb; cbn.
  destruct (str_eqb (fst dk) k), (str_eqb (snd dk) pk); reflexivity.
Qed.

Lemma del_unreg_fold_nodup pk i ks del :
  NoDup (List.map fst del) -> NoDup (List.map fst (fold_left (del_unregister pk i) ks del)).
Proof.
  apply (fold_upd_nodup (del_unregister pk i)). intros l k. apply del_unregister_nodup.
Qed.

Lemma del_unreg_fold_get pk i ks del dk : NoDup (List.map fst del) ->
  al_get dkey_eqb dk (fold_left (del_unregister pk i) ks del) =
  if str_eqb (snd dk) pk && mem_str (fst dk) ks then rm_id i (al_get dkey_eqb dk del)
  else al_get dkey_eqb dk del.
Proof.
  intro ND. rewrite <- existsb_dkey.
  apply (fold_upd_get dkey_eqb (fun k => (k, pk)) (del_unregister pk i) (rm_id i)).
  - intros l k k' H. now apply del_unregister_get.
  - intros l k. apply del_unregister_nodup.
  - apply rm_id_idem.
  - assumption.
Qed.

Lemma del_reg_fold_nodup pk i ks del :
  NoDup (List.map fst del) -> NoDup (List.map fst (fold_left (del_register pk i) ks del)).
Proof.
  apply (fold_upd_nodup (del_register pk i)). intros l k. apply del_register_nodup.
Qed.

Lemma del_reg_fold_get pk i ks del dk : NoDup (List.map fst del) ->
  al_get dkey_eqb dk (fold_left (del_register pk i) ks del) =
  if str_eqb (snd dk) pk && mem_str (fst dk) ks then add_id i (al_get dkey_eqb dk del)
  else al_get dkey_eqb dk del.
Proof.
  intro ND. rewrite <- existsb_dkey.
  apply (fold_upd_get dkey_eqb (fun k => (k, pk)) (del_register pk i) (add_id i)).
  - intros l k k' H. apply del_register_get.
  - intros l k. apply del_register_nodup.
  - apply add_id_idem.
  - assumption.
Qed.

(* ------------------------------------------------------------------ *)
(** * The created_at tree *)

Definition tlt (a b : event) : Prop := tkey_lt a b = true.

Lemma tree_del_In c t y : In y (tree_del c t) -> In y t.
Proof.
  induction t as [|x r IH]; cbn; [auto|].
  destruct (tkey_eq c x); cbn; [now right|].
  intros [H|H]; [now left | right; now apply IH].
Qed.

Lemma tree_del_perm c t :
  NoDup (List.map ev_id t) -> In c t -> Permutation t (c :: tree_del c t).
Proof.
  induction t as [|x r IH]; cbn; [contradiction|].
  intros ND Hin. destruct (tkey_eq c x) eqn:Q.
  - apply tkey_eq_spec in Q as [_ Q].
    assert (c = x) as ->; [|apply Permutation_refl].
    apply (NoDup_map_inj_on ev_id (x :: r)); cbn; auto.
  - destruct Hin as [->|Hin]; [rewrite tkey_eq_refl in Q; discriminate|].
    inversion ND as [|? ? Hn ND']; subst.
    eapply perm_trans; [apply perm_skip, IH; assumption | apply perm_swap].
Qed.

Lemma tree_del_sorted c t : StronglySorted tlt t -> StronglySorted tlt (tree_del c t).
Proof.
  induction t as [|x r IH]; cbn; intro S; [constructor|].
  inversion S as [|? ? S' F]; subst.
  destruct (tkey_eq c x); [assumption|].
  constructor; [now apply IH|].
  rewrite Forall_forall in *. intros y Hy. apply F. now apply tree_del_In in Hy.
Qed.

Lemma tree_set_In e t y : In y (tree_set e t) -> y = e \/ In y t.
Proof.
  induction t as [|x r IH]; cbn.
  - intros [H|[]]; now left.
  - destruct (tkey_lt e x); cbn.
    + intros [H|H]; [now left | now right].
    + destruct (tkey_eq e x); cbn.
      * intros [H|H]; [now left | right; now right].
      * intros [H|H]; [right; now left|]. apply IH in H as [H|H]; [now left | right; now right].
Qed.

Lemma tree_set_perm e t :
  (forall x, In x t -> ev_id x <> ev_id e) -> Permutation (tree_set e t) (e :: t).
Proof.
  induction t as [|x r IH]; cbn; intro H; [apply Permutation_refl|].
  destruct (tkey_lt e x); [apply Permutation_refl|].
  destruct (tkey_eq e x) eqn:Q.
  - apply tkey_eq_spec in Q as [_ Q]. exfalso. apply (H x); [now left | congruence].
  - eapply perm_trans; [apply perm_skip, IH | apply perm_swap].
    intros y Hy. apply H. now right.
Qed.

Lemma tree_set_sorted e t :
  (forall x, In x t -> ev_id x <> ev_id e) ->
  StronglySorted tlt t -> StronglySorted tlt (tree_set e t).
Proof.
  induction t as [|x r IH]; cbn; intros H S.
  - constructor; constructor.
  - inversion S as [|? ? S' F]; subst.
    destruct (tkey_lt e x) eqn:L.
    + constructor; [assumption|]. constructor; [exact L|].
      rewrite Forall_forall in *. intros y Hy. unfold tlt.
      eapply tkey_lt_trans; [exact L | now apply F].
    + destruct (tkey_eq e x) eqn:Q.
      * apply tkey_eq_spec in Q as [_ Q]. exfalso. apply (H x); [now left | congruence].
      * constructor.
        -- apply IH; [|assumption]. intros y Hy. apply H. now right.
        -- rewrite Forall_forall in *. intros y Hy. apply tree_set_In in Hy as [->|Hy].
           ++ unfold tlt. now apply tkey_total.
           ++ now apply F.
Qed.

Lemma tree_set_append x acc :
  Forall (fun y => tlt y x) acc -> tree_set x acc = acc ++ [x].
Proof.
  induction acc as [|y r IH]; cbn; intro F; [reflexivity|].
  inversion F as [|? ? L F']; subst. unfold tlt in L.
  rewrite (tkey_lt_asym _ _ L). unfold tkey_eq. rewrite L. cbn.
  rewrite andb_false_r. now rewrite IH.
Qed.

Lemma sorted_app_last acc x t :
  StronglySorted tlt (acc ++ x :: t) -> Forall (fun y => tlt y x) acc.
Proof.
  induction acc as [|y r IH]; cbn; intro S; [constructor|].
  inversion S as [|? ? S' F]; subst. constructor.
  - rewrite Forall_forall in F. apply F. apply in_or_app. right. now left.
  - now apply IH.
Qed.

(** the last element of a sorted tree is below everything else *)
Lemma sorted_last t o :
  StronglySorted tlt t -> last (List.map Some t) None = Some o ->
  In o t /\ forall x, In x t -> x = o \/ tlt x o.
Proof.
  induction t as [|x r IH]; cbn; intros S L; [discriminate|].
  inversion S as [|? ? S' F]; subst.
  destruct r as [|y r'].
  - cbn in L. inversion L; subst. split; [now left|]. intros z [->|[]]. now left.
  - cbn [List.map] in L, IH. specialize (IH S' L) as [Hin Hall]. split; [now right|].
    intros z [->|Hz].
    + right. rewrite Forall_forall in F. now apply F.
    + now apply Hall.
Qed.

Lemma last_some_nonempty (t : list event) : t <> [] -> exists o, last (List.map Some t) None = Some o.
Proof.
  induction t as [|x r IH]; [congruence|]. intros _.
  destruct r as [|y r']; [now exists x|].
  destruct IH as [o Ho]; [discriminate|]. exists o. exact Ho.
Qed.

(* ------------------------------------------------------------------ *)
(** * The match-everything query is the tree *)

Lemma match_impl_empty e : match_impl e empty_filter = Ok true.
Proof.
  unfold match_impl, empty_filter; cbn [f_ids f_kinds f_authors f_tags f_since f_until isSome optb tags_part].
  now rewrite g_ids_reject_spec, g_kinds_reject_spec, g_authors_reject_spec.
Qed.

Lemma scan_loop_all t : forall m acc,
  lm_f m = empty_filter -> StronglySorted tlt (acc ++ t) ->
  scan_loop t m acc = Ok (acc ++ t).
Proof.
  induction t as [|x r IH]; cbn [scan_loop]; intros m acc Hm S.
  - now rewrite app_nil_r.
  - assert (lm_done m = false) as ->.
    { unfold lm_done. rewrite Hm, g_done_spec. reflexivity. }
    unfold lm_limit_match. rewrite Hm, match_impl_empty.
    rewrite tree_set_append by (eapply sorted_app_last; exact S).
    rewrite IH; [now rewrite <- app_assoc | reflexivity | now rewrite <- app_assoc].
Qed.

(* ------------------------------------------------------------------ *)
(** * Listing-level helpers: the boolean set operations of CacheSpec *)

Lemma ev_in_In x l : ev_in x l = true <-> In x l.
Proof. exact (eset_mem_In x l). Qed.

Lemma id_in_spec x l : id_in x l = true <-> exists y, In y l /\ ev_id x = ev_id y.
Proof.
  unfold id_in. rewrite existsb_exists. split; intros [y [H E]]; exists y; split; auto;
    now apply str_eqb_eq.
Qed.

Lemma subset_spec a b : subset a b = true <-> (forall x, In x a -> In x b).
Proof.
  unfold subset. rewrite forallb_forall. split; intros H x Hx.
  - now apply ev_in_In, H.
  - now apply ev_in_In, H.
Qed.

Lemma set_eq_spec a b : set_eq a b = true <-> (forall x, In x a <-> In x b).
Proof.
  unfold set_eq. rewrite andb_true_iff, !subset_spec. split.
  - intros [H1 H2] x. split; auto.
  - intro H. split; intros x Hx; now apply H.
Qed.

Lemma minus_In a b x : In x (minus a b) <-> In x a /\ ~ In x b.
Proof.
  unfold minus. rewrite filter_In, negb_true_iff. split; intros [H1 H2]; split; auto.
  - intro H. apply ev_in_In in H. congruence.
  - destruct (ev_in x b) eqn:E; [apply ev_in_In in E; contradiction | reflexivity].
Qed.

Lemma remove1_In v l x : In x (remove1 v l) <-> In x l /\ x <> v.
Proof. exact (eset_remove_In v l x). Qed.

Lemma nodup_ids_spec l : nodup_ids l = true <-> NoDup (List.map ev_id l).
Proof.
  induction l as [|x r IH]; cbn.
  - split; [constructor | reflexivity].
  - rewrite andb_true_iff, negb_true_iff, IH. split.
    + intros [H1 H2]. constructor; [|assumption]. intro Hin.
      apply in_map_iff in Hin as [y [E Hy]].
      assert (id_in x r = true) by (apply id_in_spec; exists y; split; auto). congruence.
    + intro ND. inversion ND as [|? ? Hn ND']; subst. split; [|assumption].
      destruct (id_in x r) eqn:E; [|reflexivity].
      apply id_in_spec in E as [y [Hy E]]. exfalso. apply Hn. rewrite E. now apply in_map.
Qed.

Lemma one_per_address_spec l :
  one_per_address l = true <->
  (forall l1 x l2 y l3, l = l1 ++ x :: l2 ++ y :: l3 -> same_address x y = false).
Proof.
  induction l as [|a r IH]; cbn.
  - split; [|reflexivity]. intros _ l1 x l2 y l3 E. destruct l1; discriminate.
  - rewrite andb_true_iff, negb_true_iff, IH. split.
    + intros [H1 H2] l1 x l2 y l3 E. destruct l1 as [|b l1]; cbn in E; inversion E; subst.
      * destruct (same_address x y) eqn:Q; [|reflexivity].
        assert (existsb (same_address x) (l2 ++ y :: l3) = true); [|congruence].
        apply existsb_exists. exists y. split; [apply in_or_app; right; now left | assumption].
      * eapply H2. reflexivity.
    + intro H. split.
      * destruct (existsb (same_address a) r) eqn:Q; [|reflexivity].
        apply existsb_exists in Q as [y [Hy Q]]. apply in_split in Hy as [l2 [l3 ->]].
        rewrite (H [] a l2 y l3 eq_refl) in Q. discriminate.
      * intros l1 x l2 y l3 E. apply (H (a :: l1) x l2 y l3). now rewrite E.
Qed.

(** a permutation-invariant sufficient condition *)
Lemma one_per_address_of_inj l :
  NoDup l -> (forall x y, In x l -> In y l -> same_address x y = true -> x = y) ->
  one_per_address l = true.
Proof.
  intros ND H. apply one_per_address_spec. intros l1 x l2 y l3 E.
  destruct (same_address x y) eqn:Q; [|reflexivity]. exfalso.
  assert (x = y).
  { apply H; [| |assumption]; subst l.
    - apply in_or_app. right. now left.
    - apply in_or_app. right. right. apply in_or_app. right. now left. }
  subst y l. apply NoDup_remove_2 in ND. apply ND.
  apply in_or_app. right. apply in_or_app. right. now left.
Qed.

Lemma min_fold_le l : forall m, fold_left (fun m y => Z.min m (ev_ts y)) l m <= m.
Proof.
  induction l as [|y r IH]; cbn; intro m; [lia|].
  specialize (IH (Z.min m (ev_ts y))). lia.
Qed.

Lemma min_fold_lb l : forall m x, In x l -> fold_left (fun m y => Z.min m (ev_ts y)) l m <= ev_ts x.
Proof.
  induction l as [|y r IH]; cbn; intros m x Hx; [contradiction|].
  destruct Hx as [->|Hx].
  - pose proof (min_fold_le r (Z.min m (ev_ts x))). lia.
  - now apply IH.
Qed.

Lemma min_fold_attained l : forall m,
  fold_left (fun m y => Z.min m (ev_ts y)) l m = m \/
  exists x, In x l /\ fold_left (fun m y => Z.min m (ev_ts y)) l m = ev_ts x.
Proof.
  induction l as [|y r IH]; cbn; intro m; [now left|].
  destruct (IH (Z.min m (ev_ts y))) as [E|[x [Hx E]]].
  - rewrite E. destruct (Z.min_spec m (ev_ts y)) as [[_ Q]|[_ Q]]; rewrite Q.
    + now left.
    + right. exists y. split; [now left | reflexivity].
  - right. exists x. split; [now right | assumption].
Qed.

Lemma min_ts_spec l m :
  min_ts l = Some m -> (forall x, In x l -> m <= ev_ts x) /\ exists x, In x l /\ ev_ts x = m.
Proof.
  destruct l as [|a r]; cbn; [discriminate|]. intro H; inversion H as [E]; clear H. split.
  - intros x [->|Hx]; [apply min_fold_le | now apply min_fold_lb].
  - destruct (min_fold_attained r (ev_ts a)) as [Q|[x [Hx Q]]].
    + exists a. split; [now left | now rewrite Q].
    + exists x. split; [now right | now rewrite Q].
Qed.

Lemma min_ts_some l : l <> [] -> exists m, min_ts l = Some m.
Proof. destruct l; [congruence|]. intros _. eexists. reflexivity. Qed.

(* ------------------------------------------------------------------ *)
(** * Reflection of the boolean hypotheses *)

Lemma ids_functionalb_spec l : ids_functionalb l = true -> ids_functional l.
Proof.
  unfold ids_functionalb, ids_functional. rewrite forallb_forall. intros H a b Ha Hb E.
  specialize (H a Ha). rewrite forallb_forall in H. specialize (H b Hb).
  apply orb_true_iff in H as [H|H].
  - apply negb_true_iff, str_eqb_neq in H. contradiction.
  - now apply event_eqb_eq.
Qed.

Lemma key_wfb_spec e : key_wfb e = true <-> key_wf e.
Proof. unfold key_wfb, key_wf. now rewrite andb_true_iff, !colon_freeb_spec. Qed.

Lemma hist_okb_spec h : hist_okb h = true -> hist_ok h.
Proof.
  unfold hist_okb, hist_ok. rewrite andb_true_iff, forallb_forall, Forall_forall.
  intros [H1 H2]. split; [now apply ids_functionalb_spec|]. intros x Hx. now apply key_wfb_spec, H2.
Qed.

Lemma k5_tag_wfb_spec t : k5_tag_wfb t = true -> k5_tag_wf t.
Proof.
  destruct t as [|n [|v r]]; cbn; auto.
  rewrite andb_true_iff, !orb_true_iff, !negb_true_iff. intros [H1 H2]. split; intro E; subst.
  - destruct H1 as [H1|H1]; [now rewrite str_eqb_refl in H1 | now apply colon_freeb_spec].
  - destruct H2 as [H2|H2]; [now rewrite str_eqb_refl in H2 | now apply Nat.leb_le].
Qed.

Lemma k5_wfb_spec d : k5_wfb d = true -> k5_wf d.
Proof.
  unfold k5_wfb, k5_wf. rewrite orb_true_iff, negb_true_iff, Z.eqb_neq. intros [H|H] K; [contradiction|].
  rewrite forallb_forall in H. apply Forall_forall. intros t Ht. now apply k5_tag_wfb_spec, H.
Qed.

Lemma eph_okb_spec R e : eph_okb R e = true <-> eph_ok R e.
Proof.
  unfold eph_okb, eph_ok. destruct (cls_ephemeral (ev_kind e)), (suppressed R e); cbn;
    intuition congruence.
Qed.

Lemma eph_unrefb_spec h : eph_unrefb h = true -> eph_unref h.
Proof.
  unfold eph_unrefb, eph_unref. rewrite forallb_forall. intros H d e Hd He K C P.
  specialize (H d Hd). rewrite forallb_forall in H. specialize (H e He).
  rewrite K, C, P, str_eqb_refl in H. cbn in H. now apply negb_true_iff in H.
Qed.

Lemma hist_ok5b_spec h : hist_ok5b h = true -> hist_ok5 h.
Proof.
  unfold hist_ok5b, hist_ok5. rewrite !andb_true_iff. intros [[H1 H2] H3].
  split; [now apply hist_okb_spec|]. split; [|now apply eph_unrefb_spec].
  rewrite forallb_forall in H2. apply Forall_forall. intros x Hx. now apply k5_wfb_spec, H2.
Qed.
