(* RouterOrder.v — C07: the copies a connection gets from one publisher are
   in that publisher's publication order. *)
From Moc Require Import Base Match Router RouterLemmas RouterFrame RouterTrans RouterData RouterMust RouterEnv RouterInv RouterDataInv.
From Moc.Gen Require Import GenRouter.
From Coq Require Import Sorted.
Open Scope Z_scope.

Lemma pub_seq_app p l1 l2 : pub_seq p (l1 ++ l2) = pub_seq p l1 ++ pub_seq p l2.
Proof.
  induction l1 as [|m l1 IH]; simpl; [reflexivity|].
  destruct m as [| | |sub e [p' n]]; try exact IH. destruct (Nat.eqb p p'); simpl; now rewrite IH.
Qed.

Lemma pub_seq_filter p l : pub_seq p (filter is_event_msg l) = pub_seq p l.
Proof.
  induction l as [|m l IH]; simpl; [reflexivity|].
  destruct m as [| | |sub e [p' n]]; simpl; try exact IH. destruct (Nat.eqb p p'); simpl; now rewrite IH.
Qed.

Lemma pub_seq_In p n l : In n (pub_seq p l) -> exists sub e, In (MEvent sub e (p, n)) l.
Proof.
  induction l as [|m l IH]; simpl; [contradiction|].
  destruct m as [| | |sub e [p' n']]; try (intro H; destruct (IH H) as (sb & e0 & Hin); eauto).
  destruct (Nat.eqb p p') eqn:E.
  - apply Nat.eqb_eq in E. subst p'. intros [->|H]; [eauto | destruct (IH H) as (sb & e0 & Hin); eauto].
  - intro H. destruct (IH H) as (sb & e0 & Hin); eauto.
Qed.

Lemma SSorted_app_l {A} (R : A -> A -> Prop) l1 l2 : StronglySorted R (l1 ++ l2) -> StronglySorted R l1.
Proof.
  induction l1 as [|a l1 IH]; simpl; intro H; [constructor|].
  inversion H as [|? ? H1 H2]; subst. constructor; [now apply IH|].
  apply Forall_app in H2. tauto.
Qed.

Lemma SSorted_snoc l n : StronglySorted le l -> Forall (fun k => (k <= n)%nat) l -> StronglySorted le (l ++ [n]).
Proof.
  induction l as [|a l IH]; simpl; intros H F.
  - constructor; constructor.
  - inversion H as [|? ? H1 H2]; subst. inversion F as [|? ? F1 F2]; subst.
    constructor; [now apply IH|]. apply Forall_app. split; [assumption | constructor; [assumption | constructor]].
Qed.

Definition OrdInv (s : rstate) : Prop := forall x p, StronglySorted le (pub_seq p (evs (r_cs s x))).

Lemma OrdInv_init buf : OrdInv (r_init buf).
Proof. intros x p. cbn. constructor. Qed.

Theorem OrdInv_trans s l s' : Inv s -> DInv s -> OrdInv s -> trans s l s' -> OrdInv s'.
Proof.
  intros I D O T x p. specialize (O x p).
  destruct (evs_trans s l s' x T) as [E _ _|c e t sub fs todo rest _ Hpc Hm _ E _ _ _|c e t sub fs todo rest _ _ _ _ E _ _ _|rest _ _ E _ _ _].
  - now rewrite E.
  - rewrite E, pub_seq_app. cbn. destruct t as [c0 n].
    destruct (Nat.eqb p c0) eqn:Ep; [|now rewrite app_nil_r].
    apply Nat.eqb_eq in Ep. subst c0.
    pose proof (inv_pc s I c) as P. rewrite Hpc in P.
    destruct (pc_ok_inv_visit _ _ _ _ _ _ _ P) as (n' & rem & id & Et & _ & Hn & _). inversion Et; subst c n'.
    apply SSorted_snoc; [assumption|]. apply Forall_forall. intros k Hk.
    destruct (pub_seq_In _ _ _ Hk) as (sb & e0 & Hin).
    destruct (d_just s D x sb e0 (p, k) Hin) as [_ Hlt]. unfold tag_lt in Hlt. cbn in Hlt. lia.
  - now rewrite E.
  - rewrite E. rewrite evs_split, pub_seq_app in O. now apply SSorted_app_l in O.
Qed.

Theorem OrdInv_reachable buf s : reachable buf s -> OrdInv s.
Proof.
  intro R. induction R as [|s l R IH]; [apply OrdInv_init|].
  destruct (step_trans s l) as [E|T]; [now rewrite E|].
  eapply OrdInv_trans; [eapply Inv_reachable | eapply DInv_reachable | |]; eassumption.
Qed.

(** what the client has received from publisher p is in publication order *)
Theorem out_order buf s x p : reachable buf s -> StronglySorted le (pub_seq p (c_out (r_cs s x))).
Proof.
  intro R. pose proof (OrdInv_reachable buf s R x p) as O.
  rewrite evs_split, pub_seq_app, pub_seq_filter in O. now apply SSorted_app_l in O.
Qed.
