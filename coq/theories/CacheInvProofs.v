(* CacheInvProofs.v — the representation invariant of the cache model is
   established by [c_empty] and preserved by [c_delete], by insertion, by
   kind-5 registration and removal, by eviction, hence by [c_add] and along
   every history.  Each step also comes with its effect on the retained set,
   which is what the refinement proofs (CacheAddProofs.v) consume. *)
From Coq Require Import Permutation Sorted.
From Moc Require Import Base Match Cache CacheSpec CacheInv CacheHyp CacheFacts.
From Moc.Gen Require Import GenMsg GenCache.
Open Scope Z_scope.

(* ------------------------------------------------------------------ *)
(** * The invariant in two independent parts, plus capacity and closedness *)

(** what an index entry must be, relative to a retained set [R] *)
Definition idx_ok (R : list event) (ik : ikey) (o : option eset) : Prop :=
  match o with
  | Some set => set <> [] /\ NoDup set /\ (forall e, In e set <-> In e R /\ has_ikey ik e = true)
  | None => forall e, In e R -> has_ikey ik e = false
  end.

(** deletion request [d] contributes to registry entry [dk] *)
Definition refP (dk : dkey) (d : event) : bool :=
  g_del_is_kind5 (ev_kind d) && str_eqb (ev_pk d) (snd dk) && mem_str (fst dk) (k5_keys d).

Definition del_ok (R : list event) (dk : dkey) (o : option (list str)) : Prop :=
  match o with
  | Some ids => ids <> [] /\ NoDup ids /\
                (forall i, In i ids <-> exists d, In d R /\ refP dk d = true /\ ev_id d = i)
  | None => forall d, In d R -> refP dk d = false
  end.

Record InvA (s : cstate) : Prop := mkInvA {
  a_keys_nodup : NoDup (List.map fst (c_evs s));
  a_keys : forall k e, In (k, e) (c_evs s) -> event_key e = k;
  a_ids_nodup : NoDup (List.map ev_id (retained s));
  a_tree_perm : Permutation (c_tree s) (retained s);
  a_tree_sorted : StronglySorted tlt (c_tree s);
  a_idx_nodup : NoDup (List.map fst (c_idx s));
  a_idx : forall ik, idx_ok (retained s) ik (al_get ikey_eqb ik (c_idx s));
  a_no_eph : forall e, In e (retained s) -> g_event_type (ev_kind e) <> 3
}.

Record InvD (s : cstate) : Prop := mkInvD {
  d_nodup : NoDup (List.map fst (c_del s));
  d_ok : forall dk, del_ok (retained s) dk (al_get dkey_eqb dk (c_del s))
}.

Definition St (s : cstate) : Prop := InvA s /\ InvD s.

Definition closed (s : cstate) : Prop :=
  forall x d, In x (retained s) -> In d (retained s) ->
    g_del_is_kind5 (ev_kind d) = true -> ev_pk x = ev_pk d ->
    ~ In (event_key x) (k5_keys d) /\ ~ In (ev_id x) (k5_keys d).

Lemma induced_In s dk i :
  In i (induced_ids s dk) <-> exists d, In d (retained s) /\ refP dk d = true /\ ev_id d = i.
Proof.
  unfold induced_ids. rewrite in_map_iff. split.
  - intros [d [E H]]. apply filter_In in H as [H1 H2]. exists d. repeat split; assumption.
  - intros [d [H1 [H2 E]]]. exists d. split; [assumption|]. apply filter_In. split; assumption.
Qed.

Lemma inv_split s :
  Inv s <-> (InvA s /\ InvD s /\ (1 <= c_cap s -> c_len s <= c_cap s) /\ closed s).
Proof.
  split.
  - intros [I1 I2 I3 I4 I4s I5n I5s I5o I6s I6o I7 I8 I9 I10]. repeat split; try assumption.
    + now apply idx_keys_nodup_iff.
    + intro ik. unfold idx_ok. destruct (al_get ikey_eqb ik (c_idx s)) as [set|] eqn:G.
      * now apply I5s.
      * now apply I5o.
    + intro dk. unfold del_ok. destruct (al_get dkey_eqb dk (c_del s)) as [ids|] eqn:G.
      * destruct (I6s dk ids G) as [A [B C]]. repeat split; try assumption.
        -- intro H. apply C in H. now apply induced_In.
        -- intro H. apply C. now apply induced_In.
      * intros d Hd. destruct (refP dk d) eqn:Q; [|reflexivity]. exfalso.
        pose proof (I6o dk G) as E.
        assert (In (ev_id d) (induced_ids s dk)) as H by (apply induced_In; exists d; auto).
        rewrite E in H. destruct H.
    + exact (proj1 (I8 x d H H0 H1 H2)).
    + exact (proj2 (I8 x d H H0 H1 H2)).
  - intros [[A1 A2 A3 A4 A5 A6 A7 A8] [[D1 D2] [C K]]]. constructor; try assumption.
    + now apply idx_keys_nodup_iff.
    + intros ik set G. specialize (A7 ik). rewrite G in A7. exact A7.
    + intros ik G. specialize (A7 ik). rewrite G in A7. exact A7.
    + intros k ids G. specialize (D2 k). rewrite G in D2. destruct D2 as [X [Y Z]].
      repeat split; try assumption.
      * intro H. apply induced_In. now apply Z.
      * intro H. apply Z. now apply induced_In.
    + intros k G. specialize (D2 k). rewrite G in D2. apply nil_of_no_elements.
      intros i H. apply induced_In in H as [d [H1 [H2 _]]]. rewrite (D2 d H1) in H2. discriminate.
Qed.

(* ------------------------------------------------------------------ *)
(** * Reading the primary table *)

Lemma a_get_retained s x :
  InvA s -> (In x (retained s) <-> al_get str_eqb (event_key x) (c_evs s) = Some x).
Proof.
  intro A. split.
  - intro H. unfold retained in H. apply in_map_iff in H as [[k y] [E Hp]]. cbn in E; subst y.
    rewrite (a_keys s A k x Hp). apply (In_al_get str_eqb str_eqb_eq); [apply (a_keys_nodup s A) | assumption].
  - intro H. apply al_get_In in H; [|exact str_eqb_eq]. unfold retained. apply in_map_iff.
    now exists (event_key x, x).
Qed.

Lemma a_get_key s k c :
  InvA s -> al_get str_eqb k (c_evs s) = Some c -> event_key c = k /\ In c (retained s).
Proof.
  intros A G. apply al_get_In in G; [|exact str_eqb_eq]. split.
  - now apply (a_keys s A).
  - unfold retained. apply in_map_iff. now exists (k, c).
Qed.

Lemma a_key_inj s x y :
  InvA s -> In x (retained s) -> In y (retained s) -> event_key x = event_key y -> x = y.
Proof.
  intros A Hx Hy E. apply (a_get_retained s x A) in Hx. apply (a_get_retained s y A) in Hy.
  rewrite E in Hx. congruence.
Qed.

Lemma a_id_inj s x y :
  InvA s -> In x (retained s) -> In y (retained s) -> ev_id x = ev_id y -> x = y.
Proof. intros A. apply NoDup_map_inj_on, (a_ids_nodup s A). Qed.

Lemma a_len_tree s : InvA s -> c_len s = Z.of_nat (length (c_tree s)).
Proof.
  intro A. unfold c_len. rewrite (Permutation_length (a_tree_perm s A)).
  unfold retained. now rewrite map_length.
Qed.

Lemma a_tree_In s x : InvA s -> (In x (c_tree s) <-> In x (retained s)).
Proof.
  intro A. split; apply Permutation_in; [apply (a_tree_perm s A) | apply Permutation_sym, (a_tree_perm s A)].
Qed.

(* ------------------------------------------------------------------ *)
(** * Transfer of index and registry entries when the retained set changes *)

Lemma idx_ok_rm R R' c ik o :
  idx_ok R ik o -> (forall x, In x R' <-> In x R /\ x <> c) ->
  idx_ok R' ik (if has_ikey ik c then rm_set c o else o).
Proof.
  intros H HR. destruct (has_ikey ik c) eqn:Q.
  - destruct o as [set|]; cbn [idx_ok add_ev rm_set].
    + destruct H as [_ [ND M]].
      destruct (eset_remove c set) as [|y r] eqn:E.
      * intros e He. apply HR in He as [He N]. destruct (has_ikey ik e) eqn:Qe; [|reflexivity].
        exfalso. assert (In e (eset_remove c set)) as X by (apply eset_remove_In; split; [apply M|]; auto).
        rewrite E in X. destruct X.
      * rewrite <- E. split; [rewrite E; discriminate|]. split; [now apply eset_remove_nodup|].
        intro e. rewrite eset_remove_In, M, HR. tauto.
    + intros e He. apply HR in He as [He _]. now apply H.
  - destruct o as [set|]; cbn [idx_ok add_ev rm_set].
    + destruct H as [NE [ND M]]. split; [assumption|]. split; [assumption|].
      intro e. rewrite M, HR. split; [|tauto]. intros [He Qe]. repeat split; auto.
      intro X; subst. congruence.
    + intros e He. apply HR in He as [He _]. now apply H.
Qed.

Lemma idx_ok_add R R' e ik o :
  idx_ok R ik o -> (forall x, In x R' <-> In x R \/ x = e) ->
  idx_ok R' ik (if has_ikey ik e then add_ev e o else o).
Proof.
  intros H HR. destruct (has_ikey ik e) eqn:Q.
  - destruct o as [set|]; cbn [idx_ok add_ev rm_set].
    + destruct H as [_ [ND M]]. split; [apply eset_add_nonempty|]. split; [now apply eset_add_nodup|].
      intro x. rewrite eset_add_In, M, HR. split.
      * intros [->|[H1 H2]]; auto.
      * intros [[H1| ->] H2]; auto.
    + split; [discriminate|]. split; [constructor; [auto | constructor]|].
      intro x. rewrite HR. cbn [In]. split.
      * intros [<-|[]]. auto.
      * intros [[H1| ->] H2]; [|now left]. rewrite (H x H1) in H2. discriminate.
  - destruct o as [set|]; cbn [idx_ok add_ev rm_set].
    + destruct H as [NE [ND M]]. split; [assumption|]. split; [assumption|].
      intro x. rewrite M, HR. split; [tauto|]. intros [[H1| ->] H2]; [auto | congruence].
    + intros x Hx. apply HR in Hx as [Hx| ->]; [now apply H | assumption].
Qed.

Lemma del_ok_rm R R' c dk o :
  NoDup (List.map ev_id R) -> In c R ->
  del_ok R dk o -> (forall x, In x R' <-> In x R /\ x <> c) ->
  del_ok R' dk (if refP dk c then rm_id (ev_id c) o else o).
Proof.
  intros NDR Hc H HR.
  assert (forall d, In d R -> ev_id d = ev_id c -> d = c) as Inj
      by (intros d Hd E; now apply (NoDup_map_inj_on ev_id R)).
  destruct (refP dk c) eqn:Q.
  - destruct o as [ids|]; cbn [del_ok add_id rm_id].
    + destruct H as [_ [ND M]].
      destruct (List.filter (fun x => negb (str_eqb x (ev_id c))) ids) as [|y r] eqn:E.
      * intros d Hd. apply HR in Hd as [Hd N]. destruct (refP dk d) eqn:Qd; [|reflexivity].
        exfalso. assert (In (ev_id d) (List.filter (fun x => negb (str_eqb x (ev_id c))) ids)) as X.
        { apply filter_In. split; [apply M; exists d; auto|].
          apply negb_true_iff, str_eqb_neq. intro X. apply N. now apply Inj. }
        rewrite E in X. destruct X.
      * rewrite <- E. split; [rewrite E; discriminate|]. split; [now apply NoDup_filter|].
        intro i. rewrite filter_In, negb_true_iff, str_eqb_neq, M. split.
        -- intros [[d [H1 [H2 H3]]] N]. exists d. repeat split; auto. apply HR. split; [assumption|].
           intro X; subst. contradiction.
        -- intros [d [H1 [H2 H3]]]. apply HR in H1 as [H1 N]. split; [exists d; auto|].
           intro X. apply N. apply Inj; [assumption | congruence].
    + intros d Hd. apply HR in Hd as [Hd _]. now apply H.
  - destruct o as [ids|]; cbn [del_ok add_id rm_id].
    + destruct H as [NE [ND M]]. split; [assumption|]. split; [assumption|].
      intro i. rewrite M. split.
      * intros [d [H1 [H2 H3]]]. exists d. repeat split; auto. apply HR. split; [assumption|].
        intro X; subst. congruence.
      * intros [d [H1 [H2 H3]]]. apply HR in H1 as [H1 _]. exists d. auto.
    + intros d Hd. apply HR in Hd as [Hd _]. now apply H.
Qed.

Lemma del_ok_add R R' e dk o :
  del_ok R dk o -> (forall x, In x R' <-> In x R \/ x = e) ->
  del_ok R' dk (if refP dk e then add_id (ev_id e) o else o).
Proof.
  intros H HR. destruct (refP dk e) eqn:Q.
  - destruct o as [ids|]; cbn [del_ok add_id rm_id].
    + destruct H as [NE [ND M]]. destruct (mem_str (ev_id e) ids) eqn:Me.
      * split; [assumption|]. split; [assumption|]. intro i. rewrite M. split.
        -- intros [d [H1 [H2 H3]]]. exists d. repeat split; auto. apply HR. now left.
        -- intros [d [H1 [H2 H3]]]. apply HR in H1 as [H1| ->]; [exists d; auto|].
           apply M. subst i. now apply mem_str_In.
      * assert (~ In (ev_id e) ids) as Ne by (intro X; apply mem_str_In in X; congruence).
        split; [destruct ids; discriminate|]. split.
        -- clear M NE Me. induction ids as [|y r IH]; cbn; [constructor; [auto | constructor]|].
           inversion ND as [|? ? Hn ND']; subst. constructor.
           ++ rewrite in_app_iff. cbn. intros [X|[X|[]]]; [contradiction|]. subst. apply Ne. now left.
           ++ apply IH; [assumption|]. intro X. apply Ne. now right.
        -- intro i. rewrite in_app_iff, M. cbn [In]. split.
           ++ intros [[d [H1 [H2 H3]]]|[<-|[]]].
              ** exists d. repeat split; auto. apply HR. now left.
              ** exists e. repeat split; auto. apply HR. now right.
           ++ intros [d [H1 [H2 H3]]]. apply HR in H1 as [H1| ->]; [left; exists d; auto | right; now left].
    + split; [discriminate|]. split; [constructor; [auto | constructor]|].
      intro i. cbn [In]. split.
      * intros [<-|[]]. exists e. repeat split; auto. apply HR. now right.
      * intros [d [H1 [H2 H3]]]. apply HR in H1 as [H1| ->]; [|now left].
        rewrite (H d H1) in H2. discriminate.
  - destruct o as [ids|]; cbn [del_ok add_id rm_id].
    + destruct H as [NE [ND M]]. split; [assumption|]. split; [assumption|].
      intro i. rewrite M. split.
      * intros [d [H1 [H2 H3]]]. exists d. repeat split; auto. apply HR. now left.
      * intros [d [H1 [H2 H3]]]. apply HR in H1 as [H1| ->]; [exists d; auto | congruence].
    + intros d Hd. apply HR in Hd as [Hd| ->]; [now apply H | assumption].
Qed.

(* ------------------------------------------------------------------ *)
(** * [c_empty] *)

Lemma st_empty cap : St (c_empty cap).
Proof.
  split.
  - constructor; cbn; try constructor; try contradiction.
  - constructor; cbn; [constructor|]. intros dk d [].
Qed.

Lemma inv_empty cap : Inv (c_empty cap).
Proof.
  apply inv_split. destruct (st_empty cap) as [A D].
  split; [exact A|]. split; [exact D|]. split.
  - intro H. unfold c_len; cbn in *. lia.
  - intros x d [].
Qed.

(* ------------------------------------------------------------------ *)
(** * [c_delete] *)

Definition del_state (s : cstate) (cand : event) : cstate :=
  mkC (c_cap s)
      (al_del str_eqb (event_key cand) (c_evs s))
      (tree_del cand (c_tree s))
      (idx_delete cand (c_idx s))
      (if g_del_is_kind5 (ev_kind cand)
       then fold_left (del_unregister (ev_pk cand) (ev_id cand)) (k5_keys cand) (c_del s)
       else c_del s).

Lemma c_delete_unfold s k a :
  InvA s ->
  (c_delete s (k, a) = s /\ forall x, In x (retained s) -> ~ (event_key x = k /\ ev_pk x = a)) \/
  (exists cand, In cand (retained s) /\ event_key cand = k /\ ev_pk cand = a /\
                c_delete s (k, a) = del_state s cand).
Proof.
  intro A. unfold c_delete. cbn [fst snd].
  destruct (al_get str_eqb k (c_evs s)) as [cand|] eqn:G.
  - destruct (a_get_key s k cand A G) as [Ek Hc].
    destruct (g_del_other_author (ev_pk cand) a) eqn:Q.
    + left. split; [reflexivity|]. intros x Hx [E1 E2].
      apply g_del_other_author_spec in Q. apply Q.
      apply (a_get_retained s x A) in Hx. rewrite E1, G in Hx. congruence.
    + right. exists cand. repeat split; try assumption.
      * destruct (str_dec (ev_pk cand) a) as [E|N]; [assumption|].
        apply g_del_other_author_spec in N. congruence.
      * unfold del_state. now rewrite Ek.
  - left. split; [reflexivity|]. intros x Hx [E1 E2].
    apply (a_get_retained s x A) in Hx. rewrite E1, G in Hx. discriminate.
Qed.

Lemma retained_del_state s cand :
  InvA s -> In cand (retained s) ->
  Permutation (retained s) (cand :: retained (del_state s cand)) /\
  forall x, In x (retained (del_state s cand)) <-> In x (retained s) /\ x <> cand.
Proof.
  intros A Hc.
  assert (Permutation (retained s) (cand :: retained (del_state s cand))) as P.
  { unfold retained, del_state; cbn [c_evs].
    apply (a_get_retained s cand A) in Hc.
    apply (al_del_perm str_eqb str_eqb_eq) in Hc.
    apply (Permutation_map snd) in Hc. exact Hc. }
  split; [exact P|].
  assert (NoDup (cand :: retained (del_state s cand))) as ND.
  { eapply Permutation_NoDup; [exact P|]. apply (NoDup_of_map ev_id), (a_ids_nodup s A). }
  inversion ND as [|? ? Hn ND']; subst. intro x. split.
  - intro H. split; [eapply Permutation_in; [apply Permutation_sym, P | now right]|].
    intro E; subst. contradiction.
  - intros [H N]. apply (Permutation_in _ P) in H as [H|H]; [congruence | assumption].
Qed.

Lemma refP_unreg dk c :
  (g_del_is_kind5 (ev_kind c) = true ->
   str_eqb (snd dk) (ev_pk c) && mem_str (fst dk) (k5_keys c) = refP dk c) /\
  (g_del_is_kind5 (ev_kind c) = false -> refP dk c = false).
Proof.
  unfold refP. split; intros ->; cbn; [|reflexivity]. now rewrite (str_eqb_sym (snd dk)).
Qed.

Lemma st_del_state s cand :
  St s -> In cand (retained s) -> St (del_state s cand).
Proof.
  intros [A D] Hc. destruct (retained_del_state s cand A Hc) as [P M].
  split.
  - constructor.
    + cbn [del_state c_evs]. apply al_del_nodup, (a_keys_nodup s A).
    + cbn [del_state c_evs]. intros k e H. apply al_del_In in H. now apply (a_keys s A).
    + assert (NoDup (List.map ev_id (cand :: retained (del_state s cand)))) as ND.
      { eapply Permutation_NoDup; [apply Permutation_map, P | apply (a_ids_nodup s A)]. }
      now inversion ND.
    + cbn [del_state c_tree].
      assert (Permutation (c_tree s) (cand :: tree_del cand (c_tree s))) as PT.
      { apply tree_del_perm.
        - eapply Permutation_NoDup; [apply Permutation_map, Permutation_sym, (a_tree_perm s A)|].
          apply (a_ids_nodup s A).
        - now apply (a_tree_In s cand A). }
      eapply Permutation_cons_inv with (a := cand).
      eapply perm_trans; [apply Permutation_sym, PT|].
      eapply perm_trans; [apply (a_tree_perm s A) | exact P].
    + cbn [del_state c_tree]. apply tree_del_sorted, (a_tree_sorted s A).
    + cbn [del_state c_idx]. apply idx_delete_nodup, (a_idx_nodup s A).
    + intro ik. cbn [del_state c_idx]. rewrite idx_delete_get by apply (a_idx_nodup s A).
      apply (idx_ok_rm (retained s)); [apply (a_idx s A) | exact M].
    + intros e He. apply M in He as [He _]. now apply (a_no_eph s A).
  - constructor.
    + cbn [del_state c_del]. destruct (g_del_is_kind5 (ev_kind cand)).
      * apply del_unreg_fold_nodup, (d_nodup s D).
      * apply (d_nodup s D).
    + intro dk. cbn [del_state c_del].
      assert (al_get dkey_eqb dk
                (if g_del_is_kind5 (ev_kind cand)
                 then fold_left (del_unregister (ev_pk cand) (ev_id cand)) (k5_keys cand) (c_del s)
                 else c_del s) =
              if refP dk cand then rm_id (ev_id cand) (al_get dkey_eqb dk (c_del s))
              else al_get dkey_eqb dk (c_del s)) as ->.
      { destruct (refP_unreg dk cand) as [R1 R2].
        destruct (g_del_is_kind5 (ev_kind cand)) eqn:Q.
        - rewrite del_unreg_fold_get by apply (d_nodup s D). now rewrite R1.
        - now rewrite R2. }
      apply (del_ok_rm (retained s)); [apply (a_ids_nodup s A) | exact Hc | apply (d_ok s D) | exact M].
Qed.

Lemma c_len_del_state s cand : InvA s -> In cand (retained s) -> c_len (del_state s cand) = c_len s - 1.
Proof.
  intros A Hc. destruct (retained_del_state s cand A Hc) as [P _].
  apply Permutation_length in P. unfold retained in P. cbn [length] in P.
  rewrite !map_length in P. unfold c_len. lia.
Qed.

(** [sub_by rem s s']: [s'] is a good state holding what [s] held except
    the events selected by [rem] *)
Definition sub_by (rem : event -> Prop) (s s' : cstate) : Prop :=
  St s' /\ c_cap s' = c_cap s /\ c_len s' <= c_len s /\
  forall x, In x (retained s') <-> In x (retained s) /\ ~ rem x.

Lemma sub_by_refl (rem : event -> Prop) s :
  St s -> (forall x, In x (retained s) -> ~ rem x) -> sub_by rem s s.
Proof.
  intros S H. split; [exact S|]. split; [reflexivity|]. split; [lia|].
  intro x. split; [intro Hx; split; [exact Hx | now apply H] | now intros [Hx _]].
Qed.

Lemma sub_by_weaken (r r' : event -> Prop) s s' :
  sub_by r s s' -> (forall x, In x (retained s) -> (r x <-> r' x)) -> sub_by r' s s'.
Proof.
  intros [S [C [L M]]] H. split; [exact S|]. split; [exact C|]. split; [exact L|].
  intro x. rewrite M. split; intros [H1 H2]; (split; [exact H1|]); intro R; apply H2; now apply (H x H1).
Qed.

Lemma sub_by_trans (r1 r2 : event -> Prop) s s1 s2 :
  sub_by r1 s s1 -> sub_by r2 s1 s2 -> sub_by (fun x => r1 x \/ r2 x) s s2.
Proof.
  intros [S1 [C1 [L1 M1]]] [S2 [C2 [L2 M2]]].
  split; [exact S2|]. split; [congruence|]. split; [lia|].
  intro x. rewrite M2, M1. tauto.
Qed.

Lemma delete_sub s k a :
  St s -> sub_by (fun x => event_key x = k /\ ev_pk x = a) s (c_delete s (k, a)).
Proof.
  intros S. pose proof S as [A D].
  destruct (c_delete_unfold s k a A) as [[E H]|[cand [Hc [Ek [Ea E]]]]]; rewrite E.
  - now apply sub_by_refl.
  - destruct (retained_del_state s cand A Hc) as [_ M].
    split; [apply (st_del_state s cand S Hc)|]. split; [reflexivity|].
    split; [rewrite c_len_del_state by assumption; lia|].
    intro x. rewrite M. split; intros [H N]; (split; [exact H|]).
    + intros [E1 E2]. apply N. apply (a_key_inj s x cand A H Hc). congruence.
    + intro X. apply N. rewrite X. split; assumption.
Qed.

(** an actual removal: the addressed event is retained and of that author *)
Lemma delete_present s o :
  St s -> In o (retained s) ->
  c_len (c_delete s (event_key o, ev_pk o)) = c_len s - 1 /\
  forall x, In x (retained (c_delete s (event_key o, ev_pk o))) <-> In x (retained s) /\ x <> o.
Proof.
  intros [A D] Ho.
  destruct (c_delete_unfold s (event_key o) (ev_pk o) A) as [[E H]|[cand [Hc [Ek [Ea E]]]]].
  - exfalso. apply (H o Ho). split; reflexivity.
  - assert (cand = o) as -> by (apply (a_key_inj s cand o A Hc Ho Ek)).
    rewrite E. split; [now apply c_len_del_state|]. apply (retained_del_state s o A Ho).
Qed.

Lemma closed_sub (rem : event -> Prop) s s' : sub_by rem s s' -> closed s -> closed s'.
Proof.
  intros [_ [_ [_ M]]] K x d Hx Hd. apply M in Hx as [Hx _]. apply M in Hd as [Hd _]. now apply K.
Qed.

Lemma inv_delete s k : Inv s -> Inv (c_delete s k).
Proof.
  intro I. apply inv_split in I as [A [D [C K]]]. destruct k as [k a].
  pose proof (delete_sub s k a (conj A D)) as SB.
  pose proof (closed_sub _ _ _ SB K) as K'.
  destruct SB as [[A' D'] [Ec [L M]]].
  apply inv_split. split; [exact A'|]. split; [exact D'|]. split; [|exact K'].
  intro H. rewrite Ec in *. specialize (C H). lia.
Qed.

(* ------------------------------------------------------------------ *)
(** * Insertion into the tables ([add] after the old version is gone) and
      kind-5 registration *)

Definition ins_state (s : cstate) (key : str) (e : event) : cstate :=
  mkC (c_cap s) (al_set str_eqb key e (c_evs s)) (tree_set e (c_tree s))
      (idx_add e (c_idx s)) (c_del s).

Definition reg_state (s : cstate) (e : event) : cstate :=
  if g_is_kind5 (ev_kind e) then c_add_kind5 s e else s.

Lemma NoDup_snoc {A} (l : list A) a : NoDup l -> ~ In a l -> NoDup (l ++ [a]).
Proof.
  induction l as [|y r IH]; cbn; intros ND N; [constructor; [auto | constructor]|].
  inversion ND as [|? ? Hn ND']; subst. constructor.
  - rewrite in_app_iff. cbn. intros [X|[X|[]]]; [contradiction|]. subst. apply N. now left.
  - apply IH; [assumption|]. intro X. apply N. now right.
Qed.

Lemma retained_ins s e :
  al_get str_eqb (event_key e) (c_evs s) = None ->
  retained (ins_state s (event_key e) e) = retained s ++ [e].
Proof.
  intro G. unfold retained, ins_state; cbn [c_evs].
  rewrite (al_set_absent str_eqb) by assumption. now rewrite map_app.
Qed.

Lemma invA_ins s e :
  InvA s -> al_get str_eqb (event_key e) (c_evs s) = None ->
  (forall x, In x (retained s) -> ev_id x <> ev_id e) ->
  g_event_type (ev_kind e) <> 3 ->
  InvA (ins_state s (event_key e) e).
Proof.
  intros A G Hid Ht. pose proof (retained_ins s e G) as RE.
  assert (forall x, In x (retained (ins_state s (event_key e) e)) <-> In x (retained s) \/ x = e) as M.
  { intro x. rewrite RE, in_app_iff. cbn. intuition. }
  constructor.
  - cbn [ins_state c_evs]. apply (al_set_nodup str_eqb str_eqb_eq), (a_keys_nodup s A).
  - cbn [ins_state c_evs]. intros k x H. rewrite (al_set_absent str_eqb) in H by assumption.
    apply in_app_iff in H as [H|[H|[]]]; [now apply (a_keys s A)|]. now inversion H.
  - rewrite RE, map_app. cbn. apply NoDup_snoc; [apply (a_ids_nodup s A)|].
    intro H. apply in_map_iff in H as [x [E Hx]]. now apply (Hid x Hx).
  - rewrite RE. cbn [ins_state c_tree].
    eapply perm_trans; [apply tree_set_perm|].
    + intros x Hx. apply Hid. now apply (a_tree_In s x A).
    + eapply perm_trans; [apply perm_skip, (a_tree_perm s A) | apply Permutation_cons_append].
  - cbn [ins_state c_tree]. apply tree_set_sorted; [|apply (a_tree_sorted s A)].
    intros x Hx. apply Hid. now apply (a_tree_In s x A).
  - cbn [ins_state c_idx]. apply idx_add_nodup, (a_idx_nodup s A).
  - intro ik. cbn [ins_state c_idx]. rewrite idx_add_get by apply (a_idx_nodup s A).
    apply (idx_ok_add (retained s)); [apply (a_idx s A) | exact M].
  - intros x Hx. apply M in Hx as [Hx| ->]; [now apply (a_no_eph s A) | assumption].
Qed.

Lemma invA_same_tables s s' :
  c_evs s' = c_evs s -> c_tree s' = c_tree s -> c_idx s' = c_idx s -> InvA s -> InvA s'.
Proof.
  intros E1 E2 E3 [A1 A2 A3 A4 A5 A6 A7 A8].
  constructor; unfold retained in *; rewrite ?E1, ?E2, ?E3; assumption.
Qed.

Lemma reg_state_tables s e :
  c_evs (reg_state s e) = c_evs s /\ c_tree (reg_state s e) = c_tree s /\
  c_idx (reg_state s e) = c_idx s /\ c_cap (reg_state s e) = c_cap s.
Proof. unfold reg_state. destruct (g_is_kind5 (ev_kind e)); cbn; auto. Qed.

Lemma refP_reg dk e :
  (g_is_kind5 (ev_kind e) = true ->
   str_eqb (snd dk) (ev_pk e) && mem_str (fst dk) (k5_keys e) = refP dk e) /\
  (g_is_kind5 (ev_kind e) = false -> refP dk e = false).
Proof.
  unfold refP. rewrite g_is_kind5_del. split; intros ->; cbn; [|reflexivity].
  now rewrite (str_eqb_sym (snd dk)).
Qed.

Lemma st_ins_reg s e :
  St s -> al_get str_eqb (event_key e) (c_evs s) = None ->
  (forall x, In x (retained s) -> ev_id x <> ev_id e) ->
  g_event_type (ev_kind e) <> 3 ->
  St (reg_state (ins_state s (event_key e) e) e).
Proof.
  intros [A D] G Hid Ht. pose proof (invA_ins s e A G Hid Ht) as A1.
  set (s1 := ins_state s (event_key e) e) in *.
  destruct (reg_state_tables s1 e) as [E1 [E2 [E3 E4]]].
  split; [apply (invA_same_tables s1); assumption|].
  assert (retained (reg_state s1 e) = retained s ++ [e]) as RE.
  { unfold retained. rewrite E1. apply (retained_ins s e G). }
  constructor.
  - unfold reg_state. destruct (g_is_kind5 (ev_kind e)); cbn.
    + apply del_reg_fold_nodup, (d_nodup s D).
    + apply (d_nodup s D).
  - intro dk.
    assert (al_get dkey_eqb dk (c_del (reg_state s1 e)) =
            if refP dk e then add_id (ev_id e) (al_get dkey_eqb dk (c_del s))
            else al_get dkey_eqb dk (c_del s)) as ->.
    { destruct (refP_reg dk e) as [R1 R2]. unfold reg_state.
      destruct (g_is_kind5 (ev_kind e)) eqn:Q; cbn [c_add_kind5 c_del s1 ins_state].
      - rewrite del_reg_fold_get by apply (d_nodup s D). now rewrite R1.
      - now rewrite R2. }
    apply (del_ok_add (retained s)); [apply (d_ok s D)|].
    intro x. rewrite RE, in_app_iff. cbn. intuition.
Qed.

(* ------------------------------------------------------------------ *)
(** * Removal by a deletion request *)

Lemma fold_delete_sub evs a : forall s,
  St s ->
  sub_by (fun x => ev_pk x = a /\ exists ev, In ev evs /\ event_key x = event_key ev) s
         (fold_left (fun s2 ev => c_delete s2 (event_key ev, a)) evs s).
Proof.
  induction evs as [|v evs IH]; intros s S; cbn [fold_left].
  - apply sub_by_refl; [assumption|]. intros x _ [_ [ev [[] _]]].
  - pose proof (delete_sub s (event_key v) a S) as SB1.
    assert (St (c_delete s (event_key v, a))) as S1 by apply SB1.
    specialize (IH _ S1).
    eapply sub_by_weaken; [eapply sub_by_trans; [exact SB1 | exact IH]|].
    intros x Hx. cbn beta. split.
    + intros [[E1 E2]|[E2 [ev [Hev E]]]]; (split; [assumption|]).
      * exists v. split; [now left | assumption].
      * exists ev. split; [now right | assumption].
    + intros [E2 [ev [[<-|Hev] E]]].
      * left. split; assumption.
      * right. split; [assumption|]. exists ev. split; assumption.
Qed.

Definition k5_step (a : str) (s0 : cstate) (k : str) : cstate :=
  let s1 := c_delete s0 (k, a) in
  match al_get ikey_eqb (IKId k) (c_idx s1) with
  | None => s1
  | Some evs => fold_left (fun s2 ev => c_delete s2 (event_key ev, a)) evs s1
  end.

Lemma k5_step_sub s k a :
  St s -> sub_by (fun x => ev_pk x = a /\ (event_key x = k \/ ev_id x = k)) s (k5_step a s k).
Proof.
  intro S. unfold k5_step. pose proof (delete_sub s k a S) as SB1.
  set (s1 := c_delete s (k, a)) in *.
  pose proof SB1 as [S1 [_ [_ M1]]]. pose proof S as [A _]. pose proof S1 as [A1 _].
  pose proof (a_idx s1 A1 (IKId k)) as IX.
  destruct (al_get ikey_eqb (IKId k) (c_idx s1)) as [evs|] eqn:G; cbn [idx_ok] in IX.
  - destruct IX as [_ [_ M]]. pose proof (fold_delete_sub evs a s1 S1) as SB2.
    eapply sub_by_weaken; [eapply sub_by_trans; [exact SB1 | exact SB2]|].
    intros x Hx. cbn beta. split.
    + intros [[E1 E2]|[E2 [ev [Hev E]]]]; (split; [assumption|]); [now left|].
      apply M in Hev as [Hev Hk]. apply has_ikey_id in Hk.
      apply M1 in Hev as [Hev _]. right.
      now rewrite (a_key_inj s x ev A Hx Hev E).
    + intros [E2 [E1|E3]]; [left; now split|].
      destruct (str_dec (event_key x) k) as [E1|N]; [left; now split|].
      right. split; [assumption|]. exists x. split; [|reflexivity].
      apply M. split; [|now apply has_ikey_id]. apply M1. split; [assumption|]. now intros [X _].
  - eapply sub_by_weaken; [exact SB1|].
    intros x Hx. cbn beta. split.
    + intros [E1 E2]. split; [assumption | now left].
    + intros [E2 [E1|E3]]; [now split|].
      destruct (str_dec (event_key x) k) as [E1|N]; [now split|]. exfalso.
      assert (In x (retained s1)) as H1 by (apply M1; split; [assumption | now intros [X _]]).
      specialize (IX x H1). apply (proj2 (has_ikey_id k x)) in E3. congruence.
Qed.

Lemma k5_delete_sub e : forall s,
  St s ->
  sub_by (fun x => ev_pk x = ev_pk e /\ exists k, In k (k5_keys e) /\ (event_key x = k \/ ev_id x = k))
         s (c_delete_by_kind5 s e).
Proof.
  unfold c_delete_by_kind5. fold (k5_step (ev_pk e)).
  generalize (k5_keys e) as ks. generalize (ev_pk e) as a. intros a ks.
  induction ks as [|k ks IH]; intros s S; cbn [fold_left].
  - apply sub_by_refl; [assumption|]. intros x _ [_ [k [[] _]]].
  - pose proof (k5_step_sub s k a S) as SB1.
    assert (St (k5_step a s k)) as S1 by apply SB1.
    specialize (IH _ S1).
    eapply sub_by_weaken; [eapply sub_by_trans; [exact SB1 | exact IH]|].
    intros x Hx. cbn beta. split.
    + intros [[E1 E2]|[E2 [k' [Hk E]]]]; (split; [assumption|]).
      * exists k. split; [now left | assumption].
      * exists k'. split; [now right | assumption].
    + intros [E2 [k' [[<-|Hk] E]]].
      * left. split; assumption.
      * right. split; [assumption|]. exists k'. split; assumption.
Qed.

(* ------------------------------------------------------------------ *)
(** * Eviction *)

Definition evict (s2 : cstate) : cstate :=
  if g_over_cap (c_len s2) (c_cap s2)
  then match c_oldest s2 with
       | Some o => c_delete s2 (event_key o, ev_pk o)
       | None => s2
       end
  else s2.

Lemma evict_spec s2 :
  St s2 ->
  St (evict s2) /\ c_cap (evict s2) = c_cap s2 /\
  (forall x, In x (retained (evict s2)) -> In x (retained s2)) /\
  ((c_len s2 <= c_cap s2 /\ evict s2 = s2) \/
   (c_cap s2 < c_len s2 /\ c_tree s2 = [] /\ evict s2 = s2) \/
   (c_cap s2 < c_len s2 /\ exists o, In o (retained s2) /\
      (forall x, In x (retained s2) -> ev_ts o <= ev_ts x) /\
      c_len (evict s2) = c_len s2 - 1 /\
      forall x, In x (retained (evict s2)) <-> In x (retained s2) /\ x <> o)).
Proof.
  intro S. pose proof S as [A D]. unfold evict.
  destruct (g_over_cap (c_len s2) (c_cap s2)) eqn:Q.
  - apply g_over_cap_spec in Q. unfold c_oldest.
    destruct (c_tree s2) as [|t0 tr] eqn:ET.
    + cbn. split; [assumption|]. split; [reflexivity|]. split; [auto|]. right. left. auto.
    + destruct (last_some_nonempty (t0 :: tr)) as [o Ho]; [discriminate|]. rewrite Ho.
      pose proof (a_tree_sorted s2 A) as SS. rewrite ET in SS.
      destruct (sorted_last _ o SS Ho) as [Hin Hall].
      assert (In o (retained s2)) as Hr by (apply (a_tree_In s2 o A); now rewrite ET).
      pose proof (delete_sub s2 (event_key o) (ev_pk o) S) as [S3 [C3 [_ M3]]].
      destruct (delete_present s2 o S Hr) as [L M].
      split; [assumption|]. split; [assumption|]. split; [intros x Hx; now apply M in Hx|].
      right. right. split; [assumption|]. exists o. split; [assumption|]. split; [|split; assumption].
      intros x Hx. apply (a_tree_In s2 x A) in Hx. rewrite ET in Hx.
      destruct (Hall x Hx) as [->|L']; [lia|]. now apply tkey_lt_ts.
  - split; [assumption|]. split; [reflexivity|]. split; [auto|]. left. split; [|reflexivity].
    destruct (Z_lt_le_dec (c_cap s2) (c_len s2)) as [X|X]; [|assumption].
    apply g_over_cap_spec in X. congruence.
Qed.

(* ------------------------------------------------------------------ *)
(** * [c_add] *)

Definition k5_state (s1 : cstate) (e : event) : cstate :=
  if g_is_kind5 (ev_kind e) then c_delete_by_kind5 (c_add_kind5 s1 e) e else s1.

Lemma c_add_unfold s e :
  c_add s e =
  if g_add_skip_ephemeral (g_event_type (ev_kind e)) then (s, true) else
  if g_add_blocked (c_is_deleted s (event_key e) (ev_pk e)) (c_is_deleted s (ev_id e) (ev_pk e))
  then (s, false) else
  match al_get str_eqb (event_key e) (c_evs s) with
  | Some old =>
      if g_add_keep_old (ev_ts old) (ev_ts e) then (s, false)
      else (evict (k5_state (ins_state (c_delete s (event_key e, ev_pk old)) (event_key e) e) e), true)
  | None => (evict (k5_state (ins_state s (event_key e) e) e), true)
  end.
Proof.
  unfold c_add, c_add_inner, evict, k5_state, ins_state.
  destruct (g_add_skip_ephemeral _); [reflexivity|].
  destruct (g_add_blocked _ _); [reflexivity|].
  destruct (al_get str_eqb (event_key e) (c_evs s)) as [old|]; [|reflexivity].
  destruct (g_add_keep_old _ _); reflexivity.
Qed.

(** suppression as the code computes it *)
Definition blockedP (s : cstate) (e : event) : Prop :=
  exists d, In d (retained s) /\ ev_kind d = 5 /\ ev_pk d = ev_pk e /\
            (In (event_key e) (k5_keys d) \/ In (ev_id e) (k5_keys d)).

Lemma refP_true k a d :
  refP (k, a) d = true <-> ev_kind d = 5 /\ ev_pk d = a /\ In k (k5_keys d).
Proof.
  unfold refP. cbn [fst snd]. rewrite !andb_true_iff, g_del_is_kind5_spec, str_eqb_eq, mem_str_In. tauto.
Qed.

Lemma is_deleted_spec s k a :
  InvD s -> (c_is_deleted s k a = true <-> exists d, In d (retained s) /\ refP (k, a) d = true).
Proof.
  intro D. unfold c_is_deleted. pose proof (d_ok s D (k, a)) as H.
  destruct (al_get dkey_eqb (k, a) (c_del s)) as [ids|]; cbn [del_ok] in H.
  - split; [|reflexivity]. intros _. destruct H as [NE [_ M]].
    destruct ids as [|i r]; [congruence|].
    destruct (proj1 (M i) (or_introl eq_refl)) as [d [H1 [H2 _]]]. exists d. auto.
  - split; [discriminate|]. intros [d [H1 H2]]. rewrite (H d H1) in H2. discriminate.
Qed.

Lemma blocked_spec s e :
  InvD s ->
  (g_add_blocked (c_is_deleted s (event_key e) (ev_pk e)) (c_is_deleted s (ev_id e) (ev_pk e)) = true
   <-> blockedP s e).
Proof.
  intro D. rewrite g_add_blocked_spec, orb_true_iff, !is_deleted_spec by assumption.
  unfold blockedP. split.
  - intros [[d [H1 H2]]|[d [H1 H2]]]; apply refP_true in H2 as [K [P I]]; exists d; auto.
  - intros [d [H1 [K [P [I|I]]]]]; [left | right]; exists d; (split; [assumption|]); now apply refP_true.
Qed.

Definition removed_by (e x : event) : Prop :=
  ev_kind e = 5 /\ ev_pk x = ev_pk e /\
  exists k, In k (k5_keys e) /\ (event_key x = k \/ ev_id x = k).

(** the retained set after an accepted insertion, before capacity is applied *)
Definition base_mem (s : cstate) (e x : event) : Prop :=
  (x = e \/ (In x (retained s) /\ event_key x <> event_key e)) /\ ~ removed_by e x.

Lemma add_tail s s0 e :
  St s -> closed s ->
  sub_by (fun x => event_key x = event_key e) s s0 ->
  ids_functional (e :: retained s) ->
  g_event_type (ev_kind e) <> 3 ->
  ~ blockedP s e ->
  let s2 := k5_state (ins_state s0 (event_key e) e) e in
  St s2 /\ c_cap s2 = c_cap s /\ c_len s2 <= c_len s + 1 /\ closed s2 /\
  forall x, In x (retained s2) <-> base_mem s e x.
Proof.
  intros S K [S0 [C0 [L0 M0]]] IF Ht NB. pose proof S0 as [A0 D0].
  assert (al_get str_eqb (event_key e) (c_evs s0) = None) as G.
  { destruct (al_get str_eqb (event_key e) (c_evs s0)) as [y|] eqn:G; [|reflexivity].
    destruct (a_get_key s0 _ y A0 G) as [E Hy]. apply M0 in Hy as [_ N]. contradiction. }
  assert (forall x, In x (retained s0) -> ev_id x <> ev_id e) as Hid.
  { intros x Hx E. apply M0 in Hx as [Hx N]. apply N.
    assert (x = e) as -> by (apply IF; [now right | now left | assumption]). reflexivity. }
  pose proof (st_ins_reg s0 e S0 G Hid Ht) as S1.
  set (s1 := ins_state s0 (event_key e) e) in *.
  destruct (reg_state_tables s1 e) as [E1 [E2 [E3 E4]]].
  assert (forall x, In x (retained (reg_state s1 e)) <->
                    (x = e \/ (In x (retained s) /\ event_key x <> event_key e))) as M1.
  { intro x. unfold retained at 1. rewrite E1. fold (retained s1). unfold s1.
    rewrite (retained_ins s0 e G), in_app_iff, M0. cbn. intuition. }
  assert (c_len (reg_state s1 e) = c_len s0 + 1) as L1.
  { unfold c_len. rewrite E1. unfold s1, ins_state; cbn [c_evs].
    rewrite (al_set_absent str_eqb) by assumption. rewrite app_length. cbn. lia. }
  assert (sub_by (removed_by e) (reg_state s1 e) (k5_state s1 e)) as SB.
  { unfold k5_state, removed_by. destruct (g_is_kind5 (ev_kind e)) eqn:Q.
    - assert (c_add_kind5 s1 e = reg_state s1 e) as -> by (unfold reg_state; now rewrite Q).
      apply g_is_kind5_spec in Q.
      eapply sub_by_weaken; [apply k5_delete_sub; exact S1|].
      intros x _. cbn beta. tauto.
    - assert (s1 = reg_state s1 e) as R by (unfold reg_state; now rewrite Q).
      rewrite R at 2. apply sub_by_refl; [assumption|].
      intros x _ [X _]. apply g_is_kind5_spec in X. congruence. }
  destruct SB as [S2 [C2 [L2 M2]]].
  assert (forall x, In x (retained (k5_state s1 e)) <-> base_mem s e x) as MM.
  { intro x. unfold base_mem. rewrite M2, M1. reflexivity. }
  split; [exact S2|]. split; [unfold s1 in *; cbn in *; congruence|]. split; [lia|]. split; [|exact MM].
  (* closedness *)
  intros x d Hx Hd Kd P. apply MM in Hx as [Hx Nx]. apply MM in Hd as [Hd _].
  apply g_del_is_kind5_spec in Kd.
  destruct Hd as [->|[Hd _]].
  - split; intro I; apply Nx; (split; [assumption|]; split; [assumption|]).
    + exists (event_key x). auto.
    + exists (ev_id x). auto.
  - destruct Hx as [->|[Hx _]].
    + split; intro I; apply NB; exists d; auto.
    + apply K; try assumption. now apply g_del_is_kind5_spec.
Qed.

(** the four ways an insertion can go, with the retained set afterwards *)
Definition add_accepted (s : cstate) (e : event) : Prop :=
  g_event_type (ev_kind e) <> 3 /\ ~ blockedP s e /\ ~ In e (retained s) /\
  (forall old, In old (retained s) -> event_key old = event_key e -> ev_ts old < ev_ts e) /\
  exists s2, snd (c_add s e) = true /\ fst (c_add s e) = evict s2 /\
             St s2 /\ c_cap s2 = c_cap s /\ c_len s2 <= c_len s + 1 /\ closed s2 /\
             forall x, In x (retained s2) <-> base_mem s e x.

Lemma c_add_cases s e :
  Inv s -> ids_functional (e :: retained s) ->
  (g_event_type (ev_kind e) = 3 /\ c_add s e = (s, true)) \/
  (g_event_type (ev_kind e) <> 3 /\ blockedP s e /\ c_add s e = (s, false)) \/
  (g_event_type (ev_kind e) <> 3 /\ ~ blockedP s e /\
   (exists old, In old (retained s) /\ event_key old = event_key e /\ ev_ts e <= ev_ts old) /\
   c_add s e = (s, false)) \/
  add_accepted s e.
Proof.
  intros I IF. apply inv_split in I as [A [D [C K]]].
  unfold add_accepted. rewrite c_add_unfold.
  destruct (g_add_skip_ephemeral (g_event_type (ev_kind e))) eqn:Q1.
  { left. apply g_add_skip_ephemeral_spec in Q1. auto. }
  assert (g_event_type (ev_kind e) <> 3) as Ht.
  { intro X. apply g_add_skip_ephemeral_spec in X. congruence. }
  right.
  destruct (g_add_blocked _ _) eqn:Q2.
  { left. apply (blocked_spec s e D) in Q2. auto. }
  assert (~ blockedP s e) as NB.
  { intro X. apply (blocked_spec s e D) in X. congruence. }
  right.
  destruct (al_get str_eqb (event_key e) (c_evs s)) as [old|] eqn:G.
  - destruct (a_get_key s _ old A G) as [Ek Ho].
    destruct (g_add_keep_old (ev_ts old) (ev_ts e)) eqn:Q3.
    + left. apply g_add_keep_old_spec in Q3. repeat split; auto. exists old. auto.
    + right. assert (ev_ts old < ev_ts e) as Lt.
      { destruct (Z_lt_le_dec (ev_ts old) (ev_ts e)) as [X|X]; [assumption|].
        apply g_add_keep_old_spec in X. congruence. }
      assert (forall x, In x (retained s) -> event_key x = event_key e -> x = old) as Uo.
      { intros x Hx E. apply (a_key_inj s x old A Hx Ho). congruence. }
      split; [assumption|]. split; [assumption|]. split.
      { intro He. rewrite (Uo e He eq_refl) in Lt. lia. }
      split. { intros x Hx E. now rewrite (Uo x Hx E). }
      assert (sub_by (fun x => event_key x = event_key e) s (c_delete s (event_key e, ev_pk old))) as SB.
      { eapply sub_by_weaken; [apply delete_sub; split; assumption|].
        intros x Hx. cbn beta. split; [tauto|]. intro E. split; [assumption|]. now rewrite (Uo x Hx E). }
      pose proof (add_tail s _ e (conj A D) K SB IF Ht NB) as T. cbv zeta in T.
      eexists. split; [reflexivity|]. split; [reflexivity|]. exact T.
  - right. split; [assumption|]. split; [assumption|].
    assert (forall x, In x (retained s) -> event_key x <> event_key e) as Nk.
    { intros x Hx E. apply (a_get_retained s x A) in Hx. rewrite E, G in Hx. discriminate. }
    split. { intro He. now apply (Nk e He). }
    split. { intros x Hx E. exfalso. now apply (Nk x Hx). }
    assert (sub_by (fun x => event_key x = event_key e) s s) as SB.
    { apply sub_by_refl; [split; assumption|]. exact Nk. }
    pose proof (add_tail s _ e (conj A D) K SB IF Ht NB) as T. cbv zeta in T.
    eexists. split; [reflexivity|]. split; [reflexivity|]. exact T.
Qed.

Lemma inv_evict s s2 :
  (1 <= c_cap s -> c_len s <= c_cap s) ->
  St s2 -> c_cap s2 = c_cap s -> c_len s2 <= c_len s + 1 -> closed s2 -> Inv (evict s2).
Proof.
  intros C S2 C2 L2 K2.
  destruct (evict_spec s2 S2) as [[A3 D3] [C3 [Sub Cases]]].
  apply inv_split. split; [exact A3|]. split; [exact D3|]. split.
  - intro H. rewrite C3, C2 in *. specialize (C H).
    destruct Cases as [[L E]|[[L [T E]]|[L [o [_ [_ [L3 _]]]]]]].
    + rewrite E. lia.
    + rewrite E. rewrite (a_len_tree s2 (proj1 S2)), T in L. cbn in L. lia.
    + lia.
  - intros x d Hx Hd. apply K2; now apply Sub.
Qed.

Lemma inv_add s e : Inv s -> ids_functional (e :: retained s) -> Inv (fst (c_add s e)).
Proof.
  intros I IF.
  destruct (c_add_cases s e I IF) as [[_ E]|[[_ [_ E]]|[[_ [_ [_ E]]]|[_ [_ [_ [_ [s2 [_ [E T]]]]]]]]]];
    try (rewrite E; exact I).
  rewrite E. destruct T as [S2 [C2 [L2 [K2 _]]]].
  apply inv_split in I as [_ [_ [C _]]]. now apply (inv_evict s s2).
Qed.

(** nothing enters the store except the inserted event; the capacity is fixed *)
Lemma add_retained_sub s e x :
  Inv s -> ids_functional (e :: retained s) ->
  In x (retained (fst (c_add s e))) -> x = e \/ In x (retained s).
Proof.
  intros I IF Hx.
  destruct (c_add_cases s e I IF) as [[_ E]|[[_ [_ E]]|[[_ [_ [_ E]]]|[_ [_ [_ [_ [s2 [_ [E T]]]]]]]]]];
    try (rewrite E in Hx; now right).
  rewrite E in Hx. destruct T as [S2 [_ [_ [_ M]]]].
  destruct (evict_spec s2 S2) as [_ [_ [Sub _]]]. apply Sub, M in Hx as [[->|[Hx _]] _]; auto.
Qed.

Lemma add_cap s e : c_cap (fst (c_add s e)) = c_cap s.
Proof.
  assert (forall s k, c_cap (c_delete s k) = c_cap s) as CD.
  { intros s0 k. unfold c_delete. destruct (al_get _ _ _); [|reflexivity].
    destruct (g_del_other_author _ _); reflexivity. }
  assert (forall evs a s0, c_cap (fold_left (fun s2 ev => c_delete s2 (event_key ev, a)) evs s0) = c_cap s0) as CF.
  { induction evs as [|v evs IH]; intros a s0; cbn [fold_left]; [reflexivity|]. now rewrite IH, CD. }
  assert (forall a s0 k, c_cap (k5_step a s0 k) = c_cap s0) as CS.
  { intros a s0 k. unfold k5_step. destruct (al_get _ _ _); [rewrite CF|]; apply CD. }
  assert (forall ks a s0, c_cap (fold_left (k5_step a) ks s0) = c_cap s0) as CK.
  { induction ks as [|k ks IH]; intros a s0; cbn [fold_left]; [reflexivity|]. now rewrite IH, CS. }
  assert (forall s0, c_cap (evict s0) = c_cap s0) as CE.
  { intro s0. unfold evict. destruct (g_over_cap _ _); [|reflexivity].
    destruct (c_oldest s0); [apply CD | reflexivity]. }
  assert (forall s1, c_cap (k5_state s1 e) = c_cap s1) as C5.
  { intro s1. unfold k5_state. destruct (g_is_kind5 _); [|reflexivity].
    unfold c_delete_by_kind5. fold (k5_step (ev_pk e)). now rewrite CK. }
  rewrite c_add_unfold.
  destruct (g_add_skip_ephemeral _); [reflexivity|].
  destruct (g_add_blocked _ _); [reflexivity|].
  destruct (al_get str_eqb (event_key e) (c_evs s)) as [old|].
  - destruct (g_add_keep_old _ _); [reflexivity|]. cbn [fst]. rewrite CE, C5. cbn [ins_state c_cap]. apply CD.
  - cbn [fst]. rewrite CE, C5. reflexivity.
Qed.

(* ------------------------------------------------------------------ *)
(** * Histories *)

Lemma c_run_snoc cap h e : c_run cap (h ++ [e]) = fst (c_add (c_run cap h) e).
Proof. unfold c_run. now rewrite fold_left_app. Qed.

Lemma ids_functional_sub (l l' : list event) :
  (forall x, In x l' -> In x l) -> ids_functional l -> ids_functional l'.
Proof. intros H F a b Ha Hb. apply F; now apply H. Qed.

Lemma run_inv_sub cap h :
  ids_functional h ->
  Inv (c_run cap h) /\ (forall x, In x (retained (c_run cap h)) -> In x h) /\
  c_cap (c_run cap h) = cap.
Proof.
  induction h as [|e h IH] using rev_ind; intro IF.
  - split; [apply inv_empty|]. split; [intros x []|reflexivity].
  - rewrite c_run_snoc.
    assert (ids_functional h) as IFh.
    { eapply ids_functional_sub; [|exact IF]. intros x Hx. apply in_or_app. now left. }
    destruct (IH IFh) as [I [Sub C]].
    assert (ids_functional (e :: retained (c_run cap h))) as IFe.
    { eapply ids_functional_sub; [|exact IF]. intros x [<-|Hx]; apply in_or_app; [right; now left|].
      left. now apply Sub. }
    split; [now apply inv_add|]. split; [|now rewrite add_cap].
    intros x Hx. apply add_retained_sub in Hx as [->|Hx]; try assumption; apply in_or_app.
    + right. now left.
    + left. now apply Sub.
Qed.

Lemma inv_reachable cap h : hist_ok h -> Inv (c_run cap h).
Proof. intros [IF _]. apply (run_inv_sub cap h IF). Qed.
