(* CacheKeyFacts.v — facts about the keys of the cache model: the byte-string
   order, the created_at tree order, decimal rendering, event classes, the
   d value and [event_key].  Each generated guard used here is unfolded in
   exactly one lemma ([g_created_key_lt_spec], [g_event_type_spec]); every
   other proof goes through that lemma, so that a regenerated guard breaks
   exactly the named lemma. *)
From Coq Require Import Ascii DecimalString Decimal DecimalZ DecimalFacts.
From Coq Require String.
From Moc Require Import Base Match Cache CacheSpec CacheInv CacheHyp.
From Moc.Gen Require Import GenMsg GenCache.
Open Scope Z_scope.

(* ------------------------------------------------------------------ *)
(** * A. The order on byte strings *)

Lemma str_ltb_cons x a y b :
  str_ltb (x :: a) (y :: b) = true <-> ((x < y)%N \/ (x = y /\ str_ltb a b = true)).
Proof.
  cbn [str_ltb].
  destruct (N.ltb_spec x y) as [H|H].
  - split; [intros _; now left | reflexivity].
  - destruct (N.eqb_spec x y) as [E|E].
    + split; [intro; now right | intros [L|[_ L]]; [lia | assumption]].
    + split; [discriminate | intros [L|[L _]]; [lia | contradiction]].
Qed.

Lemma str_ltb_irrefl a : str_ltb a a = false.
Proof.
  induction a as [|x a IH]; [reflexivity|].
  destruct (str_ltb (x :: a) (x :: a)) eqn:E; [|reflexivity].
  apply str_ltb_cons in E as [L|[_ L]]; [lia | congruence].
Qed.

Lemma str_ltb_trans a b c : str_ltb a b = true -> str_ltb b c = true -> str_ltb a c = true.
Proof.
  revert b c; induction a as [|x a IH]; intros [|y b] [|z c] H1 H2;
    try discriminate; try reflexivity.
  apply str_ltb_cons in H1. apply str_ltb_cons in H2. apply str_ltb_cons.
  destruct H1 as [L1|[E1 L1]], H2 as [L2|[E2 L2]]; subst.
  - left; lia.
  - now left.
  - now left.
  - right; split; [reflexivity | now apply IH with b].
Qed.

Lemma str_ltb_asym a b : str_ltb a b = true -> str_ltb b a = false.
Proof.
  intro H. destruct (str_ltb b a) eqn:E; [|reflexivity].
  pose proof (str_ltb_trans _ _ _ H E) as T. rewrite str_ltb_irrefl in T. discriminate.
Qed.

Lemma str_ltb_total a b : str_ltb a b = false -> str_ltb b a = false -> a = b.
Proof.
  revert b; induction a as [|x a IH]; intros [|y b] H1 H2;
    try discriminate; try reflexivity.
  destruct (N.lt_trichotomy x y) as [L|[E|L]].
  - assert (T : str_ltb (x :: a) (y :: b) = true) by (apply str_ltb_cons; now left). congruence.
  - subst y. f_equal. apply IH.
    + destruct (str_ltb a b) eqn:E; [|reflexivity].
      assert (T : str_ltb (x :: a) (x :: b) = true) by (apply str_ltb_cons; now right). congruence.
    + destruct (str_ltb b a) eqn:E; [|reflexivity].
      assert (T : str_ltb (x :: b) (x :: a) = true) by (apply str_ltb_cons; now right). congruence.
  - assert (T : str_ltb (y :: b) (x :: a) = true) by (apply str_ltb_cons; now left). congruence.
Qed.

(* ------------------------------------------------------------------ *)
(** * B. The order of the created_at tree *)

(** the only place that unfolds [g_created_key_lt] *)
Lemma g_created_key_lt_spec ats aid bts bid :
  g_created_key_lt ats aid bts bid = true <->
  (bts < ats \/ (bts = ats /\ str_ltb bid aid = true)).
Proof.
  unfold g_created_key_lt.
  rewrite orb_true_iff, andb_true_iff, Z.ltb_lt, Z.eqb_eq. reflexivity.
Qed.

Lemma tkey_lt_spec a b :
  tkey_lt a b = true <->
  (ev_ts b < ev_ts a \/ (ev_ts b = ev_ts a /\ str_ltb (ev_id b) (ev_id a) = true)).
Proof. unfold tkey_lt. apply g_created_key_lt_spec. Qed.

Lemma tkey_lt_irrefl a : tkey_lt a a = false.
Proof.
  destruct (tkey_lt a a) eqn:E; [|reflexivity].
  apply tkey_lt_spec in E as [L|[_ L]]; [lia | rewrite str_ltb_irrefl in L; discriminate].
Qed.

Lemma tkey_lt_trans a b c : tkey_lt a b = true -> tkey_lt b c = true -> tkey_lt a c = true.
Proof.
  intros H1 H2. apply tkey_lt_spec in H1. apply tkey_lt_spec in H2. apply tkey_lt_spec.
  destruct H1 as [L1|[E1 L1]], H2 as [L2|[E2 L2]].
  - left; lia.
  - left; lia.
  - left; lia.
  - right; split; [lia | now apply str_ltb_trans with (ev_id b)].
Qed.

Lemma tkey_lt_asym a b : tkey_lt a b = true -> tkey_lt b a = false.
Proof.
  intro H. destruct (tkey_lt b a) eqn:E; [|reflexivity].
  pose proof (tkey_lt_trans _ _ _ H E) as T. rewrite tkey_lt_irrefl in T. discriminate.
Qed.

Lemma tkey_lt_false a b :
  tkey_lt a b = false <->
  (ev_ts a < ev_ts b \/ (ev_ts a = ev_ts b /\ str_ltb (ev_id b) (ev_id a) = false)).
Proof.
  split.
  - intro H.
    destruct (Z.lt_trichotomy (ev_ts a) (ev_ts b)) as [L|[E|L]].
    + now left.
    + right; split; [assumption|].
      destruct (str_ltb (ev_id b) (ev_id a)) eqn:S; [|reflexivity].
      assert (T : tkey_lt a b = true) by (apply tkey_lt_spec; right; split; [lia | assumption]).
      congruence.
    + assert (T : tkey_lt a b = true) by (apply tkey_lt_spec; now left). congruence.
  - intro H. destruct (tkey_lt a b) eqn:E; [|reflexivity].
    apply tkey_lt_spec in E. destruct H as [L|[E1 L]], E as [L'|[E2 L']]; try lia; congruence.
Qed.

Lemma tkey_eq_spec a b : tkey_eq a b = true <-> (ev_ts a = ev_ts b /\ ev_id a = ev_id b).
Proof.
  unfold tkey_eq. rewrite andb_true_iff, !negb_true_iff, !tkey_lt_false. split.
  - intros [[L1|[E1 S1]] [L2|[E2 S2]]]; try lia.
    split; [assumption | now apply str_ltb_total].
  - intros [E1 E2]. rewrite E1, E2, str_ltb_irrefl. split; right; split; reflexivity.
Qed.

Lemma tkey_eq_refl a : tkey_eq a a = true.
Proof. apply tkey_eq_spec. split; reflexivity. Qed.

Lemma tkey_total a b : tkey_lt a b = false -> tkey_eq a b = false -> tkey_lt b a = true.
Proof.
  unfold tkey_eq. intros H1 H2. rewrite H1 in H2. cbn in H2.
  now apply negb_false_iff in H2.
Qed.

Lemma tkey_lt_ts a b : tkey_lt a b = true -> ev_ts b <= ev_ts a.
Proof. intro H. apply tkey_lt_spec in H. lia. Qed.

(* ------------------------------------------------------------------ *)
(** * C. Decimal rendering and colons *)

Lemma ncolon_app a b : ncolon (a ++ b) = (ncolon a + ncolon b)%nat.
Proof. unfold ncolon. now rewrite filter_app, app_length. Qed.

Lemma ncolon_cons_colon s : ncolon (colon :: s) = S (ncolon s).
Proof. unfold ncolon. cbn [filter]. now rewrite N.eqb_refl. Qed.

Lemma ncolon_cons_other x s : x <> colon -> ncolon (x :: s) = ncolon s.
Proof.
  intro H. unfold ncolon. cbn [filter].
  destruct (N.eqb_spec colon x) as [E|E]; [congruence | reflexivity].
Qed.

Lemma ncolon_colon_free s : colon_free s <-> ncolon s = 0%nat.
Proof.
  unfold colon_free. induction s as [|x s IH].
  - split; [reflexivity | intros _ []].
  - destruct (N.eq_dec x colon) as [E|E].
    + subst x. rewrite ncolon_cons_colon. split; [|discriminate].
      intro H. exfalso. apply H. now left.
    + rewrite ncolon_cons_other by assumption. rewrite <- IH. split.
      * intros H Hin. apply H. now right.
      * intros H [Hx|Hin]; [congruence | contradiction].
Qed.

Lemma str_of_string_inj s t : str_of_string s = str_of_string t -> s = t.
Proof.
  unfold str_of_string. intro H.
  rewrite <- (String.string_of_list_ascii_of_string s), <- (String.string_of_list_ascii_of_string t).
  f_equal. revert H.
  generalize (String.list_ascii_of_string s) (String.list_ascii_of_string t).
  intros l; induction l as [|x l IH]; intros [|y m] H; try discriminate; [reflexivity|].
  cbn [map] in H. inversion H as [[Hx Hl]]. f_equal.
  - rewrite <- (ascii_N_embedding x), <- (ascii_N_embedding y). now rewrite Hx.
  - now apply IH.
Qed.

Lemma to_int_not_nil z : Z.to_int z <> Pos Nil /\ Z.to_int z <> Neg Nil.
Proof.
  destruct z as [|p|p]; cbn [Z.to_int]; split; try discriminate;
    intro H; inversion H as [E]; now apply DecimalPos.Unsigned.to_uint_nonnil in E.
Qed.

Lemma showZ_inj a b : showZ a = showZ b -> a = b.
Proof.
  unfold showZ. intro H. apply str_of_string_inj in H.
  apply DecimalZ.to_int_inj.
  destruct (to_int_not_nil a) as [A1 A2], (to_int_not_nil b) as [B1 B2].
  pose proof (NilZero.isi _ A1 A2) as Ia. pose proof (NilZero.isi _ B1 B2) as Ib.
  rewrite H in Ia. rewrite Ia in Ib. now inversion Ib.
Qed.

Lemma colon_free_digits d : colon_free (str_of_string (NilEmpty.string_of_uint d)).
Proof.
  unfold colon_free, str_of_string.
  induction d; cbn; intro H;
    try (destruct H as [H|H]; [discriminate H | contradiction]); assumption.
Qed.

Lemma colon_free_uint d : colon_free (str_of_string (NilZero.string_of_uint d)).
Proof.
  destruct d; try apply (colon_free_digits (_ _)).
  unfold colon_free; cbn. intros [H|[]]. discriminate H.
Qed.

Lemma showZ_colon_free z : colon_free (showZ z).
Proof.
  unfold showZ. destruct (Z.to_int z) as [d|d]; cbn [NilZero.string_of_int].
  - apply colon_free_uint.
  - pose proof (colon_free_uint d) as H. unfold colon_free, str_of_string in *.
    cbn [String.list_ascii_of_string map]. intros [E|Hin]; [discriminate E | contradiction].
Qed.

Lemma ncolon_showZ z : ncolon (showZ z) = 0%nat.
Proof. apply ncolon_colon_free, showZ_colon_free. Qed.

(* ------------------------------------------------------------------ *)
(** * D. Event classes *)

Ltac ztests :=
  repeat match goal with
         | |- context [Z.eqb ?a ?b] => destruct (Z.eqb_spec a b); try (exfalso; lia)
         | |- context [Z.leb ?a ?b] => destruct (Z.leb_spec a b); try (exfalso; lia)
         | |- context [Z.ltb ?a ?b] => destruct (Z.ltb_spec a b); try (exfalso; lia)
         end.

(** the only place that unfolds [g_event_type] *)
Lemma g_event_type_spec k :
  (g_event_type k = 2 <-> cls_replaceable k = true) /\
  (g_event_type k = 3 <-> cls_ephemeral k = true) /\
  (g_event_type k = 4 <-> cls_addressable k = true) /\
  (g_event_type k = 1 <->
   (cls_replaceable k = false /\ cls_ephemeral k = false /\ cls_addressable k = false)).
Proof.
  unfold g_event_type, cls_replaceable, cls_ephemeral, cls_addressable.
  assert (C : k < 0 \/ k = 0 \/ 0 < k < 3 \/ k = 3 \/ 3 < k < 10000 \/
              10000 <= k <= 19999 \/ 20000 <= k <= 29999 \/ 30000 <= k <= 39999 \/
              40000 <= k) by lia.
  destruct C as [C|[C|[C|[C|[C|[C|[C|[C|C]]]]]]]]; ztests; cbn;
    repeat split; intros; try reflexivity; try discriminate;
    repeat match goal with H : _ /\ _ |- _ => destruct H end; discriminate.
Qed.

Lemma g_event_type_cases k :
  g_event_type k = 1 \/ g_event_type k = 2 \/ g_event_type k = 3 \/ g_event_type k = 4.
Proof.
  destruct (g_event_type_spec k) as [H2 [H3 [H4 H1]]].
  destruct (cls_replaceable k); [right; left; now apply H2|].
  destruct (cls_ephemeral k); [right; right; left; now apply H3|].
  destruct (cls_addressable k); [right; right; right; now apply H4|].
  left. apply H1. repeat split.
Qed.

Lemma cls_disjoint k :
  (cls_replaceable k = true -> cls_ephemeral k = false /\ cls_addressable k = false) /\
  (cls_ephemeral k = true -> cls_replaceable k = false /\ cls_addressable k = false) /\
  (cls_addressable k = true -> cls_replaceable k = false /\ cls_ephemeral k = false).
Proof.
  destruct (g_event_type_spec k) as [H2 [H3 [H4 _]]].
  destruct (cls_replaceable k), (cls_ephemeral k), (cls_addressable k);
    repeat split; intros; try reflexivity; try discriminate; exfalso;
    repeat match goal with
           | H : _ <-> true = true |- _ => let E := fresh in assert (E := proj2 H eq_refl); clear H
           end; congruence.
Qed.

(* ------------------------------------------------------------------ *)
(** * E. The d value and the storage key *)

Lemma find_d_tag_d_value tags :
  match find_d_tag tags with None => [] | Some t => tag_value t end = d_value_of tags.
Proof.
  induction tags as [|t rest IH]; [reflexivity|].
  cbn [find_d_tag d_value_of]. destruct t as [|n t']; [assumption|].
  change d_str with d_name. destruct (str_eqb n d_name); [reflexivity | assumption].
Qed.

Lemma event_key_regular e : g_event_type (ev_kind e) = 1 -> event_key e = ev_id e.
Proof. intro H. unfold event_key. cbv zeta. rewrite H. reflexivity. Qed.

Lemma event_key_replaceable e :
  g_event_type (ev_kind e) = 2 -> event_key e = showZ (ev_kind e) ++ [colon] ++ ev_pk e.
Proof. intro H. unfold event_key. cbv zeta. rewrite H. reflexivity. Qed.

Lemma event_key_addressable e : g_event_type (ev_kind e) = 4 -> event_key e = address_of e.
Proof.
  intro H. unfold event_key. cbv zeta. rewrite H.
  change (4 =? 1) with false. change (4 =? 2) with false. change (4 =? 4) with true. cbv iota.
  rewrite find_d_tag_d_value. reflexivity.
Qed.

Lemma event_key_ephemeral e : g_event_type (ev_kind e) = 3 -> event_key e = [].
Proof. intro H. unfold event_key. cbv zeta. rewrite H. reflexivity. Qed.

Lemma event_key_ncolon e :
  key_wf e ->
  (g_event_type (ev_kind e) = 1 -> ncolon (event_key e) = 0%nat) /\
  (g_event_type (ev_kind e) = 2 -> ncolon (event_key e) = 1%nat) /\
  (g_event_type (ev_kind e) = 4 -> (2 <= ncolon (event_key e))%nat).
Proof.
  intros [Hid Hpk]. apply ncolon_colon_free in Hid. apply ncolon_colon_free in Hpk.
  repeat split; intro H.
  - now rewrite event_key_regular.
  - rewrite event_key_replaceable by assumption.
    cbn [app]. rewrite ncolon_app, ncolon_cons_colon, ncolon_showZ, Hpk. reflexivity.
  - rewrite event_key_addressable by assumption. unfold address_of.
    cbn [app]. rewrite ncolon_app, ncolon_cons_colon, ncolon_app, ncolon_cons_colon. lia.
Qed.

Lemma split_at_colon a b a' b' :
  colon_free a -> colon_free a' -> a ++ colon :: b = a' ++ colon :: b' -> a = a' /\ b = b'.
Proof.
  unfold colon_free. revert a'; induction a as [|x a IH]; intros [|y a'] Ha Ha' E; cbn [app] in E.
  - inversion E. now split.
  - inversion E as [[Hx Hr]]. exfalso. apply Ha'. now left.
  - inversion E as [[Hx Hr]]. exfalso. apply Ha. now left.
  - inversion E as [[Hx Hr]]. subst y.
    destruct (IH a') as [E1 E2]; try assumption.
    + intro Hin. apply Ha. now right.
    + intro Hin. apply Ha'. now right.
    + subst. now split.
Qed.

Lemma same_address_spec x y :
  same_address x y = true <->
  (ev_kind x = ev_kind y /\ ev_pk x = ev_pk y /\
   (cls_replaceable (ev_kind x) = true \/
    (cls_addressable (ev_kind x) = true /\ d_value x = d_value y))).
Proof.
  unfold same_address.
  rewrite !andb_true_iff, orb_true_iff, andb_true_iff, Z.eqb_eq, !str_eqb_eq. tauto.
Qed.

Lemma event_key_inj x y :
  key_wf x -> key_wf y ->
  g_event_type (ev_kind x) <> 3 -> g_event_type (ev_kind y) <> 3 ->
  event_key x = event_key y ->
  (g_event_type (ev_kind x) = 1 /\ g_event_type (ev_kind y) = 1 /\ ev_id x = ev_id y) \/
  same_address x y = true.
Proof.
  intros Wx Wy Nx Ny E.
  destruct (event_key_ncolon x Wx) as [X1 [X2 X4]].
  destruct (event_key_ncolon y Wy) as [Y1 [Y2 Y4]].
  destruct Wx as [_ Px], Wy as [_ Py].
  destruct (g_event_type_cases (ev_kind x)) as [Tx|[Tx|[Tx|Tx]]]; [| |contradiction|];
    (destruct (g_event_type_cases (ev_kind y)) as [Ty|[Ty|[Ty|Ty]]]; [| |contradiction|]);
    try (exfalso;
         try specialize (X1 Tx); try specialize (X2 Tx); try specialize (X4 Tx);
         try specialize (Y1 Ty); try specialize (Y2 Ty); try specialize (Y4 Ty);
         rewrite E in *; lia).
  - left. rewrite (event_key_regular x Tx), (event_key_regular y Ty) in E. auto.
  - right. rewrite (event_key_replaceable x Tx), (event_key_replaceable y Ty) in E.
    cbn [app] in E.
    apply split_at_colon in E as [Ek Ep]; try apply showZ_colon_free.
    apply showZ_inj in Ek. apply same_address_spec. repeat split; try assumption.
    left. now apply (g_event_type_spec (ev_kind x)).
  - right. rewrite (event_key_addressable x Tx), (event_key_addressable y Ty) in E.
    unfold address_of in E. cbn [app] in E.
    apply split_at_colon in E as [Ek E]; try apply showZ_colon_free.
    apply split_at_colon in E as [Ep Ed]; try assumption.
    apply showZ_inj in Ek. apply same_address_spec. repeat split; try assumption.
    right. split; [|assumption]. now apply (g_event_type_spec (ev_kind x)).
Qed.

Lemma same_address_key x y : same_address x y = true -> event_key x = event_key y.
Proof.
  intro H. apply same_address_spec in H as [Ek [Ep [R|[A Ed]]]].
  - assert (Tx : g_event_type (ev_kind x) = 2) by now apply (g_event_type_spec (ev_kind x)).
    assert (Ty : g_event_type (ev_kind y) = 2) by now rewrite <- Ek.
    rewrite (event_key_replaceable x Tx), (event_key_replaceable y Ty). now rewrite Ek, Ep.
  - assert (Tx : g_event_type (ev_kind x) = 4) by now apply (g_event_type_spec (ev_kind x)).
    assert (Ty : g_event_type (ev_kind y) = 4) by now rewrite <- Ek.
    rewrite (event_key_addressable x Tx), (event_key_addressable y Ty).
    unfold address_of. now rewrite Ek, Ep, Ed.
Qed.

Lemma same_address_sym x y : same_address x y = same_address y x.
Proof.
  destruct (same_address x y) eqn:E1, (same_address y x) eqn:E2; try reflexivity; exfalso.
  - apply same_address_spec in E1 as [Ek [Ep H]].
    assert (T : same_address y x = true).
    { apply same_address_spec. rewrite <- Ek. repeat split; try congruence.
      destruct H as [R|[A Ed]]; [now left | right; split; congruence]. }
    congruence.
  - apply same_address_spec in E2 as [Ek [Ep H]].
    assert (T : same_address x y = true).
    { apply same_address_spec. rewrite <- Ek. repeat split; try congruence.
      destruct H as [R|[A Ed]]; [now left | right; split; congruence]. }
    congruence.
Qed.

Lemma same_address_class x y :
  same_address x y = true ->
  (g_event_type (ev_kind x) = 2 \/ g_event_type (ev_kind x) = 4) /\
  ev_kind x = ev_kind y /\ ev_pk x = ev_pk y.
Proof.
  intro H. apply same_address_spec in H as [Ek [Ep H]]. repeat split; try assumption.
  destruct H as [R|[A _]]; [left | right]; now apply (g_event_type_spec (ev_kind x)).
Qed.

Lemma same_address_not_ephemeral x y : same_address x y = true -> cls_ephemeral (ev_kind y) = false.
Proof.
  intro H. apply same_address_spec in H as [Ek [_ H]]. rewrite <- Ek.
  destruct (cls_disjoint (ev_kind x)) as [D1 [_ D3]].
  destruct H as [R|[A _]]; [now apply D1 | now apply D3].
Qed.
