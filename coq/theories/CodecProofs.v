(* CodecProofs.v — C10: proofs about the codec model of Codec.v.
   Layout: (1) one characterising lemma per generated guard / constant; all
   later proofs use only these, so a changed guard breaks one named lemma;
   (2) JSON objects, numbers, list decoders; (3) round trips encode -> decode
   per type; (4) decoded values are well formed (filled) and decoders never
   reach a panic; (5) decode-encode-decode and ParseClientMsg. *)
From Moc Require Import Base Json CodecMsg Codec.
From Moc.Gen Require Import GenCodec.
Open Scope Z_scope.

(* ================================================================== *)
(** * 1. Generated guards and constants *)

Lemma label_event_pin : g_MsgLabelEvent = L_EVENT. Proof. reflexivity. Qed.
Lemma label_req_pin : g_MsgLabelReq = L_REQ. Proof. reflexivity. Qed.
Lemma label_close_pin : g_MsgLabelClose = L_CLOSE. Proof. reflexivity. Qed.
Lemma label_auth_pin : g_MsgLabelAuth = L_AUTH. Proof. reflexivity. Qed.
Lemma label_count_pin : g_MsgLabelCount = L_COUNT. Proof. reflexivity. Qed.
Lemma label_eose_pin : g_MsgLabelEOSE = L_EOSE. Proof. reflexivity. Qed.
Lemma label_notice_pin : g_MsgLabelNotice = L_NOTICE. Proof. reflexivity. Qed.
Lemma label_ok_pin : g_MsgLabelOK = L_OK. Proof. reflexivity. Qed.
Lemma label_closed_pin : g_MsgLabelClosed = L_CLOSED. Proof. reflexivity. Qed.

Lemma prefixes_pin :
  [g_MachineReadablePrefixPoW; g_MachineReadablePrefixDuplicate; g_MachineReadablePrefixBlocked;
   g_MachineReadablePrefixRateLimited; g_MachineReadablePrefixInvalid; g_MachineReadablePrefixError]
  = mr_prefixes.
Proof. reflexivity. Qed.

(** the label pattern is one of the two spellings the model interprets *)
Lemma client_msg_regexp_pinned : regexp_known = true.
Proof. reflexivity. Qed.

Lemma negb_eqb_false n k : negb (n =? k) = false <-> n = k.
Proof. rewrite negb_false_iff. apply Z.eqb_eq. Qed.

Lemma g_cevent_arity_bad_spec n : g_cevent_arity_bad n = false <-> n = 2.
Proof. apply negb_eqb_false. Qed.
Lemma g_creq_arity_bad_spec n : g_creq_arity_bad n = false <-> 3 <= n.
Proof. unfold g_creq_arity_bad. rewrite Z.ltb_ge. reflexivity. Qed.
Lemma g_cclose_arity_bad_spec n : g_cclose_arity_bad n = false <-> n = 2.
Proof. apply negb_eqb_false. Qed.
Lemma g_cauth_arity_bad_spec n : g_cauth_arity_bad n = false <-> n = 2.
Proof. apply negb_eqb_false. Qed.
Lemma g_ccount_arity_bad_spec n : g_ccount_arity_bad n = false <-> 3 <= n.
Proof. unfold g_ccount_arity_bad. rewrite Z.ltb_ge. reflexivity. Qed.
Lemma g_seose_arity_bad_spec n : g_seose_arity_bad n = false <-> n = 2.
Proof. apply negb_eqb_false. Qed.
Lemma g_sevent_arity_bad_spec n : g_sevent_arity_bad n = false <-> n = 3.
Proof. apply negb_eqb_false. Qed.
Lemma g_snotice_arity_bad_spec n : g_snotice_arity_bad n = false <-> n = 2.
Proof. apply negb_eqb_false. Qed.
Lemma g_sok_arity_bad_spec n : g_sok_arity_bad n = false <-> n = 4.
Proof. apply negb_eqb_false. Qed.
Lemma g_sauth_arity_bad_spec n : g_sauth_arity_bad n = false <-> n = 2.
Proof. apply negb_eqb_false. Qed.
Lemma g_scount_arity_bad_spec n : g_scount_arity_bad n = false <-> n = 3.
Proof. apply negb_eqb_false. Qed.
Lemma g_sclosed_arity_bad_spec n : g_sclosed_arity_bad n = false <-> n = 3.
Proof. apply negb_eqb_false. Qed.
Lemma g_event_nfields_bad_spec n : g_event_nfields_bad n = false <-> n = 7.
Proof. apply negb_eqb_false. Qed.

Lemma negb_str_eqb_false a b : negb (str_eqb a b) = false <-> a = b.
Proof. rewrite negb_false_iff. apply str_eqb_eq. Qed.

Lemma g_cevent_label_bad_spec l : g_cevent_label_bad l = false <-> l = L_EVENT.
Proof. apply negb_str_eqb_false. Qed.
Lemma g_creq_label_bad_spec l : g_creq_label_bad l = false <-> l = L_REQ.
Proof. apply negb_str_eqb_false. Qed.
Lemma g_cclose_label_bad_spec l : g_cclose_label_bad l = false <-> l = L_CLOSE.
Proof. apply negb_str_eqb_false. Qed.
Lemma g_cauth_label_bad_spec l : g_cauth_label_bad l = false <-> l = L_AUTH.
Proof. apply negb_str_eqb_false. Qed.
Lemma g_ccount_label_bad_spec l : g_ccount_label_bad l = false <-> l = L_COUNT.
Proof. apply negb_str_eqb_false. Qed.
Lemma g_seose_label_bad_spec l : g_seose_label_bad l = false <-> l = L_EOSE.
Proof. apply negb_str_eqb_false. Qed.
Lemma g_sevent_label_bad_spec l : g_sevent_label_bad l = false <-> l = L_EVENT.
Proof. apply negb_str_eqb_false. Qed.
Lemma g_snotice_label_bad_spec l : g_snotice_label_bad l = false <-> l = L_NOTICE.
Proof. apply negb_str_eqb_false. Qed.
Lemma g_sok_label_bad_spec l : g_sok_label_bad l = false <-> l = L_OK.
Proof. apply negb_str_eqb_false. Qed.
Lemma g_sauth_label_bad_spec l : g_sauth_label_bad l = false <-> l = L_AUTH.
Proof. apply negb_str_eqb_false. Qed.
Lemma g_scount_label_bad_spec l : g_scount_label_bad l = false <-> l = L_COUNT.
Proof. apply negb_str_eqb_false. Qed.
Lemma g_sclosed_label_bad_spec l : g_sclosed_label_bad l = false <-> l = L_CLOSED.
Proof. apply negb_str_eqb_false. Qed.

Lemma g_fkey_ids_spec k : g_fkey_ids k = true <-> k = k_ids.
Proof. apply str_eqb_eq. Qed.
Lemma g_fkey_authors_spec k : g_fkey_authors k = true <-> k = k_authors.
Proof. apply str_eqb_eq. Qed.
Lemma g_fkey_kinds_spec k : g_fkey_kinds k = true <-> k = k_kinds.
Proof. apply str_eqb_eq. Qed.
Lemma g_fkey_since_spec k : g_fkey_since k = true <-> k = k_since.
Proof. apply str_eqb_eq. Qed.
Lemma g_fkey_until_spec k : g_fkey_until k = true <-> k = k_until.
Proof. apply str_eqb_eq. Qed.
Lemma g_fkey_limit_spec k : g_fkey_limit k = true <-> k = k_limit.
Proof. apply str_eqb_eq. Qed.

Lemma N_leb_Z a b : (a <=? b)%N = (Z.of_N a <=? Z.of_N b).
Proof. unfold N.leb, Z.leb. now rewrite N2Z.inj_compare. Qed.

Lemma N_ltb_Z a b : (a <? b)%N = (Z.of_N a <? Z.of_N b).
Proof. unfold N.ltb, Z.ltb. now rewrite N2Z.inj_compare. Qed.

Lemma is_letter_Z c :
  is_letter c = ((65 <=? Z.of_N c) && (Z.of_N c <=? 90) || (97 <=? Z.of_N c) && (Z.of_N c <=? 122)).
Proof.
  unfold is_letter.
  rewrite !N_leb_Z. reflexivity.
Qed.

(** the tag-key test: exactly two bytes, '#', then an ASCII letter *)
Lemma g_fkey_tag_spec k :
  g_fkey_tag (zlen k) (byte_at 0 k) (byte_at 1 k) = true <->
  exists c, k = [hash; c] /\ is_letter c = true.
Proof.
  unfold g_fkey_tag, zlen, byte_at. split.
  - intro H. apply andb_true_iff in H as [H H3]. apply andb_true_iff in H as [H1 H2].
    apply Z.eqb_eq in H1. apply Z.eqb_eq in H2.
    destruct k as [|a [|b [|c k]]]; simpl length in H1; try lia.
    simpl in H2, H3. exists b. split.
    + f_equal. unfold hash. lia.
    + now rewrite is_letter_Z.
  - intros [c [-> Hc]]. simpl. rewrite is_letter_Z in Hc. now rewrite Hc.
Qed.

(* ================================================================== *)
(** * 2. Objects, numbers, list decoders *)

Lemma has_key_In {B} k (m : list (str * B)) : has_key k m = true <-> In k (List.map fst m).
Proof.
  unfold has_key. rewrite existsb_exists. split.
  - intros [[k' v] [Hin E]]. simpl in E. apply str_eqb_eq in E. subst.
    change k' with (fst (k', v)). now apply in_map.
  - intro H. apply in_map_iff in H as [[k' v] [E Hin]]. simpl in E. subst.
    exists (k, v). split; [assumption | apply str_eqb_refl].
Qed.

Lemma nodup_strb_NoDup l : nodup_strb l = true <-> NoDup l.
Proof.
  induction l as [|x l IH]; simpl.
  - split; [constructor | reflexivity].
  - rewrite andb_true_iff, negb_true_iff, IH. split.
    + intros [Hn Hd]. constructor; [|assumption].
      intro Hin. apply mem_str_In in Hin. congruence.
    + intro H. inversion H as [|? ? Hn Hd]; subst. split; [|assumption].
      destruct (mem_str x l) eqn:E; [|reflexivity]. apply mem_str_In in E. contradiction.
Qed.

Lemma obj_norm_nodup {B} (m : list (str * B)) : NoDup (List.map fst m) -> obj_norm m = m.
Proof.
  induction m as [|[k v] m IH]; simpl; [reflexivity|].
  intro H. inversion H as [|? ? Hn Hd]; subst.
  destruct (has_key k m) eqn:E.
  - apply has_key_In in E. contradiction.
  - now rewrite IH.
Qed.

Lemma obj_norm_keys_sub {B} (m : list (str * B)) k :
  In k (List.map fst (obj_norm m)) -> In k (List.map fst m).
Proof.
  induction m as [|[k' v] m IH]; simpl; [auto|].
  destruct (has_key k' m); simpl; intro H.
  - right. now apply IH.
  - destruct H as [H|H]; [now left | right; now apply IH].
Qed.

Lemma obj_norm_NoDup {B} (m : list (str * B)) : NoDup (List.map fst (obj_norm m)).
Proof.
  induction m as [|[k v] m IH]; simpl; [constructor|].
  destruct (has_key k m) eqn:E; [assumption|].
  simpl. constructor; [|assumption].
  intro Hin. apply obj_norm_keys_sub in Hin. apply has_key_In in Hin. congruence.
Qed.

Lemma int64_of_num_of_Z z : int64_ok z -> int64_of (num_of_Z z) = Some z.
Proof.
  unfold int64_ok, int64_of, num_of_Z, int64_min, int64_max. intros [H1 H2].
  destruct (z <? 0) eqn:E.
  - apply Z.ltb_lt in E. rewrite N2Z.inj_abs_N.
    replace (- Z.abs z) with z by lia.
    destruct (_ <=? z) eqn:E2; [reflexivity|]. apply Z.leb_gt in E2. lia.
  - apply Z.ltb_ge in E. rewrite N2Z.inj_abs_N.
    replace (Z.abs z) with z by lia.
    destruct (z <=? _) eqn:E2; [reflexivity|]. apply Z.leb_gt in E2. lia.
Qed.

Lemma int64_okb_ok z : int64_okb z = true <-> int64_ok z.
Proof.
  unfold int64_okb, int64_ok. rewrite andb_true_iff, !Z.leb_le. reflexivity.
Qed.

Lemma int64_of_ok n z : int64_of n = Some z -> int64_okb z = true.
Proof.
  unfold int64_of, int64_okb, int64_min, int64_max. destruct n as [[|] m|]; [| |discriminate].
  - destruct (_ <=? - Z.of_N m) eqn:E; [|discriminate]. intro H; inversion H; subst.
    apply Z.leb_le in E. apply andb_true_iff. split; apply Z.leb_le; lia.
  - destruct (Z.of_N m <=? _) eqn:E; [|discriminate]. intro H; inversion H; subst.
    apply Z.leb_le in E. apply andb_true_iff. split; apply Z.leb_le; lia.
Qed.

Lemma uint64_of_num_of_N n : uint64_okb n = true -> uint64_of (num_of_N n) = Some n.
Proof. unfold uint64_okb, uint64_of, num_of_N. now intros ->. Qed.

Lemma uint64_of_ok n c : uint64_of n = Some c -> uint64_okb c = true.
Proof.
  unfold uint64_of, uint64_okb. destruct n as [[|] m|]; try discriminate.
  destruct (m <=? uint64_max)%N eqn:E; [|discriminate]. now intro H; inversion H; subst.
Qed.

Lemma as_int64_JInt z : int64_ok z -> as_int64 (JInt z) = Val z.
Proof. intro H. unfold as_int64, JInt. now rewrite int64_of_num_of_Z. Qed.

Lemma rmapM_map {A B C} (f : B -> res C) (g : A -> B) (h : A -> C) l :
  (forall x, In x l -> f (g x) = Val (h x)) -> rmapM f (List.map g l) = Val (List.map h l).
Proof.
  induction l as [|x l IH]; simpl; [reflexivity|]. intro H.
  rewrite (H x (or_introl eq_refl)). simpl. rewrite IH; [reflexivity|].
  intros y Hy. apply H. now right.
Qed.

Lemma as_strings_enc l : as_strings (enc_strs l) = Val l.
Proof.
  unfold as_strings, enc_strs. rewrite (rmapM_map as_string JStr (fun s => s)).
  - now rewrite map_id.
  - reflexivity.
Qed.

Lemma as_int64s_enc l :
  forallb int64_okb l = true -> as_int64s (JArr (List.map JInt l)) = Val l.
Proof.
  intro H. unfold as_int64s. rewrite (rmapM_map as_int64 JInt (fun z => z)).
  - now rewrite map_id.
  - intros z Hz. apply as_int64_JInt. apply int64_okb_ok.
    rewrite forallb_forall in H. now apply H.
Qed.

(** inversion of a successful rmapM *)
Lemma rmapM_Val_Forall2 {A B} (f : A -> res B) l l' :
  rmapM f l = Val l' -> Forall2 (fun x y => f x = Val y) l l'.
Proof.
  revert l'. induction l as [|x l IH]; simpl; intros l' H.
  - inversion H. constructor.
  - destruct (f x) as [y| |] eqn:E; simpl in H; try discriminate.
    destruct (rmapM f l) as [ys| |] eqn:E2; simpl in H; try discriminate.
    inversion H; subst. constructor; [assumption | now apply IH].
Qed.

(* ------------------------------------------------------------------ *)
(** ** no-panic helpers *)

Lemma rbind_no_panic {A B} (r : res A) (f : A -> res B) :
  r <> Panic -> (forall a, r = Val a -> f a <> Panic) -> rbind r f <> Panic.
Proof. destruct r; simpl; intros H1 H2; [now apply H2 | discriminate | congruence]. Qed.

Lemma rmapM_no_panic {A B} (f : A -> res B) l :
  (forall x, f x <> Panic) -> rmapM f l <> Panic.
Proof.
  intro H. induction l as [|x l IH]; simpl; [discriminate|].
  apply rbind_no_panic; [apply H|]. intros y _.
  apply rbind_no_panic; [apply IH|]. discriminate.
Qed.

Lemma as_string_no_panic v : as_string v <> Panic.
Proof. destruct v; discriminate. Qed.
Lemma as_int64_no_panic v : as_int64 v <> Panic.
Proof. destruct v as [| |n| | |]; try discriminate. simpl. destruct (int64_of n); discriminate. Qed.
Lemma as_strings_no_panic v : as_strings v <> Panic.
Proof. destruct v; try discriminate. apply rmapM_no_panic, as_string_no_panic. Qed.
Lemma as_int64s_no_panic v : as_int64s v <> Panic.
Proof. destruct v; try discriminate. apply rmapM_no_panic, as_int64_no_panic. Qed.
Lemma un_string_no_panic v : un_string v <> Panic.
Proof. destruct v; discriminate. Qed.
Lemma un_bool_no_panic v : un_bool v <> Panic.
Proof. destruct v; discriminate. Qed.
Lemma un_raw_array_no_panic v : un_raw_array v <> Panic.
Proof. destruct v; discriminate. Qed.
Lemma un_string_array_no_panic v : un_string_array v <> Panic.
Proof. destruct v; try discriminate. apply rmapM_no_panic, un_string_no_panic. Qed.
Lemma un_object_no_panic v : un_object v <> Panic.
Proof. destruct v; discriminate. Qed.
Lemma get_member_no_panic k obj : get_member k obj <> Panic.
Proof. unfold get_member. destruct (obj_get k obj); discriminate. Qed.

Lemma zlen_2 {A} (l : list A) : zlen l = 2 -> exists a b, l = [a; b].
Proof.
  unfold zlen. destruct l as [|a [|b [|c l]]]; simpl length; intro H; try lia. now exists a, b.
Qed.
Lemma zlen_3 {A} (l : list A) : zlen l = 3 -> exists a b c, l = [a; b; c].
Proof.
  unfold zlen. destruct l as [|a [|b [|c [|d l]]]]; simpl length; intro H; try lia. now exists a, b, c.
Qed.
Lemma zlen_4 {A} (l : list A) : zlen l = 4 -> exists a b c d, l = [a; b; c; d].
Proof.
  unfold zlen. destruct l as [|a [|b [|c [|d [|e l]]]]]; simpl length; intro H; try lia. now exists a, b, c, d.
Qed.
Lemma zlen_ge3 {A} (l : list A) : 3 <= zlen l -> exists a b c r, l = a :: b :: c :: r.
Proof.
  unfold zlen. destruct l as [|a [|b [|c r]]]; simpl length; intro H; try lia. now exists a, b, c, r.
Qed.

(* ================================================================== *)
(** * 3. Round trips: encode, then decode *)

(** ** events *)

Section EventObject.
  Variables a b c d e f g : jv.
  Let obj := [(k_id, a); (k_pubkey, b); (k_created_at, c); (k_kind, d); (k_tags, e); (k_content, f); (k_sig, g)].
  Lemma event_obj_len : obj_len obj = 7. Proof. reflexivity. Qed.
  Lemma event_obj_id : get_member k_id obj = Val a. Proof. reflexivity. Qed.
  Lemma event_obj_pubkey : get_member k_pubkey obj = Val b. Proof. reflexivity. Qed.
  Lemma event_obj_created_at : get_member k_created_at obj = Val c. Proof. reflexivity. Qed.
  Lemma event_obj_kind : get_member k_kind obj = Val d. Proof. reflexivity. Qed.
  Lemma event_obj_tags : get_member k_tags obj = Val e. Proof. reflexivity. Qed.
  Lemma event_obj_content : get_member k_content obj = Val f. Proof. reflexivity. Qed.
  Lemma event_obj_sig : get_member k_sig obj = Val g. Proof. reflexivity. Qed.
End EventObject.

Definition dec_tag (t : jv) : res gtag :=
  match t with
  | JArr l' => ss <- rmapM as_string l' ;; Val (Some ss)
  | _ => Err
  end.

Lemma dec_tags_enc l :
  forallb is_some l = true -> rmapM dec_tag (List.map enc_tag l) = Val l.
Proof.
  intro H. rewrite (rmapM_map dec_tag enc_tag (fun t => t)).
  - now rewrite map_id.
  - intros t Ht. rewrite forallb_forall in H. specialize (H t Ht).
    destruct t as [ss|]; [|discriminate]. simpl.
    fold (enc_strs ss). change (rmapM as_string (List.map JStr ss)) with
      (match enc_strs ss with JArr l => rmapM as_string l | _ => Err end).
    fold (as_strings (enc_strs ss)). now rewrite as_strings_enc.
Qed.

Lemma enc_dec_event e : wf_event e -> dec_event (enc_event e) = Val e.
Proof.
  unfold wf_event, wf_eventb. destruct e as [id pk ts kind tags content sig]; simpl.
  intro H. apply andb_true_iff in H as [H Ht]. apply andb_true_iff in H as [Hts Hk].
  destruct tags as [l|]; [|discriminate].
  apply int64_okb_ok in Hts. apply int64_okb_ok in Hk.
  unfold dec_event, enc_event. cbn [un_object rbind ge_id ge_pk ge_ts ge_kind ge_tags ge_content ge_sig].
  rewrite event_obj_len.
  replace (g_event_nfields_bad 7) with false by (symmetry; now apply g_event_nfields_bad_spec).
  rewrite event_obj_id, event_obj_pubkey, event_obj_created_at, event_obj_kind, event_obj_tags,
    event_obj_content, event_obj_sig.
  cbn [rbind as_string].
  rewrite (as_int64_JInt ts Hts), (as_int64_JInt kind Hk). cbn [rbind].
  change (rmapM _ (List.map enc_tag l)) with (rmapM dec_tag (List.map enc_tag l)).
  rewrite (dec_tags_enc l Ht). reflexivity.
Qed.

(** ** filters *)

Definition tag_member (kv : str * option (list str)) : str * jv :=
  (hash :: fst kv, match snd kv with None => JNull | Some l => enc_strs l end).

Ltac guard_false spec :=
  match goal with
  | |- context [if ?g then _ else _] =>
      let E := fresh "E" in
      destruct g eqn:E;
      [ first [ apply spec in E; discriminate E
              | apply spec in E; destruct E as [? [E _]]; discriminate E ] | ]
  end.

Ltac guard_true spec :=
  match goal with
  | |- context [if ?g then _ else _] =>
      replace g with true by (symmetry; apply spec; reflexivity)
  end.

Lemma step_ids f l :
  filter_step f (k_ids, enc_strs l) =
  Val (mkGFilter (Some l) (gf_authors f) (gf_kinds f) (gf_tags f) (gf_since f) (gf_until f) (gf_limit f)).
Proof. unfold filter_step. guard_true g_fkey_ids_spec. now rewrite as_strings_enc. Qed.

Lemma step_authors f l :
  filter_step f (k_authors, enc_strs l) =
  Val (mkGFilter (gf_ids f) (Some l) (gf_kinds f) (gf_tags f) (gf_since f) (gf_until f) (gf_limit f)).
Proof.
  unfold filter_step. guard_false g_fkey_ids_spec. guard_true g_fkey_authors_spec.
  now rewrite as_strings_enc.
Qed.

Lemma step_kinds f l :
  forallb int64_okb l = true ->
  filter_step f (k_kinds, JArr (List.map JInt l)) =
  Val (mkGFilter (gf_ids f) (gf_authors f) (Some l) (gf_tags f) (gf_since f) (gf_until f) (gf_limit f)).
Proof.
  intro H. unfold filter_step. guard_false g_fkey_ids_spec. guard_false g_fkey_authors_spec.
  guard_true g_fkey_kinds_spec. now rewrite as_int64s_enc.
Qed.

Lemma step_tag f c vs :
  is_letter c = true ->
  filter_step f (hash :: [c], enc_strs vs) =
  Val (mkGFilter (gf_ids f) (gf_authors f) (gf_kinds f)
         (Some (tags_set [c] (Some vs) (match gf_tags f with None => [] | Some m => m end)))
         (gf_since f) (gf_until f) (gf_limit f)).
Proof.
  intro Hc. unfold filter_step. guard_false g_fkey_ids_spec. guard_false g_fkey_authors_spec.
  guard_false g_fkey_kinds_spec.
  replace (g_fkey_tag (zlen [hash; c]) (byte_at 0 [hash; c]) (byte_at 1 [hash; c])) with true.
  - now rewrite as_strings_enc.
  - symmetry. apply g_fkey_tag_spec. now exists c.
Qed.

Lemma step_since f z :
  int64_okb z = true ->
  filter_step f (k_since, JInt z) =
  Val (mkGFilter (gf_ids f) (gf_authors f) (gf_kinds f) (gf_tags f) (Some z) (gf_until f) (gf_limit f)).
Proof.
  intro H. apply int64_okb_ok in H. unfold filter_step.
  guard_false g_fkey_ids_spec. guard_false g_fkey_authors_spec. guard_false g_fkey_kinds_spec.
  guard_false g_fkey_tag_spec. guard_true g_fkey_since_spec. now rewrite as_int64_JInt.
Qed.

Lemma step_until f z :
  int64_okb z = true ->
  filter_step f (k_until, JInt z) =
  Val (mkGFilter (gf_ids f) (gf_authors f) (gf_kinds f) (gf_tags f) (gf_since f) (Some z) (gf_limit f)).
Proof.
  intro H. apply int64_okb_ok in H. unfold filter_step.
  guard_false g_fkey_ids_spec. guard_false g_fkey_authors_spec. guard_false g_fkey_kinds_spec.
  guard_false g_fkey_tag_spec. guard_false g_fkey_since_spec. guard_true g_fkey_until_spec.
  now rewrite as_int64_JInt.
Qed.

Lemma step_limit f z :
  int64_okb z = true ->
  filter_step f (k_limit, JInt z) =
  Val (mkGFilter (gf_ids f) (gf_authors f) (gf_kinds f) (gf_tags f) (gf_since f) (gf_until f) (Some z)).
Proof.
  intro H. apply int64_okb_ok in H. unfold filter_step.
  guard_false g_fkey_ids_spec. guard_false g_fkey_authors_spec. guard_false g_fkey_kinds_spec.
  guard_false g_fkey_tag_spec. guard_false g_fkey_since_spec. guard_false g_fkey_until_spec.
  guard_true g_fkey_limit_spec. now rewrite as_int64_JInt.
Qed.

Lemma gfilter_eta f :
  f = mkGFilter (gf_ids f) (gf_authors f) (gf_kinds f) (gf_tags f) (gf_since f) (gf_until f) (gf_limit f).
Proof. now destruct f. Qed.

Lemma fold_ids o rest f :
  gf_ids f = None ->
  filter_fold (opt_member k_ids o enc_strs ++ rest) f =
  filter_fold rest (mkGFilter o (gf_authors f) (gf_kinds f) (gf_tags f) (gf_since f) (gf_until f) (gf_limit f)).
Proof.
  intro H. destruct o as [l|]; cbn [opt_member app filter_fold].
  - now rewrite step_ids.
  - rewrite <- H. now rewrite <- gfilter_eta.
Qed.

Lemma fold_authors o rest f :
  gf_authors f = None ->
  filter_fold (opt_member k_authors o enc_strs ++ rest) f =
  filter_fold rest (mkGFilter (gf_ids f) o (gf_kinds f) (gf_tags f) (gf_since f) (gf_until f) (gf_limit f)).
Proof.
  intro H. destruct o as [l|]; cbn [opt_member app filter_fold].
  - now rewrite step_authors.
  - rewrite <- H. now rewrite <- gfilter_eta.
Qed.

Lemma fold_kinds o rest f :
  gf_kinds f = None -> opt_all (forallb int64_okb) o = true ->
  filter_fold (opt_member k_kinds o (fun l => JArr (List.map JInt l)) ++ rest) f =
  filter_fold rest (mkGFilter (gf_ids f) (gf_authors f) o (gf_tags f) (gf_since f) (gf_until f) (gf_limit f)).
Proof.
  intros H Hk. destruct o as [l|]; cbn [opt_member app filter_fold].
  - simpl in Hk. now rewrite (step_kinds f l Hk).
  - rewrite <- H. now rewrite <- gfilter_eta.
Qed.

Lemma fold_since o rest f :
  gf_since f = None -> opt_all int64_okb o = true ->
  filter_fold (opt_member k_since o JInt ++ rest) f =
  filter_fold rest (mkGFilter (gf_ids f) (gf_authors f) (gf_kinds f) (gf_tags f) o (gf_until f) (gf_limit f)).
Proof.
  intros H Hk. destruct o as [z|]; cbn [opt_member app filter_fold].
  - simpl in Hk. now rewrite (step_since f z Hk).
  - rewrite <- H. now rewrite <- gfilter_eta.
Qed.

Lemma fold_until o rest f :
  gf_until f = None -> opt_all int64_okb o = true ->
  filter_fold (opt_member k_until o JInt ++ rest) f =
  filter_fold rest (mkGFilter (gf_ids f) (gf_authors f) (gf_kinds f) (gf_tags f) (gf_since f) o (gf_limit f)).
Proof.
  intros H Hk. destruct o as [z|]; cbn [opt_member app filter_fold].
  - simpl in Hk. now rewrite (step_until f z Hk).
  - rewrite <- H. now rewrite <- gfilter_eta.
Qed.

Lemma fold_limit o rest f :
  gf_limit f = None -> opt_all int64_okb o = true ->
  filter_fold (opt_member k_limit o JInt ++ rest) f =
  filter_fold rest (mkGFilter (gf_ids f) (gf_authors f) (gf_kinds f) (gf_tags f) (gf_since f) (gf_until f) o).
Proof.
  intros H Hk. destruct o as [z|]; cbn [opt_member app filter_fold].
  - simpl in Hk. now rewrite (step_limit f z Hk).
  - rewrite <- H. now rewrite <- gfilter_eta.
Qed.

Lemma tags_set_fresh k v cur :
  ~ In k (List.map fst cur) -> tags_set k v cur = cur ++ [(k, v)].
Proof.
  induction cur as [|[k' v'] cur IH]; simpl; [reflexivity|].
  intro H. destruct (str_eqb k k') eqn:E.
  - apply str_eqb_eq in E. subst. exfalso. apply H. now left.
  - rewrite IH; [reflexivity|]. intro Hin. apply H. now right.
Qed.

(** the tag members of an encoded filter, one by one *)
Definition tagcond_wfb (kv : str * option (list str)) : bool :=
  match fst kv with [c] => is_letter c | _ => false end && is_some (snd kv).

Lemma fold_tagmembers m : forall cur f rest,
  gf_tags f = (match cur with [] => None | _ => Some cur end) ->
  forallb tagcond_wfb m = true ->
  NoDup (List.map fst (cur ++ m)) ->
  filter_fold (List.map tag_member m ++ rest) f =
  filter_fold rest (mkGFilter (gf_ids f) (gf_authors f) (gf_kinds f)
                      (match cur ++ m with [] => None | _ => Some (cur ++ m) end)
                      (gf_since f) (gf_until f) (gf_limit f)).
Proof.
  induction m as [|[k v] m IH]; intros cur f rest Hcur Hwf Hnd.
  - simpl. rewrite app_nil_r. rewrite <- Hcur. now rewrite <- gfilter_eta.
  - simpl in Hwf. apply andb_true_iff in Hwf as [Hkv Hwf].
    unfold tagcond_wfb in Hkv. simpl in Hkv. apply andb_true_iff in Hkv as [Hk Hv].
    destruct k as [|c [|c' k]]; try discriminate.
    destruct v as [vs|]; [|discriminate].
    simpl List.map. simpl app. cbn [filter_fold]. unfold tag_member at 1. cbn [fst snd].
    rewrite (step_tag f c vs Hk). cbn [rbind].
    assert (Hfresh : ~ In [c] (List.map fst cur)).
    { rewrite map_app in Hnd. simpl in Hnd. apply NoDup_remove_2 in Hnd.
      intro Hin. apply Hnd. apply in_or_app. now left. }
    assert (Hcur' : (match gf_tags f with None => [] | Some m0 => m0 end) = cur).
    { rewrite Hcur. now destruct cur. }
    rewrite Hcur'. rewrite (tags_set_fresh [c] (Some vs) cur Hfresh).
    rewrite (IH (cur ++ [([c], Some vs)]) _ rest).
    + cbn [gf_ids gf_authors gf_kinds gf_since gf_until gf_limit].
      rewrite <- app_assoc. reflexivity.
    + cbn [gf_tags]. now destruct cur.
    + assumption.
    + rewrite <- app_assoc. exact Hnd.
Qed.

Lemma fold_tags o rest f :
  gf_tags f = None ->
  match o with
  | None => True
  | Some m => m <> [] /\ forallb tagcond_wfb m = true /\ NoDup (List.map fst m)
  end ->
  filter_fold (match o with None => [] | Some m => List.map tag_member m end ++ rest) f =
  filter_fold rest (mkGFilter (gf_ids f) (gf_authors f) (gf_kinds f) o (gf_since f) (gf_until f) (gf_limit f)).
Proof.
  intros H Ho. destruct o as [m|].
  - destruct Ho as [Hne [Hwf Hnd]].
    rewrite (fold_tagmembers m [] f rest H Hwf Hnd). simpl app.
    destruct m; [contradiction | reflexivity].
  - simpl. rewrite <- H. now rewrite <- gfilter_eta.
Qed.

(** the member names of an encoded filter are pairwise distinct *)
Inductive subseq {A} : list A -> list A -> Prop :=
| sub_nil : subseq [] []
| sub_skip x l l' : subseq l l' -> subseq l (x :: l')
| sub_keep x l l' : subseq l l' -> subseq (x :: l) (x :: l').

Lemma subseq_refl {A} (l : list A) : subseq l l.
Proof. induction l; constructor; assumption. Qed.

Lemma subseq_nil_l {A} (l : list A) : subseq [] l.
Proof. induction l; constructor; assumption. Qed.

Lemma subseq_In {A} (l l' : list A) x : subseq l l' -> In x l -> In x l'.
Proof.
  induction 1; simpl; intro Hin; auto.
  destruct Hin as [E|Hin]; [now left | right; auto].
Qed.

Lemma subseq_NoDup {A} (l l' : list A) : subseq l l' -> NoDup l' -> NoDup l.
Proof.
  induction 1; intro Hnd; [constructor | |].
  - inversion Hnd; subst. auto.
  - inversion Hnd as [|? ? Hn Hd]; subst. constructor; [|auto].
    intro Hin. apply Hn. eapply subseq_In; eassumption.
Qed.

Lemma subseq_app {A} (a a' b b' : list A) : subseq a a' -> subseq b b' -> subseq (a ++ b) (a' ++ b').
Proof. induction 1; simpl; intro Hb; [assumption | apply sub_skip; auto | apply sub_keep; auto]. Qed.

Lemma subseq_opt_member {A} k (o : option A) e : subseq (List.map fst (opt_member k o e)) [k].
Proof. destruct o; simpl; [apply sub_keep | apply sub_skip]; constructor. Qed.

Lemma NoDup_app_intro {A} (l1 l2 : list A) :
  NoDup l1 -> NoDup l2 -> (forall x, In x l1 -> ~ In x l2) -> NoDup (l1 ++ l2).
Proof.
  induction l1 as [|x l1 IH]; simpl; intros H1 H2 H; [assumption|].
  inversion H1 as [|? ? Hn Hd]; subst. constructor.
  - intro Hin. apply in_app_or in Hin as [Hin|Hin]; [contradiction|].
    apply (H x); [now left | assumption].
  - apply IH; auto.
Qed.

Definition tag_keys (o : option (list (str * option (list str)))) : list str :=
  match o with None => [] | Some m => List.map (fun kv => hash :: fst kv) m end.

Lemma tag_keys_shape o k : In k (tag_keys o) -> exists r, k = hash :: r.
Proof.
  destruct o as [m|]; simpl; [|contradiction]. intro H.
  apply in_map_iff in H as [kv [E _]]. eauto.
Qed.

Lemma tag_keys_NoDup o :
  match o with None => True | Some m => NoDup (List.map fst m) end -> NoDup (tag_keys o).
Proof.
  destruct o as [m|]; simpl; [|constructor]. intro H.
  induction m as [|[k v] m IH]; simpl; [constructor|].
  inversion H as [|? ? Hn Hd]; subst. constructor; [|auto].
  intro Hin. apply in_map_iff in Hin as [[k' v'] [E Hin]]. simpl in E. inversion E; subst.
  apply Hn. change k with (fst (k, v')). now apply in_map.
Qed.

Lemma filter_key_universe_NoDup o :
  NoDup (tag_keys o) ->
  NoDup ([k_ids] ++ [k_authors] ++ [k_kinds] ++ tag_keys o ++ [k_since] ++ [k_until] ++ [k_limit]).
Proof.
  intro HT.
  assert (Hfresh : forall k, (forall r, k <> hash :: r) -> ~ In k (tag_keys o)).
  { intros k Hk Hin. apply tag_keys_shape in Hin as [r E]. now apply (Hk r). }
  simpl. repeat constructor; simpl; rewrite ?in_app_iff; simpl.
  - intros [H|[H|[H|[H|[H|[H|H]]]]]]; try discriminate H; try contradiction.
    revert H. apply Hfresh. discriminate.
  - intros [H|[H|[H|[H|[H|H]]]]]; try discriminate H; try contradiction.
    revert H. apply Hfresh. discriminate.
  - intros [H|[H|[H|[H|H]]]]; try discriminate H; try contradiction.
    revert H. apply Hfresh. discriminate.
  - apply NoDup_app_intro; [assumption | |].
    + repeat constructor; simpl; intuition discriminate.
    + intros k Hin. apply tag_keys_shape in Hin as [r ->]. simpl. intuition discriminate.
Qed.

Definition filter_members (f : gfilter) : list (str * jv) :=
  opt_member k_ids (gf_ids f) enc_strs ++
  opt_member k_authors (gf_authors f) enc_strs ++
  opt_member k_kinds (gf_kinds f) (fun l => JArr (List.map JInt l)) ++
  match gf_tags f with None => [] | Some m => List.map tag_member m end ++
  opt_member k_since (gf_since f) JInt ++
  opt_member k_until (gf_until f) JInt ++
  opt_member k_limit (gf_limit f) JInt.

Lemma enc_filter_members f : enc_filter f = JObj (filter_members f).
Proof. reflexivity. Qed.

Lemma filter_members_NoDup f :
  match gf_tags f with None => True | Some m => NoDup (List.map fst m) end ->
  NoDup (List.map fst (filter_members f)).
Proof.
  intro H. apply tag_keys_NoDup in H. apply filter_key_universe_NoDup in H.
  eapply subseq_NoDup; [|exact H].
  unfold filter_members. rewrite !map_app.
  repeat (apply subseq_app; [apply subseq_opt_member|]).
  apply subseq_app.
  - destruct (gf_tags f) as [m|]; simpl; [|constructor].
    rewrite map_map. simpl. apply subseq_refl.
  - repeat (apply subseq_app; [apply subseq_opt_member|]). apply subseq_opt_member.
Qed.

Lemma wf_filter_tags f :
  wf_filter f ->
  match gf_tags f with
  | None => True
  | Some m => m <> [] /\ forallb tagcond_wfb m = true /\ NoDup (List.map fst m)
  end.
Proof.
  unfold wf_filter, wf_filterb. intro H. apply andb_true_iff in H as [_ H].
  destruct (gf_tags f) as [m|]; [|exact I].
  apply andb_true_iff in H as [H H3]. apply andb_true_iff in H as [H1 H2].
  split; [|split].
  - intro E. subst. discriminate.
  - exact H3.
  - now apply nodup_strb_NoDup.
Qed.

Theorem enc_dec_filter f : wf_filter f -> dec_filter (enc_filter f) = Val f.
Proof.
  intro Hwf. pose proof (wf_filter_tags f Hwf) as Ht.
  unfold wf_filter, wf_filterb in Hwf. apply andb_true_iff in Hwf as [Hwf _].
  apply andb_true_iff in Hwf as [Hwf Hl]. apply andb_true_iff in Hwf as [Hwf Hu].
  apply andb_true_iff in Hwf as [Hk Hs].
  rewrite enc_filter_members. unfold dec_filter.
  rewrite obj_norm_nodup.
  2:{ apply filter_members_NoDup. destruct (gf_tags f); [apply Ht | exact I]. }
  unfold filter_members.
  rewrite fold_ids by reflexivity.
  rewrite fold_authors by reflexivity.
  rewrite fold_kinds by (try reflexivity; assumption).
  rewrite fold_tags by (try reflexivity; assumption).
  rewrite fold_since by (try reflexivity; assumption).
  rewrite fold_until by (try reflexivity; assumption).
  rewrite <- (app_nil_r (opt_member k_limit (gf_limit f) JInt)).
  rewrite fold_limit by (try reflexivity; assumption).
  cbn. now rewrite <- gfilter_eta.
Qed.

(** ** machine-readable prefixes *)

Fixpoint parse_prefix_list (ps : list str) (msg : str) : str * str :=
  match ps with
  | [] => ([], msg)
  | p :: ps' => if has_prefix p msg then (p, skipn (length p) msg) else parse_prefix_list ps' msg
  end.

Lemma parse_prefix_as_list msg : parse_prefix msg = parse_prefix_list mr_prefixes msg.
Proof. reflexivity. Qed.

Lemma has_prefix_split p s : has_prefix p s = true -> p ++ skipn (length p) s = s.
Proof.
  revert s. induction p as [|x p IH]; intros s H; simpl; [reflexivity|].
  destruct s as [|y s]; simpl in H; [discriminate|].
  apply andb_true_iff in H as [E H]. apply N.eqb_eq in E. subst. f_equal. now apply IH.
Qed.

Lemma parse_prefix_list_inv ps raw p m :
  parse_prefix_list ps raw = (p, m) ->
  (In p ps /\ has_prefix p raw = true /\ m = skipn (length p) raw) \/
  (p = [] /\ m = raw /\ forall p', In p' ps -> has_prefix p' raw = false).
Proof.
  induction ps as [|q ps IH]; simpl.
  - intro H. inversion H; subst. right. repeat split. intros ? [].
  - destruct (has_prefix q raw) eqn:E.
    + intro H. inversion H; subst. left. repeat split; auto.
    + intro H. destruct (IH H) as [[H1 [H2 H3]]|[H1 [H2 H3]]].
      * left. repeat split; auto.
      * right. repeat split; auto. intros p' [->|Hin]; auto.
Qed.

(** what the decoder stores is normalised, and nothing is lost *)
Lemma parse_prefix_normal raw p m :
  parse_prefix raw = (p, m) -> reason_normalb p m = true /\ p ++ m = raw.
Proof.
  rewrite parse_prefix_as_list. intro H.
  destruct (parse_prefix_list_inv _ _ _ _ H) as [[H1 [H2 H3]]|[H1 [H2 H3]]].
  - split.
    + unfold reason_normalb. apply orb_true_iff. left. now apply mem_str_In.
    + subst m. now apply has_prefix_split.
  - subst. split; [|reflexivity]. unfold reason_normalb. apply orb_true_iff. right.
    apply andb_true_iff. split; [reflexivity|].
    apply negb_true_iff. destruct (existsb (fun p => has_prefix p raw) mr_prefixes) eqn:E; [|reflexivity].
    apply existsb_exists in E as [p' [Hin E]]. rewrite (H3 p' Hin) in E. discriminate.
Qed.

(** a normalised pair is split back exactly *)
Lemma parse_prefix_wf pfx msg :
  reason_normalb pfx msg = true -> parse_prefix (pfx ++ msg) = (pfx, msg).
Proof.
  unfold reason_normalb. intro H. apply orb_true_iff in H as [H|H].
  - apply mem_str_In in H. simpl in H.
    destruct H as [<-|[<-|[<-|[<-|[<-|[<-|[]]]]]]]; reflexivity.
  - apply andb_true_iff in H as [H1 H2]. destruct pfx; [|discriminate]. simpl app.
    rewrite parse_prefix_as_list. apply negb_true_iff in H2.
    assert (Hall : forall p', In p' mr_prefixes -> has_prefix p' msg = false).
    { intros p' Hin. destruct (has_prefix p' msg) eqn:E; [|reflexivity].
      assert (existsb (fun p => has_prefix p msg) mr_prefixes = true)
        by (apply existsb_exists; eauto). congruence. }
    clear H1 H2. induction mr_prefixes as [|q ps IH]; simpl; [reflexivity|].
    rewrite (Hall q (or_introl eq_refl)). apply IH. intros p' Hin. apply Hall. now right.
Qed.

(** ** messages *)

Ltac guard_off spec :=
  match goal with
  | |- context [if ?g then _ else _] =>
      replace g with false by (symmetry; apply spec; first [reflexivity | unfold zlen; simpl length; lia])
  end.

Lemma dec_filters_enc fs :
  forallb (fun f => match f with Some f => wf_filterb f | None => false end) fs = true ->
  dec_filters (List.map enc_filter_ptr fs) = Val fs.
Proof.
  intro H. unfold dec_filters.
  rewrite (rmapM_map _ enc_filter_ptr (fun f => f)).
  - now rewrite map_id.
  - intros f Hf. rewrite forallb_forall in H. specialize (H f Hf).
    destruct f as [f|]; [|discriminate]. cbn [enc_filter_ptr]. now rewrite (enc_dec_filter f H).
Qed.

Lemma length_pos_zlen {A} (l : list A) n : negb (Nat.eqb (length l) 0) = true -> n + 1 <= n + zlen l.
Proof.
  unfold zlen. destruct l; simpl; [discriminate|]. lia.
Qed.


Lemma enc_dec_client_event e :
  wf_event e -> dec_client_event (enc_cmsg (CEvent (Some e))) = Val (CEvent (Some e)).
Proof.
  intro H. unfold dec_client_event, enc_cmsg, enc_event_ptr.
  cbn [un_raw_array rbind]. guard_off g_cevent_arity_bad_spec.
  cbn [idx nth_error un_string rbind]. rewrite label_event_pin. guard_off g_cevent_label_bad_spec.
  now rewrite enc_dec_event.
Qed.

Lemma enc_dec_client_auth e :
  wf_event e -> dec_client_auth (enc_cmsg (CAuth (Some e))) = Val (CAuth (Some e)).
Proof.
  intro H. unfold dec_client_auth, enc_cmsg, enc_event_ptr.
  cbn [un_raw_array rbind]. guard_off g_cauth_arity_bad_spec.
  cbn [idx nth_error un_string rbind]. rewrite label_auth_pin. guard_off g_cauth_label_bad_spec.
  now rewrite enc_dec_event.
Qed.

Lemma enc_dec_client_close sub : dec_client_close (enc_cmsg (CClose sub)) = Val (CClose sub).
Proof.
  unfold dec_client_close, enc_cmsg.
  cbn [un_string_array rmapM un_string rbind]. guard_off g_cclose_arity_bad_spec.
  cbn [idx nth_error rbind]. rewrite label_close_pin. guard_off g_cclose_label_bad_spec.
  reflexivity.
Qed.

Lemma enc_dec_client_req sub fs :
  wf_filtersb fs = true -> dec_client_req (enc_cmsg (CReq sub fs)) = Val (CReq sub fs).
Proof.
  unfold wf_filtersb. intro H. apply andb_true_iff in H as [Hne Hfs].
  unfold dec_client_req, enc_cmsg. cbn [un_raw_array rbind].
  replace (g_creq_arity_bad _) with false.
  2:{ symmetry. apply g_creq_arity_bad_spec. unfold zlen. simpl length. rewrite map_length.
      destruct fs; [discriminate | simpl; lia]. }
  cbn [idx nth_error un_string rbind skipn]. rewrite label_req_pin. guard_off g_creq_label_bad_spec.
  now rewrite dec_filters_enc.
Qed.

Lemma enc_dec_client_count sub fs :
  wf_filtersb fs = true -> dec_client_count (enc_cmsg (CCount sub fs)) = Val (CCount sub fs).
Proof.
  unfold wf_filtersb. intro H. apply andb_true_iff in H as [Hne Hfs].
  unfold dec_client_count, enc_cmsg. cbn [un_raw_array rbind].
  replace (g_ccount_arity_bad _) with false.
  2:{ symmetry. apply g_ccount_arity_bad_spec. unfold zlen. simpl length. rewrite map_length.
      destruct fs; [discriminate | simpl; lia]. }
  cbn [idx nth_error un_string rbind skipn]. rewrite label_count_pin. guard_off g_ccount_label_bad_spec.
  now rewrite dec_filters_enc.
Qed.

(** decoder of a client message chosen by its constructor *)
Definition dec_cmsg_like (m : cmsg) : jv -> res cmsg :=
  match m with
  | CEvent _ => dec_client_event
  | CReq _ _ => dec_client_req
  | CClose _ => dec_client_close
  | CAuth _ => dec_client_auth
  | CCount _ _ => dec_client_count
  end.

Theorem enc_dec_cmsg m : wf_cmsg m -> dec_cmsg_like m (enc_cmsg m) = Val m.
Proof.
  unfold wf_cmsg. destruct m as [[e|]|sub fs|sub|[e|]|sub fs]; simpl wf_cmsgb; intro H; try discriminate.
  - now apply enc_dec_client_event.
  - now apply enc_dec_client_req.
  - apply enc_dec_client_close.
  - now apply enc_dec_client_auth.
  - now apply enc_dec_client_count.
Qed.

Lemma enc_dec_server_eose sub : dec_server_eose (enc_smsg (SEose sub)) = Val (SEose sub).
Proof.
  unfold dec_server_eose, enc_smsg.
  cbn [un_string_array rmapM un_string rbind]. guard_off g_seose_arity_bad_spec.
  cbn [idx nth_error rbind]. rewrite label_eose_pin. guard_off g_seose_label_bad_spec. reflexivity.
Qed.

Lemma enc_dec_server_notice s : dec_server_notice (enc_smsg (SNotice s)) = Val (SNotice s).
Proof.
  unfold dec_server_notice, enc_smsg.
  cbn [un_string_array rmapM un_string rbind]. guard_off g_snotice_arity_bad_spec.
  cbn [idx nth_error rbind]. rewrite label_notice_pin. guard_off g_snotice_label_bad_spec. reflexivity.
Qed.

Lemma enc_dec_server_auth s : dec_server_auth (enc_smsg (SAuth s)) = Val (SAuth s).
Proof.
  unfold dec_server_auth, enc_smsg.
  cbn [un_string_array rmapM un_string rbind]. guard_off g_sauth_arity_bad_spec.
  cbn [idx nth_error rbind]. rewrite label_auth_pin. guard_off g_sauth_label_bad_spec. reflexivity.
Qed.

Lemma enc_dec_server_event sub e :
  wf_event e -> dec_server_event (enc_smsg (SEvent sub (Some e))) = Val (SEvent sub (Some e)).
Proof.
  intro H. unfold dec_server_event, enc_smsg, enc_event_ptr.
  cbn [un_raw_array rbind]. guard_off g_sevent_arity_bad_spec.
  cbn [idx nth_error un_string rbind]. rewrite label_event_pin. guard_off g_sevent_label_bad_spec.
  now rewrite enc_dec_event.
Qed.

Lemma enc_dec_server_ok id acc msg pfx :
  reason_normalb pfx msg = true ->
  dec_server_ok (enc_smsg (SOk id acc msg pfx)) = Val (SOk id acc msg pfx).
Proof.
  intro H. unfold dec_server_ok, enc_smsg.
  cbn [un_raw_array rbind]. guard_off g_sok_arity_bad_spec.
  cbn [idx nth_error un_string un_bool rbind]. rewrite label_ok_pin. guard_off g_sok_label_bad_spec.
  now rewrite (parse_prefix_wf pfx msg H).
Qed.

Lemma enc_dec_server_closed sub msg pfx :
  reason_normalb pfx msg = true ->
  dec_server_closed (enc_smsg (SClosed sub msg pfx)) = Val (SClosed sub msg pfx).
Proof.
  intro H. unfold dec_server_closed, enc_smsg.
  cbn [un_string_array rmapM un_string rbind]. guard_off g_sclosed_arity_bad_spec.
  cbn [idx nth_error rbind]. rewrite label_closed_pin. guard_off g_sclosed_label_bad_spec.
  now rewrite (parse_prefix_wf pfx msg H).
Qed.

Lemma enc_dec_server_count sub n ap :
  uint64_okb n = true ->
  dec_server_count (enc_smsg (SCount sub n ap)) = Val (SCount sub n ap).
Proof.
  intro H. unfold dec_server_count, enc_smsg.
  cbn [un_raw_array rbind]. guard_off g_scount_arity_bad_spec.
  cbn [idx nth_error un_string rbind]. rewrite label_count_pin. guard_off g_scount_label_bad_spec.
  unfold dec_count_payload.
  change (count_payload ((k_count, JNum (num_of_N n)) :: opt_member k_approximate ap JBool) 0%N None)
    with (match uint64_of (num_of_N n) with
          | Some c => count_payload (opt_member k_approximate ap JBool) c None
          | None => Err
          end).
  rewrite (uint64_of_num_of_N n H). destruct ap as [b|]; reflexivity.
Qed.

Definition dec_smsg_like (m : smsg) : jv -> res smsg :=
  match m with
  | SEose _ => dec_server_eose
  | SEvent _ _ => dec_server_event
  | SNotice _ => dec_server_notice
  | SOk _ _ _ _ => dec_server_ok
  | SAuth _ => dec_server_auth
  | SCount _ _ _ => dec_server_count
  | SClosed _ _ _ => dec_server_closed
  end.

Theorem enc_dec_smsg m : wf_smsg m -> dec_smsg_like m (enc_smsg m) = Val m.
Proof.
  unfold wf_smsg.
  destruct m as [sub|sub [e|]|s|id acc msg pfx|c|sub n ap|sub msg pfx]; simpl wf_smsgb; intro H;
    try discriminate.
  - apply enc_dec_server_eose.
  - now apply enc_dec_server_event.
  - apply enc_dec_server_notice.
  - now apply enc_dec_server_ok.
  - apply enc_dec_server_auth.
  - now apply enc_dec_server_count.
  - now apply enc_dec_server_closed.
Qed.

(** all fourteen types at once, through the dispatcher the harness uses *)
Theorem enc_dec_wval v : wf_wval v -> dec_as (ty_of v) (enc_wval v) = Val v.
Proof.
  unfold wf_wval. destruct v as [e|f|m|m]; simpl wf_wvalb; intro H.
  - unfold dec_as, enc_wval, ty_of. now rewrite (enc_dec_event e H).
  - unfold dec_as, enc_wval, ty_of. now rewrite (enc_dec_filter f H).
  - pose proof (enc_dec_cmsg m H) as E. destruct m; unfold dec_as, enc_wval, ty_of, dec_cmsg_like in *; now rewrite E.
  - pose proof (enc_dec_smsg m H) as E. destruct m; unfold dec_as, enc_wval, ty_of, dec_smsg_like in *; now rewrite E.
Qed.

(* ================================================================== *)
(** * 4. What a decoder returns is well formed ("completely filled") *)

Lemma rbind_Val {A B} (r : res A) (f : A -> res B) v :
  rbind r f = Val v -> exists a, r = Val a /\ f a = Val v.
Proof. destruct r; simpl; intro H; [eauto | discriminate | discriminate]. Qed.

Ltac inv_res H :=
  repeat match type of H with
         | rbind _ _ = Val _ =>
             let a := fresh "a" in let Ha := fresh "Ha" in apply rbind_Val in H as [a [Ha H]];
             try discriminate Ha
         | (if ?g then Err else _) = Val _ =>
             let E := fresh "E" in destruct g eqn:E; [discriminate H|]
         | Err = Val _ => discriminate H
         | Panic = Val _ => discriminate H
         end.

Lemma as_int64_ok v z : as_int64 v = Val z -> int64_okb z = true.
Proof.
  destruct v as [| |n| | |]; try discriminate. simpl.
  destruct (int64_of n) eqn:E; [|discriminate]. intro H; inversion H; subst.
  eapply int64_of_ok; eassumption.
Qed.

Lemma as_int64s_ok v l : as_int64s v = Val l -> forallb int64_okb l = true.
Proof.
  destruct v as [| | | |js|]; try discriminate. simpl. intro H.
  apply rmapM_Val_Forall2 in H. induction H as [|x y l l' Hxy _ IH]; [reflexivity|].
  simpl. rewrite (as_int64_ok _ _ Hxy). exact IH.
Qed.

Lemma dec_tags_some l tags : rmapM dec_tag l = Val tags -> forallb is_some tags = true.
Proof.
  intro H. apply rmapM_Val_Forall2 in H. induction H as [|x y l l' Hxy _ IH]; [reflexivity|].
  simpl. rewrite IH, andb_true_r. destruct x; try discriminate. simpl in Hxy.
  inv_res Hxy. now inversion Hxy.
Qed.

Theorem dec_event_wf j e : dec_event j = Val e -> wf_event e.
Proof.
  unfold dec_event. intro H. inv_res H. inversion H; subst; clear H.
  unfold wf_event, wf_eventb; simpl.
  inv_res Ha2. inv_res Ha3. inv_res Ha4.
  rewrite (as_int64_ok _ _ Ha2), (as_int64_ok _ _ Ha3). simpl.
  destruct a9; try discriminate.
  change (rmapM _ l) with (rmapM dec_tag l) in Ha4. eapply dec_tags_some; eassumption.
Qed.

(** the invariant of the member loop of ReqFilter.UnmarshalJSON *)
Definition finv (f : gfilter) : Prop :=
  opt_all (forallb int64_okb) (gf_kinds f) = true /\
  opt_all int64_okb (gf_since f) = true /\ opt_all int64_okb (gf_until f) = true /\
  opt_all int64_okb (gf_limit f) = true /\
  match gf_tags f with
  | None => True
  | Some m => m <> [] /\ forallb tagcond_wfb m = true /\ NoDup (List.map fst m)
  end.

Lemma finv_wf f : finv f -> wf_filter f.
Proof.
  intros [Hk [Hs [Hu [Hl Ht]]]]. unfold wf_filter, wf_filterb.
  rewrite Hk, Hs, Hu, Hl. simpl. destruct (gf_tags f) as [m|]; [|reflexivity].
  destruct Ht as [Hne [Hwf Hnd]]. apply andb_true_iff. split; [apply andb_true_iff; split|].
  - destruct m; [contradiction | reflexivity].
  - now apply nodup_strb_NoDup.
  - exact Hwf.
Qed.

Lemma tags_set_In k v m k' :
  In k' (List.map fst (tags_set k v m)) -> k' = k \/ In k' (List.map fst m).
Proof.
  induction m as [|[k0 v0] m IH]; simpl.
  - intros [H|[]]; now left.
  - destruct (str_eqb k k0) eqn:E; simpl.
    + apply str_eqb_eq in E. subst. intros [H|H]; [now left | right; now right].
    + intros [H|H]; [right; now left|]. destruct (IH H); [now left | right; now right].
Qed.

Lemma tags_set_NoDup k v m : NoDup (List.map fst m) -> NoDup (List.map fst (tags_set k v m)).
Proof.
  induction m as [|[k0 v0] m IH]; simpl; intro H.
  - repeat constructor. intros [].
  - inversion H as [|? ? Hn Hd]; subst. destruct (str_eqb k k0) eqn:E; simpl.
    + apply str_eqb_eq in E. subst. now constructor.
    + constructor; [|auto]. intro Hin. apply tags_set_In in Hin as [Hin|Hin]; [|contradiction].
      subst. rewrite str_eqb_refl in E. discriminate.
Qed.

Lemma tags_set_wf k v m :
  tagcond_wfb (k, v) = true -> forallb tagcond_wfb m = true -> forallb tagcond_wfb (tags_set k v m) = true.
Proof.
  intro Hkv. induction m as [|[k0 v0] m IH]; simpl; intro H.
  - now rewrite Hkv.
  - apply andb_true_iff in H as [H0 H]. destruct (str_eqb k k0); simpl.
    + now rewrite Hkv, H.
    + now rewrite H0, IH.
Qed.

Lemma tags_set_nonempty k v m : tags_set k v m <> [].
Proof. destruct m as [|[k0 v0] m]; simpl; [discriminate|]. destruct (str_eqb k k0); discriminate. Qed.

Ltac finv_split :=
  unfold finv; cbn [gf_ids gf_authors gf_kinds gf_tags gf_since gf_until gf_limit];
  refine (conj _ (conj _ (conj _ (conj _ _)))); try assumption.

Lemma filter_step_inv f kv f' : filter_step f kv = Val f' -> finv f -> finv f'.
Proof.
  destruct kv as [k v]. unfold filter_step. intros H [Hk [Hs [Hu [Hl Ht]]]].
  destruct (g_fkey_ids k); [inv_res H; inversion H; subst; finv_split|].
  destruct (g_fkey_authors k); [inv_res H; inversion H; subst; finv_split|].
  destruct (g_fkey_kinds k).
  { inv_res H. inversion H; subst. finv_split. simpl. eapply as_int64s_ok; eassumption. }
  destruct (g_fkey_tag (zlen k) (byte_at 0 k) (byte_at 1 k)) eqn:Et.
  { apply g_fkey_tag_spec in Et as [c [-> Hc]]. inv_res H. inversion H; subst; clear H.
    finv_split.
    assert (Hkv : tagcond_wfb ([c], Some a) = true) by (unfold tagcond_wfb; simpl; now rewrite Hc).
    split; [apply tags_set_nonempty|]. destruct (gf_tags f) as [m|].
    - destruct Ht as [_ [Hwf Hnd]]. split; [now apply tags_set_wf | now apply tags_set_NoDup].
    - split; [apply tags_set_wf; [assumption | reflexivity] | apply tags_set_NoDup; constructor]. }
  destruct (g_fkey_since k).
  { inv_res H. inversion H; subst. finv_split. simpl. eapply as_int64_ok; eassumption. }
  destruct (g_fkey_until k).
  { inv_res H. inversion H; subst. finv_split. simpl. eapply as_int64_ok; eassumption. }
  destruct (g_fkey_limit k).
  { inv_res H. inversion H; subst. finv_split. simpl. eapply as_int64_ok; eassumption. }
  discriminate.
Qed.

Lemma filter_fold_inv m : forall f f', filter_fold m f = Val f' -> finv f -> finv f'.
Proof.
  induction m as [|kv m IH]; simpl; intros f f' H Hf.
  - now inversion H; subst.
  - inv_res H. eapply IH; [eassumption|]. eapply filter_step_inv; eassumption.
Qed.

Lemma finv_empty : finv empty_gfilter.
Proof. repeat split. Qed.

Theorem dec_filter_wf j f : dec_filter j = Val f -> wf_filter f.
Proof.
  unfold dec_filter. destruct j; try discriminate; intro H.
  - inversion H; subst. apply finv_wf, finv_empty.
  - apply finv_wf. eapply filter_fold_inv; [eassumption | apply finv_empty].
Qed.

Lemma dec_filters_wf l fs :
  dec_filters l = Val fs ->
  forallb (fun f => match f with Some f => wf_filterb f | None => false end) fs = true /\ length fs = length l.
Proof.
  unfold dec_filters. intro H. apply rmapM_Val_Forall2 in H.
  induction H as [|x y l l' Hxy _ [IH1 IH2]]; [split; reflexivity|].
  inv_res Hxy. inversion Hxy; subst. simpl. rewrite IH1, IH2, andb_true_r. split; [|reflexivity].
  eapply dec_filter_wf; eassumption.
Qed.

(** client messages; the bare text null is the excluded no-op *)
Theorem dec_client_event_wf j m : dec_client_event j = Val m -> j <> JNull -> wf_cmsg m /\ label_of_cmsg m = L_EVENT.
Proof.
  intros H Hn. unfold dec_client_event in H. destruct j; try congruence; simpl un_raw_array in H; try (inv_res H; fail); inv_res H.
  inversion H; subst. split; [|reflexivity]. unfold wf_cmsg; simpl. eapply dec_event_wf; eassumption.
Qed.

Theorem dec_client_auth_wf j m : dec_client_auth j = Val m -> j <> JNull -> wf_cmsg m /\ label_of_cmsg m = L_AUTH.
Proof.
  intros H Hn. unfold dec_client_auth in H. destruct j; try congruence; simpl un_raw_array in H; try (inv_res H; fail); inv_res H.
  inversion H; subst. split; [|reflexivity]. unfold wf_cmsg; simpl. eapply dec_event_wf; eassumption.
Qed.

Theorem dec_client_close_wf j m : dec_client_close j = Val m -> j <> JNull -> wf_cmsg m /\ label_of_cmsg m = L_CLOSE.
Proof.
  intros H Hn. unfold dec_client_close in H. destruct j; try congruence; simpl un_string_array in H; try (inv_res H; fail); inv_res H.
  inversion H; subst. split; reflexivity.
Qed.

Lemma skipn2_length {A} (l : list A) : 3 <= zlen l -> negb (Nat.eqb (length (skipn 2 l)) 0) = true.
Proof. intro H. apply zlen_ge3 in H as [a [b [c [r ->]]]]. reflexivity. Qed.

Theorem dec_client_req_wf j m : dec_client_req j = Val m -> j <> JNull -> wf_cmsg m /\ label_of_cmsg m = L_REQ.
Proof.
  intros H Hn. unfold dec_client_req in H. destruct j; try congruence; simpl un_raw_array in H; try (inv_res H; fail); inv_res H.
  inversion H; subst. split; [|reflexivity]. unfold wf_cmsg; simpl. unfold wf_filtersb.
  apply g_creq_arity_bad_spec in E. apply dec_filters_wf in Ha4 as [Hw Hlen].
  rewrite Hw, Hlen, andb_true_r. now apply skipn2_length.
Qed.

Theorem dec_client_count_wf j m : dec_client_count j = Val m -> j <> JNull -> wf_cmsg m /\ label_of_cmsg m = L_COUNT.
Proof.
  intros H Hn. unfold dec_client_count in H. destruct j; try congruence; simpl un_raw_array in H; try (inv_res H; fail); inv_res H.
  inversion H; subst. split; [|reflexivity]. unfold wf_cmsg; simpl. unfold wf_filtersb.
  apply g_ccount_arity_bad_spec in E. apply dec_filters_wf in Ha4 as [Hw Hlen].
  rewrite Hw, Hlen, andb_true_r. now apply skipn2_length.
Qed.

(** server messages *)
Theorem dec_smsg_wf t j m :
  match t with
  | TSEose => dec_server_eose j | TSEvent => dec_server_event j | TSNotice => dec_server_notice j
  | TSOk => dec_server_ok j | TSAuth => dec_server_auth j | TSCount => dec_server_count j
  | TSClosed => dec_server_closed j | _ => Err
  end = Val m -> j <> JNull -> wf_smsg m.
Proof.
  intros H Hn. unfold wf_smsg.
  destruct t; try discriminate.
  - unfold dec_server_eose in H. destruct j; try congruence; simpl un_string_array in H; try (inv_res H; fail); inv_res H.
    now inversion H; subst.
  - unfold dec_server_event in H. destruct j; try congruence; simpl un_raw_array in H; try (inv_res H; fail); inv_res H.
    inversion H; subst. simpl. eapply dec_event_wf; eassumption.
  - unfold dec_server_notice in H. destruct j; try congruence; simpl un_string_array in H; try (inv_res H; fail); inv_res H.
    now inversion H; subst.
  - unfold dec_server_ok in H. destruct j; try congruence; simpl un_raw_array in H; try (inv_res H; fail); inv_res H.
    match type of H with context [parse_prefix ?x] => destruct (parse_prefix x) as [pfx msg] eqn:Ep end. inversion H; subst. simpl.
    now apply (parse_prefix_normal _ _ _ Ep).
  - unfold dec_server_auth in H. destruct j; try congruence; simpl un_string_array in H; try (inv_res H; fail); inv_res H.
    now inversion H; subst.
  - unfold dec_server_count in H. destruct j; try congruence; simpl un_raw_array in H; try (inv_res H; fail); inv_res H.
    inversion H; subst. simpl. clear H.
    (* the count is whatever the last accepted member left: always a uint64 *)
    assert (Hp : forall mm c ap r, uint64_okb c = true -> count_payload mm c ap = Val r -> uint64_okb (fst r) = true).
    { induction mm as [|[k v] mm IH]; simpl; intros c ap r Hc Hr.
      - now inversion Hr; subst.
      - destruct (fold_eq k k_count).
        + destruct v as [| |n| | |]; try discriminate; [eauto|].
          destruct (uint64_of n) eqn:En; [|discriminate]. apply uint64_of_ok in En. eauto.
        + destruct (fold_eq k k_approximate); [|discriminate].
          destruct v; try discriminate; eauto. }
    match goal with
    | Hd : dec_count_payload ?x = Val _ |- _ =>
        unfold dec_count_payload in Hd; destruct x; try discriminate Hd;
        [ now inversion Hd; subst | eapply Hp; [|exact Hd]; reflexivity ]
    end.
  - unfold dec_server_closed in H. destruct j; try congruence; simpl un_string_array in H; try (inv_res H; fail); inv_res H.
    match type of H with context [parse_prefix ?x] => destruct (parse_prefix x) as [pfx msg] eqn:Ep end. inversion H; subst. simpl.
    now apply (parse_prefix_normal _ _ _ Ep).
Qed.

(* ================================================================== *)
(** * 5. No decoder reaches a run-time panic.  Every slice index is covered
      by the arity test before it (through the generated guard), the
      sub-slice k[1:2] by the tag-key test. *)

Lemma dec_event_no_panic j : dec_event j <> Panic.
Proof.
  unfold dec_event.
  apply rbind_no_panic; [apply un_object_no_panic | intros obj _].
  destruct (g_event_nfields_bad (obj_len obj)); [discriminate|].
  repeat (apply rbind_no_panic;
          [ apply rbind_no_panic; [apply get_member_no_panic | intros ? _];
            first [ apply as_string_no_panic | apply as_int64_no_panic | idtac ]
          | intros ? _ ]); try discriminate.
  destruct a3; try discriminate. apply rmapM_no_panic. intros [] ; try discriminate.
  apply rbind_no_panic; [apply rmapM_no_panic, as_string_no_panic | discriminate].
Qed.

Lemma filter_step_no_panic f kv : filter_step f kv <> Panic.
Proof.
  destruct kv as [k v]. unfold filter_step.
  destruct (g_fkey_ids k); [apply rbind_no_panic; [apply as_strings_no_panic | discriminate]|].
  destruct (g_fkey_authors k); [apply rbind_no_panic; [apply as_strings_no_panic | discriminate]|].
  destruct (g_fkey_kinds k); [apply rbind_no_panic; [apply as_int64s_no_panic | discriminate]|].
  destruct (g_fkey_tag (zlen k) (byte_at 0 k) (byte_at 1 k)) eqn:Et.
  { apply g_fkey_tag_spec in Et as [c [-> _]].
    apply rbind_no_panic; [apply as_strings_no_panic | discriminate]. }
  destruct (g_fkey_since k); [apply rbind_no_panic; [apply as_int64_no_panic | discriminate]|].
  destruct (g_fkey_until k); [apply rbind_no_panic; [apply as_int64_no_panic | discriminate]|].
  destruct (g_fkey_limit k); [apply rbind_no_panic; [apply as_int64_no_panic | discriminate]|].
  discriminate.
Qed.

Lemma filter_fold_no_panic m : forall f, filter_fold m f <> Panic.
Proof.
  induction m as [|kv m IH]; simpl; intro f; [discriminate|].
  apply rbind_no_panic; [apply filter_step_no_panic | intros f' _; apply IH].
Qed.

Lemma dec_filter_no_panic j : dec_filter j <> Panic.
Proof. destruct j; try discriminate. apply filter_fold_no_panic. Qed.

Lemma dec_filters_no_panic l : dec_filters l <> Panic.
Proof.
  apply rmapM_no_panic. intro j. apply rbind_no_panic; [apply dec_filter_no_panic | discriminate].
Qed.

Lemma count_payload_no_panic m : forall c ap, count_payload m c ap <> Panic.
Proof.
  induction m as [|[k v] m IH]; simpl; intros c ap; [discriminate|].
  destruct (fold_eq k k_count).
  - destruct v as [| |n| | |]; try discriminate; [apply IH|]. destruct (uint64_of n); [apply IH | discriminate].
  - destruct (fold_eq k k_approximate); [|discriminate]. destruct v; try discriminate; apply IH.
Qed.

Lemma dec_count_payload_no_panic j : dec_count_payload j <> Panic.
Proof. destruct j; try discriminate. apply count_payload_no_panic. Qed.

Ltac np_arity spec zl :=
  match goal with
  | |- (if ?g then _ else _) <> Panic =>
      let E := fresh "E" in
      destruct g eqn:E; [discriminate|]; apply spec in E; apply zl in E
  end.

Ltac np_tail :=
  repeat first
    [ discriminate
    | apply rbind_no_panic;
      [ first [ apply un_string_no_panic | apply un_bool_no_panic | apply dec_event_no_panic
              | apply dec_filters_no_panic | apply dec_count_payload_no_panic | discriminate ]
      | intros ? _ ]
    | match goal with |- (if ?g then _ else _) <> Panic => destruct g end
    | match goal with |- (let (_, _) := ?p in _) <> Panic => destruct p end ].

Lemma dec_client_event_no_panic j : dec_client_event j <> Panic.
Proof.
  unfold dec_client_event. destruct j; try discriminate.
  cbn [un_raw_array rbind]. np_arity g_cevent_arity_bad_spec (@zlen_2 jv).
  destruct E as [a [b ->]]. cbn [idx nth_error rbind]. np_tail.
Qed.

Lemma dec_client_auth_no_panic j : dec_client_auth j <> Panic.
Proof.
  unfold dec_client_auth. destruct j; try discriminate.
  cbn [un_raw_array rbind]. np_arity g_cauth_arity_bad_spec (@zlen_2 jv).
  destruct E as [a [b ->]]. cbn [idx nth_error rbind]. np_tail.
Qed.

Lemma dec_client_req_no_panic j : dec_client_req j <> Panic.
Proof.
  unfold dec_client_req. destruct j; try discriminate.
  cbn [un_raw_array rbind]. np_arity g_creq_arity_bad_spec (@zlen_ge3 jv).
  destruct E as [a [b [c [r ->]]]]. cbn [idx nth_error rbind]. np_tail.
Qed.

Lemma dec_client_count_no_panic j : dec_client_count j <> Panic.
Proof.
  unfold dec_client_count. destruct j; try discriminate.
  cbn [un_raw_array rbind]. np_arity g_ccount_arity_bad_spec (@zlen_ge3 jv).
  destruct E as [a [b [c [r ->]]]]. cbn [idx nth_error rbind]. np_tail.
Qed.

Ltac np_strings :=
  match goal with
  | |- rbind (un_string_array ?j) _ <> Panic =>
      apply rbind_no_panic; [apply un_string_array_no_panic | intros elems _]
  end.

Lemma dec_client_close_no_panic j : dec_client_close j <> Panic.
Proof.
  unfold dec_client_close. destruct j; try discriminate.
  np_strings. np_arity g_cclose_arity_bad_spec (@zlen_2 str).
  destruct E as [a [b ->]]. cbn [idx nth_error rbind]. np_tail.
Qed.

Lemma dec_server_eose_no_panic j : dec_server_eose j <> Panic.
Proof.
  unfold dec_server_eose. destruct j; try discriminate.
  np_strings. np_arity g_seose_arity_bad_spec (@zlen_2 str).
  destruct E as [a [b ->]]. cbn [idx nth_error rbind]. np_tail.
Qed.

Lemma dec_server_notice_no_panic j : dec_server_notice j <> Panic.
Proof.
  unfold dec_server_notice. destruct j; try discriminate.
  np_strings. np_arity g_snotice_arity_bad_spec (@zlen_2 str).
  destruct E as [a [b ->]]. cbn [idx nth_error rbind]. np_tail.
Qed.

Lemma dec_server_auth_no_panic j : dec_server_auth j <> Panic.
Proof.
  unfold dec_server_auth. destruct j; try discriminate.
  np_strings. np_arity g_sauth_arity_bad_spec (@zlen_2 str).
  destruct E as [a [b ->]]. cbn [idx nth_error rbind]. np_tail.
Qed.

Lemma dec_server_closed_no_panic j : dec_server_closed j <> Panic.
Proof.
  unfold dec_server_closed. destruct j; try discriminate.
  np_strings. np_arity g_sclosed_arity_bad_spec (@zlen_3 str).
  destruct E as [a [b [c ->]]]. cbn [idx nth_error rbind]. np_tail.
Qed.

Lemma dec_server_event_no_panic j : dec_server_event j <> Panic.
Proof.
  unfold dec_server_event. destruct j; try discriminate.
  cbn [un_raw_array rbind]. np_arity g_sevent_arity_bad_spec (@zlen_3 jv).
  destruct E as [a [b [c ->]]]. cbn [idx nth_error rbind]. np_tail.
Qed.

Lemma dec_server_ok_no_panic j : dec_server_ok j <> Panic.
Proof.
  unfold dec_server_ok. destruct j; try discriminate.
  cbn [un_raw_array rbind]. np_arity g_sok_arity_bad_spec (@zlen_4 jv).
  destruct E as [a [b [c [d ->]]]]. cbn [idx nth_error rbind]. np_tail.
Qed.

Lemma dec_server_count_no_panic j : dec_server_count j <> Panic.
Proof.
  unfold dec_server_count. destruct j; try discriminate.
  cbn [un_raw_array rbind]. np_arity g_scount_arity_bad_spec (@zlen_3 jv).
  destruct E as [a [b [c ->]]]. cbn [idx nth_error rbind]. np_tail.
Qed.

Lemma rmap_no_panic {A B} (f : A -> B) r : r <> Panic -> rmap f r <> Panic.
Proof. destruct r; simpl; congruence. Qed.

(** "decoding ... never panics", at the level of the JSON value *)
Theorem dec_never_panics t j : dec_as t j <> Panic.
Proof.
  destruct t; apply rmap_no_panic.
  - apply dec_event_no_panic.
  - apply dec_filter_no_panic.
  - apply dec_client_event_no_panic.
  - apply dec_client_req_no_panic.
  - apply dec_client_close_no_panic.
  - apply dec_client_auth_no_panic.
  - apply dec_client_count_no_panic.
  - apply dec_server_eose_no_panic.
  - apply dec_server_event_no_panic.
  - apply dec_server_notice_no_panic.
  - apply dec_server_ok_no_panic.
  - apply dec_server_auth_no_panic.
  - apply dec_server_count_no_panic.
  - apply dec_server_closed_no_panic.
Qed.

Theorem parse_never_panics t : parse_client_msg t <> Panic.
Proof.
  unfold parse_client_msg. destruct (label_precheck t); [|discriminate].
  repeat match goal with |- (if ?g then _ else _) <> Panic => destruct g end;
    first [ apply dec_client_event_no_panic | apply dec_client_req_no_panic | apply dec_client_close_no_panic
          | apply dec_client_auth_no_panic | apply dec_client_count_no_panic | discriminate ].
Qed.

(* ================================================================== *)
(** * 6. Filled values, decode-encode-decode, ParseClientMsg *)

(** whatever a decoder returns for a text other than the bare null is a
    completely filled value of the named type *)
Theorem dec_filled t j v : dec_as t j = Val v -> j <> JNull -> wf_wval v /\ ty_of v = t.
Proof.
  intros H Hn. unfold wf_wval.
  destruct t; unfold dec_as, rmap in H; inv_res H; inversion H; subst; clear H; simpl wf_wvalb.
  - split; [eapply dec_event_wf; eassumption | reflexivity].
  - split; [eapply dec_filter_wf; eassumption | reflexivity].
  - destruct (dec_client_event_wf _ _ Ha Hn) as [Hw Hl]. split; [exact Hw|]. now destruct a.
  - destruct (dec_client_req_wf _ _ Ha Hn) as [Hw Hl]. split; [exact Hw|]. now destruct a.
  - destruct (dec_client_close_wf _ _ Ha Hn) as [Hw Hl]. split; [exact Hw|]. now destruct a.
  - destruct (dec_client_auth_wf _ _ Ha Hn) as [Hw Hl]. split; [exact Hw|]. now destruct a.
  - destruct (dec_client_count_wf _ _ Ha Hn) as [Hw Hl]. split; [exact Hw|]. now destruct a.
  - split; [exact (dec_smsg_wf TSEose _ _ Ha Hn)|].
    unfold dec_server_eose in Ha. destruct j; try congruence; simpl un_string_array in Ha;
      try (inv_res Ha; fail); inv_res Ha. now inversion Ha.
  - split; [exact (dec_smsg_wf TSEvent _ _ Ha Hn)|].
    unfold dec_server_event in Ha. destruct j; try congruence; simpl un_raw_array in Ha;
      try (inv_res Ha; fail); inv_res Ha. now inversion Ha.
  - split; [exact (dec_smsg_wf TSNotice _ _ Ha Hn)|].
    unfold dec_server_notice in Ha. destruct j; try congruence; simpl un_string_array in Ha;
      try (inv_res Ha; fail); inv_res Ha. now inversion Ha.
  - split; [exact (dec_smsg_wf TSOk _ _ Ha Hn)|].
    unfold dec_server_ok in Ha. destruct j; try congruence; simpl un_raw_array in Ha;
      try (inv_res Ha; fail); inv_res Ha.
    match type of Ha with context [parse_prefix ?x] => destruct (parse_prefix x) end. now inversion Ha.
  - split; [exact (dec_smsg_wf TSAuth _ _ Ha Hn)|].
    unfold dec_server_auth in Ha. destruct j; try congruence; simpl un_string_array in Ha;
      try (inv_res Ha; fail); inv_res Ha. now inversion Ha.
  - split; [exact (dec_smsg_wf TSCount _ _ Ha Hn)|].
    unfold dec_server_count in Ha. destruct j; try congruence; simpl un_raw_array in Ha;
      try (inv_res Ha; fail); inv_res Ha. now inversion Ha.
  - split; [exact (dec_smsg_wf TSClosed _ _ Ha Hn)|].
    unfold dec_server_closed in Ha. destruct j; try congruence; simpl un_string_array in Ha;
      try (inv_res Ha; fail); inv_res Ha.
    match type of Ha with context [parse_prefix ?x] => destruct (parse_prefix x) end. now inversion Ha.
Qed.

(** decode-encode-decode = decode, for every accepted text *)
Theorem dec_enc_dec t j v : dec_as t j = Val v -> j <> JNull -> dec_as t (enc_wval v) = Val v.
Proof.
  intros H Hn. destruct (dec_filled t j v H Hn) as [Hw <-]. now apply enc_dec_wval.
Qed.

Corollary dec_enc_dec_event j e : dec_event j = Val e -> dec_event (enc_event e) = Val e.
Proof. intro H. apply enc_dec_event. eapply dec_event_wf; eassumption. Qed.

Corollary dec_enc_dec_filter j f : dec_filter j = Val f -> dec_filter (enc_filter f) = Val f.
Proof. intro H. apply enc_dec_filter. eapply dec_filter_wf; eassumption. Qed.

(** ParseClientMsg: the result has the label the text starts with and is
    completely filled *)
Lemma label_precheck_shape t l :
  label_precheck t = Some l -> exists rest, ct_json t = JArr (JStr l :: rest).
Proof.
  unfold label_precheck. destruct (ct_lead_ws t && negb lead_ws_allowed); [discriminate|].
  destruct (ct_json t) as [| | | |[|[| | |s| |] rest]|]; try discriminate.
  destruct (ct_label_escaped t); [discriminate|]. destruct (forallb word_char s); [|discriminate].
  intro H; inversion H; subst. eauto.
Qed.

Theorem parse_label_sound t m :
  parse_client_msg t = Val m ->
  first_label (ct_json t) = Some (label_of_cmsg m) /\ wf_cmsg m.
Proof.
  unfold parse_client_msg. destruct (label_precheck t) as [l|] eqn:Ep; [|discriminate].
  destruct (label_precheck_shape t l Ep) as [rest Ej].
  rewrite Ej. assert (Hn : JArr (JStr l :: rest) <> JNull) by discriminate.
  simpl first_label.
  destruct (str_eqb l g_MsgLabelEvent) eqn:E1.
  { apply str_eqb_eq in E1. rewrite label_event_pin in E1. subst l. intro H.
    destruct (dec_client_event_wf _ _ H Hn) as [Hw ->]. now split. }
  destruct (str_eqb l g_MsgLabelReq) eqn:E2.
  { apply str_eqb_eq in E2. rewrite label_req_pin in E2. subst l. intro H.
    destruct (dec_client_req_wf _ _ H Hn) as [Hw ->]. now split. }
  destruct (str_eqb l g_MsgLabelClose) eqn:E3.
  { apply str_eqb_eq in E3. rewrite label_close_pin in E3. subst l. intro H.
    destruct (dec_client_close_wf _ _ H Hn) as [Hw ->]. now split. }
  destruct (str_eqb l g_MsgLabelAuth) eqn:E4.
  { apply str_eqb_eq in E4. rewrite label_auth_pin in E4. subst l. intro H.
    destruct (dec_client_auth_wf _ _ H Hn) as [Hw ->]. now split. }
  destruct (str_eqb l g_MsgLabelCount) eqn:E5.
  { apply str_eqb_eq in E5. rewrite label_count_pin in E5. subst l. intro H.
    destruct (dec_client_count_wf _ _ H Hn) as [Hw ->]. now split. }
  discriminate.
Qed.

(** a well-formed client message, encoded and written without leading white
    space or label escapes, is parsed back to itself *)
Theorem parse_enc_cmsg m : wf_cmsg m -> parse_client_msg (plain_text (enc_cmsg m)) = Val m.
Proof.
  intro H. pose proof (enc_dec_cmsg m H) as E.
  unfold parse_client_msg, label_precheck, plain_text. cbn [ct_lead_ws ct_label_escaped ct_json andb].
  destruct m; cbn [enc_cmsg dec_cmsg_like] in *; cbn; exact E.
Qed.

(** white space before the opening bracket: the outcome is decided by the
    pattern alone *)
Theorem parse_leading_ws esc j :
  parse_client_msg (mkCText true esc j) =
  if lead_ws_allowed then parse_client_msg (mkCText false esc j) else Err.
Proof.
  unfold parse_client_msg, label_precheck. cbn [ct_lead_ws ct_label_escaped ct_json andb].
  destruct lead_ws_allowed; reflexivity.
Qed.
