(* SqlQuery.v — C06: the generated query over the tables of a history returns
   what the specification asks for.
   [live_rows_are_stored_not_deleted], [candidates_spec], [subquery_topn],
   [query_correct_core].  The two places where the defects F6 / F7 matter are
   isolated as hypotheses in MODEL terms ([k5_counted], [limits_agree]); the
   pinned / repaired corollaries discharge them (SqlPinned.v, fixed/). *)
From Coq Require Import Permutation.
From Moc Require Import Base Match MatchProofs Sql SqlSpec SqlLemmas SqlInv SqlAbs SqlSort.
From Moc.Gen Require Import GenMsg GenSql.
Open Scope Z_scope.

(** every ["e", v, ...] / ["a", v, ...] tag of a deletion request passes the
    length guard of the tombstone builders.  On the pinned tree this holds
    only for two-element tags (F6); after the repair for all. *)
Definition k5_counted (es : list event) : Prop :=
  forall d n v rest, In d es -> ev_kind d = 5 -> In (n :: v :: rest) (ev_tags d) ->
    (n = s_e -> g_sql_did_skip_len (zlen (n :: v :: rest)) = false) /\
    (n = s_a -> g_sql_dkey_skip_len (zlen (n :: v :: rest)) = false).

(** the LIMIT the generated sub-select carries is the specified one.  On the
    pinned tree this fails for `limit: 0` (F7). *)
Definition limits_agree (fs : list rfilter) (maxLimit : Z) : Prop :=
  forall f, In f fs -> sub_limit_of (f_limit f) maxLimit = spec_limit (f_limit f) maxLimit /\
                       match sub_limit_of (f_limit f) maxLimit with Some n => 0 <= n | None => True end.

(* ------------------------------------------------------------------ *)
(** * the boolean hypotheses, unfolded *)

Lemma e_refs_canonical_spec es : e_refs_canonical es = true ->
  forall d v rest, In d es -> ev_kind d = 5 -> In (s_e :: v :: rest) (ev_tags d) -> hex_ok v = true -> hexl v = v.
Proof.
  unfold e_refs_canonical. rewrite forallb_forall. intros H d v rest Hd K Ht Hx.
  specialize (H d Hd). apply lor_true in H. destruct H as [H|H].
  - rewrite K in H. discriminate.
  - rewrite forallb_forall in H. specialize (H _ Ht). simpl in H. rewrite Hx in H. simpl in H.
    now apply str_eqb_eq in H.
Qed.

Lemma a_refs_scoped_spec es : a_refs_scoped es = true ->
  forall d v rest x, In d es -> ev_kind d = 5 -> In (s_a :: v :: rest) (ev_tags d) ->
    In x es -> sp_replaceable (ev_kind x) = true -> ev_pk x = ev_pk d ->
    v <> showZ (ev_kind x) ++ [colon] ++ ev_pk x.
Proof.
  unfold a_refs_scoped. rewrite forallb_forall. intros H d v rest x Hd K Ht Hx R P E.
  specialize (H d Hd). apply lor_true in H. destruct H as [H|H].
  - rewrite K in H. discriminate.
  - rewrite forallb_forall in H. specialize (H _ Ht). simpl in H.
    rewrite forallb_forall in H. specialize (H x Hx). rewrite R, P, str_eqb_refl in H.
    apply negb_true_iff in H. apply str_eqb_neq in H. rewrite <- P in H. contradiction.
Qed.

(* ------------------------------------------------------------------ *)
(** * tombstone builders *)

Lemma k5_dids_In e ip :
  In ip (k5_dids e) <-> ev_kind e = 5 /\ exists t, In t (ev_tags e) /\ In ip (k5_did_of_tag (ev_pk e) t).
Proof.
  unfold k5_dids. rewrite g_sql_did_not_k5_spec. destruct (ev_kind e =? 5) eqn:K; simpl.
  - apply Z.eqb_eq in K. rewrite in_flat_map. tauto.
  - apply Z.eqb_neq in K. split; [intros [] | tauto].
Qed.

Lemma k5_did_of_tag_In pk t ip :
  In ip (k5_did_of_tag pk t) <->
  g_sql_did_skip_len (zlen t) = false /\ exists rest, t = s_e :: rest /\ hex_ok (tag_value t) = true /\
                                                       ip = (hexl (tag_value t), hexl pk).
Proof.
  unfold k5_did_of_tag. remember (tag_value t) as v eqn:Ev.
  destruct (g_sql_did_skip_len (zlen t)); simpl.
  - split; [intros [] | intros [H _]; discriminate].
  - destruct t as [|n rest]; simpl.
    + split; [intros [] | intros [_ [r [H _]]]; discriminate].
    + rewrite g_sql_did_skip_name_spec. destruct (str_eqb n s_e) eqn:N; simpl.
      * apply str_eqb_eq in N. subst n. destruct (hex_ok v) eqn:X; simpl.
        -- split.
           ++ intros [<- |[]]. split; [reflexivity|]. exists rest. auto.
           ++ intros [_ [r [_ [_ ->]]]]. now left.
        -- split; [intros [] | intros [_ [r [_ [H _]]]]; discriminate].
      * apply str_eqb_neq in N. split; [intros [] | intros [_ [r [H _]]]; inversion H; congruence].
Qed.

Lemma k5_dkeys_In seed e kp :
  In kp (k5_dkeys seed e) <-> ev_kind e = 5 /\ exists t, In t (ev_tags e) /\ In kp (k5_dkey_of_tag seed (ev_pk e) t).
Proof.
  unfold k5_dkeys. rewrite g_sql_dkey_not_k5_spec. destruct (ev_kind e =? 5) eqn:K; simpl.
  - apply Z.eqb_eq in K. rewrite in_flat_map. tauto.
  - apply Z.eqb_neq in K. split; [intros [] | tauto].
Qed.

Lemma k5_dkey_of_tag_In seed pk t kp :
  In kp (k5_dkey_of_tag seed pk t) <->
  g_sql_dkey_skip_len (zlen t) = false /\ exists rest, t = s_a :: rest /\
    2 <= zlen (split_colon (tag_value t)) /\
    kp = (KAddr seed (nth 1 (split_colon (tag_value t)) []) (tag_value t), hexl pk).
Proof.
  unfold k5_dkey_of_tag. remember (tag_value t) as v eqn:Ev.
  destruct (g_sql_dkey_skip_len (zlen t)); simpl.
  - split; [intros [] | intros [H _]; discriminate].
  - destruct t as [|n rest]; simpl.
    + split; [intros [] | intros [_ [r [H _]]]; discriminate].
    + rewrite g_sql_dkey_skip_name_spec. destruct (str_eqb n s_a) eqn:N; simpl.
      * apply str_eqb_eq in N. subst n. rewrite g_sql_dkey_elems_short_spec.
        destruct (zlen (split_colon v) <? 2) eqn:L; simpl.
        -- apply Z.ltb_lt in L. split; [intros [] | intros [_ [r [_ [H _]]]]; lia].
        -- apply Z.ltb_ge in L. split.
           ++ intros [<- |[]]. split; [reflexivity|]. exists rest. auto.
           ++ intros [_ [r [_ [_ ->]]]]. now left.
      * apply str_eqb_neq in N. split; [intros [] | intros [_ [r [H _]]]; inversion H; congruence].
Qed.

Lemma zlen_two_cons {A} (t : list A) : 2 <= zlen t -> exists a b rest, t = a :: b :: rest.
Proof.
  destruct t as [|a [|b rest]]; unfold zlen; simpl; intro H; try lia. eauto.
Qed.

(* ------------------------------------------------------------------ *)
(** * live rows *)

Section Live.
Variable seed : Z.

Lemma tomb_free_iff es s x k :
  Abs seed es s -> Forall gv es -> e_refs_canonical es = true -> a_refs_scoped es = true -> k5_counted es ->
  stored es x -> get_event_key seed x = Some k ->
  (tomb_free s (row_of k x) = true <-> ~ deleted es x).
Proof.
  intros A G Ec As Kc S K.
  pose proof (stored_in _ _ S) as Ix.
  assert (Gf := G). rewrite Forall_forall in Gf.
  destruct (gv_facts x (Gf x Ix)) as [Hxid [Hid [_ [Hpk [Cf _]]]]].
  unfold tomb_free. simpl. rewrite Hid, Hpk. rewrite land_true, !negb_true_iff. split.
  - (* no tombstone matches -> not deleted *)
    intros [Hk Hi] [d [t [Hd [K5 [Pk [Ht Rf]]]]]].
    destruct (gv_facts d (Gf d Hd)) as [_ [_ [_ [Hpkd _]]]].
    destruct t as [|n [|v rest]]; simpl in Rf; try discriminate.
    destruct (Kc d n v rest Hd K5 Ht) as [Ce Ca].
    apply lor_true in Rf. destruct Rf as [Rf|Rf]; apply land_true in Rf; destruct Rf as [Rn Rv];
      apply str_eqb_eq in Rn; subst n.
    + apply str_eqb_eq in Rv. subst v.
      assert (X : In (ev_id x, ev_pk x) (d_dids s)).
      { apply (abs_dids seed es s A). exists d. split; [assumption|]. apply k5_dids_In. split; [assumption|].
        exists (s_e :: ev_id x :: rest). split; [assumption|]. apply k5_did_of_tag_In.
        split; [now apply Ce|]. exists (ev_id x :: rest). simpl. rewrite Hxid, Hid, Pk, Hpk. auto. }
      assert (Y : existsb (fun d0 => str_eqb (fst d0) (ev_id x) &&& str_eqb (snd d0) (ev_pk x)) (d_dids s) = true).
      { apply existsb_exists. exists (ev_id x, ev_pk x). simpl. now rewrite !str_eqb_refl. }
      congruence.
    + destruct (address x) as [[k0 pk0|k0 pk0 d0]|] eqn:Ax; try discriminate.
      apply str_eqb_eq in Rv.
      pose proof (address_pk x _ Ax) as Epk. simpl in Epk. subst pk0.
      assert (Kx : k = KAddr seed (ev_pk x) (addr3 k0 (ev_pk x) d0)).
      { rewrite get_event_key_spec in K. unfold key_of_spec in K. rewrite (stored_storable _ _ S), Ax in K.
        now inversion K. }
      assert (Ev : v = addr3 k0 (ev_pk x) d0) by exact Rv.
      destruct (split_colon_addr3 k0 (ev_pk x) d0 Cf) as [rs Sp].
      assert (X : In (k, ev_pk x) (d_dkeys s)).
      { apply (abs_dkeys seed es s A). exists d. split; [assumption|]. apply k5_dkeys_In. split; [assumption|].
        exists (s_a :: v :: rest). split; [assumption|]. apply k5_dkey_of_tag_In.
        split; [now apply Ca|]. exists (v :: rest). simpl. rewrite Ev, Sp. simpl.
        split; [reflexivity|]. split; [unfold zlen; simpl; lia|]. rewrite Pk, Hpk, Kx. reflexivity. }
      assert (Y : existsb (fun d0 => str_eqb (snd d0) (ev_pk x) &&& ekey_eqb (fst d0) k) (d_dkeys s) = true).
      { apply existsb_exists. exists (k, ev_pk x). simpl. now rewrite str_eqb_refl, ekey_eqb_refl. }
      congruence.
  - (* not deleted -> no tombstone matches *)
    intro ND. split.
    + destruct (existsb _ (d_dkeys s)) eqn:X; [|reflexivity]. exfalso. apply ND.
      apply existsb_exists in X. destruct X as [[k' p] [Hin X]]. simpl in X.
      apply land_true in X. destruct X as [X1 X2]. apply str_eqb_eq in X1. apply ekey_eqb_eq in X2. subst k' p.
      apply (abs_dkeys seed es s A) in Hin. destruct Hin as [d [Hd Hin]].
      destruct (gv_facts d (Gf d Hd)) as [_ [_ [_ [Hpkd _]]]].
      apply k5_dkeys_In in Hin. destruct Hin as [K5 [t [Ht Hin]]].
      apply k5_dkey_of_tag_In in Hin. destruct Hin as [Sk [rest [-> [L Eq]]]].
      apply g_sql_dkey_skip_len_weak in Sk. apply zlen_two_cons in Sk.
      destruct Sk as [a [v [rest' Et]]]. inversion Et; subst a rest. simpl in *.
      inversion Eq as [[Ek Ep]]. rewrite Hpkd in Ep.
      rewrite get_event_key_spec in K. unfold key_of_spec in K. rewrite (stored_storable _ _ S) in K.
      destruct (address x) as [[k0 pk0|k0 pk0 d0]|] eqn:Ax; inversion K as [Kk]; rewrite Ek in Kk; inversion Kk.
      * (* a reference to a replaceable event: outside the statement *)
        exfalso. pose proof (address_pk x _ Ax) as Epk. simpl in Epk. subst pk0.
        assert (R : sp_replaceable (ev_kind x) = true /\ k0 = ev_kind x).
        { unfold address in Ax. destruct (sp_replaceable (ev_kind x)); [inversion Ax; auto|].
          destruct (sp_addressable (ev_kind x)); [|discriminate]. destruct (d_value x); discriminate. }
        destruct R as [R ->].
        apply (a_refs_scoped_spec es As d v rest' x Hd K5 Ht Ix R); [congruence|].
        unfold addr2 in *; simpl in *; congruence.
      * exists d, (s_a :: v :: rest'). split; [assumption|]. split; [assumption|].
        split; [congruence|]. split; [assumption|]. simpl. rewrite Ax.
        apply str_eqb_eq. unfold addr3 in *. simpl in *. congruence.
    + destruct (existsb _ (d_dids s)) eqn:X; [|reflexivity]. exfalso. apply ND.
      apply existsb_exists in X. destruct X as [[i p] [Hin X]]. simpl in X.
      apply land_true in X. destruct X as [X1 X2]. apply str_eqb_eq in X1. apply str_eqb_eq in X2. subst i p.
      apply (abs_dids seed es s A) in Hin. destruct Hin as [d [Hd Hin]].
      destruct (gv_facts d (Gf d Hd)) as [_ [_ [_ [Hpkd _]]]].
      apply k5_dids_In in Hin. destruct Hin as [K5 [t [Ht Hin]]].
      apply k5_did_of_tag_In in Hin. destruct Hin as [Sk [rest [-> [Hx Eq]]]].
      apply g_sql_did_skip_len_weak in Sk. apply zlen_two_cons in Sk.
      destruct Sk as [a [v [rest' Et]]]. inversion Et; subst a rest. simpl in *.
      inversion Eq as [[Ei Ep]]. rewrite Hpkd in Ep.
      rewrite (e_refs_canonical_spec es Ec d v rest' Hd K5 Ht Hx) in Ei.
      exists d, (s_e :: v :: rest'). split; [assumption|]. split; [assumption|].
      split; [congruence|]. split; [assumption|]. simpl. subst v. now rewrite str_eqb_refl.
Qed.

(** C06 live_rows_are_stored_not_deleted: the rows that pass the two
    `not exists` tests are exactly the stored, not deleted events *)
Theorem live_rows_are_stored_not_deleted es s :
  Abs seed es s -> Forall gv es -> e_refs_canonical es = true -> a_refs_scoped es = true -> k5_counted es ->
  (forall r, In r (d_events s) -> tomb_free s r = true ->
     exists x, live es x /\ get_event_key seed x = Some (r_key r) /\ r = row_of (r_key r) x) /\
  (forall x, live es x ->
     exists k, get_event_key seed x = Some k /\ In (row_of k x) (d_events s) /\ tomb_free s (row_of k x) = true).
Proof.
  intros A G Ec As Kc. split.
  - intros r Hr T. destruct (abs_rows seed es s A r Hr) as [x [S [K [E _]]]].
    exists x. split; [|auto]. split; [assumption|].
    apply (tomb_free_iff es s x (r_key r) A G Ec As Kc S K). now rewrite <- E.
  - intros x [S ND]. destruct (abs_stored seed es s A x S) as [k [K Hr]].
    exists k. split; [assumption|]. split; [assumption|].
    now apply (tomb_free_iff es s x k A G Ec As Kc S K).
Qed.

End Live.

(* ------------------------------------------------------------------ *)
(** * joins on a primary key *)

Lemma filter_andb {A} (f g : A -> bool) l : filter (fun x => f x && g x) l = filter g (filter f l).
Proof.
  induction l as [|x l IH]; simpl; [reflexivity|].
  destruct (f x); simpl; [destruct (g x); now rewrite IH | assumption].
Qed.

Lemma filter_key_unique {A} (key : A -> ekey) l x :
  NoDup (List.map key l) -> In x l -> filter (fun y => ekey_eqb (key y) (key x)) l = [x].
Proof.
  induction l as [|y l IH]; simpl; intros ND Hx; [destruct Hx|].
  inversion ND as [|? ? Hn ND']; subst.
  destruct Hx as [-> |Hx].
  - rewrite ekey_eqb_refl. f_equal.
    clear IH ND. induction l as [|z l IH]; simpl; [reflexivity|].
    destruct (ekey_eqb (key z) (key x)) eqn:E.
    + apply ekey_eqb_eq in E. exfalso. apply Hn. simpl. now left.
    + apply IH. { intro H. apply Hn. now right. } now inversion ND'.
  - destruct (ekey_eqb (key y) (key x)) eqn:E.
    + apply ekey_eqb_eq in E. exfalso. apply Hn. rewrite E. now apply in_map.
    + now apply IH.
Qed.

Lemma self_join_count_spec s r p :
  NoDup (List.map r_key (d_events s)) -> In r (d_events s) ->
  self_join_count s r p = if p r then 1%nat else 0%nat.
Proof.
  intros ND Hr. unfold self_join_count.
  rewrite (filter_ext _ (fun r' => ekey_eqb (r_key r') (r_key r) && ((r_ts r' =? r_ts r) && p r'))).
  2:{ intro a. rewrite !land_andb. destruct (r_ts a =? r_ts r), (ekey_eqb (r_key a) (r_key r)), (p a); reflexivity. }
  rewrite filter_andb, (filter_key_unique r_key _ r ND Hr). simpl. rewrite Z.eqb_refl. simpl.
  destruct (p r); reflexivity.
Qed.

Lemma length_filter_pos {A} (P : A -> bool) l : (0 < length (filter P l))%nat <-> exists x, In x l /\ P x = true.
Proof.
  induction l as [|x l IH]; simpl.
  - split; [lia | intros [x [[] _]]].
  - destruct (P x) eqn:E; simpl.
    + split; [intros _; exists x; auto | lia].
    + rewrite IH. split; intros [y [H1 H2]]; [exists y; auto|].
      destruct H1 as [-> |H1]; [congruence | exists y; auto].
Qed.

Lemma In_repeat {A} (a x : A) n : In x (repeat a n) <-> x = a /\ (0 < n)%nat.
Proof.
  induction n as [|n IH]; simpl; [split; [intros [] | lia]|].
  rewrite IH. split; [intros [-> |[-> _]]; split; auto; lia | intros [-> _]; now left].
Qed.

(* ------------------------------------------------------------------ *)
(** * tag rows versus the tag condition of the specification *)

Lemma tag_row_In k ts tg t :
  In t (tag_row k ts tg) <->
  exists c rest, tg = [c] :: rest /\ ascii_letter c = true /\ t = mkTRow ([c] ++ tag_value tg) ts k.
Proof.
  unfold tag_row. rewrite g_sql_tag_empty_spec.
  destruct tg as [|n rest].
  - simpl. split; [intros [] | intros [c [r [H _]]]; discriminate].
  - assert (Z0 : (zlen (n :: rest) =? 0) = false) by (apply Z.eqb_neq; unfold zlen; simpl length; lia).
    rewrite Z0.
    rewrite g_sql_tag_name_len_bad_spec. destruct n as [|c n'].
    + simpl. split; [intros [] | intros [c [r [H _]]]; discriminate].
    + destruct n' as [|c' n''].
      * simpl (negb _). cbn iota. rewrite g_sql_tag_name_not_letter_spec, g_sql_tag_has_value_spec.
        assert (V : forall b : bool, b = false -> 1 <? zlen ([c] :: rest) = b -> tag_value ([c] :: rest) = []).
        { intros b -> L. apply Z.ltb_ge in L. now apply tag_value_short. }
        destruct (ascii_letter c) eqn:Lc; simpl.
        -- split.
           ++ intros [<- |[]]. exists c, rest. split; [reflexivity|]. split; [assumption|].
              match goal with |- context [1 <? ?z] => destruct (1 <? z) eqn:L end; [reflexivity|].
              f_equal; f_equal; first [exact (V false eq_refl L) | symmetry; exact (V false eq_refl L)].
           ++ intros [c0 [r [E [_ ->]]]]. inversion E; subst. left.
              match goal with |- context [1 <? ?z] => destruct (1 <? z) eqn:L end; [reflexivity|].
              f_equal; f_equal; first [exact (V false eq_refl L) | symmetry; exact (V false eq_refl L)].
        -- split; [intros [] | intros [c0 [r [E [L _]]]]; inversion E; subst; congruence].
      * assert (Z1 : negb (zlen (c :: c' :: n'') =? 1) = true).
        { apply negb_true_iff, Z.eqb_neq. unfold zlen. simpl length. lia. }
        rewrite Z1.
        split; [intros [] | intros [c0 [r [E _]]]; inversion E].
Qed.

Lemma tag_rows_of_In k x t :
  In t (tag_rows_of k x) <-> exists tg, In tg (ev_tags x) /\ In t (tag_row k (ev_ts x) tg).
Proof.
  unfold tag_rows_of. rewrite (dedup_In trow_eqb trow_eqb_eq), in_flat_map. simpl. tauto.
Qed.

Lemma has_tagb_rows k x c0 vs :
  ascii_letter c0 = true ->
  ((exists t, In t (tag_rows_of k x) /\ mem_str (t_hash t) (List.map (fun v => [c0] ++ v) vs) = true) <->
   has_tagb x [c0] vs = true).
Proof.
  intro L. unfold has_tagb. rewrite existsb_exists. split.
  - intros [t [Ht Hm]]. apply tag_rows_of_In in Ht. destruct Ht as [tg [Htg Ht]].
    apply tag_row_In in Ht. destruct Ht as [c [rest [-> [Lc ->]]]]. simpl in Hm.
    apply mem_str_In in Hm. apply in_map_iff in Hm. destruct Hm as [v [E Hv]].
    inversion E; subst. exists ([c] :: rest). split; [assumption|].
    rewrite str_eqb_refl. simpl. apply mem_str_In. exact Hv.
  - intros [tg [Htg H]]. destruct tg as [|n rest]; [discriminate|].
    apply andb_true_iff in H. destruct H as [Hn Hv]. apply str_eqb_eq in Hn. subst n.
    exists (mkTRow ([c0] ++ tag_value ([c0] :: rest)) (ev_ts x) k). split.
    + apply tag_rows_of_In. exists ([c0] :: rest). split; [assumption|]. apply tag_row_In. eauto.
    + simpl. apply mem_str_In. apply mem_str_In in Hv.
      apply in_map_iff. exists (tag_value ([c0] :: rest)). auto.
Qed.

(* ------------------------------------------------------------------ *)
(** * the candidate rows of one filter *)

Section Candidates.
Variable seed : Z.

Lemma decode_all_valid o : opt_holdsb o (forallb (lower_hex 64)) = true -> decode_all o = Some o.
Proof.
  destruct o as [l|]; simpl; [|reflexivity]. intro H.
  assert (X : forallb hex_ok l = true /\ List.map hexl l = l).
  { induction l as [|a l IH]; simpl in *; [auto|].
    apply andb_true_iff in H. destruct H as [H1 H2]. destruct (IH H2) as [I1 I2].
    apply (lower_hex_ok 64) in H1; [|reflexivity]. destruct H1 as [A [B _]].
    rewrite A, B, I1, I2. auto. }
  destruct X as [-> ->]. reflexivity.
Qed.

Lemma gate_valid_filter_facts f : gate_valid_filter f = true ->
  decode_all (f_ids f) = Some (f_ids f) /\ decode_all (f_authors f) = Some (f_authors f) /\
  (forall m, f_tags f = Some m -> forall n vs, In (n, vs) m -> exists c, n = [c] /\ ascii_letter c = true) /\
  (forall l, f_limit f = Some l -> 0 <= l < two63).
Proof.
  unfold gate_valid_filter. intro H.
  apply andb_true_iff in H. destruct H as [H H4]. apply andb_true_iff in H. destruct H as [H H3].
  apply andb_true_iff in H. destruct H as [H1 H2].
  split; [now apply decode_all_valid|]. split; [now apply decode_all_valid|]. split.
  - intros m E n vs Hin. rewrite E in H3. simpl in H3. apply andb_true_iff in H3. destruct H3 as [H3 _].
    rewrite forallb_forall in H3. specialize (H3 _ Hin). simpl in H3.
    destruct n as [|c [|c' n']]; try discriminate. eauto.
  - intros l E. rewrite E in H4. simpl in H4. apply andb_true_iff in H4. destruct H4 as [A B].
    apply Z.leb_le in A. apply Z.ltb_lt in B. lia.
Qed.

(** the model-side reading of "row r matches filter f" *)
Definition tags_ok (s : db) (f : rfilter) (r : erow) : Prop :=
  match f_tags f with
  | None => True
  | Some m => forall nv, In nv m ->
      exists t, In t (d_tags s) /\ t_ts t = r_ts r /\ t_key t = r_key r /\
                mem_str (t_hash t) (List.map (fun v => fst nv ++ v) (snd nv)) = true
  end.

Lemma tag_fold_pos s r m :
  (0 < fold_right (fun nv acc => (tag_join_count s r (List.map (fun v => fst nv ++ v) (snd nv)) * acc)%nat) 1%nat m)%nat <->
  forall nv, In nv m -> (0 < tag_join_count s r (List.map (fun v => fst nv ++ v) (snd nv)))%nat.
Proof.
  induction m as [|nv m IH]; simpl.
  - split; [intros _ nv [] | lia].
  - rewrite Nat.lt_0_mul', IH. split.
    + intros [H1 H2] nv' [<- |H]; auto.
    + intro H. split; [apply H; now left | intros nv' H'; apply H; now right].
Qed.

Lemma tag_join_count_pos s r hashes :
  (0 < tag_join_count s r hashes)%nat <->
  exists t, In t (d_tags s) /\ t_ts t = r_ts r /\ t_key t = r_key r /\ mem_str (t_hash t) hashes = true.
Proof.
  unfold tag_join_count. rewrite length_filter_pos. split; intros [t [H1 H2]]; exists t.
  - apply land_true in H2. destruct H2 as [H2 H4]. apply land_true in H2. destruct H2 as [H2 H3].
    apply Z.eqb_eq in H2. apply ekey_eqb_eq in H3. auto.
  - destruct H2 as [H2 [H3 H4]]. split; [assumption|]. rewrite H2, H3, Z.eqb_refl, ekey_eqb_refl. assumption.
Qed.

Lemma sub_rows_In s f ids authors r :
  Inv s ->
  (In r (sub_rows s f ids authors) <->
   In r (d_events s) /\ since_ok f (r_ts r) = true /\ until_ok f (r_ts r) = true /\ tomb_free s r = true /\
   opt_holdsb ids (mem_str (r_id r)) = true /\ opt_holdsb authors (mem_str (r_pk r)) = true /\
   opt_holdsb (f_kinds f) (mem_Z (r_kind r)) = true /\ tags_ok s f r).
Proof.
  intro I. unfold sub_rows. rewrite in_flat_map. split.
  - intros [r0 [Hr0 H]].
    destruct (since_ok f (r_ts r0) &&& until_ok f (r_ts r0) &&& tomb_free s r0) eqn:C; [|destruct H].
    apply In_repeat in H. destruct H as [-> M].
    apply land_true in C. destruct C as [C C3]. apply land_true in C. destruct C as [C1 C2].
    unfold sub_mult in M. rewrite !Nat.lt_0_mul' in M. destruct M as [[[M1 M2] M3] M4].
    split; [assumption|]. split; [assumption|]. split; [assumption|]. split; [assumption|].
    pose proof (inv_keys s I) as ND.
    repeat split.
    + destruct ids as [l|]; simpl in *; [|reflexivity].
      rewrite (self_join_count_spec s r0 _ ND Hr0) in M1. destruct (mem_str (r_id r0) l); [reflexivity | lia].
    + destruct authors as [l|]; simpl in *; [|reflexivity].
      rewrite (self_join_count_spec s r0 _ ND Hr0) in M2. destruct (mem_str (r_pk r0) l); [reflexivity | lia].
    + destruct (f_kinds f) as [l|]; simpl in *; [|reflexivity].
      rewrite (self_join_count_spec s r0 _ ND Hr0) in M3. destruct (mem_Z (r_kind r0) l); [reflexivity | lia].
    + unfold tags_ok. destruct (f_tags f) as [m|]; simpl in *; [|exact Logic.I].
      intros nv Hnv. rewrite tag_fold_pos in M4. specialize (M4 nv Hnv). now apply tag_join_count_pos in M4.
  - intros [Hr [C1 [C2 [C3 [M1 [M2 [M3 M4]]]]]]]. exists r. split; [assumption|].
    rewrite C1, C2, C3. apply In_repeat. split; [reflexivity|].
    pose proof (inv_keys s I) as ND.
    unfold sub_mult. rewrite !Nat.lt_0_mul'. repeat split.
    + destruct ids as [l|]; simpl in *; [|lia]. rewrite (self_join_count_spec s r _ ND Hr), M1. lia.
    + destruct authors as [l|]; simpl in *; [|lia]. rewrite (self_join_count_spec s r _ ND Hr), M2. lia.
    + destruct (f_kinds f) as [l|]; simpl in *; [|lia]. rewrite (self_join_count_spec s r _ ND Hr), M3. lia.
    + unfold tags_ok in M4. destruct (f_tags f) as [m|]; simpl in *; [|lia].
      apply tag_fold_pos. intros nv Hnv. apply tag_join_count_pos. now apply M4.
Qed.

Lemma flat_map_small_NoDup {A K} (key : A -> K) (g : A -> list A) l :
  (forall r, In r l -> g r = [] \/ g r = [r]) -> NoDup (List.map key l) -> NoDup (List.map key (flat_map g l)).
Proof.
  induction l as [|r l IH]; simpl; intros G ND; [constructor|].
  inversion ND as [|? ? Hn ND']; subst.
  assert (IHl : NoDup (List.map key (flat_map g l))) by (apply IH; auto).
  destruct (G r (or_introl eq_refl)) as [-> | ->]; simpl; [assumption|].
  constructor; [|assumption]. intro H. apply Hn.
  apply in_map_iff in H. destruct H as [r1 [E H]]. apply in_flat_map in H. destruct H as [r2 [H2 H]].
  destruct (G r2 (or_intror H2)) as [X|X]; rewrite X in H; [destruct H|].
  destruct H as [<- |[]]. rewrite <- E. now apply in_map.
Qed.

(** without a tag map every multiplicity is 0 or 1 *)
Lemma sub_rows_NoDup_notags s f ids authors :
  Inv s -> f_tags f = None -> NoDup (List.map r_key (sub_rows s f ids authors)).
Proof.
  intros I Ft. pose proof (inv_keys s I) as ND. unfold sub_rows.
  assert (M : forall r, In r (d_events s) -> (sub_mult s f ids authors r <= 1)%nat).
  { intros r Hr. unfold sub_mult. rewrite Ft. simpl.
    assert (A : (opt_count ids (fun l => self_join_count s r (fun r' => mem_str (r_id r') l)) <= 1)%nat).
    { destruct ids as [l|]; simpl; [|lia]. rewrite (self_join_count_spec s r _ ND Hr). destruct (mem_str _ _); lia. }
    assert (B : (opt_count authors (fun l => self_join_count s r (fun r' => mem_str (r_pk r') l)) <= 1)%nat).
    { destruct authors as [l|]; simpl; [|lia]. rewrite (self_join_count_spec s r _ ND Hr). destruct (mem_str _ _); lia. }
    assert (C : (opt_count (f_kinds f) (fun l => self_join_count s r (fun r' => mem_Z (r_kind r') l)) <= 1)%nat).
    { destruct (f_kinds f) as [l|]; simpl; [|lia]. rewrite (self_join_count_spec s r _ ND Hr). destruct (mem_Z _ _); lia. }
    revert A B C.
    generalize (opt_count ids (fun l => self_join_count s r (fun r' => mem_str (r_id r') l))).
    generalize (opt_count authors (fun l => self_join_count s r (fun r' => mem_str (r_pk r') l))).
    generalize (opt_count (f_kinds f) (fun l => self_join_count s r (fun r' => mem_Z (r_kind r') l))).
    intros c b a Ha Hb Hc.
    destruct a as [|[|a]]; destruct b as [|[|b]]; destruct c as [|[|c]]; simpl; lia. }
  apply (flat_map_small_NoDup r_key); [|assumption].
  intros r Hr. destruct (since_ok f (r_ts r) &&& until_ok f (r_ts r) &&& tomb_free s r); [|now left].
  specialize (M r Hr). destruct (sub_mult s f ids authors r) as [|[|n]]; simpl; [now left | now right | lia].
Qed.

Lemma sub_candidates_spec s f :
  Inv s -> gate_valid_filter f = true ->
  exists rows, sub_candidates s f = Some rows /\ NoDup (List.map r_key rows) /\
    forall r, In r rows <-> In r (sub_rows s f (f_ids f) (f_authors f)).
Proof.
  intros I Gf. destruct (gate_valid_filter_facts f Gf) as [D1 [D2 _]].
  unfold sub_candidates. rewrite D1, D2.
  destruct (f_tags f) as [m|] eqn:Ft; simpl; eexists; split; try reflexivity.
  - split; [apply (dedupk_NoDup r_key ekey_eqb ekey_eqb_eq)|].
    intro r. split; [apply (dedupk_sub r_key ekey_eqb)|].
    intro H. destruct (dedupk_cover r_key ekey_eqb ekey_eqb_eq _ [] r H) as [y [H1 H2]]; [intros []|].
    assert (y = r); [|now subst].
    apply (dedupk_sub r_key ekey_eqb) in H1.
    apply (sub_rows_In s f _ _ y I) in H1. apply (sub_rows_In s f _ _ r I) in H.
    apply (NoDup_map_inj r_key (d_events s)); try tauto. apply (inv_keys s I).
  - split; [now apply sub_rows_NoDup_notags | tauto].
Qed.

(** for the row of a stored event the model-side reading is [match_specb] *)
Lemma row_match_spec es s f x k :
  Abs seed es s -> Forall gv es -> ids_functional es -> gate_valid_filter f = true ->
  stored es x -> get_event_key seed x = Some k ->
  let r := row_of k x in
  (since_ok f (r_ts r) = true /\ until_ok f (r_ts r) = true /\
   opt_holdsb (f_ids f) (mem_str (r_id r)) = true /\ opt_holdsb (f_authors f) (mem_str (r_pk r)) = true /\
   opt_holdsb (f_kinds f) (mem_Z (r_kind r)) = true /\ tags_ok s f r) <-> match_specb x f = true.
Proof.
  intros A G F Gf S K. simpl.
  assert (Gx : gv x). { rewrite Forall_forall in G. apply G. now apply stored_in in S. }
  destruct (gv_facts x Gx) as [_ [Hid [_ [Hpk _]]]]. rewrite Hid, Hpk.
  destruct (gate_valid_filter_facts f Gf) as [_ [_ [Tn _]]].
  pose proof (abs_inv seed es s A) as I.
  assert (Hrow : In (row_of k x) (d_events s)).
  { destruct (abs_stored seed es s A x S) as [k' [K' H]]. congruence. }
  assert (Hpay : In (prow_of k x) (d_payloads s)).
  { destruct (abs_rows seed es s A _ Hrow) as [x' [S' [K' [E' P']]]]. simpl in *.
    assert (x' = x) by (eapply abs_key_unique; eauto). now subst. }
  (* tag rows with key k are those of x *)
  assert (TR : forall t, (In t (d_tags s) /\ t_key t = k) <-> In t (tag_rows_of k x)).
  { intro t. split.
    - intros [Ht Ek]. apply (inv_tags s I) in Ht. destruct Ht as [r' [p' [H1 [H2 [H3 H4]]]]].
      pose proof (tag_rows_rp_key _ _ _ H4) as [Ek' _].
      assert (r' = row_of k x).
      { apply (NoDup_map_inj r_key (d_events s)); auto; [apply (inv_keys s I) | simpl; congruence]. }
      assert (p' = prow_of k x).
      { apply (NoDup_map_inj p_key (d_payloads s)); auto; [apply (inv_pkeys s I) | simpl; congruence]. }
      subst r' p'. exact H4.
    - intro Ht. split.
      + apply (inv_tags s I). exists (row_of k x), (prow_of k x). auto.
      + rewrite tag_rows_of_rp in Ht. now apply tag_rows_rp_key in Ht. }
  assert (TG : tags_ok s f (row_of k x) <->
               opt_holdsb (f_tags f) (forallb (fun nv => has_tagb x (fst nv) (snd nv))) = true).
  { unfold tags_ok. destruct (f_tags f) as [m|] eqn:Ft; simpl; [|tauto].
    rewrite forallb_forall. split.
    - intros H [n vs] Hnv. destruct (Tn m eq_refl n vs Hnv) as [c [-> Lc]]. simpl.
      destruct (H _ Hnv) as [t [H1 [H2 [H3 H4]]]]. simpl in *.
      apply (has_tagb_rows k x c vs Lc). exists t. split; [|assumption]. apply TR. auto.
    - intros H [n vs] Hnv. destruct (Tn m eq_refl n vs Hnv) as [c [-> Lc]]. simpl.
      specialize (H _ Hnv). simpl in H. apply (has_tagb_rows k x c vs Lc) in H.
      destruct H as [t [H1 H2]]. exists t. pose proof H1 as H1'. apply TR in H1. destruct H1 as [H1 H3].
      rewrite tag_rows_of_rp in H1'. apply tag_rows_rp_key in H1'. simpl in H1'. tauto. }
  rewrite TG. unfold match_specb, since_ok, until_ok.
  rewrite g_sql_since_present_spec, g_sql_until_present_spec, !andb_true_iff.
  assert (Si : (if isSome (f_since f) then g_sql_since_ok (ev_ts x) match f_since f with Some b => b | None => 0 end else true)
               = opt_holdsb (f_since f) (fun s0 => s0 <=? ev_ts x)).
  { destruct (f_since f); simpl; [apply g_sql_since_ok_spec | reflexivity]. }
  assert (Un : (if isSome (f_until f) then g_sql_until_ok (ev_ts x) match f_until f with Some b => b | None => 0 end else true)
               = opt_holdsb (f_until f) (fun u => ev_ts x <=? u)).
  { destruct (f_until f); simpl; [apply g_sql_until_ok_spec | reflexivity]. }
  rewrite Si, Un. tauto.
Qed.

End Candidates.

(* ------------------------------------------------------------------ *)
(** * from rows to events; the whole query *)

Lemma find_filter_hd {A} (P : A -> bool) l : find P l = hd_error (filter P l).
Proof. induction l as [|x l IH]; simpl; [reflexivity|]. destruct (P x); [reflexivity | assumption]. Qed.

Lemma NoDup_map_inj_on {A B} (g : A -> B) l :
  (forall a b, In a l -> In b l -> g a = g b -> a = b) -> NoDup l -> NoDup (List.map g l).
Proof.
  induction l as [|x l IH]; simpl; intros Inj ND; [constructor|].
  inversion ND as [|? ? Hn ND']; subst. constructor.
  - intro H. apply in_map_iff in H. destruct H as [y [E Hy]].
    assert (y = x) by (apply Inj; auto). subst. contradiction.
  - apply IH; auto.
Qed.

Lemma NoDup_of_map {A B} (g : A -> B) l : NoDup (List.map g l) -> NoDup l.
Proof.
  induction l as [|x l IH]; simpl; intro ND; [constructor|].
  inversion ND as [|? ? Hn ND']; subst. constructor; [|now apply IH].
  intro H. apply Hn. now apply in_map.
Qed.

Lemma zlen_map {A B} (g : A -> B) l : zlen (List.map g l) = zlen l.
Proof. unfold zlen. now rewrite map_length. Qed.

Lemma all_some_map {A B} (g : A -> option B) (h : A -> B) l :
  (forall x, In x l -> g x = Some (h x)) -> all_some (List.map g l) = Some (List.map h l).
Proof.
  induction l as [|x l IH]; simpl; intro H; [reflexivity|].
  rewrite (H x (or_introl eq_refl)), IH; [reflexivity|]. intros y Hy. apply H. now right.
Qed.

Lemma Forall2_map_r {A B} (P : A -> B -> Prop) (g : A -> B) l :
  (forall x, In x l -> P x (g x)) -> Forall2 P l (List.map g l).
Proof.
  induction l as [|x l IH]; simpl; intro H; constructor; [apply H; now left | apply IH; intros y Hy; apply H; now right].
Qed.

Section QueryCorrect.
Variable seed : Z.
Variable es : list event.
Variable s : db.
Hypothesis A : Abs seed es s.
Hypothesis G : Forall gv es.
Hypothesis F : ids_functional es.
Hypothesis Ec : e_refs_canonical es = true.
Hypothesis As : a_refs_scoped es = true.
Hypothesis Kc : k5_counted es.

(** the event a row stands for: the row joined with its payload row *)
Definition evr (r : erow) : event :=
  match find (fun p => ekey_eqb (p_key p) (r_key r)) (d_payloads s) with
  | Some p => event_of_row r p
  | None => event_of_row r (mkPRow (r_key r) [] [] [])
  end.

Lemma evr_spec r : In r (d_events s) ->
  exists x, stored es x /\ get_event_key seed x = Some (r_key r) /\ r = row_of (r_key r) x /\ evr r = x /\
            filter (fun p => ekey_eqb (p_key p) (r_key r)) (d_payloads s) = [prow_of (r_key r) x].
Proof.
  intro Hr. destruct (abs_rows seed es s A r Hr) as [x [S [K [E P]]]].
  exists x. split; [assumption|]. split; [assumption|]. split; [assumption|].
  pose proof (filter_key_unique p_key (d_payloads s) (prow_of (r_key r) x) (inv_pkeys s (abs_inv seed es s A)) P) as Fl.
  simpl in Fl. split; [|assumption].
  unfold evr. rewrite find_filter_hd, Fl. simpl. rewrite E at 1.
  apply gv_event_of_row. rewrite Forall_forall in G. apply G. now apply stored_in in S.
Qed.

Lemma evr_ts r : In r (d_events s) -> ev_ts (evr r) = r_ts r.
Proof.
  intro Hr. destruct (evr_spec r Hr) as [x [_ [_ [E [-> _]]]]]. rewrite E. reflexivity.
Qed.

Lemma evr_inj r r' : In r (d_events s) -> In r' (d_events s) -> evr r = evr r' -> r = r'.
Proof.
  intros Hr Hr' E.
  destruct (evr_spec r Hr) as [x [_ [K [Er [Ex _]]]]]. destruct (evr_spec r' Hr') as [x' [_ [K' [Er' [Ex' _]]]]].
  assert (x = x') by congruence. subst x'. rewrite Er, Er'. congruence.
Qed.

Lemma evr_row_of x k : stored es x -> get_event_key seed x = Some k -> In (row_of k x) (d_events s) -> evr (row_of k x) = x.
Proof.
  intros S K Hr. destruct (evr_spec _ Hr) as [x' [S' [K' [_ [-> _]]]]]. simpl in K'.
  eapply (abs_key_unique seed); eauto.
Qed.

(** C06 candidates: the rows of a filter's sub-select (before ORDER BY /
    LIMIT) stand exactly for the stored, not deleted events matching it *)
Lemma candidates_spec f : gate_valid_filter f = true ->
  exists rows, sub_candidates s f = Some rows /\ NoDup rows /\ (forall r, In r rows -> In r (d_events s)) /\
    (forall x, (live es x /\ match_spec x f) <-> exists r, In r rows /\ evr r = x).
Proof.
  intro Gf. pose proof (abs_inv seed es s A) as I.
  destruct (sub_candidates_spec s f I Gf) as [rows [E [ND Hin]]].
  exists rows. split; [assumption|]. split; [now apply NoDup_of_map in ND|].
  split; [intros r Hr; apply Hin, (sub_rows_In s f _ _ r I) in Hr; tauto|].
  intro x. rewrite <- match_specb_spec. split.
  - intros [[S NDel] M]. destruct (abs_stored seed es s A x S) as [k [K Hr]].
    exists (row_of k x). split; [|now apply evr_row_of].
    apply Hin, (sub_rows_In s f _ _ _ I). split; [assumption|].
    apply (row_match_spec seed es s f x k A G F Gf S K) in M. simpl in M.
    destruct M as [M1 [M2 [M3 [M4 [M5 M6]]]]].
    repeat (split; [assumption|]); try assumption.
    split; [now apply (tomb_free_iff seed es s x k A G Ec As Kc S K)|]. tauto.
  - intros [r [Hr Ex]]. apply Hin, (sub_rows_In s f _ _ r I) in Hr.
    destruct Hr as [Hr [C1 [C2 [C3 [M1 [M2 [M3 M4]]]]]]].
    destruct (evr_spec r Hr) as [x' [S [K [Er [Ex' _]]]]]. rewrite Ex in Ex'. subst x'.
    rewrite Er in C3. split.
    + split; [assumption|]. now apply (tomb_free_iff seed es s x (r_key r) A G Ec As Kc S K).
    + apply (row_match_spec seed es s f x (r_key r) A G F Gf S K). simpl.
      rewrite Er in C1, C2, M1, M2, M3, M4. simpl in C1, C2, M1, M2, M3, M4. tauto.
Qed.

Lemma desc_sorted_evr l :
  (forall r, In r l -> In r (d_events s)) -> dsorted r_ts l -> desc_sorted (List.map evr l).
Proof.
  induction l as [|r l IH]; simpl; intros SubE Sr; [exact I|].
  destruct Sr as [S1 S2]. split.
  - intros y Hy. apply in_map_iff in Hy. destruct Hy as [r' [<- Hr']].
    rewrite !evr_ts; [now apply S1 | apply SubE; now left | apply SubE; now right].
  - apply IH; [|assumption]. intros r0 H0. apply SubE. now right.
Qed.

(** ORDER BY created_at DESC LIMIT over rows, read on events *)
Lemma top_transport (U : event -> Prop) (lim : option Z) (rows : list erow) :
  NoDup rows -> (forall r, In r rows -> In r (d_events s)) ->
  match lim with Some n => 0 <= n | None => True end ->
  (forall x, U x <-> exists r, In r rows /\ evr r = x) ->
  let res := apply_limit lim (sort_desc r_ts rows) in
  top_sel U lim (List.map evr res) /\ desc_sorted (List.map evr res) /\ (forall r, In r res -> In r rows).
Proof.
  intros ND Sub Hl HU res.
  destruct (limit_sorted_top r_ts lim rows ND Hl) as [NDr [Sr [Subr Top]]]. fold res in NDr, Sr, Subr, Top.
  assert (SubE : forall r, In r res -> In r (d_events s)) by (intros r Hr; auto).
  split; [|split; [|assumption]].
  - split.
    { apply NoDup_map_inj_on; [|assumption]. intros a b Ha Hb. apply evr_inj; auto. }
    split.
    { intros x Hx. apply in_map_iff in Hx. destruct Hx as [r [<- Hr]]. apply HU. exists r. auto. }
    destruct lim as [n|].
    + destruct Top as [T1 [T2 T3]]. rewrite zlen_map. split; [assumption|]. split.
      * intros Hlt x Ux. apply HU in Ux. destruct Ux as [r [Hr <-]]. apply in_map. now apply T2.
      * intros x y Hx Uy Ny. apply in_map_iff in Hx. destruct Hx as [r [<- Hr]].
        apply HU in Uy. destruct Uy as [r' [Hr' <-]].
        rewrite !evr_ts by auto. apply T3; auto. intro X. apply Ny. now apply in_map.
    + intros x Ux. apply HU in Ux. destruct Ux as [r [Hr <-]]. apply in_map. now apply Top.
  - now apply desc_sorted_evr.
Qed.

Lemma goqu_limit_nonneg limit ml : match goqu_limit_of limit ml with Some n => 0 <= n | None => True end.
Proof.
  unfold goqu_limit_of. destruct (g_sql_has_limit _ _); [|exact I].
  destruct (0 <? eff_limit limit ml) eqn:E; [|exact I]. apply Z.ltb_lt in E. lia.
Qed.

(** the rows one sub-select returns *)
Definition resrows (maxLimit : Z) (f : rfilter) : list erow :=
  match sub_candidates s f with
  | Some rows => apply_limit (sub_limit_of (f_limit f) maxLimit) (sort_desc r_ts rows)
  | None => []
  end.

(** C06 subquery_topn: one sub-select returns a choice of the [limit] newest
    live events matching its filter ([limit] as the generated SQL carries it) *)
Theorem subquery_topn maxLimit f : gate_valid_filter f = true ->
  match sub_limit_of (f_limit f) maxLimit with Some n => 0 <= n | None => True end ->
  sub_select s maxLimit f = Some (List.map r_key (resrows maxLimit f)) /\
  (forall r, In r (resrows maxLimit f) -> In r (d_events s)) /\
  top_sel (fun x => live es x /\ match_spec x f) (sub_limit_of (f_limit f) maxLimit) (List.map evr (resrows maxLimit f)).
Proof.
  intros Gf Hn. destruct (candidates_spec f Gf) as [rows [E [ND [Sub HU]]]].
  unfold sub_select, resrows. rewrite E. split; [reflexivity|].
  destruct (top_transport _ (sub_limit_of (f_limit f) maxLimit) rows ND Sub Hn HU) as [T [_ S]].
  split; [|assumption]. intros r Hr. apply Sub. now apply S.
Qed.

Lemma join_payloads_rows rows : (forall r, In r rows -> In r (d_events s)) ->
  join_payloads s rows = List.map (fun r => (r, prow_of (r_key r) (evr r))) rows.
Proof.
  unfold join_payloads. induction rows as [|r rows IH]; simpl; intro Sub; [reflexivity|].
  destruct (evr_spec r (Sub r (or_introl eq_refl))) as [x [_ [_ [_ [-> Fl]]]]]. rewrite Fl. simpl.
  f_equal. apply IH. intros r0 H0. apply Sub. now right.
Qed.

Lemma outer_limit_agree ml : 0 < ml <= NoLimit ->
  goqu_limit_of (Some (to_int64 ml)) ml = spec_limit None ml.
Proof.
  intro H. unfold goqu_limit_of, eff_limit, spec_limit. rewrite g_sql_limit_present_spec. simpl.
  assert (U : to_uint (to_int64 ml) = ml).
  { unfold to_uint, to_int64, NoLimit, two64, two63 in *. rewrite (Z.mod_small ml) by lia.
    destruct (ml <? 9223372036854775808) eqn:L.
    - apply Z.ltb_lt in L. rewrite Z.mod_small; lia.
    - apply Z.ltb_ge in L.
      replace (ml - 18446744073709551616) with (ml + (-1) * 18446744073709551616) by lia.
      rewrite Z.mod_add by lia. rewrite Z.mod_small; lia. }
  rewrite U, Z.min_id, g_sql_has_limit_spec.
  destruct (ml =? NoLimit) eqn:E; simpl; [reflexivity|].
  destruct (0 <? ml) eqn:L; [reflexivity | apply Z.ltb_ge in L; lia].
Qed.

(** C06 query_correct, core form: the hypotheses [k5_counted] and
    [limits_agree] are stated on the model's guards, so that this proof is
    the same before and after the repairs of F6 / F7 *)
Theorem query_correct_core fs maxLimit :
  fs <> [] -> Forall (fun f => gate_valid_filter f = true) fs -> 0 < maxLimit <= NoLimit ->
  limits_agree fs maxLimit ->
  exists out, query s fs maxLimit = Some out /\ query_spec es fs maxLimit out.
Proof.
  intros Ne Gfs Hml La. rewrite Forall_forall in Gfs.
  set (res := resrows maxLimit).
  assert (Subs : all_some (List.map (sub_select s maxLimit) fs) = Some (List.map (fun f => List.map r_key (res f)) fs)).
  { apply all_some_map. intros f Hf. now destruct (subquery_topn maxLimit f (Gfs f Hf) (proj2 (La f Hf))) as [E _]. }
  pose proof (abs_inv seed es s A) as I.
  set (sel := filter (fun r => existsb (mem_key (r_key r)) (List.map (fun f => List.map r_key (res f)) fs)) (d_events s)).
  assert (Hsel : forall r, In r sel <-> exists f, In f fs /\ In r (res f)).
  { intro r. unfold sel. rewrite filter_In, existsb_exists. split.
    - intros [Hr [ks [Hks Hm]]]. apply in_map_iff in Hks. destruct Hks as [f [<- Hf]].
      exists f. split; [assumption|]. apply mem_key_In, in_map_iff in Hm. destruct Hm as [r' [Ek Hr']].
      destruct (subquery_topn maxLimit f (Gfs f Hf) (proj2 (La f Hf))) as [_ [Sub _]].
      assert (r' = r); [|now subst].
      apply (NoDup_map_inj r_key (d_events s)); auto. apply (inv_keys s I).
    - intros [f [Hf Hr]]. destruct (subquery_topn maxLimit f (Gfs f Hf) (proj2 (La f Hf))) as [_ [Sub _]].
      split; [now apply Sub|]. exists (List.map r_key (res f)). split; [apply in_map_iff; eauto|].
      apply mem_key_In. now apply in_map. }
  assert (SelE : forall r, In r sel -> In r (d_events s)).
  { intros r Hr. unfold sel in Hr. apply filter_In in Hr. tauto. }
  assert (NDsel : NoDup sel).
  { unfold sel. apply NoDup_filter. apply (NoDup_of_map r_key), (inv_keys s I). }
  set (ress := List.map (fun f => List.map evr (res f)) fs).
  set (lim := spec_limit None maxLimit).
  assert (HU : forall x, (exists r0, In r0 ress /\ In x r0) <-> exists r, In r sel /\ evr r = x).
  { intro x. split.
    - intros [r0 [H0 Hx]]. unfold ress in H0. apply in_map_iff in H0. destruct H0 as [f [<- Hf]].
      apply in_map_iff in Hx. destruct Hx as [r [<- Hr]]. exists r. split; [|reflexivity]. apply Hsel. eauto.
    - intros [r [Hr <-]]. apply Hsel in Hr. destruct Hr as [f [Hf Hr]].
      exists (List.map evr (res f)). split; [unfold ress; apply in_map_iff; eauto | now apply in_map]. }
  assert (Hlim : match lim with Some n => 0 <= n | None => True end).
  { unfold lim, spec_limit. destruct (maxLimit =? NoLimit); [exact Logic.I | lia]. }
  destruct (top_transport _ lim sel NDsel SelE Hlim HU) as [T [Srt SubSel]].
  exists (List.map evr (apply_limit lim (sort_desc r_ts sel))). split.
  - unfold query. rewrite Subs. fold sel.
    replace (match fs with [] => d_events s | _ :: _ => sel end) with sel by (destruct fs; [contradiction | reflexivity]).
    rewrite (join_payloads_rows sel SelE), (outer_limit_agree maxLimit Hml). fold lim.
    rewrite <- (sort_desc_map (fun r => (r, prow_of (r_key r) (evr r))) r_ts) by reflexivity.
    rewrite <- apply_limit_map, map_map. f_equal. apply map_ext_in. intros r Hr. simpl.
    apply SubSel, SelE in Hr. destruct (evr_spec r Hr) as [x [S [_ [Er [-> _]]]]].
    rewrite Er at 1. apply gv_event_of_row. rewrite Forall_forall in G. apply G. now apply stored_in in S.
  - exists ress. split; [|split; assumption].
    unfold ress. apply Forall2_map_r. intros f Hf.
    destruct (subquery_topn maxLimit f (Gfs f Hf) (proj2 (La f Hf))) as [_ [_ T']].
    rewrite <- (proj1 (La f Hf)). exact T'.
Qed.

End QueryCorrect.
