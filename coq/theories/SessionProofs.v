(* SessionProofs.v — every provided composition is a guarded network (C13). *)
From Moc Require Import Base Proc ProcProofs Session.
From Moc.Gen Require Import GenSession.
Import ListNotations.
Open Scope nat_scope.

(** * Helpers *)
Lemma is_prefix_refl f : is_prefix f f.
Proof. exists []. rewrite app_nil_r. reflexivity. Qed.

Lemma is_prefix_app root f g : is_prefix root f -> is_prefix root (f ++ g).
Proof. intros [r ->]. exists (r ++ g). rewrite app_assoc. reflexivity. Qed.

Lemma ps_none pr k n : (forall d, pr_pend pr n d = pr_pend pr k d) -> pend_step pr k n None None.
Proof. intros H d Hd. cbn. rewrite H. split; [lia | intros; lia]. Qed.

Lemma ps_send_plain pr k n c :
  c_class c = Plain -> (forall d, pr_pend pr n d = pr_pend pr k d) -> pend_step pr k n (Some c) None.
Proof.
  intros Hc H d Hd. cbn. rewrite H. destruct (chan_eq_dec c d) as [->|]; [congruence|].
  split; [lia | intros; lia].
Qed.

Lemma ps_recv_plain pr k n c :
  c_class c = Plain -> (forall d, pr_pend pr n d = pr_pend pr k d) -> pend_step pr k n None (Some c).
Proof.
  intros Hc H d Hd. cbn. rewrite H. destruct (chan_eq_dec c d) as [->|]; [congruence|].
  split; [lia | intros; lia].
Qed.

Lemma ps_send_use pr k n c :
  pr_pend pr k c = S (pr_pend pr n c) -> (forall d, d <> c -> pr_pend pr n d = pr_pend pr k d) ->
  pend_step pr k n (Some c) None.
Proof.
  intros Hc H d Hd. cbn. destruct (chan_eq_dec c d) as [->|Hne].
  - rewrite Hc. split; [lia | intros; lia].
  - rewrite H by congruence. split; [lia | intros; lia].
Qed.

Lemma ps_recv_gain pr k n c :
  pr_pend pr n c = S (pr_pend pr k c) -> (forall d, d <> c -> pr_pend pr n d = pr_pend pr k d) ->
  pend_step pr k n None (Some c).
Proof.
  intros Hc H d Hd. cbn. destruct (chan_eq_dec c d) as [->|Hne].
  - rewrite Hc. split; [lia | intros; lia].
  - rewrite H by congruence. split; [lia | intros; lia].
Qed.

(* exit_ok by a ctx.Done() alternative *)
Lemma exit_done root pr k alts f n :
  pr_code pr k = Select alts -> In (ADone f n) alts -> is_prefix root f ->
  pr_meas pr n < pr_meas pr k -> exit_ok root pr k.
Proof.
  intros Hc Hin Hp Hm. unfold exit_ok. rewrite Hc. left. exists f, n. auto.
Qed.

Lemma hold_none pr k : (forall d, pr_pend pr k d = 0) -> hold_ok pr k.
Proof. intros H d _ H1. rewrite H in H1. lia. Qed.

Ltac pcs k := repeat (destruct k as [|k]; [ | ]).

(* obligations of processes that never touch a Bounded/Token channel *)
Ltac ps_plain :=
  first [ apply ps_none; intros; reflexivity
        | apply ps_send_plain; [assumption || reflexivity | intros; reflexivity]
        | apply ps_recv_plain; [assumption || reflexivity | intros; reflexivity] ].

Ltac pend_plain :=
  unfold pend_ok; cbn;
  repeat first [ exact I | apply Forall_nil | apply Forall_cons | ps_plain | split ].

(** * SimpleHandler *)
Lemma simple_ok root k p ctx snd rcv :
  is_prefix root ctx -> c_class snd = Plain -> c_class rcv = Plain ->
  proc_ok root (simple_proc k p ctx snd rcv).
Proof.
  intros Hp Hs Hr. split; [| reflexivity].
  intros n. split; [| split; [| apply hold_none; reflexivity]].
  - destruct n as [|[|[|[|[|n]]]]].
    1,2,3,5: eapply exit_done; [reflexivity | cbn; auto | exact Hp | cbn; lia].
    + (* 3: Fresh *) unfold exit_ok. cbn. repeat split; try discriminate. unfold dec. cbn. lia.
    + exact I.
  - destruct n as [|[|[|[|[|n]]]]]; try (destruct k; pend_plain). 
Qed.

(* exit_ok of the non-Select instructions *)
Ltac exit_simple := unfold exit_ok, dec; cbn; repeat split; try discriminate; try reflexivity; try lia.

(** * RouterHandler *)
Lemma router_main_ok root p ctx snd rcv b :
  is_prefix root (ctx ++ [0]) -> c_class snd = Plain -> c_class rcv = Plain ->
  proc_ok root (router_main p ctx snd rcv b).
Proof.
  intros Hp Hs Hr. split; [| reflexivity].
  pose proof Hp as Hp'.
  intros n. split; [| split; [| apply hold_none; reflexivity]].
  - destruct n as [|[|[|[|[|n]]]]].
    1,2: eapply exit_done; [reflexivity | cbn; auto | exact Hp' | cbn; lia].
    + (* 2: trySendCtx: the default *)
      unfold exit_ok. cbn. right. left. exists [1]. repeat split; cbn; auto; try discriminate.
      constructor; [unfold dec; cbn; lia | constructor].
    + exit_simple.
    + exit_simple.
    + exact I.
  - destruct n as [|[|[|[|[|n]]]]]; pend_plain.
Qed.

Lemma router_fwd_ok root p ctx snd b :
  is_prefix root (ctx ++ [0]) -> c_class snd = Plain ->
  proc_ok root (router_fwd p ctx snd b).
Proof.
  intros Hp Hs. split; [| reflexivity].
  pose proof Hp as Hp'.
  intros n. split; [| split; [| apply hold_none; reflexivity]].
  - destruct n as [|[|[|n]]].
    1,2: eapply exit_done; [reflexivity | cbn; auto | exact Hp' | cbn; lia].
    + exit_simple.
    + exact I.
  - destruct n as [|[|[|n]]]; pend_plain.
Qed.

(** * NewSimpleMiddleware *)
Lemma mw_main_ok root p ctx c :
  proc_ok root (mw_main p ctx (main_pid (p ++ [0]) c)).
Proof.
  split; [| reflexivity].
  intros n. split; [| split; [| apply hold_none; reflexivity]].
  - destruct n as [|[|[|[|[|n]]]]]; exit_simple.
  - destruct n as [|[|[|[|[|n]]]]]; pend_plain.
Qed.

(* pend obligations of a process whose reservations are given by [unf]-foldable if-chains *)
Ltac eqpend unf := intros; cbn; unf; repeat (destruct (chan_eq_dec _ _); try congruence); reflexivity.
Ltac ps_gen unf :=
  first [ apply ps_none; eqpend unf
        | apply ps_send_plain; [assumption || reflexivity | eqpend unf]
        | apply ps_recv_plain; [assumption || reflexivity | eqpend unf]
        | apply ps_send_use; [eqpend unf | eqpend unf]
        | apply ps_recv_gain; [eqpend unf | eqpend unf] ].
Ltac pend_gen unf :=
  unfold pend_ok; cbn;
  repeat first [ exact I | apply Forall_nil | apply Forall_cons | ps_gen unf | split ].

Lemma mw_recv_ok root p ctx snd rcv :
  is_prefix root (ctx ++ [0]) -> c_class snd = Plain -> c_class rcv = Plain ->
  proc_ok root (mw_recv p ctx snd rcv).
Proof.
  intros Hp Hs Hr.
  pose proof Hp as Hp'.
  split.
  2:{ intros d Hd. cbn. unfold mw_recv_pend. destruct (chan_eq_dec d (mw_errs p)) as [->|]; [discriminate | reflexivity]. }
  intros n. split; [| split].
  - destruct n as [|[|[|[|[|[|[|[|[|[|[|n]]]]]]]]]]].
    1,4,5,6,7: eapply exit_done; [reflexivity | cbn; auto | exact Hp' | cbn; lia].
    1,2,4,5: exit_simple.
    + (* 7: errs <- *)
      unfold exit_ok. cbn. right. right. left. exists (mw_errs p), [8].
      repeat split; try discriminate.
      * cbn. unfold mw_recv_pend. destruct (chan_eq_dec (mw_errs p) (mw_errs p)); [cbn; lia | congruence].
      * constructor; [unfold dec; cbn; lia | constructor].
    + exact I.
    + exact I.
  - destruct n as [|[|[|[|[|[|[|[|[|[|[|n]]]]]]]]]]]; pend_gen ltac:(unfold mw_recv_pend).
  - intros d Ht H1. cbn in H1. unfold mw_recv_pend in H1.
    destruct (chan_eq_dec d (mw_errs p)) as [->|]; [discriminate | lia].
Qed.

Lemma mw_send_ok root p ctx snd :
  is_prefix root (ctx ++ [0]) -> c_class snd = Plain ->
  proc_ok root (mw_send p ctx snd).
Proof.
  intros Hp Hs.
  pose proof Hp as Hp'.
  split.
  2:{ intros d Hd. cbn. unfold mw_send_pend. destruct (chan_eq_dec d (mw_errs p)) as [->|]; [discriminate | reflexivity]. }
  intros n. split; [| split].
  - destruct n as [|[|[|[|[|[|[|n]]]]]]].
    1,3,4: eapply exit_done; [reflexivity | cbn; auto | exact Hp' | cbn; lia].
    1,3: exit_simple.
    + unfold exit_ok. cbn. right. right. left. exists (mw_errs p), [5].
      repeat split; try discriminate.
      * cbn. unfold mw_send_pend. destruct (chan_eq_dec (mw_errs p) (mw_errs p)); [cbn; lia | congruence].
      * constructor; [unfold dec; cbn; lia | constructor].
    + exact I.
    + exact I.
  - destruct n as [|[|[|[|[|[|[|n]]]]]]]; pend_gen ltac:(unfold mw_send_pend).
  - intros d Ht H1. cbn in H1. unfold mw_send_pend in H1.
    destruct (chan_eq_dec d (mw_errs p)) as [->|]; [discriminate | lia].
Qed.

(** * mergeHandlerSession *)
Lemma rh_ctx_prefix root ctx n l : is_prefix root (ctx ++ [0]) -> is_prefix root (rh_ctx (ctx ++ [0]) n l).
Proof. intros H. unfold rh_ctx. apply is_prefix_app. exact H. Qed.

(* what a composition needs of the context it is given: a SimpleHandler selects on the context
   itself, every other component only on contexts derived from it *)
Definition need (root ctx : flag) (c : comp) : Prop :=
  match c with
  | CSimple _ => is_prefix root ctx
  | _ => is_prefix root (ctx ++ [0])
  end.

Lemma need_of_prefix root ctx c : is_prefix root ctx -> need root ctx c.
Proof. intros H. destruct c; cbn; auto; apply is_prefix_app; exact H. Qed.

Lemma m_main_ok root p ctx n R child :
  1 <= n -> p_rank child < R + n -> proc_ok root (m_main p ctx n R child).
Proof.
  intros Hn Hc. split; [| reflexivity].
  intros k. split; [| split; [| apply hold_none; reflexivity]].
  - destruct k as [|[|[|[|k]]]]; exit_simple.
  - destruct k as [|[|[|[|k]]]]; pend_plain.
Qed.

Lemma m_rh_ok root p ctx n R k child :
  1 <= k -> p_rank child < R + k -> proc_ok root (m_rh p ctx n R k child).
Proof.
  intros Hk Hc. split.
  2:{ intros d Hd. cbn. unfold m_rh_pend. destruct (chan_eq_dec d (m_errCh p k)) as [->|]; [discriminate | reflexivity]. }
  intros j. split; [| split].
  - destruct j as [|[|[|[|[|j]]]]].
    1,2,5,6: exit_simple.
    + destruct k as [|[|k]]; [lia | |]; exit_simple.
    + unfold exit_ok. cbn. right. right. left. exists (m_errCh p k), [4].
      repeat split; try discriminate.
      * cbn. unfold m_rh_pend. destruct (chan_eq_dec (m_errCh p k) (m_errCh p k)); [cbn; lia | congruence].
      * constructor; [unfold dec; cbn; lia | constructor].
  - destruct j as [|[|[|[|[|j]]]]]; try (pend_gen ltac:(unfold m_rh_pend)).
    destruct k as [|[|k]]; [lia | |]; pend_gen ltac:(unfold m_rh_pend).
  - intros d Ht H1. cbn in H1. unfold m_rh_pend in H1.
    destruct (chan_eq_dec d (m_errCh p k)) as [->|]; [discriminate | lia].
Qed.

Lemma m_ms_ok root p ctx n i :
  is_prefix root (ctx ++ [0]) -> proc_ok root (m_ms p ctx n i).
Proof.
  intros Hp. split; [| reflexivity].
  pose proof Hp as Hp'.
  intros k. split; [| split; [| apply hold_none; reflexivity]].
  - destruct k as [|[|[|k]]].
    1,2: eapply exit_done; [reflexivity | cbn; auto | exact Hp' | cbn; lia].
    + unfold exit_ok, dec, m_ms, m_ms_code, pr_code, pr_meas. destruct (S i =? n); cbn; [lia | exact I].
    + exact I.
  - destruct k as [|[|[|k]]]; [pend_plain | pend_plain | | pend_plain].
    unfold pend_ok. change (pr_code (m_ms p ctx n i) 2) with (if S i =? n then Cancel (ctx ++ [0]) 3 else Exit).
    destruct (S i =? n); [ps_plain | exact I].
Qed.

Lemma m_hs_ok root p ctx snd :
  is_prefix root (ctx ++ [0]) -> c_class snd = Plain -> proc_ok root (m_hs p ctx snd).
Proof.
  intros Hp Hs.
  pose proof Hp as Hp'.
  split.
  2:{ intros d Hd. cbn. unfold m_hs_pend. repeat (destruct (chan_eq_dec _ _)); reflexivity. }
  intros k. split; [| split].
  - destruct k as [|[|[|[|[|[|[|[|[|[|k]]]]]]]]]].
    1,8: eapply exit_done; [reflexivity | cbn; auto | exact Hp' | cbn; lia].
    1,3,5: (unfold exit_ok; cbn; right; right; right; do 3 eexists;
            split; [reflexivity | split; [reflexivity | split; [discriminate |
            constructor; [split; [unfold dec; cbn; lia | eexists; reflexivity] | constructor]]]]).
    1: (unfold exit_ok; cbn; right; right; left; exists (m_req p), [7; 0]).
    2: (unfold exit_ok; cbn; right; right; left; exists (m_ok p), [7; 0]).
    3: (unfold exit_ok; cbn; right; right; left; exists (m_cnt p), [7; 0]).
    1,2,3: (split; [reflexivity | split; [discriminate | split;
             [cbn; unfold m_hs_pend, m_ok, m_req, m_cnt; repeat (destruct (chan_eq_dec _ _); try congruence); cbn; lia
             | split; [discriminate | constructor; [unfold dec; cbn; lia | constructor; [unfold dec; cbn; lia | constructor]]]]]]).
    + exit_simple.
    + exact I.
    + exact I.
  - destruct k as [|[|[|[|[|[|[|[|[|[|k]]]]]]]]]]; pend_gen ltac:(unfold m_hs_pend, m_ok, m_req, m_cnt in * ).
  - intros d Ht H1. cbn in H1 |- *. unfold m_hs_pend in H1.
    destruct (chan_eq_dec d (m_req p)) as [->|].
    { destruct (Nat.eqb_spec k 2) as [->|]; [| lia]. split; [reflexivity | eexists; reflexivity]. }
    destruct (chan_eq_dec d (m_ok p)) as [->|].
    { destruct (Nat.eqb_spec k 4) as [->|]; [| lia]. split; [reflexivity | eexists; reflexivity]. }
    destruct (chan_eq_dec d (m_cnt p)) as [->|]; [| lia].
    destruct (Nat.eqb_spec k 6) as [->|]; [| lia]. split; [reflexivity | eexists; reflexivity].
Qed.

(** ** handleRecv with n children *)
Ltac ifs := repeat match goal with
  | |- context [if ?a =? ?b then _ else _] => destruct (Nat.eqb_spec a b); try lia
  | |- context [if ?a <? ?b then _ else _] => destruct (Nat.ltb_spec a b); try lia
  end.

Definition hr_nx (n i : nat) : pc := if S i =? n then 0 else 8 + i.

Lemma hr_code_b p ctx rcv n i : i < n ->
  m_hr_code p ctx rcv n (7 + i) =
  Select [ADone (ctx ++ [0]) (hr_nx n i); ASend (m_recvs p i) [hr_nx n i]].
Proof.
  intros Hi. unfold m_hr_code, hr_nx. ifs; replace (7 + i - 7) with i by lia; reflexivity.
Qed.

Lemma hr_code_cancel p ctx rcv n : m_hr_code p ctx rcv n (7 + n) = Cancel (ctx ++ [0]) (8 + n).
Proof. unfold m_hr_code. ifs. reflexivity. Qed.

Lemma hr_code_close p ctx rcv n i : i < n ->
  m_hr_code p ctx rcv n (8 + n + i) = Close (m_recvs p i) (9 + n + i).
Proof.
  intros Hi. unfold m_hr_code. ifs. replace (8 + n + i - 8 - n) with i by lia. reflexivity.
Qed.

Lemma hr_code_exit p ctx rcv n k : 8 + 2 * n <= k -> m_hr_code p ctx rcv n k = Exit.
Proof. intros Hk. unfold m_hr_code. ifs. reflexivity. Qed.

Ltac nxs := repeat match goal with
  | |- context [if S ?a =? ?b then 0 else ?c] => destruct (Nat.eqb_spec (S a) b)
  end.
Ltac hr_meas := unfold dec; cbn [pr_meas m_hr]; unfold m_hr_meas, hr_nx; nxs; ifs; cbn; lia.
Ltac eqpend_hr := intros; cbn [pr_pend m_hr]; unfold m_hr_pend, hr_nx, m_ok, m_req, m_cnt in *;
  repeat (destruct (chan_eq_dec _ _); try congruence); nxs; ifs; try reflexivity; try lia.
Ltac ps_hr :=
  first [ apply ps_none; eqpend_hr
        | apply ps_send_plain; [assumption || reflexivity | eqpend_hr]
        | apply ps_recv_plain; [assumption || reflexivity | eqpend_hr]
        | apply ps_send_use; [eqpend_hr | eqpend_hr]
        | apply ps_recv_gain; [eqpend_hr | eqpend_hr] ].
Ltac pend_hr := repeat first [ exact I | apply Forall_nil | apply Forall_cons | ps_hr | split ].

Ltac hold_hr := let d := fresh "d" in let Ht := fresh "Ht" in let H1 := fresh "H1" in
  intros d Ht H1; cbn [pr_pend m_hr] in H1; unfold m_hr_pend in H1;
  destruct (chan_eq_dec d (m_ok _)); [| destruct (chan_eq_dec d (m_req _)); [| destruct (chan_eq_dec d (m_cnt _))]];
  revert H1; cbn; ifs; try lia.

Lemma hr_regions n k : 7 <= k ->
  (exists i, i < n /\ k = 7 + i) \/ k = 7 + n \/ (exists i, i < n /\ k = 8 + n + i) \/ 8 + 2 * n <= k.
Proof.
  intros Hk.
  destruct (Nat.lt_ge_cases k (7 + n)); [left; exists (k - 7); lia|].
  destruct (Nat.eq_dec k (7 + n)); [right; left; lia|].
  destruct (Nat.lt_ge_cases k (8 + 2 * n)); [right; right; left; exists (k - 8 - n); lia|].
  right; right; right; lia.
Qed.

Lemma m_hr_ok root p ctx rcv n :
  is_prefix root (ctx ++ [0]) -> c_class rcv = Plain -> proc_ok root (m_hr p ctx rcv n).
Proof.
  intros Hp Hr.
  pose proof Hp as Hp'.
  split.
  2:{ intros d Hd. cbn. unfold m_hr_pend. repeat (destruct (chan_eq_dec _ _)); reflexivity. }
  intros k.
  destruct (Nat.lt_ge_cases k 7) as [Hlt|Hge].
  - (* the fixed part *)
    destruct k as [|[|[|[|[|[|[|k]]]]]]]; [| | | | | | | lia].
    + (* 0 *) split; [| split].
      * eapply exit_done; [reflexivity | cbn; auto | exact Hp' | hr_meas].
      * unfold pend_ok. cbn [pr_code m_hr]. change (m_hr_code p ctx rcv n 0) with
          (Select [ADone (ctx ++ [0]) (7 + n); ARecv rcv [1; 3; 5; 7] [7 + n]]). pend_hr.
      * hold_hr.
    + (* 1: take okStat *) split; [| split].
      * unfold exit_ok. cbn [pr_code m_hr]. change (m_hr_code p ctx rcv n 1) with (Select [ARecv (m_ok p) [2] []]).
        right; right; right. exists (m_ok p), [2], []. repeat split; try discriminate.
        constructor; [split; [hr_meas | eexists; reflexivity] | constructor].
      * unfold pend_ok. cbn [pr_code m_hr]. change (m_hr_code p ctx rcv n 1) with (Select [ARecv (m_ok p) [2] []]). pend_hr.
      * hold_hr.
    + (* 2: put okStat *) split; [| split].
      * unfold exit_ok. cbn [pr_code m_hr]. change (m_hr_code p ctx rcv n 2) with (Select [ASend (m_ok p) [7]]).
        right; right; left. exists (m_ok p), [7]. repeat split; try discriminate.
        -- eqpend_hr.
        -- constructor; [hr_meas | constructor].
      * unfold pend_ok. cbn [pr_code m_hr]. change (m_hr_code p ctx rcv n 2) with (Select [ASend (m_ok p) [7]]). pend_hr.
      * intros d Ht H1. revert H1. cbn [pr_pend m_hr pr_code]. unfold m_hr_pend.
        destruct (chan_eq_dec d (m_ok p)) as [->|]; [intros _; split; [reflexivity | eexists; reflexivity]|].
        repeat (destruct (chan_eq_dec _ _)); cbn; lia.
    + (* 3: take reqStat *) split; [| split].
      * unfold exit_ok. cbn [pr_code m_hr]. change (m_hr_code p ctx rcv n 3) with (Select [ARecv (m_req p) [4] []]).
        right; right; right. exists (m_req p), [4], []. repeat split; try discriminate.
        constructor; [split; [hr_meas | eexists; reflexivity] | constructor].
      * unfold pend_ok. cbn [pr_code m_hr]. change (m_hr_code p ctx rcv n 3) with (Select [ARecv (m_req p) [4] []]). pend_hr.
      * hold_hr.
    + (* 4: put reqStat *) split; [| split].
      * unfold exit_ok. cbn [pr_code m_hr]. change (m_hr_code p ctx rcv n 4) with (Select [ASend (m_req p) [7]]).
        right; right; left. exists (m_req p), [7]. repeat split; try discriminate.
        -- eqpend_hr.
        -- constructor; [hr_meas | constructor].
      * unfold pend_ok. cbn [pr_code m_hr]. change (m_hr_code p ctx rcv n 4) with (Select [ASend (m_req p) [7]]). pend_hr.
      * intros d Ht H1. revert H1. cbn [pr_pend m_hr pr_code]. unfold m_hr_pend.
        destruct (chan_eq_dec d (m_ok p)) as [->|]; [cbn; lia|].
        destruct (chan_eq_dec d (m_req p)) as [->|]; [intros _; split; [reflexivity | eexists; reflexivity]|].
        repeat (destruct (chan_eq_dec _ _)); cbn; lia.
    + (* 5: take countStat *) split; [| split].
      * unfold exit_ok. cbn [pr_code m_hr]. change (m_hr_code p ctx rcv n 5) with (Select [ARecv (m_cnt p) [6] []]).
        right; right; right. exists (m_cnt p), [6], []. repeat split; try discriminate.
        constructor; [split; [hr_meas | eexists; reflexivity] | constructor].
      * unfold pend_ok. cbn [pr_code m_hr]. change (m_hr_code p ctx rcv n 5) with (Select [ARecv (m_cnt p) [6] []]). pend_hr.
      * hold_hr.
    + (* 6: put countStat *) split; [| split].
      * unfold exit_ok. cbn [pr_code m_hr]. change (m_hr_code p ctx rcv n 6) with (Select [ASend (m_cnt p) [7]]).
        right; right; left. exists (m_cnt p), [7]. repeat split; try discriminate.
        -- eqpend_hr.
        -- constructor; [hr_meas | constructor].
      * unfold pend_ok. cbn [pr_code m_hr]. change (m_hr_code p ctx rcv n 6) with (Select [ASend (m_cnt p) [7]]). pend_hr.
      * intros d Ht H1. revert H1. cbn [pr_pend m_hr pr_code]. unfold m_hr_pend.
        destruct (chan_eq_dec d (m_ok p)) as [->|]; [cbn; lia|].
        destruct (chan_eq_dec d (m_req p)) as [->|]; [cbn; lia|].
        destruct (chan_eq_dec d (m_cnt p)) as [->|]; [intros _; split; [reflexivity | eexists; reflexivity]|].
        cbn; lia.
  - (* the part that depends on n *)
    assert (Hhold : hold_ok (m_hr p ctx rcv n) k).
    { hold_hr. }
    destruct (hr_regions n k Hge) as [[i [Hi ->]] | [-> | [[i [Hi ->]] | Hex]]].
    + split; [| split; [| exact Hhold]].
      * eapply exit_done; [apply hr_code_b; exact Hi | cbn; auto | exact Hp' | hr_meas].
      * unfold pend_ok. cbn [pr_code m_hr]. rewrite hr_code_b by exact Hi. pend_hr.
    + split; [| split; [| exact Hhold]].
      * unfold exit_ok. cbn [pr_code m_hr]. rewrite hr_code_cancel. hr_meas.
      * unfold pend_ok. cbn [pr_code m_hr]. rewrite hr_code_cancel. pend_hr.
    + split; [| split; [| exact Hhold]].
      * unfold exit_ok. cbn [pr_code m_hr]. rewrite hr_code_close by exact Hi. split; [reflexivity | hr_meas].
      * unfold pend_ok. cbn [pr_code m_hr]. rewrite hr_code_close by exact Hi. pend_hr.
    + split; [| split; [| exact Hhold]].
      * unfold exit_ok. cbn [pr_code m_hr]. rewrite hr_code_exit by exact Hex. exact I.
      * unfold pend_ok. cbn [pr_code m_hr]. rewrite hr_code_exit by exact Hex. exact I.
Qed.

(** * Compositions *)
Scheme comp_mut := Induction for comp Sort Prop
  with comps_mut := Induction for comps Sort Prop.
Combined Scheme comp_comps_ind from comp_mut, comps_mut.

Lemma is_prefix_trans a b c : is_prefix a b -> is_prefix b c -> is_prefix a c.
Proof. intros [r ->] [s ->]. exists (r ++ s). rewrite app_assoc. reflexivity. Qed.

Lemma not_prefix_ext (p : path) j : ~ is_prefix (p ++ [j]) p.
Proof.
  intros [r H]. apply (f_equal (@length nat)) in H. rewrite !app_length in H. cbn in H. lia.
Qed.

Lemma prefix_branch (p q : path) i j : is_prefix (p ++ [i]) q -> is_prefix (p ++ [j]) q -> i = j.
Proof.
  intros [r ->] [s H]. rewrite <- !app_assoc in H. apply app_inv_head in H. cbn in H. congruence.
Qed.

Lemma crk_le i cs : crk i cs <= rks cs.
Proof.
  revert i. induction cs as [|c r IH]; intros i; cbn; [lia|].
  destruct i; [lia | specialize (IH i); lia].
Qed.

Lemma build_procs_ok root :
  (forall c p ctx snd rcv, need root ctx c -> c_class snd = Plain -> c_class rcv = Plain ->
      wf_comp c -> Forall (proc_ok root) (build p ctx snd rcv c))
  /\ (forall cs p ctx n R i, is_prefix root (ctx ++ [0]) -> rks cs < R -> wf_comps cs ->
      Forall (proc_ok root) (build_children p ctx n R i cs)).
Proof.
  apply comp_comps_ind.
  - (* simple *) intros k p ctx snd rcv Hp Hs Hr _. cbn. constructor; [apply simple_ok; auto | constructor].
  - (* router *) intros b p ctx snd rcv Hp Hs Hr _. cbn.
    constructor; [apply router_main_ok; auto | constructor; [apply router_fwd_ok; auto | constructor]].
  - (* middleware *) intros c IH p ctx snd rcv Hp Hs Hr Hwf. cbn in Hp. cbn [build].
    constructor; [apply mw_main_ok|].
    constructor; [apply mw_recv_ok; auto|].
    constructor; [apply mw_send_ok; auto|].
    apply IH; auto. apply need_of_prefix; exact Hp.
  - (* merge *) intros cs IH p ctx snd rcv Hp Hs Hr [Hn Hwf]. cbn in Hp. cbn [build].
    constructor.
    { apply m_main_ok; [lia|]. cbn. pose proof (crk_le (clen cs - 1) cs). lia. }
    constructor; [apply m_hr_ok; auto|].
    constructor; [apply m_hs_ok; auto|].
    apply IH; auto.
  - intros. constructor.
  - intros c IHc r IHr p ctx n R i Hp HR [Hwc Hwr]. cbn in HR. cbn [build_children].
    apply Forall_app. split.
    { destruct (S i =? n); [constructor|]. constructor; [|constructor].
      apply m_rh_ok; [lia | cbn; lia]. }
    constructor; [apply m_ms_ok; exact Hp|].
    apply Forall_app. split.
    + apply IHc; auto. apply need_of_prefix. apply rh_ctx_prefix; exact Hp.
    + apply IHr; auto. lia.
Qed.


(** ** names are distinct *)
Definition under (q : path) (pr : proc) : Prop := is_prefix q (p_path (pr_id pr)).

Definition child_name (p : path) (i : nat) (pr : proc) : Prop :=
  (p_path (pr_id pr) = p /\ 4 + 2 * i <= p_id (pr_id pr))
  \/ exists j, i <= j /\ is_prefix (p ++ [j]) (p_path (pr_id pr)).

Lemma build_paths :
  (forall c p ctx snd rcv, Forall (under p) (build p ctx snd rcv c))
  /\ (forall cs p ctx n R i, Forall (child_name p i) (build_children p ctx n R i cs)).
Proof.
  apply comp_comps_ind.
  - intros. cbn. repeat constructor; apply is_prefix_refl.
  - intros. cbn. repeat constructor; apply is_prefix_refl.
  - intros c IH p ctx snd rcv. cbn.
    do 3 (constructor; [apply is_prefix_refl|]).
    eapply Forall_impl; [| apply IH]. intros pr H. unfold under in *.
    eapply is_prefix_trans; [| exact H]. exists [0]; reflexivity.
  - intros cs IH p ctx snd rcv. cbn.
    do 3 (constructor; [apply is_prefix_refl|]).
    eapply Forall_impl; [| apply IH]. intros pr [[Hpath _] | [j [_ Hj]]]; unfold under.
    + rewrite Hpath. apply is_prefix_refl.
    + eapply is_prefix_trans; [| exact Hj]. exists [j]; reflexivity.
  - intros. constructor.
  - intros c IHc r IHr p ctx n R i. cbn [build_children].
    apply Forall_app. split.
    { destruct (S i =? n); [constructor|]. constructor; [|constructor]. left. cbn. split; [reflexivity | lia]. }
    constructor; [left; cbn; split; [reflexivity | lia]|].
    apply Forall_app. split.
    + eapply Forall_impl; [| apply IHc]. intros pr H. right. exists i. split; [lia | exact H].
    + eapply Forall_impl; [| apply IHr]. intros pr [[Hpath Hid] | [j [Hj Hpre]]].
      * left. split; [exact Hpath | lia].
      * right. exists j. split; [lia | exact Hpre].
Qed.

Lemma NoDup_app' {A} (l1 l2 : list A) :
  NoDup l1 -> NoDup l2 -> (forall x, In x l1 -> ~ In x l2) -> NoDup (l1 ++ l2).
Proof.
  induction l1 as [|a l1 IH]; cbn; intros H1 H2 Hd; [exact H2|].
  inversion H1; subst. constructor.
  - intros Hin. apply in_app_or in Hin. destruct Hin; [contradiction | eapply Hd; eauto].
  - apply IH; auto.
Qed.

Lemma in_ids_forall (P : proc -> Prop) N x :
  Forall P N -> In x (List.map pr_id N) -> exists pr, P pr /\ pr_id pr = x.
Proof.
  intros HF Hin. apply in_map_iff in Hin. destruct Hin as [pr [E Hpr]].
  rewrite Forall_forall in HF. exists pr. auto.
Qed.

Lemma build_nodup :
  (forall c p ctx snd rcv, NoDup (List.map pr_id (build p ctx snd rcv c)))
  /\ (forall cs p ctx n R i, NoDup (List.map pr_id (build_children p ctx n R i cs))).
Proof.
  destruct build_paths as [Hpc Hpcs].
  apply comp_comps_ind.
  - intros. cbn. constructor; [intros [] | constructor].
  - intros. cbn. constructor; [intros [H|[]]; discriminate | constructor; [intros [] | constructor]].
  - intros c IH p ctx snd rcv. cbn [build List.map].
    assert (Hinner : forall x, In x (List.map pr_id (build (p ++ [0]) (ctx ++ [0]) (mw_sCh p) (mw_rCh p) c)) -> p_path x <> p).
    { intros x Hx E. destruct (in_ids_forall _ _ _ (Hpc c _ _ _ _) Hx) as [pr [Hu <-]].
      unfold under in Hu. rewrite E in Hu. exact (not_prefix_ext p 0 Hu). }
    constructor; [| constructor; [| constructor; [| apply IH]]].
    + intros [H|[H|H]]; try discriminate. exact (Hinner _ H eq_refl).
    + intros [H|H]; try discriminate. exact (Hinner _ H eq_refl).
    + intros H. exact (Hinner _ H eq_refl).
  - intros cs IH p ctx snd rcv. cbn [build List.map].
    assert (Hch : forall x, In x (List.map pr_id (build_children p ctx (clen cs) (S (rks cs)) 0 cs)) ->
                   p_path x = p -> 4 <= p_id x).
    { intros x Hx E. destruct (in_ids_forall _ _ _ (Hpcs cs _ _ _ _ _) Hx) as [pr [[[_ Hid] | [j [_ Hj]]] <-]].
      - lia.
      - exfalso. rewrite E in Hj. exact (not_prefix_ext p j Hj). }
    constructor; [| constructor; [| constructor; [| apply IH]]].
    + intros [H|[H|H]]; try discriminate. specialize (Hch _ H eq_refl). cbn in Hch. lia.
    + intros [H|H]; try discriminate. specialize (Hch _ H eq_refl). cbn in Hch. lia.
    + intros H. specialize (Hch _ H eq_refl). cbn in Hch. lia.
  - intros. constructor.
  - intros c IHc r IHr p ctx n R i. cbn [build_children].
    rewrite map_app. cbn [List.map]. rewrite map_app.
    (* facts about the three groups *)
    assert (Hchild : forall x, In x (List.map pr_id (build (p ++ [i]) (rh_ctx (ctx ++ [0]) n (S i)) (m_sends p i) (m_recvs p i) c)) ->
                      is_prefix (p ++ [i]) (p_path x)).
    { intros x Hx. destruct (in_ids_forall _ _ _ (Hpc c _ _ _ _) Hx) as [pr [Hu <-]]. exact Hu. }
    assert (Htail : forall x, In x (List.map pr_id (build_children p ctx n R (S i) r)) ->
                      (p_path x = p /\ 6 + 2 * i <= p_id x) \/ exists j, S i <= j /\ is_prefix (p ++ [j]) (p_path x)).
    { intros x Hx. destruct (in_ids_forall _ _ _ (Hpcs r _ _ _ _ _) Hx) as [pr [[[Hpa Hid] | [j [Hj Hpre]]] <-]].
      - left. split; [exact Hpa | lia].
      - right. exists j. auto. }
    assert (Hms : ~ In (m_ms_pid p i) (List.map pr_id (build (p ++ [i]) (rh_ctx (ctx ++ [0]) n (S i)) (m_sends p i) (m_recvs p i) c)
                        ++ List.map pr_id (build_children p ctx n R (S i) r))).
    { intros Hin. apply in_app_or in Hin. destruct Hin as [Hin|Hin].
      - apply Hchild in Hin. cbn in Hin. exact (not_prefix_ext p i Hin).
      - destruct (Htail _ Hin) as [[_ Hid] | [j [_ Hj]]]; cbn in *; [lia | exact (not_prefix_ext p j Hj)]. }
    assert (Hrest : NoDup (m_ms_pid p i :: List.map pr_id (build (p ++ [i]) (rh_ctx (ctx ++ [0]) n (S i)) (m_sends p i) (m_recvs p i) c)
                        ++ List.map pr_id (build_children p ctx n R (S i) r))).
    { constructor; [exact Hms|]. apply NoDup_app'; [apply IHc | apply IHr |].
      intros x Hx Hx'. apply Hchild in Hx.
      destruct (Htail _ Hx') as [[Hpa _] | [j [Hj Hpre]]].
      - rewrite Hpa in Hx. exact (not_prefix_ext p i Hx).
      - pose proof (prefix_branch _ _ _ _ Hx Hpre). lia. }
    destruct (S i =? n); cbn [List.map app]; [exact Hrest|].
    constructor; [| exact Hrest].
    intros [H|Hin]; [discriminate H || (cbn in H; injection H; lia)|].
    apply in_app_or in Hin. destruct Hin as [Hin|Hin].
    + apply Hchild in Hin. cbn in Hin. exact (not_prefix_ext p i Hin).
    + destruct (Htail _ Hin) as [[_ Hid] | [j [_ Hj]]]; cbn in *; [lia | exact (not_prefix_ext p j Hj)].
Qed.

(** ** the initial reservations fit *)
Definition pend0 (N : net) (d : chan) : nat := sum_over (fun pr => pr_pend pr 0 d) N.

Definition child_chan (p : path) (i : nat) (d : chan) : Prop :=
  (exists k, S i <= k /\ d = m_errCh p k) \/ exists j, i <= j /\ is_prefix (p ++ [j]) (c_path d).

(* where the initial reservations of a composition can lie *)
Lemma build_support d :
  (forall c p ctx snd rcv, Forall (fun pr => pr_pend pr 0 d <> 0 -> is_prefix p (c_path d)) (build p ctx snd rcv c))
  /\ (forall cs p ctx n R i, Forall (fun pr => pr_pend pr 0 d <> 0 -> child_chan p i d) (build_children p ctx n R i cs)).
Proof.
  apply comp_comps_ind.
  - intros. cbn. constructor; [cbn; unfold no_pend; congruence | constructor].
  - intros. cbn. constructor; [cbn; unfold no_pend; congruence | constructor; [cbn; unfold no_pend; congruence | constructor]].
  - intros c IH p ctx snd rcv. cbn [build].
    constructor; [cbn; unfold no_pend; congruence|].
    constructor.
    { cbn. unfold mw_recv_pend. destruct (chan_eq_dec d (mw_errs p)) as [->|]; [intros _; apply is_prefix_refl | congruence]. }
    constructor.
    { cbn. unfold mw_send_pend. destruct (chan_eq_dec d (mw_errs p)) as [->|]; [intros _; apply is_prefix_refl | congruence]. }
    eapply Forall_impl; [| apply IH]. intros pr H Hne.
    eapply is_prefix_trans; [| exact (H Hne)]. exists [0]; reflexivity.
  - intros cs IH p ctx snd rcv. cbn [build].
    constructor; [cbn; unfold no_pend; congruence|].
    constructor.
    { cbn. unfold m_hr_pend. repeat (destruct (chan_eq_dec _ _)); cbn; unfold no_pend; congruence. }
    constructor.
    { cbn. unfold m_hs_pend. repeat (destruct (chan_eq_dec _ _)); cbn; unfold no_pend; congruence. }
    eapply Forall_impl; [| apply IH]. intros pr H Hne.
    destruct (H Hne) as [[k [_ ->]] | [j [_ Hj]]].
    + apply is_prefix_refl.
    + eapply is_prefix_trans; [| exact Hj]. exists [j]; reflexivity.
  - intros. constructor.
  - intros c IHc r IHr p ctx n R i. cbn [build_children].
    apply Forall_app. split.
    { destruct (S i =? n); [constructor|]. constructor; [|constructor].
      cbn. unfold m_rh_pend. destruct (chan_eq_dec d (m_errCh p (S i))) as [->|]; [| congruence].
      intros _. left. exists (S i). split; [lia | reflexivity]. }
    constructor; [cbn; unfold no_pend; congruence|].
    apply Forall_app. split.
    + eapply Forall_impl; [| apply IHc]. intros pr H Hne. right. exists i. split; [lia | exact (H Hne)].
    + eapply Forall_impl; [| apply IHr]. intros pr H Hne.
      destruct (H Hne) as [[k [Hk ->]] | [j [Hj Hpre]]].
      * left. exists k. split; [lia | reflexivity].
      * right. exists j. split; [lia | exact Hpre].
Qed.

Lemma pend0_zero N d (P : Prop) :
  Forall (fun pr => pr_pend pr 0 d <> 0 -> P) N -> ~ P -> pend0 N d = 0.
Proof.
  intros HF HnP. unfold pend0. apply sum_over_zero. intros pr Hin.
  rewrite Forall_forall in HF. specialize (HF pr Hin).
  destruct (pr_pend pr 0 d); [reflexivity | exfalso; apply HnP, HF; discriminate].
Qed.

Lemma pend0_app N1 N2 d : pend0 (N1 ++ N2) d = pend0 N1 d + pend0 N2 d.
Proof. unfold pend0. apply sum_over_app. Qed.

Lemma errCh_inj p k k' : m_errCh p k = m_errCh p k' -> k = k'.
Proof. unfold m_errCh. intros H. injection H. lia. Qed.

Lemma build_init d : c_class d = Bounded ->
  (forall c p ctx snd rcv, pend0 (build p ctx snd rcv c) d <= c_cap d)
  /\ (forall cs p ctx n R i, pend0 (build_children p ctx n R i cs) d <= c_cap d).
Proof.
  intros Hb. destruct (build_support d) as [Hsc Hscs].
  apply comp_comps_ind.
  - intros. cbn. lia.
  - intros. cbn. lia.
  - intros c IH p ctx snd rcv. cbn [build].
    change (pend0 (?a :: ?b :: ?c :: ?r) d) with (pr_pend a 0 d + (pr_pend b 0 d + (pr_pend c 0 d + pend0 r d))).
    cbn [pr_pend mw_main mw_recv mw_send]. unfold no_pend, mw_recv_pend, mw_send_pend.
    destruct (chan_eq_dec d (mw_errs p)) as [->|Hne].
    + rewrite (pend0_zero _ _ _ (Hsc c _ _ _ _)); [cbn; lia|]. cbn. apply not_prefix_ext.
    + specialize (IH (p ++ [0]) (ctx ++ [0]) (mw_sCh p) (mw_rCh p)). lia.
  - intros cs IH p ctx snd rcv. cbn [build].
    change (pend0 (?a :: ?b :: ?c :: ?r) d) with (pr_pend a 0 d + (pr_pend b 0 d + (pr_pend c 0 d + pend0 r d))).
    cbn [pr_pend m_main m_hr m_hs]. unfold no_pend, m_hr_pend, m_hs_pend.
    assert (H0 : forall (x y z : nat), (if chan_eq_dec d (m_ok p) then x else if chan_eq_dec d (m_req p) then y
                   else if chan_eq_dec d (m_cnt p) then z else 0) = 0 \/ c_class d = Token).
    { intros. repeat (destruct (chan_eq_dec _ _) as [->|]); auto. }
    assert (H1 : forall (x y z : nat), (if chan_eq_dec d (m_req p) then x else if chan_eq_dec d (m_ok p) then y
                   else if chan_eq_dec d (m_cnt p) then z else 0) = 0 \/ c_class d = Token).
    { intros. repeat (destruct (chan_eq_dec _ _) as [->|]); auto. }
    destruct (H0 (if 0 =? 2 then 1 else 0) (if 0 =? 4 then 1 else 0) (if 0 =? 6 then 1 else 0)) as [E0|E0]; [| congruence].
    destruct (H1 (if 0 =? 2 then 1 else 0) (if 0 =? 4 then 1 else 0) (if 0 =? 6 then 1 else 0)) as [E1|E1]; [| congruence].
    rewrite E0, E1. specialize (IH p ctx (clen cs) (S (rks cs)) 0). lia.
  - intros. cbn. lia.
  - intros c IHc r IHr p ctx n R i. cbn [build_children].
    rewrite pend0_app.
    change (pend0 (?a :: ?r) d) with (pr_pend a 0 d + pend0 r d).
    rewrite pend0_app. cbn [pr_pend m_ms]. unfold no_pend.
    set (X := pend0 (build (p ++ [i]) (rh_ctx (ctx ++ [0]) n (S i)) (m_sends p i) (m_recvs p i) c) d).
    set (T := pend0 (build_children p ctx n R (S i) r) d).
    assert (HX : X <= c_cap d) by apply IHc.
    assert (HT : T <= c_cap d) by apply IHr.
    (* the runHandlers goroutine of this level *)
    match goal with |- pend0 ?L d + _ <= _ => set (y := pend0 L d);
      assert (Hy : y <= (if chan_eq_dec d (m_errCh p (S i)) then 1 else 0)) end.
    { subst y. destruct (S i =? n); [cbn; lia|].
      cbn. unfold m_rh_pend. destruct (chan_eq_dec d (m_errCh p (S i))); cbn; lia. }
    clearbody y.
    destruct (chan_eq_dec d (m_errCh p (S i))) as [->|Hne].
    + (* d is this level's errCh: nobody else reserves on it *)
      assert (X = 0).
      { apply (pend0_zero _ _ _ (Hsc c _ _ _ _)). cbn. apply not_prefix_ext. }
      assert (T = 0).
      { apply (pend0_zero _ _ _ (Hscs r _ _ _ _ _)).
        intros [[k [Hk E]] | [j [_ Hj]]].
        - apply errCh_inj in E. lia.
        - cbn in Hj. exact (not_prefix_ext p j Hj). }
      cbn [c_cap m_errCh]. lia.
    + assert (y = 0) by lia. subst y.
      (* either d lies below child i, and then not in the tail, or not below child i *)
      destruct (pend0 (build (p ++ [i]) (rh_ctx (ctx ++ [0]) n (S i)) (m_sends p i) (m_recvs p i) c) d) eqn:EX; fold X in EX.
      * lia.
      * assert (Hunder : is_prefix (p ++ [i]) (c_path d)).
        { destruct (Forall_Exists_dec (fun pr => pr_pend pr 0 d = 0) (fun pr => Nat.eq_dec _ 0)
                    (build (p ++ [i]) (rh_ctx (ctx ++ [0]) n (S i)) (m_sends p i) (m_recvs p i) c)) as [Hall|Hex].
          - exfalso. unfold X, pend0 in EX. rewrite sum_over_zero in EX; [discriminate|].
            rewrite Forall_forall in Hall. exact Hall.
          - apply Exists_exists in Hex. destruct Hex as [pr [Hin Hnz]].
            pose proof (Hsc c (p ++ [i]) (rh_ctx (ctx ++ [0]) n (S i)) (m_sends p i) (m_recvs p i)) as HF.
            rewrite Forall_forall in HF. exact (HF pr Hin Hnz). }
        assert (T = 0).
        { apply (pend0_zero _ _ _ (Hscs r _ _ _ _ _)).
          intros [[k [Hk E]] | [j [Hj Hpre]]].
          - subst d. cbn in Hunder. exact (not_prefix_ext p i Hunder).
          - pose proof (prefix_branch _ _ _ _ Hunder Hpre). lia. }
        lia.
Qed.

(** * Main theorems about compositions *)
Theorem build_guarded_need root p ctx snd rcv c :
  need root ctx c -> c_class snd = Plain -> c_class rcv = Plain -> wf_comp c ->
  guarded root (build p ctx snd rcv c).
Proof.
  intros Hp Hs Hr Hwf. constructor.
  - apply (proj1 build_nodup).
  - apply (proj1 (build_procs_ok root)); auto.
  - intros d Hd. apply (proj1 (build_init d Hd)).
Qed.

Theorem build_guarded root p ctx snd rcv c :
  is_prefix root ctx -> c_class snd = Plain -> c_class rcv = Plain -> wf_comp c ->
  guarded root (build p ctx snd rcv c).
Proof. intros Hp. apply build_guarded_need. apply need_of_prefix; exact Hp. Qed.

Theorem session_guarded root c : wf_comp c -> guarded root (session root c).
Proof.
  intros Hwf. apply build_guarded; auto. apply is_prefix_refl.
Qed.

(* a session together with any environment *)
Theorem session_env_guarded root c E :
  wf_comp c -> env_ok root E -> guarded root (session root c ++ E).
Proof.
  intros Hwf [Hnd Hp Hnames Hpend].
  destruct (session_guarded root c Hwf) as [Snd Sp Si].
  constructor.
  - rewrite map_app. apply NoDup_app'; auto.
    intros x Hx Hx'.
    destruct (in_ids_forall _ _ _ (proj1 build_paths c _ _ _ _) Hx) as [pr [Hu <-]].
    destruct (in_ids_forall _ _ _ Hnames Hx') as [pr' [Hn E']].
    apply Hn. rewrite E'. exact Hu.
  - apply Forall_app. split; assumption.
  - intros d Hd. rewrite sum_over_app.
    rewrite (sum_over_zero _ E); [specialize (Si d Hd); lia|].
    intros pr Hin. rewrite Forall_forall in Hpend. apply Hpend. exact Hin.
Qed.

(* the concrete peers *)
Lemma feeder_ok root m closes : proc_ok root (feeder root m closes).
Proof.
  split; [| reflexivity].
  intros k. split; [| split; [| apply hold_none; reflexivity]].
  - unfold exit_ok, dec. cbn [pr_code pr_meas feeder]. unfold feeder_code, feeder_meas.
    destruct (Nat.ltb_spec k m).
    + left. exists root, (S (S m)). split; [left; reflexivity|]. split; [apply is_prefix_refl|].
      destruct (Nat.leb_spec (S (S m)) m); [lia|]. destruct (Nat.leb_spec k m); lia.
    + destruct (Nat.eqb_spec k m); [| exact I]. destruct closes; [| exact I].
      split; [reflexivity|]. subst k.
      destruct (Nat.leb_spec (S m) m); [lia|]. destruct (Nat.leb_spec m m); lia.
  - unfold pend_ok. cbn [pr_code feeder]. unfold feeder_code.
    destruct (Nat.ltb_spec k m).
    + repeat first [apply Forall_nil | apply Forall_cons | ps_plain].
    + destruct (Nat.eqb_spec k m); [| exact I]. destruct closes; [ps_plain | exact I].
Qed.

Lemma drainer_ok root : proc_ok root (drainer root).
Proof.
  split; [| reflexivity].
  intros k. split; [| split; [| apply hold_none; reflexivity]].
  - destruct k as [|k]; [| exact I].
    eapply exit_done; [reflexivity | cbn; auto | apply is_prefix_refl | cbn; lia].
  - destruct k as [|k]; pend_plain.
Qed.

Lemma canceller_ok root : proc_ok root (canceller root).
Proof.
  split; [| reflexivity].
  intros k. split; [| split; [| apply hold_none; reflexivity]].
  - destruct k as [|k]; exit_simple.
  - destruct k as [|k]; pend_plain.
Qed.

Lemma peers_env_ok root m closes (draining : bool) :
  env_ok root (feeder root m closes :: canceller root :: (if draining then [drainer root] else [])).
Proof.
  constructor.
  - destruct draining; cbn.
    + constructor; [intros [H|[H|[]]]; discriminate|]. constructor; [intros [H|[]]; discriminate|].
      constructor; [intros []| constructor].
    + constructor; [intros [H|[]]; discriminate|]. constructor; [intros []| constructor].
  - constructor; [apply feeder_ok|]. constructor; [apply canceller_ok|].
    destruct draining; [constructor; [apply drainer_ok | constructor] | constructor].
  - assert (H : ~ is_prefix [0] env_path) by (intros [r H]; discriminate).
    constructor; [exact H|]. constructor; [exact H|]. destruct draining; [constructor; [exact H | constructor] | constructor].
  - constructor; [reflexivity|]. constructor; [reflexivity|].
    destruct draining; [constructor; [reflexivity | constructor] | constructor].
Qed.

(* every composition, every history, every cut point, stalled or draining peer:
   once the session context is cancelled the whole network can run to completion *)
Theorem session_exits_on_cancel root c E st :
  wf_comp c -> env_ok root E ->
  reachable (session root c ++ E) st -> st_fl st root = true ->
  exists k st', steps (session root c ++ E) k st st'
    /\ k <= total_meas (session root c ++ E) st
    /\ all_exited (session root c ++ E) st'.
Proof.
  intros Hwf He Hr Hroot.
  destruct (can_finish_after_cancel root _ (session_env_guarded root c E Hwf He) _ st (le_n _) Hr Hroot)
    as [k [st' [Hs [Hk [Hx _]]]]].
  exists k, st'. auto.
Qed.

Theorem session_not_stuck root c E st pr :
  wf_comp c -> env_ok root E ->
  reachable (session root c ++ E) st -> st_fl st root = true ->
  In pr (session root c ++ E) -> live st pr -> waits_ok (session root c ++ E) st pr.
Proof.
  intros Hwf He. apply no_stuck_after_cancel. apply session_env_guarded; auto.
Qed.

(** * Relay.ServeHTTP *)
Lemma r_main_ok root p r h : is_prefix root r -> proc_ok root (r_main p r h).
Proof.
  intros Hp. pose proof (is_prefix_app root r [0] Hp) as Hp'.
  split.
  2:{ intros d Hd. cbn. unfold r_main_pend. destruct (chan_eq_dec d (r_errs p)) as [->|]; [discriminate | reflexivity]. }
  intros k. split; [| split].
  - destruct k as [|[|[|[|[|[|[|[|k]]]]]]]].
    1,3,5,6,7,8,9: exit_simple.
    + unfold exit_ok. cbn. right. right. left. exists (r_errs p), [2].
      repeat split; try discriminate.
      * cbn. unfold r_main_pend. destruct (chan_eq_dec (r_errs p) (r_errs p)); [cbn; lia | congruence].
      * constructor; [unfold dec; cbn; lia | constructor].
    + eapply exit_done; [reflexivity | cbn; auto | exact Hp' | cbn; lia].
  - destruct k as [|[|[|[|[|[|[|[|k]]]]]]]]; pend_gen ltac:(unfold r_main_pend).
  - intros d Ht H1. cbn in H1. unfold r_main_pend in H1.
    destruct (chan_eq_dec d (r_errs p)) as [->|]; [discriminate | lia].
Qed.

Lemma r_read_ok root p r : is_prefix root r -> proc_ok root (r_read p r).
Proof.
  intros Hp. pose proof (is_prefix_app root r [0] Hp) as Hp'.
  split.
  2:{ intros d Hd. cbn. unfold r_read_pend. destruct (chan_eq_dec d (r_errs p)) as [->|]; [discriminate | reflexivity]. }
  intros k. split; [| split].
  - destruct k as [|[|[|[|[|[|[|k]]]]]]].
    1,2,3,4: eapply exit_done; [reflexivity | cbn; auto | exact Hp' | cbn; lia].
    2,3,4: exit_simple.
    unfold exit_ok. cbn. right. right. left. exists (r_errs p), [5].
    repeat split; try discriminate.
    * cbn. unfold r_read_pend. destruct (chan_eq_dec (r_errs p) (r_errs p)); [cbn; lia | congruence].
    * constructor; [unfold dec; cbn; lia | constructor].
  - destruct k as [|[|[|[|[|[|[|k]]]]]]]; pend_gen ltac:(unfold r_read_pend).
  - intros d Ht H1. cbn in H1. unfold r_read_pend in H1.
    destruct (chan_eq_dec d (r_errs p)) as [->|]; [discriminate | lia].
Qed.

Lemma r_write_ok root p r sock : is_prefix root r -> proc_ok root (r_write p r sock).
Proof.
  intros Hp. pose proof (is_prefix_app root r [0] Hp) as Hp'.
  split.
  2:{ intros d Hd. cbn. unfold r_write_pend. destruct (chan_eq_dec d (r_errs p)) as [->|]; [discriminate | reflexivity]. }
  intros k. split; [| split].
  - destruct k as [|[|[|[|[|k]]]]].
    1,2,3: eapply exit_done; [reflexivity | cbn; auto | exact Hp' | cbn; lia].
    2,3: exit_simple.
    unfold exit_ok. cbn. right. right. left. exists (r_errs p), [4].
    repeat split; try discriminate.
    * cbn. unfold r_write_pend. destruct (chan_eq_dec (r_errs p) (r_errs p)); [cbn; lia | congruence].
    * constructor; [unfold dec; cbn; lia | constructor].
  - destruct k as [|[|[|[|[|k]]]]]; pend_gen ltac:(unfold r_write_pend).
  - intros d Ht H1. cbn in H1. unfold r_write_pend in H1.
    destruct (chan_eq_dec d (r_errs p)) as [->|]; [discriminate | lia].
Qed.

Theorem relay_conn_guarded root r sock c :
  is_prefix root r -> wf_comp c -> guarded root (relay_conn r sock c).
Proof.
  intros Hp Hwf. unfold relay_conn.
  pose proof (build_guarded root ([0] ++ [0]) (r ++ [0]) (r_send [0]) (r_recv [0]) c
                (is_prefix_app root r [0] Hp) eq_refl eq_refl Hwf) as [Bnd Bp Bi].
  assert (Hinner : forall x, In x (List.map pr_id (build ([0] ++ [0]) (r ++ [0]) (r_send [0]) (r_recv [0]) c)) -> p_path x <> [0]).
  { intros x Hx E. destruct (in_ids_forall _ _ _ (proj1 build_paths c _ _ _ _) Hx) as [pr [Hu <-]].
    unfold under in Hu. rewrite E in Hu. exact (not_prefix_ext [0] 0 Hu). }
  constructor.
  - cbn [List.map]. constructor; [| constructor; [| constructor; [| exact Bnd]]].
    + intros [H|[H|H]]; try discriminate. exact (Hinner _ H eq_refl).
    + intros [H|H]; try discriminate. exact (Hinner _ H eq_refl).
    + intros H. exact (Hinner _ H eq_refl).
  - constructor; [apply r_main_ok; exact Hp|]. constructor; [apply r_read_ok; exact Hp|].
    constructor; [apply r_write_ok; exact Hp | exact Bp].
  - intros d Hd.
    change (sum_over (fun pr => pr_pend pr 0 d) (?a :: ?b :: ?c :: ?r))
      with (pr_pend a 0 d + (pr_pend b 0 d + (pr_pend c 0 d + pend0 r d))).
    cbn [pr_pend r_main r_read r_write]. unfold r_main_pend, r_read_pend, r_write_pend.
    destruct (chan_eq_dec d (r_errs [0])) as [->|Hne].
    + rewrite (pend0_zero _ _ _ (proj1 (build_support (r_errs [0])) c _ _ _ _)); [cbn; lia|].
      cbn. exact (not_prefix_ext [0] 0).
    + specialize (Bi d Hd). unfold pend0. lia.
Qed.

(** * Router registry *)
Lemma reg_del_get r g : reg_get r (reg_del r g) = None.
Proof.
  induction g as [|[x l] t IH]; cbn; [reflexivity|].
  destruct (Nat.eqb_spec x r); [exact IH|]. cbn. destruct (Nat.eqb_spec x r); [contradiction | exact IH].
Qed.

Lemma reg_del_other r r' g : r' <> r -> reg_get r' (reg_del r g) = reg_get r' g.
Proof.
  intros Hne. induction g as [|[x l] t IH]; cbn; [reflexivity|].
  destruct (Nat.eqb_spec x r) as [->|].
  - destruct (Nat.eqb_spec r r'); [congruence | exact IH].
  - cbn. destruct (Nat.eqb_spec x r'); [reflexivity | exact IH].
Qed.

Lemma reg_set_other r r' l g : r' <> r -> reg_get r' (reg_set r l g) = reg_get r' g.
Proof.
  intros Hne. unfold reg_set. cbn. destruct (Nat.eqb_spec r r'); [congruence|]. apply reg_del_other; exact Hne.
Qed.

Lemma reg_step_other g o r : rop_conn o <> r -> reg_get r (reg_step g o) = reg_get r g.
Proof.
  intros Hne. destruct o as [x s|x s|x]; cbn in *.
  - destruct (reg_get x g); apply reg_set_other; auto.
  - destruct (reg_get x g); [apply reg_set_other; auto | reflexivity].
  - apply reg_del_other; auto.
Qed.

Lemma reg_run_other g ops r :
  Forall (fun o => rop_conn o <> r) ops -> reg_get r (reg_run g ops) = reg_get r g.
Proof.
  revert g. induction ops as [|o t IH]; intros g H; cbn; [reflexivity|].
  inversion H; subst. unfold reg_run in IH. rewrite IH by assumption. apply reg_step_other; assumption.
Qed.

(* after the deferred UnsubscribeAll nothing of the connection remains, whatever the other
   connections do afterwards; and a connection never touches the entries of another one *)
Theorem router_registry_released g r ops :
  Forall (fun o => rop_conn o <> r) ops ->
  reg_get r (reg_run (reg_step g (RUnsubscribeAll r)) ops) = None.
Proof.
  intros H. rewrite reg_run_other by exact H. cbn. apply reg_del_get.
Qed.

Theorem router_registry_isolated g r r' ops :
  r' <> r -> Forall (fun o => rop_conn o = r) ops -> reg_get r' (reg_run g ops) = reg_get r' g.
Proof.
  intros Hne H. apply reg_run_other. eapply Forall_impl; [| exact H]. cbn. intros o E. congruence.
Qed.

(* every way of RouterHandler.ServeNostr to its end passes the UnsubscribeAll point (pc 4) *)
Theorem router_exit_unsubscribes p ctx snd rcv b k n :
  In n (succs (router_main_code p ctx snd rcv b k)) ->
  router_main_code p ctx snd rcv b n = Exit -> k = 4.
Proof.
  intros Hin Hx.
  destruct k as [|[|[|[|[|k]]]]]; cbn in Hin; try reflexivity;
    repeat (destruct Hin as [<-|Hin]; [cbn in Hx; discriminate|]); try contradiction.
Qed.

(** * Gauges *)
Lemma reg_del_absent r g : reg_get r g = None -> reg_del r g = g.
Proof.
  induction g as [|[x l] t IH]; cbn; [reflexivity|].
  destruct (Nat.eqb_spec x r); [discriminate|]. intros H. rewrite IH by exact H. reflexivity.
Qed.

Lemma reg_set_get r l g : reg_get r (reg_set r l g) = Some l.
Proof. unfold reg_set. cbn. rewrite Nat.eqb_refl. reflexivity. Qed.

Lemma reg_set_set r l l' g : reg_set r l' (reg_set r l g) = reg_set r l' g.
Proof.
  unfold reg_set. cbn. rewrite Nat.eqb_refl. f_equal.
  apply reg_del_absent. apply reg_del_get.
Qed.

Definition g_body_op (r : nat) (o : gop) : Prop := exists s, o = GReq r s \/ o = GClose r s.

Lemma g_step_req r s c q l m0 :
  g_step (mkG c q (reg_set r l m0)) (GReq r s)
  = if existsb (Nat.eqb s) l then mkG c q (reg_set r l m0) else mkG c (q + 1) (reg_set r (s :: l) m0).
Proof.
  unfold g_step. cbn [g_map]. rewrite reg_set_get. destruct (existsb (Nat.eqb s) l); [reflexivity|].
  cbn [g_conn g_req]. rewrite reg_set_set. reflexivity.
Qed.

Lemma g_step_close r s c q l m0 :
  g_step (mkG c q (reg_set r l m0)) (GClose r s)
  = if existsb (Nat.eqb s) l
    then mkG c (q - 1) (reg_set r (List.filter (fun x => negb (x =? s)) l) m0)
    else mkG c q (reg_set r l m0).
Proof.
  unfold g_step. cbn [g_map]. rewrite reg_set_get. destruct (existsb (Nat.eqb s) l); [|reflexivity].
  cbn [g_conn g_req]. rewrite reg_set_set. reflexivity.
Qed.

Lemma existsb_eqb_In s l : existsb (Nat.eqb s) l = true <-> In s l.
Proof.
  rewrite existsb_exists. split.
  - intros [x [Hin E]]. apply Nat.eqb_eq in E. subst. exact Hin.
  - intros H. exists s. split; [exact H | apply Nat.eqb_refl].
Qed.

Lemma filter_out_len s l : NoDup l -> In s l -> S (length (List.filter (fun x => negb (x =? s)) l)) = length l.
Proof.
  induction l as [|a l IH]; cbn; intros Hnd Hin; [contradiction|].
  inversion Hnd as [|? ? Hna Hnd']; subst.
  destruct (Nat.eqb_spec a s) as [->|Hne]; cbn.
  - f_equal. clear IH Hin Hnd. induction l as [|b l IHl]; cbn; [reflexivity|].
    inversion Hnd'; subst. destruct (Nat.eqb_spec b s) as [->|]; cbn.
    + exfalso. apply Hna. left; reflexivity.
    + f_equal. apply IHl; auto. intros H. apply Hna. right; exact H.
  - f_equal. apply IH; auto. destruct Hin; [congruence | assumption].
Qed.

Lemma filter_out_nodup s (l : list nat) : NoDup l -> NoDup (List.filter (fun x => negb (x =? s)) l).
Proof. apply NoDup_filter. Qed.

Lemma g_body_run r c m0 body : Forall (g_body_op r) body ->
  forall q l, NoDup l -> exists l', NoDup l' /\
    g_run (mkG c (q + Z.of_nat (length l)) (reg_set r l m0)) body
    = mkG c (q + Z.of_nat (length l')) (reg_set r l' m0).
Proof.
  induction body as [|o t IH]; intros H q l Hnd.
  - exists l. split; [exact Hnd | reflexivity].
  - inversion H as [|? ? [s [->| ->]] Ht]; subst; unfold g_run; cbn [fold_left].
    + rewrite g_step_req. destruct (existsb (Nat.eqb s) l) eqn:Ex.
      * apply (IH Ht q l Hnd).
      * assert (Hnd' : NoDup (s :: l)).
        { constructor; [| exact Hnd]. intros Hin. apply existsb_eqb_In in Hin. congruence. }
        destruct (IH Ht q (s :: l) Hnd') as [l' [Hl' E]]. exists l'. split; [exact Hl'|].
        unfold g_run in E. rewrite <- E. f_equal. f_equal. cbn [length]. lia.
    + rewrite g_step_close. destruct (existsb (Nat.eqb s) l) eqn:Ex.
      * apply existsb_eqb_In in Ex.
        destruct (IH Ht q _ (filter_out_nodup s l Hnd)) as [l' [Hl' E]]. exists l'. split; [exact Hl'|].
        unfold g_run in E. rewrite <- E. f_equal. f_equal.
        pose proof (filter_out_len s l Hnd Ex). lia.
      * apply (IH Ht q l Hnd).
Qed.

(* One session between its Start and its End, whatever it subscribes to and closes: afterwards the
   connection gauge, the subscription gauge and the bookkeeping map are exactly what they were. *)
Theorem gauges_restored st0 r body :
  reg_get r (g_map st0) = None -> Forall (g_body_op r) body ->
  g_run st0 (GStart r :: body ++ [GEnd r]) = st0.
Proof.
  intros Hfresh Hbody. destruct st0 as [c q m0]. cbn [g_map] in Hfresh.
  unfold g_run. cbn [fold_left g_step g_conn g_req g_map]. rewrite fold_left_app.
  destruct (g_body_run r (c + 1) m0 body Hbody q [] (NoDup_nil _)) as [l' [_ E]].
  cbn [length] in E. replace (q + Z.of_nat 0)%Z with q in E by lia.
  unfold g_run in E. rewrite E. cbn [fold_left g_step g_map g_conn g_req].
  rewrite reg_set_get. f_equal; try lia.
  unfold reg_set. cbn. rewrite Nat.eqb_refl.
  rewrite reg_del_absent; [apply reg_del_absent; exact Hfresh | apply reg_del_get].
Qed.

(* operations of other sessions never look at or change this session's entry *)
Lemma g_step_other st o r : gop_conn o <> r -> reg_get r (g_map (g_step st o)) = reg_get r (g_map st).
Proof.
  intros Hne. destruct o as [x|x s|x s|x]; cbn in *.
  - apply reg_set_other; auto.
  - destruct (reg_get x (g_map st)); [|reflexivity]. destruct (existsb _ _); [reflexivity|]. cbn. apply reg_set_other; auto.
  - destruct (reg_get x (g_map st)); [|reflexivity]. destruct (existsb _ _); [|reflexivity]. cbn. apply reg_set_other; auto.
  - destruct (reg_get x (g_map st)); [|reflexivity]. cbn. apply reg_del_other; auto.
Qed.

Theorem gauges_entry_released st r ops :
  Forall (fun o => gop_conn o <> r) ops ->
  reg_get r (g_map st) <> None ->
  reg_get r (g_map (g_run (g_step st (GEnd r)) ops)) = None.
Proof.
  intros H Hsome.
  assert (E : forall ops st', Forall (fun o => gop_conn o <> r) ops ->
              reg_get r (g_map (g_run st' ops)) = reg_get r (g_map st')).
  { clear. induction ops as [|o t IH]; intros st' H; [reflexivity|].
    inversion H; subst. unfold g_run in *. cbn [fold_left]. rewrite IH by assumption. apply g_step_other; assumption. }
  rewrite E by exact H. cbn. destruct (reg_get r (g_map st)); [cbn; apply reg_del_get | congruence].
Qed.

(** * Joins stay inside the composition *)
Definition joins_under (q : path) (pr : proc) : Prop :=
  forall k j n, pr_code pr k = Join j n -> is_prefix q (p_path j).

Ltac no_joins k H :=
  do 12 (destruct k as [|k]; [cbn in H; try discriminate|]); cbn in H; try discriminate.

Lemma prefix_ext (p : path) i : is_prefix p (p ++ [i]).
Proof. exists [i]. reflexivity. Qed.

Lemma build_joins :
  (forall c p ctx snd rcv, Forall (joins_under p) (build p ctx snd rcv c))
  /\ (forall cs p ctx n R i, Forall (joins_under p) (build_children p ctx n R i cs)).
Proof.
  apply comp_comps_ind.
  - intros k p ctx snd rcv. cbn. constructor; [| constructor].
    intros j0 j n H. cbn in H. no_joins j0 H.
  - intros b p ctx snd rcv. cbn. constructor; [| constructor; [| constructor]];
      intros j0 j n H; cbn in H; no_joins j0 H.
  - intros c IH p ctx snd rcv. cbn [build].
    constructor.
    { intros k j n H. cbn in H. destruct k as [|[|[|[|[|k]]]]]; cbn in H; try discriminate;
        injection H as <- _; cbn; [apply prefix_ext | apply is_prefix_refl | apply is_prefix_refl]. }
    constructor; [intros k j n H; cbn in H; no_joins k H|].
    constructor; [intros k j n H; cbn in H; no_joins k H|].
    eapply Forall_impl; [| apply IH]. intros pr Hj k j n H.
    eapply is_prefix_trans; [apply (prefix_ext p 0) | exact (Hj k j n H)].
  - intros cs IH p ctx snd rcv. cbn [build].
    constructor.
    { intros k j n H. cbn in H. destruct k as [|[|[|[|k]]]]; cbn in H; try discriminate;
        injection H as <- _; cbn; [apply prefix_ext | apply is_prefix_refl]. }
    constructor.
    { intros k j n H. cbn in H. unfold m_hr_code in H.
      repeat match type of H with
      | (if ?b then _ else _) = _ => destruct b
      end; cbv zeta in H; try discriminate. }
    constructor; [intros k j n H; cbn in H; no_joins k H|].
    apply IH.
  - intros. constructor.
  - intros c IHc r IHr p ctx n R i. cbn [build_children].
    apply Forall_app. split.
    { destruct (S i =? n); [constructor|]. constructor; [|constructor].
      intros k j n0 H. cbn in H. destruct k as [|[|[|[|[|k]]]]]; cbn in H; try discriminate.
      - injection H as <- _. cbn. apply prefix_ext.
      - destruct i as [|i]; cbn in H; [discriminate|]. injection H as <- _. cbn. apply is_prefix_refl. }
    constructor.
    { intros k j n0 H. unfold pr_code, m_ms, m_ms_code in H. destruct k as [|[|[|k]]]; try discriminate.
      destruct (S i =? n); discriminate. }
    apply Forall_app. split.
    + eapply Forall_impl; [| apply IHc]. intros pr Hj k j n0 H.
      eapply is_prefix_trans; [apply (prefix_ext p i) | exact (Hj k j n0 H)].
    + apply IHr.
Qed.

(** * Closing the inbound channel *)
Definition top_reader (root : flag) (c : comp) : proc :=
  match c with
  | CSimple k => simple_proc k [0] root top_send top_recv
  | CRouter b => router_main [0] root top_send top_recv b
  | CMw _ => mw_recv [0] root top_send top_recv
  | CMerge cs => m_hr [0] root top_recv (clen cs)
  end.

Definition recv_closed (st : state) : Prop :=
  ch_len (st_ch st top_recv) = 0 /\ ch_closed (st_ch st top_recv) = true.

Lemma top_reader_in root c : In (top_reader root c) (session root c).
Proof. destruct c; cbn; auto. Qed.

Lemma steps_app N k1 k2 a b c : steps N k1 a b -> steps N k2 b c -> steps N (k1 + k2) a c.
Proof. induction 1; cbn; intros; [assumption | eapply steps_S; eauto]. Qed.

Lemma solo_step1 N pr st st' : In pr N -> reachable N st -> solo N pr st st' ->
  steps N 1 st st' /\ reachable N st'.
Proof.
  intros Hin Hr Hs. assert (step N st st') by (eapply step_solo; eauto).
  split; [eapply steps_S; [eassumption | apply steps_0] | eapply reach_step; eauto].
Qed.

(* the reader of the outermost component, idle at its loop head, notices the closed channel and
   (except for a bare SimpleHandler, which simply returns) cancels the component's own context *)
Lemma reader_cancels root c E st :
  wf_comp c -> env_ok root E ->
  reachable (session root c ++ E) st -> recv_closed st ->
  st_pc st (pr_id (top_reader root c)) = 0 ->
  exists k st', steps (session root c ++ E) k st st' /\ reachable (session root c ++ E) st'
    /\ match c with
       | CSimple _ => at_instr st' (top_reader root c) = Exit
       | _ => st_fl st' (root ++ [0]) = true
       end.
Proof.
  intros Hwf He Hr [Hlen Hcl] Hpc.
  set (N := session root c ++ E) in *.
  assert (Hin : In (top_reader root c) N) by (apply in_or_app; left; apply top_reader_in).
  pose proof (session_env_guarded root c E Hwf He) as Hg. fold N in Hg.
  destruct c as [k | b | c' | cs].
  - (* SimpleHandler: returns ErrRecvClosed *)
    set (pr := top_reader root (CSimple k)) in *.
    assert (Hs : solo N pr st (set_pc st (pr_id pr) 5)).
    { eapply solo_recv_closed with (c := top_recv) (n := 5); eauto.
      - unfold at_instr. rewrite Hpc. reflexivity.
      - right; left; reflexivity.
      - left; reflexivity. }
    destruct (solo_step1 N pr _ _ Hin Hr Hs) as [H1 Hr1].
    exists 1, (set_pc st (pr_id pr) 5). split; [exact H1|]. split; [exact Hr1|].
    unfold at_instr. cbn [st_pc set_pc]. rewrite upd_same. reflexivity.
  - (* router: return ErrRecvClosed; defer cancel() *)
    set (pr := top_reader root (CRouter b)) in *.
    set (st1 := set_pc st (pr_id pr) 3).
    assert (Hs1 : solo N pr st st1).
    { eapply solo_recv_closed with (c := top_recv) (n := 3); eauto.
      - unfold at_instr. rewrite Hpc. reflexivity.
      - right; left; reflexivity.
      - left; reflexivity. }
    destruct (solo_step1 N pr _ _ Hin Hr Hs1) as [H1 Hr1].
    assert (Hs2 : solo N pr st1 (set_pc (set_fl st1 (root ++ [0])) (pr_id pr) 4)).
    { eapply solo_cancel. unfold at_instr, st1. cbn [st_pc set_pc]. rewrite upd_same. reflexivity. }
    destruct (solo_step1 N pr _ _ Hin Hr1 Hs2) as [H2 Hr2].
    exists (1 + 1), (set_pc (set_fl st1 (root ++ [0])) (pr_id pr) 4).
    split; [eapply steps_app; eauto|]. split; [exact Hr2|].
    cbn. apply upd_same.
  - (* middleware: errs <- ErrRecvClosed; close(rCh); cancel() *)
    set (pr := top_reader root (CMw c')) in *.
    set (st1 := set_pc st (pr_id pr) 7).
    assert (Hs1 : solo N pr st st1).
    { eapply solo_recv_closed with (c := top_recv) (n := 7); eauto.
      - unfold at_instr. rewrite Hpc. reflexivity.
      - right; left; reflexivity.
      - left; reflexivity. }
    destruct (solo_step1 N pr _ _ Hin Hr Hs1) as [H1 Hr1].
    (* room in errs *)
    pose proof (phi_reachable root N st1 Hg Hr1 (mw_errs [0])) as [HB [_ HC]].
    specialize (HB eq_refl).
    pose proof (sum_over_ge (fun q => pr_pend q (st_pc st1 (pr_id q)) (mw_errs [0])) N pr Hin) as Hge.
    cbn beta in Hge.
    assert (Hp7 : pr_pend pr (st_pc st1 (pr_id pr)) (mw_errs [0]) = 1).
    { unfold st1. cbn [st_pc set_pc]. rewrite upd_same. cbn. unfold mw_recv_pend.
      destruct (chan_eq_dec (mw_errs [0]) (mw_errs [0])); [reflexivity | congruence]. }
    set (st2 := set_pc (set_ch st1 (mw_errs [0]) (mkCh (S (ch_len (st_ch st1 (mw_errs [0])))) false)) (pr_id pr) 8).
    assert (Hs2 : solo N pr st1 st2).
    { eapply solo_send with (c := mw_errs [0]) (ns := [8]) (n := 8).
      - unfold at_instr, st1. cbn [st_pc set_pc]. rewrite upd_same. reflexivity.
      - left; reflexivity.
      - left; reflexivity.
      - apply HC. discriminate.
      - unfold total_pend in HB. cbn [c_cap mw_errs] in *. lia. }
    destruct (solo_step1 N pr _ _ Hin Hr1 Hs2) as [H2 Hr2].
    set (st3 := set_pc (set_ch st2 (mw_rCh [0]) (mkCh (ch_len (st_ch st2 (mw_rCh [0]))) true)) (pr_id pr) 9).
    assert (Hs3 : solo N pr st2 st3).
    { eapply solo_close. unfold at_instr, st2. cbn [st_pc set_pc set_ch]. rewrite upd_same. reflexivity. }
    destruct (solo_step1 N pr _ _ Hin Hr2 Hs3) as [H3 Hr3].
    set (st4 := set_pc (set_fl st3 (root ++ [0])) (pr_id pr) 10).
    assert (Hs4 : solo N pr st3 st4).
    { eapply solo_cancel. unfold at_instr, st3. cbn [st_pc set_pc set_ch]. rewrite upd_same. reflexivity. }
    destruct (solo_step1 N pr _ _ Hin Hr3 Hs4) as [H4 Hr4].
    exists (1 + (1 + (1 + 1))), st4.
    split; [eapply steps_app; [eassumption|]; eapply steps_app; [eassumption|]; eapply steps_app; eassumption|].
    split; [exact Hr4|]. cbn. apply upd_same.
  - (* merge: handleRecv returns; defer cancel(); closeRecvs *)
    set (pr := top_reader root (CMerge cs)) in *.
    set (n := clen cs) in *.
    set (st1 := set_pc st (pr_id pr) (7 + n)).
    assert (Hs1 : solo N pr st st1).
    { eapply solo_recv_closed with (c := top_recv) (n := 7 + n); eauto.
      - unfold at_instr. rewrite Hpc. reflexivity.
      - right; left; reflexivity.
      - left; reflexivity. }
    destruct (solo_step1 N pr _ _ Hin Hr Hs1) as [H1 Hr1].
    assert (Hs2 : solo N pr st1 (set_pc (set_fl st1 (root ++ [0])) (pr_id pr) (8 + n))).
    { eapply solo_cancel. unfold at_instr, st1. cbn [st_pc set_pc]. rewrite upd_same.
      cbn [pr_code pr top_reader m_hr]. apply hr_code_cancel. }
    destruct (solo_step1 N pr _ _ Hin Hr1 Hs2) as [H2 Hr2].
    exists (1 + 1), (set_pc (set_fl st1 (root ++ [0])) (pr_id pr) (8 + n)).
    split; [eapply steps_app; eauto|]. split; [exact Hr2|].
    cbn. apply upd_same.
Qed.

Definition derives (c : comp) : Prop := match c with CSimple _ => False | _ => True end.

(* once the outermost component's own context (root ++ [0]) is cancelled - by whichever of its
   goroutines returns first - every process of the session can run to its end, whatever the peer does *)
Theorem derived_cancel_finishes root c E st :
  wf_comp c -> derives c -> env_ok root E ->
  reachable (session root c ++ E) st -> st_fl st (root ++ [0]) = true ->
  exists k st', steps (session root c ++ E) k st st'
    /\ k <= total_meas (session root c ++ E) st
    /\ forall pr, In pr (session root c) -> at_instr st' pr = Exit.
Proof.
  intros Hwf Hd He Hr Hfl.
  pose proof (session_env_guarded root c E Hwf He) as Hg.
  destruct (can_finish_sub root (root ++ [0]) (session root c ++ E) (session root c) Hg) with (m := total_meas (session root c ++ E) st) (st := st)
    as [k [st' [Hs [Hk [Hx _]]]]]; auto.
  - intros pr Hin. apply in_or_app. left. exact Hin.
  - intros pr Hin k.
    assert (Hneed : need (root ++ [0]) root c) by (destruct c; cbn in *; [contradiction | | |]; apply is_prefix_refl).
    pose proof (proj1 (build_procs_ok (root ++ [0])) c [0] root top_send top_recv Hneed eq_refl eq_refl Hwf) as HF.
    rewrite Forall_forall in HF. destruct (HF pr Hin) as [Hok _]. apply Hok.
  - intros pr Hin k j n Hj prj Hprj Hid.
    apply in_app_or in Hprj. destruct Hprj as [Hprj|Hprj]; [exact Hprj|]. exfalso.
    pose proof (proj1 build_joins c [0] root top_send top_recv) as HJ.
    rewrite Forall_forall in HJ. specialize (HJ pr Hin k j n Hj).
    destruct He as [_ _ Hnames _]. rewrite Forall_forall in Hnames.
    apply (Hnames prj Hprj). rewrite Hid. exact HJ.
  - exists k, st'. auto.
Qed.

(* With a peer that keeps draining (or any other environment), closing the inbound channel while the
   outermost reader is idle leads to the exit of every process of the session.  For a reader that is
   in the middle of handling a message the pipeline has to drain first; that part is exercised by the
   harness (ending "close", draining peer) and is not proved here. *)
Theorem recv_close_terminates root c E st :
  wf_comp c -> env_ok root E ->
  reachable (session root c ++ E) st -> recv_closed st ->
  st_pc st (pr_id (top_reader root c)) = 0 ->
  exists k st', steps (session root c ++ E) k st st'
    /\ forall pr, In pr (session root c) -> at_instr st' pr = Exit.
Proof.
  intros Hwf He Hr Hrc Hpc.
  destruct (reader_cancels root c E st Hwf He Hr Hrc Hpc) as [k1 [st1 [Hs1 [Hr1 Hfin]]]].
  assert (Hder : derives c -> exists k st', steps (session root c ++ E) k st st'
    /\ forall pr, In pr (session root c) -> at_instr st' pr = Exit).
  { intros Hd. assert (Hfl : st_fl st1 (root ++ [0]) = true) by (destruct c; [contradiction | | |]; exact Hfin).
    destruct (derived_cancel_finishes root c E st1 Hwf Hd He Hr1 Hfl) as [k2 [st2 [Hs2 [_ Hx]]]].
    exists (k1 + k2), st2. split; [eapply steps_app; eauto | exact Hx]. }
  destruct c as [k | b | c' | cs]; try (apply Hder; exact I).
  exists k1, st1. split; [exact Hs1|]. intros pr [<-|[]]. exact Hfin.
Qed.

(* every way of a middleware session to its end passes the second cancel (pc 4), after which
   ServeNostrEnd (line 929: gauges, bookkeeping) runs *)
Theorem mw_exit_runs_end p ctx inner k n :
  In n (succs (mw_main_code p ctx inner k)) -> mw_main_code p ctx inner n = Exit -> k = 4.
Proof.
  intros Hin Hx.
  destruct k as [|[|[|[|[|k]]]]]; cbn in Hin; try reflexivity;
    repeat (destruct Hin as [<-|Hin]; [cbn in Hx; discriminate|]); try contradiction.
Qed.

(** * The tie to the source *)
Theorem covers_ok : covers = true.
Proof. vm_compute. reflexivity. Qed.

(** * The hypotheses are satisfiable: the composition of cmd/mocrelay/main.go *)
Definition prod_comp : comp :=
  CMw (CMerge (CCons (CSimple SCache) (CCons (CRouter 100) (CCons (CSimple SSqlite) CNil)))).

Example prod_wf : wf_comp prod_comp.
Proof. cbn. repeat split; lia. Qed.

Example prod_guarded : guarded [5] (session [5] prod_comp ++ [feeder [5] 3 true; canceller [5]; drainer [5]]).
Proof. apply session_env_guarded; [exact prod_wf | exact (peers_env_ok [5] 3 true true)]. Qed.

Example prod_size : length (session [5] prod_comp) = 15.
Proof. reflexivity. Qed.
