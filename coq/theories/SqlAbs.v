(* SqlAbs.v — C06: what the tables hold after a history, in terms of the
   specification ([stored], [deleted]).  Main results: [abs_run] (the rows are
   exactly the stored events of the history, the tombstones exactly those of
   its deletion requests) and [live_rows_are_stored_not_deleted]. *)
From Moc Require Import Base Match Sql SqlSpec SqlLemmas SqlInv.
From Moc.Gen Require Import GenMsg GenSql.
Open Scope Z_scope.

(* ------------------------------------------------------------------ *)
(** * [stored] when one more event arrives *)

Lemma stored_in es x : stored es x -> In x es.
Proof. intros [H _]. exact H. Qed.

Lemma stored_storable es x : stored es x -> storable x = true.
Proof. intros [_ [H _]]. exact H. Qed.

(** the stored version of an address is at least as new as every version *)
Lemma stored_newest es x a y :
  stored es x -> address x = Some a -> In y es -> address y = Some a -> ev_ts y <= ev_ts x.
Proof.
  intros [_ [_ H]] Ax Hy Ay. rewrite Ax in H. destruct H as [pre [post [E [Hpre Hpost]]]].
  subst es. apply in_app_iff in Hy. destruct Hy as [Hy|[<- |Hy]].
  - apply Z.lt_le_incl. apply Hpre; [assumption | now apply has_address_iff].
  - lia.
  - apply Hpost; [assumption | now apply has_address_iff].
Qed.

Lemma address_storable x a : address x = Some a -> storable x = true.
Proof.
  unfold address, storable.
  destruct (g_event_type_cases (ev_kind x)) as [H|[H|[H|H]]];
    destruct H as [_ [_ [-> [-> ->]]]]; simpl; try discriminate; try reflexivity.
  destruct (d_value x); [reflexivity | discriminate].
Qed.

(** L1: an event other than the new one that is stored afterwards was stored before *)
Lemma stored_snoc_old es e y :
  stored (es ++ [e]) y -> y <> e ->
  stored es y /\ (forall a, address y = Some a -> address e = Some a -> ev_ts e <= ev_ts y).
Proof.
  intros [Hin [Hst H]] Ne.
  assert (Hin' : In y es).
  { apply in_app_iff in Hin. destruct Hin as [Hin|[Hin|[]]]; [assumption | congruence]. }
  destruct (address y) as [a|] eqn:Ay.
  - destruct H as [pre [post [E [Hpre Hpost]]]].
    apply snoc_split in E. destruct E as [[_ [E _]]|[post' [-> ->]]]; [congruence|].
    split.
    + split; [assumption|]. split; [assumption|]. rewrite Ay.
      exists pre, post'. split; [reflexivity|]. split; [assumption|].
      intros z Hz. apply Hpost. apply in_app_iff. now left.
    + intros a0 E0 Ae. inversion E0; subst a0. apply Hpost.
      * apply in_app_iff. right. now left.
      * now apply has_address_iff.
  - split; [|discriminate]. split; [assumption|]. split; [assumption|]. now rewrite Ay.
Qed.

(** L2: a stored event stays stored unless the new event is a newer version of its address *)
Lemma stored_snoc_keep es e y :
  stored es y -> (forall a, address y = Some a -> address e = Some a -> ev_ts e <= ev_ts y) ->
  stored (es ++ [e]) y.
Proof.
  intros [Hin [Hst H]] He. split; [apply in_app_iff; now left|]. split; [assumption|].
  destruct (address y) as [a|] eqn:Ay; [|exact I].
  destruct H as [pre [post [-> [Hpre Hpost]]]].
  exists pre, (post ++ [e]). split; [now rewrite <- app_assoc|]. split; [assumption|].
  intros z Hz Az. apply in_app_iff in Hz. destruct Hz as [Hz|[<- |[]]].
  - now apply Hpost.
  - apply (He a); [reflexivity | now apply has_address_iff].
Qed.

(** L3: a new event (not in the history) is stored iff it is storable and
    strictly newer than every version of its address *)
Lemma stored_snoc_new es e :
  ~ In e es ->
  (stored (es ++ [e]) e <->
   storable e = true /\ forall a, address e = Some a -> forall y, In y es -> address y = Some a -> ev_ts y < ev_ts e).
Proof.
  intro Nin. split.
  - intros [_ [Hst H]]. split; [assumption|]. intros a Ae y Hy Ay. rewrite Ae in H.
    destruct H as [pre [post [E [Hpre _]]]].
    apply snoc_split in E. destruct E as [[_ [_ ->]]|[post' [_ ->]]].
    + apply Hpre; [assumption | now apply has_address_iff].
    + exfalso. apply Nin. apply in_app_iff. right. now left.
  - intros [Hst H]. split; [apply in_app_iff; right; now left|]. split; [assumption|].
    destruct (address e) as [a|] eqn:Ae; [|exact I].
    exists es, []. split; [reflexivity|]. split.
    + intros y Hy Ay. apply (H a); auto. now apply has_address_iff.
    + intros y [].
Qed.

(** L4: re-inserting an event of the history changes nothing *)
Lemma stored_snoc_dup es e y : In e es -> (stored (es ++ [e]) y <-> stored es y).
Proof.
  intro He. split.
  - intros [Hin [Hst H]].
    assert (Hin' : In y es).
    { apply in_app_iff in Hin. destruct Hin as [Hin|[<- |[]]]; assumption. }
    split; [assumption|]. split; [assumption|].
    destruct (address y) as [a|] eqn:Ay; [|exact I].
    destruct H as [pre [post [E [Hpre Hpost]]]].
    apply snoc_split in E. destruct E as [[_ [-> ->]]|[post' [-> ->]]].
    + exfalso. assert (ev_ts e < ev_ts e); [|lia]. apply Hpre; [assumption | now apply has_address_iff].
    + exists pre, post'. split; [reflexivity|]. split; [assumption|].
      intros z Hz. apply Hpost. apply in_app_iff. now left.
  - intro S. apply stored_snoc_keep; [assumption|].
    intros a Ay Ae. now apply (stored_newest es y a e).
Qed.

(* ------------------------------------------------------------------ *)
(** * getEventKey in terms of the specification's classes *)

Lemma index_of_spec {A} (p : A -> bool) l : forall i, 0 <= i ->
  (find p l = None /\ index_of p l i = -1) \/ (exists x, find p l = Some x /\ i <= index_of p l i).
Proof.
  induction l as [|x l IH]; intros i Hi; simpl.
  - left. auto.
  - destruct (p x).
    + right. exists x. split; [reflexivity | lia].
    + destruct (IH (i + 1)) as [H|[y [H1 H2]]]; [lia | now left | right].
      exists y. split; [assumption | lia].
Qed.

Lemma tag_value_short (t : tag) : zlen t <= 1 -> tag_value t = [].
Proof.
  destruct t as [|a [|b t']]; simpl; try reflexivity. unfold zlen. simpl. lia.
Qed.

Definition key_of_spec (seed : Z) (e : event) : option ekey :=
  if storable e then
    match address e with
    | None => Some (KReg seed (ev_ts e mod two32) (ev_id e))
    | Some (ARep k pk) => Some (KAddr seed pk (addr2 k pk))
    | Some (AAddr k pk d) => Some (KAddr seed pk (addr3 k pk d))
    end
  else None.

Lemma get_event_key_spec seed e : get_event_key seed e = key_of_spec seed e.
Proof.
  unfold get_event_key, key_of_spec, storable, address, d_value.
  change (fun t : list str => match t with [] => false | n :: _ => str_eqb n s_d end) with is_d_tag.
  destruct (g_event_type_cases (ev_kind e)) as [H|[H|[H|H]]];
    destruct H as [-> [_ [-> [-> ->]]]]; simpl; try reflexivity.
  rewrite g_sql_no_d_tag_spec.
  assert (H0 : 0 <= 0) by lia. change (@find (list str)) with (@find tag).
  destruct (index_of_spec is_d_tag (ev_tags e) 0 H0) as [[F I]|[t [F I]]]; rewrite F.
  - rewrite I. reflexivity.
  - destruct (index_of is_d_tag (ev_tags e) 0 <? 0) eqn:L; [apply Z.ltb_lt in L; lia|].
    simpl. rewrite g_sql_d_has_value_spec.
    destruct (1 <? zlen t) eqn:L1; [reflexivity|].
    apply Z.ltb_ge in L1. now rewrite tag_value_short.
Qed.

Lemma key_some_storable seed e k : get_event_key seed e = Some k -> storable e = true.
Proof. rewrite get_event_key_spec. unfold key_of_spec. destruct (storable e); [reflexivity | discriminate]. Qed.

Lemma storable_key_some seed e : storable e = true -> exists k, get_event_key seed e = Some k.
Proof.
  rewrite get_event_key_spec. unfold key_of_spec. intros ->.
  destruct (address e) as [[k pk|k pk d]|]; eexists; reflexivity.
Qed.

Lemma address_pk e a : address e = Some a -> match a with ARep _ pk => pk = ev_pk e | AAddr _ pk _ => pk = ev_pk e end.
Proof.
  unfold address. destruct (sp_replaceable (ev_kind e)); [intro E; inversion E; reflexivity|].
  destruct (sp_addressable (ev_kind e)); [|discriminate].
  destruct (d_value e); [|discriminate]. intro E; inversion E; reflexivity.
Qed.

(** same key <-> same address (or, for regular events, same id and same
    truncated timestamp) *)
Lemma key_eq_address seed x y k :
  colon_free (ev_pk x) ->
  get_event_key seed x = Some k -> get_event_key seed y = Some k ->
  (exists a, address x = Some a /\ address y = Some a) \/
  (address x = None /\ address y = None /\ ev_id x = ev_id y).
Proof.
  intro Cx. rewrite !get_event_key_spec. unfold key_of_spec.
  destruct (storable x); [|discriminate]. destruct (storable y); [|discriminate].
  destruct (address x) as [[k1 p1|k1 p1 d1]|] eqn:Ax; destruct (address y) as [[k2 p2|k2 p2 d2]|] eqn:Ay;
    intros E1 E2; rewrite <- E2 in E1; inversion E1; subst.
  - left. apply addr2_inj in H1. subst. eauto.
  - exfalso. apply address_pk in Ax. subst. eapply addr2_addr3_neq; eauto.
  - exfalso. apply address_pk in Ax. subst. symmetry in H1. eapply addr2_addr3_neq; eauto.
  - left. apply address_pk in Ax. subst. apply addr3_inj in H1; [|assumption]. destruct H1; subst. eauto.
  - right. auto.
Qed.

Lemma address_key_eq seed x y a :
  address x = Some a -> address y = Some a -> get_event_key seed x = get_event_key seed y.
Proof.
  intros Ax Ay. rewrite !get_event_key_spec. unfold key_of_spec.
  rewrite (address_storable x a Ax), (address_storable y a Ay), Ax, Ay. reflexivity.
Qed.

Lemma key_class_address seed x k :
  get_event_key seed x = Some k -> key_class k = true -> exists a, address x = Some a.
Proof.
  rewrite get_event_key_spec. unfold key_of_spec. destruct (storable x); [|discriminate].
  destruct (address x) as [a|]; [eauto|]. intro E; inversion E; subst. discriminate.
Qed.

Lemma address_kind5 x a : address x = Some a -> ev_kind x <> 5.
Proof.
  unfold address. intros H E. rewrite E in H. discriminate.
Qed.

(* ------------------------------------------------------------------ *)
(** * gate-valid events *)

Definition gv (e : event) : Prop := gate_valid_event e = true.

Lemma gv_facts e : gv e ->
  hex_ok (ev_id e) = true /\ hexl (ev_id e) = ev_id e /\
  hex_ok (ev_pk e) = true /\ hexl (ev_pk e) = ev_pk e /\ colon_free (ev_pk e) /\
  hex_ok (ev_sig e) = true /\ hexl (ev_sig e) = ev_sig e.
Proof.
  unfold gv, gate_valid_event. intro H.
  apply land_true in H. destruct H as [H _].
  apply land_true in H. destruct H as [H H3].
  apply land_true in H. destruct H as [H1 H2].
  apply (lower_hex_ok 64) in H1; [|reflexivity].
  apply (lower_hex_ok 64) in H2; [|reflexivity].
  apply (lower_hex_ok 128) in H3; [|reflexivity].
  tauto.
Qed.

Lemma gv_insert_params seed e : gv e ->
  insert_params seed e = match get_event_key seed e with Some k => Some (k, e) | None => None end.
Proof.
  intro G. destruct (gv_facts e G) as [A [_ [B [_ [_ [C _]]]]]].
  unfold insert_params. destruct (get_event_key seed e); [|reflexivity]. now rewrite A, B, C.
Qed.

Lemma gv_event_of_row k e : gv e -> event_of_row (row_of k e) (prow_of k e) = e.
Proof.
  intro G. destruct (gv_facts e G) as [_ [A [_ [B [_ [_ C]]]]]].
  unfold event_of_row, row_of, prow_of. simpl. rewrite A, B, C. now destruct e.
Qed.

(* ------------------------------------------------------------------ *)
(** * Abstraction: tables versus history *)

Section Abstraction.
Variable seed : Z.

(** one event through buildInsertEventsParams and the loop body *)
Definition ins (s : db) (e : event) : db :=
  match insert_params seed e with
  | Some ke => fst (insert_event seed s ke)
  | None => s
  end.

Lemma insert_batch_fold b : forall s, insert_batch seed s b = fold_left ins b s.
Proof.
  intro s. unfold insert_batch. rewrite g_sql_no_params_spec, insert_events_fst.
  assert (F : forall s, fold_left (fun s ke => fst (insert_event seed s ke)) (filter_map (insert_params seed) b) s
                        = fold_left ins b s).
  { induction b as [|e b IH]; intro s0; simpl; [reflexivity|].
    unfold ins at 2. destruct (insert_params seed e); simpl; apply IH. }
  destruct (zlen (filter_map (insert_params seed) b) =? 0) eqn:Z0; [|apply F].
  rewrite <- F. apply Z.eqb_eq in Z0. unfold zlen in Z0.
  destruct (filter_map (insert_params seed) b); [reflexivity | simpl in Z0; lia].
Qed.

Lemma run_fold h : forall s, run seed s h = fold_left ins (concat h) s.
Proof.
  unfold run. induction h as [|b h IH]; intro s; simpl; [reflexivity|].
  rewrite fold_left_app, IH, insert_batch_fold. reflexivity.
Qed.

Record Abs (es : list event) (s : db) : Prop := mkAbs {
  abs_inv : Inv s;
  abs_rows : forall r, In r (d_events s) ->
     exists x, stored es x /\ get_event_key seed x = Some (r_key r) /\ r = row_of (r_key r) x /\
               In (prow_of (r_key r) x) (d_payloads s);
  abs_stored : forall x, stored es x -> exists k, get_event_key seed x = Some k /\ In (row_of k x) (d_events s);
  abs_cover : forall y k, In y es -> get_event_key seed y = Some k -> exists r, In r (d_events s) /\ r_key r = k;
  abs_dkeys : forall kp, In kp (d_dkeys s) <-> exists d, In d es /\ In kp (k5_dkeys seed d);
  abs_dids : forall ip, In ip (d_dids s) <-> exists d, In d es /\ In ip (k5_dids d)
}.

Lemma abs_empty : Abs [] empty_db.
Proof.
  constructor; simpl.
  - apply inv_empty.
  - intros r [].
  - intros x [[] _].
  - intros y k [].
  - intro kp. split; [intros [] | intros [d [[] _]]].
  - intro ip. split; [intros [] | intros [d [[] _]]].
Qed.

Lemma k5_dkeys_not_k5 e : ev_kind e <> 5 -> k5_dkeys seed e = [].
Proof.
  intro N. unfold k5_dkeys. rewrite g_sql_dkey_not_k5_spec.
  destruct (ev_kind e =? 5) eqn:E; [apply Z.eqb_eq in E; contradiction | reflexivity].
Qed.

Lemma k5_dids_not_k5 e : ev_kind e <> 5 -> k5_dids e = [].
Proof.
  intro N. unfold k5_dids. rewrite g_sql_did_not_k5_spec.
  destruct (ev_kind e =? 5) eqn:E; [apply Z.eqb_eq in E; contradiction | reflexivity].
Qed.

Lemma not_storable_kind5 e : storable e = false -> ev_kind e <> 5.
Proof.
  unfold storable. intros H E. rewrite E in H. discriminate.
Qed.

Lemma NoDup_map_inj {A B} (f : A -> B) l a b :
  NoDup (List.map f l) -> In a l -> In b l -> f a = f b -> a = b.
Proof.
  induction l as [|x l IH]; simpl; intros ND Ha Hb E; [destruct Ha|].
  inversion ND as [|? ? Hn ND']; subst.
  destruct Ha as [<- |Ha]; destruct Hb as [<- |Hb]; auto.
  - exfalso. apply Hn. rewrite E. now apply in_map.
  - exfalso. apply Hn. rewrite <- E. now apply in_map.
Qed.

(** two stored events with one key are one event *)
Lemma abs_key_unique es s x y k :
  Abs es s -> Forall gv es -> ids_functional es ->
  stored es x -> stored es y -> get_event_key seed x = Some k -> get_event_key seed y = Some k -> x = y.
Proof.
  intros A G F Sx Sy Kx Ky.
  destruct (abs_stored es s A x Sx) as [k1 [K1 R1]]. destruct (abs_stored es s A y Sy) as [k2 [K2 R2]].
  rewrite Kx in K1. rewrite Ky in K2. inversion K1; inversion K2; subst k1 k2.
  assert (E : row_of k x = row_of k y).
  { apply (NoDup_map_inj r_key (d_events s)); auto. apply (inv_keys s (abs_inv es s A)). }
  rewrite Forall_forall in G.
  pose proof (stored_in _ _ Sx) as Ix. pose proof (stored_in _ _ Sy) as Iy.
  destruct (gv_facts x (G x Ix)) as [_ [Hx _]]. destruct (gv_facts y (G y Iy)) as [_ [Hy _]].
  apply F; auto. unfold row_of in E. inversion E. congruence.
Qed.

(** the insertion step *)
Lemma abs_step es s e :
  Abs es s -> Forall gv (es ++ [e]) -> ids_functional (es ++ [e]) -> Abs (es ++ [e]) (ins s e).
Proof.
  intros A G F.
  assert (Ge : gv e). { rewrite Forall_forall in G. apply G. apply in_app_iff. right. now left. }
  assert (Ges : Forall gv es). { apply Forall_app in G. tauto. }
  assert (Fes : ids_functional es).
  { intros x y Hx Hy. apply F; apply in_app_iff; now left. }
  pose proof (abs_inv es s A) as I.
  unfold ins. rewrite (gv_insert_params seed e Ge).
  destruct (get_event_key seed e) as [k|] eqn:K.
  2:{ (* not stored at all: ephemeral, or addressable without d *)
    assert (Ns : storable e = false).
    { destruct (storable e) eqn:S; [|reflexivity]. destruct (storable_key_some seed e S) as [k K']. congruence. }
    assert (Ae : address e = None).
    { destruct (address e) as [a|] eqn:Ae; [|reflexivity]. apply address_storable in Ae. congruence. }
    constructor; try assumption.
    - intros r Hr. destruct (abs_rows es s A r Hr) as [x [S [Kx [Er Hp]]]].
      exists x. split; [|auto]. apply stored_snoc_keep; [assumption|]. intros a _ Ae'. congruence.
    - intros x S. assert (Ne : x <> e). { intros ->. apply stored_storable in S. congruence. }
      apply stored_snoc_old in S; [|assumption]. now apply (abs_stored es s A).
    - intros y k Hy Ky. apply in_app_iff in Hy. destruct Hy as [Hy|[<- |[]]]; [|congruence].
      now apply (abs_cover es s A y).
    - intro kp. rewrite (abs_dkeys es s A). split.
      + intros [d [H1 H2]]. exists d. split; [apply in_app_iff; now left | assumption].
      + intros [d [H1 H2]]. apply in_app_iff in H1. destruct H1 as [H1|[<- |[]]]; [eauto|].
        rewrite k5_dkeys_not_k5 in H2; [destruct H2 | now apply not_storable_kind5].
    - intro ip. rewrite (abs_dids es s A). split.
      + intros [d [H1 H2]]. exists d. split; [apply in_app_iff; now left | assumption].
      + intros [d [H1 H2]]. apply in_app_iff in H1. destruct H1 as [H1|[<- |[]]]; [eauto|].
        rewrite k5_dids_not_k5 in H2; [destruct H2 | now apply not_storable_kind5]. }
  pose proof (key_some_storable seed e k K) as Se.
  pose proof (get_event_key_class seed e k K) as C.
  destruct (gv_facts e Ge) as [_ [Hide [_ [Hpke [Cfe _]]]]].
  (* tombstone bookkeeping, used when the row is inserted or replaced *)
  assert (DK : forall kp, In kp (fold_left (fun l x => set_add dkey_eqb x l) (k5_dkeys seed e) (d_dkeys s)) <->
                          exists d, In d (es ++ [e]) /\ In kp (k5_dkeys seed d)).
  { intro kp. rewrite (fold_set_add_In dkey_eqb dkey_eqb_eq), (abs_dkeys es s A). split.
    - intros [[d [H1 H2]]|H]; [exists d | exists e]; split; auto; apply in_app_iff; [now left | right; now left].
    - intros [d [H1 H2]]. apply in_app_iff in H1. destruct H1 as [H1|[<- |[]]]; eauto. }
  assert (DI : forall ip, In ip (fold_left (fun l x => set_add did_eqb x l) (k5_dids e) (d_dids s)) <->
                          exists d, In d (es ++ [e]) /\ In ip (k5_dids d)).
  { intro ip. rewrite (fold_set_add_In did_eqb did_eqb_eq), (abs_dids es s A). split.
    - intros [[d [H1 H2]]|H]; [exists d | exists e]; split; auto; apply in_app_iff; [now left | right; now left].
    - intros [d [H1 H2]]. apply in_app_iff in H1. destruct H1 as [H1|[<- |[]]]; eauto. }
  pose proof (insert_event_inv seed s k e I C) as I'.
  pose proof (upsert_spec (d_events s) (row_of k e) (inv_keys s I)) as U.
  unfold insert_event in *. destruct (upsert (d_events s) (row_of k e)) as [evs u] eqn:EU.
  destruct u as [|old|].
  - (* ---- a new row ---- *)
    destruct U as [Hfresh ->]. simpl in *.
    assert (Nk : forall y, In y es -> get_event_key seed y <> Some k).
    { intros y Hy Ky. destruct (abs_cover es s A y k Hy Ky) as [r [Hr Er]]. now apply (Hfresh r Hr). }
    assert (Nin : ~ In e es). { intro H. now apply (Nk e H). }
    assert (Se' : stored (es ++ [e]) e).
    { apply stored_snoc_new; [assumption|]. split; [assumption|].
      intros a Ae y Hy Ay. exfalso. apply (Nk y Hy). rewrite <- K. now apply (address_key_eq seed y e a). }
    assert (Keep : forall x, stored es x -> stored (es ++ [e]) x).
    { intros x S. apply stored_snoc_keep; [assumption|]. intros a Ax Ae. exfalso.
      apply (Nk x (stored_in _ _ S)). rewrite <- K. now apply (address_key_eq seed x e a). }
    constructor; simpl; try assumption.
    + intros r Hr. apply in_app_iff in Hr. destruct Hr as [Hr|[<- |[]]].
      * destruct (abs_rows es s A r Hr) as [x [S [Kx [Er Hp]]]].
        exists x. split; [now apply Keep|]. split; [assumption|]. split; [assumption|].
        apply in_app_iff. now left.
      * exists e. simpl. split; [assumption|]. split; [assumption|]. split; [reflexivity|].
        apply in_app_iff. right. now left.
    + intros x S. destruct (event_dec x e) as [-> |Ne].
      * exists k. split; [assumption|]. apply in_app_iff. right. now left.
      * apply stored_snoc_old in S; [|assumption]. destruct S as [S _].
        destruct (abs_stored es s A x S) as [k' [Kx Hr]]. exists k'. split; [assumption|].
        apply in_app_iff. now left.
    + intros y k' Hy Ky. apply in_app_iff in Hy. destruct Hy as [Hy|[<- |[]]].
      * destruct (abs_cover es s A y k' Hy Ky) as [r [Hr Er]]. exists r. split; [|assumption].
        apply in_app_iff. now left.
      * exists (row_of k e). split; [apply in_app_iff; right; now left|]. simpl. congruence.
  - (* ---- a newer version replaces the row ---- *)
    destruct U as [Hold [Kold [Gd [Hmap Hin]]]]. simpl in Kold. simpl in *. rewrite Kold in *.
    destruct (abs_rows es s A old Hold) as [x0 [S0 [K0 [E0 P0]]]]. rewrite Kold in *.
    pose proof (stored_in _ _ S0) as In0.
    assert (G0 : gv x0). { rewrite Forall_forall in Ges. now apply Ges. }
    destruct (gv_facts x0 G0) as [_ [Hid0 [_ [Hpk0 [Cf0 _]]]]].
    unfold upsert_guard in Gd. rewrite E0 in Gd. simpl in Gd.
    apply andb_true_iff in Gd. destruct Gd as [Gd Gts]. apply andb_true_iff in Gd. destruct Gd as [Gid Gk].
    apply Z.ltb_lt in Gts.
    assert (KC : key_class k = true).
    { pose proof (inv_class s I old Hold) as X. rewrite E0 in X. simpl in X. congruence. }
    destruct (key_class_address seed x0 k K0 KC) as [a A0].
    assert (Ae : address e = Some a).
    { destruct (key_eq_address seed x0 e k Cf0 K0 K) as [[a' [X Y]]|[X _]]; congruence. }
    assert (Nin : ~ In e es).
    { intro H. pose proof (stored_newest es x0 a e S0 A0 H Ae). lia. }
    assert (Se' : stored (es ++ [e]) e).
    { apply stored_snoc_new; [assumption|]. split; [assumption|].
      intros a' Ae' y Hy Ay. rewrite Ae in Ae'. inversion Ae'; subst a'.
      pose proof (stored_newest es x0 a y S0 A0 Hy Ay). lia. }
    constructor; simpl; try assumption.
    + intros r Hr. apply Hin in Hr. destruct Hr as [[Hr Nr]| ->].
      * destruct (abs_rows es s A r Hr) as [x [S [Kx [Er Hp]]]]. simpl in Nr.
        exists x. split; [|split; [assumption|split; [assumption|]]].
        -- apply stored_snoc_keep; [assumption|]. intros a' Ax Ae'. exfalso. apply Nr.
           assert (X : get_event_key seed x = get_event_key seed e) by now apply (address_key_eq seed x e a').
           congruence.
        -- apply in_app_iff. left. apply filter_In. split; [assumption|]. simpl.
           apply negb_true_iff, ekey_eqb_neq. assumption.
      * exists e. simpl. split; [assumption|]. split; [assumption|]. split; [reflexivity|].
        apply in_app_iff. right. now left.
    + intros x S. destruct (event_dec x e) as [-> |Ne].
      * exists k. split; [assumption|]. apply Hin. now right.
      * apply stored_snoc_old in S; [|assumption]. destruct S as [S Hts].
        destruct (abs_stored es s A x S) as [k' [Kx Hr]]. exists k'. split; [assumption|].
        apply Hin. left. split; [assumption|]. simpl. intros ->.
        assert (x = x0) by (eapply abs_key_unique; eauto). subst x.
        specialize (Hts a A0 Ae). lia.
    + intros y k' Hy Ky. apply in_app_iff in Hy. destruct Hy as [Hy|[<- |[]]].
      * destruct (abs_cover es s A y k' Hy Ky) as [r [Hr Er]].
        destruct (ekey_dec k' k) as [-> |Nk].
        -- exists (row_of k e). split; [apply Hin; now right | reflexivity].
        -- exists r. split; [|assumption]. apply Hin. left. split; [assumption|]. simpl. congruence.
      * exists (row_of k e). split; [apply Hin; now right|]. simpl. congruence.
  - (* ---- conflict without update: the state is unchanged ---- *)
    destruct U as [-> [old [Hold [Kold Gd]]]]. simpl in Kold. simpl.
    assert (Es : mkDb (d_seed s) (d_events s) (d_payloads s) (d_tags s) (d_dkeys s) (d_dids s) = s) by now destruct s.
    rewrite Es. clear I' DK DI.
    destruct (abs_rows es s A old Hold) as [x0 [S0 [K0 [E0 P0]]]]. rewrite Kold in *.
    pose proof (stored_in _ _ S0) as In0.
    assert (G0 : gv x0). { rewrite Forall_forall in Ges. now apply Ges. }
    destruct (gv_facts x0 G0) as [_ [Hid0 [_ [Hpk0 [Cf0 _]]]]].
    (* either [e] is already in the history, or it is an older version of x0's address *)
    assert (Cases : In e es \/ (~ In e es /\ exists a, address x0 = Some a /\ address e = Some a /\ ev_ts e <= ev_ts x0)).
    { destruct (in_dec event_dec e es) as [H|H]; [now left | right]. split; [assumption|].
      assert (Nid : ev_id x0 <> ev_id e).
      { intro X. apply H. assert (x0 = e); [|now subst].
        apply F; auto; apply in_app_iff; [now left | right; now left]. }
      unfold upsert_guard in Gd. rewrite E0 in Gd. simpl in Gd. rewrite Hid0, Hide in Gd.
      assert (Xe : str_eqb (ev_id x0) (ev_id e) = false) by now apply str_eqb_neq.
      rewrite Xe in Gd. simpl in Gd.
      destruct (key_eq_address seed x0 e k Cf0 K0 K) as [[a [X Y]]|[_ [_ X]]]; [|contradiction].
      exists a. split; [assumption|]. split; [assumption|].
      assert (KC : sql_kind_replaceable (ev_kind x0) = true).
      { pose proof (inv_class s I old Hold) as Z0. rewrite E0 in Z0. simpl in Z0. rewrite Z0.
        rewrite get_event_key_spec in K0. unfold key_of_spec in K0. rewrite X in K0.
        destruct (storable x0); [|discriminate]. destruct a; inversion K0; reflexivity. }
      rewrite KC in Gd. simpl in Gd. now apply Z.ltb_ge in Gd. }
    assert (Same : forall y, stored (es ++ [e]) y <-> stored es y).
    { destruct Cases as [H|[Nin [a [A0 [Ae Ts]]]]]; [intro y; now apply stored_snoc_dup|].
      intro y. split.
      - intro S. destruct (event_dec y e) as [-> |Ne].
        + apply stored_snoc_new in S; [|assumption]. destruct S as [_ S].
          specialize (S a Ae x0 In0 A0). lia.
        + now apply stored_snoc_old in S.
      - intro S. apply stored_snoc_keep; [assumption|]. intros a' Ay Ae'.
        rewrite Ae in Ae'. inversion Ae'; subst a'.
        pose proof (stored_newest es y a x0 S Ay In0 A0). lia. }
    assert (K5 : ~ In e es -> ev_kind e <> 5).
    { intro Nin. destruct Cases as [H|[_ [a [_ [Ae _]]]]]; [contradiction|]. now apply address_kind5 in Ae. }
    constructor; try assumption.
    + intros r Hr. destruct (abs_rows es s A r Hr) as [x [S [Kx [Er Hp]]]].
      exists x. split; [now apply Same | auto].
    + intros x S. apply Same in S. now apply (abs_stored es s A).
    + intros y k' Hy Ky. apply in_app_iff in Hy. destruct Hy as [Hy|[<- |[]]].
      * now apply (abs_cover es s A y).
      * exists old. split; [assumption | congruence].
    + intro kp. rewrite (abs_dkeys es s A). split.
      * intros [d [H1 H2]]. exists d. split; [apply in_app_iff; now left | assumption].
      * intros [d [H1 H2]]. apply in_app_iff in H1. destruct H1 as [H1|[<- |[]]]; [eauto|].
        destruct (in_dec event_dec e es) as [H|H]; [eauto|].
        rewrite k5_dkeys_not_k5 in H2; [destruct H2 | now apply K5].
    + intro ip. rewrite (abs_dids es s A). split.
      * intros [d [H1 H2]]. exists d. split; [apply in_app_iff; now left | assumption].
      * intros [d [H1 H2]]. apply in_app_iff in H1. destruct H1 as [H1|[<- |[]]]; [eauto|].
        destruct (in_dec event_dec e es) as [H|H]; [eauto|].
        rewrite k5_dids_not_k5 in H2; [destruct H2 | now apply K5].
Qed.

(** after any history of gate-valid events with functional ids the tables
    are the abstraction of the history *)
Theorem abs_fold es :
  Forall gv es -> ids_functional es -> Abs es (fold_left ins es empty_db).
Proof.
  induction es as [|e es IH] using rev_ind; intros G F.
  - apply abs_empty.
  - rewrite fold_left_app. simpl. apply abs_step; [|assumption|assumption].
    apply IH.
    + apply Forall_app in G. tauto.
    + intros x y Hx Hy. apply F; apply in_app_iff; now left.
Qed.

Theorem abs_run h :
  Forall gv (concat h) -> ids_functional (concat h) -> Abs (concat h) (run seed empty_db h).
Proof. intros G F. rewrite run_fold. now apply abs_fold. Qed.

End Abstraction.
