(* Lin.v — C15: a generic model of operations on one shared state protected by
   one readers-writer lock, concurrent histories, and linearizability.
   Definitions only (proofs: LinProofs.v).

   Threads (any number, identified by natural numbers) run operations one after
   another; every operation goes through

       Inv(t,op) ; Acquire(mode op) ; Read ; [Dirty*] ; Write ; Release ; Resp(t,res)

   over one lock: a writer excludes everybody, several readers may hold the lock
   together.  The body of an operation is NOT atomic in this model:

     - [Read] takes a snapshot of the shared state at some instant of the
       critical section; the result of the operation is [snd (sem snap op)];
     - an operation whose code contains stores ([wr op = true]) publishes
       [fst (sem snap op)] at its [Write] step, and between its [Read] and its
       [Write] the shared state may pass through ARBITRARY intermediate values
       ([Dirty] steps: the half-updated maps, tree and index of a running Add);
     - an operation whose code contains no stores never changes the state.

   An operation that takes no lock ([NoLock]) reads and writes in exactly the same
   way, just without the lock — so it may observe a half-updated state, and two
   unlocked (or shared-locked) writers lose updates.  Nothing in the semantics
   forbids that: the lock discipline is a HYPOTHESIS of the theorem
   [rw_lock_linearizable], not a feature of the model.

   Every invocation gets a fresh operation identifier (a ghost value) so that the
   history can say which response belongs to which invocation. *)
From Coq Require Import List Arith Lia.
Import ListNotations.

Inductive lmode := Excl | Shared | NoLock.

Definition tid := nat.

(** [a] occurs strictly before [b] in [l] *)
Definition before {A} (l : list A) (a b : A) : Prop :=
  exists l1 l2 l3, l = l1 ++ a :: l2 ++ b :: l3.

Section Lin.
  Variables (St Op Res : Type).
  Variable sem : St -> Op -> St * Res.      (* sequential semantics *)
  Variable mode : Op -> lmode.              (* the lock the operation's code takes *)
  Variable wr : Op -> bool.                 (* does the operation's code store to the shared state? *)

  (** ** Configurations *)

  Inductive pc :=
  | PIdle
  | PInv (i : nat) (o : Op)                 (* invoked, lock not yet taken *)
  | PHold (i : nat) (o : Op)                (* lock held, body not started *)
  | PRead (i : nat) (o : Op) (snap : St)    (* snapshot taken, result not yet published *)
  | PDone (i : nat) (o : Op) (r : Res)      (* body finished, lock still held *)
  | PRel (i : nat) (o : Op) (r : Res).      (* lock released, response pending *)

  Record config := mkCfg {
    k_st : St;                 (* the shared state *)
    k_w : option tid;          (* the writer holding the lock *)
    k_r : list tid;            (* the readers holding the lock *)
    k_pc : tid -> pc;
    k_next : nat               (* next fresh operation identifier *)
  }.

  Definition upd (f : tid -> pc) (t : tid) (p : pc) : tid -> pc :=
    fun t' => if Nat.eqb t' t then p else f t'.

  Definition init (s0 : St) : config := mkCfg s0 None [] (fun _ => PIdle) 0.

  Inductive label :=
  | LInv (i : nat) (t : tid) (o : Op)
  | LAcq (i : nat) (t : tid)
  | LRead (i : nat) (t : tid) (o : Op)
  | LDirty (i : nat) (t : tid)
  | LWrite (i : nat) (t : tid) (o : Op)
  | LRel (i : nat) (t : tid)
  | LResp (i : nat) (t : tid) (r : Res).

  Definition rel_w (m : lmode) (c : config) : option tid :=
    match m with Excl => None | _ => k_w c end.
  Definition rel_r (m : lmode) (t : tid) (c : config) : list tid :=
    match m with Shared => remove Nat.eq_dec t (k_r c) | _ => k_r c end.

  Inductive step : config -> label -> config -> Prop :=
  | s_inv c t o :
      k_pc c t = PIdle ->
      step c (LInv (k_next c) t o)
           (mkCfg (k_st c) (k_w c) (k_r c) (upd (k_pc c) t (PInv (k_next c) o)) (S (k_next c)))
  | s_acq_excl c t i o :                       (* Lock(): nobody holds the lock *)
      k_pc c t = PInv i o -> mode o = Excl -> k_w c = None -> k_r c = [] ->
      step c (LAcq i t) (mkCfg (k_st c) (Some t) [] (upd (k_pc c) t (PHold i o)) (k_next c))
  | s_acq_shared c t i o :                     (* RLock(): no writer holds the lock *)
      k_pc c t = PInv i o -> mode o = Shared -> k_w c = None ->
      step c (LAcq i t) (mkCfg (k_st c) None (t :: k_r c) (upd (k_pc c) t (PHold i o)) (k_next c))
  | s_read_locked c t i o :
      k_pc c t = PHold i o ->
      step c (LRead i t o) (mkCfg (k_st c) (k_w c) (k_r c) (upd (k_pc c) t (PRead i o (k_st c))) (k_next c))
  | s_read_nolock c t i o :                    (* a method that takes no lock *)
      k_pc c t = PInv i o -> mode o = NoLock ->
      step c (LRead i t o) (mkCfg (k_st c) (k_w c) (k_r c) (upd (k_pc c) t (PRead i o (k_st c))) (k_next c))
  | s_dirty c t i o snap s' :                  (* a storing body in progress: any intermediate state *)
      k_pc c t = PRead i o snap -> wr o = true ->
      step c (LDirty i t) (mkCfg s' (k_w c) (k_r c) (k_pc c) (k_next c))
  | s_write c t i o snap :
      k_pc c t = PRead i o snap ->
      step c (LWrite i t o)
           (mkCfg (if wr o then fst (sem snap o) else k_st c) (k_w c) (k_r c)
                  (upd (k_pc c) t (PDone i o (snd (sem snap o)))) (k_next c))
  | s_rel c t i o r :
      k_pc c t = PDone i o r ->
      step c (LRel i t)
           (mkCfg (k_st c) (rel_w (mode o) c) (rel_r (mode o) t c) (upd (k_pc c) t (PRel i o r)) (k_next c))
  | s_resp c t i o r :
      k_pc c t = PRel i o r ->
      step c (LResp i t r) (mkCfg (k_st c) (k_w c) (k_r c) (upd (k_pc c) t PIdle) (k_next c)).

  (** traces grow at the end *)
  Inductive steps (c0 : config) : list label -> config -> Prop :=
  | steps_nil : steps c0 [] c0
  | steps_snoc tr c l c' : steps c0 tr c -> step c l c' -> steps c0 (tr ++ [l]) c'.

  (** ** Histories: the observable part of a trace *)

  Inductive hev :=
  | HInv (i : nat) (t : tid) (o : Op)
  | HResp (i : nat) (t : tid) (r : Res).

  Definition hist_of (l : label) : list hev :=
    match l with
    | LInv i t o => [HInv i t o]
    | LResp i t r => [HResp i t r]
    | _ => []
    end.

  Definition hist (tr : list label) : list hev := flat_map hist_of tr.

  (** ** Linearizability *)

  (** an entry of a linearization: operation identifier, operation, result *)
  Definition lent := (nat * Op * Res)%type.
  Definition l_id (x : lent) : nat := fst (fst x).

  (** the results are the ones the sequential semantics yields along the list *)
  Fixpoint seq_legal (s : St) (L : list lent) : Prop :=
    match L with
    | [] => True
    | (_, o, r) :: L' => snd (sem s o) = r /\ seq_legal (fst (sem s o)) L'
    end.

  Fixpoint seq_state (s : St) (L : list lent) : St :=
    match L with
    | [] => s
    | (_, o, _) :: L' => seq_state (fst (sem s o)) L'
    end.

  (** real-time order: the response of [a] occurs before the invocation of [b] *)
  Definition precedes (H : list hev) (a b : nat) : Prop :=
    exists h1 h2 h3 t r t' o, H = h1 ++ HResp a t r :: h2 ++ HInv b t' o :: h3.

  (** [L] is a linearization of [H]: a duplicate-free sequence of invoked
      operations, containing every completed operation with its observed result
      (and possibly some pending ones), legal for the sequential semantics from
      [s0], and extending the real-time order of [H]. *)
  Definition linearization (s0 : St) (H : list hev) (L : list lent) : Prop :=
    NoDup (map l_id L) /\
    (forall i o r, In (i, o, r) L -> exists t, In (HInv i t o) H) /\
    (forall i t r, In (HResp i t r) H -> exists o, In (i, o, r) L) /\
    seq_legal s0 L /\
    (forall a b, precedes H a b -> In a (map l_id L) -> In b (map l_id L) -> before (map l_id L) a b).

  Definition linearizable (s0 : St) (H : list hev) : Prop := exists L, linearization s0 H L.

  (** linearization points of a trace: the snapshot of an operation without
      stores, the publication of an operation with stores *)
  Definition linpt_of (l : label) : list nat :=
    match l with
    | LRead i _ o => if wr o then [] else [i]
    | LWrite i _ o => if wr o then [i] else []
    | _ => []
    end.

  Definition linpts (tr : list label) : list nat := flat_map linpt_of tr.

  (** ** The lock discipline (hypotheses of the theorem) *)

  Definition read_only (o : Op) : Prop := forall s, fst (sem s o) = s.
  Definition state_independent (o : Op) : Prop := forall s s', snd (sem s o) = snd (sem s' o).

  (** [wr] is faithful to the sequential semantics: code without stores does not change the state *)
  Definition wr_faithful : Prop := forall o, wr o = false -> read_only o.

  (** every operation takes the lock in exclusive mode, or in shared mode with
      a body without stores, or no lock at all with a body without stores whose
      result does not depend on the shared state *)
  Definition disciplined_op (o : Op) : Prop :=
    mode o = Excl \/
    (mode o = Shared /\ wr o = false) \/
    (mode o = NoLock /\ wr o = false /\ state_independent o).

  Definition disciplined : Prop := wr_faithful /\ forall o, disciplined_op o.

  (** ** Sequential reachability (for transferring sequential invariants) *)

  Definition seq_run (s0 : St) (ops : list Op) : St := fold_left (fun s o => fst (sem s o)) ops s0.

  (** who holds the lock, read off the program counters *)
  Definition holds (p : pc) (m : lmode) : Prop :=
    match p with
    | PHold _ o | PRead _ o _ | PDone _ o _ => mode o = m
    | _ => False
    end.

  Definition pc_id (p : pc) : option nat :=
    match p with
    | PIdle => None
    | PInv i _ | PHold i _ | PRead i _ _ | PDone i _ _ | PRel i _ _ => Some i
    end.

  Definition pc_op (p : pc) : option Op :=
    match p with
    | PIdle => None
    | PInv _ o | PHold _ o | PRead _ o _ | PDone _ o _ | PRel _ o _ => Some o
    end.
End Lin.

Arguments PIdle {St Op Res}.
Arguments PInv {St Op Res}.
Arguments PHold {St Op Res}.
Arguments PRead {St Op Res}.
Arguments PDone {St Op Res}.
Arguments PRel {St Op Res}.
Arguments HInv {Op Res}.
Arguments HResp {Op Res}.
Arguments LInv {Op Res}.
Arguments LAcq {Op Res}.
Arguments LRead {Op Res}.
Arguments LDirty {Op Res}.
Arguments LWrite {Op Res}.
Arguments LRel {Op Res}.
Arguments LResp {Op Res}.
