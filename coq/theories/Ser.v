(* Ser.v — C01: model of Event.Serialize and Event.Verify of message.go,
   the NIP-01 canonical form written from the NIP-01 text, the authenticity
   specification, and the parser used to prove that serialization is
   injective.  Definitions only; the proofs are in SerProofs.v.

   Two models of Serialize are kept:
   - [serialize_fixed]: the hand-written NIP-01 serializer.  Its statement
     sequence ([g_ser_layout]) and its escape table ([g_ser_esc_short],
     [g_ser_esc_is_ctl], [g_ser_ctl_prefix], [g_ser_hex_digits]) are
     regenerated from the source by /verif/gen (Gen/GenSer.v).
   - [serialize_pinned]: json.Marshal of the 6-tuple as Go 1.23's
     encoding/json does it (appendString with escapeHTML = true).
   [serialize] is the one the tree under test has, selected by the generated
   [g_serialize_uses_json_marshal]. *)
From Moc Require Import Base.
From Moc.Gen Require Import GenSer.
From Coq Require Import Decimal.
Open Scope Z_scope.

(* ------------------------------------------------------------------ *)
(** * Bytes *)

Definition c_quote : N := 34.
Definition c_bslash : N := 92.
Definition c_comma : N := 44.
Definition c_lbrack : N := 91.
Definition c_rbrack : N := 93.
Definition c_minus : N := 45.

Definition bytes_ok (s : str) : Prop := Forall (fun b => (b < 256)%N) s.
Definition bytes_okb (s : str) : bool := forallb (fun b => (b <? 256)%N) s.

(** the fields covered by the id *)
Definition signed_fields (e : event) : str * Z * Z * list tag * str :=
  (ev_pk e, ev_ts e, ev_kind e, ev_tags e, ev_content e).

Definition bytes_ok_event (e : event) : Prop :=
  bytes_ok (ev_pk e) /\ Forall (Forall bytes_ok) (ev_tags e) /\ bytes_ok (ev_content e).

(* ------------------------------------------------------------------ *)
(** * Model of the hand-written serializer (appendNIP01String, Serialize) *)

Definition digit_at (tab : str) (k : Z) : N := nth (Z.to_nat k) tab 0%N.

(** one iteration of the escaper's byte loop: the [switch] clauses, then the
    [if c < 0x20] of the default clause, then the verbatim copy *)
Definition esc_byte (b : N) : str :=
  let z := Z.of_N b in
  match g_ser_esc_short z with
  | Some s => s
  | None =>
      if g_ser_esc_is_ctl z
      then g_ser_ctl_prefix ++ [digit_at g_ser_hex_digits (Z.shiftr z 4); digit_at g_ser_hex_digits (Z.land z 15)]
      else [b]
  end.

Definition ser_string (s : str) : str := c_quote :: flat_map esc_byte s ++ [c_quote].

(** strconv.AppendInt(_, x, 10) *)
Definition ser_int (z : Z) : str := showZ z.

(** [for i, x := range l { if i > 0 { ',' }; f x }] between '[' and ']' *)
Section Arr.
  Context {A : Type} (f : A -> str).
  Fixpoint ser_arr_tail (l : list A) : str :=
    match l with
    | [] => [c_rbrack]
    | x :: l' => c_comma :: f x ++ ser_arr_tail l'
    end.
  Definition ser_arr (l : list A) : str :=
    c_lbrack :: match l with
                | [] => [c_rbrack]
                | x :: l' => f x ++ ser_arr_tail l'
                end.
End Arr.

Definition ser_tag (t : tag) : str := ser_arr ser_string t.
(** [ev_tags] is a non-nil slice of non-nil slices (what the decoder produces
    and what [Valid] demands); the [null] branches of the code are outside
    the model *)
Definition ser_tags (ts : list tag) : str := ser_arr ser_tag ts.

(** one statement of Serialize's body, as listed by [g_ser_layout] *)
Definition ser_item (e : event) (it : Z * str) : str :=
  match fst it with
  | 0 => snd it
  | 11 => ser_string (ev_pk e)
  | 15 => ser_string (ev_content e)
  | 16 => ser_string (ev_id e)
  | 17 => ser_string (ev_sig e)
  | 22 => ser_int (ev_ts e)
  | 23 => ser_int (ev_kind e)
  | 30 => ser_tags (ev_tags e)
  | _ => []
  end.

Definition serialize_fixed (e : event) : str := flat_map (ser_item e) g_ser_layout.

(* ------------------------------------------------------------------ *)
(** * Model of json.Marshal(&[6]any{0, pubkey, created_at, kind, tags, content}) *)

Definition hex_lc : str := [48; 49; 50; 51; 52; 53; 54; 55; 56; 57; 97; 98; 99; 100; 101; 102]%N.

(** [dst = append(dst, '\\', 'u', '0', '0', hex[b>>4], hex[b&0xF])] *)
Definition u00 (b : N) : str :=
  [92; 117; 48; 48; nth (N.to_nat (b / 16)) hex_lc 0; nth (N.to_nat (b mod 16)) hex_lc 0]%N.

(** tables.go htmlSafeSet (for b < 128) *)
Definition html_safe (b : N) : bool :=
  ((32 <=? b) && (b <? 128) && negb (b =? 34) && negb (b =? 38) && negb (b =? 60) && negb (b =? 62)
   && negb (b =? 92))%N.

(** appendString, the branch [b < utf8.RuneSelf] *)
Definition esc_byte_pinned (b : N) : str :=
  (if html_safe b then [b]
   else if (b =? 92) || (b =? 34) then [92; b]
   else if b =? 8 then [92; 98]
   else if b =? 12 then [92; 102]
   else if b =? 10 then [92; 110]
   else if b =? 13 then [92; 114]
   else if b =? 9 then [92; 116]
   else u00 b)%N.

Definition cont_byte (b : N) : bool := ((128 <=? b) && (b <=? 191))%N.

(** utf8.DecodeRuneInString on [b0 :: rest], for [b0 >= 128]: the size of the
    well-formed sequence, or 1 for (RuneError, 1) *)
Definition utf8_len (b0 : N) (rest : str) : nat :=
  (if (194 <=? b0) && (b0 <=? 223) then
     match rest with
     | b1 :: _ => if cont_byte b1 then 2%nat else 1%nat
     | _ => 1%nat
     end
   else if (224 <=? b0) && (b0 <=? 239) then
     match rest with
     | b1 :: b2 :: _ =>
         let lo := if b0 =? 224 then 160 else 128 in
         let hi := if b0 =? 237 then 159 else 191 in
         if (lo <=? b1) && (b1 <=? hi) && cont_byte b2 then 3%nat else 1%nat
     | _ => 1%nat
     end
   else if (240 <=? b0) && (b0 <=? 244) then
     match rest with
     | b1 :: b2 :: b3 :: _ =>
         let lo := if b0 =? 240 then 144 else 128 in
         let hi := if b0 =? 244 then 143 else 191 in
         if (lo <=? b1) && (b1 <=? hi) && cont_byte b2 && cont_byte b3 then 4%nat else 1%nat
     | _ => 1%nat
     end
   else 1%nat)%N.

(** U+2028 / U+2029 (E2 80 A8 / E2 80 A9): the last hex digit of the escape *)
Definition ls_ps (b0 : N) (rest : str) : option N :=
  match rest with
  | b1 :: b2 :: _ =>
      (if (b0 =? 226) && (b1 =? 128) && (b2 =? 168) then Some 56
       else if (b0 =? 226) && (b1 =? 128) && (b2 =? 169) then Some 57
       else None)%N
  | _ => None
  end.

(** the loop of appendString.  [skip] bytes of a multi-byte sequence already
    decided are still to be passed over: copied ([keep]) or dropped (they
    were replaced by an escape) *)
Fixpoint pinned_go (skip : nat) (keep : bool) (s : str) : str :=
  match s with
  | [] => []
  | b :: rest =>
      match skip with
      | S k => (if keep then [b] else []) ++ pinned_go k keep rest
      | O =>
          if (b <? 128)%N then esc_byte_pinned b ++ pinned_go 0 true rest
          else
            match utf8_len b rest with
            | 1%nat => [92; 117; 102; 102; 102; 100]%N ++ pinned_go 0 true rest
            | n =>
                match ls_ps b rest with
                | Some d => [92; 117; 50; 48; 50; d]%N ++ pinned_go 2 false rest
                | None => b :: pinned_go (Nat.pred n) true rest
                end
            end
      end
  end.

Definition ser_string_pinned (s : str) : str := c_quote :: pinned_go 0 true s ++ [c_quote].

Definition serialize_pinned (e : event) : str :=
  [c_lbrack; 48%N; c_comma] ++ ser_string_pinned (ev_pk e) ++ [c_comma] ++ showZ (ev_ts e) ++ [c_comma]
  ++ showZ (ev_kind e) ++ [c_comma] ++ ser_arr (ser_arr ser_string_pinned) (ev_tags e) ++ [c_comma]
  ++ ser_string_pinned (ev_content e) ++ [c_rbrack].

(** what the tree under test does *)
Definition serialize (e : event) : str :=
  if g_serialize_uses_json_marshal then serialize_pinned e else serialize_fixed e.

(* ------------------------------------------------------------------ *)
(** * Verify *)

(** hex.DecodeString: fromHexChar accepts 0-9 a-f A-F; an odd length or any
    other byte is an error *)
Definition hex_val (c : N) : option N :=
  (if (48 <=? c) && (c <=? 57) then Some (c - 48)
   else if (97 <=? c) && (c <=? 102) then Some (c - 87)
   else if (65 <=? c) && (c <=? 70) then Some (c - 55)
   else None)%N.

Fixpoint hex_decode (s : str) : option str :=
  match s with
  | [] => Some []
  | [_] => None
  | a :: b :: r =>
      match hex_val a, hex_val b with
      | Some x, Some y =>
          match hex_decode r with
          | Some t => Some ((16 * x + y)%N :: t)
          | None => None
          end
      | _, _ => None
      end
  end.

(** outcome of Verify: (b, nil) or (false, err) *)
Inductive vres := VOk (b : bool) | VErr.

Definition vres_eqb (a b : vres) : bool :=
  match a, b with
  | VOk x, VOk y => Bool.eqb x y
  | VErr, VErr => true
  | _, _ => false
  end.

Section Verify.
  (** SHA-256; schnorr.ParsePubKey succeeds; schnorr.ParseSignature succeeds;
      sig.Verify(hash, pubkey) on the parsed values: [V pk msg sig] *)
  Variable H : str -> str.
  Variable PK : str -> bool.
  Variable SG : str -> bool.
  Variable V : str -> str -> str -> bool.

  Definition verify_with (ser : event -> str) (e : event) : vres :=
    let s := ser e in
    match hex_decode (ev_id e) with
    | None => VErr
    | Some idb =>
        if g_verify_id_reject (str_eqb idb (H s)) then VOk false
        else
          match hex_decode (ev_pk e) with
          | None => VErr
          | Some pkb =>
              if negb (PK pkb) then VErr
              else
                match hex_decode (ev_sig e) with
                | None => VErr
                | Some sgb =>
                    if negb (SG sgb) then VErr
                    else VOk (V pkb idb sgb)
                end
          end
    end.

  (** Verify on the tree under test, and on a tree with the hand-written serializer *)
  Definition verify_tree (e : event) : vres := verify_with serialize e.
  Definition verify (e : event) : vres := verify_with serialize_fixed e.
End Verify.

(* ------------------------------------------------------------------ *)
(** * Specification, from the NIP-01 text and the property text *)

(** lower-case hexadecimal digit of a value below 16 *)
Definition lc_hex (d : N) : N := (if d <? 10 then 48 + d else 87 + d)%N.

(** NIP-01: line feed 0x0A as backslash n, double quote 0x22 as backslash
    quote, backslash 0x5C doubled, carriage return 0x0D as backslash r, tab
    0x09 as backslash t, backspace 0x08 as backslash b, form feed 0x0C as
    backslash f; property text: the remaining C0 controls as backslash u 00xx,
    every other character verbatim *)
Definition canon_esc (b : N) : str :=
  (if b =? 10 then [92; 110]
   else if b =? 34 then [92; 34]
   else if b =? 92 then [92; 92]
   else if b =? 13 then [92; 114]
   else if b =? 9 then [92; 116]
   else if b =? 8 then [92; 98]
   else if b =? 12 then [92; 102]
   else if b <? 32 then [92; 117; 48; 48; lc_hex (b / 16); lc_hex (b mod 16)]
   else [b])%N.

Definition canon_string (s : str) : str := [c_quote] ++ concat (List.map canon_esc s) ++ [c_quote].

Fixpoint join (sep : str) (l : list str) : str :=
  match l with
  | [] => []
  | x :: l' => match l' with [] => x | _ :: _ => x ++ sep ++ join sep l' end
  end.

Definition canon_array (items : list str) : str := [c_lbrack] ++ join [c_comma] items ++ [c_rbrack].

Definition canon_tags (ts : list tag) : str :=
  canon_array (List.map (fun t => canon_array (List.map canon_string t)) ts).

(** [0,<pubkey>,<created_at>,<kind>,<tags>,<content>], no white space *)
Definition canonical (e : event) : str :=
  [c_lbrack; 48%N; c_comma] ++ canon_string (ev_pk e) ++ [c_comma] ++ showZ (ev_ts e) ++ [c_comma]
  ++ showZ (ev_kind e) ++ [c_comma] ++ canon_tags (ev_tags e) ++ [c_comma] ++ canon_string (ev_content e)
  ++ [c_rbrack].

(** a string outside the escape set written between quotes *)
Definition quote (s : str) : str := [c_quote] ++ s ++ [c_quote].

(** [hex_denotes s bs]: the text [s] is a hexadecimal writing (either case)
    of the bytes [bs] *)
Inductive hex_digit : N -> N -> Prop :=
| hd_num c : (48 <= c <= 57)%N -> hex_digit c (c - 48)
| hd_lower c : (97 <= c <= 102)%N -> hex_digit c (c - 87)
| hd_upper c : (65 <= c <= 70)%N -> hex_digit c (c - 55).

Inductive hex_denotes : str -> str -> Prop :=
| hden_nil : hex_denotes [] []
| hden_cons c1 c2 v1 v2 s bs :
    hex_digit c1 v1 -> hex_digit c2 v2 -> hex_denotes s bs ->
    hex_denotes (c1 :: c2 :: s) ((16 * v1 + v2)%N :: bs).

(** boolean form used by the correspondence oracle: re-encode and compare *)
Definition uc_hex (d : N) : N := (if d <? 10 then 48 + d else 55 + d)%N.
Definition digit_isb (c d : N) : bool := ((c =? lc_hex d) || (c =? uc_hex d))%N.
Fixpoint hex_denotesb (s bs : str) : bool :=
  match bs, s with
  | [], [] => true
  | v :: bs', c1 :: c2 :: s' =>
      ((v <? 256) && digit_isb c1 (v / 16) && digit_isb c2 (v mod 16))%N && hex_denotesb s' bs'
  | _, _ => false
  end.

(** text that is a hexadecimal writing of some byte string *)
Definition hex_charb (c : N) : bool :=
  ((48 <=? c) && (c <=? 57) || (97 <=? c) && (c <=? 102) || (65 <=? c) && (c <=? 70))%N.
Definition hex_textb (s : str) : bool := Nat.even (length s) && forallb hex_charb s.

Section Spec.
  Variable H : str -> str.
  Variable PK : str -> bool.
  Variable SG : str -> bool.
  Variable V : str -> str -> str -> bool.

  (** BIP-340 verification of signature bytes [sg] on message [m] under
      public-key bytes [pk]: both must parse and the equation must hold *)
  Definition bip340 (pk m sg : str) : bool := PK pk && SG sg && V pk m sg.

  (** the id is the SHA-256 of the canonical serialization and the sig is a
      valid BIP-340 signature of that id under the pubkey *)
  Definition authentic_spec (e : event) : Prop :=
    exists pkb sgb,
      hex_denotes (ev_id e) (H (canonical e)) /\
      hex_denotes (ev_pk e) pkb /\ hex_denotes (ev_sig e) sgb /\
      bip340 pkb (H (canonical e)) sgb = true.

  (** boolean form given candidate decodings [pkb], [sgb] (the oracle of the
      correspondence check is handed the harness's own decodings) *)
  Definition authentic_specb (e : event) (pkb sgb : str) : bool :=
    hex_denotesb (ev_id e) (H (canonical e)) && hex_denotesb (ev_pk e) pkb && hex_denotesb (ev_sig e) sgb
    && bip340 pkb (H (canonical e)) sgb.
End Spec.

(* ------------------------------------------------------------------ *)
(** * A parser for the serialized form (proof device for injectivity) *)

Definition lc_hex_val (c : N) : option N :=
  (if (48 <=? c) && (c <=? 57) then Some (c - 48)
   else if (97 <=? c) && (c <=? 102) then Some (c - 87)
   else None)%N.

Definition unesc_short (c : N) : option N :=
  (if c =? 34 then Some 34
   else if c =? 92 then Some 92
   else if c =? 110 then Some 10
   else if c =? 114 then Some 13
   else if c =? 116 then Some 9
   else if c =? 98 then Some 8
   else if c =? 102 then Some 12
   else None)%N.

(** one element of a string body: [None] malformed, [Some (None, r)] the
    closing quote, [Some (Some b, r)] the byte [b] *)
Definition unesc1 (s : str) : option (option N * str) :=
  match s with
  | [] => None
  | b :: r =>
      if (b =? 34)%N then Some (None, r)
      else if (b =? 92)%N then
        match r with
        | [] => None
        | c :: r1 =>
            if (c =? 117)%N then
              match r1 with
              | a1 :: a2 :: h1 :: h2 :: r2 =>
                  if ((a1 =? 48) && (a2 =? 48))%N then
                    match lc_hex_val h1, lc_hex_val h2 with
                    | Some x, Some y => Some (Some (16 * x + y)%N, r2)
                    | _, _ => None
                    end
                  else None
              | _ => None
              end
            else
              match unesc_short c with
              | Some v => Some (Some v, r1)
              | None => None
              end
        end
      else Some (Some b, r)
  end.

Fixpoint parse_str_body (fuel : nat) (s : str) : option (str * str) :=
  match fuel with
  | O => None
  | S f =>
      match unesc1 s with
      | None => None
      | Some (None, r) => Some ([], r)
      | Some (Some b, r) =>
          match parse_str_body f r with
          | Some (t, r') => Some (b :: t, r')
          | None => None
          end
      end
  end.

Definition parse_string (fuel : nat) (s : str) : option (str * str) :=
  match s with
  | c :: r => if (c =? 34)%N then parse_str_body fuel r else None
  | [] => None
  end.

Definition digit_of (c : N) : option (uint -> uint) :=
  (if c =? 48 then Some D0 else if c =? 49 then Some D1 else if c =? 50 then Some D2
   else if c =? 51 then Some D3 else if c =? 52 then Some D4 else if c =? 53 then Some D5
   else if c =? 54 then Some D6 else if c =? 55 then Some D7 else if c =? 56 then Some D8
   else if c =? 57 then Some D9 else None)%N.

Fixpoint parse_uint (s : str) : uint * str :=
  match s with
  | [] => (Nil, [])
  | c :: r =>
      match digit_of c with
      | Some d => let ur := parse_uint r in (d (fst ur), snd ur)
      | None => (Nil, s)
      end
  end.

Definition parse_int (s : str) : option (Z * str) :=
  match s with
  | [] => None
  | c :: r =>
      if (c =? 45)%N then
        let ur := parse_uint r in
        match fst ur with Nil => None | u => Some (Z.of_int (Neg u), snd ur) end
      else
        let ur := parse_uint s in
        match fst ur with Nil => None | u => Some (Z.of_int (Pos u), snd ur) end
  end.

Section PArr.
  Context {A : Type} (p : str -> option (A * str)).
  Fixpoint parse_arr_tail (fuel : nat) (s : str) : option (list A * str) :=
    match fuel with
    | O => None
    | S f =>
        match s with
        | [] => None
        | c :: r =>
            if (c =? 93)%N then Some ([], r)
            else if (c =? 44)%N then
              match p r with
              | Some (x, r1) =>
                  match parse_arr_tail f r1 with
                  | Some (l, r2) => Some (x :: l, r2)
                  | None => None
                  end
              | None => None
              end
            else None
        end
    end.
  Definition parse_arr (fuel : nat) (s : str) : option (list A * str) :=
    match s with
    | [] => None
    | c :: r =>
        if (c =? 91)%N then
          match r with
          | [] => None
          | c2 :: r' =>
              if (c2 =? 93)%N then Some ([], r')
              else
                match p r with
                | Some (x, r1) =>
                    match parse_arr_tail fuel r1 with
                    | Some (l, r2) => Some (x :: l, r2)
                    | None => None
                    end
                | None => None
                end
          end
        else None
    end.
End PArr.

Definition expect (c : N) (s : str) : option str :=
  match s with
  | c' :: r => if (c' =? c)%N then Some r else None
  | [] => None
  end.

Definition parse_ser_fuel (fuel : nat) (s : str) : option (str * Z * Z * list tag * str) :=
  match expect 91 s with None => None | Some s1 =>
  match expect 48 s1 with None => None | Some s2 =>
  match expect 44 s2 with None => None | Some s3 =>
  match parse_string fuel s3 with None => None | Some (pk, s4) =>
  match expect 44 s4 with None => None | Some s5 =>
  match parse_int s5 with None => None | Some (ts, s6) =>
  match expect 44 s6 with None => None | Some s7 =>
  match parse_int s7 with None => None | Some (kind, s8) =>
  match expect 44 s8 with None => None | Some s9 =>
  match parse_arr (parse_arr (parse_string fuel) fuel) fuel s9 with None => None | Some (tags, s10) =>
  match expect 44 s10 with None => None | Some s11 =>
  match parse_string fuel s11 with None => None | Some (content, s12) =>
  match s12 with
  | [c] => if (c =? 93)%N then Some (pk, ts, kind, tags, content) else None
  | _ => None
  end end end end end end end end end end end end end.

Definition parse_ser (s : str) : option (str * Z * Z * list tag * str) :=
  parse_ser_fuel (S (length s)) s.
