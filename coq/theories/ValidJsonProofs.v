(* ValidJsonProofs.v — C11, completeness at the level of the JSON text: a value
   that the oracle [wf_json_cmsg] judges well-formed under NIP-01 (members in
   any order) is parsed by the model of ParseClientMsg, and the parsed message
   satisfies the NIP-01 constraint list [wf_nip01].  Holds on every tree (it
   only concerns the decoders); combined with [valid_complete] in
   ValidProofsFixed.v it gives "every well-formed text passes the gate". *)
From Moc Require Import Base Json CodecMsg Codec CodecProofs Valid ValidProofs.
From Moc.Gen Require Import GenCodec.
Open Scope Z_scope.

(* ------------------------------------------------------------------ *)
(** * JSON-level predicates and the typed reads *)

Lemma j_arr_strings (p : str -> bool) v :
  j_arr (fun x => match x with JStr s => p s | _ => false end) v = true ->
  exists l, as_strings v = Val l /\ forallb p l = true.
Proof.
  destruct v as [| | | |js|]; try discriminate. simpl. induction js as [|x js IH]; simpl.
  - intros _. exists []. split; reflexivity.
  - intro H. apply andb_true_iff in H as [Hx Hjs]. destruct x; try discriminate.
    destruct (IH Hjs) as [l [Hl Hp]]. exists (s :: l). simpl. rewrite Hl. simpl. now rewrite Hx, Hp.
Qed.

Lemma j_int_read (p : Z -> bool) v :
  j_int p v = true -> exists z, as_int64 v = Val z /\ p z = true.
Proof.
  destruct v as [| |n| | |]; try discriminate. simpl.
  destruct (int64_of n) as [z|]; [|discriminate]. intro H. exists z. now split.
Qed.

Lemma j_arr_ints (p : Z -> bool) v :
  j_arr (j_int p) v = true -> exists l, as_int64s v = Val l /\ forallb p l = true.
Proof.
  destruct v as [| | | |js|]; try discriminate. simpl. induction js as [|x js IH]; simpl.
  - intros _. exists []. split; reflexivity.
  - intro H. apply andb_true_iff in H as [Hx Hjs].
    destruct (j_int_read p x Hx) as [z [Hz Hp]]. destruct (IH Hjs) as [l [Hl Hpl]].
    exists (z :: l). simpl. rewrite Hz. simpl. rewrite Hl. simpl. now rewrite Hp, Hpl.
Qed.

Lemma j_str_read v : j_str v = true -> exists s, as_string v = Val s.
Proof. destruct v; try discriminate. intros _. simpl. eauto. Qed.

Lemma j_hex_read n v : j_hex n v = true -> exists s, as_string v = Val s /\ hexb n s = true.
Proof. destruct v; try discriminate. simpl. intro H. eauto. Qed.

Lemma member_is_get m k p :
  NoDup (List.map fst m) -> member_is m k p = true ->
  exists v, get_member k m = Val v /\ p v = true.
Proof.
  intros Hnd. unfold member_is, get_member, obj_get. rewrite (obj_norm_nodup m Hnd).
  destruct (assoc k m) as [v|]; [|discriminate]. eauto.
Qed.

(* ------------------------------------------------------------------ *)
(** * Events *)

Definition j_tag (t : jv) : bool :=
  match t with
  | JArr (JStr n :: rest) => negb (match n with [] => true | _ => false end) && forallb j_str rest
  | _ => false
  end.

Lemma j_tags_read l :
  forallb j_tag l = true -> exists tags, rmapM dec_tag l = Val tags /\ forallb tag_okb tags = true.
Proof.
  induction l as [|t l IH]; simpl.
  - intros _. exists []. split; reflexivity.
  - intro H. apply andb_true_iff in H as [Ht Hl]. destruct (IH Hl) as [tags [Hd Hok]].
    destruct t as [| | | |[|[| | |n| |] rest]|]; try discriminate. simpl in Ht.
    apply andb_true_iff in Ht as [Hn Hrest].
    assert (Hs : exists ss, rmapM as_string rest = Val ss).
    { clear -Hrest. induction rest as [|x rest IHr]; simpl; [eauto|].
      simpl in Hrest. apply andb_true_iff in Hrest as [Hx Hr]. destruct x; try discriminate.
      destruct (IHr Hr) as [ss Hss]. simpl. rewrite Hss. simpl. eauto. }
    destruct Hs as [ss Hss]. exists (Some (n :: ss) :: tags).
    cbn [dec_tag rmapM rbind as_string]. rewrite Hss. cbn [rbind]. rewrite Hd. cbn [rbind].
    split; [reflexivity|]. simpl. now rewrite Hn, Hok.
Qed.

Theorem wf_json_event_parse j :
  wf_json_event j = true -> exists e, dec_event j = Val e /\ event_okb kind_specb (Some e) = true.
Proof.
  unfold wf_json_event. destruct j as [| | | | |m]; try discriminate. intro H.
  repeat match type of H with _ && _ = true => apply andb_true_iff in H as [H ?H] end.
  apply nodup_strb_NoDup in H. rename H into Hnd.
  apply Nat.eqb_eq in H7.
  destruct (member_is_get m k_id _ Hnd H6) as [v1 [G1 P1]].
  destruct (member_is_get m k_pubkey _ Hnd H5) as [v2 [G2 P2]].
  destruct (member_is_get m k_created_at _ Hnd H4) as [v3 [G3 P3]].
  destruct (member_is_get m k_kind _ Hnd H3) as [v4 [G4 P4]].
  destruct (member_is_get m k_tags _ Hnd H2) as [v5 [G5 P5]].
  destruct (member_is_get m k_content _ Hnd H1) as [v6 [G6 P6]].
  destruct (member_is_get m k_sig _ Hnd H0) as [v7 [G7 P7]].
  destruct (j_hex_read 64 v1 P1) as [id [R1 Q1]].
  destruct (j_hex_read 64 v2 P2) as [pk [R2 Q2]].
  destruct (j_int_read _ v3 P3) as [ts [R3 _]].
  destruct (j_int_read _ v4 P4) as [kind [R4 Q4]].
  destruct (j_str_read v6 P6) as [content R6].
  destruct (j_hex_read 128 v7 P7) as [sig [R7 Q7]].
  destruct v5 as [| | | |l|]; try discriminate. simpl in P5.
  destruct (j_tags_read l P5) as [tags [R5 Q5]].
  exists (mkGEvent id pk ts kind (Some tags) content sig). split.
  - unfold dec_event. cbn [un_object rbind].
    replace (g_event_nfields_bad (obj_len m)) with false.
    2:{ symmetry. apply g_event_nfields_bad_spec. unfold obj_len. rewrite (obj_norm_nodup m Hnd). lia. }
    rewrite G1, G2, G3, G4, G5, G6, G7. cbn [rbind].
    rewrite R1, R2, R3, R4, R6, R7. cbn [rbind].
    change (rmapM _ l) with (rmapM dec_tag l). rewrite R5. reflexivity.
  - unfold event_okb. cbn [ge_id ge_pk ge_kind ge_tags ge_sig]. now rewrite Q1, Q2, Q4, Q5, Q7.
Qed.

(* ------------------------------------------------------------------ *)
(** * Filters: the member loop keeps the constraint list true and records
      since / until as the members say *)

Definition lookup_int (k : str) (p : list (str * jv)) : option Z :=
  match assoc k p with
  | Some (JNum n) => int64_of n
  | _ => None
  end.

Record finv2 (p : list (str * jv)) (f : gfilter) : Prop := {
  fi_ok : filter_okb kind_specb naddr_specb false (Some f) = true;
  fi_since : gf_since f = lookup_int k_since p;
  fi_until : gf_until f = lookup_int k_until p
}.

Lemma assoc_app_fresh {B} k (p : list (str * B)) k' v :
  ~ In k' (List.map fst p) ->
  assoc k (p ++ [(k', v)]) = if str_eqb k k' then (match assoc k p with Some x => Some x | None => Some v end) else assoc k p.
Proof.
  intro Hn. induction p as [|[k0 v0] p IH]; simpl.
  - destruct (str_eqb k k'); reflexivity.
  - destruct (str_eqb k k0) eqn:E0.
    + destruct (str_eqb k k'); reflexivity.
    + apply IH. intro Hin. apply Hn. now right.
Qed.

Lemma lookup_int_snoc_other k p k' v :
  k <> k' -> lookup_int k (p ++ [(k', v)]) = lookup_int k p.
Proof.
  intro Hne. unfold lookup_int.
  assert (E : assoc k (p ++ [(k', v)]) = assoc k p).
  { induction p as [|[k0 v0] p IH]; simpl.
    - destruct (str_eqb k k') eqn:E; [apply str_eqb_eq in E; contradiction | reflexivity].
    - destruct (str_eqb k k0); [reflexivity | exact IH]. }
  now rewrite E.
Qed.

Lemma lookup_int_snoc_same k p v :
  ~ In k (List.map fst p) -> lookup_int k (p ++ [(k, v)]) = match v with JNum n => int64_of n | _ => None end.
Proof.
  intro Hn. unfold lookup_int. rewrite (assoc_app_fresh k p k v Hn), str_eqb_refl.
  apply assoc_None in Hn. now rewrite Hn.
Qed.

Lemma tags_set_okb ap k v m :
  tagcond_okb ap (k, v) = true -> forallb (tagcond_okb ap) m = true ->
  forallb (tagcond_okb ap) (tags_set k v m) = true.
Proof.
  intro Hkv. induction m as [|[k0 v0] m IH]; simpl; intro H.
  - now rewrite Hkv.
  - apply andb_true_iff in H as [H0 H]. destruct (str_eqb k k0); simpl.
    + now rewrite Hkv, H.
    + now rewrite H0, IH.
Qed.

Ltac okb_split H :=
  unfold filter_okb in H;
  repeat match type of H with _ && _ = true => apply andb_true_iff in H as [H ?Hc] end.

Lemma as_int64_shape v z : as_int64 v = Val z -> exists n, v = JNum n /\ int64_of n = Some z.
Proof.
  destruct v as [| |n| | |]; try discriminate. simpl. destruct (int64_of n) eqn:E; [|discriminate].
  intro H; inversion H; subst. eauto.
Qed.

(** one well-formed member *)
Lemma filter_step_wf p f k v :
  finv2 p f -> ~ In k (List.map fst p) -> wf_json_member (k, v) = true ->
  exists f', filter_step f (k, v) = Val f' /\ finv2 (p ++ [(k, v)]) f'.
Proof.
  intros [Hok Hs Hu] Hfresh Hwf. unfold wf_json_member in Hwf.
  pose proof Hok as Hok'. okb_split Hok'.
  destruct (str_eqb k k_ids) eqn:Eids.
  { apply str_eqb_eq in Eids. subst k. simpl in Hwf.
    destruct (j_arr_strings (hexb 64) v Hwf) as [l [Hl Hp]].
    eexists. split.
    - unfold filter_step. guard_true g_fkey_ids_spec. rewrite Hl. reflexivity.
    - split; cbn [gf_since gf_until].
      + unfold filter_okb. cbn [gf_ids gf_authors gf_kinds gf_tags gf_since gf_until gf_limit opt_all].
        now rewrite Hp, Hc5, Hc4, Hc3, Hc2, Hc1, Hc.
      + rewrite lookup_int_snoc_other; [assumption | discriminate].
      + rewrite lookup_int_snoc_other; [assumption | discriminate]. }
  destruct (str_eqb k k_authors) eqn:Eau.
  { apply str_eqb_eq in Eau. subst k. simpl in Hwf.
    destruct (j_arr_strings (hexb 64) v Hwf) as [l [Hl Hp]].
    eexists. split.
    - unfold filter_step. guard_false g_fkey_ids_spec. guard_true g_fkey_authors_spec. rewrite Hl. reflexivity.
    - split; cbn [gf_since gf_until].
      + unfold filter_okb. cbn [gf_ids gf_authors gf_kinds gf_tags gf_since gf_until gf_limit opt_all].
        now rewrite Hp, Hok', Hc4, Hc3, Hc2, Hc1, Hc.
      + rewrite lookup_int_snoc_other; [assumption | discriminate].
      + rewrite lookup_int_snoc_other; [assumption | discriminate]. }
  simpl orb in Hwf. cbv iota in Hwf.
  destruct (str_eqb k k_kinds) eqn:Eki.
  { apply str_eqb_eq in Eki. subst k.
    destruct (j_arr_ints kind_specb v Hwf) as [l [Hl Hp]].
    eexists. split.
    - unfold filter_step. guard_false g_fkey_ids_spec. guard_false g_fkey_authors_spec.
      guard_true g_fkey_kinds_spec. rewrite Hl. reflexivity.
    - split; cbn [gf_since gf_until].
      + unfold filter_okb. cbn [gf_ids gf_authors gf_kinds gf_tags gf_since gf_until gf_limit opt_all].
        now rewrite Hp, Hok', Hc5, Hc3, Hc2, Hc1, Hc.
      + rewrite lookup_int_snoc_other; [assumption | discriminate].
      + rewrite lookup_int_snoc_other; [assumption | discriminate]. }
  destruct (str_eqb k k_since) eqn:Esi.
  { apply str_eqb_eq in Esi. subst k. simpl in Hwf.
    destruct (j_int_read nonnegb v Hwf) as [z [Hz Hp]].
    destruct (as_int64_shape v z Hz) as [n [-> Hn]].
    eexists. split.
    - unfold filter_step. guard_false g_fkey_ids_spec. guard_false g_fkey_authors_spec.
      guard_false g_fkey_kinds_spec. guard_false g_fkey_tag_spec. guard_true g_fkey_since_spec.
      rewrite Hz. reflexivity.
    - split; cbn [gf_since gf_until].
      + unfold filter_okb. cbn [gf_ids gf_authors gf_kinds gf_tags gf_since gf_until gf_limit opt_all].
        now rewrite Hp, Hok', Hc5, Hc4, Hc3, Hc1, Hc.
      + now rewrite lookup_int_snoc_same.
      + rewrite lookup_int_snoc_other; [assumption | discriminate]. }
  destruct (str_eqb k k_until) eqn:Eun.
  { apply str_eqb_eq in Eun. subst k. simpl in Hwf.
    destruct (j_int_read nonnegb v Hwf) as [z [Hz Hp]].
    destruct (as_int64_shape v z Hz) as [n [-> Hn]].
    eexists. split.
    - unfold filter_step. guard_false g_fkey_ids_spec. guard_false g_fkey_authors_spec.
      guard_false g_fkey_kinds_spec. guard_false g_fkey_tag_spec. guard_false g_fkey_since_spec.
      guard_true g_fkey_until_spec. rewrite Hz. reflexivity.
    - split; cbn [gf_since gf_until].
      + unfold filter_okb. cbn [gf_ids gf_authors gf_kinds gf_tags gf_since gf_until gf_limit opt_all].
        now rewrite Hp, Hok', Hc5, Hc4, Hc3, Hc2, Hc.
      + rewrite lookup_int_snoc_other; [assumption | discriminate].
      + now rewrite lookup_int_snoc_same. }
  destruct (str_eqb k k_limit) eqn:Eli.
  { apply str_eqb_eq in Eli. subst k. simpl in Hwf.
    destruct (j_int_read nonnegb v Hwf) as [z [Hz Hp]].
    eexists. split.
    - unfold filter_step. guard_false g_fkey_ids_spec. guard_false g_fkey_authors_spec.
      guard_false g_fkey_kinds_spec. guard_false g_fkey_tag_spec. guard_false g_fkey_since_spec.
      guard_false g_fkey_until_spec. guard_true g_fkey_limit_spec. rewrite Hz. reflexivity.
    - split; cbn [gf_since gf_until].
      + unfold filter_okb. cbn [gf_ids gf_authors gf_kinds gf_tags gf_since gf_until gf_limit opt_all].
        now rewrite Hp, Hok', Hc5, Hc4, Hc3, Hc2, Hc1.
      + rewrite lookup_int_snoc_other; [assumption | discriminate].
      + rewrite lookup_int_snoc_other; [assumption | discriminate]. }
  simpl orb in Hwf. cbv iota in Hwf.
  destruct k as [|h [|c [|x k]]]; try discriminate.
  apply andb_true_iff in Hwf as [Hhc Hv]. apply andb_true_iff in Hhc as [Hh Hc'].
  apply N.eqb_eq in Hh. subst h.
  assert (Hvals : exists vs, as_strings v = Val vs /\ tagcond_okb naddr_specb ([c], Some vs) = true).
  { unfold tagcond_okb. cbn [fst snd]. rewrite Hc'. cbn [andb].
    destruct (str_eqb [c] tn_e || str_eqb [c] tn_p) eqn:Eep.
    - destruct (j_arr_strings (hexb 64) v Hv) as [vs [Hvs Hp]]. exists vs. split; [assumption|].
      apply orb_true_iff in Eep as [E|E]; rewrite E; [assumption|].
      destruct (str_eqb [c] tn_e); assumption.
    - apply orb_false_iff in Eep as [E1 E2]. rewrite E1, E2.
      destruct (str_eqb [c] tn_a) eqn:Ea.
      + destruct (j_arr_strings naddr_specb v Hv) as [vs [Hvs Hp]]. exists vs. now split.
      + destruct (j_arr_strings (fun _ => true) v Hv) as [vs [Hvs _]]. exists vs. now split. }
  destruct Hvals as [vs [Hvs Htc]].
  eexists. split.
  - unfold filter_step. guard_false g_fkey_ids_spec. guard_false g_fkey_authors_spec.
    guard_false g_fkey_kinds_spec.
    replace (g_fkey_tag (zlen [hash; c]) (byte_at 0 [hash; c]) (byte_at 1 [hash; c])) with true
      by (symmetry; apply g_fkey_tag_spec; now exists c).
    rewrite Hvs. reflexivity.
  - split; cbn [gf_since gf_until].
    + unfold filter_okb. cbn [gf_ids gf_authors gf_kinds gf_tags gf_since gf_until gf_limit opt_all].
      rewrite Hok', Hc5, Hc4, Hc2, Hc1, Hc. cbn [andb]. rewrite !andb_true_r.
      apply tags_set_okb; [assumption|]. destruct (gf_tags f); [exact Hc3 | reflexivity].
    + rewrite lookup_int_snoc_other; [assumption | discriminate].
    + rewrite lookup_int_snoc_other; [assumption | discriminate].
Qed.

Lemma filter_fold_wf q : forall p f,
  NoDup (List.map fst (p ++ q)) -> forallb wf_json_member q = true -> finv2 p f ->
  exists f', filter_fold q f = Val f' /\ finv2 (p ++ q) f'.
Proof.
  induction q as [|[k v] q IH]; intros p f Hnd Hwf Hinv.
  - exists f. rewrite app_nil_r. now split.
  - simpl in Hwf. apply andb_true_iff in Hwf as [Hkv Hq].
    assert (Hfresh : ~ In k (List.map fst p)).
    { rewrite map_app in Hnd. simpl in Hnd. apply NoDup_remove_2 in Hnd.
      intro Hin. apply Hnd. apply in_or_app. now left. }
    destruct (filter_step_wf p f k v Hinv Hfresh Hkv) as [f1 [Hstep Hinv1]].
    destruct (IH (p ++ [(k, v)]) f1) as [f' [Hfold Hinv']].
    + now rewrite <- app_assoc.
    + assumption.
    + assumption.
    + exists f'. split.
      * cbn [filter_fold]. rewrite Hstep. exact Hfold.
      * now rewrite <- app_assoc in Hinv'.
Qed.

Lemma lookup_int_Some k m z :
  lookup_int k m = Some z -> exists n, assoc k m = Some (JNum n) /\ int64_of n = Some z.
Proof.
  unfold lookup_int. destruct (assoc k m) as [[| |n| | |]|]; try discriminate. eauto.
Qed.

Theorem wf_json_filter_parse j :
  wf_json_filter j = true ->
  exists f, dec_filter j = Val f /\ filter_okb kind_specb naddr_specb true (Some f) = true.
Proof.
  unfold wf_json_filter. destruct j as [| | | | |m]; try discriminate. intro H.
  apply andb_true_iff in H as [H Hwin]. apply andb_true_iff in H as [Hnd Hmem].
  apply nodup_strb_NoDup in Hnd.
  destruct (filter_fold_wf m [] empty_gfilter) as [f [Hfold [Hok Hs Hu]]]; try assumption.
  { split; reflexivity. }
  simpl app in *. exists f. split.
  - unfold dec_filter. now rewrite (obj_norm_nodup m Hnd).
  - unfold filter_okb in *.
    repeat match type of Hok with _ && _ = true => apply andb_true_iff in Hok as [Hok ?Hc] end.
    rewrite Hok, Hc5, Hc4, Hc3, Hc2, Hc1, Hc. cbn [andb]. rewrite andb_true_r.
    destruct (gf_since f) as [s|] eqn:Es; [|reflexivity].
    destruct (gf_until f) as [u|] eqn:Eu; [|reflexivity].
    symmetry in Hs, Hu.
    destruct (lookup_int_Some _ _ _ Hs) as [a [Ha Hia]].
    destruct (lookup_int_Some _ _ _ Hu) as [b [Hb Hib]].
    now rewrite Ha, Hb, Hia, Hib in Hwin.
Qed.

Lemma wf_json_filters_parse l :
  forallb wf_json_filter l = true ->
  exists fs, dec_filters l = Val fs /\
             forallb (filter_okb kind_specb naddr_specb true) fs = true /\ length fs = length l.
Proof.
  unfold dec_filters. induction l as [|j l IH]; simpl.
  - intros _. exists []. repeat split.
  - intro H. apply andb_true_iff in H as [Hj Hl].
    destruct (wf_json_filter_parse j Hj) as [f [Hf Hok]]. destruct (IH Hl) as [fs [Hfs [Hoks Hlen]]].
    exists (Some f :: fs). rewrite Hf. cbn [rbind]. rewrite Hfs. cbn [rbind].
    split; [reflexivity|]. split; [cbn [forallb]; now rewrite Hok, Hoks | cbn [length]; now rewrite Hlen].
Qed.

(* ------------------------------------------------------------------ *)
(** * Messages *)

Lemma precheck_plain l rest :
  forallb word_char l = true -> label_precheck (plain_text (JArr (JStr l :: rest))) = Some l.
Proof. intro H. unfold label_precheck, plain_text. cbn. now rewrite H. Qed.

(** every text the oracle judges well-formed (written without leading white
    space) is parsed, to a message that is well-formed under NIP-01 *)
Theorem wf_json_parse j :
  wf_json_cmsg false j = true ->
  exists m, parse_client_msg (plain_text j) = Val m /\ wf_nip01 m.
Proof.
  unfold wf_json_cmsg. cbn [negb andb].
  destruct j as [| | | |[|[| | |l| |] rest]|]; try discriminate.
  unfold wf_nip01, wf_nip01b, parse_client_msg.
  destruct (str_eqb l L_EVENT) eqn:E1.
  { apply str_eqb_eq in E1. subst l. cbn [orb]. destruct rest as [|e [|x rest]]; try discriminate.
    intro H. destruct (wf_json_event_parse e H) as [ev [Hd Hok]].
    rewrite precheck_plain by reflexivity. exists (CEvent (Some ev)). split; [|exact Hok].
    rewrite <- label_event_pin, str_eqb_refl. cbn [plain_text ct_json].
    unfold dec_client_event. cbn [un_raw_array rbind]. guard_off g_cevent_arity_bad_spec.
    cbn [idx nth_error un_string rbind]. guard_off g_cevent_label_bad_spec. now rewrite Hd. }
  destruct (str_eqb l L_AUTH) eqn:E2.
  { apply str_eqb_eq in E2. subst l. cbn [orb]. destruct rest as [|e [|x rest]]; try discriminate.
    intro H. destruct (wf_json_event_parse e H) as [ev [Hd Hok]].
    rewrite precheck_plain by reflexivity. exists (CAuth (Some ev)). split; [|exact Hok].
    replace (str_eqb L_AUTH g_MsgLabelEvent) with false by reflexivity.
    replace (str_eqb L_AUTH g_MsgLabelReq) with false by reflexivity.
    replace (str_eqb L_AUTH g_MsgLabelClose) with false by reflexivity.
    rewrite <- label_auth_pin, str_eqb_refl. cbn [plain_text ct_json].
    unfold dec_client_auth. cbn [un_raw_array rbind]. guard_off g_cauth_arity_bad_spec.
    cbn [idx nth_error un_string rbind]. guard_off g_cauth_label_bad_spec. now rewrite Hd. }
  cbn [orb]. cbv iota.
  destruct (str_eqb l L_REQ) eqn:E3.
  { apply str_eqb_eq in E3. subst l. cbn [orb].
    destruct rest as [|[| | |sub| |] [|f fs]]; try discriminate.
    intro H. destruct (wf_json_filters_parse (f :: fs) H) as [gs [Hd [Hok Hlen]]].
    rewrite precheck_plain by reflexivity. exists (CReq sub gs). split.
    - replace (str_eqb L_REQ g_MsgLabelEvent) with false by reflexivity.
      rewrite <- label_req_pin, str_eqb_refl. cbn [plain_text ct_json].
      unfold dec_client_req. cbn [un_raw_array rbind].
      replace (g_creq_arity_bad _) with false
        by (symmetry; apply g_creq_arity_bad_spec; unfold zlen; simpl length; lia).
      cbn [idx nth_error un_string rbind skipn]. guard_off g_creq_label_bad_spec. now rewrite Hd.
    - cbn [cmsg_okb]. rewrite Hok, Hlen. reflexivity. }
  destruct (str_eqb l L_COUNT) eqn:E4.
  { apply str_eqb_eq in E4. subst l. cbn [orb].
    destruct rest as [|[| | |sub| |] [|f fs]]; try discriminate.
    intro H. destruct (wf_json_filters_parse (f :: fs) H) as [gs [Hd [Hok Hlen]]].
    rewrite precheck_plain by reflexivity. exists (CCount sub gs). split.
    - replace (str_eqb L_COUNT g_MsgLabelEvent) with false by reflexivity.
      replace (str_eqb L_COUNT g_MsgLabelReq) with false by reflexivity.
      replace (str_eqb L_COUNT g_MsgLabelClose) with false by reflexivity.
      replace (str_eqb L_COUNT g_MsgLabelAuth) with false by reflexivity.
      rewrite <- label_count_pin, str_eqb_refl. cbn [plain_text ct_json].
      unfold dec_client_count. cbn [un_raw_array rbind].
      replace (g_ccount_arity_bad _) with false
        by (symmetry; apply g_ccount_arity_bad_spec; unfold zlen; simpl length; lia).
      cbn [idx nth_error un_string rbind skipn]. guard_off g_ccount_label_bad_spec. now rewrite Hd.
    - cbn [cmsg_okb]. rewrite Hok, Hlen. reflexivity. }
  cbn [orb]. cbv iota.
  destruct (str_eqb l L_CLOSE) eqn:E5; [|discriminate].
  apply str_eqb_eq in E5. subst l.
  destruct rest as [|[| | |sub| |] [|x rest]]; try discriminate. intros _.
  rewrite precheck_plain by reflexivity. exists (CClose sub). split; [|reflexivity].
  replace (str_eqb L_CLOSE g_MsgLabelEvent) with false by reflexivity.
  replace (str_eqb L_CLOSE g_MsgLabelReq) with false by reflexivity.
  rewrite <- label_close_pin, str_eqb_refl. cbn [plain_text ct_json].
  unfold dec_client_close. cbn [un_string_array rmapM un_string rbind]. guard_off g_cclose_arity_bad_spec.
  cbn [idx nth_error rbind]. guard_off g_cclose_label_bad_spec. reflexivity.
Qed.
