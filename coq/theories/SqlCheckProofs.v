(* SqlCheckProofs.v — C06 / C14: the model side of the correspondence
   evaluators (SqlCheckBase.v) accepts the model's own answer: an
   implementation that answers exactly as the model never produces a model
   difference, whatever the query. *)
From Moc Require Import Base Match Sql SqlSpec SqlLemmas SqlCheckBase.
Open Scope Z_scope.

Lemma remove_first_hd x l : remove_first x (x :: l) = Some l.
Proof. cbn [remove_first]. now rewrite ev_eqb_refl. Qed.

Lemma perm_b_refl l : perm_b l l = true.
Proof. induction l as [|x l IH]; [reflexivity|]. cbn [perm_b]. now rewrite remove_first_hd. Qed.

Lemma list_eqb_Z_refl (l : list Z) : list_eqb Z.eqb l l = true.
Proof. induction l as [|x l IH]; [reflexivity|]. cbn [list_eqb]. now rewrite Z.eqb_refl, IH. Qed.

Lemma level_eq_refl l : level_eq l l = true.
Proof. unfold level_eq. now rewrite list_eqb_Z_refl, perm_b_refl. Qed.

Theorem model_accepts_own_answer s fs ml :
  model_accepts s fs ml (match query s fs ml with Some q => QOk q | None => QErr end) = true.
Proof.
  unfold model_accepts. destruct (query s fs ml) as [q|]; [|reflexivity]. now rewrite level_eq_refl.
Qed.
