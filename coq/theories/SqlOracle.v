(* SqlOracle.v — C06: the boolean oracle of SqlSpec.v reflects the
   specification: [storedb], [deletedb], [liveb], [live_list], the sortedness
   and duplicate tests.  The reflection of the merge test [union_topn_ok] is in
   SqlMerge.v ([union_topn_ok_spec], [query_specb_spec]); small hand-checked
   instances are at the end of this file. *)
From Moc Require Import Base Match Sql SqlSpec SqlLemmas.
Open Scope Z_scope.

Lemma stored_scan_spec a x es :
  stored_scan a x es = true <->
  exists pre post, es = pre ++ x :: post /\
    (forall y, In y pre -> has_address a y = true -> ev_ts y < ev_ts x) /\
    (forall y, In y post -> has_address a y = true -> ev_ts y <= ev_ts x).
Proof.
  induction es as [|y es IH]; simpl.
  - split; [discriminate | intros [pre [post [E _]]]; destruct pre; discriminate].
  - destruct (ev_eqb y x) eqn:E.
    + apply ev_eqb_eq in E. subst y. rewrite forallb_forall. split.
      * intro H. exists [], es. split; [reflexivity|]. split; [intros y []|].
        intros y Hy Ay. specialize (H y Hy). apply lor_true in H. destruct H as [H|H].
        -- now apply Z.leb_le in H.
        -- rewrite Ay in H. discriminate.
      * intros [pre [post [Eq [Hpre Hpost]]]] y Hy. apply lor_true.
        destruct (has_address a y) eqn:Ay; [left | now right]. apply Z.leb_le.
        destruct pre as [|p pre]; simpl in Eq; [injection Eq as Hes; subst es | injection Eq as Hp Hes; subst p es].
        -- now apply Hpost.
        -- (* x occurs in pre as its own first element: impossible unless it has another address *)
           destruct (has_address a x) eqn:Ax.
           ++ exfalso. assert (ev_ts x < ev_ts x); [|lia]. apply Hpre; [now left | assumption].
           ++ (* x does not carry address a: then y, with address a, is compared with ts x as specified *)
              apply in_app_iff in Hy. destruct Hy as [Hy|[<- |Hy]].
              ** apply Z.lt_le_incl. apply Hpre; [now right | assumption].
              ** lia.
              ** now apply Hpost.
    + apply ev_eqb_neq in E. rewrite land_true, lor_true, IH. split.
      * intros [Hy [pre [post [-> [Hpre Hpost]]]]]. exists (y :: pre), post. split; [reflexivity|].
        split; [|assumption]. intros z [<- |Hz] Az; [|now apply Hpre].
        destruct Hy as [Hy|Hy]; [now apply Z.ltb_lt in Hy | rewrite Az in Hy; discriminate].
      * intros [pre [post [Eq [Hpre Hpost]]]]. destruct pre as [|p pre]; simpl in Eq; [injection Eq as Hy' Hes; subst es | injection Eq as Hp Hes; subst p es].
        -- congruence.
        -- split.
           ++ destruct (has_address a y) eqn:Ap; [left | now right]. apply Z.ltb_lt. apply Hpre; [now left | exact Ap].
           ++ exists pre, post. split; [reflexivity|]. split; [|assumption].
              intros z Hz. apply Hpre. now right.
Qed.

Theorem storedb_spec es x : storedb es x = true <-> stored es x.
Proof.
  unfold storedb, stored. rewrite !land_true, mem_event_In.
  destruct (address x) as [a|]; [rewrite stored_scan_spec|]; tauto.
Qed.

Theorem deletedb_spec es x : deletedb es x = true <-> deleted es x.
Proof.
  unfold deletedb, deleted. rewrite existsb_exists. split.
  - intros [d [Hd H]]. apply land_true in H. destruct H as [H H3]. apply land_true in H. destruct H as [H1 H2].
    apply Z.eqb_eq in H1. apply str_eqb_eq in H2. apply existsb_exists in H3. destruct H3 as [t [Ht Hr]].
    exists d, t. auto.
  - intros [d [t [Hd [K [P [Ht Hr]]]]]]. exists d. split; [assumption|].
    rewrite K, P, str_eqb_refl. simpl. apply existsb_exists. eauto.
Qed.

Theorem liveb_spec es x : liveb es x = true <-> live es x.
Proof.
  unfold liveb, live. rewrite land_true, negb_true_iff, storedb_spec, <- deletedb_spec.
  destruct (deletedb es x); split; intros [A B]; split; auto; try discriminate; try congruence.
  all: try (exfalso; now apply B).
Qed.

Theorem live_list_spec es x : In x (live_list es) <-> live es x.
Proof.
  unfold live_list, dedup_events. rewrite (dedup_In ev_eqb ev_eqb_eq), filter_In, liveb_spec. split.
  - tauto.
  - intro L. split; [|intros []]. split; [|assumption]. destruct L as [S _]. now apply S.
Qed.

Theorem live_list_NoDup es : NoDup (live_list es).
Proof. apply (dedup_NoDup ev_eqb ev_eqb_eq). Qed.

Lemma nodupb_spec l : nodupb l = true <-> NoDup l.
Proof.
  induction l as [|x l IH]; simpl.
  - split; [constructor | reflexivity].
  - rewrite land_true, negb_true_iff, mem_event_false, IH. split.
    + intros [A B]. now constructor.
    + intro H. inversion H. auto.
Qed.

Lemma desc_sortedb_spec l : desc_sortedb l = true <-> desc_sorted l.
Proof.
  induction l as [|x l IH]; simpl.
  - tauto.
  - rewrite land_true, forallb_forall, IH. split.
    + intros [A B]. split; [|assumption]. intros y Hy. apply Z.leb_le. now apply A.
    + intros [A B]. split; [|assumption]. intros y Hy. apply Z.leb_le. now apply A.
Qed.

Lemma ids_functionalb_spec es : ids_functionalb es = true <-> ids_functional es.
Proof.
  unfold ids_functionalb, ids_functional. rewrite forallb_forall. split.
  - intros H x y Hx Hy E. specialize (H x Hx). rewrite forallb_forall in H. specialize (H y Hy).
    apply lor_true in H. destruct H as [H|H].
    + apply negb_true_iff, str_eqb_neq in H. contradiction.
    + now apply ev_eqb_eq in H.
  - intros H x Hx. apply forallb_forall. intros y Hy. apply lor_true.
    destruct (str_eqb (ev_id x) (ev_id y)) eqn:E; [right | now left].
    apply str_eqb_eq in E. apply ev_eqb_eq. now apply H.
Qed.

(* ------------------------------------------------------------------ *)
(** * [union_topn_ok] on small hand-checked instances *)

Definition ue (i : N) (ts : Z) : event := mkEvent [i] [] ts 1 [] [] [].
Definition a9 := ue 1 9.  Definition b7 := ue 2 7.  Definition c7 := ue 3 7.
Definition d7 := ue 4 7.  Definition e5 := ue 5 5.

(** one filter, limit 2 over {9, 7, 7, 7, 5}: the 9 and any one of the 7s *)
Example union_one_filter_ok :
  forallb (fun out => union_topn_ok [([a9; b7; c7; d7; e5], Some 2)] None out)
          [[a9; b7]; [a9; c7]; [a9; d7]] = true.
Proof. vm_compute. reflexivity. Qed.

Example union_one_filter_rejects :
  existsb (fun out => union_topn_ok [([a9; b7; c7; d7; e5], Some 2)] None out)
          [ [a9];             (* too few *)
            [a9; b7; c7];     (* too many *)
            [b7; c7];         (* the newest is missing *)
            [a9; e5];         (* an older one instead of a 7 *)
            [b7; a9];         (* not sorted *)
            [a9; a9];         (* duplicate *)
            [a9; ue 6 7] ]    (* not a candidate *)
  = false.
Proof. vm_compute. reflexivity. Qed.

(** two filters cutting the same level: limit 1 over {7,7,7} and limit 2 over
    {9,7,7}: the union has the 9, and one or two 7s of which at least one is b7/c7 *)
Example union_two_filters_ok :
  forallb (fun out => union_topn_ok [([b7; c7; d7], Some 1); ([a9; b7; c7], Some 2)] None out)
          [[a9; b7]; [a9; c7]; [a9; b7; c7]; [a9; d7; b7]; [a9; c7; d7]] = true.
Proof. vm_compute. reflexivity. Qed.

Example union_two_filters_rejects :
  existsb (fun out => union_topn_ok [([b7; c7; d7], Some 1); ([a9; b7; c7], Some 2)] None out)
          [ [a9; d7];            (* the second filter's 7 is missing *)
            [a9; b7; c7; d7];    (* three 7s: one more than the limits admit *)
            [b7];                (* the 9 is missing *)
            [a9] ]
  = false.
Proof. vm_compute. reflexivity. Qed.

(** limit 0 admits nothing; no limit admits exactly everything *)
Example union_limit0_and_nolimit :
  union_topn_ok [([a9; b7], Some 0)] None [] = true /\
  union_topn_ok [([a9; b7], Some 0)] None [a9] = false /\
  union_topn_ok [([a9; b7], None)] None [a9; b7] = true /\
  union_topn_ok [([a9; b7], None)] None [a9] = false.
Proof. vm_compute. repeat split; reflexivity. Qed.

(** the outer limit (more instances in SqlMerge.v) *)
Example union_outer_limit :
  union_topn_ok [([a9; b7; e5], None)] (Some 3) [a9; b7; e5] = true /\
  union_topn_ok [([a9; b7; e5], None)] (Some 3) [a9; b7] = false /\
  union_topn_ok [([a9; b7; e5], None)] (Some 2) [a9; b7] = true /\
  union_topn_ok [([a9; b7; e5], None)] (Some 2) [a9; b7; e5] = false.
Proof. vm_compute. repeat split; reflexivity. Qed.
