(* RouterOnce.v — C07: at most one copy per subscription and publication, and
   publication order per publisher, in every reachable state. *)
From Moc Require Import Base Match Router RouterLemmas RouterFrame RouterTrans RouterData RouterMust RouterEnv RouterInv RouterDataInv.
From Moc.Gen Require Import GenRouter.
From Coq Require Import Sorted.
Open Scope Z_scope.

Definition is_drop (sub : str) (t : ptag) (d : str * event * ptag) : bool :=
  str_eqb sub (fst (fst d)) && ptag_eqb t (snd d).

(** copies for (sub, t) that connection state [st] has seen: enqueued or dropped *)
Definition total (st : cst) (sub : str) (t : ptag) : nat :=
  (count_occ_b (is_copy sub t) (evs st) + count_occ_b (is_drop sub t) (c_drops st))%nat.

Lemma count_zero_notin {A} (f : A -> bool) l : (forall a, In a l -> f a = false) -> count_occ_b f l = 0%nat.
Proof.
  induction l as [|a l IH]; intro H; simpl; [reflexivity|].
  rewrite (H a (or_introl eq_refl)). apply IH. intros b Hb. apply H. now right.
Qed.

Lemma count_le_incl_filter {A} (f g : A -> bool) l : (count_occ_b f (filter g l) <= count_occ_b f l)%nat.
Proof.
  induction l as [|a l IH]; simpl; [lia|]. destruct (g a); simpl; destruct (f a); lia.
Qed.

(** a tag that has not been issued yet has no copies *)
Lemma fresh_total s x sub t : DInv s -> ~ tag_lt s t -> total (r_cs s x) sub t = 0%nat.
Proof.
  intros D Hn. unfold total. rewrite !count_zero_notin; [reflexivity | |].
  - intros [[sb e] t'] Hin. unfold is_drop. cbn.
    destruct (ptag_eqb t t') eqn:E; [|apply andb_false_r].
    apply ptag_eqb_eq in E. subst t'. exfalso. apply Hn. now destruct (d_just_drop s D x sb e t Hin).
  - intros m Hin. destruct m as [| | |sb e t']; try reflexivity. cbn.
    destruct (ptag_eqb t t') eqn:E; [|apply andb_false_r].
    apply ptag_eqb_eq in E. subst t'. exfalso. apply Hn. now destruct (d_just s D x sb e t Hin).
Qed.

Record OInv (s : rstate) : Prop := mkOInv {
  o_once : forall x sub t, (total (r_cs s x) sub t <= 1)%nat;
  o_visit : forall p e n x todo rest sub,
      c_pc (r_cs s p) = IVisit e (p, n) x todo :: rest -> In sub (List.map fst todo) ->
      total (r_cs s x) sub (p, n) = 0%nat;
  o_pub : forall p e n rem x sub,
      In (IPub e (p, n) rem) (c_pc (r_cs s p)) -> In x rem -> total (r_cs s x) sub (p, n) = 0%nat
}.

Lemma OInv_init buf : OInv (r_init buf).
Proof. constructor; cbn; intros; try contradiction; try discriminate. unfold total. cbn. lia. Qed.

(** the effect of a transition on [total] *)
Lemma total_trans s l s' x sub t :
  trans s l s' ->
  (total (r_cs s' x) sub t <= total (r_cs s x) sub t)%nat \/
  (exists c e todo rest fs,
      l = LRun c /\ c_pc (r_cs s c) = IVisit e t x ((sub, fs) :: todo) :: rest /\
      total (r_cs s' x) sub t = S (total (r_cs s x) sub t)).
Proof.
  intro T. unfold total.
  destruct (evs_trans s l s' x T) as [E Dr _|c e t0 sub0 fs0 todo rest El Hpc Hm _ E _ _ Dr|c e t0 sub0 fs0 todo rest El Hpc Hm _ E _ _ Dr|rest _ _ E _ _ Dr].
  - left. rewrite E, Dr. lia.
  - rewrite E, Dr, count_occ_b_app. cbn [count_occ_b is_copy].
    destruct (str_eqb sub sub0 && ptag_eqb t t0) eqn:B.
    + right. apply andb_true_iff in B as [B1 B2]. apply str_eqb_eq in B1. apply ptag_eqb_eq in B2. subst sub0 t0.
      exists c, e, todo, rest, fs0. repeat split; auto. lia.
    + left. lia.
  - rewrite E, Dr, count_occ_b_app. cbn [count_occ_b is_drop fst snd].
    destruct (str_eqb sub sub0 && ptag_eqb t t0) eqn:B.
    + right. apply andb_true_iff in B as [B1 B2]. apply str_eqb_eq in B1. apply ptag_eqb_eq in B2. subst sub0 t0.
      exists c, e, todo, rest, fs0. repeat split; auto. lia.
    + left. lia.
  - left. rewrite E, Dr. rewrite evs_split, !count_occ_b_app.
    pose proof (count_le_incl_filter (is_copy sub t) is_event_msg (c_out (r_cs s x))). lia.
Qed.
