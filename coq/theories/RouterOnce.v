(* RouterOnce.v — C07: at most one copy per subscription and publication, and
   publication order per publisher, in every reachable state. *)
From Moc Require Import Base Match Router RouterLemmas RouterFrame RouterTrans RouterData RouterMust RouterEnv RouterInv RouterDataInv.
From Moc.Gen Require Import GenRouter.
From Coq Require Import Sorted.
Open Scope Z_scope.

Definition is_drop (sub : str) (t : ptag) (d : str * event * ptag) : bool :=
  str_eqb sub (fst (fst d)) && ptag_eqb t (snd d).

(** copies for (sub, t) that connection state [st] has seen: enqueued or dropped *)
Definition total (st : cst) (sub : str) (t : ptag) : nat :=
  (count_occ_b (is_copy sub t) (evs st) + count_occ_b (is_drop sub t) (c_drops st))%nat.

Lemma count_zero_notin {A} (f : A -> bool) l : (forall a, In a l -> f a = false) -> count_occ_b f l = 0%nat.
Proof.
  induction l as [|a l IH]; intro H; simpl; [reflexivity|].
  rewrite (H a (or_introl eq_refl)). apply IH. intros b Hb. apply H. now right.
Qed.

Lemma count_le_incl_filter {A} (f g : A -> bool) l : (count_occ_b f (filter g l) <= count_occ_b f l)%nat.
Proof.
  induction l as [|a l IH]; simpl; [lia|]. destruct (g a); simpl; destruct (f a); lia.
Qed.

(** a tag that has not been issued yet has no copies *)
Lemma fresh_total s x sub t : DInv s -> ~ tag_lt s t -> total (r_cs s x) sub t = 0%nat.
Proof.
  intros D Hn. unfold total. rewrite !count_zero_notin; [reflexivity | |].
  - intros [[sb e] t'] Hin. unfold is_drop. cbn.
    destruct (ptag_eqb t t') eqn:E; [|apply andb_false_r].
    apply ptag_eqb_eq in E. subst t'. exfalso. apply Hn. now destruct (d_just_drop s D x sb e t Hin).
  - intros m Hin. destruct m as [| | |sb e t']; try reflexivity. cbn.
    destruct (ptag_eqb t t') eqn:E; [|apply andb_false_r].
    apply ptag_eqb_eq in E. subst t'. exfalso. apply Hn. now destruct (d_just s D x sb e t Hin).
Qed.

Record OInv (s : rstate) : Prop := mkOInv {
  o_once : forall x sub t, (total (r_cs s x) sub t <= 1)%nat;
  o_visit : forall p e n x todo rest sub,
      c_pc (r_cs s p) = IVisit e (p, n) x todo :: rest -> In sub (List.map fst todo) ->
      total (r_cs s x) sub (p, n) = 0%nat;
  o_pub : forall p e n rem x sub,
      In (IPub e (p, n) rem) (c_pc (r_cs s p)) -> In x rem -> total (r_cs s x) sub (p, n) = 0%nat
}.

Lemma OInv_init buf : OInv (r_init buf).
Proof. constructor; cbn; intros; try contradiction; try discriminate. unfold total. cbn. lia. Qed.

(** the effect of a transition on [total] *)
Lemma total_trans s l s' x sub t :
  trans s l s' ->
  (total (r_cs s' x) sub t <= total (r_cs s x) sub t)%nat \/
  (exists c e todo rest fs,
      l = LRun c /\ c_pc (r_cs s c) = IVisit e t x ((sub, fs) :: todo) :: rest /\
      total (r_cs s' x) sub t = S (total (r_cs s x) sub t)).
Proof.
  intro T. unfold total.
  destruct (evs_trans s l s' x T) as [E Dr _|c e t0 sub0 fs0 todo rest El Hpc Hm _ E _ _ Dr|c e t0 sub0 fs0 todo rest El Hpc Hm _ E _ _ Dr|rest _ _ E _ _ Dr].
  - left. rewrite E, Dr. lia.
  - rewrite E, Dr, count_occ_b_app. cbn [count_occ_b].
    change (is_copy sub t (MEvent sub0 e t0)) with (str_eqb sub sub0 && ptag_eqb t t0).
    destruct (str_eqb sub sub0 && ptag_eqb t t0) eqn:B.
    + right. apply andb_true_iff in B as [B1 B2]. apply str_eqb_eq in B1. apply ptag_eqb_eq in B2. subst sub0 t0.
      exists c, e, todo, rest, fs0. repeat split; auto. lia.
    + left. lia.
  - rewrite E, Dr, count_occ_b_app. cbn [count_occ_b].
    change (is_drop sub t (sub0, e, t0)) with (str_eqb sub sub0 && ptag_eqb t t0).
    destruct (str_eqb sub sub0 && ptag_eqb t t0) eqn:B.
    + right. apply andb_true_iff in B as [B1 B2]. apply str_eqb_eq in B1. apply ptag_eqb_eq in B2. subst sub0 t0.
      exists c, e, todo, rest, fs0. repeat split; auto. lia.
    + left. lia.
  - left. rewrite E, Dr. rewrite evs_split, !count_occ_b_app.
    pose proof (count_le_incl_filter (is_copy sub t) is_event_msg (c_out (r_cs s x))). lia.
Qed.

(** with the control invariant the sender of a copy tagged (p, n) is p *)
Lemma total_trans_p s l s' x sub p n :
  Inv s -> trans s l s' ->
  (total (r_cs s' x) sub (p, n) <= total (r_cs s x) sub (p, n))%nat \/
  (l = LRun p /\ exists e todo rest fs,
      c_pc (r_cs s p) = IVisit e (p, n) x ((sub, fs) :: todo) :: rest /\
      total (r_cs s' x) sub (p, n) = S (total (r_cs s x) sub (p, n))).
Proof.
  intros I T. destruct (total_trans s l s' x sub (p, n) T) as [H|(c & e & todo & rest & fs & El & Hpc & E)]; [now left|].
  right. pose proof (inv_pc s I c) as P. rewrite Hpc in P.
  destruct (pc_ok_inv_visit _ _ _ _ _ _ _ P) as (n' & rem & id & Et & _). inversion Et; subst c n'.
  split; [assumption|]. eauto 6.
Qed.

Lemma in_map_fst {A B} (k : A) (v : B) l : In (k, v) l -> In k (List.map fst l).
Proof. intro H. change k with (fst (k, v)). now apply in_map. Qed.

Theorem OInv_trans s l s' : Inv s -> DInv s -> OInv s -> trans s l s' -> OInv s'.
Proof.
  intros I D O T.
  assert (Hact : forall c p, label_of_conn p (LRun c) = true -> p = c)
    by (intros c p H; cbn in H; now apply Nat.eqb_eq in H).
  constructor.
  - (* at most once *)
    intros x sub [p n].
    destruct (total_trans_p s l s' x sub p n I T) as [H|(_ & e & todo & rest & fs & Hpc & E)].
    + pose proof (o_once s O x sub (p, n)). lia.
    + rewrite E. rewrite (o_visit s O p e n x _ rest sub Hpc); [lia | now left].
  - (* entries still to be handed over have no copy yet *)
    intros p e n x todo rest sub Hpc' Hin.
    destruct (label_of_conn p l) eqn:Hl.
    + inversion T; subst; cbn [label_of_conn] in Hl; try discriminate;
        try (apply Hact in Hl; subst p); cbn [r_cs with_cs] in Hpc'; rewrite ?upd_same in Hpc'; cbn in Hpc'.
      * (* op *) destruct o; cbn in Hpc'; try discriminate; destruct (reg_get c (r_reg s)); discriminate.
      * pose proof (inv_pc s I c) as P. rewrite H in P. destruct (pc_ok_inv_regadd _ _ _ P) as (? & ? & -> & _). discriminate.
      * pose proof (inv_pc s I c) as P. rewrite H in P. destruct (pc_ok_inv_subadd _ _ _ _ _ P) as (-> & _). discriminate.
      * pose proof (inv_pc s I c) as P. rewrite H in P. destruct (pc_ok_inv_subadd _ _ _ _ _ P) as (-> & _). discriminate.
      * pose proof (inv_pc s I c) as P. rewrite H in P. rewrite (pc_ok_inv_subdel _ _ _ _ P) in Hpc'. discriminate.
      * pose proof (inv_pc s I c) as P. rewrite H in P. rewrite (pc_ok_inv_subdel _ _ _ _ P) in Hpc'. discriminate.
      * pose proof (inv_pc s I c) as P. rewrite H in P.
        destruct i; cbn in H0; try contradiction.
        -- destruct (pc_ok_inv_eose _ _ _ _ P) as [-> _]. discriminate.
        -- rewrite (pc_ok_inv_count _ _ _ _ P) in Hpc'. discriminate.
        -- rewrite (pc_ok_inv_ok _ _ _ _ P) in Hpc'. discriminate.
      * discriminate.
      * pose proof (inv_pc s I c) as P. rewrite H in P.
        destruct (pc_ok_inv_pub _ _ _ _ _ _ P) as (? & ? & _ & -> & _). discriminate.
      * (* visit: p enters x's map *)
        assert (p = c) by (destruct H1 as [->|[-> _]]; cbn in Hl; now apply Nat.eqb_eq in Hl). subst p.
        unfold start_visit in Hpc'. cbn [r_cs with_cs] in Hpc'.
        rewrite (pc_upd2 _ _ _ _ (fun st => set_rd st (c :: c_rd st))) in Hpc' by (intro; reflexivity).
        rewrite upd_same in Hpc'. cbn in Hpc'. inversion Hpc'; subst e0 t c' todo rest.
        destruct (total_trans_p s l _ x sub c n I T) as [Hle|(El & e1 & todo1 & rest1 & fs1 & Hpc1 & _)].
        -- assert (Z0 : total (r_cs s x) sub (c, n) = 0%nat).
           { eapply (o_pub s O c e n rem x sub); [rewrite H; now left | assumption]. }
           lia.
        -- rewrite H in Hpc1. discriminate.
      * (* visitend *)
        rewrite (pc_upd2 _ _ _ _ (fun st => set_rd st (remove_conn c (c_rd st)))) in Hpc' by (intro; reflexivity).
        rewrite upd_same in Hpc'. cbn in Hpc'.
        pose proof (inv_pc s I c) as P. rewrite H in P.
        destruct (pc_ok_inv_visit _ _ _ _ _ _ _ P) as (? & ? & ? & _ & -> & _). discriminate.
      * (* send: the entry just handled is not in the tail *)
        rewrite (pc_upd2 _ _ _ _ (send_if_match (r_buf s) e0 t sub0 fs)) in Hpc' by (intro; apply ctl_send_if_match).
        rewrite upd_same in Hpc'. cbn in Hpc'. inversion Hpc'; subst e0 t c' todo0 rest0.
        pose proof (inv_pc s I c) as P. rewrite H in P.
        destruct (pc_ok_inv_visit _ _ _ _ _ _ _ P) as (n' & rem & id & Et & _ & _ & _ & _ & _ & _ & NDt & _).
        cbn in NDt. inversion NDt as [|? ? Hnotin _]; subst.
        assert (Z0 : total (r_cs s x) sub (c, n) = 0%nat).
        { eapply (o_visit s O c e n x _ _ sub H). cbn. now right. }
        destruct (total_trans_p s (LRun c) _ x sub c n I T) as [Hle|(_ & e1 & todo1 & rest1 & fs1 & Hpc1 & _)]; [lia|].
        rewrite H in Hpc1. inversion Hpc1; subst. contradiction.
      * pose proof (inv_pc s I c) as P. rewrite H in P. destruct (pc_ok_inv_unsuball _ _ _ P) as [-> _]. discriminate.
      * (* cancel *) exact (o_visit s O c e n x todo rest sub Hpc' Hin).
      * (* skip *)
        pose proof (inv_pc s I c) as P. rewrite H in P.
        destruct i; cbn in H0; try contradiction.
        -- destruct (pc_ok_inv_eose _ _ _ _ P) as [-> _]. discriminate.
        -- rewrite (pc_ok_inv_count _ _ _ _ P) in Hpc'. discriminate.
        -- rewrite (pc_ok_inv_ok _ _ _ _ P) in Hpc'. discriminate.
      * (* defer *) discriminate.
    + destruct (ctl_fields _ _ (trans_ctl_other s l s' p T Hl)) as (Epc & _). rewrite Epc in Hpc'.
      pose proof (o_visit s O p e n x todo rest sub Hpc' Hin) as Z0.
      destruct (total_trans_p s l s' x sub p n I T) as [Hle|(El & _)]; [lia|].
      subst l. cbn in Hl. now rewrite Nat.eqb_refl in Hl.
  - (* connections still to be visited have no copy yet *)
    intros p e n rem x sub Hin' Hx.
    assert (Keep : forall rem2, In (IPub e (p, n) rem2) (c_pc (r_cs s p)) -> In x rem2 ->
                   (forall e1 todo1 rest1 fs1, c_pc (r_cs s p) <> IVisit e1 (p, n) x ((sub, fs1) :: todo1) :: rest1) ->
                   total (r_cs s' x) sub (p, n) = 0%nat).
    { intros rem2 Hin Hx2 Hno. pose proof (o_pub s O p e n rem2 x sub Hin Hx2) as Z0.
      destruct (total_trans_p s l s' x sub p n I T) as [Hle|(_ & e1 & todo1 & rest1 & fs1 & Hpc1 & _)]; [lia|].
      exfalso. eapply Hno. eassumption. }
    destruct (label_of_conn p l) eqn:Hl.
    + inversion T; subst; cbn [label_of_conn] in Hl; try discriminate;
        try (apply Hact in Hl; subst p); cbn [r_cs with_cs] in Hin'; rewrite ?upd_same in Hin'; cbn in Hin'.
      * (* op *) exfalso. destruct o; cbn in Hin'; [destruct (reg_get c (r_reg s)) | destruct (reg_get c (r_reg s)) | | |];
          cbn in Hin'; intuition discriminate.
      * apply (Keep rem); [rewrite H; now right | assumption | intros; rewrite H; discriminate].
      * apply (Keep rem); [rewrite H; now right | assumption | intros; rewrite H; discriminate].
      * apply (Keep rem); [rewrite H; now right | assumption | intros; rewrite H; discriminate].
      * apply (Keep rem); [rewrite H; now right | assumption | intros; rewrite H; discriminate].
      * apply (Keep rem); [rewrite H; now right | assumption | intros; rewrite H; discriminate].
      * apply (Keep rem); [rewrite H; now right | assumption | intros; rewrite H; destruct i; cbn in H0; try contradiction; discriminate].
      * (* pubbegin: a fresh tag *)
        destruct Hin' as [E|Hin'].
        -- inversion E; subst e0 n rem.
           assert (Z0 : total (r_cs s x) sub (c, c_ctr (r_cs s c)) = 0%nat).
           { apply fresh_total; [assumption|]. unfold tag_lt. cbn. lia. }
           destruct (total_trans_p s (LRun c) _ x sub c (c_ctr (r_cs s c)) I T) as [Hle|(_ & e1 & todo1 & rest1 & fs1 & Hpc1 & _)]; [lia|].
           rewrite H in Hpc1. discriminate.
        -- apply (Keep rem); [rewrite H; now right | assumption | intros; rewrite H; discriminate].
      * apply (Keep rem); [rewrite H; now right | assumption | intros; rewrite H; discriminate].
      * (* visit *)
        assert (p = c) by (destruct H1 as [->|[-> _]]; cbn in Hl; now apply Nat.eqb_eq in Hl). subst p.
        unfold start_visit in Hin'. cbn [r_cs with_cs] in Hin'.
        rewrite (pc_upd2 _ _ _ _ (fun st => set_rd st (c :: c_rd st))) in Hin' by (intro; reflexivity).
        rewrite upd_same in Hin'. cbn in Hin'.
        destruct Hin' as [E|[E|Hin']]; [discriminate | |].
        -- inversion E; subst e0 t rem. apply remove_conn_In in Hx as [_ Hx].
           apply (Keep rem0); [rewrite H; now left | assumption | intros; rewrite H; discriminate].
        -- apply (Keep rem); [rewrite H; now right | assumption | intros; rewrite H; discriminate].
      * (* visitend *)
        rewrite (pc_upd2 _ _ _ _ (fun st => set_rd st (remove_conn c (c_rd st)))) in Hin' by (intro; reflexivity).
        rewrite upd_same in Hin'. cbn in Hin'.
        apply (Keep rem); [rewrite H; now right | assumption |].
        intros e1 todo1 rest1 fs1 E. rewrite H in E. discriminate.
      * (* send *)
        rewrite (pc_upd2 _ _ _ _ (send_if_match (r_buf s) e0 t sub0 fs)) in Hin' by (intro; apply ctl_send_if_match).
        rewrite upd_same in Hin'. cbn in Hin'. destruct Hin' as [E|Hin']; [discriminate|].
        pose proof (inv_pc s I c) as P. rewrite H in P.
        destruct (pc_ok_inv_visit _ _ _ _ _ _ _ P) as (n' & rem' & id & Et & Er & _ & _ & _ & Hnotin & _).
        subst rest. destruct Hin' as [E|[E|[]]]; [|discriminate]. inversion E; subst e0 n' rem'.
        apply (Keep rem); [rewrite H; right; now left | assumption |].
        intros e1 todo1 rest1 fs1 E1. rewrite H in E1. inversion E1; subst. contradiction.
      * apply (Keep rem); [rewrite H; now right | assumption | intros; rewrite H; discriminate].
      * (* cancel *)
        pose proof (o_pub s O c e n rem x sub Hin' Hx) as Z0.
        destruct (total_trans_p s _ _ x sub c n I T) as [Hle|(El & _)]; [lia | discriminate].
      * (* skip *)
        exfalso. pose proof (inv_pc s I c) as P. rewrite H in P.
        destruct i; cbn in H0; try contradiction.
        -- destruct (pc_ok_inv_eose _ _ _ _ P) as [-> _]. contradiction.
        -- rewrite (pc_ok_inv_count _ _ _ _ P) in Hin'. contradiction.
        -- rewrite (pc_ok_inv_ok _ _ _ _ P) in Hin'. contradiction.
      * (* defer *) destruct Hin' as [X|[]]. discriminate.
    + destruct (ctl_fields _ _ (trans_ctl_other s l s' p T Hl)) as (Epc & _). rewrite Epc in Hin'.
      pose proof (o_pub s O p e n rem x sub Hin' Hx) as Z0.
      destruct (total_trans_p s l s' x sub p n I T) as [Hle|(El & _)]; [lia|].
      subst l. cbn in Hl. now rewrite Nat.eqb_refl in Hl.
Qed.

Theorem OInv_reachable buf s : reachable buf s -> OInv s.
Proof.
  intro R. induction R as [|s l R IH]; [apply OInv_init|].
  destruct (step_trans s l) as [E|T]; [now rewrite E|].
  eapply OInv_trans; [eapply Inv_reachable | eapply DInv_reachable | |]; eassumption.
Qed.
