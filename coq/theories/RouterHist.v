(* RouterHist.v — C07: the timed history that a schedule of the model
   (Router.v) produces, in the form the oracles of RouterSpec.v judge.
   Definitions only; the proofs that the oracles accept every such history
   are in RouterHist*.v.

   The clock is the step index of the schedule.  A client operation begins at
   the step at which its [LOp] label is accepted (the connection's recv loop
   is idle and the session alive) and ends at the step at which the
   connection's program becomes empty (for REQ / EVENT / COUNT this is the
   step that hands over the reply, for a disconnect the step that runs the
   deferred UnsubscribeAll).  A CLOSE has no reply and therefore no end
   stamp, exactly as in the harness.  A message is stamped with the step
   that appended it to the connection's output.

   A disconnect begins when its label takes effect: at once for an idle
   connection, or — cancelling the session's context — while an operation of
   the connection is in flight; in that case the operation in flight ends
   when (and if) its reply is handed over.  The disconnect ends with the
   deferred UnsubscribeAll. *)
From Moc Require Import Base Match Router RouterSpec.
Open Scope Z_scope.

Definition xmsg_of (m : smsg) : xmsg :=
  match m with
  | MEose s => XEose s
  | MOk i => XOk i true true
  | MCount s => XCount s 0
  | MEvent s e _ => XEvent s e
  end.

Definition is_close (o : op) : bool := match o with OClose _ => true | _ => false end.
Definition is_none {A} (o : option A) : bool := match o with None => true | Some _ => false end.
Definition is_nil {A} (l : list A) : bool := match l with [] => true | _ :: _ => false end.

(** the operation of connection [c] that is in progress gets its end stamp:
    its disconnect if [d], else the operation its recv loop was working on *)
Definition close1 (d : bool) (c : conn) (k : Z) (h : hop) : hop :=
  if Nat.eqb (h_c h) c && is_none (h_d h) && negb (is_close (h_o h)) && Bool.eqb (is_disc (h_o h)) d
  then mkHop (h_c h) (h_o h) (h_b h) (Some k) else h.

Definition close_hop (d : bool) (c : conn) (k : Z) (H : list hop) : list hop := List.map (close1 d c k) H.

Definition is_unsub_head (pc : list instr) : bool := match pc with IUnsubAll :: _ => true | _ => false end.

Record istate := mkI {
  i_s : rstate;                          (* the model's state *)
  i_now : Z;                             (* the clock: number of steps taken *)
  i_hops : list hop;                     (* operations accepted so far, in order of their begin stamps *)
  i_outs : conn -> list (smsg * Z)       (* what each connection has received, with stamps *)
}.

Definition i_init (buf : nat) : istate := mkI (r_init buf) 0 [] (fun _ => []).

(** the recv loop of [c] takes the next client message *)
Definition accepted (s : rstate) (c : conn) : bool :=
  is_nil (c_pc (r_cs s c)) && negb (c_dead (r_cs s c)) && negb (mem_conn c (r_cancel s)).

(** ... or the label is a disconnect that cancels the context of a busy session *)
Definition op_taken (s : rstate) (c : conn) (o : op) : bool :=
  negb (c_dead (r_cs s c)) && negb (mem_conn c (r_cancel s)) && (is_nil (c_pc (r_cs s c)) || is_disc o).

Definition istep (st : istate) (l : label) : istate :=
  let s := i_s st in
  let s' := step s l in
  let k := i_now st in
  let H1 := match l with
            | LOp c o => if op_taken s c o then i_hops st ++ [mkHop c o k None] else i_hops st
            | _ => i_hops st
            end in
  let H2 := match l with
            | LRun c =>
                if negb (is_nil (c_pc (r_cs s c))) && is_nil (c_pc (r_cs s' c))
                then close_hop (is_unsub_head (c_pc (r_cs s c))) c k H1 else H1
            | _ => H1
            end in
  mkI s' (k + 1) H2
      (fun x => i_outs st x ++
                List.map (fun m => (m, k)) (skipn (length (c_out (r_cs s x))) (c_out (r_cs s' x)))).

Definition irun (st : istate) (tr : list label) : istate := fold_left istep tr st.

(** the history over connections 0 .. N-1 *)
Definition hist_of (N : nat) (st : istate) : history :=
  mkHist (Z.of_nat (r_buf (i_s st))) (i_hops st)
         (List.map (fun x => List.map (fun mr : smsg * Z => (xmsg_of (fst mr), snd mr)) (i_outs st x)) (seq 0 N))
         (repeat true N).

Definition model_history (buf N : nat) (tr : list label) : history := hist_of N (irun (i_init buf) tr).

(* ------------------------------------------------------------------ *)
(** * The hypotheses under which the oracles are sound *)

Definition label_actor (l : label) : conn :=
  match l with LOp c _ | LRun c | LVisit c _ _ | LTake c | LDeliver c | LSkip c => c end.

(** the schedule only mentions connections 0 .. N-1 *)
Definition conns_below (N : nat) (tr : list label) : Prop :=
  Forall (fun l => (label_actor l < N)%nat) tr.

(** the inputs pass the admission gate (C11) and the filter decoder (C10):
    no empty tag, no repeated tag key in a filter.  Under these the model's
    matcher is the NIP-01 predicate the oracles use (C02). *)
Definition wf_label (l : label) : Prop :=
  match l with
  | LOp _ (OEvent e) => tags_nonempty e
  | LOp _ (OReq _ fs) => Forall filter_wf fs
  | _ => True
  end.

(** every program has run to its end, every cancelled session has returned,
    and every open connection has read everything that was queued for it (the
    harness's final flush) *)
Definition quiescent (s : rstate) : Prop :=
  r_cancel s = [] /\
  forall x, c_pc (r_cs s x) = [] /\
            (c_dead (r_cs s x) = false -> c_q (r_cs s x) = [] /\ c_hand (r_cs s x) = None).

(** every accepted publication carries its own event id (the relay's
    duplicate filter sits in front of the router; the router itself delivers
    a re-published event again) *)
Definition uniq_pub_ids (h : history) : Prop :=
  NoDup (List.map (fun pe : hop * event => ev_id (snd pe)) (pubs h)).

(* ------------------------------------------------------------------ *)
(** * The canonical schedule of the deterministic layer

    A script is a list of client operations, reader pauses and resumes.  Each
    operation is run to its end before the next is issued (the connection's
    goroutine alone takes steps; a publish visits the registered connections
    in registry order and each connection's subscriptions in map order), and
    after every script item every reader that is not paused reads what is
    queued for it.  At the end every reader is resumed and reads. *)

Inductive sitem :=
| SOp (c : conn) (o : op)
| SPause (c : conn)
| SResume (c : conn)
| SCut (c : conn) (o : op) (giveup : bool).
    (* the client sends [o] and disconnects without waiting for the reply; [giveup]: the
       recv goroutine finds the context cancelled when it wants to hand over the reply *)

(** run the goroutine of [c] until its program is empty and, if its context
    was cancelled, until its deferred UnsubscribeAll has run *)
Fixpoint drive_c (fuel : nat) (st : istate) (c : conn) (giveup : bool) : istate * list label :=
  match fuel with
  | O => (st, [])
  | S f =>
      let s := i_s st in
      match c_pc (r_cs s c) with
      | [] =>
          if mem_conn c (r_cancel s)
          then let (st', tr) := drive_c f (istep st (LRun c)) c giveup in (st', LRun c :: tr)
          else (st, [])
      | i :: _ =>
          let l := if giveup && mem_conn c (r_cancel s) && is_reply_instrb i then LSkip c else LRun c in
          let (st', tr) := drive_c f (istep st l) c giveup in (st', l :: tr)
      end
  end.

(** let the reader of [x] read everything that is queued *)
Fixpoint drain_c (fuel : nat) (st : istate) (x : conn) : istate * list label :=
  match fuel with
  | O => (st, [])
  | S f =>
      if c_dead (r_cs (i_s st) x) then (st, []) else
      match c_hand (r_cs (i_s st) x), c_q (r_cs (i_s st) x) with
      | Some _, _ => let (st', tr) := drain_c f (istep st (LDeliver x)) x in (st', LDeliver x :: tr)
      | None, _ :: _ => let (st', tr) := drain_c f (istep st (LTake x)) x in (st', LTake x :: tr)
      | None, [] => (st, [])
      end
  end.

Fixpoint drain_all (st : istate) (xs : list conn) (paused : list conn) : istate * list label :=
  match xs with
  | [] => (st, [])
  | x :: xs' =>
      if mem_conn x paused then drain_all st xs' paused else
      let (st1, tr1) := drain_c (2 * length (c_q (r_cs (i_s st) x)) + 2) st x in
      let (st2, tr2) := drain_all st1 xs' paused in
      (st2, tr1 ++ tr2)
  end.

(** the number of atomic steps an operation can take: at most three registry
    steps, or per registered connection one step to enter, one per
    subscription, one to leave *)
Definition drive_fuel (s : rstate) : nat :=
  (9 + fold_right (fun cm acc => 2 + length (snd cm) + acc) 0 (r_reg s))%nat.

Fixpoint det_run (N : nat) (st : istate) (script : list sitem) (paused : list conn) : istate * list label :=
  match script with
  | [] => drain_all st (seq 0 N) []
  | SPause c :: script' => det_run N st script' (c :: paused)
  | SResume c :: script' =>
      let (st1, tr1) := drain_all st (seq 0 N) (remove_conn c paused) in
      let (st2, tr2) := det_run N st1 script' (remove_conn c paused) in
      (st2, tr1 ++ tr2)
  | SOp c o :: script' =>
      let st0 := istep st (LOp c o) in
      let (st1, tr1) := drive_c (drive_fuel (i_s st0)) st0 c false in
      let (st2, tr2) := drain_all st1 (seq 0 N) paused in
      let (st3, tr3) := det_run N st2 script' paused in
      (st3, LOp c o :: tr1 ++ tr2 ++ tr3)
  | SCut c o giveup :: script' =>
      let st0 := istep (istep st (LOp c o)) (LOp c ODisc) in
      let (st1, tr1) := drive_c (drive_fuel (i_s st0)) st0 c giveup in
      let (st2, tr2) := drain_all st1 (seq 0 N) paused in
      let (st3, tr3) := det_run N st2 script' paused in
      (st3, LOp c o :: LOp c ODisc :: tr1 ++ tr2 ++ tr3)
  end.

Definition det_schedule (buf N : nat) (script : list sitem) : list label :=
  snd (det_run N (i_init buf) script []).

Definition det_history (buf N : nat) (script : list sitem) : history :=
  hist_of N (fst (det_run N (i_init buf) script [])).
