(* Prom.v — C19: model of middleware/prometheus/prometheus.go, the history
   specification and its boolean oracle.  Definitions only; proofs are in
   PromProofs.v.

   The model is an interpreter of the tables that the guard translator
   regenerates from the source (Gen/GenProm.v): which counters each method of
   [simplePrometheusMiddlewareBase] calls, the label each message type gets,
   and, for [reqCounter], under which membership test (`ok` / `!ok`) a clause
   changes the map and the gauge.  A change of the code therefore changes the
   model, and the proofs are re-checked against what the code says now.

   Granularity: one step = one call of ServeNostrStart / ServeNostrEnd /
   ServeNostrClientMsg / ServeNostrServerMsg of the middleware base.  Inside a
   call the six counters are updated one after the other; each update is atomic
   (prometheus counters and gauges are atomic, reqCounter holds its mutex — see
   [g_prom_locks]) and the counters own disjoint state, so every finer
   interleaving of two calls has the same result as one of the two orders of
   the whole calls.  Theorems quantify over all sequences of such steps of any
   number of sessions. *)
From Moc Require Import Base.
From Moc.Gen Require Import GenProm.
Open Scope Z_scope.
Import Coq.Strings.String.StringSyntax.
Delimit Scope string_scope with string.

Definition sl (x : String.string) : str := str_of_string x.
Arguments sl x%string.

(* ------------------------------------------------------------------ *)
(** * Messages: what the counters look at, plus an identity *)

Inductive cwhat :=
| CEvent (kind : Z)          (* *ClientEventMsg, Event.Kind *)
| CReq (sub : str)           (* *ClientReqMsg *)
| CClose (sub : str)         (* *ClientCloseMsg *)
| CAuth                      (* *ClientAuthMsg *)
| CCount (sub : str)         (* *ClientCountMsg *)
| COther.                    (* any other implementation of ClientMsg *)

Inductive swhat :=
| SEose (sub : str)
| SEvent (sub : str)
| SNotice
| SOk
| SAuth
| SCount (sub : str)
| SClosed (sub : str)
| SOther.

Record pcmsg := mkCM { cm_what : cwhat; cm_uid : Z }.
Record psmsg := mkSM { sm_what : swhat; sm_uid : Z }.

(** one atomic step of the middleware, performed on behalf of session [s] *)
Inductive pstep :=
| Start (s : Z)
| End (s : Z)
| Client (s : Z) (m : pcmsg)
| Server (s : Z) (m : psmsg).

(** Go type names, as they appear in the type switches *)
Definition ctype (w : cwhat) : str :=
  match w with
  | CEvent _ => sl "ClientEventMsg" | CReq _ => sl "ClientReqMsg" | CClose _ => sl "ClientCloseMsg"
  | CAuth => sl "ClientAuthMsg" | CCount _ => sl "ClientCountMsg" | COther => sl "<other>"
  end.

Definition stype (w : swhat) : str :=
  match w with
  | SEose _ => sl "ServerEOSEMsg" | SEvent _ => sl "ServerEventMsg" | SNotice => sl "ServerNoticeMsg"
  | SOk => sl "ServerOKMsg" | SAuth => sl "ServerAuthMsg" | SCount _ => sl "ServerCountMsg"
  | SClosed _ => sl "ServerClosedMsg" | SOther => sl "<other>"
  end.

(** the field [SubscriptionID], for the message types that have one *)
Definition csub (w : cwhat) : option str :=
  match w with CReq s | CClose s | CCount s => Some s | _ => None end.
Definition ssub (w : swhat) : option str :=
  match w with SEose s | SEvent s | SCount s | SClosed s => Some s | _ => None end.
Definition ckind (w : cwhat) : option Z :=
  match w with CEvent k => Some k | _ => None end.

(* ------------------------------------------------------------------ *)
(** * State *)

(** Go maps keyed by session: association lists *)
Fixpoint zget {A} (s : Z) (m : list (Z * A)) : option A :=
  match m with
  | [] => None
  | (k, v) :: r => if k =? s then Some v else zget s r
  end.

Fixpoint zset {A} (s : Z) (v : A) (m : list (Z * A)) : list (Z * A) :=
  match m with
  | [] => [(s, v)]
  | (k, x) :: r => if k =? s then (s, v) :: r else (k, x) :: zset s v r
  end.

Definition zdel {A} (s : Z) (m : list (Z * A)) : list (Z * A) :=
  filter (fun kv => negb (fst kv =? s)) m.

Definition sremove (x : str) (l : list str) : list str :=
  filter (fun y => negb (str_eqb y x)) l.

(** counter vectors: label -> value; a child exists once it was touched *)
Fixpoint cv_get (l : str) (cv : list (str * Z)) : Z :=
  match cv with
  | [] => 0
  | (k, v) :: r => if str_eqb k l then v else cv_get l r
  end.

Fixpoint cv_inc (l : str) (cv : list (str * Z)) : list (str * Z) :=
  match cv with
  | [] => [(l, 1)]
  | (k, v) :: r => if str_eqb k l then (k, v + 1) :: r else (k, v) :: cv_inc l r
  end.

Record pstate := mkP {
  p_open : list (Z * list str);   (* reqCounter.m : session -> open subscription ids *)
  p_conn : Z;                     (* mocrelay_connection_count *)
  p_req : Z;                      (* mocrelay_req_count *)
  p_recv : list (str * Z);        (* mocrelay_recv_msg_total{type} *)
  p_kind : list (str * Z);        (* mocrelay_recv_event_total{kind} *)
  p_send : list (str * Z)         (* mocrelay_send_msg_total{type} *)
}.

Definition p_init : pstate := mkP [] 0 0 [] [] [].

Inductive presult (A : Type) := POk (a : A) | PPanic.
Arguments POk {A} a.
Arguments PPanic {A}.

(* ------------------------------------------------------------------ *)
(** * The generated tables, read the way Go executes them *)

(** a type switch: the clause naming the type, else the default clause *)
Definition switch_lookup {B} (ty : str) (tab : list (str * B)) : option B :=
  match assoc ty tab with
  | Some b => Some b
  | None => assoc (sl "default") tab
  end.

Definition dispatches (meth counter : String.string) : bool :=
  match assoc (sl meth) g_prom_dispatch with
  | Some l => mem_str (sl counter) l
  | None => false
  end.

Arguments dispatches (meth counter)%string.

Definition conn_delta (meth : String.string) : Z :=
  if dispatches meth "connectionCounter"
  then match assoc (sl meth) g_prom_conn with Some d => d | None => 0 end
  else 0.

Arguments conn_delta meth%string.

Definition recv_label (w : cwhat) : option str :=
  if dispatches "ServeNostrClientMsg" "recvMsgCounter" then switch_lookup (ctype w) g_prom_recv_labels else None.

Definition send_label (w : swhat) : option str :=
  if dispatches "ServeNostrServerMsg" "sendMsgCounter" then switch_lookup (stype w) g_prom_send_labels else None.

(** strconv.FormatInt(kind, 10) *)
Definition format_int (base k : Z) : str := if base =? 10 then showZ k else [].

Definition kind_label (w : cwhat) : option str :=
  if dispatches "ServeNostrClientMsg" "recvEventCounter" && str_eqb (ctype w) (fst g_prom_kind_rule)
  then match ckind w with Some k => Some (format_int (snd g_prom_kind_rule) k) | None => None end
  else None.

(** reqCounter: the clause for this message type and the subscription id it reads *)
Definition req_rule_c (w : cwhat) : option ((Z * (Z * Z)) * str) :=
  if dispatches "ServeNostrClientMsg" "reqCounter"
  then match switch_lookup (ctype w) g_prom_req_rules, csub w with
       | Some r, Some sub => Some (r, sub)
       | _, _ => None
       end
  else None.

Definition req_rule_s (w : swhat) : option ((Z * (Z * Z)) * str) :=
  if dispatches "ServeNostrServerMsg" "reqCounter"
  then match switch_lookup (stype w) g_prom_req_rules, ssub w with
       | Some r, Some sub => Some (r, sub)
       | _, _ => None
       end
  else None.

Definition start_fresh : bool := dispatches "ServeNostrStart" "reqCounter" && g_prom_start_fresh.
Definition end_rule : bool * bool :=
  if dispatches "ServeNostrEnd" "reqCounter" then g_prom_end_rule else (false, false).

(** One clause of reqCounter, under the mutex.  [guard] 0: `if !ok`, 1: `if ok`,
    2: unconditional.  [mapop] 1: c.m[reqID][sub] = true, 2: delete(c.m[reqID], sub).
    Reading or deleting in a nil inner map (unknown session) is harmless in Go,
    assigning to it panics. *)
Definition apply_rule (rule : Z * (Z * Z)) (s : Z) (sub : str) (st : pstate) : presult pstate :=
  let '(guard, (mapop, delta)) := rule in
  let inner := zget s (p_open st) in
  let subs := match inner with Some l => l | None => [] end in
  let present := mem_str sub subs in
  let fire := if guard =? 0 then negb present else if guard =? 1 then present else true in
  if fire then
    if mapop =? 1 then
      match inner with
      | None => PPanic
      | Some l => POk (mkP (zset s (if present then l else sub :: l) (p_open st)) (p_conn st) (p_req st + delta)
                           (p_recv st) (p_kind st) (p_send st))
      end
    else if mapop =? 2 then
      POk (mkP (match inner with Some l => zset s (sremove sub l) (p_open st) | None => p_open st end)
               (p_conn st) (p_req st + delta) (p_recv st) (p_kind st) (p_send st))
    else POk (mkP (p_open st) (p_conn st) (p_req st + delta) (p_recv st) (p_kind st) (p_send st))
  else POk st.

Definition opt_inc (l : option str) (cv : list (str * Z)) : list (str * Z) :=
  match l with Some x => cv_inc x cv | None => cv end.

Definition step (st : pstate) (x : pstep) : presult pstate :=
  match x with
  | Start s =>
      POk (mkP (if start_fresh then zset s [] (p_open st) else p_open st)
               (p_conn st + conn_delta "ServeNostrStart") (p_req st) (p_recv st) (p_kind st) (p_send st))
  | End s =>
      let cnt := Z.of_nat (length (match zget s (p_open st) with Some l => l | None => [] end)) in
      POk (mkP (if snd end_rule then zdel s (p_open st) else p_open st)
               (p_conn st + conn_delta "ServeNostrEnd")
               (if fst end_rule then p_req st - cnt else p_req st)
               (p_recv st) (p_kind st) (p_send st))
  | Client s m =>
      let w := cm_what m in
      let st1 := mkP (p_open st) (p_conn st + conn_delta "ServeNostrClientMsg") (p_req st)
                     (opt_inc (recv_label w) (p_recv st)) (opt_inc (kind_label w) (p_kind st)) (p_send st) in
      match req_rule_c w with
      | Some (r, sub) => apply_rule r s sub st1
      | None => POk st1
      end
  | Server s m =>
      let w := sm_what m in
      let st1 := mkP (p_open st) (p_conn st + conn_delta "ServeNostrServerMsg") (p_req st)
                     (p_recv st) (p_kind st) (opt_inc (send_label w) (p_send st)) in
      match req_rule_s w with
      | Some (r, sub) => apply_rule r s sub st1
      | None => POk st1
      end
  end.

Fixpoint run_from (st : pstate) (h : list pstep) : presult pstate :=
  match h with
  | [] => POk st
  | x :: r => match step st x with POk st' => run_from st' r | PPanic => PPanic end
  end.

Definition run (h : list pstep) : presult pstate := run_from p_init h.

(** what the middleware hands on: the message itself, [g_prom_*_forward] times
    (ServeNostrClientMsg returns a nil reply channel, so nothing else) *)
Inductive pout :=
| ToHandler (s : Z) (m : pcmsg)
| ToClient (s : Z) (m : psmsg).

Definition emits (x : pstep) : list pout :=
  match x with
  | Client s m => List.map (ToHandler s) (repeat m (Z.to_nat g_prom_client_forward))
  | Server s m => List.map (ToClient s) (repeat m (Z.to_nat g_prom_server_forward))
  | _ => []
  end.

Definition trace (h : list pstep) : list pout := flat_map emits h.

Definition handler_view (s : Z) (t : list pout) : list pcmsg :=
  flat_map (fun o => match o with ToHandler s' m => if s' =? s then [m] else [] | _ => [] end) t.
Definition client_view (s : Z) (t : list pout) : list psmsg :=
  flat_map (fun o => match o with ToClient s' m => if s' =? s then [m] else [] | _ => [] end) t.

(** every method of reqCounter takes the mutex before touching the map or the gauge *)
Definition all_locked : bool :=
  forallb (fun m => match assoc (sl m) g_prom_locks with Some b => b | None => false end)
          ["ServeNostrStart"; "ServeNostrEnd"; "ServeNostrClientMsg"; "ServeNostrServerMsg"]%string.

(** the key under which reqCounter files a session's subscriptions is drawn
    afresh for every session and from nothing the client controls: the only
    statements of ServeNostrStart beside the dispatches are these two.  (The
    model identifies a session with its key: [wf] lets a key be live at most
    once at a time.) *)
Definition session_key_fresh : bool :=
  list_eqb str_eqb g_prom_session_key
           [sl "reqID := uuid.NewString()"; sl "ctx = setRequestID(ctx, reqID)"].

(* ------------------------------------------------------------------ *)
(** * Specification over histories (no structure of the code) *)

(** "[P] happened and no [Q] happened since" *)
Definition since (P Q : pstep -> bool) (h : list pstep) : Prop :=
  exists h1 y h2, h = h1 ++ y :: h2 /\ P y = true /\ forall x, In x h2 -> Q x = false.

Definition is_start (s : Z) (x : pstep) : bool :=
  match x with Start s' => s' =? s | _ => false end.
Definition is_end (s : Z) (x : pstep) : bool :=
  match x with End s' => s' =? s | _ => false end.
Definition is_req (s : Z) (sub : str) (x : pstep) : bool :=
  match x with
  | Client s' m => (s' =? s) && match cm_what m with CReq sub' => str_eqb sub' sub | _ => false end
  | _ => false
  end.
(** what ends a subscription: CLOSE from the client, CLOSED from the server, the end of the session *)
Definition ends_sub (s : Z) (sub : str) (x : pstep) : bool :=
  match x with
  | End s' => s' =? s
  | Client s' m => (s' =? s) && match cm_what m with CClose sub' => str_eqb sub' sub | _ => false end
  | Server s' m => (s' =? s) && match sm_what m with SClosed sub' => str_eqb sub' sub | _ => false end
  | Start _ => false
  end.

(** session [s] is live: started and not ended *)
Definition live (h : list pstep) (s : Z) : Prop := since (is_start s) (is_end s) h.
(** subscription [sub] of session [s] is open: opened by REQ and not yet ended *)
Definition sub_open (h : list pstep) (s : Z) (sub : str) : Prop := since (is_req s sub) (ends_sub s sub) h.

(** well-formed histories: a session's steps lie between its Start and its End *)
Definition step_ok (h : list pstep) (x : pstep) : Prop :=
  match x with
  | Start s => ~ live h s
  | End s | Client s _ | Server s _ => live h s
  end.
Definition wf (h : list pstep) : Prop := forall h1 x h2, h = h1 ++ x :: h2 -> step_ok h1 x.

(** canonical type labels of the exposition format *)
Definition clabel (w : cwhat) : str :=
  match w with
  | CEvent _ => sl "EVENT" | CReq _ => sl "REQ" | CClose _ => sl "CLOSE"
  | CAuth => sl "AUTH" | CCount _ => sl "COUNT" | COther => sl "UNDEFINED"
  end.
Definition slabel (w : swhat) : str :=
  match w with
  | SEose _ => sl "EOSE" | SEvent _ => sl "EVENT" | SNotice => sl "NOTICE" | SOk => sl "OK"
  | SAuth => sl "AUTH" | SCount _ => sl "COUNT" | SClosed _ => sl "CLOSED" | SOther => sl "UNDEFINED"
  end.

Definition is_recv (l : str) (x : pstep) : bool :=
  match x with Client _ m => str_eqb (clabel (cm_what m)) l | _ => false end.
Definition is_kind (l : str) (x : pstep) : bool :=
  match x with Client _ m => match cm_what m with CEvent k => str_eqb (showZ k) l | _ => false end | _ => false end.
Definition is_send (l : str) (x : pstep) : bool :=
  match x with Server _ m => str_eqb (slabel (sm_what m)) l | _ => false end.

Definition n_recv (h : list pstep) (l : str) : nat := count_occ_b (is_recv l) h.
Definition n_kind (h : list pstep) (l : str) : nat := count_occ_b (is_kind l) h.
Definition n_send (h : list pstep) (l : str) : nat := count_occ_b (is_send l) h.

Definition client_sent (s : Z) (h : list pstep) : list pcmsg :=
  flat_map (fun x => match x with Client s' m => if s' =? s then [m] else [] | _ => [] end) h.
Definition server_sent (s : Z) (h : list pstep) : list psmsg :=
  flat_map (fun x => match x with Server s' m => if s' =? s then [m] else [] | _ => [] end) h.

(* ------------------------------------------------------------------ *)
(** * Boolean oracle *)

(** [scan P Q rh] on the reversed history (most recent step first) *)
Fixpoint scan (P Q : pstep -> bool) (rh : list pstep) : bool :=
  match rh with
  | [] => false
  | x :: r => if P x then true else if Q x then false else scan P Q r
  end.

Definition sinceb (P Q : pstep -> bool) (h : list pstep) : bool := scan P Q (rev h).
Definition liveb (h : list pstep) (s : Z) : bool := sinceb (is_start s) (is_end s) h.
Definition sub_openb (h : list pstep) (s : Z) (sub : str) : bool := sinceb (is_req s sub) (ends_sub s sub) h.

Definition step_okb (h : list pstep) (x : pstep) : bool :=
  match x with
  | Start s => negb (liveb h s)
  | End s | Client s _ | Server s _ => liveb h s
  end.

Fixpoint wfb_from (pre h : list pstep) : bool :=
  match h with
  | [] => true
  | x :: r => step_okb pre x && wfb_from (pre ++ [x]) r
  end.
Definition wfb (h : list pstep) : bool := wfb_from [] h.

Definition step_session (x : pstep) : Z :=
  match x with Start s | End s | Client s _ | Server s _ => s end.

Definition step_subs (x : pstep) : list str :=
  match x with
  | Client _ m => match csub (cm_what m) with Some s => [s] | None => [] end
  | Server _ m => match ssub (sm_what m) with Some s => [s] | None => [] end
  | _ => []
  end.

Fixpoint nodup_Z (l : list Z) : list Z :=
  match l with
  | [] => []
  | x :: r => if mem_Z x r then nodup_Z r else x :: nodup_Z r
  end.
Fixpoint nodup_str (l : list str) : list str :=
  match l with
  | [] => []
  | x :: r => if mem_str x r then nodup_str r else x :: nodup_str r
  end.

Definition sessions_of (h : list pstep) : list Z := nodup_Z (List.map step_session h).
Definition subs_of (h : list pstep) : list str := nodup_str (flat_map step_subs h).

(** the sets the property speaks of, enumerated without repetition *)
Definition live_list (h : list pstep) : list Z := filter (liveb h) (sessions_of h).
Definition open_list (h : list pstep) : list (Z * str) :=
  flat_map (fun s => List.map (pair s) (filter (sub_openb h s) (subs_of h))) (sessions_of h).
