(* RouterData.v — C07: how each transition changes the data part (queue,
   forwarder slot, output, drop log) of a connection. *)
From Moc Require Import Base Match Router RouterLemmas RouterFrame RouterTrans.
From Moc.Gen Require Import GenRouter.
Open Scope Z_scope.

(* ------------------------------------------------------------------ *)
(** * The data part of a connection and how each transition changes it *)

Definition dat (st : cst) := (c_q st, c_hand st, c_out st, c_drops st).

Lemma dat_eq st1 st2 :
  dat st1 = dat st2 -> c_q st1 = c_q st2 /\ c_hand st1 = c_hand st2 /\ c_out st1 = c_out st2 /\ c_drops st1 = c_drops st2.
Proof. unfold dat. intro E. inversion E. auto. Qed.

Lemma dat_flow st1 st2 : dat st1 = dat st2 -> flow st1 = flow st2.
Proof. intro E. apply dat_eq in E as (E1 & E2 & E3 & E4). unfold flow, hand_list. now rewrite E1, E2, E3. Qed.

Lemma dat_set_pc st pc : dat (set_pc st pc) = dat st.
Proof. reflexivity. Qed.
Lemma dat_set_rd st n : dat (set_rd st n) = dat st.
Proof. reflexivity. Qed.

Lemma dat_send_if_match buf e t sub fs st1 st2 :
  dat st1 = dat st2 -> dat (send_if_match buf e t sub fs st1) = dat (send_if_match buf e t sub fs st2).
Proof.
  intro E. apply dat_eq in E as (E1 & E2 & E3 & E4). unfold send_if_match.
  destruct (sub_matches e fs); [|unfold dat; congruence].
  rewrite E1. destruct (Nat.ltb (length (c_q st2)) buf); unfold dat; cbn; congruence.
Qed.

Lemma dat_upd_pc f c pc x : dat (upd f c (set_pc (f c) pc) x) = dat (f x).
Proof. destruct (upd_cases f c (set_pc (f c) pc) x) as [[-> ->]|[_ ->]]; reflexivity. Qed.

(** the ways the data part of connection [x] changes in one transition *)
Inductive dchange (s : rstate) (l : label) (x : conn) (st st' : cst) : Prop :=
| D_same : dat st' = dat st -> dchange s l x st st'
| D_reply m :
    l = LRun x -> is_event_msg m = false ->
    c_out st' = c_out st ++ [m] -> c_q st' = c_q st -> c_hand st' = c_hand st -> c_drops st' = c_drops st ->
    dchange s l x st st'
| D_send c e t sub fs todo rest :
    l = LRun c -> c_pc (r_cs s c) = IVisit e t x ((sub, fs) :: todo) :: rest ->
    dat st' = dat (send_if_match (r_buf s) e t sub fs st) ->
    dchange s l x st st'
| D_unsuball rest :
    l = LRun x -> c_pc st = IUnsubAll :: rest ->
    c_q st' = [] -> c_hand st' = None -> c_out st' = c_out st -> c_drops st' = c_drops st ->
    dchange s l x st st'
| D_take m q' :
    l = LTake x -> c_hand st = None -> c_q st = m :: q' ->
    c_q st' = q' -> c_hand st' = Some m -> c_out st' = c_out st -> c_drops st' = c_drops st ->
    dchange s l x st st'
| D_deliver m :
    l = LDeliver x -> c_hand st = Some m ->
    c_q st' = c_q st -> c_hand st' = None -> c_out st' = c_out st ++ [m] -> c_drops st' = c_drops st ->
    dchange s l x st st'.

Lemma is_reply_not_event i m : is_reply_instr i m -> is_event_msg m = false.
Proof. destruct i; cbn; intro H; try contradiction; subst; reflexivity. Qed.

Lemma dat_trans s l s' x : trans s l s' -> dchange s l x (r_cs s x) (r_cs s' x).
Proof.
  intro T. inversion T; subst; cbn [r_cs with_cs].
  - apply D_same. destruct (upd_cases (r_cs s) c
      (mkC (program s c o) (c_q (r_cs s c)) (c_hand (r_cs s c)) (c_out (r_cs s c)) (c_rd (r_cs s c))
           (c_ctr (r_cs s c)) (is_disc o) (c_ops (r_cs s c) ++ [o]) (c_drops (r_cs s c))) x) as [[-> ->]|[_ ->]]; reflexivity.
  - apply D_same. apply dat_upd_pc.
  - apply D_same. apply dat_upd_pc.
  - apply D_same. apply dat_upd_pc.
  - apply D_same. apply dat_upd_pc.
  - apply D_same. apply dat_upd_pc.
  - destruct (Nat.eq_dec c x) as [->|N].
    + rewrite upd_same. eapply D_reply; try reflexivity. eapply is_reply_not_event; eassumption.
    + rewrite upd_other by auto. now apply D_same.
  - apply D_same. match goal with |- dat (upd ?f ?k ?v x) = _ => destruct (upd_cases f k v x) as [[-> ->]|[_ ->]] end; reflexivity.
  - apply D_same. apply dat_upd_pc.
  - apply D_same. unfold start_visit. cbn [r_cs with_cs].
    match goal with |- dat (upd ?f ?k ?v x) = _ => destruct (upd_cases f k v x) as [[-> ->]|[_ ->]] end.
    + rewrite dat_set_rd. apply dat_upd_pc.
    + apply dat_upd_pc.
  - apply D_same.
    match goal with |- dat (upd ?f ?k ?v x) = _ => destruct (upd_cases f k v x) as [[-> ->]|[_ ->]] end.
    + rewrite dat_set_rd. apply dat_upd_pc.
    + apply dat_upd_pc.
  - match goal with |- dchange _ _ _ _ (upd ?f ?k ?v x) => destruct (upd_cases f k v x) as [[-> ->]|[_ ->]] end.
    + eapply D_send; [reflexivity | eassumption |]. apply dat_send_if_match. apply dat_upd_pc.
    + apply D_same. apply dat_upd_pc.
  - destruct (Nat.eq_dec c x) as [->|N].
    + rewrite upd_same. eapply D_unsuball; try reflexivity. eassumption.
    + rewrite upd_other by auto. now apply D_same.
  - destruct (Nat.eq_dec c x) as [->|N].
    + rewrite upd_same. eapply D_take; try reflexivity; eassumption.
    + rewrite upd_other by auto. now apply D_same.
  - destruct (Nat.eq_dec c x) as [->|N].
    + rewrite upd_same. eapply D_deliver; try reflexivity; eassumption.
    + rewrite upd_other by auto. now apply D_same.
  - now apply D_same.
  - apply D_same. apply dat_upd_pc.
  - apply D_same. match goal with |- dat (upd ?f ?k ?v x) = _ => destruct (upd_cases f k v x) as [[-> ->]|[_ ->]] end; reflexivity.
Qed.

Lemma In_flow m st : In m (flow st) <-> In m (c_out st) \/ c_hand st = Some m \/ In m (c_q st).
Proof.
  unfold flow, hand_list. rewrite !in_app_iff. destruct (c_hand st) as [h|]; simpl.
  - split; [intros [H|[[H|[]]|H]]; subst; auto | intros [H|[H|H]]; [auto | inversion H; auto | auto]].
  - split; [intros [H|[[]|H]]; auto | intros [H|[H|H]]; [auto | discriminate | auto]].
Qed.
