(* ValidRefuted.v — C11 on the tree as it stands: validKind is
   [0 <= kind || kind <= 65535] (always true, defect F1) and validNaddr cuts
   with strings.Split (an address whose d part contains ':' has four parts
   and is refused, defect F2).  Both directions of the admission property are
   refuted by witnesses; the strongest statements that do hold are proved.

   THIS FILE COMPILES ONLY AGAINST THE DEFECTIVE GUARDS.  After the two
   repairs it is replaced by ValidProofsFixed.v (see Properties/C11Fixed.v). *)
From Moc Require Import Base Json CodecMsg Codec CodecProofs Valid ValidProofs.
From Moc.Gen Require Import GenMsg GenCodec.
Open Scope Z_scope.

(** F1: the kind guard accepts every integer *)
Lemma g_valid_kind_always k : g_valid_kind k = true.
Proof.
  unfold g_valid_kind. destruct (0 <=? k) eqn:E; [reflexivity|]. simpl.
  apply Z.leb_gt in E. apply Z.leb_le. lia.
Qed.

Theorem kind_guard_refuted : exists k, ~ kind_spec k /\ g_valid_kind k = true.
Proof. exists 70000. split; [unfold kind_spec; lia | reflexivity]. Qed.

Theorem kind_guard_refuted_negative : exists k, ~ kind_spec k /\ g_valid_kind k = true.
Proof. exists (-5). split; [unfold kind_spec; lia | reflexivity]. Qed.

(** F2: the address validator cuts at every colon *)
Lemma naddr_split_is_all : g_naddr_split_n = -1.
Proof. reflexivity. Qed.

Definition hex64_zero : str := repeat 48%N 64.     (* "000...0" *)
Definition addr_colon_in_d : str :=                (* "30000:" ++ pk ++ ":x:y" *)
  [51; 48; 48; 48; 48; 58]%N ++ hex64_zero ++ [58; 120; 58; 121]%N.

Theorem naddr_refuted : exists s, naddr_spec s /\ valid_naddr s = false.
Proof.
  exists addr_colon_in_d. split; [|reflexivity]. apply naddr_specb_spec. reflexivity.
Qed.

(** soundness fails: a REQ whose filter asks for kind 70000 is judged valid *)
Definition msg_kind_70000 : cmsg :=
  CReq [115]%N [Some (mkGFilter None None (Some [70000]) None None None None)].

Theorem valid_sound_refuted : exists m, valid_client_msg m = true /\ ~ constraints m.
Proof.
  exists msg_kind_70000. split; [reflexivity|]. unfold constraints. vm_compute. discriminate.
Qed.

(** ... and so is an event of kind -5 *)
Definition ev_kind_neg : gevent :=
  mkGEvent hex64_zero hex64_zero 0 (-5) (Some []) [] (hex64_zero ++ hex64_zero).

Theorem valid_sound_refuted_event :
  valid_client_msg (CEvent (Some ev_kind_neg)) = true /\ ~ constraints (CEvent (Some ev_kind_neg)).
Proof. split; [reflexivity|]. unfold constraints. vm_compute. discriminate. Qed.

(** completeness fails: a well-formed REQ with an #a value whose d is "x:y" is judged invalid *)
Definition msg_addr_colon : cmsg :=
  CReq [115]%N [Some (mkGFilter None None None (Some [(tn_a, Some [addr_colon_in_d])]) None None None)].

Theorem valid_complete_refuted : exists m, wf_nip01 m /\ valid_client_msg m = false.
Proof. exists msg_addr_colon. split; reflexivity. Qed.

(* ------------------------------------------------------------------ *)
(** What does hold on this tree. *)

(** on this tree the address validator is the specified shape, with any
    integer as kind, restricted to colon-free d *)
Lemma valid_naddr_now s : valid_naddr s = naddr_okb g_valid_kind s && d_colon_free s.
Proof. exact (valid_naddr_splitall naddr_split_is_all s). Qed.

(** soundness except for kind ranges: every constraint of the list holds of a
    message judged valid, with "kind in 0..65535" weakened to "kind is an
    int64" (in events, in kinds filters and inside #a values) *)
Theorem valid_sound_partial m :
  valid_client_msg m = true ->
  cmsg_okb (fun _ => true) (naddr_okb (fun _ => true)) false m = true.
Proof.
  rewrite valid_char. apply cmsg_okb_mono; auto.
  intros s H. rewrite valid_naddr_now in H. apply andb_true_iff in H as [H _].
  revert H. apply naddr_okb_mono. auto.
Qed.

(** completeness except for ':' inside d: a well-formed message all of whose
    #a values have a colon-free d is judged valid *)
Theorem valid_complete_partial m :
  cmsg_okb kind_specb (fun s => naddr_specb s && d_colon_free s) true m = true ->
  valid_client_msg m = true.
Proof.
  rewrite valid_char. apply cmsg_okb_mono; auto.
  - intros k _. apply g_valid_kind_always.
  - intros s H. apply andb_true_iff in H as [H1 H2]. rewrite valid_naddr_now, H2, andb_true_r.
    revert H1. unfold naddr_specb. apply naddr_okb_mono. intros k _. apply g_valid_kind_always.
Qed.
