(* CacheFindProofs.v — C03: the query side of the cache model.  Every result
   assumes the representation invariant [Inv s] (proved for all reachable
   states elsewhere) and filters the decoder can produce. *)
From Coq Require Import List ZArith Lia Bool Permutation Sorted.
From Moc Require Import Base Match MatchProofs Cache CacheSpec CacheInv CacheFindFacts.
From Moc.Gen Require Import GenMatch GenCache.
Import ListNotations.
Open Scope Z_scope.

(* ------------------------------------------------------------------ *)
(** * Hypotheses on filters *)

(** what [ParseReqFilter] can produce for the tag map: nil, or a non-empty
    map whose names are single letters (it stores [k[1:2]] of a two-byte key
    "#x").  An empty non-nil map makes the index path panic; a longer name
    is never found by the index, which stores single-letter names only. *)
Definition filter_ok (f : rfilter) : Prop :=
  match f_tags f with
  | None => True
  | Some m => m <> [] /\ Forall (fun nv => length (fst nv) = 1%nat) m
  end.

(** the two halves of a filter: what the index resolves, what is re-checked *)
Definition strip_time (f : rfilter) : rfilter :=
  mkFilter (f_ids f) (f_authors f) (f_kinds f) (f_tags f) None None None.
Definition time_only (f : rfilter) : rfilter :=
  mkFilter None None None None (f_since f) (f_until f) None.

Definition is_full_scan (f : rfilter) : bool :=
  g_full_scan (isSome (f_ids f)) (isSome (f_authors f)) (isSome (f_kinds f)) (isSome (f_tags f)).

(** the answer of one filter: the first [limit] matching elements of the tree *)
Definition res (s : cstate) (f : rfilter) : list event :=
  lim_take (f_limit f) 0 (filter (fun x => match_specb x f) (c_tree s)).

(** the answer of a filter list: the elements of the tree in some [res] *)
Definition find_out (s : cstate) (fs : list rfilter) : list event :=
  filter (fun x => existsb (fun f => eset_mem x (res s f)) fs) (c_tree s).

Lemma match_split e f :
  match_specb e f = match_specb e (strip_time f) && match_specb e (time_only f).
Proof.
  unfold match_specb, strip_time, time_only.
  cbn [f_ids f_authors f_kinds f_tags f_since f_until opt_holdsb].
  destruct (opt_holdsb (f_ids f) _), (opt_holdsb (f_authors f) _),
           (opt_holdsb (f_kinds f) _), (opt_holdsb (f_tags f) _),
           (opt_holdsb (f_since f) _), (opt_holdsb (f_until f) _); reflexivity.
Qed.

Lemma full_scan_spec f :
  is_full_scan f = true <->
  f_ids f = None /\ f_authors f = None /\ f_kinds f = None /\ f_tags f = None.
Proof.
  unfold is_full_scan. rewrite g_full_scan_spec.
  destruct (f_ids f), (f_authors f), (f_kinds f), (f_tags f); simpl; intuition congruence.
Qed.

(* ------------------------------------------------------------------ *)
(** * Small list facts *)

Lemma NoDup_map_inj {A B} (g : A -> B) : forall l a b,
  NoDup (map g l) -> In a l -> In b l -> g a = g b -> a = b.
Proof.
  induction l as [|x l IH]; intros a b N Ha Hb E; [contradiction|].
  simpl in N. apply NoDup_cons_iff in N as [Nx N].
  destruct Ha as [<-|Ha], Hb as [<-|Hb]; auto.
  - exfalso. apply Nx. rewrite E. now apply in_map.
  - exfalso. apply Nx. rewrite <- E. now apply in_map.
Qed.

Lemma filter_true {A} (p : A -> bool) l : (forall x, In x l -> p x = true) -> filter p l = l.
Proof.
  induction l as [|a l IH]; intro H; simpl; [reflexivity|].
  rewrite (H a (or_introl eq_refl)). f_equal. apply IH. intros x Hx. apply H. now right.
Qed.

Lemma filter_false {A} (l : list A) : filter (fun _ => false) l = [].
Proof. induction l; simpl; auto. Qed.

Lemma eset_mem_filter p T x : In x T -> eset_mem x (filter p T) = p x.
Proof.
  intro Hx. apply eq_true_iff_eq. rewrite eset_mem_In, filter_In. tauto.
Qed.

Lemma existsb_false {A} (p : A -> bool) l : (forall x, In x l -> p x = false) -> existsb p l = false.
Proof.
  induction l as [|a l IH]; intro H; simpl; [reflexivity|].
  rewrite (H a (or_introl eq_refl)). apply IH. intros x Hx. apply H. now right.
Qed.

Lemma forall_in_app {A} (Q : A -> Prop) a b :
  (forall x, In x (a ++ b) -> Q x) <-> (forall x, In x a -> Q x) /\ (forall x, In x b -> Q x).
Proof.
  split.
  - intro H. split; intros x Hx; apply H; apply in_or_app; auto.
  - intros [Ha Hb] x Hx. apply in_app_or in Hx as [Hx|Hx]; auto.
Qed.

(* ------------------------------------------------------------------ *)
(** * Consequences of the invariant used here *)

Section WithInv.
Variable s : cstate.
Hypothesis I : Inv s.

Lemma inv_tree_In x : In x (c_tree s) <-> In x (retained s).
Proof.
  split; intro H.
  - eapply Permutation_in; [apply (inv_tree_perm s I) | exact H].
  - eapply Permutation_in; [apply Permutation_sym, (inv_tree_perm s I) | exact H].
Qed.

Lemma inv_tsorted : tsorted (c_tree s).
Proof. exact (inv_tree_sorted s I). Qed.

Lemma inv_retained_idsf : ids_functional (retained s).
Proof.
  intros a b Ha Hb E. apply (NoDup_map_inj ev_id (retained s)); auto.
  apply (inv_ids_nodup s I).
Qed.

Lemma inv_tree_idsf : ids_functional (c_tree s).
Proof.
  intros a b Ha Hb. apply inv_retained_idsf; now apply inv_tree_In.
Qed.

Lemma inv_tree_keyf : keys_functional (c_tree s).
Proof. apply idsf_keyf, inv_tree_idsf. Qed.

Lemma inv_len0 : (c_len s =? 0) = true -> c_tree s = [].
Proof.
  intro H. apply Z.eqb_eq in H. unfold c_len in H.
  assert (E : c_evs s = []) by (destruct (c_evs s); [reflexivity | simpl in H; lia]).
  apply Permutation_nil. apply Permutation_sym.
  pose proof (inv_tree_perm s I) as P. unfold retained in P. rewrite E in P. exact P.
Qed.

(* ------------------------------------------------------------------ *)
(** * Index keys versus the filter's conditions *)

Lemma tag_ikeys_only_tags tags k : In k (tag_ikeys tags) -> exists n v, k = IKTag n v.
Proof.
  unfold tag_ikeys. rewrite in_flat_map. intros [t [_ Hk]].
  destruct t as [|n r]; [contradiction|].
  destruct (Nat.eqb (length n) 1); [|contradiction].
  destruct Hk as [<-|[]]. eauto.
Qed.

Lemma has_ikey_id i e : has_ikey (IKId i) e = str_eqb i (ev_id e).
Proof.
  unfold has_ikey, ikeys_of_event. cbn [app existsb ikey_eqb].
  rewrite existsb_false; [now rewrite !orb_false_r|].
  intros k Hk. apply tag_ikeys_only_tags in Hk as [n [v ->]]. reflexivity.
Qed.

Lemma has_ikey_author a e : has_ikey (IKAuthor a) e = str_eqb a (ev_pk e).
Proof.
  unfold has_ikey, ikeys_of_event. cbn [app existsb ikey_eqb].
  rewrite existsb_false; [now rewrite !orb_false_r|].
  intros k Hk. apply tag_ikeys_only_tags in Hk as [n [v ->]]. reflexivity.
Qed.

Lemma has_ikey_kind z e : has_ikey (IKKind z) e = Z.eqb z (ev_kind e).
Proof.
  unfold has_ikey, ikeys_of_event. cbn [app existsb ikey_eqb].
  rewrite existsb_false; [now rewrite !orb_false_r|].
  intros k Hk. apply tag_ikeys_only_tags in Hk as [n [v ->]]. reflexivity.
Qed.

Lemma has_ikey_tag n v e :
  has_ikey (IKTag n v) e = true <->
  exists r, In (n :: r) (ev_tags e) /\ length n = 1%nat /\ tag_value (n :: r) = v.
Proof.
  unfold has_ikey, ikeys_of_event. cbn [app existsb ikey_eqb]. cbn [orb].
  rewrite existsb_exists. unfold tag_ikeys. split.
  - intros [k [Hk E]]. apply in_flat_map in Hk as [t [Ht Hk]].
    destruct t as [|n' r]; [contradiction|].
    destruct (Nat.eqb (length n') 1) eqn:L; [|contradiction].
    destruct Hk as [<-|[]]. cbn [ikey_eqb] in E.
    apply andb_true_iff in E as [E1 E2]. apply str_eqb_eq in E1, E2. subst n' v.
    apply Nat.eqb_eq in L. eauto.
  - intros [r [Ht [L <-]]]. exists (IKTag n (tag_value (n :: r))). split.
    + apply in_flat_map. exists (n :: r). split; [assumption|].
      rewrite (proj2 (Nat.eqb_eq _ _) L). now left.
    + cbn [ikey_eqb]. now rewrite !str_eqb_refl.
Qed.

Lemma ex_id e l : (exists k, In k (map IKId l) /\ has_ikey k e = true) <-> mem_str (ev_id e) l = true.
Proof.
  rewrite mem_str_In. split.
  - intros [k [Hk H]]. apply in_map_iff in Hk as [i [<- Hi]].
    rewrite has_ikey_id in H. apply str_eqb_eq in H. now subst.
  - intro H. exists (IKId (ev_id e)). split; [now apply in_map|].
    rewrite has_ikey_id. apply str_eqb_refl.
Qed.

Lemma ex_author e l : (exists k, In k (map IKAuthor l) /\ has_ikey k e = true) <-> mem_str (ev_pk e) l = true.
Proof.
  rewrite mem_str_In. split.
  - intros [k [Hk H]]. apply in_map_iff in Hk as [i [<- Hi]].
    rewrite has_ikey_author in H. apply str_eqb_eq in H. now subst.
  - intro H. exists (IKAuthor (ev_pk e)). split; [now apply in_map|].
    rewrite has_ikey_author. apply str_eqb_refl.
Qed.

Lemma ex_kind e l : (exists k, In k (map IKKind l) /\ has_ikey k e = true) <-> mem_Z (ev_kind e) l = true.
Proof.
  rewrite mem_Z_In. split.
  - intros [k [Hk H]]. apply in_map_iff in Hk as [i [<- Hi]].
    rewrite has_ikey_kind in H. apply Z.eqb_eq in H. now subst.
  - intro H. exists (IKKind (ev_kind e)). split; [now apply in_map|].
    rewrite has_ikey_kind. apply Z.eqb_refl.
Qed.

Lemma ex_tag e n vs : length n = 1%nat ->
  (exists k, In k (map (IKTag n) vs) /\ has_ikey k e = true) <-> has_tagb e n vs = true.
Proof.
  intro L. rewrite has_tagb_spec. unfold has_tag. split.
  - intros [k [Hk H]]. apply in_map_iff in Hk as [v [<- Hv]].
    apply has_ikey_tag in H as [r [Ht [_ E]]].
    exists (n :: r). split; [assumption|]. split; [reflexivity|]. subst v. exact Hv.
  - intros [t [Ht [Hh Hv]]]. destruct t as [|n' r]; [discriminate|].
    simpl in Hh. inversion Hh; subst n'.
    exists (IKTag n (tag_value (n :: r))). split; [now apply in_map|].
    apply has_ikey_tag. eauto.
Qed.

Definition cond_ok (e : event) (f : rfilter) : Prop :=
  forall keys, In keys (ikeys_of_filter f) -> exists k, In k keys /\ has_ikey k e = true.

Lemma part_opt {A} e (o : option (list A)) (K : A -> ikey) (p : list A -> bool) :
  (forall l, (exists k, In k (map K l) /\ has_ikey k e = true) <-> p l = true) ->
  ((forall keys, In keys (match o with Some l => [map K l] | None => [] end) ->
                 exists k, In k keys /\ has_ikey k e = true)
   <-> opt_holdsb o p = true).
Proof.
  intro H. destruct o as [l|]; simpl.
  - rewrite <- H. split.
    + intro Q. apply Q. now left.
    + intros Q keys [<-|[]]. exact Q.
  - split; [reflexivity | intros _ keys []].
Qed.

Lemma part_tags e (o : option (list (str * list str))) :
  match o with None => True | Some m => Forall (fun nv => length (fst nv) = 1%nat) m end ->
  ((forall keys, In keys (match o with
                          | Some m => map (fun nv => map (IKTag (fst nv)) (snd nv)) m
                          | None => [] end) ->
                 exists k, In k keys /\ has_ikey k e = true)
   <-> opt_holdsb o (forallb (fun nv => has_tagb e (fst nv) (snd nv))) = true).
Proof.
  destruct o as [m|]; simpl; [|split; [reflexivity | intros _ keys []]].
  intro F. rewrite Forall_forall in F. rewrite forallb_forall. split.
  - intros Q nv Hnv. apply ex_tag; [now apply F|]. apply Q.
    apply in_map_iff. now exists nv.
  - intros Q keys Hk. apply in_map_iff in Hk as [nv [<- Hnv]].
    apply ex_tag; [now apply F|]. now apply Q.
Qed.

(** the conjunction of the per-condition key tests is the non-time part of the filter *)
Lemma cond_ok_spec e f : filter_ok f -> (cond_ok e f <-> match_specb e (strip_time f) = true).
Proof.
  intro OK. unfold cond_ok, ikeys_of_filter.
  rewrite !forall_in_app.
  rewrite (part_opt e (f_ids f) IKId (mem_str (ev_id e)) (ex_id e)).
  rewrite (part_opt e (f_authors f) IKAuthor (mem_str (ev_pk e)) (ex_author e)).
  rewrite (part_opt e (f_kinds f) IKKind (mem_Z (ev_kind e)) (ex_kind e)).
  rewrite (part_tags e (f_tags f)).
  - unfold match_specb, strip_time.
    cbn [f_ids f_authors f_kinds f_tags f_since f_until opt_holdsb].
    rewrite !andb_true_iff. tauto.
  - unfold filter_ok in OK. destruct (f_tags f); [tauto | exact Logic.I].
Qed.

Lemma ikeys_nonempty f : filter_ok f -> is_full_scan f = false -> ikeys_of_filter f <> [].
Proof.
  intros OK NF E. unfold ikeys_of_filter in E.
  assert (FS : is_full_scan f = true); [|congruence].
  apply full_scan_spec. unfold filter_ok in OK.
  destruct (f_ids f); [discriminate|].
  destruct (f_authors f); [discriminate|].
  destruct (f_kinds f); [discriminate|].
  destruct (f_tags f) as [m|]; [|auto].
  destruct OK as [Hm _]. destruct m; [contradiction | discriminate].
Qed.

(* ------------------------------------------------------------------ *)
(** * The index: unions, intersection in any order *)

Lemma idx_union_acc : forall keys acc e,
  In e (fold_left (fun acc k => match al_get ikey_eqb k (c_idx s) with
                                | Some st => eset_union acc st
                                | None => acc
                                end) keys acc)
  <-> In e acc \/ (In e (retained s) /\ exists k, In k keys /\ has_ikey k e = true).
Proof.
  induction keys as [|k keys IH]; intros acc e; cbn [fold_left].
  - split; [now left | intros [H|[_ [k [[] _]]]]; exact H].
  - rewrite IH. destruct (al_get ikey_eqb k (c_idx s)) as [st|] eqn:G.
    + destruct (inv_idx_some s I k st G) as [_ [_ Hst]].
      rewrite eset_union_In, Hst. split.
      * intros [[H|[Hr Hk]]|[Hr [k' [Hk' H]]]]; [now left | right | right].
        -- split; [assumption|]. exists k. split; [now left | assumption].
        -- split; [assumption|]. exists k'. split; [now right | assumption].
      * intros [H|[Hr [k' [[<-|Hk'] H]]]]; [left; now left | left; right; now split | right].
        split; [assumption|]. now exists k'.
    + pose proof (inv_idx_none s I k G) as Hn. split.
      * intros [H|[Hr [k' [Hk' H]]]]; [now left | right].
        split; [assumption|]. exists k'. split; [now right | assumption].
      * intros [H|[Hr [k' [[<-|Hk'] H]]]]; [now left | | right].
        -- rewrite (Hn e Hr) in H. discriminate.
        -- split; [assumption|]. now exists k'.
Qed.

(** [idx_union]: the retained events having one of the keys *)
Lemma idx_union_spec keys e :
  In e (idx_union (c_idx s) keys) <->
  In e (retained s) /\ exists k, In k keys /\ has_ikey k e = true.
Proof.
  unfold idx_union. rewrite idx_union_acc. simpl. tauto.
Qed.

Lemma idx_union_NoDup keys : NoDup (idx_union (c_idx s) keys).
Proof.
  unfold idx_union.
  assert (H : forall acc, NoDup acc ->
            NoDup (fold_left (fun acc k => match al_get ikey_eqb k (c_idx s) with
                                           | Some st => eset_union acc st
                                           | None => acc
                                           end) keys acc)).
  { induction keys as [|k keys IH]; intros acc N; cbn [fold_left]; [assumption|].
    apply IH. destruct (al_get ikey_eqb k (c_idx s)); [now apply eset_union_NoDup | assumption]. }
  apply H. constructor.
Qed.

(** the intersection of the condition sets, taken in ANY order, is the set
    of retained events satisfying ids, authors, kinds and every tag condition *)
Lemma index_cands_any_order f sets c :
  filter_ok f -> is_full_scan f = false ->
  Permutation sets (map (idx_union (c_idx s)) (ikeys_of_filter f)) ->
  inter_all sets = Some c ->
  NoDup c /\ forall e, In e c <-> In e (retained s) /\ match_specb e (strip_time f) = true.
Proof.
  intros OK NF P E. split.
  - apply (inter_all_NoDup sets c E). intros st Hst.
    apply (Permutation_in _ P) in Hst. apply in_map_iff in Hst as [keys [<- _]].
    apply idx_union_NoDup.
  - intro e. rewrite (inter_all_spec sets c E), <- (cond_ok_spec e f OK). unfold cond_ok. split.
    + intro H. split.
      * destruct (ikeys_of_filter f) as [|keys0 rest] eqn:EK; [exfalso; now apply (ikeys_nonempty f OK NF)|].
        assert (Hin : In (idx_union (c_idx s) keys0) sets).
        { apply (Permutation_in _ (Permutation_sym P)). now left. }
        apply H in Hin. now apply idx_union_spec in Hin.
      * intros keys Hk.
        assert (Hin : In (idx_union (c_idx s) keys) sets).
        { apply (Permutation_in _ (Permutation_sym P)). now apply in_map. }
        apply H in Hin. now apply idx_union_spec in Hin.
    + intros [Hr Hc] st Hst. apply (Permutation_in _ P) in Hst.
      apply in_map_iff in Hst as [keys [<- Hk]]. apply idx_union_spec. split; auto.
Qed.

Lemma index_cands_exists f :
  filter_ok f -> is_full_scan f = false ->
  exists c, inter_all (sort_by_len (map (idx_union (c_idx s)) (ikeys_of_filter f))) = Some c.
Proof.
  intros OK NF.
  destruct (inter_all (sort_by_len (map (idx_union (c_idx s)) (ikeys_of_filter f)))) as [c|] eqn:E; [eauto|].
  exfalso. apply inter_all_none in E.
  pose proof (sort_by_len_perm (map (idx_union (c_idx s)) (ikeys_of_filter f))) as P.
  rewrite E in P. apply Permutation_nil in P. apply map_eq_nil in P.
  now apply (ikeys_nonempty f OK NF).
Qed.

(* ------------------------------------------------------------------ *)
(** * The index path as a whole *)

Lemma time_only_impl x f : match_impl x (time_only f) = Ok (match_specb x (time_only f)).
Proof. now apply match_impl_notags. Qed.

(** bounded insertion over ANY duplicate-free enumeration of the candidates:
    the top-[limit] (in tree order) of those passing since/until *)
Lemma bounded_insert_topn f limit cands :
  NoDup cands -> incl cands (c_tree s) ->
  bounded_insert cands (time_only f) limit [] 0 =
  Ok (firstn (Z.to_nat limit)
             (filter (fun y => eset_mem y cands && match_specb y (time_only f)) (c_tree s))).
Proof.
  intros ND Inc.
  rewrite (bounded_insert_spec (c_tree s) (time_only f) limit inv_tsorted inv_tree_keyf
             (fun x _ => time_only_impl x f) cands (fun _ => false) [] 0 ND Inc).
  - reflexivity.
  - reflexivity.
  - cbn [andb]. rewrite filter_false. now rewrite firstn_nil.
  - reflexivity.
Qed.

Lemma bounded_insert_order_irrelevant f limit cands cands' :
  NoDup cands -> incl cands (c_tree s) -> Permutation cands cands' ->
  bounded_insert cands' (time_only f) limit [] 0 = bounded_insert cands (time_only f) limit [] 0.
Proof.
  intros ND Inc P.
  assert (ND' : NoDup cands') by (eapply Permutation_NoDup; eauto).
  assert (Inc' : incl cands' (c_tree s)).
  { intros z Hz. apply Inc. eapply Permutation_in; [apply Permutation_sym; exact P | exact Hz]. }
  rewrite (bounded_insert_topn f limit cands ND Inc), (bounded_insert_topn f limit cands' ND' Inc').
  do 2 f_equal. apply filter_ext. intro y. f_equal.
  apply eq_true_iff_eq. rewrite !eset_mem_In. split; intro H.
  - eapply Permutation_in; [apply Permutation_sym; exact P | exact H].
  - eapply Permutation_in; eauto.
Qed.

Lemma firstn_min_limit (M : list event) (n l : Z) :
  Z.of_nat (length M) <= n ->
  firstn (Z.to_nat (Z.min n l)) M = firstn (Z.to_nat (l - 0)) M.
Proof.
  intro H. destruct (Z.le_gt_cases l n) as [C|C].
  - f_equal. lia.
  - rewrite !firstn_all2; [reflexivity | lia | lia].
Qed.

Theorem idx_find_spec f : filter_ok f ->
  idx_find (c_idx s) f = if is_full_scan f then None else Some (Ok (res s f)).
Proof.
  intro OK. unfold idx_find. fold (is_full_scan f).
  destruct (is_full_scan f) eqn:NF; [reflexivity|]. f_equal.
  destruct (index_cands_exists f OK NF) as [c E]. rewrite E.
  destruct (index_cands_any_order f _ c OK NF (sort_by_len_perm _) E) as [ND Hc].
  assert (Inc : incl c (c_tree s)).
  { intros z Hz. apply inv_tree_In. now apply Hc. }
  rewrite (bounded_insert_topn f _ c ND Inc). f_equal. unfold res.
  set (M := filter (fun x => match_specb x f) (c_tree s)).
  assert (EM : filter (fun y => eset_mem y c && match_specb y (time_only f)) (c_tree s) = M).
  { apply filter_ext_in. intros y Hy. rewrite (match_split y f). f_equal.
    apply eq_true_iff_eq. rewrite eset_mem_In, Hc. apply inv_tree_In in Hy. tauto. }
  rewrite EM.
  assert (HL : Z.of_nat (length M) <= Z.of_nat (length c)).
  { apply inj_le. apply NoDup_incl_length.
    - apply tsorted_NoDup. apply tsorted_filter. exact inv_tsorted.
    - intros y Hy. apply filter_In in Hy as [Hy My]. apply Hc. split; [now apply inv_tree_In|].
      rewrite (match_split y f) in My. now apply andb_true_iff in My. }
  unfold lim_take. destruct (f_limit f) as [l|].
  - now apply firstn_min_limit.
  - apply firstn_all2. lia.
Qed.

(* ------------------------------------------------------------------ *)
(** * The scan path *)

Lemma res_sorted f : tsorted (res s f).
Proof.
  unfold res, lim_take. destruct (f_limit f).
  - apply tsorted_firstn, tsorted_filter, inv_tsorted.
  - apply tsorted_filter, inv_tsorted.
Qed.

Lemma res_incl f : incl (res s f) (c_tree s).
Proof.
  intros x Hx. unfold res, lim_take in Hx. destruct (f_limit f).
  - apply firstn_incl in Hx. now apply filter_In in Hx.
  - now apply filter_In in Hx.
Qed.

Lemma res_match f x : In x (res s f) -> match_specb x f = true.
Proof.
  intro Hx. unfold res, lim_take in Hx. destruct (f_limit f).
  - apply firstn_incl in Hx. now apply filter_In in Hx.
  - now apply filter_In in Hx.
Qed.

(** the scan with any matcher that does not panic on the retained events *)
Lemma scan_spec f acc :
  (forall x, In x (c_tree s) -> match_impl x f = Ok (match_specb x f)) ->
  scan_loop (c_tree s) (lm_new f) acc = Ok (fold_tset (res s f) acc).
Proof. intro Hm. unfold lm_new. now rewrite (scan_loop_spec f (c_tree s) Hm 0 acc). Qed.

Lemma full_scan_impl f x : is_full_scan f = true -> match_impl x f = Ok (match_specb x f).
Proof. intro FS. apply match_impl_notags. now apply full_scan_spec in FS. Qed.

(** item 2: a full-scan filter adds exactly the first [limit] elements of the
    tree that satisfy since/until *)
Lemma scan_full_topn f :
  is_full_scan f = true ->
  scan_loop (c_tree s) (lm_new f) [] =
  Ok (lim_take (f_limit f) 0 (filter (fun x => match_specb x (time_only f)) (c_tree s))).
Proof.
  intro FS. rewrite (scan_spec f [] (fun x _ => full_scan_impl f x FS)).
  rewrite fold_tset_sorted_id.
  - unfold res. do 2 f_equal. apply filter_ext. intro x. rewrite (match_split x f).
    apply full_scan_spec in FS as [E1 [E2 [E3 E4]]].
    unfold match_specb at 1, strip_time. cbn [f_ids f_authors f_kinds f_tags f_since f_until].
    rewrite E1, E2, E3, E4. reflexivity.
  - apply res_sorted.
  - apply (keyf_incl (c_tree s)); [apply inv_tree_keyf | apply res_incl].
Qed.

(** item 4: index and scan agree, for any accumulated tree *)
Theorem paths_agree_acc f r acc :
  filter_ok f -> filter_wf f -> (forall x, In x (retained s) -> tags_nonempty x) ->
  idx_find (c_idx s) f = Some (Ok r) ->
  scan_loop (c_tree s) (lm_new f) acc = Ok (fold_tset r acc).
Proof.
  intros OK WF TN E. rewrite (idx_find_spec f OK) in E.
  destruct (is_full_scan f); [discriminate|]. inversion E; subst r.
  apply scan_spec. intros x Hx. apply match_impl_correct; [|assumption].
  apply TN. now apply inv_tree_In.
Qed.

Theorem paths_agree f r :
  filter_ok f -> filter_wf f -> (forall x, In x (retained s) -> tags_nonempty x) ->
  idx_find (c_idx s) f = Some (Ok r) ->
  scan_loop (c_tree s) (lm_new f) [] = Ok r.
Proof.
  intros OK WF TN E. rewrite (paths_agree_acc f r [] OK WF TN E). f_equal.
  rewrite (idx_find_spec f OK) in E.
  destruct (is_full_scan f); [discriminate|]. inversion E; subst r.
  apply fold_tset_sorted_id; [apply res_sorted|].
  apply (keyf_incl (c_tree s)); [apply inv_tree_keyf | apply res_incl].
Qed.

(* ------------------------------------------------------------------ *)
(** * Find *)

Lemma find_loop_spec : forall fs acc, Forall filter_ok fs ->
  find_loop s fs acc = Ok (fold_left (fun a f => fold_tset (res s f) a) fs acc).
Proof.
  induction fs as [|f fs IH]; intros acc OK; cbn [find_loop fold_left]; [reflexivity|].
  apply Forall_cons_iff in OK as [OKf OK].
  rewrite (idx_find_spec f OKf). destruct (is_full_scan f) eqn:FS.
  - rewrite (scan_spec f acc (fun x _ => full_scan_impl f x FS)). now apply IH.
  - now apply IH.
Qed.

Lemma fold_res_filter : forall fs acc, tsorted acc -> incl acc (c_tree s) ->
  fold_left (fun a f => fold_tset (res s f) a) fs acc =
  filter (fun x => existsb (fun f => eset_mem x (res s f)) fs || eset_mem x acc) (c_tree s).
Proof.
  induction fs as [|f fs IH]; intros acc Sa Ia; cbn [fold_left existsb].
  - cbn [orb]. apply tsorted_ext; [assumption | apply tsorted_filter, inv_tsorted|].
    intro x. rewrite filter_In, eset_mem_In. split; [intro H; split; auto | tauto].
  - rewrite (fold_tset_filter (c_tree s) inv_tsorted inv_tree_keyf (res s f) acc (res_incl f) Ia Sa).
    rewrite IH.
    + apply filter_ext_in. intros x Hx. rewrite (eset_mem_filter _ _ _ Hx).
      destruct (eset_mem x (res s f)), (existsb (fun f0 => eset_mem x (res s f0)) fs), (eset_mem x acc); reflexivity.
    + apply tsorted_filter, inv_tsorted.
    + intros x Hx. now apply filter_In in Hx.
Qed.

(** the whole query, in closed form *)
Theorem c_find_spec fs : Forall filter_ok fs -> c_find s fs = Ok (find_out s fs).
Proof.
  intro OK. unfold c_find, find_out. destruct (c_len s =? 0) eqn:L.
  - rewrite (inv_len0 L). reflexivity.
  - rewrite (find_loop_spec fs [] OK). f_equal.
    rewrite fold_res_filter; [|constructor | intros x []].
    apply filter_ext. intro x. cbn [eset_mem existsb]. now rewrite orb_false_r.
Qed.

Theorem find_total fs : Forall filter_ok fs -> c_find s fs <> Panic.
Proof. intro OK. rewrite (c_find_spec fs OK). discriminate. Qed.

Lemma filter_ok_empty : filter_ok empty_filter.
Proof. exact Logic.I. Qed.

Theorem listing_is_retained : c_listing s = c_tree s.
Proof.
  unfold c_listing. rewrite (c_find_spec [empty_filter]); [|constructor; [exact filter_ok_empty | constructor]].
  unfold find_out. apply filter_true. intros x Hx. cbn [existsb]. rewrite orb_false_r.
  apply eset_mem_In. unfold res, lim_take. cbn [f_limit empty_filter].
  apply filter_In. split; [assumption | reflexivity].
Qed.

Lemma find_out_In fs x :
  In x (find_out s fs) <-> exists f, In f fs /\ In x (res s f).
Proof.
  unfold find_out. rewrite filter_In, existsb_exists. split.
  - intros [_ [f [Hf H]]]. exists f. split; [assumption | now apply eset_mem_In].
  - intros [f [Hf H]]. split; [now apply (res_incl f)|]. exists f. split; [assumption | now apply eset_mem_In].
Qed.

Lemma find_out_sorted fs : tsorted (find_out s fs).
Proof. apply tsorted_filter, inv_tsorted. Qed.

End WithInv.

(* ------------------------------------------------------------------ *)
(** * The specification side: [find_spec_ok] and its declarative reading *)

(** a top-[limit] subset of the matching retained events *)
Definition topn (R : list event) (f : rfilter) (r : list event) : Prop :=
  NoDup r /\
  (forall x, In x r -> In x R /\ match_spec x f) /\
  length r = (let m := length (filter (fun x => match_specb x f) R) in
              match f_limit f with Some l => Nat.min (Z.to_nat l) m | None => m end) /\
  (forall x y, In x r -> In y R -> match_spec y f -> ~ In y r -> ev_ts y <= ev_ts x).

(** the property text: duplicate-free, non-increasing created_at, and the
    union over the filters of a top-limit subset of the matching events *)
Definition find_spec (R : list event) (fs : list rfilter) (out : list event) : Prop :=
  NoDup (map ev_id out) /\
  StronglySorted (fun a b => ev_ts b <= ev_ts a) out /\
  exists rs, Forall2 (topn R) fs rs /\
             forall x, In x out <-> exists r, In r rs /\ In x r.

(** ** generic list facts *)

Lemma ssorted_app_inv {A} (R : A -> A -> Prop) l1 : forall l2,
  StronglySorted R (l1 ++ l2) ->
  StronglySorted R l1 /\ StronglySorted R l2 /\ (forall a b, In a l1 -> In b l2 -> R a b).
Proof.
  induction l1 as [|x l1 IH]; intros l2 S; simpl in *.
  - split; [constructor|]. split; [assumption|]. intros a b [].
  - apply StronglySorted_inv in S as [S' F].
    destruct (IH l2 S') as [S1 [S2 C]].
    rewrite Forall_forall in F.
    split; [|split].
    + apply SSorted_cons; [assumption|]. apply Forall_forall.
      intros y Hy. apply F. apply in_or_app. now left.
    + assumption.
    + intros a b [<-|Ha] Hb.
      * apply F. apply in_or_app. now right.
      * now apply C.
Qed.

Lemma ssorted_weaken {A} (R Q : A -> A -> Prop) l :
  (forall a b, R a b -> Q a b) -> StronglySorted R l -> StronglySorted Q l.
Proof.
  intros W. induction 1 as [|a l S IH F]; constructor; [assumption|].
  rewrite Forall_forall in *. intros x Hx. apply W. now apply F.
Qed.

Lemma firstn_app_exact {A} (a b : list A) : firstn (length a) (a ++ b) = a.
Proof. induction a as [|x a IH]; simpl; [now destruct b | now rewrite IH]. Qed.

Lemma firstn_min_len {A} n (l : list A) : firstn (Nat.min n (length l)) l = firstn n l.
Proof.
  destruct (Nat.le_gt_cases n (length l)) as [C|C].
  - now rewrite Nat.min_l.
  - rewrite Nat.min_r by lia. rewrite firstn_all, firstn_all2; [reflexivity | lia].
Qed.

Lemma firstn_S_nth {A} : forall n (l : list A) x,
  nth_error l n = Some x -> firstn (S n) l = firstn n l ++ [x].
Proof.
  induction n as [|n IH]; intros [|a l] x E; simpl in E; try discriminate.
  - inversion E; subst. reflexivity.
  - rewrite firstn_cons, (IH l x E). reflexivity.
Qed.

Lemma filter_partition_length {A} (p q : A -> bool) l :
  (forall x, In x l -> p x = negb (q x)) ->
  (length (filter p l) + length (filter q l) = length l)%nat.
Proof.
  induction l as [|a l IH]; intro H; simpl; [reflexivity|].
  rewrite (H a (or_introl eq_refl)).
  assert (IH' := IH (fun x Hx => H x (or_intror Hx))).
  destruct (q a); simpl; lia.
Qed.

Lemma filter_none {A} (p : A -> bool) l : (forall x, In x l -> p x = false) -> filter p l = [].
Proof.
  induction l as [|a l IH]; intro H; simpl; [reflexivity|].
  rewrite (H a (or_introl eq_refl)). apply IH. intros x Hx. apply H. now right.
Qed.

Lemma choose_prefix {A} : forall (a b : list A), In a (choose (length a) (a ++ b)).
Proof.
  induction a as [|x a IH]; intro b.
  - simpl. destruct b; now left.
  - cbn [length app choose]. apply in_or_app. left. apply in_map. apply IH.
Qed.

Lemma Forall2_map_r {A B} (P : A -> B -> Prop) (g : A -> B) l :
  (forall x, In x l -> P x (g x)) -> Forall2 P l (map g l).
Proof.
  induction l as [|a l IH]; intro H; simpl; constructor.
  - apply H. now left.
  - apply IH. intros x Hx. apply H. now right.
Qed.

(** ** the n-th largest created_at of a list that is already descending *)

Fixpoint ins_ts (z : Z) (s : list Z) : list Z :=
  match s with
  | [] => [z]
  | y :: r => if y <=? z then z :: y :: r else y :: ins_ts z r
  end.

Lemma nth_largest_ts_unfold l n :
  nth_largest_ts l n = nth_error (fold_left (fun s x => ins_ts (ev_ts x) s) l []) (pred n).
Proof. reflexivity. Qed.

Definition zdesc : list Z -> Prop := StronglySorted (fun a b => b <= a).

Lemma all_eq_snoc (z : Z) r : Forall (eq z) r -> z :: r = r ++ [z].
Proof.
  induction 1 as [|a r E F IH]; [reflexivity|]. subst a. simpl. now rewrite <- IH.
Qed.

Lemma ins_ts_append z : forall s, zdesc s -> Forall (fun y => z <= y) s -> ins_ts z s = s ++ [z].
Proof.
  induction s as [|y r IH]; intros S F; simpl; [reflexivity|].
  apply StronglySorted_inv in S as [S' Fy].
  apply Forall_cons_iff in F as [Hy F].
  destruct (y <=? z) eqn:C.
  - apply Z.leb_le in C. assert (y = z) by lia. subst y. f_equal. apply all_eq_snoc.
    rewrite Forall_forall in *. intros w Hw. specialize (Fy w Hw). specialize (F w Hw). lia.
  - f_equal. now apply IH.
Qed.

Lemma fold_ins_sorted : forall l acc, zdesc (acc ++ map ev_ts l) ->
  fold_left (fun s x => ins_ts (ev_ts x) s) l acc = acc ++ map ev_ts l.
Proof.
  induction l as [|x l IH]; intros acc S; simpl; [now rewrite app_nil_r|].
  simpl in S. destruct (ssorted_app_inv _ _ _ S) as [Sa [_ C]].
  rewrite (ins_ts_append (ev_ts x) acc Sa).
  - rewrite IH; rewrite <- app_assoc; [reflexivity | exact S].
  - apply Forall_forall. intros y Hy. apply (C y (ev_ts x) Hy). now left.
Qed.

Lemma tsorted_zdesc l : tsorted l -> zdesc (map ev_ts l).
Proof.
  induction l as [|a l IH]; intro S; simpl; [constructor|].
  apply tsorted_inv in S as [S' F]. constructor; [now apply IH|].
  rewrite Forall_forall in *. intros z Hz. apply in_map_iff in Hz as [y [<- Hy]].
  apply tkey_lt_ts. now apply F.
Qed.

Lemma nth_largest_sorted M n : tsorted M ->
  nth_largest_ts M (S n) = option_map ev_ts (nth_error M n).
Proof.
  intro S. rewrite nth_largest_ts_unfold. cbn [pred].
  rewrite (fold_ins_sorted M []); [|now apply tsorted_zdesc].
  cbn [app]. apply nth_error_map.
Qed.

(** ** one filter: the plan of the oracle against the first [n] matches *)

Lemma plan_core (M out : list event) n t xl :
  tsorted M -> nth_error M n = Some xl -> t = ev_ts xl ->
  let r := firstn (S n) M in
  let must := filter (fun x => t <? ev_ts x) M in
  let tie := filter (fun x => ev_ts x =? t) M in
  (forall x, In x r -> ev_in x out = true) ->
  (forall x, In x must -> In x r) /\
  exists A B, filter (fun x => ev_in x out) tie = A ++ B /\
              length A = (S n - length must)%nat /\
              forall x, In x r -> In x must \/ In x A.
Proof.
  intros SM Hn Ht r must tie Hout.
  assert (EM : M = r ++ skipn (S n) M) by (symmetry; apply firstn_skipn).
  assert (Er : r = firstn n M ++ [xl]) by (now apply firstn_S_nth).
  assert (SM' : tsorted (r ++ skipn (S n) M)) by (now rewrite <- EM).
  destruct (tsorted_app_inv _ _ SM') as [Sr [_ Cross]].
  assert (Hxl : In xl r) by (rewrite Er; apply in_or_app; right; now left).
  assert (R1 : forall y, In y r -> t <= ev_ts y).
  { intros y Hy. rewrite Er in Hy, Sr. apply in_app_or in Hy as [Hy|[<-|[]]]; [|lia].
    destruct (tsorted_app_inv _ _ Sr) as [_ [_ C]].
    subst t. apply tkey_lt_ts. apply C; [assumption | now left]. }
  assert (R2 : forall y, In y (skipn (S n) M) -> ev_ts y <= t).
  { intros y Hy. subst t. apply tkey_lt_ts. now apply Cross. }
  assert (Emust : must = filter (fun x => t <? ev_ts x) r).
  { unfold must. rewrite EM at 1. rewrite filter_app.
    rewrite (filter_none _ (skipn (S n) M)); [now rewrite app_nil_r|].
    intros y Hy. apply Z.ltb_ge. now apply R2. }
  assert (Etie : tie = filter (fun x => ev_ts x =? t) r ++ filter (fun x => ev_ts x =? t) (skipn (S n) M)).
  { unfold tie. rewrite EM at 1. now rewrite filter_app. }
  split.
  - intros x Hx. rewrite Emust in Hx. now apply filter_In in Hx.
  - exists (filter (fun x => ev_ts x =? t) r),
           (filter (fun x => ev_in x out) (filter (fun x => ev_ts x =? t) (skipn (S n) M))).
    split; [|split].
    + rewrite Etie, filter_app. f_equal. apply filter_true.
      intros x Hx. apply filter_In in Hx as [Hx _]. now apply Hout.
    + assert (Hlen : length r = S n).
      { unfold r. apply firstn_length_le.
        assert (Hlt : (n < length M)%nat) by (apply nth_error_Some; rewrite Hn; discriminate).
        lia. }
      pose proof (filter_partition_length (fun x => t <? ev_ts x) (fun x => ev_ts x =? t) r) as PL.
      rewrite <- Emust in PL. rewrite <- Hlen, <- PL; [lia|].
      intros x Hx. specialize (R1 x Hx).
      destruct (ev_ts x =? t) eqn:E; simpl.
      * apply Z.eqb_eq in E. apply Z.ltb_ge. lia.
      * apply Z.eqb_neq in E. apply Z.ltb_lt. lia.
    + intros x Hx. specialize (R1 x Hx). rewrite Emust, !filter_In.
      destruct (Z.eq_dec (ev_ts x) t) as [E|E].
      * right. split; [assumption | now apply Z.eqb_eq].
      * left. split; [assumption | apply Z.ltb_lt; lia].
Qed.

(** number of events a filter must return *)
Definition want (f : rfilter) (M : list event) : nat :=
  match f_limit f with Some l => Nat.min (Z.to_nat l) (length M) | None => length M end.

Lemma lim_take_want f M : lim_take (f_limit f) 0 M = firstn (want f M) M.
Proof.
  unfold lim_take, want. destruct (f_limit f) as [l|].
  - rewrite firstn_min_len. f_equal. lia.
  - now rewrite firstn_all.
Qed.

Lemma want_le f M : (want f M <= length M)%nat.
Proof. unfold want. destruct (f_limit f); lia. Qed.

Lemma plan_res T f out :
  tsorted T ->
  let r := lim_take (f_limit f) 0 (filter (fun x => match_specb x f) T) in
  let p := plan_of T f in
  (forall x, In x r -> ev_in x out = true) ->
  (forall x, In x (fp_must p) -> In x r) /\
  exists A B, filter (fun x => ev_in x out) (fp_tie p) = A ++ B /\
              length A = fp_pick p /\
              forall x, In x r -> In x (fp_must p) \/ In x A.
Proof.
  intros ST r p. unfold r, p. clear r p.
  set (M := filter (fun x => match_specb x f) T).
  assert (SM : tsorted M) by (now apply tsorted_filter).
  rewrite (lim_take_want f M).
  assert (Ep : plan_of T f =
               match want f M with
               | O => mkPlan [] [] 0
               | S _ => match nth_largest_ts M (want f M) with
                        | None => mkPlan [] [] 0
                        | Some t => mkPlan (filter (fun x => t <? ev_ts x) M)
                                           (filter (fun x => ev_ts x =? t) M)
                                           (want f M - length (filter (fun x => t <? ev_ts x) M))
                        end
               end) by reflexivity.
  rewrite Ep. clear Ep. pose proof (want_le f M) as WL.
  destruct (want f M) as [|n] eqn:W.
  - intros _. cbn [fp_must fp_tie fp_pick firstn filter]. split; [intros x []|].
    exists [], []. split; [reflexivity|]. split; [reflexivity | intros x []].
  - rewrite (nth_largest_sorted M n SM).
    destruct (nth_error M n) as [xl|] eqn:Hn.
    + cbn [option_map fp_must fp_tie fp_pick]. intro Hout.
      exact (plan_core M out n (ev_ts xl) xl SM Hn eq_refl Hout).
    + exfalso. apply nth_error_None in Hn. lia.
Qed.

(** ** the cover search succeeds when every plan's pick is a prefix choice *)

Lemma cover_search_intro out (pk : fplan -> list event) : forall plans covered,
  (forall p, In p plans ->
     In (pk p) (choose (fp_pick p) (filter (fun x => ev_in x out) (fp_tie p)))) ->
  (forall x, In x out -> In x covered \/ exists p, In p plans /\ In x (pk p)) ->
  cover_search plans out covered = true.
Proof.
  induction plans as [|p plans IH]; intros covered Hp Hc; cbn [cover_search].
  - unfold subset. apply forallb_forall. intros x Hx.
    destruct (Hc x Hx) as [H|[p [[] _]]]. apply (eset_mem_In x covered). exact H.
  - apply existsb_exists. exists (pk p). split; [apply Hp; now left|].
    apply IH.
    + intros q Hq. apply Hp. now right.
    + intros x Hx. destruct (Hc x Hx) as [H|[q [[<-|Hq] H]]].
      * left. apply in_or_app. now right.
      * left. apply in_or_app. now left.
      * right. now exists q.
Qed.

(** ** boolean and declarative forms of order and distinctness *)

Lemma tsorted_sorted_desc l : tsorted l -> sorted_desc l = true.
Proof.
  induction l as [|x l IH]; intro S; [reflexivity|].
  cbn [sorted_desc]. destruct l as [|y r]; [reflexivity|].
  pose proof (tsorted_head_lt x (y :: r) y S (or_introl eq_refl)) as L.
  apply tkey_lt_ts in L. apply andb_true_iff. split; [now apply Z.leb_le|].
  apply IH. now apply tsorted_inv in S.
Qed.

Lemma tsorted_ts_desc l : tsorted l -> StronglySorted (fun a b => ev_ts b <= ev_ts a) l.
Proof. apply ssorted_weaken. intros a b. apply tkey_lt_ts. Qed.

Lemma tsorted_NoDup_ids l : tsorted l -> ids_functional l -> NoDup (map ev_id l).
Proof.
  induction l as [|a l IH]; intros S F; simpl; constructor.
  - intro Hin. apply in_map_iff in Hin as [b [E Hb]].
    assert (a = b) by (apply F; [now left | now right | now symmetry]). subst b.
    now apply (tsorted_not_in_tail a l).
  - apply IH; [now apply tsorted_inv in S|]. apply (idsf_incl (a :: l)); [assumption|].
    intros z Hz. now right.
Qed.

Lemma nodup_ids_spec l : nodup_ids l = true <-> NoDup (map ev_id l).
Proof.
  induction l as [|a l IH]; simpl; [split; [constructor | reflexivity]|].
  rewrite andb_true_iff, negb_true_iff, IH, NoDup_cons_iff.
  assert (E : id_in a l = false <-> ~ In (ev_id a) (map ev_id l)); [|now rewrite E].
  unfold id_in. split.
  - intros H Hin. apply in_map_iff in Hin as [b [Eb Hb]].
    assert (existsb (fun y => str_eqb (ev_id a) (ev_id y)) l = true); [|congruence].
    apply existsb_exists. exists b. split; [assumption|]. apply str_eqb_eq. now symmetry.
  - intro H. apply existsb_false. intros b Hb. apply str_eqb_neq. intro E. apply H.
    rewrite E. now apply in_map.
Qed.

(* ------------------------------------------------------------------ *)
(** * Main theorems *)

Section Main.
Variable s : cstate.
Hypothesis I : Inv s.

Lemma out_has_res fs f x : In f fs -> In x (res s f) -> ev_in x (find_out s fs) = true.
Proof.
  intros Hf Hx. apply (eset_mem_In x (find_out s fs)). apply (find_out_In s). eauto.
Qed.

(** the closed form of the answer passes the oracle against the tree *)
Lemma find_out_spec_ok fs : find_spec_ok (c_tree s) fs (find_out s fs) = true.
Proof.
  pose proof (inv_tsorted s I) as ST. pose proof (inv_tree_idsf s I) as FT.
  pose proof (find_out_sorted s I fs) as SO.
  assert (IO : incl (find_out s fs) (c_tree s)).
  { intros x Hx. unfold find_out in Hx. now apply filter_In in Hx. }
  unfold find_spec_ok. rewrite !andb_true_iff. repeat split.
  - apply nodup_ids_spec. apply tsorted_NoDup_ids; [assumption|]. now apply (idsf_incl (c_tree s)).
  - now apply tsorted_sorted_desc.
  - unfold subset. apply forallb_forall. intros x Hx.
    apply (eset_mem_In x (c_tree s)). now apply IO.
  - apply forallb_forall. intros p Hp. apply in_map_iff in Hp as [f [<- Hf]].
    unfold subset. apply forallb_forall. intros x Hx.
    destruct (plan_res (c_tree s) f (find_out s fs) ST (fun y Hy => out_has_res fs f y Hf Hy)) as [Hm _].
    apply (out_has_res fs f x Hf). now apply Hm.
  - apply (cover_search_intro (find_out s fs)
             (fun p => firstn (fp_pick p) (filter (fun x => ev_in x (find_out s fs)) (fp_tie p)))).
    + intros p Hp. apply in_map_iff in Hp as [f [<- Hf]].
      destruct (plan_res (c_tree s) f (find_out s fs) ST (fun y Hy => out_has_res fs f y Hf Hy))
        as [_ [A [B [E [L _]]]]].
      rewrite E, <- L, firstn_app_exact. apply choose_prefix.
    + intros x Hx. apply (find_out_In s) in Hx as [f [Hf Hx]].
      destruct (plan_res (c_tree s) f (find_out s fs) ST (fun y Hy => out_has_res fs f y Hf Hy))
        as [_ [A [B [E [L C]]]]].
      destruct (C x Hx) as [H|H].
      * left. apply in_flat_map. exists (plan_of (c_tree s) f). split; [now apply in_map | assumption].
      * right. exists (plan_of (c_tree s) f). split; [now apply in_map|].
        now rewrite E, <- L, firstn_app_exact.
Qed.

(** item 5 *)
Theorem find_correct fs out :
  Forall filter_ok fs -> c_find s fs = Ok out -> find_spec_ok (c_listing s) fs out = true.
Proof.
  intros OK E. rewrite (c_find_spec s I fs OK) in E. inversion E; subst out.
  rewrite (listing_is_retained s I). apply find_out_spec_ok.
Qed.

(** each filter's share is a top-limit subset *)
Lemma res_topn f : topn (c_tree s) f (res s f).
Proof.
  pose proof (inv_tsorted s I) as ST.
  set (M := filter (fun x => match_specb x f) (c_tree s)).
  assert (SM : tsorted M) by (now apply tsorted_filter).
  unfold topn. split; [|split; [|split]].
  - apply tsorted_NoDup. now apply res_sorted.
  - intros x Hx. split; [now apply (res_incl s f)|].
    apply match_specb_spec. now apply (res_match s f).
  - cbv zeta. fold M. unfold res. fold M. rewrite (lim_take_want f M).
    rewrite firstn_length. unfold want. destruct (f_limit f); lia.
  - intros x y Hx Hy My Ny. unfold res in Hx, Ny. fold M in Hx, Ny.
    rewrite (lim_take_want f M) in Hx, Ny.
    assert (HyM : In y M).
    { apply filter_In. split; [assumption | now apply match_specb_spec]. }
    rewrite <- (firstn_skipn (want f M) M) in HyM, SM.
    apply in_app_or in HyM as [HyM|HyM]; [contradiction|].
    destruct (tsorted_app_inv _ _ SM) as [_ [_ C]].
    apply tkey_lt_ts. now apply C.
Qed.

Theorem find_correct_decl fs out :
  Forall filter_ok fs -> c_find s fs = Ok out -> find_spec (c_listing s) fs out.
Proof.
  intros OK E. rewrite (c_find_spec s I fs OK) in E. inversion E; subst out.
  rewrite (listing_is_retained s I).
  pose proof (find_out_sorted s I fs) as SO.
  unfold find_spec. split; [|split].
  - apply tsorted_NoDup_ids; [assumption|].
    apply (idsf_incl (c_tree s)); [apply (inv_tree_idsf s I)|].
    intros x Hx. unfold find_out in Hx. now apply filter_In in Hx.
  - now apply tsorted_ts_desc.
  - exists (map (res s) fs). split.
    + apply Forall2_map_r. intros f _. apply res_topn.
    + intro x. rewrite (find_out_In s). split.
      * intros [f [Hf Hx]]. exists (res s f). split; [now apply in_map | assumption].
      * intros [r [Hr Hx]]. apply in_map_iff in Hr as [f [<- Hf]]. eauto.
Qed.

End Main.

(* ------------------------------------------------------------------ *)
(** * Soundness of the oracle: whatever [find_spec_ok] accepts (for ANY
      duplicate-free listing, sorted or not) satisfies the declarative
      specification.  This is the reading under which the oracle judges the
      implementation's own answers in the correspondence check. *)

Lemma choose_sub {A} : forall (l : list A) k c, In c (choose k l) ->
  length c = k /\ incl c l /\ (NoDup l -> NoDup c).
Proof.
  induction l as [|x rest IH]; intros [|k] c H.
  - destruct H as [<-|[]]. split; [reflexivity|]. split; [intros z []|intros _; constructor].
  - destruct H.
  - destruct H as [<-|[]]. split; [reflexivity|]. split; [intros z []|intros _; constructor].
  - cbn [choose] in H. apply in_app_or in H as [H|H].
    + apply in_map_iff in H as [c' [<- Hc']]. destruct (IH k c' Hc') as [L [Inc ND]].
      split; [simpl; now rewrite L|]. split.
      * intros z [<-|Hz]; [now left | right; now apply Inc].
      * intro N. apply NoDup_cons_iff in N as [Nx N]. constructor; [|now apply ND].
        intro Hx. apply Nx. now apply Inc.
    + destruct (IH (S k) c H) as [L [Inc ND]]. split; [assumption|]. split.
      * intros z Hz. right. now apply Inc.
      * intro N. apply NoDup_cons_iff in N as [_ N]. now apply ND.
Qed.

Lemma NoDup_app_intro {A} (a b : list A) :
  NoDup a -> NoDup b -> (forall x, In x a -> ~ In x b) -> NoDup (a ++ b).
Proof.
  induction a as [|x a IH]; intros Na Nb D; simpl; [assumption|].
  apply NoDup_cons_iff in Na as [Nx Na]. constructor.
  - intro H. apply in_app_or in H as [H|H]; [contradiction|]. apply (D x); [now left | assumption].
  - apply IH; auto. intros z Hz. apply D. now right.
Qed.

Lemma perm_filter_length {A} (p : A -> bool) l l' :
  Permutation l l' -> length (filter p l) = length (filter p l').
Proof.
  induction 1 as [|x l l' P IH|x y l|l l' l'' P1 IH1 P2 IH2]; simpl.
  - reflexivity.
  - destruct (p x); simpl; now rewrite IH.
  - destruct (p x), (p y); reflexivity.
  - now rewrite IH1.
Qed.

Lemma filter_map_length {A B} (g : A -> B) (p : B -> bool) l :
  length (filter p (map g l)) = length (filter (fun x => p (g x)) l).
Proof. induction l as [|a l IH]; simpl; [reflexivity|]. destruct (p (g a)); simpl; now rewrite IH. Qed.

Lemma Forall2_in_l {A B} (P : A -> B -> Prop) l l' :
  Forall2 P l l' -> forall a, In a l -> exists b, In b l' /\ P a b.
Proof.
  induction 1 as [|x y l l' H F IH]; intros a []; [subst; exists y; split; [now left | assumption]|].
  destruct (IH a H0) as [b [Hb Pb]]. exists b. split; [now right | assumption].
Qed.

Lemma Forall2_in_r {A B} (P : A -> B -> Prop) l l' :
  Forall2 P l l' -> forall b, In b l' -> exists a, In a l /\ P a b.
Proof.
  induction 1 as [|x y l l' H F IH]; intros b []; [subst; exists x; split; [now left | assumption]|].
  destruct (IH b H0) as [a [Ha Pa]]. exists a. split; [now right | assumption].
Qed.

Lemma Forall2_mono {A B} (P Q : A -> B -> Prop) l l' :
  (forall a b, P a b -> Q a b) -> Forall2 P l l' -> Forall2 Q l l'.
Proof. intros W. induction 1; constructor; auto. Qed.

(** the insertion sort inside [nth_largest_ts] *)
Lemma ins_ts_perm z : forall s, Permutation (ins_ts z s) (z :: s).
Proof.
  induction s as [|y r IH]; simpl; [apply Permutation_refl|].
  destruct (y <=? z); [apply Permutation_refl|].
  eapply perm_trans; [apply perm_skip; exact IH | apply perm_swap].
Qed.

Lemma ins_ts_zdesc z : forall s, zdesc s -> zdesc (ins_ts z s).
Proof.
  induction s as [|y r IH]; intro S; simpl.
  - constructor; constructor.
  - pose proof (StronglySorted_inv S) as [S' F]. rewrite Forall_forall in F.
    destruct (y <=? z) eqn:C.
    + apply Z.leb_le in C. constructor; [assumption|]. apply Forall_forall.
      intros b [<-|Hb]; [assumption|]. specialize (F b Hb). simpl in F. lia.
    + apply Z.leb_gt in C. constructor; [now apply IH|]. apply Forall_forall.
      intros b Hb. apply (Permutation_in _ (ins_ts_perm z r)) in Hb as [<-|Hb]; [lia|].
      now apply F.
Qed.

Lemma fold_ins_props : forall l acc, zdesc acc ->
  zdesc (fold_left (fun s x => ins_ts (ev_ts x) s) l acc) /\
  Permutation (fold_left (fun s x => ins_ts (ev_ts x) s) l acc) (acc ++ map ev_ts l).
Proof.
  induction l as [|x l IH]; intros acc S; simpl.
  - split; [assumption | now rewrite app_nil_r].
  - destruct (IH (ins_ts (ev_ts x) acc) (ins_ts_zdesc _ _ S)) as [S' P]. split; [assumption|].
    eapply perm_trans; [exact P|].
    eapply perm_trans; [apply Permutation_app_tail; apply ins_ts_perm|].
    simpl. apply Permutation_middle.
Qed.

Lemma zdesc_count_above : forall L k t, zdesc L -> nth_error L k = Some t ->
  (length (filter (fun z => (t <? z)%Z) L) <= k)%nat.
Proof.
  induction L as [|y r IH]; intros [|k] t S E; simpl in E; try discriminate.
  - inversion E; subst y. simpl. rewrite Z.ltb_irrefl.
    apply StronglySorted_inv in S as [_ F]. rewrite Forall_forall in F.
    rewrite filter_none; [simpl; lia|]. intros z Hz. apply Z.ltb_ge. now apply F.
  - apply StronglySorted_inv in S as [S' _]. specialize (IH k t S' E).
    simpl. destruct (t <? y); simpl; lia.
Qed.

(** the n-th largest created_at has fewer than n events strictly above it *)
Lemma nth_largest_props M n :
  (n < length M)%nat ->
  exists t, nth_largest_ts M (S n) = Some t /\
            (length (filter (fun x => (t <? ev_ts x)%Z) M) <= n)%nat.
Proof.
  intro Hn. rewrite nth_largest_ts_unfold. cbn [pred].
  destruct (fold_ins_props M [] (SSorted_nil _)) as [S P]. cbn [app] in P.
  set (L := fold_left (fun s x => ins_ts (ev_ts x) s) M []) in *.
  assert (HL : length L = length M) by (rewrite (Permutation_length P); apply map_length).
  destruct (nth_error L n) as [t|] eqn:E.
  - exists t. split; [reflexivity|].
    rewrite <- (filter_map_length ev_ts (fun z => t <? z) M).
    rewrite <- (perm_filter_length _ _ _ P). now apply zdesc_count_above.
  - apply nth_error_None in E. lia.
Qed.

(** one filter: any admissible pick completes the mandatory part to a top-n set *)
Lemma plan_topn R f out pick :
  NoDup R ->
  In pick (choose (fp_pick (plan_of R f))
                  (filter (fun x => ev_in x out) (fp_tie (plan_of R f)))) ->
  topn R f (fp_must (plan_of R f) ++ pick).
Proof.
  intros NR.
  set (M := filter (fun x => match_specb x f) R).
  assert (NM : NoDup M) by (now apply NoDup_filter).
  assert (Ep : plan_of R f =
               match want f M with
               | O => mkPlan [] [] 0
               | S _ => match nth_largest_ts M (want f M) with
                        | None => mkPlan [] [] 0
                        | Some t => mkPlan (filter (fun x => t <? ev_ts x) M)
                                           (filter (fun x => ev_ts x =? t) M)
                                           (want f M - length (filter (fun x => t <? ev_ts x) M))
                        end
               end) by reflexivity.
  rewrite Ep. clear Ep. pose proof (want_le f M) as WL.
  unfold topn.
  destruct (want f M) as [|n] eqn:W.
  - cbn [fp_must fp_tie fp_pick filter app]. intros [<-|[]].
    split; [constructor|]. split; [intros x []|].
    split; [change (length (@nil event) = want f M); now rewrite W | intros x y []].
  - destruct (nth_largest_props M n ltac:(lia)) as [t [Et Hcount]]. rewrite Et.
    cbn [fp_must fp_tie fp_pick]. intro Hpick.
    set (must := filter (fun x => t <? ev_ts x) M) in *.
    set (tie := filter (fun x => ev_ts x =? t) M) in *.
    destruct (choose_sub _ _ _ Hpick) as [Lp [Ip Np]].
    assert (Ip' : forall x, In x pick -> In x M /\ ev_ts x = t).
    { intros x Hx. apply Ip in Hx. apply filter_In in Hx as [Hx _].
      unfold tie in Hx. apply filter_In in Hx as [Hx E]. split; [assumption | now apply Z.eqb_eq]. }
    assert (Im : forall x, In x must -> In x M /\ t < ev_ts x).
    { intros x Hx. unfold must in Hx. apply filter_In in Hx as [Hx E]. split; [assumption | now apply Z.ltb_lt]. }
    assert (HinM : forall x, In x M -> In x R /\ match_spec x f).
    { intros x Hx. unfold M in Hx. apply filter_In in Hx as [Hx E]. split; [assumption | now apply match_specb_spec]. }
    split; [|split; [|split]].
    + apply NoDup_app_intro.
      * now apply NoDup_filter.
      * apply Np. apply NoDup_filter. now apply NoDup_filter.
      * intros x H1 H2. apply Im in H1 as [_ H1]. apply Ip' in H2 as [_ H2]. lia.
    + intros x Hx. apply HinM. apply in_app_or in Hx as [Hx|Hx]; [now apply Im | now apply Ip'].
    + change (length (must ++ pick) = want f M). rewrite W, app_length, Lp. lia.
    + intros x y Hx Hy My Ny.
      assert (Hxt : t <= ev_ts x).
      { apply in_app_or in Hx as [Hx|Hx]; [apply Im in Hx; lia | apply Ip' in Hx; lia]. }
      destruct (Z.lt_ge_cases t (ev_ts y)) as [C|C]; [|lia].
      exfalso. apply Ny. apply in_or_app. left. unfold must. apply filter_In. split.
      * unfold M. apply filter_In. split; [assumption | now apply match_specb_spec].
      * now apply Z.ltb_lt.
Qed.

Lemma cover_search_elim R out : forall fs covered,
  cover_search (map (plan_of R) fs) out covered = true ->
  exists rs,
    Forall2 (fun f r => exists pick,
               In pick (choose (fp_pick (plan_of R f))
                               (filter (fun x => ev_in x out) (fp_tie (plan_of R f)))) /\
               r = fp_must (plan_of R f) ++ pick) fs rs /\
    forall x, In x out -> In x covered \/ exists r, In r rs /\ In x r.
Proof.
  induction fs as [|f fs IH]; intros covered H; cbn [map cover_search] in H.
  - exists []. split; [constructor|]. intros x Hx. left.
    unfold subset in H. rewrite forallb_forall in H. apply (eset_mem_In x covered). now apply H.
  - apply existsb_exists in H as [pick [Hp H]].
    destruct (IH _ H) as [rs [F C]].
    exists ((fp_must (plan_of R f) ++ pick) :: rs). split.
    + constructor; [|assumption]. now exists pick.
    + intros x Hx. destruct (C x Hx) as [Hc|[r [Hr Hxr]]].
      * apply in_app_or in Hc as [Hc|Hc]; [|now left].
        right. exists (fp_must (plan_of R f) ++ pick). split; [now left|]. apply in_or_app. now right.
      * right. exists r. split; [now right | assumption].
Qed.

Lemma sorted_desc_strong l : sorted_desc l = true -> StronglySorted (fun a b => ev_ts b <= ev_ts a) l.
Proof.
  induction l as [|x l IH]; intro H; [constructor|].
  cbn [sorted_desc] in H. destruct l as [|y r]; [constructor; constructor|].
  apply andb_true_iff in H as [Hxy H]. apply Z.leb_le in Hxy.
  specialize (IH H). constructor; [assumption|].
  apply StronglySorted_inv in IH as [_ F]. rewrite Forall_forall in F.
  apply Forall_forall. intros b [<-|Hb]; [assumption|]. specialize (F b Hb). simpl in F. lia.
Qed.

Theorem find_spec_ok_sound R fs out :
  nodup_ids R = true -> find_spec_ok R fs out = true -> find_spec R fs out.
Proof.
  intros NR H. apply nodup_ids_spec in NR. apply NoDup_map_inv in NR.
  unfold find_spec_ok in H. rewrite !andb_true_iff in H.
  destruct H as [[[[H1 H2] H3] H4] H5].
  unfold find_spec. split; [now apply nodup_ids_spec|]. split; [now apply sorted_desc_strong|].
  destruct (cover_search_elim R out fs _ H5) as [rs [F C]].
  exists rs. split.
  - eapply Forall2_mono; [|exact F]. intros f r [pick [Hp ->]]. exact (plan_topn R f out pick NR Hp).
  - intro x. split.
    + intro Hx. destruct (C x Hx) as [Hc|Hr]; [|assumption].
      apply in_flat_map in Hc as [p [Hp Hxp]]. apply in_map_iff in Hp as [f [<- Hf]].
      destruct (Forall2_in_l _ _ _ F f Hf) as [r [Hr [pick [_ ->]]]].
      exists (fp_must (plan_of R f) ++ pick). split; [assumption|]. apply in_or_app. now left.
    + intros [r [Hr Hx]]. destruct (Forall2_in_r _ _ _ F r Hr) as [f [Hf [pick [Hp ->]]]].
      apply (eset_mem_In x out). apply in_app_or in Hx as [Hx|Hx].
      * rewrite forallb_forall in H4. specialize (H4 (plan_of R f) (in_map _ _ _ Hf)).
        unfold subset in H4. rewrite forallb_forall in H4. now apply H4.
      * destruct (choose_sub _ _ _ Hp) as [_ [Inc _]]. apply Inc in Hx.
        now apply filter_In in Hx.
Qed.

(* ------------------------------------------------------------------ *)
(** * Statements in the form used by Properties/C03.v *)

(** the first [limit] elements (all without a limit; none for a limit <= 0) *)
Definition take_limit (lim : option Z) (l : list event) : list event :=
  match lim with None => l | Some L => firstn (Z.to_nat L) l end.

Lemma lim_take_0 lim l : lim_take lim 0 l = take_limit lim l.
Proof. unfold lim_take, take_limit. destruct lim; [f_equal; lia | reflexivity]. Qed.

Lemma res_eq s f : res s f = take_limit (f_limit f) (filter (fun x => match_specb x f) (c_tree s)).
Proof. apply lim_take_0. Qed.

(** item 1 *)
Lemma tree_set_set_insert e t y :
  keys_functional (e :: t) -> (In y (tree_set e t) <-> y = e \/ In y t).
Proof.
  intro F. apply tree_set_In. intros x Hx K. symmetry.
  apply (F e x); [now left | now right | assumption].
Qed.

Lemma insertion_order_irrelevant l l' acc :
  keys_functional (l ++ acc) -> tsorted acc -> Permutation l l' ->
  fold_tset l acc = fold_tset l' acc /\ tsorted (fold_tset l acc) /\
  (forall y, In y (fold_tset l acc) <-> In y l \/ In y acc).
Proof.
  intros F S P. split; [|split].
  - apply (fold_tset_perm (l ++ acc)); auto.
    + intros z Hz. apply in_or_app. now left.
    + intros z Hz. apply in_or_app. now right.
  - now apply fold_tset_sorted.
  - apply (fold_tset_In (l ++ acc)); auto.
    + intros z Hz. apply in_or_app. now left.
    + intros z Hz. apply in_or_app. now right.
Qed.

(** item 2 *)
Theorem scan_full_topn' s f : Inv s -> is_full_scan f = true ->
  scan_loop (c_tree s) (lm_new f) [] =
  Ok (take_limit (f_limit f) (filter (fun x => match_specb x (time_only f)) (c_tree s))).
Proof. intros I FS. rewrite (scan_full_topn s I f FS). now rewrite lim_take_0. Qed.

Theorem scan_full_acc s f acc : Inv s -> is_full_scan f = true ->
  scan_loop (c_tree s) (lm_new f) acc =
  Ok (fold_tset (take_limit (f_limit f) (filter (fun x => match_specb x f) (c_tree s))) acc).
Proof.
  intros I FS. rewrite <- res_eq. apply scan_spec. intros x _. now apply full_scan_impl.
Qed.

(** item 3 *)
Theorem index_path_result s f : Inv s -> filter_ok f -> is_full_scan f = false ->
  idx_find (c_idx s) f =
  Some (Ok (take_limit (f_limit f) (filter (fun x => match_specb x f) (c_tree s)))).
Proof. intros I OK NF. rewrite (idx_find_spec s I f OK), NF. now rewrite res_eq. Qed.

(** the whole index path with the candidates enumerated in ANY order (Go
    ranges over a map): same answer *)
Theorem index_path_any_enumeration s f sets c c' limit :
  Inv s -> filter_ok f -> is_full_scan f = false ->
  Permutation sets (map (idx_union (c_idx s)) (ikeys_of_filter f)) ->
  inter_all sets = Some c -> Permutation c c' ->
  limit = match f_limit f with Some l => Z.min (Z.of_nat (length c')) l | None => Z.of_nat (length c') end ->
  Some (bounded_insert c' (time_only f) limit [] 0) = idx_find (c_idx s) f.
Proof.
  intros I OK NF P E Pc Hl.
  destruct (index_cands_any_order s I f sets c OK NF P E) as [ND Hc].
  assert (Inc : incl c (c_tree s)).
  { intros z Hz. apply (inv_tree_In s I). now apply Hc. }
  rewrite (bounded_insert_order_irrelevant s I f limit c c' ND Inc Pc).
  (* the model's own run, with its own order *)
  unfold idx_find. fold (is_full_scan f). rewrite NF. f_equal.
  destruct (index_cands_exists s f OK NF) as [c0 E0]. rewrite E0.
  destruct (index_cands_any_order s I f _ c0 OK NF (sort_by_len_perm _) E0) as [ND0 Hc0].
  assert (Inc0 : incl c0 (c_tree s)).
  { intros z Hz. apply (inv_tree_In s I). now apply Hc0. }
  assert (Pcc : Permutation c c0).
  { apply NoDup_Permutation; auto. intro x. now rewrite Hc, Hc0. }
  rewrite (Permutation_length (Permutation_sym Pc)) in Hl.
  rewrite (Permutation_length Pcc) in Hl. rewrite <- Hl.
  symmetry. apply (bounded_insert_order_irrelevant s I f limit c c0 ND Inc Pcc).
Qed.

(** both paths return a top-[limit] set of the matching retained events *)
Theorem filter_share_topn s f : Inv s ->
  topn (c_tree s) f (take_limit (f_limit f) (filter (fun x => match_specb x f) (c_tree s))).
Proof. intro I. rewrite <- res_eq. now apply res_topn. Qed.

Theorem c_find_closed_form s : Inv s -> forall fs, Forall filter_ok fs ->
  c_find s fs =
  Ok (filter (fun x => existsb (fun f =>
                eset_mem x (take_limit (f_limit f) (filter (fun y => match_specb y f) (c_tree s)))) fs)
             (c_tree s)).
Proof.
  intros I fs OK. rewrite (c_find_spec s I fs OK). unfold find_out. f_equal.
  apply filter_ext. intro x. clear OK. induction fs as [|f fs IH]; simpl; [reflexivity|].
  now rewrite res_eq, IH.
Qed.

(* ------------------------------------------------------------------ *)
(** * A concrete state for the non-vacuity examples *)

Module Ex.
  Definition sA : str := [65]%N.  Definition sB : str := [66]%N.  Definition sC : str := [67]%N.
  Definition st : str := [116]%N. Definition sx : str := [120]%N. Definition sy : str := [121]%N.
  Definition se : str := [101]%N. Definition sp : str := [112]%N.
  Definition i (a b : N) : str := [a; b]%N.
  Definition a1 := mkEvent (i 97 49) sA 1 1 [[st; sx]] [] [].
  Definition a2 := mkEvent (i 97 50) sA 2 1 [[st; sy]] [] [].
  Definition b1 := mkEvent (i 98 49) sB 2 1 [[st; sx]; [sp; sA]] [] [].
  Definition b2 := mkEvent (i 98 50) sB 3 0 [] [] [].
  Definition b3 := mkEvent (i 98 51) sB 4 0 [] [] [].              (* replaces b2 *)
  Definition a3 := mkEvent (i 97 51) sA 5 5 [[se; i 97 49]] [] []. (* deletes a1 *)
  Definition c1 := mkEvent (i 99 49) sC 5 1 [[st; sx]] [] [].
  Definition hist := [a1; a2; b1; b2; b3; a3; c1].
  Definition s0 := c_run 10 hist.
  (** selective: {"#t":["x"], since 2, limit 1}; non-selective: {since 2, until 5, limit 3} *)
  Definition fsel := mkFilter None None None (Some [(st, [sx])]) (Some 2) None (Some 1).
  Definition fnon := mkFilter None None None None (Some 2) (Some 5) (Some 3).
  Definition fauth := mkFilter None (Some [sA; sB]) (Some [1; 0]) None None None None.
End Ex.
