(* Handlers.v — C16: model of the storage-backed handlers (handler.go
   SimpleHandler, DefaultSimpleHandlerBase, simpleCacheHandler with Dump and
   Restore; handler/sqlite/handler.go simpleSQLiteHandler with its bulk
   inserter), the specification of a session's reply sequence written from
   the property text, and its boolean oracle.  Definitions only; proofs are in
   HandlersProofs.v. *)
From Coq Require String.
From Moc Require Import Base Match Msg Cache CacheSpec.
Open Scope Z_scope.

(* ------------------------------------------------------------------ *)
(** * Constants of the code *)

(** [MachineReadablePrefixDuplicate] and the text of the cache handler's rejection *)
Module HandlerLiterals.
  Import String.
  Local Open Scope string_scope.
  Definition dup_s : string := "duplicate: ".
  Definition already_s : string := "already have this event".
End HandlerLiterals.
Definition dup_prefix : str := Eval compute in str_of_string HandlerLiterals.dup_s.
Definition already_have : str := Eval compute in str_of_string HandlerLiterals.already_s.

(* ------------------------------------------------------------------ *)
(** * SimpleHandler.ServeNostr *)

(** A base answers one client message with a reply channel: [None] is the nil
    channel (nothing is read from it), [Some l] a channel that yields [l] and is
    then closed.  [Panic] is a Go panic inside the base (the cache's [Find] on an
    event with an empty tag). *)
Definition chan_items (ch : option (list smsg)) : list smsg :=
  match ch with Some l => l | None => [] end.

Section Simple.
  Context {St : Type}.

  Definition sbase := St -> cmsg -> outcome (St * option (list smsg)).

  (** the loop: read one request, ask the base, forward every item of the reply
      channel until it is closed, only then read the next request *)
  Fixpoint simple_session (b : sbase) (s : St) (msgs : list cmsg) : outcome (St * list smsg) :=
    match msgs with
    | [] => Ok (s, [])
    | m :: rest =>
        match b s m with
        | Panic => Panic
        | Ok (s1, ch) =>
            match simple_session b s1 rest with
            | Panic => Panic
            | Ok (s2, out) => Ok (s2, chan_items ch ++ out)
            end
        end
    end.
End Simple.

(** [DefaultSimpleHandlerBase.ServeNostrClientMsg] *)
Definition default_reply (m : cmsg) : option (list smsg) :=
  match m with
  | CEvent e => Some [SOk (ev_id e) false [] []]
  | CReq sub _ => Some [SClosed sub [] []]
  | CClose _ => None
  | CAuth _ => None
  | CCount sub _ => Some [SCount sub 0 None]
  end.

Definition default_base : @sbase unit := fun s m => Ok (s, default_reply m).

(* ------------------------------------------------------------------ *)
(** * simpleCacheHandler *)

(** [simpleCacheHandler.ServeNostrClientMsg]: its own switch has the cases
    EVENT, REQ, COUNT and a default that returns the nil channel *)
Definition cache_base : @sbase cstate := fun s m =>
  match m with
  | CEvent e =>
      let '(s', added) := c_add s e in
      Ok (s', Some [if added then SOk (ev_id e) true [] []
                    else SOk (ev_id e) false dup_prefix already_have])
  | CReq sub fs =>
      match c_find s fs with
      | Panic => Panic
      | Ok evs => Ok (s, Some (List.map (SEvent sub) evs ++ [SEose sub]))
      end
  | CCount sub _ => Ok (s, Some [SCount sub 0 None])
  | CClose _ => Ok (s, None)
  | CAuth _ => Ok (s, None)
  end.

Definition cache_session (s : cstate) (msgs : list cmsg) : outcome (cstate * list smsg) :=
  simple_session cache_base s msgs.

(** [Dump]: the match-everything query, serialised (the JSON round trip of an
    event list is C10's); [Restore]: [Add] of every event in the order of the dump *)
Definition dump (s : cstate) : list event := c_listing s.
Definition restore (s : cstate) (evs : list event) : cstate :=
  fold_left (fun s0 e => fst (c_add s0 e)) evs s.

(* ------------------------------------------------------------------ *)
(** * simpleSQLiteHandler *)

(** The store is abstract here (its relational model is Sql.v, C06/C14): a
    query may fail ([None]: the handler logs and answers EOSE alone), a batch
    insertion yields the next database.  The handler acknowledges an EVENT when
    it has put it on [eventCh]; the goroutine [serveBulkInsert] takes events
    from the channel, skips ids it has seen recently (an LRU of 2n ids),
    collects n events and inserts them; a ticker flushes a partial batch.  When
    these background steps run relative to the requests is the scheduler's
    choice: a session takes, per request, the list of background steps that
    happen before it. *)
Inductive bg := BgRecv | BgTick.

Section Sqlite.
  Variable db : Type.
  Variable query : db -> list rfilter -> option (list event).
  Variable insert_batch : db -> list event -> db.
  Variable bulk_num : nat.             (* EventBulkInsertNum *)

  Record sqstate := mkSq {
    sq_db : db;
    sq_queue : list event;             (* eventCh *)
    sq_buf : list event;               (* events collected for the next batch *)
    sq_seen : list str                 (* the LRU, most recently used first *)
  }.

  Definition lru_touch (id : str) (l : list str) : list str :=
    id :: List.filter (fun x => negb (str_eqb x id)) l.
  Definition lru_add (size : nat) (id : str) (l : list str) : list str := firstn size (id :: l).

  (** [case event := <-h.eventCh] *)
  Definition recv_step (s : sqstate) : sqstate :=
    match sq_queue s with
    | [] => s
    | e :: q =>
        if mem_str (ev_id e) (sq_seen s)
        then mkSq (sq_db s) q (sq_buf s) (lru_touch (ev_id e) (sq_seen s))
        else
          let seen := lru_add (2 * bulk_num) (ev_id e) (sq_seen s) in
          let buf := sq_buf s ++ [e] in
          if Nat.leb bulk_num (length buf)
          then mkSq (insert_batch (sq_db s) buf) q [] seen
          else mkSq (sq_db s) q buf seen
    end.

  (** [case <-tickCh] *)
  Definition tick_step (s : sqstate) : sqstate :=
    match sq_buf s with
    | [] => s
    | buf => mkSq (insert_batch (sq_db s) buf) (sq_queue s) [] (sq_seen s)
    end.

  Definition bg_step (s : sqstate) (b : bg) : sqstate :=
    match b with BgRecv => recv_step s | BgTick => tick_step s end.

  (** [simpleSQLiteHandler.ServeNostrClientMsg]: REQ and EVENT are served here,
      every other type is delegated to the default base *)
  Definition sqlite_reply (s : sqstate) (m : cmsg) : sqstate * option (list smsg) :=
    match m with
    | CReq sub fs =>
        (s, Some (match query (sq_db s) fs with
                  | Some evs => List.map (SEvent sub) evs ++ [SEose sub]
                  | None => [SEose sub]
                  end))
    | CEvent e =>
        (mkSq (sq_db s) (sq_queue s ++ [e]) (sq_buf s) (sq_seen s), Some [SOk (ev_id e) true [] []])
    | _ => (s, default_reply m)
    end.

  (** the state of a session: the schedule still to come and the handler *)
  Definition sqlite_base : @sbase (list (list bg) * sqstate) := fun st m =>
    let s0 := fold_left bg_step (hd [] (fst st)) (snd st) in
    let '(s1, ch) := sqlite_reply s0 m in
    Ok ((tl (fst st), s1), ch).

  Definition sqlite_session (sched : list (list bg)) (s : sqstate) (msgs : list cmsg)
    : outcome ((list (list bg) * sqstate) * list smsg) :=
    simple_session sqlite_base (sched, s) msgs.

  (** reachability by background steps only *)
  Inductive bg_reach : sqstate -> sqstate -> Prop :=
  | bg_refl s : bg_reach s s
  | bg_more s b s' : bg_reach (bg_step s b) s' -> bg_reach s s'.
End Sqlite.

Arguments mkSq {db}.
Arguments sq_db {db}.
Arguments sq_queue {db}.
Arguments sq_buf {db}.
Arguments sq_seen {db}.

(* ------------------------------------------------------------------ *)
(** * Specification (from the property text)

    "Replies come in request order: each EVENT gets exactly one OK with its id
    (cache: accepting iff newly stored, otherwise rejecting, with the
    duplicate: prefix when that very event is already stored; SQLite:
    accepting), each REQ gets the stored matches labelled with its
    subscription id followed by exactly one EOSE, each COUNT one COUNT reply,
    CLOSE and AUTH nothing."

    What "newly stored" and "the stored matches" mean is the store's business
    (C03–C06); the shape is stated over any store, given as three relations. *)
Section Shape.
  Context {St : Type}.
  Variable ok_reply : St -> event -> smsg -> Prop.        (* an admissible answer to EVENT e *)
  Variable after_event : St -> event -> St -> Prop.       (* the store after EVENT e *)
  Variable stored_matches : St -> list rfilter -> list event -> Prop.
  Variable background : St -> St -> Prop.                 (* what the store may do by itself *)

  Inductive session_shape : St -> list cmsg -> list smsg -> Prop :=
  | sh_nil s : session_shape s [] []
  | sh_bg s s' msgs out :
      background s s' -> session_shape s' msgs out -> session_shape s msgs out
  | sh_event s s' e r msgs out :
      ok_reply s e r -> after_event s e s' -> session_shape s' msgs out ->
      session_shape s (CEvent e :: msgs) (r :: out)
  | sh_req s sub fs evs msgs out :
      stored_matches s fs evs -> session_shape s msgs out ->
      session_shape s (CReq sub fs :: msgs) (List.map (SEvent sub) evs ++ SEose sub :: out)
  | sh_count s sub fs n a msgs out :
      session_shape s msgs out ->
      session_shape s (CCount sub fs :: msgs) (SCount sub n a :: out)
  | sh_close s sub msgs out :
      session_shape s msgs out -> session_shape s (CClose sub :: msgs) out
  | sh_auth s e msgs out :
      session_shape s msgs out -> session_shape s (CAuth e :: msgs) out.
End Shape.

(** the cache: accepting iff [Add] reported the event as new (DESIGN.md 9),
    otherwise rejecting, with the duplicate prefix when that very event is stored *)
Definition cache_ok_reply (s : cstate) (e : event) (r : smsg) : Prop :=
  exists acc pre msg,
    r = SOk (ev_id e) acc pre msg /\ acc = snd (c_add s e) /\
    (acc = false -> In e (List.map snd (c_evs s)) -> pre = dup_prefix).
Definition cache_after_event (s : cstate) (e : event) (s' : cstate) : Prop := s' = fst (c_add s e).
Definition cache_matches (s : cstate) (fs : list rfilter) (evs : list event) : Prop := c_find s fs = Ok evs.

Definition cache_session_shape : cstate -> list cmsg -> list smsg -> Prop :=
  session_shape cache_ok_reply cache_after_event cache_matches (fun _ _ => False).

Section SqliteShape.
  Variable db : Type.
  Variable query : db -> list rfilter -> option (list event).
  Variable insert_batch : db -> list event -> db.
  Variable bulk_num : nat.

  Definition sqlite_ok_reply (s : sqstate db) (e : event) (r : smsg) : Prop :=
    exists pre msg, r = SOk (ev_id e) true pre msg.
  Definition sqlite_after_event (s : sqstate db) (e : event) (s' : sqstate db) : Prop :=
    s' = mkSq (sq_db s) (sq_queue s ++ [e]) (sq_buf s) (sq_seen s).
  (** the matches the database holds at that moment; a failing query shows nothing *)
  Definition sqlite_matches (s : sqstate db) (fs : list rfilter) (evs : list event) : Prop :=
    query (sq_db s) fs = Some evs \/ (query (sq_db s) fs = None /\ evs = []).

  Definition sqlite_session_shape : sqstate db -> list cmsg -> list smsg -> Prop :=
    session_shape sqlite_ok_reply sqlite_after_event sqlite_matches (bg_reach db insert_batch bulk_num).
End SqliteShape.

(* ------------------------------------------------------------------ *)
(** * Boolean oracle over an observed session (requests, replies)

    The oracle splits the observed reply sequence along the requests: an OK
    for an EVENT, for a REQ the maximal run of EVENT messages followed by one
    EOSE, a COUNT for a COUNT, nothing for CLOSE and AUTH, and nothing left at
    the end.  What it knows of the store is a view [V] (for the cache the
    observed match-everything listing, for SQLite the events sent so far) that
    the caller advances at every EVENT with one auxiliary observation. *)
Fixpoint take_events (out : list smsg) : list (str * event) * list smsg :=
  match out with
  | SEvent sub e :: rest => let '(evs, rest') := take_events rest in ((sub, e) :: evs, rest')
  | _ => ([], out)
  end.

Section Oracle.
  Context {V A : Type}.
  Variable next_view : V -> event -> list A -> V * list A.
  Variable ok_judge : V -> V -> event -> smsg -> bool.          (* view before, view after *)
  Variable req_judge : V -> list rfilter -> list event -> bool.

  Fixpoint session_shape_ok (v : V) (aux : list A) (msgs : list cmsg) (out : list smsg) : bool :=
    match msgs with
    | [] => match out with [] => true | _ => false end
    | CEvent e :: rest =>
        match out with
        | r :: out' =>
            let '(v', aux') := next_view v e aux in
            ok_judge v v' e r && session_shape_ok v' aux' rest out'
        | [] => false
        end
    | CReq sub fs :: rest =>
        let '(evs, out1) := take_events out in
        forallb (fun se => str_eqb (fst se) sub) evs &&
        match out1 with
        | SEose sub' :: out2 =>
            str_eqb sub' sub && req_judge v fs (List.map snd evs) && session_shape_ok v aux rest out2
        | _ => false
        end
    | CCount sub _ :: rest =>
        match out with
        | SCount sub' _ _ :: out' => str_eqb sub' sub && session_shape_ok v aux rest out'
        | _ => false
        end
    | CClose _ :: rest => session_shape_ok v aux rest out
    | CAuth _ :: rest => session_shape_ok v aux rest out
    end.
End Oracle.

(** the cache: the view is the listing; the verdict is judged by C04's
    [expected_added] (new iff not a duplicate, not older than the retained
    version of its address, not suppressed), a newly listed event must have been
    accepted, a rejection leaves the listing alone and carries the duplicate
    prefix when that very event is listed; a REQ answer is judged by C03's
    [find_spec_ok] against the listing *)
Definition cache_next_view (R : list event) (e : event) (aux : list (list event)) : list event * list (list event) :=
  match aux with
  | R' :: rest => (R', rest)
  | [] => (R, [])
  end.

Definition cache_ok_judge (R R' : list event) (e : event) (r : smsg) : bool :=
  match r with
  | SOk id acc pre _ =>
      str_eqb id (ev_id e) &&
      Bool.eqb acc (expected_added R e) &&
      (if ev_in e R' && negb (ev_in e R) then acc else true) &&
      (if acc then true
       else list_eqb event_eqb R R' && (if ev_in e R then str_eqb pre dup_prefix else true))
  | _ => false
  end.

Definition cache_req_judge (R : list event) (fs : list rfilter) (evs : list event) : bool :=
  find_spec_ok R fs evs.

Definition count_events (msgs : list cmsg) : nat := count_occ_b cmsg_is_event msgs.

Definition cache_session_ok (msgs : list cmsg) (replies : list smsg) (listings : list (list event)) : bool :=
  Nat.eqb (length listings) (count_events msgs) &&
  forallb listing_ok listings &&
  session_shape_ok cache_next_view cache_ok_judge cache_req_judge [] listings msgs replies.

(** dump / restore: the dump is the complete listing, the restored cache lists
    the same events and answers every recorded filter list identically, field by field *)
Definition dump_restore_ok (listing dumped restored_listing : list event)
           (qs : list (list rfilter * list event * list event)) : bool :=
  list_eqb event_eqb dumped listing &&
  list_eqb event_eqb restored_listing listing &&
  forallb (fun q => list_eqb event_eqb (snd (fst q)) (snd q)) qs.
