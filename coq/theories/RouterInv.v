(* RouterInv.v — C07: the control invariant of the router model: shapes of
   the programs, lock holders, and the registry's relation to the accepted
   operations.  Holds in every reachable state. *)
From Moc Require Import Base Match Router RouterLemmas RouterFrame RouterTrans RouterData RouterMust RouterEnv.
From Moc.Gen Require Import GenRouter.
Open Scope Z_scope.

Inductive pc_ok (s : rstate) (c : conn) : list instr -> Prop :=
| PK_nil : pc_ok s c []
| PK_regadd sub fs :
    reg_get c (r_reg s) = None -> In (OReq sub fs) (c_ops (r_cs s c)) ->
    (exists ops0, c_ops (r_cs s c) = ops0 ++ [OReq sub fs]) ->
    pc_ok s c [IRegAdd; ISubAdd sub fs; IEose sub]
| PK_subadd sub fs :
    reg_get c (r_reg s) <> None -> In (OReq sub fs) (c_ops (r_cs s c)) ->
    (exists ops0, c_ops (r_cs s c) = ops0 ++ [OReq sub fs]) ->
    pc_ok s c [ISubAdd sub fs; IEose sub]
| PK_eose sub fs :
    sub_of s c sub = Some fs -> (exists ops0, c_ops (r_cs s c) = ops0 ++ [OReq sub fs]) ->
    pc_ok s c [IEose sub]
| PK_subdel sub : pc_ok s c [ISubDel sub]
| PK_count sub : pc_ok s c [ICount sub]
| PK_pubbegin e : pc_ok s c [IPubBegin e; IOk (ev_id e)]
| PK_pub e n rem id :
    S n = c_ctr (r_cs s c) -> In c (r_pubs s) -> NoDup rem ->
    pc_ok s c [IPub e (c, n) rem; IOk id]
| PK_visit e n c' todo rem id :
    S n = c_ctr (r_cs s c) -> In c (r_pubs s) -> NoDup rem -> ~ In c' rem ->
    In c (c_rd (r_cs s c')) -> NoDup (List.map fst todo) ->
    (forall sub fs, In (sub, fs) todo -> sub_of s c' sub = Some fs) ->
    pc_ok s c [IVisit e (c, n) c' todo; IPub e (c, n) rem; IOk id]
| PK_ok id : pc_ok s c [IOk id]
| PK_unsuball : c_dead (r_cs s c) = true -> pc_ok s c [IUnsubAll].

Record Inv (s : rstate) : Prop := mkInv {
  inv_reg_nodup : NoDup (List.map fst (r_reg s));
  inv_sub_nodup : forall c m, reg_get c (r_reg s) = Some m -> NoDup (List.map fst m);
  inv_pc : forall c, pc_ok s c (c_pc (r_cs s c));
  inv_ops : forall c sub fs, sub_of s c sub = Some fs -> In (OReq sub fs) (c_ops (r_cs s c));
  inv_dead : forall c, c_dead (r_cs s c) = true ->
      c_pc (r_cs s c) = [IUnsubAll] \/ (c_pc (r_cs s c) = [] /\ reg_get c (r_reg s) = None);
  (* a session whose context was cancelled in flight has not returned yet *)
  inv_cancel : forall c, In c (r_cancel s) -> c_dead (r_cs s c) = false
}.

Lemma ctl_fields st st' :
  ctl st' = ctl st -> c_pc st' = c_pc st /\ c_dead st' = c_dead st /\ c_ops st' = c_ops st /\ c_ctr st' = c_ctr st.
Proof. unfold ctl. intro E. inversion E. auto. Qed.

Lemma sub_of_reg_eq s s' x sub : reg_get x (r_reg s') = reg_get x (r_reg s) -> sub_of s' x sub = sub_of s x sub.
Proof. unfold sub_of. now intros ->. Qed.

Lemma pc_ok_frame s s' x pc :
  pc_ok s x pc ->
  reg_get x (r_reg s') = reg_get x (r_reg s) ->
  ctl (r_cs s' x) = ctl (r_cs s x) ->
  (In x (r_pubs s) -> In x (r_pubs s')) ->
  (forall y, In x (c_rd (r_cs s y)) -> In x (c_rd (r_cs s' y))) ->
  (forall y, In x (r_pubs s) -> In x (c_rd (r_cs s y)) -> reg_get y (r_reg s') = reg_get y (r_reg s)) ->
  pc_ok s' x pc.
Proof.
  intros P Hreg Hctl Hpubs Hrd Hmap.
  destruct (ctl_fields _ _ Hctl) as (_ & Ed & Eo & Ec).
  destruct P.
  - constructor.
  - constructor; [now rewrite Hreg | now rewrite Eo | now rewrite Eo].
  - constructor; [now rewrite Hreg | now rewrite Eo | now rewrite Eo].
  - econstructor; [rewrite (sub_of_reg_eq s s' x sub Hreg); eassumption | now rewrite Eo].
  - constructor.
  - constructor.
  - constructor.
  - constructor; [now rewrite Ec | auto | assumption].
  - constructor; try assumption; [now rewrite Ec | auto | auto |].
    intros sub fs Hin. rewrite (sub_of_reg_eq s s' c' sub); [auto | auto].
  - constructor.
  - constructor. now rewrite Ed.
Qed.

Lemma reorder_nil ord : reorder ord [] = [].
Proof. induction ord as [|k ord IH]; simpl; [reflexivity | exact IH]. Qed.

Lemma Inv_init buf : Inv (r_init buf).
Proof.
  constructor; cbn.
  - constructor.
  - discriminate.
  - intro c. constructor.
  - discriminate.
  - discriminate.
  - contradiction.
Qed.

(* ------------------------------------------------------------------ *)
(** registry part of the invariant *)

Lemma Inv_reg_trans s l s' :
  Inv s -> trans s l s' ->
  NoDup (List.map fst (r_reg s')) /\ (forall c m, reg_get c (r_reg s') = Some m -> NoDup (List.map fst m)).
Proof.
  intros I T.
  destruct (reg_trans s l s' T) as [E|[(c & El & _ & [E|E])|(c & m & m' & El & _ & Hg & E & Hm')]]; rewrite E.
  - split; [apply I | apply I].
  - split; [apply reg_set_NoDup, I|]. intros c2 m2 H.
    destruct (Nat.eq_dec c2 c) as [->|N].
    + rewrite reg_get_set_same in H. inversion H; subst. constructor.
    + rewrite reg_get_set_other in H by auto. eapply inv_sub_nodup; eassumption.
  - split; [apply reg_del_NoDup, I|]. intros c2 m2 H.
    destruct (Nat.eq_dec c2 c) as [->|N].
    + rewrite reg_get_del_same in H. discriminate.
    + rewrite reg_get_del_other in H by auto. eapply inv_sub_nodup; eassumption.
  - split; [apply reg_set_NoDup, I|]. intros c2 m2 H.
    destruct (Nat.eq_dec c2 c) as [->|N].
    + rewrite reg_get_set_same in H. inversion H; subst m2.
      pose proof (inv_sub_nodup s I c m Hg) as ND.
      destruct Hm' as [(sub & fs & ->)|(sub & ->)]; [now apply sm_set_NoDup | now apply sm_del_NoDup].
    + rewrite reg_get_set_other in H by auto. eapply inv_sub_nodup; eassumption.
Qed.

(* ------------------------------------------------------------------ *)
(** the programs of connections that do not act in the transition *)

Lemma not_label_not_run x l : label_of_conn x l = false -> l <> LRun x.
Proof. intros H E. subst. cbn in H. now rewrite Nat.eqb_refl in H. Qed.

Lemma pc_ok_other s l s' x :
  Inv s -> trans s l s' -> label_of_conn x l = false -> pc_ok s' x (c_pc (r_cs s' x)).
Proof.
  intros I T Hl.
  pose proof (trans_ctl_other s l s' x T Hl) as Hctl.
  destruct (ctl_fields _ _ Hctl) as (Epc & _). rewrite Epc.
  pose proof (not_label_not_run x l Hl) as Hnr.
  eapply pc_ok_frame; [apply I | | assumption | | |].
  - eapply env_reg; eassumption.
  - eapply env_pubs; eassumption.
  - intros y. eapply env_rd; eassumption.
  - intros y. eapply env_map; eassumption.
Qed.

(** inversion helpers: the shape of the rest of the program *)
Lemma pc_ok_inv_regadd s c rest :
  pc_ok s c (IRegAdd :: rest) ->
  exists sub fs, rest = [ISubAdd sub fs; IEose sub] /\ reg_get c (r_reg s) = None /\ In (OReq sub fs) (c_ops (r_cs s c)).
Proof. intro P. inversion P; subst. eauto. Qed.

Lemma pc_ok_inv_subadd s c sub fs rest :
  pc_ok s c (ISubAdd sub fs :: rest) ->
  rest = [IEose sub] /\ reg_get c (r_reg s) <> None /\ In (OReq sub fs) (c_ops (r_cs s c)).
Proof. intro P. inversion P; subst. auto. Qed.

Lemma pc_ok_inv_eose s c sub rest : pc_ok s c (IEose sub :: rest) -> rest = [] /\ exists fs, sub_of s c sub = Some fs.
Proof. intro P. inversion P; subst. eauto. Qed.

Lemma pc_ok_inv_regadd_last s c rest :
  pc_ok s c (IRegAdd :: rest) ->
  exists sub fs ops0, rest = [ISubAdd sub fs; IEose sub] /\ c_ops (r_cs s c) = ops0 ++ [OReq sub fs].
Proof. intro P. inversion P as [|? ? ? ? [ops0 E]| | | | | | | | |]; subst. eauto. Qed.

Lemma pc_ok_inv_subadd_last s c sub fs rest :
  pc_ok s c (ISubAdd sub fs :: rest) -> exists ops0, c_ops (r_cs s c) = ops0 ++ [OReq sub fs].
Proof. intro P. inversion P; subst. assumption. Qed.

Lemma pc_ok_inv_eose_last s c sub rest :
  pc_ok s c (IEose sub :: rest) ->
  exists fs ops0, sub_of s c sub = Some fs /\ c_ops (r_cs s c) = ops0 ++ [OReq sub fs].
Proof. intro P. inversion P as [| | |? ? ? [ops0 E]| | | | | | |]; subst. eauto. Qed.

Lemma pc_ok_inv_subdel s c sub rest : pc_ok s c (ISubDel sub :: rest) -> rest = [].
Proof. intro P. inversion P; subst. auto. Qed.

Lemma pc_ok_inv_count s c sub rest : pc_ok s c (ICount sub :: rest) -> rest = [].
Proof. intro P. inversion P; subst. auto. Qed.

Lemma pc_ok_inv_ok s c id rest : pc_ok s c (IOk id :: rest) -> rest = [].
Proof. intro P. inversion P; subst. auto. Qed.

Lemma pc_ok_inv_pubbegin s c e rest : pc_ok s c (IPubBegin e :: rest) -> rest = [IOk (ev_id e)].
Proof. intro P. inversion P; subst. auto. Qed.

Lemma pc_ok_inv_pub s c e t rem rest :
  pc_ok s c (IPub e t rem :: rest) ->
  exists n id, t = (c, n) /\ rest = [IOk id] /\ S n = c_ctr (r_cs s c) /\ In c (r_pubs s) /\ NoDup rem.
Proof. intro P. inversion P; subst. eauto 8. Qed.

Lemma pc_ok_inv_visit s c e t c' todo rest :
  pc_ok s c (IVisit e t c' todo :: rest) ->
  exists n rem id, t = (c, n) /\ rest = [IPub e (c, n) rem; IOk id] /\ S n = c_ctr (r_cs s c) /\ In c (r_pubs s) /\
    NoDup rem /\ ~ In c' rem /\ In c (c_rd (r_cs s c')) /\ NoDup (List.map fst todo) /\
    (forall sub fs, In (sub, fs) todo -> sub_of s c' sub = Some fs).
Proof. intro P. inversion P; subst. exists n, rem, id. repeat split; auto. Qed.

Lemma pc_ok_inv_unsuball s c rest : pc_ok s c (IUnsubAll :: rest) -> rest = [] /\ c_dead (r_cs s c) = true.
Proof. intro P. inversion P; subst. auto. Qed.

(* ------------------------------------------------------------------ *)
(** the program of the connection that acts *)

Lemma pc_ok_actor s l s' x :
  Inv s -> trans s l s' -> label_of_conn x l = true -> pc_ok s' x (c_pc (r_cs s' x)).
Proof.
  intros I T Hl.
  assert (Hact : forall c, label_of_conn x (LRun c) = true -> x = c)
    by (intros c H; cbn in H; now apply Nat.eqb_eq in H).
  inversion T; subst.
  - (* op *)
    cbn in Hl. apply Nat.eqb_eq in Hl. subst x. cbn [r_cs with_cs]. rewrite upd_same. cbn [c_pc].
    destruct o as [sub fs|sub|sub|e|]; cbn [program].
    + destruct (reg_get c (r_reg s)) eqn:Hg.
      * apply PK_subadd; cbn [r_reg r_cs with_cs];
          [now rewrite Hg | rewrite upd_same; cbn; apply in_or_app; right; now left | rewrite upd_same; cbn; eauto].
      * apply PK_regadd; cbn [r_reg r_cs with_cs];
          [assumption | rewrite upd_same; cbn; apply in_or_app; right; now left | rewrite upd_same; cbn; eauto].
    + destruct (reg_get c (r_reg s)); constructor.
    + constructor.
    + constructor.
    + apply PK_unsuball. cbn [r_cs with_cs]. rewrite upd_same. reflexivity.
  - (* regadd *)
    apply Hact in Hl. subst x. pose proof (inv_pc s I c) as P. rewrite H in P.
    destruct (pc_ok_inv_regadd _ _ _ P) as (sub & fs & -> & Hg & Ho).
    destruct (pc_ok_inv_regadd_last _ _ _ P) as (sub' & fs' & ops0 & Er & Eo). inversion Er; subst sub' fs'.
    cbn [r_cs]. rewrite upd_same. cbn [c_pc set_pc].
    apply PK_subadd; cbn [r_reg r_cs].
    + rewrite reg_get_set_same. discriminate.
    + rewrite upd_same. exact Ho.
    + rewrite upd_same. cbn. eauto.
  - (* subadd *)
    apply Hact in Hl. subst x. pose proof (inv_pc s I c) as P. rewrite H in P.
    destruct (pc_ok_inv_subadd _ _ _ _ _ P) as (-> & Hg & Ho).
    destruct (pc_ok_inv_subadd_last _ _ _ _ _ P) as (ops0 & Eo).
    cbn [r_cs]. rewrite upd_same. cbn [c_pc set_pc].
    apply PK_eose with (fs := fs).
    + rewrite sub_of_mk, reg_get_set_same. apply assoc_sm_set_same.
    + cbn [r_cs]. rewrite upd_same. cbn. eauto.
  - (* subadd_none *)
    apply Hact in Hl. subst x. pose proof (inv_pc s I c) as P. rewrite H in P.
    destruct (pc_ok_inv_subadd _ _ _ _ _ P) as (_ & Hg & _). contradiction.
  - (* subdel *)
    apply Hact in Hl. subst x. pose proof (inv_pc s I c) as P. rewrite H in P.
    rewrite (pc_ok_inv_subdel _ _ _ _ P). cbn [r_cs]. rewrite upd_same. cbn. constructor.
  - (* subdel_none *)
    apply Hact in Hl. subst x. pose proof (inv_pc s I c) as P. rewrite H in P.
    rewrite (pc_ok_inv_subdel _ _ _ _ P). cbn [r_cs with_cs]. rewrite upd_same. cbn. constructor.
  - (* reply *)
    apply Hact in Hl. subst x. pose proof (inv_pc s I c) as P. rewrite H in P.
    cbn [r_cs with_cs]. rewrite upd_same. cbn [c_pc push_out set_pc].
    destruct i; cbn in H0; try contradiction.
    + destruct (pc_ok_inv_eose _ _ _ _ P) as [-> _]. constructor.
    + rewrite (pc_ok_inv_count _ _ _ _ P). constructor.
    + rewrite (pc_ok_inv_ok _ _ _ _ P). constructor.
  - (* pubbegin *)
    apply Hact in Hl. subst x. pose proof (inv_pc s I c) as P. rewrite H in P.
    rewrite (pc_ok_inv_pubbegin _ _ _ _ P). cbn [r_cs]. rewrite upd_same. cbn [c_pc].
    apply PK_pub; cbn [r_cs r_pubs].
    + rewrite upd_same. reflexivity.
    + now left.
    + apply I.
  - (* pubend *)
    apply Hact in Hl. subst x. pose proof (inv_pc s I c) as P. rewrite H in P.
    destruct (pc_ok_inv_pub _ _ _ _ _ _ P) as (n & id & -> & -> & _).
    cbn [r_cs]. rewrite upd_same. cbn. constructor.
  - (* visit *)
    assert (x = c).
    { destruct H1 as [->|[-> _]]; cbn in Hl; now apply Nat.eqb_eq in Hl. }
    subst x. pose proof (inv_pc s I c) as P. rewrite H in P.
    destruct (pc_ok_inv_pub _ _ _ _ _ _ P) as (n & id & -> & -> & Hn & Hp & ND).
    unfold start_visit. cbn [r_cs with_cs].
    rewrite (pc_upd2 _ _ _ _ (fun st => set_rd st (c :: c_rd st))) by (intro; reflexivity).
    rewrite upd_same. cbn [c_pc set_pc].
    apply PK_visit; cbn [r_cs r_pubs r_reg with_cs].
    + rewrite (ctr_upd2 _ _ _ _ (fun st => set_rd st (c :: c_rd st))) by (intro; reflexivity).
      rewrite upd_same. exact Hn.
    + exact Hp.
    + now apply remove_conn_NoDup.
    + rewrite remove_conn_In. tauto.
    + rewrite upd_same. cbn. now left.
    + destruct (reg_get c' (r_reg s)) as [m|] eqn:Hg.
      * apply reorder_NoDup. eapply inv_sub_nodup; eassumption.
      * rewrite reorder_nil. constructor.
    + intros sub fs Hin. rewrite sub_of_with_cs. unfold sub_of.
      destruct (reg_get c' (r_reg s)) as [m|] eqn:Hg.
      * apply reorder_In in Hin. apply In_assoc_NoDup; [eapply inv_sub_nodup; eassumption | assumption].
      * rewrite reorder_nil in Hin. contradiction.
  - (* visitend *)
    apply Hact in Hl. subst x. pose proof (inv_pc s I c) as P. rewrite H in P.
    destruct (pc_ok_inv_visit _ _ _ _ _ _ _ P) as (n & rem & id & -> & -> & Hn & Hp & ND & _).
    cbn [r_cs with_cs].
    rewrite (pc_upd2 _ _ _ _ (fun st => set_rd st (remove_conn c (c_rd st)))) by (intro; reflexivity).
    rewrite upd_same. cbn [c_pc set_pc].
    apply PK_pub; cbn [r_cs r_pubs with_cs]; [|assumption|assumption].
    rewrite (ctr_upd2 _ _ _ _ (fun st => set_rd st (remove_conn c (c_rd st)))) by (intro; reflexivity).
    rewrite upd_same. exact Hn.
  - (* send *)
    apply Hact in Hl. subst x. pose proof (inv_pc s I c) as P. rewrite H in P.
    destruct (pc_ok_inv_visit _ _ _ _ _ _ _ P) as (n & rem & id & -> & -> & Hn & Hp & ND & Hnin & Hrd & NDt & Htodo).
    cbn [r_cs with_cs].
    rewrite (pc_upd2 _ _ _ _ (send_if_match (r_buf s) e (c, n) sub fs)) by (intro; apply ctl_send_if_match).
    rewrite upd_same. cbn [c_pc set_pc].
    apply PK_visit; cbn [r_cs r_pubs r_reg with_cs]; try assumption.
    + rewrite (ctr_upd2 _ _ _ _ (send_if_match (r_buf s) e (c, n) sub fs)) by (intro; apply ctl_send_if_match).
      rewrite upd_same. exact Hn.
    + match goal with |- In c (c_rd (upd ?f ?k ?v c')) => destruct (upd_cases f k v c') as [[_ ->]|[_ ->]] end.
      * rewrite send_if_match_rd, rd_upd_pc. exact Hrd.
      * rewrite rd_upd_pc. exact Hrd.
    + cbn in NDt. now inversion NDt.
    + intros sub2 fs2 Hin. rewrite sub_of_with_cs. apply Htodo. now right.
  - (* unsuball *)
    apply Hact in Hl. subst x. pose proof (inv_pc s I c) as P. rewrite H in P.
    destruct (pc_ok_inv_unsuball _ _ _ P) as [-> _].
    cbn [r_cs]. rewrite upd_same. cbn. constructor.
  - cbn in Hl. discriminate.
  - cbn in Hl. discriminate.
  - (* cancel *)
    cbn [r_cs]. eapply pc_ok_frame; [apply I | reflexivity | reflexivity | auto | auto | reflexivity].
  - (* skip *)
    cbn in Hl. apply Nat.eqb_eq in Hl. subst x. pose proof (inv_pc s I c) as P. rewrite H in P.
    cbn [r_cs with_cs]. rewrite upd_same. cbn [c_pc set_pc].
    destruct i; cbn in H0; try contradiction.
    + destruct (pc_ok_inv_eose _ _ _ _ P) as [-> _]. constructor.
    + rewrite (pc_ok_inv_count _ _ _ _ P). constructor.
    + rewrite (pc_ok_inv_ok _ _ _ _ P). constructor.
  - (* defer *)
    apply Hact in Hl. subst x. cbn [r_cs]. rewrite upd_same. cbn [c_pc]. apply PK_unsuball.
    cbn [r_cs]. rewrite upd_same. reflexivity.
Qed.

(* ------------------------------------------------------------------ *)
(** accepted operations only accumulate *)

Lemma ops_upd_pc f c pc x : c_ops (upd f c (set_pc (f c) pc) x) = c_ops (f x).
Proof. destruct (upd_cases f c (set_pc (f c) pc) x) as [[-> ->]|[_ ->]]; reflexivity. Qed.

Lemma ops_trans s l s' x o : trans s l s' -> In o (c_ops (r_cs s x)) -> In o (c_ops (r_cs s' x)).
Proof.
  intros T Hin. inversion T; subst; cbn [r_cs with_cs].
  - match goal with |- In o (c_ops (upd ?f ?k ?v x)) => destruct (upd_cases f k v x) as [[-> ->]|[_ ->]] end;
      [cbn; apply in_or_app; now left | assumption].
  - now rewrite ops_upd_pc.
  - now rewrite ops_upd_pc.
  - now rewrite ops_upd_pc.
  - now rewrite ops_upd_pc.
  - now rewrite ops_upd_pc.
  - match goal with |- In o (c_ops (upd ?f ?k ?v x)) => destruct (upd_cases f k v x) as [[-> ->]|[_ ->]] end; assumption.
  - match goal with |- In o (c_ops (upd ?f ?k ?v x)) => destruct (upd_cases f k v x) as [[-> ->]|[_ ->]] end; assumption.
  - now rewrite ops_upd_pc.
  - unfold start_visit. cbn [r_cs with_cs].
    rewrite (ops_upd2 _ _ _ _ (fun st => set_rd st (c :: c_rd st))) by (intro; reflexivity). now rewrite ops_upd_pc.
  - rewrite (ops_upd2 _ _ _ _ (fun st => set_rd st (remove_conn c (c_rd st)))) by (intro; reflexivity). now rewrite ops_upd_pc.
  - rewrite (ops_upd2 _ _ _ _ (send_if_match (r_buf s) e t sub fs)) by (intro; apply ctl_send_if_match). now rewrite ops_upd_pc.
  - match goal with |- In o (c_ops (upd ?f ?k ?v x)) => destruct (upd_cases f k v x) as [[-> ->]|[_ ->]] end; assumption.
  - match goal with |- In o (c_ops (upd ?f ?k ?v x)) => destruct (upd_cases f k v x) as [[-> ->]|[_ ->]] end; assumption.
  - match goal with |- In o (c_ops (upd ?f ?k ?v x)) => destruct (upd_cases f k v x) as [[-> ->]|[_ ->]] end; assumption.
  - assumption.
  - now rewrite ops_upd_pc.
  - match goal with |- In o (c_ops (upd ?f ?k ?v x)) => destruct (upd_cases f k v x) as [[-> ->]|[_ ->]] end;
      [cbn; apply in_or_app; now left | assumption].
Qed.

Lemma inv_ops_trans s l s' :
  Inv s -> trans s l s' ->
  forall x sub fs, sub_of s' x sub = Some fs -> In (OReq sub fs) (c_ops (r_cs s' x)).
Proof.
  intros I T x sub fs Hs.
  assert (Same : sub_of s x sub = Some fs -> In (OReq sub fs) (c_ops (r_cs s' x))).
  { intro H. eapply ops_trans; [eassumption | now apply I]. }
  inversion T; subst; try (apply Same; exact Hs).
  - (* regadd *)
    rewrite sub_of_mk in Hs. destruct (Nat.eq_dec x c) as [->|N].
    + rewrite reg_get_set_same in Hs. discriminate.
    + rewrite reg_get_set_other in Hs by auto. apply Same. exact Hs.
  - (* subadd *)
    rewrite sub_of_mk in Hs. destruct (Nat.eq_dec x c) as [->|N].
    + rewrite reg_get_set_same in Hs. destruct (str_dec sub sub0) as [->|Ns].
      * rewrite assoc_sm_set_same in Hs. inversion Hs; subst fs0.
        pose proof (inv_pc s I c) as P. rewrite H in P.
        destruct (pc_ok_inv_subadd _ _ _ _ _ P) as (_ & _ & Ho).
        eapply ops_trans; eassumption.
      * rewrite assoc_sm_set_other in Hs by assumption. apply Same. unfold sub_of. now rewrite H1.
    + rewrite reg_get_set_other in Hs by auto. apply Same. exact Hs.
  - (* subdel *)
    rewrite sub_of_mk in Hs. destruct (Nat.eq_dec x c) as [->|N].
    + rewrite reg_get_set_same in Hs. destruct (str_dec sub sub0) as [->|Ns].
      * rewrite assoc_sm_del_same in Hs. discriminate.
      * rewrite assoc_sm_del_other in Hs by assumption. apply Same. unfold sub_of. now rewrite H1.
    + rewrite reg_get_set_other in Hs by auto. apply Same. exact Hs.
  - (* unsuball *)
    rewrite sub_of_mk in Hs. destruct (Nat.eq_dec x c) as [->|N].
    + rewrite reg_get_del_same in Hs. discriminate.
    + rewrite reg_get_del_other in Hs by auto. apply Same. exact Hs.
Qed.

(** a cancelled session has only its UnsubscribeAll left, or is over *)
Lemma inv_dead_trans s l s' :
  Inv s -> trans s l s' ->
  forall x, c_dead (r_cs s' x) = true ->
    c_pc (r_cs s' x) = [IUnsubAll] \/ (c_pc (r_cs s' x) = [] /\ reg_get x (r_reg s') = None).
Proof.
  intros I T x Hd.
  destruct (label_of_conn x l) eqn:Hl.
  - assert (Hact : forall c, label_of_conn x (LRun c) = true -> x = c)
      by (intros c H; cbn in H; now apply Nat.eqb_eq in H).
    pose proof (pc_ok_actor s l s' x I T Hl) as P'.
    inversion T; subst; cbn [label_of_conn] in Hl; try discriminate;
      try (apply Hact in Hl; subst x).
    + (* op *) cbn [r_cs with_cs] in *. rewrite upd_same in *. cbn in Hd.
      destruct o; try discriminate. left. reflexivity.
    + (* regadd: not dead *)
      cbn [r_cs] in Hd. rewrite upd_same in Hd. cbn in Hd.
      destruct (inv_dead s I c Hd) as [E|[E _]]; rewrite E in H; discriminate.
    + cbn [r_cs] in Hd. rewrite upd_same in Hd. cbn in Hd.
      destruct (inv_dead s I c Hd) as [E|[E _]]; rewrite E in H; discriminate.
    + cbn [r_cs with_cs] in Hd. rewrite upd_same in Hd. cbn in Hd.
      destruct (inv_dead s I c Hd) as [E|[E _]]; rewrite E in H; discriminate.
    + cbn [r_cs] in Hd. rewrite upd_same in Hd. cbn in Hd.
      destruct (inv_dead s I c Hd) as [E|[E _]]; rewrite E in H; discriminate.
    + cbn [r_cs with_cs] in Hd. rewrite upd_same in Hd. cbn in Hd.
      destruct (inv_dead s I c Hd) as [E|[E _]]; rewrite E in H; discriminate.
    + cbn [r_cs with_cs] in Hd. rewrite upd_same in Hd. cbn in Hd.
      destruct (inv_dead s I c Hd) as [E|[E _]]; rewrite E in H; [inversion H; subst; cbn in H0; contradiction | discriminate].
    + cbn [r_cs] in Hd. rewrite upd_same in Hd. cbn in Hd.
      destruct (inv_dead s I c Hd) as [E|[E _]]; rewrite E in H; discriminate.
    + cbn [r_cs] in Hd. rewrite upd_same in Hd. cbn in Hd.
      destruct (inv_dead s I c Hd) as [E|[E _]]; rewrite E in H; discriminate.
    + (* visit *)
      assert (x = c) by (destruct H1 as [->|[-> _]]; cbn in Hl; now apply Nat.eqb_eq in Hl). subst x.
      unfold start_visit in Hd. cbn [r_cs with_cs] in Hd.
      rewrite (dead_upd2 _ _ _ _ (fun st => set_rd st (c :: c_rd st))) in Hd by (intro; reflexivity).
      rewrite upd_same in Hd. cbn in Hd.
      destruct (inv_dead s I c Hd) as [E|[E _]]; rewrite E in H; discriminate.
    + cbn [r_cs with_cs] in Hd.
      rewrite (dead_upd2 _ _ _ _ (fun st => set_rd st (remove_conn c (c_rd st)))) in Hd by (intro; reflexivity).
      rewrite upd_same in Hd. cbn in Hd.
      destruct (inv_dead s I c Hd) as [E|[E _]]; rewrite E in H; discriminate.
    + cbn [r_cs with_cs] in Hd.
      rewrite (dead_upd2 _ _ _ _ (send_if_match (r_buf s) e t sub fs)) in Hd by (intro; apply ctl_send_if_match).
      rewrite upd_same in Hd. cbn in Hd.
      destruct (inv_dead s I c Hd) as [E|[E _]]; rewrite E in H; discriminate.
    + (* unsuball *)
      right. pose proof (inv_pc s I c) as P. rewrite H in P.
      destruct (pc_ok_inv_unsuball _ _ _ P) as [-> _].
      cbn [r_cs r_reg]. rewrite upd_same. cbn. split; [reflexivity | apply reg_get_del_same].
    + (* cancel: the session was alive *)
      cbn [r_cs] in Hd. congruence.
    + (* skip: a cancelled session has not returned yet *)
      cbn [r_cs with_cs] in Hd. rewrite upd_same in Hd. cbn in Hd.
      rewrite (inv_cancel s I c) in Hd by assumption. discriminate.
    + (* defer *)
      left. cbn [r_cs]. rewrite upd_same. reflexivity.
  - pose proof (trans_ctl_other s l s' x T Hl) as Hctl.
    destruct (ctl_fields _ _ Hctl) as (Epc & Ed & _). rewrite Epc. rewrite Ed in Hd.
    rewrite (env_reg s l s' x T (not_label_not_run x l Hl)). now apply I.
Qed.

(** whoever is on the cancel list is still alive *)
Lemma dead_upd_pc f c pc x : c_dead (upd f c (set_pc (f c) pc) x) = c_dead (f x).
Proof. destruct (upd_cases f c (set_pc (f c) pc) x) as [[-> ->]|[_ ->]]; reflexivity. Qed.

Lemma inv_cancel_trans s l s' :
  Inv s -> trans s l s' -> forall x, In x (r_cancel s') -> c_dead (r_cs s' x) = false.
Proof.
  intros I T x Hin.
  inversion T; subst; cbn [r_cancel r_cs with_cs start_visit] in *;
    try (rewrite dead_upd_pc; now apply (inv_cancel s I)).
  - (* op *)
    destruct (upd_cases (r_cs s) c
      (mkC (program s c o) (c_q (r_cs s c)) (c_hand (r_cs s c)) (c_out (r_cs s c)) (c_rd (r_cs s c))
           (c_ctr (r_cs s c)) (is_disc o) (c_ops (r_cs s c) ++ [o]) (c_drops (r_cs s c))) x) as [[-> ->]|[_ ->]];
      [contradiction | now apply (inv_cancel s I)].
  - (* reply *)
    match goal with |- c_dead (upd ?f ?k ?v x) = _ => destruct (upd_cases f k v x) as [[-> ->]|[_ ->]] end;
      cbn; now apply (inv_cancel s I).
  - (* pubbegin *)
    match goal with |- c_dead (upd ?f ?k ?v x) = _ => destruct (upd_cases f k v x) as [[-> ->]|[_ ->]] end;
      cbn; now apply (inv_cancel s I).
  - (* visit *)
    rewrite (dead_upd2 _ _ _ _ (fun st => set_rd st (c :: c_rd st))) by (intro; reflexivity).
    rewrite dead_upd_pc. now apply (inv_cancel s I).
  - rewrite (dead_upd2 _ _ _ _ (fun st => set_rd st (remove_conn c (c_rd st)))) by (intro; reflexivity).
    rewrite dead_upd_pc. now apply (inv_cancel s I).
  - rewrite (dead_upd2 _ _ _ _ (send_if_match (r_buf s) e t sub fs)) by (intro; apply ctl_send_if_match).
    rewrite dead_upd_pc. now apply (inv_cancel s I).
  - (* unsuball *)
    match goal with |- c_dead (upd ?f ?k ?v x) = _ => destruct (upd_cases f k v x) as [[-> ->]|[_ ->]] end;
      cbn; now apply (inv_cancel s I).
  - (* take *)
    match goal with |- c_dead (upd ?f ?k ?v x) = _ => destruct (upd_cases f k v x) as [[-> ->]|[_ ->]] end;
      cbn; now apply (inv_cancel s I).
  - (* deliver *)
    match goal with |- c_dead (upd ?f ?k ?v x) = _ => destruct (upd_cases f k v x) as [[-> ->]|[_ ->]] end;
      cbn; now apply (inv_cancel s I).
  - (* cancel *)
    destruct Hin as [<-|Hin]; [assumption | now apply (inv_cancel s I)].
  - (* defer *)
    apply remove_conn_In in Hin as [N Hin]. rewrite upd_other by auto. now apply (inv_cancel s I).
Qed.

Theorem Inv_trans s l s' : Inv s -> trans s l s' -> Inv s'.
Proof.
  intros I T. destruct (Inv_reg_trans s l s' I T) as [K1 K2].
  constructor; [exact K1 | exact K2 | | | |].
  - intro x. destruct (label_of_conn x l) eqn:Hl; [eapply pc_ok_actor | eapply pc_ok_other]; eassumption.
  - eapply inv_ops_trans; eassumption.
  - eapply inv_dead_trans; eassumption.
  - eapply inv_cancel_trans; eassumption.
Qed.

Theorem Inv_reachable buf s : reachable buf s -> Inv s.
Proof.
  apply (reachable_ind' Inv buf); [apply Inv_init|].
  intros s0 l s1 _ I T. eapply Inv_trans; eassumption.
Qed.
