(* Mw.v — C17, C18: model of the middlewares of handler.go
   (NewSimpleMiddleware plumbing, every simple…MiddlewareBase,
   BuildMiddlewareFromNIP11) and the specification of the two properties
   with its boolean oracles.  Definitions only; proofs are in MwProofs.v.

   Part 1  model (mirrors the code; uses the guards regenerated from the source)
   Part 2  specification (written from the property text, no code structure) *)
From Moc Require Import Base Msg.
From Moc.Gen Require Import GenMw.
Import String.StringSyntax.
Open Scope Z_scope.

Definition zlen {A} (l : list A) : Z := Z.of_nat (length l).
Definition txt (s : String.string) : str := str_of_string s.
Arguments txt s%string_scope.
Definition has_some {A} (o : option A) : bool := match o with Some _ => true | None => false end.
Definition opt_list {A} (o : option A) : list A := match o with Some x => [x] | None => [] end.

(* ================================================================== *)
(** * Part 1: the model *)

(** ** configurations: one constructor per middleware of handler.go *)
Inductive mwk :=
| MaxSubs (n : Z)                      (* NewMaxSubscriptionsMiddleware — stateful, C18 *)
| MaxFilters (n : Z)                   (* NewMaxReqFiltersMiddleware *)
| MaxLimit (n : Z)                     (* NewMaxLimitMiddleware *)
| MaxSubIDLen (n : Z)                  (* NewMaxSubIDLengthMiddleware *)
| MaxEventTags (n : Z)                 (* NewMaxEventTagsMiddleware *)
| MaxContentLen (n : Z)                (* NewMaxContentLengthMiddleware *)
| CreatedLower (l : Z)                 (* NewCreatedAtLowerLimitMiddleware, seconds *)
| CreatedUpper (u : Z)                 (* NewCreatedAtUpperLimitMiddleware, seconds *)
| CreatedWindow (from to : Z)          (* NewEventCreatedAtMiddleware, whole seconds *)
| Allow (mt : event -> bool)           (* NewRecvEventAllowFilterMiddleware: any EventMatcher *)
| Deny (mt : event -> bool)            (* NewRecvEventDenyFilterMiddleware *)
| RecvUnique (size : Z)                (* NewRecvEventUniqueFilterMiddleware — stateful, C18 *)
| SendUnique (size : Z).               (* NewSendEventUniqueFilterMiddleware — stateful, C18 *)

(** result of [ServeNostrClientMsg]: a channel with the message itself, or a
    channel with one server message *)
Inductive cres := Forward (m : cmsg) | Reject (r : smsg).

Definition dup_prefix : str := txt "duplicate: ".
Definition blocked_prefix : str := txt "blocked: ".

Definition limit_or0 (f : rfilter) : Z := match f_limit f with Some l => l | None => 0 end.

(** ** the ten stateless bases: [ServeNostrClientMsg], branch for branch.
    [now] is the wall clock in whole seconds (time.Now()); durations are in
    seconds ([time.Second] is the unit of the generated guards). *)
Definition mw_client (k : mwk) (now : Z) (m : cmsg) : cres :=
  match k with
  | MaxFilters n =>
      match m with
      | CReq sub fs =>
          if g_mw_max_filters_req (zlen fs) n
          then Reject (SClosed sub [] (txt "too many req filters: max filters is " ++ showZ n))
          else Forward m
      | CCount sub fs =>
          if g_mw_max_filters_count (zlen fs) n
          then Reject (SClosed sub [] (txt "too many count filters: max filters is " ++ showZ n))
          else Forward m
      | _ => Forward m
      end
  | MaxLimit n =>
      match m with
      | CReq sub fs =>
          if existsb (fun f => g_mw_max_limit_req (has_some (f_limit f)) (limit_or0 f) n) fs
          then Reject (SClosed sub [] (txt "too large limit: max limit is " ++ showZ n))
          else Forward m
      | CCount sub fs =>
          if existsb (fun f => g_mw_max_limit_count (has_some (f_limit f)) (limit_or0 f) n) fs
          then Reject (SClosed sub [] (txt "too large limit: max limit is " ++ showZ n))
          else Forward m
      | _ => Forward m
      end
  | MaxSubIDLen n =>
      match m with
      | CReq sub fs =>
          if g_mw_max_subid_req (zlen sub) n
          then Reject (SClosed sub [] (txt "too long subid: max subid length is " ++ showZ n))
          else Forward m
      | CCount sub fs =>
          if g_mw_max_subid_count (zlen sub) n
          then Reject (SClosed sub [] (txt "too long subid: max subid length is " ++ showZ n))
          else Forward m
      | _ => Forward m
      end
  | MaxEventTags n =>
      match m with
      | CEvent e =>
          if g_mw_max_event_tags (zlen (ev_tags e)) n
          then Reject (SOk (ev_id e) false [] (txt "too many event tags: max event tags is " ++ showZ n))
          else Forward m
      | _ => Forward m
      end
  | MaxContentLen n =>
      match m with
      | CEvent e =>
          if g_mw_max_content (zlen (ev_content e)) n
          then Reject (SOk (ev_id e) false [] (txt "too long content: max content length is " ++ showZ n))
          else Forward m
      | _ => Forward m
      end
  | CreatedLower l =>
      match m with
      | CEvent e =>
          if g_mw_created_lower now (ev_ts e) l
          then Reject (SOk (ev_id e) false [] (txt "too old created_at"))
          else Forward m
      | _ => Forward m
      end
  | CreatedUpper u =>
      match m with
      | CEvent e =>
          if g_mw_created_upper now (ev_ts e) u
          then Reject (SOk (ev_id e) false [] (txt "too far off created_at"))
          else Forward m
      | _ => Forward m
      end
  | CreatedWindow from to =>
      match m with
      | CEvent e =>
          if g_mw_created_window_old now (ev_ts e) from to
          then Reject (SOk (ev_id e) false [] (txt "too old created_at"))
          else if g_mw_created_window_far now (ev_ts e) from to
          then Reject (SOk (ev_id e) false [] (txt "too far off created_at"))
          else Forward m
      | _ => Forward m
      end
  | Allow mt =>
      match m with
      | CEvent e =>
          if g_mw_allow_reject (mt e)
          then Reject (SOk (ev_id e) false blocked_prefix (txt "the event is not allowed"))
          else Forward m
      | _ => Forward m
      end
  | Deny mt =>
      match m with
      | CEvent e =>
          if g_mw_deny_reject (mt e)
          then Reject (SOk (ev_id e) false blocked_prefix (txt "the event is not allowed"))
          else Forward m
      | _ => Forward m
      end
  (* SendUnique: ServeNostrClientMsg is the identity.  MaxSubs / RecvUnique
     are stateful: see [mw_client_step]; this entry is not used for them. *)
  | MaxSubs _ | RecvUnique _ | SendUnique _ => Forward m
  end.

Definition stateless (k : mwk) : bool :=
  match k with MaxSubs _ | RecvUnique _ | SendUnique _ => false | _ => true end.

(** ** the subscription quota (simpleMaxSubscriptionsMiddlewareBase) *)

(** the per-session map[string]bool used as a set *)
Definition set_add (x : str) (l : list str) : list str := if mem_str x l then l else x :: l.
Definition set_remove (x : str) (l : list str) : list str := filter (fun y => negb (str_eqb x y)) l.

Definition quota_client (n : Z) (open : list str) (m : cmsg) : list str * cres :=
  match m with
  | CReq sub _ =>
      let open1 := set_add sub open in                     (* v.subs[id] = true *)
      if g_quota_over (zlen open1) n                       (* if len(v.subs) > m.maxSubs *)
      then (set_remove sub open1,                          (*   delete(v.subs, id) *)
            Reject (SClosed sub [] (txt "too many req: max subscriptions is " ++ showZ n)))
      else (open1, Forward m)
  | CClose sub => (set_remove sub open, Forward m)         (* delete(v.subs, id) *)
  | _ => (open, Forward m)
  end.

(** ** hashicorp/golang-lru as a list, most recently used first *)
Definition lru_promote (x : str) (w : list str) : list str := x :: set_remove x w.

(** [Get] moves a found entry to the front; [Peek]/[Contains] would not *)
Definition lru_get (promotes : bool) (x : str) (w : list str) : list str * bool :=
  if mem_str x w then ((if promotes then lru_promote x w else w), true) else (w, false).

(** [Add]: an existing key is moved to the front; a new one is pushed to the
    front and the oldest entry removed when the length exceeds the size *)
Definition lru_add (size : Z) (x : str) (w : list str) : list str :=
  if mem_str x w then lru_promote x w
  else let w1 := x :: w in if zlen w1 >? size then removelast w1 else w1.

Definition recv_unique_client (size : Z) (w : list str) (m : cmsg) : list str * cres :=
  match m with
  | CEvent e =>
      let (w1, found) := lru_get g_recv_unique_lookup_promotes (ev_id e) w in
      if g_recv_unique_hit found
      then (w1, Reject (SOk (ev_id e) false dup_prefix (txt "the event already found")))
      else (lru_add size (ev_id e) w1, Forward m)
  | _ => (w, Forward m)
  end.

(** send side: a hit returns (nil, nil): nothing is delivered *)
Definition send_unique_server (size : Z) (w : list str) (s : smsg) : list str * option smsg :=
  match s with
  | SEvent _ e =>
      let (w1, found) := lru_get g_send_unique_lookup_promotes (ev_id e) w in
      if g_send_unique_hit found then (w1, None)
      else (lru_add size (ev_id e) w1, Some s)
  | _ => (w, Some s)
  end.

(** ** per-session state of one middleware *)
Inductive mstate := StNone | StSubs (open : list str) | StLru (w : list str).

(** ServeNostrStart (quota: a fresh map in the context) resp. the per-call
    construction of the base in New{Recv,Send}EventUniqueFilterMiddleware *)
Definition mw_init (k : mwk) : mstate :=
  match k with
  | MaxSubs _ => StSubs []
  | RecvUnique _ | SendUnique _ => StLru []
  | _ => StNone
  end.

Definition st_subs (st : mstate) : list str := match st with StSubs o => o | _ => [] end.
Definition st_lru (st : mstate) : list str := match st with StLru w => w | _ => [] end.

(** the type switch of each stateful base is part of the step: messages of
    other types leave the state alone *)
Definition mw_client_step (k : mwk) (now : Z) (st : mstate) (m : cmsg) : mstate * cres :=
  match k with
  | MaxSubs n =>
      match m with
      | CReq _ _ | CClose _ => let (o, r) := quota_client n (st_subs st) m in (StSubs o, r)
      | _ => (st, Forward m)
      end
  | RecvUnique size =>
      match m with
      | CEvent _ => let (w, r) := recv_unique_client size (st_lru st) m in (StLru w, r)
      | _ => (st, Forward m)
      end
  | _ => (st, mw_client k now m)
  end.

(** ServeNostrServerMsg: the identity for every base but the send-side filter *)
Definition mw_server_step (k : mwk) (st : mstate) (s : smsg) : mstate * option smsg :=
  match k with
  | SendUnique size =>
      match s with
      | SEvent _ _ => let (w, o) := send_unique_server size (st_lru st) s in (StLru w, o)
      | _ => (st, Some s)
      end
  | _ => (st, Some s)
  end.

(** ** stacks: NewSimpleMiddleware nesting, outermost first.
    A client message enters the outermost wrapper; a wrapper that answers
    writes its reply to its own [send] channel (for the outermost that is the
    client; for an inner one it is the [sCh] of the wrapper around it, so the
    reply then passes the server side of every outer wrapper); otherwise the
    message goes to the wrapped handler. *)
Definition layer := (mwk * mstate)%type.

Definition stack_init (ks : list mwk) : list layer := List.map (fun k => (k, mw_init k)) ks.

Fixpoint layer_server_many (k : mwk) (st : mstate) (rs : list smsg) : mstate * list smsg :=
  match rs with
  | [] => (st, [])
  | r :: rest =>
      let (st1, o) := mw_server_step k st r in
      let (st2, os) := layer_server_many k st1 rest in
      (st2, opt_list o ++ os)
  end.

Fixpoint stack_client (now : Z) (ls : list layer) (m : cmsg) : list layer * option cmsg * list smsg :=
  match ls with
  | [] => ([], Some m, [])
  | (k, st) :: inner =>
      match mw_client_step k now st m with
      | (st1, Reject r) => ((k, st1) :: inner, None, [r])
      | (st1, Forward m') =>
          let '(inner', o, rs) := stack_client now inner m' in
          let (st2, rs') := layer_server_many k st1 rs in
          ((k, st2) :: inner', o, rs')
      end
  end.

(** a message of the wrapped handler passes the innermost wrapper first *)
Fixpoint stack_server (ls : list layer) (s : smsg) : list layer * option smsg :=
  match ls with
  | [] => ([], Some s)
  | (k, st) :: inner =>
      match stack_server inner s with
      | (inner', None) => ((k, st) :: inner', None)
      | (inner', Some s') => let (st', o) := mw_server_step k st s' in ((k, st') :: inner', o)
      end
  end.

(** ** sessions and systems of sessions *)
Inductive op := OClient (m : cmsg) | OServer (s : smsg).

(** what one operation makes visible: messages arriving at the wrapped
    handler, messages arriving at the client *)
Definition obs := (list cmsg * list smsg)%type.

Definition sess_step (now : Z) (ls : list layer) (o : op) : list layer * obs :=
  match o with
  | OClient m => let '(ls', d, rs) := stack_client now ls m in (ls', (opt_list d, rs))
  | OServer s => let (ls', d) := stack_server ls s in (ls', ([], opt_list d))
  end.

Fixpoint sess_run (now : Z) (ls : list layer) (h : list op) : list layer * list obs :=
  match h with
  | [] => (ls, [])
  | o :: rest =>
      let (ls1, ob) := sess_step now ls o in
      let (ls2, obs) := sess_run now ls1 rest in
      (ls2, ob :: obs)
  end.

(** one middleware value serving several sessions: one state per session *)
Definition sys := list (list layer).

Definition sys_init (ks : list mwk) (n : nat) : sys := repeat (stack_init ks) n.

Fixpoint upd {A} (i : nat) (x : A) (l : list A) : list A :=
  match l, i with
  | [], _ => []
  | _ :: r, O => x :: r
  | y :: r, S i' => y :: upd i' x r
  end.

Definition sys_step (now : Z) (sy : sys) (i : nat) (o : op) : sys * obs :=
  match nth_error sy i with
  | Some ls => let (ls', ob) := sess_step now ls o in (upd i ls' sy, ob)
  | None => (sy, ([], []))
  end.

Fixpoint sys_run (now : Z) (sy : sys) (h : list (nat * op)) : sys * list obs :=
  match h with
  | [] => (sy, [])
  | (i, o) :: rest =>
      let (sy1, ob) := sys_step now sy i o in
      let (sy2, obs) := sys_run now sy1 rest in
      (sy2, ob :: obs)
  end.

(** ** connections come and go
    One middleware value serves connection after connection.  The wrapper of
    NewSimpleMiddleware calls [ServeNostrStart] when a connection begins — the
    quota puts a fresh map into the connection's context, the two unique
    filters build a fresh base (a fresh LRU) per call of the handler — and
    [ServeNostrEnd] when it ends (every base: nothing to do).  A slot is [None]
    while no connection occupies it; a slot may be used again after its
    connection has ended.  An operation addressed to an empty slot has no
    effect and shows nothing. *)
Inductive lop := LStart | LEnd | LOp (o : op).

Definition slot := option (list layer).

Definition slot_step (ks : list mwk) (now : Z) (c : slot) (l : lop) : slot * obs :=
  match l with
  | LStart => (Some (stack_init ks), ([], []))     (* ServeNostrStart of every layer: fresh state *)
  | LEnd => (None, ([], []))                       (* ServeNostrEnd: the state is dropped *)
  | LOp o =>
      match c with
      | Some ls => let (ls', ob) := sess_step now ls o in (Some ls', ob)
      | None => (None, ([], []))
      end
  end.

Fixpoint slot_run (ks : list mwk) (now : Z) (c : slot) (h : list lop) : slot * list obs :=
  match h with
  | [] => (c, [])
  | l :: rest =>
      let (c1, ob) := slot_step ks now c l in
      let (c2, obs) := slot_run ks now c1 rest in
      (c2, ob :: obs)
  end.

Definition lsys := list slot.

Definition lsys_init (n : nat) : lsys := repeat None n.

Definition lsys_step (ks : list mwk) (now : Z) (sy : lsys) (i : nat) (l : lop) : lsys * obs :=
  match nth_error sy i with
  | Some c => let (c', ob) := slot_step ks now c l in (upd i c' sy, ob)
  | None => (sy, ([], []))
  end.

Fixpoint lsys_run (ks : list mwk) (now : Z) (sy : lsys) (h : list (nat * lop)) : lsys * list obs :=
  match h with
  | [] => (sy, [])
  | (i, l) :: rest =>
      let (sy1, ob) := lsys_step ks now sy i l in
      let (sy2, obs) := lsys_run ks now sy1 rest in
      (sy2, ob :: obs)
  end.

(** ** BuildMiddlewareFromNIP11 *)
Record nip11lim := mkLim {
  l_max_subs : Z; l_max_filters : Z; l_max_limit : Z; l_max_subid : Z;
  l_max_event_tags : Z; l_max_content : Z; l_lower : Z; l_upper : Z
}.

(** the argument: a nil pointer, a document without limitation block
    ([Limitation == nil]), a document with one *)
Inductive nip11 := DocNil | DocNoLim | DocLim (l : nip11lim).

(** applying the returned middleware to a handler yields a stack (the empty
    stack is the identity [func(h) { return h }]), or panics *)
Inductive built := BStack (ks : list mwk) | BPanic | BUnknown.

Definition lim_field (name : str) (l : nip11lim) : option Z :=
  if str_eqb name (txt "MaxSubscriptions") then Some (l_max_subs l) else
  if str_eqb name (txt "MaxFilters") then Some (l_max_filters l) else
  if str_eqb name (txt "MaxLimit") then Some (l_max_limit l) else
  if str_eqb name (txt "MaxSubIDLength") then Some (l_max_subid l) else
  if str_eqb name (txt "MaxEventTags") then Some (l_max_event_tags l) else
  if str_eqb name (txt "MaxContentLength") then Some (l_max_content l) else
  if str_eqb name (txt "CreatedAtLowerLimit") then Some (l_lower l) else
  if str_eqb name (txt "CreatedAtUpperLimit") then Some (l_upper l) else None.

(** the constructors; [Some None] = the constructor panics (range check) *)
Definition ctor_mw (name : str) (v : Z) : option (option mwk) :=
  if str_eqb name (txt "NewMaxSubscriptionsMiddleware")
  then Some (if g_mw_ctor_bad_max_subs v then None else Some (MaxSubs v)) else
  if str_eqb name (txt "NewMaxReqFiltersMiddleware")
  then Some (if g_mw_ctor_bad_max_filters v then None else Some (MaxFilters v)) else
  if str_eqb name (txt "NewMaxLimitMiddleware")
  then Some (if g_mw_ctor_bad_max_limit v then None else Some (MaxLimit v)) else
  if str_eqb name (txt "NewMaxSubIDLengthMiddleware")
  then Some (if g_mw_ctor_bad_max_subid v then None else Some (MaxSubIDLen v)) else
  if str_eqb name (txt "NewMaxEventTagsMiddleware")
  then Some (if g_mw_ctor_bad_max_event_tags v then None else Some (MaxEventTags v)) else
  if str_eqb name (txt "NewMaxContentLengthMiddleware")
  then Some (if g_mw_ctor_bad_max_content v then None else Some (MaxContentLen v)) else
  if str_eqb name (txt "NewCreatedAtLowerLimitMiddleware") then Some (Some (CreatedLower v)) else
  if str_eqb name (txt "NewCreatedAtUpperLimitMiddleware") then Some (Some (CreatedUpper v)) else None.

(** [h = NewY(v)(h)] wraps what was built so far: later entries are outer *)
Fixpoint chain_build (l : nip11lim) (ch : list (str * str * (Z -> bool))) (acc : list mwk) : built :=
  match ch with
  | [] => BStack acc
  | (fld, ctor, cond) :: rest =>
      match lim_field fld l with
      | None => BUnknown
      | Some v =>
          if cond v then
            match ctor_mw ctor v with
            | None => BUnknown
            | Some None => BPanic
            | Some (Some k) => chain_build l rest (k :: acc)
            end
          else chain_build l rest acc
      end
  end.

(** The guards are regenerated from the source: [g_nip11_outer_identity] is
    the disjunction of the `if … { return identity }` tests before the
    closure, [g_nip11_inner_identity] that of the `if … { return h }` tests
    at the head of the closure.  Without such a guard the closure reads
    [nip11.Limitation.X] through a nil pointer: MODEL LINE (F4) — the one
    place where "no limitation block" is interpreted; it is unreachable once
    a guard covers [lim_nil]. *)
Definition build_nip11 (d : nip11) : built :=
  let doc_nil := match d with DocNil => true | _ => false end in
  let lim_nil := match d with DocLim _ => false | _ => true end in
  if g_nip11_outer_identity doc_nil lim_nil then BStack []
  else if g_nip11_inner_identity doc_nil lim_nil then BStack []
  else match d with
       | DocLim l => chain_build l g_nip11_chain []
       | _ => BPanic            (* nil pointer dereference when the middleware is applied *)
       end.

(* ================================================================== *)
(** * Part 2: the specification *)

(** ** C17: a message respects a limit *)
Definition filters_of (m : cmsg) : option (str * list rfilter) :=
  match m with CReq s fs | CCount s fs => Some (s, fs) | _ => None end.

Definition respects (k : mwk) (now : Z) (m : cmsg) : Prop :=
  match k with
  | MaxFilters n => forall s fs, filters_of m = Some (s, fs) -> zlen fs <= n
  | MaxLimit n => forall s fs, filters_of m = Some (s, fs) ->
                  forall f l, In f fs -> f_limit f = Some l -> l <= n
  | MaxSubIDLen n => forall s fs, filters_of m = Some (s, fs) -> zlen s <= n
  | MaxEventTags n => forall e, m = CEvent e -> zlen (ev_tags e) <= n
  | MaxContentLen n => forall e, m = CEvent e -> zlen (ev_content e) <= n
  | CreatedLower l => forall e, m = CEvent e -> now - l <= ev_ts e
  | CreatedUpper u => forall e, m = CEvent e -> ev_ts e <= now + u
  | CreatedWindow from to => forall e, m = CEvent e -> now + from <= ev_ts e <= now + to
  | Allow mt => forall e, m = CEvent e -> mt e = true
  | Deny mt => forall e, m = CEvent e -> mt e = false
  | MaxSubs _ | RecvUnique _ | SendUnique _ => True
  end.

Definition respectsb (k : mwk) (now : Z) (m : cmsg) : bool :=
  match k, m with
  | MaxFilters n, (CReq _ fs | CCount _ fs) => zlen fs <=? n
  | MaxLimit n, (CReq _ fs | CCount _ fs) =>
      forallb (fun f => match f_limit f with None => true | Some l => l <=? n end) fs
  | MaxSubIDLen n, (CReq s _ | CCount s _) => zlen s <=? n
  | MaxEventTags n, CEvent e => zlen (ev_tags e) <=? n
  | MaxContentLen n, CEvent e => zlen (ev_content e) <=? n
  | CreatedLower l, CEvent e => now - l <=? ev_ts e
  | CreatedUpper u, CEvent e => ev_ts e <=? now + u
  | CreatedWindow from to, CEvent e => (now + from <=? ev_ts e) && (ev_ts e <=? now + to)
  | Allow mt, CEvent e => mt e
  | Deny mt, CEvent e => negb (mt e)
  | _, _ => true
  end.

(** the kinds of message a limit is about; all others must pass *)
Definition concerns (k : mwk) (m : cmsg) : bool :=
  match k, m with
  | (MaxFilters _ | MaxLimit _ | MaxSubIDLen _), (CReq _ _ | CCount _ _) => true
  | (MaxEventTags _ | MaxContentLen _ | CreatedLower _ | CreatedUpper _ | CreatedWindow _ _
     | Allow _ | Deny _ | RecvUnique _), CEvent _ => true
  | MaxSubs _, (CReq _ _ | CClose _) => true
  | _, _ => false
  end.

(** the protocol's rejection for the type of [m] *)
Definition reject_shape (m : cmsg) (r : smsg) : Prop :=
  match m with
  | CEvent e => exists p t, r = SOk (ev_id e) false p t
  | CReq sub _ | CCount sub _ => exists p t, r = SClosed sub p t
  | _ => False
  end.

Definition reject_shapeb (m : cmsg) (r : smsg) : bool :=
  match m, r with
  | CEvent e, SOk id false _ _ => str_eqb id (ev_id e)
  | (CReq sub _ | CCount sub _), SClosed sub' _ _ => str_eqb sub sub'
  | _, _ => false
  end.

(** the limits a NIP-11 limitation block asks for, outermost first (the
    order in which the chain consults them); a zero field sets no limit *)
Definition nz (v : Z) (k : mwk) : list mwk := if v =? 0 then [] else [k].

Definition nip11_limits (l : nip11lim) : list mwk :=
  nz (l_upper l) (CreatedUpper (l_upper l)) ++
  nz (l_lower l) (CreatedLower (l_lower l)) ++
  nz (l_max_content l) (MaxContentLen (l_max_content l)) ++
  nz (l_max_event_tags l) (MaxEventTags (l_max_event_tags l)) ++
  nz (l_max_limit l) (MaxLimit (l_max_limit l)) ++
  nz (l_max_filters l) (MaxFilters (l_max_filters l)) ++
  nz (l_max_subs l) (MaxSubs (l_max_subs l)).

Definition lim_nonneg (l : nip11lim) : Prop :=
  0 <= l_max_subs l /\ 0 <= l_max_filters l /\ 0 <= l_max_limit l /\
  0 <= l_max_event_tags l /\ 0 <= l_max_content l.

Definition lim_nonnegb (l : nip11lim) : bool :=
  (0 <=? l_max_subs l) && (0 <=? l_max_filters l) && (0 <=? l_max_limit l) &&
  (0 <=? l_max_event_tags l) && (0 <=? l_max_content l).

Definition zero_lim : nip11lim := mkLim 0 0 0 0 0 0 0 0.

(** "no limitation block at all": a nil document or a nil [Limitation] *)
Definition no_limitation_block (d : nip11) : Prop :=
  match d with DocLim _ => False | _ => True end.

(** ** C18 *)

(** the last [size] distinct ids of a sequence of accesses (newest first):
    duplicates removed keeping the newest occurrence *)
Fixpoint recent (seen : list str) : list str :=
  match seen with
  | [] => []
  | x :: r => x :: set_remove x (recent r)
  end.

Definition window (size : Z) (seen : list str) : list str := firstn (Z.to_nat size) (recent seen).

(** event ids of the client EVENT messages / server EVENT messages of a
    history, newest first *)
Fixpoint cev_ids (h : list cmsg) (acc : list str) : list str :=
  match h with
  | [] => acc
  | CEvent e :: r => cev_ids r (ev_id e :: acc)
  | _ :: r => cev_ids r acc
  end.

Fixpoint sev_ids (h : list smsg) (acc : list str) : list str :=
  match h with
  | [] => acc
  | SEvent _ e :: r => sev_ids r (ev_id e :: acc)
  | _ :: r => sev_ids r acc
  end.

(** subscriptions open downstream after the wrapped handler has received
    the messages [d] (oldest first): opened by REQ, closed by CLOSE *)
Fixpoint down_open (d : list cmsg) (acc : list str) : list str :=
  match d with
  | [] => acc
  | CReq s _ :: r => down_open r (set_add s acc)
  | CClose s :: r => down_open r (set_remove s acc)
  | _ :: r => down_open r acc
  end.

(** projection of a multi-session history (or of its observations) to one
    session *)
Fixpoint proj {A} (j : nat) (h : list (nat * A)) : list A :=
  match h with
  | [] => []
  | (i, x) :: r => if Nat.eqb i j then x :: proj j r else proj j r
  end.

(** ** the oracle: a layered reading of both properties over observations.
    Every layer keeps only what the property text speaks about: the set of
    open subscriptions resp. the sequence of event ids seen (newest first). *)
Inductive sstate := SpNone | SpOpen (open : list str) | SpSeen (seen : list str).

Definition sp_init (k : mwk) : sstate :=
  match k with
  | MaxSubs _ => SpOpen []
  | RecvUnique _ | SendUnique _ => SpSeen []
  | _ => SpNone
  end.

Definition sp_open (s : sstate) : list str := match s with SpOpen o => o | _ => [] end.
Definition sp_seen (s : sstate) : list str := match s with SpSeen o => o | _ => [] end.

Inductive verdict := VForward | VReject | VEither.

(** what the text demands of one middleware for a client message reaching it *)
Definition sp_verdict (k : mwk) (now : Z) (ss : sstate) (m : cmsg) : verdict :=
  match k with
  | MaxSubs n =>
      match m with
      | CReq sub _ => if mem_str sub (sp_open ss) || (zlen (sp_open ss) <? n) then VForward else VReject
      | _ => VForward
      end
  | RecvUnique size =>
      match m with
      | CEvent e =>
          if mem_str (ev_id e) (window size (sp_seen ss)) then VReject
          else if mem_str (ev_id e) (sp_seen ss) then VEither
          else VForward
      | _ => VForward
      end
  | SendUnique _ => VForward
  | _ => if respectsb k now m then VForward else VReject
  end.

(** state after the message reached the middleware and was forwarded
    ([fwd = true]) or answered *)
Definition sp_update (k : mwk) (ss : sstate) (m : cmsg) (fwd : bool) : sstate :=
  match k with
  | MaxSubs _ =>
      match m with
      | CReq sub _ => if fwd then SpOpen (set_add sub (sp_open ss)) else ss
      | CClose sub => SpOpen (set_remove sub (sp_open ss))
      | _ => ss
      end
  | RecvUnique _ =>
      match m with
      | CEvent e => SpSeen (ev_id e :: sp_seen ss)
      | _ => ss
      end
  | _ => ss
  end.

(** the reply a middleware must give; the receive-side unique filter marks
    its rejection with the duplicate prefix *)
Definition sp_reply_ok (k : mwk) (m : cmsg) (r : smsg) : bool :=
  reject_shapeb m r &&
  match k, r with
  | RecvUnique _, SOk _ _ p _ => str_eqb p dup_prefix
  | RecvUnique _, _ => false
  | _, _ => true
  end.

Definition slayer := (mwk * sstate)%type.
Definition sp_stack_init (ks : list mwk) : list slayer := List.map (fun k => (k, sp_init k)) ks.

Definition cmsgs_eqb : list cmsg -> list cmsg -> bool := list_eqb cmsg_eqb.
Definition smsgs_eqb : list smsg -> list smsg -> bool := list_eqb smsg_eqb.

Definition is_rejection (k : mwk) (m : cmsg) (down : list cmsg) (client : list smsg) : bool :=
  match down, client with
  | [], [r] => sp_reply_ok k m r
  | _, _ => false
  end.

(** judge the observation (what reached the wrapped handler, what reached
    the client) of one client message; [None] = the property is violated *)
Fixpoint sp_client (now : Z) (sl : list slayer) (m : cmsg) (down : list cmsg) (client : list smsg)
  : option (list slayer) :=
  match sl with
  | [] => if cmsgs_eqb down [m] && smsgs_eqb client [] then Some [] else None
  | (k, ss) :: inner =>
      let fwd := match sp_client now inner m down client with
                 | Some inner' => Some ((k, sp_update k ss m true) :: inner')
                 | None => None
                 end in
      let rej := if is_rejection k m down client
                 then Some ((k, sp_update k ss m false) :: inner) else None in
      match sp_verdict k now ss m with
      | VForward => fwd
      | VReject => rej
      | VEither => match fwd with Some x => Some x | None => rej end
      end
  end.

(** server messages: every middleware passes them unchanged, except that the
    send-side unique filter must drop an EVENT whose id is in its window,
    must deliver one whose id it has not seen, and is free otherwise.
    [sp_server_in] walks from the innermost layer outwards ([rl] is the stack
    innermost first) and checks that some admissible choice explains whether
    the message was [delivered]; [None] = no choice does. *)
Fixpoint sp_server_in (rl : list slayer) (s : smsg) (delivered : bool) : option (list slayer) :=
  match rl with
  | [] => if delivered then Some [] else None
  | (k, ss) :: outer =>
      match k, s with
      | SendUnique size, SEvent _ e =>
          let seen := sp_seen ss in
          let l' := (k, SpSeen (ev_id e :: seen)) in
          let pass := match sp_server_in outer s delivered with
                      | Some o' => Some (l' :: o')
                      | None => None
                      end in
          let drop := if delivered then None else Some (l' :: outer) in
          if mem_str (ev_id e) (window size seen) then drop
          else if mem_str (ev_id e) seen then match pass with Some x => Some x | None => drop end
          else pass
      | _, _ =>
          match sp_server_in outer s delivered with
          | Some o' => Some ((k, ss) :: o')
          | None => None
          end
      end
  end.

Definition sp_step (now : Z) (sl : list slayer) (o : op) (ob : obs) : option (list slayer) :=
  match o with
  | OClient m => sp_client now sl m (fst ob) (snd ob)
  | OServer s =>
      let delivered := match snd ob with [] => false | _ => true end in
      if cmsgs_eqb (fst ob) [] && smsgs_eqb (snd ob) (if delivered then [s] else [])
      then match sp_server_in (rev sl) s delivered with
           | Some rl' => Some (rev rl')
           | None => None
           end
      else None
  end.

Fixpoint sp_run (now : Z) (sl : list slayer) (h : list op) (obs : list obs) : bool :=
  match h, obs with
  | [], [] => true
  | o :: h', ob :: obs' =>
      match sp_step now sl o ob with
      | Some sl' => sp_run now sl' h' obs'
      | None => false
      end
  | _, _ => false
  end.

(** "all of this state is per connection and never leaks between
    connections", over the life of a connection slot: a connection that begins
    is judged from the initial state of the text (nothing open, nothing seen),
    whatever earlier connections — in this slot or in any other — did or left
    behind; beginning and ending a connection shows nothing, and nothing can
    be observed on a slot without a connection. *)
Definition obs_empty (ob : obs) : bool :=
  match ob with ([], []) => true | _ => false end.

Fixpoint sp_life_run (now : Z) (ks : list mwk) (cur : option (list slayer)) (h : list lop) (obs : list obs) : bool :=
  match h, obs with
  | [], [] => true
  | l :: h', ob :: obs' =>
      match l with
      | LStart => obs_empty ob && sp_life_run now ks (Some (sp_stack_init ks)) h' obs'
      | LEnd => obs_empty ob && sp_life_run now ks None h' obs'
      | LOp o =>
          match cur with
          | Some sl =>
              match sp_step now sl o ob with
              | Some sl' => sp_life_run now ks (Some sl') h' obs'
              | None => false
              end
          | None => obs_empty ob && sp_life_run now ks None h' obs'
          end
      end
  | _, _ => false
  end.

(** the quota invariant on what the wrapped handler has seen, for a stack
    whose innermost member is the quota: at most [n] subscriptions open *)
Fixpoint down_open_bounded (n : Z) (d : list cmsg) (acc : list str) : bool :=
  match d with
  | [] => true
  | m :: r =>
      let acc' := down_open [m] acc in
      (zlen acc' <=? n) && down_open_bounded n r acc'
  end.
