(* RouterHistCopy.v — C07: every copy a connection holds (queued, in the
   forwarder's hand, sent) or has dropped is attributed to a publication and
   to a REQ of that connection, with the real-time facts the oracles ask for. *)
From Moc Require Import Base Match Router RouterSpec RouterHist RouterLemmas RouterFrame RouterTrans RouterData
  RouterMust RouterEnv RouterInv RouterDataInv RouterOnce RouterOrder RouterReplies RouterProofs RouterHistBase RouterHistInv.
From Coq Require Import Sorted.
Open Scope Z_scope.

(* ------------------------------------------------------------------ *)
(** * MUST NOT: the justification of a copy *)

Definition Phi (H : list hop) (x : conn) (sub : str) (e : event) (t : ptag) : Prop :=
  exists P q fs,
    pub_nth H (fst t) (snd t) P /\ h_o P = OEvent e /\
    In q H /\ h_c q = x /\ h_o q = OReq sub fs /\ sub_matches e fs = true /\
    lt_opt (h_b q) (h_d P) = true /\
    forall k, In k H -> h_c k = x -> h_b q < h_b k -> op_ends (h_o k) sub = true ->
      ended_before (effk H k) (h_b P) = false.

Lemma Phi_stable now H H' x sub e t :
  (forall h, In h H -> h_b h < now) -> hchange now H H' -> Phi H x sub e t -> Phi H' x sub e t.
Proof.
  intros Time HC (P & q & fs & HP & HoP & Hq & Hcq & Hoq & Hm & Hlt & Hk).
  destruct (pub_nth_In _ _ _ _ HP) as (HPin & _ & _).
  destruct (pub_nth_hchange _ _ _ _ _ _ HC HP) as (P' & HP' & (SP1 & SP2 & SP3) & EvP).
  destruct (hchange_fwd _ _ _ q HC Hq) as (q' & Hq' & (Sq1 & Sq2 & Sq3) & _).
  exists P', q', fs. split; [assumption|]. split; [congruence|]. split; [assumption|].
  split; [congruence|]. split; [congruence|]. split; [assumption|]. split.
  - rewrite Sq3. destruct EvP as [EvP|(_ & EvP & _)]; [now rewrite EvP|].
    rewrite EvP. cbn. apply Z.ltb_lt. now apply Time.
  - intros k' Hk' Hck' Hb He. rewrite SP3.
    destruct (hchange_bwd _ _ _ k' HC Hk') as [(k & Hin & Sk & Evk)|(c & o & -> & EH)].
    + destruct (effk H' k') as [d|] eqn:Ed; [|reflexivity].
      destruct (effk_hchange _ _ _ _ _ _ HC Sk Evk Ed) as [E0| ->].
      * destruct Sk as (T1 & T2 & T3).
        assert (X : ended_before (effk H k) (h_b P) = false) by (apply Hk; congruence).
        now rewrite E0 in X.
      * cbn. apply Z.ltb_ge. specialize (Time P HPin). lia.
    + rewrite effk_last_none; [reflexivity | | reflexivity].
      intros h' Hh' _. rewrite EH in Hh'. apply in_app_iff in Hh' as [Hh'|[<-|[]]]; [|cbn; lia].
      specialize (Time h' Hh'). cbn. lia.
Qed.

Definition CopyInv (st : istate) : Prop :=
  forall x sub e t,
    In (MEvent sub e t) (evs (r_cs (i_s st) x)) \/ In (sub, e, t) (c_drops (r_cs (i_s st) x)) ->
    Phi (i_hops st) x sub e t.

Lemma CopyInv_init buf : CopyInv (i_init buf).
Proof. intros x sub e t [[]|[]]. Qed.

Lemma fea_all_none l b : (forall o, In o l -> b < h_b o -> h_d o = None) -> first_end_after l b = None.
Proof.
  induction l as [|a l IH]; intro H; cbn; [reflexivity|].
  assert (IH' : first_end_after l b = None) by (apply IH; intros o Ho; apply H; now right).
  destruct (b <? h_b a) eqn:E; [|exact IH']. apply Z.ltb_lt in E. rewrite (H a (or_introl eq_refl) E). exact IH'.
Qed.

Lemma effk_tail_open H k : In k H -> tail_open H k -> effk H k = None.
Proof.
  intros Hin TO. rewrite effk_unfold.
  assert (Hd : h_d k = None) by (apply TO; [assumption | reflexivity | lia]).
  destruct (h_o k); try exact Hd.
  apply fea_all_none. intros o Ho Hb. apply xops_In in Ho as [Ho1 Ho2]. apply TO; [assumption | assumption | lia].
Qed.

(** the copy a visiting publisher is about to hand over *)
Lemma Phi_create st c e t x sub fs todo rest :
  Inv (i_s st) -> HInv st -> PubInv st -> AInv st ->
  c_pc (r_cs (i_s st) c) = IVisit e t x ((sub, fs) :: todo) :: rest -> sub_matches e fs = true ->
  Phi (i_hops st) x sub e t.
Proof.
  intros I HI PI AI Hpc Hm. pose proof (inv_pc _ I c) as Pk. rewrite Hpc in Pk.
  destruct (pc_ok_inv_visit _ _ _ _ _ _ _ Pk) as (n & rem & id & -> & _ & _ & _ & _ & _ & _ & _ & Htodo).
  specialize (Htodo sub fs (or_introl eq_refl)).
  destruct (p_cur st PI c e (c, n)) as (P & _ & HP & HoP & HdP).
  { exists (IVisit e (c, n) x ((sub, fs) :: todo)). rewrite Hpc. split; [now left | split; reflexivity]. }
  destruct (AI x sub fs Htodo) as (q & Hq & Hcq & Hoq & Hk).
  exists P, q, fs. repeat split; auto.
  - rewrite HdP. reflexivity.
  - intros k Hin Hck Hb He. destruct (Hk k Hin Hck Hb He) as [Pd TO].
    rewrite (effk_tail_open _ _ Hin TO). reflexivity.
Qed.

Lemma HInv_time_lt st h : HInv st -> In h (i_hops st) -> h_b h < i_now st.
Proof. intros HI Hin. destruct (h_time st HI h Hin). lia. Qed.

Theorem CopyInv_step buf st l :
  reachable buf (i_s st) -> HInv st -> PubInv st -> AInv st -> CopyInv st -> CopyInv (istep st l).
Proof.
  intros R HI PI AI CI. pose proof (Inv_reachable buf _ R) as I.
  pose proof (istep_hchange st l) as HC.
  destruct (step_trans (i_s st) l) as [E|T].
  { destruct (istep_stutter st l E) as [EH _]. intros x sub e t. rewrite istep_s, E, EH. apply CI. }
  intros x sub e t Hin. rewrite istep_s in Hin.
  apply Phi_stable with (now := i_now st) (H := i_hops st); [intros h Hh; now apply HInv_time_lt | exact HC |].
  destruct (evs_trans _ _ _ x T)
    as [E1 E2 _|c e0 t0 sub0 fs0 todo rest _ Hpc Hm _ E1 _ _ E2|c e0 t0 sub0 fs0 todo rest _ Hpc Hm _ E1 _ _ E2|rest _ _ E1 _ _ E2];
    rewrite E1, E2 in Hin.
  - now apply CI.
  - destruct Hin as [Hin|Hin]; [|apply CI; now right].
    apply in_app_iff in Hin as [Hin|[Hin|[]]]; [apply CI; now left|].
    inversion Hin; subst. eapply Phi_create; eassumption.
  - destruct Hin as [Hin|Hin]; [apply CI; now left|].
    apply in_app_iff in Hin as [Hin|[Hin|[]]]; [apply CI; now right|].
    inversion Hin; subst. eapply Phi_create; eassumption.
  - destruct Hin as [Hin|Hin]; [|apply CI; now right].
    apply CI. left. now apply evs_out_incl.
Qed.

(* ------------------------------------------------------------------ *)
(** * A received copy arrived after its publication began *)

Definition out_ok (H : list hop) (mr : smsg * Z) : Prop :=
  match fst mr with
  | MEvent sub e t => exists P, pub_nth H (fst t) (snd t) P /\ h_o P = OEvent e /\ h_b P < snd mr
  | _ => True
  end.

Definition OutInv (st : istate) : Prop := forall x, Forall (out_ok (i_hops st)) (i_outs st x).

Lemma out_ok_stable now H H' mr : hchange now H H' -> out_ok H mr -> out_ok H' mr.
Proof.
  intros HC. unfold out_ok. destruct (fst mr); auto.
  intros (P & HP & HoP & Hb). destruct (pub_nth_hchange _ _ _ _ _ _ HC HP) as (P' & HP' & (S1 & S2 & S3) & _).
  exists P'. split; [assumption|]. split; congruence.
Qed.

Lemma hand_in_evs st m : c_hand st = Some m -> is_event_msg m = true -> In m (evs st).
Proof.
  intros Hh He. unfold evs. apply filter_In. split; [|assumption]. apply In_flow. auto.
Qed.

Theorem OutInv_step buf st l :
  reachable buf (i_s st) -> HInv st -> CopyInv st -> OutInv st -> OutInv (istep st l).
Proof.
  intros R HI CI OI x. pose proof (istep_hchange st l) as HC.
  destruct (step_trans (i_s st) l) as [E|T].
  { destruct (istep_stutter st l E) as [EH EO]. rewrite EH, EO. apply OI. }
  assert (Old : Forall (out_ok (i_hops (istep st l))) (i_outs st x)).
  { eapply Forall_impl; [|apply OI]. intro mr. now apply out_ok_stable with (now := i_now st). }
  destruct (istep_outs_trans st l x T) as [[E1 _]|(m & E1 & _ & Hm)]; rewrite E1; [assumption|].
  apply Forall_app. split; [assumption|]. constructor; [|constructor].
  apply out_ok_stable with (now := i_now st) (H := i_hops st); [assumption|].
  unfold out_ok. cbn [fst snd]. destruct m as [| | |sub e t]; auto.
  destruct Hm as [[_ Hm]|[_ Hm]]; [discriminate|].
  destruct (CI x sub e t) as (P & q & fs & HP & HoP & _); [left; now apply hand_in_evs|].
  exists P. split; [assumption|]. split; [assumption|].
  apply HInv_time_lt; [assumption|]. now destruct (pub_nth_In _ _ _ _ HP).
Qed.

(** before the list of operations is updated: every copy of the new state is
    justified with respect to the old list *)
Lemma CopyInv_pre buf st l x sub e t :
  reachable buf (i_s st) -> HInv st -> PubInv st -> AInv st -> CopyInv st ->
  trans (i_s st) l (step (i_s st) l) ->
  In (MEvent sub e t) (evs (r_cs (step (i_s st) l) x)) \/ In (sub, e, t) (c_drops (r_cs (step (i_s st) l) x)) ->
  Phi (i_hops st) x sub e t.
Proof.
  intros R HI PI AI CI T Hin. pose proof (Inv_reachable buf _ R) as I.
  destruct (evs_trans _ _ _ x T)
    as [E1 E2 _|c e0 t0 sub0 fs0 todo rest _ Hpc Hm _ E1 _ _ E2|c e0 t0 sub0 fs0 todo rest _ Hpc Hm _ E1 _ _ E2|rest _ _ E1 _ _ E2];
    rewrite E1, E2 in Hin.
  - now apply CI.
  - destruct Hin as [Hin|Hin]; [|apply CI; now right].
    apply in_app_iff in Hin as [Hin|[Hin|[]]]; [apply CI; now left|].
    inversion Hin; subst. eapply Phi_create; eassumption.
  - destruct Hin as [Hin|Hin]; [apply CI; now left|].
    apply in_app_iff in Hin as [Hin|[Hin|[]]]; [apply CI; now right|].
    inversion Hin; subst. eapply Phi_create; eassumption.
  - destruct Hin as [Hin|Hin]; [|apply CI; now right].
    apply CI. left. now apply evs_out_incl.
Qed.

(* ------------------------------------------------------------------ *)
(** * Drops: when a copy was dropped, buflen other copies were waiting *)

Definition pub_begin_l (H : list hop) (id : str) : option Z := pub_begin (mkHist 0 H [] []) id.

Lemma pub_begin_eq h id : pub_begin h id = pub_begin_l (hi_ops h) id.
Proof. destruct h. reflexivity. Qed.

Lemma pbl_nil id : pub_begin_l [] id = None.
Proof. reflexivity. Qed.

Lemma pbl_cons h H id :
  pub_begin_l (h :: H) id =
  match h_o h with
  | OEvent e => if str_eqb (ev_id e) id then Some (h_b h) else pub_begin_l H id
  | _ => pub_begin_l H id
  end.
Proof. unfold pub_begin_l, pub_begin, pubs. cbn [hi_ops flat_map]. unfold is_pub. destruct (h_o h); reflexivity. Qed.

Lemma pbl_app_some H H2 id b : pub_begin_l H id = Some b -> pub_begin_l (H ++ H2) id = Some b.
Proof.
  induction H as [|h H IH]; [discriminate|]. cbn [app]. rewrite !pbl_cons.
  destruct (h_o h); auto. destruct (str_eqb (ev_id e) id); auto.
Qed.

Lemma pbl_close d c k H id : pub_begin_l (close_hop d c k H) id = pub_begin_l H id.
Proof.
  induction H as [|h H IH]; [reflexivity|]. cbn [close_hop List.map]. rewrite !pbl_cons, close1_o, close1_b.
  fold (close_hop d c k H). now rewrite IH.
Qed.

Lemma pbl_exists H P e : In P H -> h_o P = OEvent e -> exists b, pub_begin_l H (ev_id e) = Some b.
Proof.
  induction H as [|h H IH]; [contradiction|]. intros [->|Hin] Ho; rewrite pbl_cons.
  - rewrite Ho, str_eqb_refl. eauto.
  - destruct (h_o h); auto. destruct (str_eqb (ev_id e0) (ev_id e)); eauto.
Qed.

Lemma pbl_some H id b : pub_begin_l H id = Some b -> exists h e, In h H /\ h_o h = OEvent e /\ ev_id e = id /\ h_b h = b.
Proof.
  induction H as [|h H IH]; [discriminate|]. rewrite pbl_cons.
  destruct (h_o h) eqn:Eo; try (intro X; destruct (IH X) as (h' & e' & A & B); exists h', e'; split; [now right | exact B]).
  destruct (str_eqb (ev_id e) id) eqn:Ei.
  - intro X. inversion X. apply str_eqb_eq in Ei. exists h, e. split; [now left | auto].
  - intro X. destruct (IH X) as (h' & e' & A & B). exists h', e'. split; [now right | exact B].
Qed.

Lemma pbl_hchange now H H' id b : hchange now H H' -> pub_begin_l H id = Some b -> pub_begin_l H' id = Some b.
Proof. intros [->| c o ->| d c ->] E; [assumption | now apply pbl_app_some | now rewrite pbl_close]. Qed.

Definition fullpred (H : list hop) (bP : Z) (dP : option Z) (m : smsg) (r : option Z) : bool :=
  match m with
  | MEvent _ e2 _ =>
      (match r with Some r => bP <? r | None => true end) &&
      (match pub_begin_l H (ev_id e2) with Some b2 => lt_opt b2 dP | None => true end)
  | _ => false
  end.

Definition cntf (H : list hop) (bP : Z) (dP : option Z) (outs : list (smsg * Z)) (hq : list smsg) : nat :=
  (count_occ_b (fun mr : smsg * Z => fullpred H bP dP (fst mr) (Some (snd mr))) outs +
   count_occ_b (fun m => fullpred H bP dP m None) hq)%nat.

Lemma count_occ_b_le_in {A} (f g : A -> bool) l :
  (forall a, In a l -> f a = true -> g a = true) -> (count_occ_b f l <= count_occ_b g l)%nat.
Proof.
  induction l as [|a l IH]; intro Hfg; cbn; [lia|].
  assert (IH' : (count_occ_b f l <= count_occ_b g l)%nat) by (apply IH; intros b Hb; apply Hfg; now right).
  destruct (f a) eqn:Ef.
  - rewrite (Hfg a (or_introl eq_refl) Ef). lia.
  - destruct (g a); lia.
Qed.

Definition has_pub (H : list hop) (m : smsg) : Prop :=
  match m with MEvent _ e _ => exists b, pub_begin_l H (ev_id e) = Some b | _ => True end.

Lemma fullpred_mono now H H' bP dP dP' m r :
  (forall h, In h H -> h_b h < now) -> hchange now H H' ->
  (dP' = dP \/ (dP = None /\ dP' = Some now)) -> has_pub H m ->
  fullpred H bP dP m r = true -> fullpred H' bP dP' m r = true.
Proof.
  intros Time HC Ev Hp. destruct m as [| | |sub e t]; cbn [fullpred]; auto. cbn [has_pub] in Hp. destruct Hp as [b2 Eb].
  rewrite Eb, (pbl_hchange _ _ _ _ _ HC Eb). intro X. apply andb_true_iff in X as [X1 X2]. rewrite X1. cbn [andb].
  destruct Ev as [->|[-> ->]]; [assumption|]. cbn [lt_opt]. apply Z.ltb_lt.
  destruct (pbl_some _ _ _ Eb) as (h & e' & Hin & _ & _ & <-). now apply Time.
Qed.

Lemma cntf_mono now H H' bP dP dP' outs hq :
  (forall h, In h H -> h_b h < now) -> hchange now H H' ->
  (dP' = dP \/ (dP = None /\ dP' = Some now)) ->
  (forall m, In m (List.map fst outs) \/ In m hq -> has_pub H m) ->
  (cntf H bP dP outs hq <= cntf H' bP dP' outs hq)%nat.
Proof.
  intros Time HC Ev Hp. unfold cntf.
  assert (A : (count_occ_b (fun mr : smsg * Z => fullpred H bP dP (fst mr) (Some (snd mr))) outs <=
               count_occ_b (fun mr : smsg * Z => fullpred H' bP dP' (fst mr) (Some (snd mr))) outs)%nat).
  { apply count_occ_b_le_in. intros mr Hin. eapply fullpred_mono; try eassumption.
    apply Hp. left. now apply in_map. }
  assert (B : (count_occ_b (fun m => fullpred H bP dP m None) hq <= count_occ_b (fun m => fullpred H' bP dP' m None) hq)%nat).
  { apply count_occ_b_le_in. intros m Hin. eapply fullpred_mono; try eassumption. apply Hp. now right. }
  lia.
Qed.

Definition FullInv (st : istate) : Prop :=
  forall x sub e t,
    c_dead (r_cs (i_s st) x) = false -> In (sub, e, t) (c_drops (r_cs (i_s st) x)) ->
    exists P, pub_nth (i_hops st) (fst t) (snd t) P /\ h_o P = OEvent e /\
      (r_buf (i_s st) <= cntf (i_hops st) (h_b P) (h_d P) (i_outs st x)
                              (hand_list (r_cs (i_s st) x) ++ c_q (r_cs (i_s st) x)))%nat.

Lemma FullInv_init buf : FullInv (i_init buf).
Proof. intros x sub e t _ []. Qed.

Lemma Phi_has_pub H x sub e t : Phi H x sub e t -> has_pub H (MEvent sub e t).
Proof.
  intros (P & q & fs & HP & HoP & _). cbn. destruct (pub_nth_In _ _ _ _ HP) as (Hin & _). eapply pbl_exists; eassumption.
Qed.

Lemma count_all_true {A} (f : A -> bool) l : (forall a, In a l -> f a = true) -> count_occ_b f l = length l.
Proof.
  induction l as [|a l IH]; intro H; cbn; [reflexivity|]. rewrite (H a (or_introl eq_refl)), IH; [reflexivity|].
  intros b Hb. apply H. now right.
Qed.

Theorem FullInv_step buf st l :
  reachable buf (i_s st) -> HInv st -> PubInv st -> AInv st -> CopyInv st -> FullInv st -> FullInv (istep st l).
Proof.
  intros R HI PI AI CI FI. pose proof (Inv_reachable buf _ R) as I. pose proof (QInv_reachable buf _ R) as Q.
  pose proof (istep_hchange st l) as HC.
  destruct (step_trans (i_s st) l) as [E|T].
  { destruct (istep_stutter st l E) as [EH EO]. intros x sub e t. rewrite istep_s, E, EH, EO. apply FI. }
  intros x sub e t Hd' Hin'. rewrite istep_s in *.
  assert (Time : forall h, In h (i_hops st) -> h_b h < i_now st) by (intros h Hh; now apply HInv_time_lt).
  assert (Hd : c_dead (r_cs (i_s st) x) = false).
  { destruct (trans_ops _ _ _ x T) as [[_ E]|(o & [->|(-> & -> & Hc)] & _)]; [congruence | now destruct (trans_actor _ _ _ T)|].
    now apply (inv_cancel _ I). }
  (* the claim with respect to the old state *)
  assert (Pre : exists P, pub_nth (i_hops st) (fst t) (snd t) P /\ h_o P = OEvent e /\
            (r_buf (i_s st) <= cntf (i_hops st) (h_b P) (h_d P) (i_outs st x)
                                    (hand_list (r_cs (i_s st) x) ++ c_q (r_cs (i_s st) x)))%nat).
  { destruct (evs_trans _ _ _ x T)
      as [_ E2 _|c e0 t0 sub0 fs0 todo rest _ _ _ _ _ _ _ E2|c e0 t0 sub0 fs0 todo rest _ Hpc Hm Hfull _ _ _ E2|rest _ _ _ _ _ E2];
      rewrite E2 in Hin'; try (exact (FI x sub e t Hd Hin')).
    apply in_app_iff in Hin' as [Hin'|[Hin'|[]]]; [exact (FI x sub e t Hd Hin')|]. inversion Hin'; subst sub0 e0 t0.
    pose proof (inv_pc _ I c) as Pk. rewrite Hpc in Pk.
    destruct (pc_ok_inv_visit _ _ _ _ _ _ _ Pk) as (n & rem & id & -> & _).
    destruct (p_cur st PI c e (c, n)) as (P & _ & HP & HoP & HdP).
    { exists (IVisit e (c, n) x ((sub, fs0) :: todo)). rewrite Hpc. split; [now left | split; reflexivity]. }
    exists P. split; [assumption|]. split; [assumption|]. rewrite HdP. unfold cntf.
    rewrite count_occ_b_app.
    rewrite (count_all_true _ (c_q (r_cs (i_s st) x))); [lia|].
    intros m Hm'. destruct (Q x) as [Hq _]. rewrite Forall_forall in Hq. specialize (Hq m Hm').
    destruct m; try discriminate. cbn [fullpred andb lt_opt]. now destruct (pub_begin_l (i_hops st) (ev_id e0)). }
  destruct Pre as (P & HP & HoP & Hcnt).
  destruct (pub_nth_In _ _ _ _ HP) as (HPin & _ & _).
  destruct (pub_nth_hchange _ _ _ _ _ _ HC HP) as (P' & HP' & (S1 & S2 & S3) & EvP).
  exists P'. split; [assumption|]. split; [congruence|].
  rewrite (r_buf_trans _ _ _ T), S3.
  (* first the lists, then the operations *)
  set (outs' := i_outs (istep st l) x).
  set (hq' := hand_list (r_cs (step (i_s st) l) x) ++ c_q (r_cs (step (i_s st) l) x)).
  assert (Lists : (cntf (i_hops st) (h_b P) (h_d P) (i_outs st x) (hand_list (r_cs (i_s st) x) ++ c_q (r_cs (i_s st) x))
                   <= cntf (i_hops st) (h_b P) (h_d P) outs' hq')%nat).
  { unfold outs', hq', cntf. rewrite istep_outs. unfold hand_list.
    destruct (dat_trans _ _ _ x T)
      as [E0|m Hl Hm Ho Hq Hh Hdr|c e0 t0 sub0 fs0 todo rest Hl Hpc E0|rest Hl Hpc Hq' Hh' Ho Hdr|m q' Hl Hh Hq Hq' Hh' Ho Hdr|m Hl Hh Hq Hh' Ho Hdr].
    - apply dat_eq in E0 as (E1 & E2 & E3 & _). rewrite E1, E2, E3, skipn_all. cbn [List.map]. rewrite app_nil_r. lia.
    - rewrite Ho, Hq, Hh, skipn_app_exact. cbn [List.map]. rewrite !count_occ_b_app. cbn [count_occ_b fst].
      destruct m; try discriminate; cbn [fullpred]; lia.
    - apply dat_eq in E0 as (E1 & E2 & E3 & _). rewrite send_if_match_hand in E2. rewrite send_if_match_out in E3.
      rewrite E1, E2, E3, skipn_all. cbn [List.map]. rewrite app_nil_r.
      destruct (send_if_match_q (r_buf (i_s st)) e0 t0 sub0 fs0 (r_cs (i_s st) x)) as [(_ & _ & Q1 & _)|[(_ & _ & Q1 & _)|(_ & Q1)]];
        rewrite Q1; rewrite ?app_assoc, ?count_occ_b_app; lia.
    - exfalso. pose proof (inv_pc _ I x) as Pk. rewrite Hpc in Pk. destruct (pc_ok_inv_unsuball _ _ _ Pk). congruence.
    - rewrite Ho, Hq', Hh', Hh, Hq, skipn_all. cbn [List.map app]. rewrite app_nil_r. lia.
    - rewrite Ho, Hq, Hh', Hh, skipn_app_exact. cbn [List.map app]. rewrite !count_occ_b_app. cbn [count_occ_b fst snd].
      destruct m as [| | |s2 e2 t2]; cbn [fullpred]; try lia.
      assert (Bn : h_b P <? i_now st = true) by (apply Z.ltb_lt; now apply Time). rewrite Bn. cbn [andb].
      destruct (match pub_begin_l (i_hops st) (ev_id e2) with Some b2 => lt_opt b2 (h_d P) | None => true end); lia. }
  assert (Ops : (cntf (i_hops st) (h_b P) (h_d P) outs' hq' <= cntf (i_hops (istep st l)) (h_b P) (h_d P') outs' hq')%nat).
  { apply cntf_mono with (now := i_now st); try assumption.
    - destruct EvP as [EvP|(EvP1 & EvP2 & _)]; [now left | right; auto].
    - intros m Hm. destruct m as [| | |s2 e2 t2]; try exact Logic.I.
      apply (Phi_has_pub _ x). eapply CopyInv_pre; try eassumption. left.
      unfold evs. apply filter_In. split; [|reflexivity]. apply In_flow.
      destruct Hm as [Hm|Hm].
      + left. unfold outs' in Hm. destruct (HInv_step buf st l R HI) as [_ _ _ _ _ _ _ Ho]. destruct (Ho x) as [Ho1 _].
        rewrite Ho1, istep_s in Hm. exact Hm.
      + unfold hq', hand_list in Hm. apply in_app_iff in Hm as [Hm|Hm]; [|auto].
        destruct (c_hand (r_cs (step (i_s st) l) x)); [|contradiction]. destruct Hm as [->|[]]. auto. }
  lia.
Qed.
