(* SerProofs.v — C01: proofs about the models of Ser.v. *)
From Moc Require Import Base Ser.
From Moc.Gen Require Import GenSer.
From Coq Require Import Decimal DecimalString DecimalZ Ascii.
Open Scope Z_scope.

(* ------------------------------------------------------------------ *)
(** * The generated material, characterised once *)

Lemma g_ser_layout_spec :
  g_ser_layout =
  [(0, [91; 48; 44]%N); (11, []); (0, [44]%N); (22, []); (0, [44]%N); (23, []); (0, [44]%N);
   (30, []); (0, [44]%N); (15, []); (0, [93]%N)].
Proof. reflexivity. Qed.

Lemma g_verify_id_reject_spec eq : g_verify_id_reject eq = negb eq.
Proof. reflexivity. Qed.

(* ------------------------------------------------------------------ *)
(** * The escape table: a finite sweep over the 256 bytes *)

Definition all_bytes : list N := List.map N.of_nat (seq 0 256).

Lemma all_bytes_complete b : (b < 256)%N -> In b all_bytes.
Proof.
  intro Hb. unfold all_bytes. apply in_map_iff. exists (N.to_nat b). split.
  - apply N2Nat.id.
  - apply in_seq. lia.
Qed.

Definition str_eq_dec_b (a b : str) : bool := str_eqb a b.

Lemma esc_byte_canonical_sweep :
  forallb (fun b => str_eqb (esc_byte b) (canon_esc b)) all_bytes = true.
Proof. vm_compute. reflexivity. Qed.

Lemma esc_byte_canonical b : (b < 256)%N -> esc_byte b = canon_esc b.
Proof.
  intro Hb. apply str_eqb_eq.
  exact (proj1 (forallb_forall _ _) esc_byte_canonical_sweep b (all_bytes_complete b Hb)).
Qed.

Lemma esc_byte_large b : (256 <= b)%N -> esc_byte b = [b].
Proof.
  intro Hb. unfold esc_byte, g_ser_esc_short, g_ser_esc_is_ctl.
  repeat match goal with |- context [Z.eqb ?x ?y] => destruct (Z.eqb_spec x y); [lia|] end.
  destruct (Z.ltb_spec (Z.of_N b) 32); [lia|]. reflexivity.
Qed.

Lemma canon_esc_verbatim b :
  (32 <= b)%N -> b <> 34%N -> b <> 92%N -> canon_esc b = [b].
Proof.
  intros H1 H2 H3. unfold canon_esc.
  repeat match goal with |- context [N.eqb ?x ?y] => destruct (N.eqb_spec x y); [lia|] end.
  destruct (N.ltb_spec b 32); [lia|]. reflexivity.
Qed.

(** the bound of the sweep is not a restriction: above 255 both sides copy *)
Lemma esc_byte_canonical_all b : esc_byte b = canon_esc b.
Proof.
  destruct (N.lt_ge_cases b 256) as [Hb|Hb].
  - now apply esc_byte_canonical.
  - rewrite esc_byte_large by assumption. symmetry. apply canon_esc_verbatim; lia.
Qed.

Lemma esc_byte_verbatim b :
  (32 <= b)%N -> b <> 34%N -> b <> 92%N -> esc_byte b = [b].
Proof. intros. rewrite esc_byte_canonical_all. now apply canon_esc_verbatim. Qed.

(** all bytes outside the escape set, any length *)
Lemma ser_string_verbatim s :
  bytes_ok s ->
  (forall b, In b s -> (32 <= b)%N /\ b <> 34%N /\ b <> 92%N) ->
  ser_string s = quote s.
Proof.
  intros _ Hs.
  assert (E : flat_map esc_byte s = s).
  { induction s as [|b s IH]; [reflexivity|].
    cbn [flat_map]. destruct (Hs b (or_introl eq_refl)) as [H1 [H2 H3]].
    rewrite esc_byte_verbatim by assumption. simpl. f_equal. apply IH.
    intros b' Hb'. apply Hs. now right. }
  unfold ser_string, quote. rewrite E. reflexivity.
Qed.

(* ------------------------------------------------------------------ *)
(** * serialize_fixed is the canonical form *)

Lemma ser_string_canon s : ser_string s = canon_string s.
Proof.
  unfold ser_string, canon_string. rewrite flat_map_concat_map.
  rewrite (map_ext _ _ esc_byte_canonical_all). reflexivity.
Qed.

Lemma ser_arr_tail_join {A} (f : A -> str) x (l : list A) :
  f x ++ ser_arr_tail f l = join [c_comma] (List.map f (x :: l)) ++ [c_rbrack].
Proof.
  revert x. induction l as [|y l IH]; intro x.
  - reflexivity.
  - change (ser_arr_tail f (y :: l)) with (c_comma :: f y ++ ser_arr_tail f l).
    rewrite IH.
    change (join [c_comma] (List.map f (x :: y :: l)))
      with (f x ++ [c_comma] ++ join [c_comma] (List.map f (y :: l))).
    rewrite <- !app_assoc. reflexivity.
Qed.

Lemma ser_arr_join {A} (f : A -> str) (l : list A) :
  ser_arr f l = canon_array (List.map f l).
Proof.
  unfold ser_arr, canon_array. destruct l as [|x l]; [reflexivity|].
  rewrite ser_arr_tail_join. reflexivity.
Qed.

Lemma ser_tags_canon ts : ser_tags ts = canon_tags ts.
Proof.
  unfold ser_tags, canon_tags. rewrite ser_arr_join. f_equal. apply map_ext. intro t.
  unfold ser_tag. rewrite ser_arr_join. f_equal. apply map_ext. intro s. apply ser_string_canon.
Qed.

Lemma serialize_fixed_unfold e :
  serialize_fixed e =
  [c_lbrack; 48%N; c_comma] ++ ser_string (ev_pk e) ++ [c_comma] ++ ser_int (ev_ts e) ++ [c_comma]
  ++ ser_int (ev_kind e) ++ [c_comma] ++ ser_tags (ev_tags e) ++ [c_comma] ++ ser_string (ev_content e)
  ++ [c_rbrack].
Proof.
  unfold serialize_fixed. rewrite g_ser_layout_spec.
  cbn [flat_map ser_item fst snd]. rewrite app_nil_r. reflexivity.
Qed.

Lemma serialize_canonical e : serialize_fixed e = canonical e.
Proof.
  rewrite serialize_fixed_unfold. unfold canonical, ser_int.
  now rewrite !ser_string_canon, ser_tags_canon.
Qed.

(** the json.Marshal escaper is not canonical *)
Definition ev_lt : event := mkEvent [] [] 0 1 [] [60%N] [].

Lemma serialize_canonical_refuted : exists e, serialize_pinned e <> canonical e.
Proof. exists ev_lt. vm_compute. discriminate. Qed.

(* ------------------------------------------------------------------ *)
(** * Un-escaping one byte: a second sweep over the 256 bytes *)

Definition esc_shape_ok (b : N) : bool :=
  match esc_byte b with
  | [x] => ((x =? b) && negb (x =? 34) && negb (x =? 92))%N
  | [x; c] =>
      ((x =? 92) && negb (c =? 117))%N
      && match unesc_short c with Some v => (v =? b)%N | None => false end
  | [x; u; a1; a2; h1; h2] =>
      ((x =? 92) && (u =? 117) && (a1 =? 48) && (a2 =? 48))%N
      && match lc_hex_val h1, lc_hex_val h2 with
         | Some p, Some q => (16 * p + q =? b)%N
         | _, _ => false
         end
  | _ => false
  end.

Lemma esc_shape_sweep : forallb esc_shape_ok all_bytes = true.
Proof. vm_compute. reflexivity. Qed.

Lemma unesc1_verbatim b r : b <> 34%N -> b <> 92%N -> unesc1 (b :: r) = Some (Some b, r).
Proof.
  intros H1 H2. unfold unesc1.
  destruct (N.eqb_spec b 34); [contradiction|]. destruct (N.eqb_spec b 92); [contradiction|]. reflexivity.
Qed.

Lemma unesc1_esc_byte b r : unesc1 (esc_byte b ++ r) = Some (Some b, r).
Proof.
  destruct (N.lt_ge_cases b 256) as [Hb|Hb].
  - pose proof (proj1 (forallb_forall _ _) esc_shape_sweep b (all_bytes_complete b Hb)) as S.
    unfold esc_shape_ok in S.
    destruct (esc_byte b) as [|x [|c [|a1 [|a2 [|h1 [|h2 [|? ?]]]]]]]; try discriminate S.
    + apply andb_true_iff in S as [S S3]. apply andb_true_iff in S as [S1 S2].
      apply N.eqb_eq in S1. subst x. apply negb_true_iff in S2, S3.
      apply N.eqb_neq in S2, S3. now apply unesc1_verbatim.
    + apply andb_true_iff in S as [S S3]. apply andb_true_iff in S as [S1 S2].
      apply N.eqb_eq in S1. subst x. apply negb_true_iff in S2.
      destruct (unesc_short c) as [v|] eqn:Ev; [|discriminate S3].
      apply N.eqb_eq in S3. subst v.
      change (([92%N; c] ++ r)) with (92%N :: c :: r). unfold unesc1.
      change ((92 =? 34)%N) with false. change ((92 =? 92)%N) with true. cbv iota.
      rewrite S2, Ev. reflexivity.
    + apply andb_true_iff in S as [S S5]. apply andb_true_iff in S as [S S4].
      apply andb_true_iff in S as [S S3]. apply andb_true_iff in S as [S1 S2].
      apply N.eqb_eq in S1, S2, S3, S4. subst x c a1 a2.
      destruct (lc_hex_val h1) as [p|] eqn:E1; [|discriminate S5].
      destruct (lc_hex_val h2) as [q|] eqn:E2; [|discriminate S5].
      apply N.eqb_eq in S5.
      change (([92; 117; 48; 48; h1; h2]%N ++ r)) with (92 :: 117 :: 48 :: 48 :: h1 :: h2 :: r)%N.
      unfold unesc1.
      change ((92 =? 34)%N) with false. change ((92 =? 92)%N) with true.
      change ((117 =? 117)%N) with true. change ((48 =? 48)%N) with true. cbv iota. cbn [andb].
      rewrite E1, E2, S5. reflexivity.
  - rewrite esc_byte_large by assumption. apply unesc1_verbatim; lia.
Qed.

Lemma esc_byte_nonempty b : esc_byte b <> [].
Proof.
  intro E. pose proof (unesc1_esc_byte b []) as U. rewrite E in U. discriminate U.
Qed.

Lemma length_flat_map_esc t : (length t <= length (flat_map esc_byte t))%nat.
Proof.
  induction t as [|b t IH]; [apply le_n|].
  cbn [flat_map]. rewrite app_length. pose proof (esc_byte_nonempty b) as Hn.
  destruct (esc_byte b); [contradiction|]. cbn [length]. lia.
Qed.

(* ------------------------------------------------------------------ *)
(** * Strings *)

Lemma parse_str_body_ser t : forall fuel r,
  (length t < fuel)%nat ->
  parse_str_body fuel (flat_map esc_byte t ++ c_quote :: r) = Some (t, r).
Proof.
  induction t as [|b t IH]; intros fuel r Hf.
  - destruct fuel as [|f]; [inversion Hf|]. reflexivity.
  - destruct fuel as [|f]; [inversion Hf|].
    cbn [flat_map]. rewrite <- app_assoc. cbn [parse_str_body].
    rewrite unesc1_esc_byte. rewrite IH by (cbn [length] in Hf; lia). reflexivity.
Qed.

Lemma ser_string_app t r :
  ser_string t ++ r = c_quote :: flat_map esc_byte t ++ c_quote :: r.
Proof. unfold ser_string. rewrite <- app_comm_cons, <- app_assoc. reflexivity. Qed.

Lemma parse_string_ser t fuel r :
  (length t < fuel)%nat -> parse_string fuel (ser_string t ++ r) = Some (t, r).
Proof.
  intro Hf. rewrite ser_string_app. unfold parse_string, c_quote at 1.
  change ((34 =? 34)%N) with true. cbv iota. now apply parse_str_body_ser.
Qed.

Lemma ser_string_head t : exists s, ser_string t = 34%N :: s.
Proof. unfold ser_string, c_quote. eexists. reflexivity. Qed.

(* ------------------------------------------------------------------ *)
(** * Integers *)

Fixpoint uint_bytes (u : uint) : str :=
  match u with
  | Nil => []
  | D0 u => 48%N :: uint_bytes u
  | D1 u => 49%N :: uint_bytes u
  | D2 u => 50%N :: uint_bytes u
  | D3 u => 51%N :: uint_bytes u
  | D4 u => 52%N :: uint_bytes u
  | D5 u => 53%N :: uint_bytes u
  | D6 u => 54%N :: uint_bytes u
  | D7 u => 55%N :: uint_bytes u
  | D8 u => 56%N :: uint_bytes u
  | D9 u => 57%N :: uint_bytes u
  end.

Lemma str_of_string_uint u : str_of_string (NilEmpty.string_of_uint u) = uint_bytes u.
Proof.
  unfold str_of_string.
  induction u; cbn [NilEmpty.string_of_uint String.list_ascii_of_string List.map uint_bytes];
    try reflexivity; f_equal; assumption.
Qed.

Definition no_digit_head (r : str) : Prop := forall c r', r = c :: r' -> digit_of c = None.

Lemma parse_uint_cons c d s :
  digit_of c = Some d -> parse_uint (c :: s) = (d (fst (parse_uint s)), snd (parse_uint s)).
Proof. intro E. cbn [parse_uint]. rewrite E. reflexivity. Qed.

Lemma parse_uint_bytes u r : no_digit_head r -> parse_uint (uint_bytes u ++ r) = (u, r).
Proof.
  intro Hr. induction u; cbn [uint_bytes];
    try (rewrite <- app_comm_cons; erewrite parse_uint_cons by reflexivity; rewrite IHu; reflexivity).
  destruct r as [|c r']; [reflexivity|].
  change ([] ++ c :: r') with (c :: r'). cbn [parse_uint]. rewrite (Hr c r' eq_refl). reflexivity.
Qed.

(** the digits written for a [uint]: [Nil] is written 0 *)
Definition nz (u : uint) : uint := match u with Nil => D0 Nil | _ => u end.

Lemma nz_not_nil u : nz u <> Nil.
Proof. destruct u; discriminate. Qed.

Lemma nz_value u : Z.of_uint (nz u) = Z.of_uint u.
Proof. destruct u; reflexivity. Qed.

Lemma str_of_string_nilzero u : str_of_string (NilZero.string_of_uint u) = uint_bytes (nz u).
Proof. destruct u; try apply str_of_string_uint. reflexivity. Qed.

Lemma uint_bytes_head u : u <> Nil -> exists c s, uint_bytes u = c :: s /\ c <> 45%N.
Proof.
  destruct u; intro Hn; try contradiction; cbn [uint_bytes]; eexists; eexists; (split; [reflexivity|discriminate]).
Qed.

Lemma showZ_shape z :
  exists u, u <> Nil /\
    ((showZ z = uint_bytes u /\ Z.of_int (Pos u) = z) \/
     (showZ z = 45%N :: uint_bytes u /\ Z.of_int (Neg u) = z)).
Proof.
  unfold showZ. pose proof (DecimalZ.of_to z) as OT.
  destruct (Z.to_int z) as [u|u] eqn:E.
  - exists (nz u). split; [apply nz_not_nil|]. left. split.
    + cbn [NilZero.string_of_int]. apply str_of_string_nilzero.
    + cbn [Z.of_int] in *. now rewrite nz_value.
  - exists (nz u). split; [apply nz_not_nil|]. right. split.
    + cbn [NilZero.string_of_int]. unfold str_of_string.
      cbn [String.list_ascii_of_string List.map]. f_equal. apply str_of_string_nilzero.
    + cbn [Z.of_int] in *. now rewrite nz_value.
Qed.

Lemma parse_int_pos s :
  (exists c s', s = c :: s' /\ c <> 45%N) ->
  parse_int s = match fst (parse_uint s) with
                | Nil => None
                | u => Some (Z.of_int (Pos u), snd (parse_uint s))
                end.
Proof.
  intros [c [s' [-> Hc]]]. unfold parse_int. destruct (N.eqb_spec c 45); [contradiction|]. reflexivity.
Qed.

Lemma parse_int_neg s :
  parse_int (45%N :: s) = match fst (parse_uint s) with
                          | Nil => None
                          | u => Some (Z.of_int (Neg u), snd (parse_uint s))
                          end.
Proof. reflexivity. Qed.

Lemma parse_int_showZ z r : no_digit_head r -> parse_int (showZ z ++ r) = Some (z, r).
Proof.
  intro Hr. destruct (showZ_shape z) as [u [Hn [[E V]|[E V]]]]; rewrite E.
  - rewrite parse_int_pos.
    + rewrite parse_uint_bytes by assumption. cbn [fst snd].
      destruct u; try contradiction; rewrite <- V; reflexivity.
    + destruct (uint_bytes_head u Hn) as [c [s [Ec Hc]]].
      exists c, (s ++ r). rewrite Ec. split; [reflexivity|assumption].
  - rewrite <- app_comm_cons, parse_int_neg.
    rewrite parse_uint_bytes by assumption. cbn [fst snd].
    destruct u; try contradiction; rewrite <- V; reflexivity.
Qed.

Lemma no_digit_head_comma r : no_digit_head (c_comma :: r).
Proof. intros c r' E. inversion E; subst. reflexivity. Qed.

(* ------------------------------------------------------------------ *)
(** * Arrays *)

Section ArrProof.
  Context {A : Type} (f : A -> str) (p : str -> option (A * str)) (P : A -> Prop).
  Hypothesis Hp : forall x r, P x -> p (f x ++ r) = Some (x, r).
  Hypothesis Hhd : forall x, exists c s, f x = c :: s /\ c <> 93%N.

  Lemma parse_arr_tail_ser l : forall fuel r,
    Forall P l -> (length l < fuel)%nat ->
    parse_arr_tail p fuel (ser_arr_tail f l ++ r) = Some (l, r).
  Proof.
    induction l as [|x l IH]; intros fuel r HP Hf.
    - destruct fuel as [|k]; [inversion Hf|]. reflexivity.
    - destruct fuel as [|k]; [inversion Hf|].
      inversion HP as [|? ? Px Pl]; subst.
      cbn [ser_arr_tail]. rewrite <- app_comm_cons. cbn [parse_arr_tail].
      unfold c_comma at 1. change ((44 =? 93)%N) with false. change ((44 =? 44)%N) with true. cbv iota.
      rewrite <- app_assoc. rewrite Hp by assumption.
      rewrite IH by (try assumption; cbn [length] in Hf; lia). reflexivity.
  Qed.

  Lemma parse_arr_nonempty fuel r :
    (exists c s, r = c :: s /\ c <> 93%N) ->
    parse_arr p fuel (91%N :: r) =
    match p r with
    | Some (x, r1) =>
        match parse_arr_tail p fuel r1 with
        | Some (l, r2) => Some (x :: l, r2)
        | None => None
        end
    | None => None
    end.
  Proof.
    intros [c [s [-> Hc]]]. unfold parse_arr. change ((91 =? 91)%N) with true. cbv iota.
    destruct (N.eqb_spec c 93); [contradiction|]. reflexivity.
  Qed.

  Lemma parse_arr_ser l fuel r :
    Forall P l -> (length l < fuel)%nat ->
    parse_arr p fuel (ser_arr f l ++ r) = Some (l, r).
  Proof.
    intros HP Hf. unfold ser_arr. rewrite <- app_comm_cons. unfold c_lbrack.
    destruct l as [|x l].
    - reflexivity.
    - inversion HP as [|? ? Px Pl]; subst.
      rewrite parse_arr_nonempty.
      + rewrite <- app_assoc. rewrite Hp by assumption.
        rewrite parse_arr_tail_ser by (try assumption; cbn [length] in Hf; lia). reflexivity.
      + destruct (Hhd x) as [c [s [E Hc]]]. exists c, (s ++ ser_arr_tail f l ++ r).
        rewrite <- app_assoc, E. split; [reflexivity|assumption].
  Qed.
End ArrProof.

Lemma ser_arr_head {A} (f : A -> str) l : exists s, ser_arr f l = 91%N :: s.
Proof. unfold ser_arr, c_lbrack. eexists. reflexivity. Qed.

(** strings short enough for the fuel *)
Definition fits (fuel : nat) (t : str) : Prop := (length t < fuel)%nat.
Definition tag_fits (fuel : nat) (t : tag) : Prop := Forall (fits fuel) t /\ (length t < fuel)%nat.

Lemma parse_tag_ser fuel t r :
  tag_fits fuel t -> parse_arr (parse_string fuel) fuel (ser_tag t ++ r) = Some (t, r).
Proof.
  intros [Hs Hl]. unfold ser_tag.
  apply (parse_arr_ser ser_string (parse_string fuel) (fits fuel)); try assumption.
  - intros x r' Hx. now apply parse_string_ser.
  - intro x. destruct (ser_string_head x) as [s E]. exists 34%N, s. split; [assumption|discriminate].
Qed.

Lemma parse_tags_ser fuel ts r :
  Forall (tag_fits fuel) ts -> (length ts < fuel)%nat ->
  parse_arr (parse_arr (parse_string fuel) fuel) fuel (ser_tags ts ++ r) = Some (ts, r).
Proof.
  intros Hs Hl. unfold ser_tags.
  apply (parse_arr_ser ser_tag (parse_arr (parse_string fuel) fuel) (tag_fits fuel)); try assumption.
  - intros x r' Hx. now apply parse_tag_ser.
  - intro x. unfold ser_tag. destruct (ser_arr_head ser_string x) as [s E].
    exists 91%N, s. split; [assumption|discriminate].
Qed.

(* ------------------------------------------------------------------ *)
(** * Lengths: the fuel [S (length (serialize_fixed e))] is enough *)

Lemma length_ser_string t : (length t < length (ser_string t))%nat.
Proof.
  unfold ser_string. cbn [length]. rewrite app_length. pose proof (length_flat_map_esc t). cbn [length]. lia.
Qed.

Lemma length_ser_arr_tail {A} (f : A -> str) l :
  (length l < length (ser_arr_tail f l))%nat /\
  forall x, In x l -> (length (f x) < length (ser_arr_tail f l))%nat.
Proof.
  induction l as [|y l [IH1 IH2]]; cbn [ser_arr_tail length].
  - split; [lia|]. intros x [].
  - rewrite app_length. split; [lia|]. intros x [->|Hx]; [lia|]. specialize (IH2 x Hx). lia.
Qed.

Lemma length_ser_arr {A} (f : A -> str) l :
  (length l < length (ser_arr f l))%nat /\
  forall x, In x l -> (length (f x) < length (ser_arr f l))%nat.
Proof.
  unfold ser_arr. destruct l as [|y l]; cbn [length].
  - split; [lia|]. intros x [].
  - rewrite app_length. destruct (length_ser_arr_tail f l) as [H1 H2].
    split; [lia|]. intros x [->|Hx]; [lia|]. specialize (H2 x Hx). lia.
Qed.

Lemma tags_fit ts fuel :
  (length (ser_tags ts) < fuel)%nat -> Forall (tag_fits fuel) ts /\ (length ts < fuel)%nat.
Proof.
  intro Hf. unfold ser_tags in Hf. destruct (length_ser_arr ser_tag ts) as [H1 H2].
  split; [|lia]. apply Forall_forall. intros t Ht. specialize (H2 t Ht).
  destruct (length_ser_arr ser_string t) as [H3 H4].
  change (ser_arr ser_string t) with (ser_tag t) in H3, H4.
  split; [|lia]. apply Forall_forall. intros s Hs. specialize (H4 s Hs).
  pose proof (length_ser_string s). unfold fits. lia.
Qed.

(* ------------------------------------------------------------------ *)
(** * The 6-tuple *)

Lemma expect_cons c s : expect c (c :: s) = Some s.
Proof. unfold expect. now rewrite N.eqb_refl. Qed.

Lemma app3_cons (a b c : N) (x : str) : [a; b; c] ++ x = a :: b :: c :: x.
Proof. reflexivity. Qed.
Lemma app1_cons (a : N) (x : str) : [a] ++ x = a :: x.
Proof. reflexivity. Qed.

Lemma parse_ser_serialize e : parse_ser (serialize_fixed e) = Some (signed_fields e).
Proof.
  unfold parse_ser. set (fuel := S (length (serialize_fixed e))).
  assert (Hfuel : (length (serialize_fixed e) < fuel)%nat) by (unfold fuel; lia).
  clearbody fuel. rewrite serialize_fixed_unfold in *.
  repeat rewrite app_length in Hfuel. cbn [length] in Hfuel.
  destruct (tags_fit (ev_tags e) fuel) as [HT HL]; [lia|].
  pose proof (length_ser_string (ev_pk e)) as Lpk.
  pose proof (length_ser_string (ev_content e)) as Lct.
  unfold parse_ser_fuel, ser_int. rewrite app3_cons, !app1_cons.
  rewrite !expect_cons. cbv beta iota.
  rewrite parse_string_ser by lia. cbv beta iota.
  rewrite expect_cons. cbv beta iota.
  rewrite parse_int_showZ by apply no_digit_head_comma. cbv beta iota.
  rewrite expect_cons. cbv beta iota.
  rewrite parse_int_showZ by apply no_digit_head_comma. cbv beta iota.
  rewrite expect_cons. cbv beta iota.
  rewrite parse_tags_ser by assumption. cbv beta iota.
  rewrite expect_cons. cbv beta iota.
  rewrite parse_string_ser by lia. cbv beta iota.
  unfold c_rbrack. change ((93 =? 93)%N) with true. reflexivity.
Qed.

Lemma serialize_injective e1 e2 :
  bytes_ok_event e1 -> bytes_ok_event e2 ->
  serialize_fixed e1 = serialize_fixed e2 -> signed_fields e1 = signed_fields e2.
Proof.
  intros _ _ E. pose proof (parse_ser_serialize e1) as P1. pose proof (parse_ser_serialize e2) as P2.
  rewrite E in P1. congruence.
Qed.

(* ------------------------------------------------------------------ *)
(** * Hexadecimal text *)

Lemma hex_val_digit c v : hex_val c = Some v <-> hex_digit c v.
Proof.
  unfold hex_val. split.
  - destruct ((48 <=? c) && (c <=? 57))%N eqn:E1.
    { intro E; inversion E; subst. apply andb_true_iff in E1 as [A B].
      apply N.leb_le in A, B. now constructor. }
    destruct ((97 <=? c) && (c <=? 102))%N eqn:E2.
    { intro E; inversion E; subst. apply andb_true_iff in E2 as [A B].
      apply N.leb_le in A, B. now constructor. }
    destruct ((65 <=? c) && (c <=? 70))%N eqn:E3; [|discriminate].
    intro E; inversion E; subst. apply andb_true_iff in E3 as [A B].
    apply N.leb_le in A, B. now constructor.
  - intro Hd. inversion Hd as [c0 [A B]|c0 [A B]|c0 [A B]]; subst.
    + apply N.leb_le in A, B. now rewrite A, B.
    + destruct ((48 <=? c) && (c <=? 57))%N eqn:E1.
      { apply andb_true_iff in E1 as [_ X]. apply N.leb_le in X. lia. }
      apply N.leb_le in A, B. now rewrite A, B.
    + destruct ((48 <=? c) && (c <=? 57))%N eqn:E1.
      { apply andb_true_iff in E1 as [_ X]. apply N.leb_le in X. lia. }
      destruct ((97 <=? c) && (c <=? 102))%N eqn:E2.
      { apply andb_true_iff in E2 as [X _]. apply N.leb_le in X. lia. }
      apply N.leb_le in A, B. now rewrite A, B.
Qed.

Lemma hex_denotes_decode s bs : hex_denotes s bs -> hex_decode s = Some bs.
Proof.
  induction 1 as [|c1 c2 v1 v2 s bs H1 H2 _ IH]; [reflexivity|].
  cbn [hex_decode]. apply hex_val_digit in H1, H2. now rewrite H1, H2, IH.
Qed.

Lemma hex_decode_denotes_len n : forall s bs,
  (length s <= n)%nat -> hex_decode s = Some bs -> hex_denotes s bs.
Proof.
  induction n as [|n IH]; intros s bs Hl E.
  - destruct s; [|cbn [length] in Hl; lia]. inversion E. constructor.
  - destruct s as [|a [|b r]].
    + inversion E. constructor.
    + discriminate E.
    + cbn [hex_decode] in E.
      destruct (hex_val a) as [x|] eqn:Ea; [|discriminate].
      destruct (hex_val b) as [y|] eqn:Eb; [|discriminate].
      destruct (hex_decode r) as [t|] eqn:Er; [|discriminate].
      inversion E; subst. constructor; try now apply hex_val_digit.
      apply IH; [cbn [length] in Hl; lia|assumption].
Qed.

Lemma hex_decode_denotes s bs : hex_decode s = Some bs <-> hex_denotes s bs.
Proof.
  split; [apply (hex_decode_denotes_len (length s)); apply le_n | apply hex_denotes_decode].
Qed.

(** the text denotes at most one byte string *)
Lemma hex_denotes_functional s a b : hex_denotes s a -> hex_denotes s b -> a = b.
Proof. intros Ha Hb. apply hex_denotes_decode in Ha, Hb. congruence. Qed.

(* ------------------------------------------------------------------ *)
(** * Verify *)

Definition id_bytes (e : event) : option str := hex_decode (ev_id e).

Section VerifyProofs.
  Variable H : str -> str.
  Variable PK : str -> bool.
  Variable SG : str -> bool.
  Variable V : str -> str -> str -> bool.

  Notation verify := (verify H PK SG V).
  Notation authentic_spec := (authentic_spec H PK SG V).

  (** the decision structure of Verify, all at once *)
  Lemma verify_true_iff e :
    verify e = VOk true <->
    exists idb pkb sgb,
      hex_decode (ev_id e) = Some idb /\ idb = H (serialize_fixed e) /\
      hex_decode (ev_pk e) = Some pkb /\ PK pkb = true /\
      hex_decode (ev_sig e) = Some sgb /\ SG sgb = true /\ V pkb idb sgb = true.
  Proof.
    unfold Ser.verify, verify_with. split.
    - destruct (hex_decode (ev_id e)) as [idb|]; [|discriminate].
      rewrite g_verify_id_reject_spec.
      destruct (str_eqb idb (H (serialize_fixed e))) eqn:Eid; cbn [negb]; [|discriminate].
      apply str_eqb_eq in Eid.
      destruct (hex_decode (ev_pk e)) as [pkb|]; [|discriminate].
      destruct (PK pkb) eqn:Epk; cbn [negb]; [|discriminate].
      destruct (hex_decode (ev_sig e)) as [sgb|]; [|discriminate].
      destruct (SG sgb) eqn:Esg; cbn [negb]; [|discriminate].
      intro E. inversion E as [Ev]. exists idb, pkb, sgb. rewrite Ev. repeat split; assumption.
    - intros [idb [pkb [sgb [E1 [E2 [E3 [E4 [E5 [E6 E7]]]]]]]]].
      rewrite E1, g_verify_id_reject_spec, <- E2, str_eqb_refl. cbn [negb]. rewrite E3, E4. cbn [negb].
      rewrite E5, E6. cbn [negb]. now rewrite E7.
  Qed.

  Lemma authentic_iff e : verify e = VOk true <-> authentic_spec e.
  Proof.
    rewrite verify_true_iff. unfold Ser.authentic_spec, bip340. rewrite serialize_canonical. split.
    - intros [idb [pkb [sgb [E1 [E2 [E3 [E4 [E5 [E6 E7]]]]]]]]]. subst idb.
      exists pkb, sgb. repeat split; try (now apply hex_decode_denotes).
      now rewrite E4, E6, E7.
    - intros [pkb [sgb [D1 [D2 [D3 B]]]]].
      apply andb_true_iff in B as [B B3]. apply andb_true_iff in B as [B1 B2].
      exists (H (canonical e)), pkb, sgb. repeat split; try (now apply hex_decode_denotes); assumption.
  Qed.

  Lemma verify_true_id e :
    verify e = VOk true -> id_bytes e = Some (H (serialize_fixed e)).
  Proof.
    intro Hv. apply verify_true_iff in Hv as [idb [pkb [sgb [E1 [E2 _]]]]]. unfold id_bytes. now rewrite E1, E2.
  Qed.

  Lemma serialize_fixed_signed_fields e e' :
    signed_fields e' = signed_fields e -> serialize_fixed e' = serialize_fixed e.
  Proof.
    unfold signed_fields. intro E. inversion E as [[E1 E2 E3 E4 E5]].
    rewrite !serialize_fixed_unfold. now rewrite E1, E2, E3, E4, E5.
  Qed.

  (** an accepted alteration of a signed field under the same id exhibits a
      collision of [H] *)
  Lemma tamper_signed_field e e' :
    bytes_ok_event e -> bytes_ok_event e' ->
    verify e = VOk true -> verify e' = VOk true ->
    id_bytes e' = id_bytes e -> signed_fields e' <> signed_fields e ->
    serialize_fixed e <> serialize_fixed e' /\ H (serialize_fixed e) = H (serialize_fixed e').
  Proof.
    intros B B' Hv Hv' Hid Hsf. split.
    - intro E. apply Hsf. symmetry. now apply serialize_injective.
    - apply verify_true_id in Hv, Hv'. rewrite Hv, Hv' in Hid. now inversion Hid.
  Qed.

  (** changing the id bytes of an authentic event makes it not authentic *)
  Lemma tamper_id e e' :
    verify e = VOk true -> signed_fields e' = signed_fields e ->
    id_bytes e' <> id_bytes e -> verify e' <> VOk true.
  Proof.
    intros Hv Hsf Hid Hv'. apply Hid.
    apply verify_true_id in Hv, Hv'. rewrite Hv, Hv'.
    now rewrite (serialize_fixed_signed_fields e e' Hsf).
  Qed.

  (** which answers are errors: exactly malformed hexadecimal text, or (once
      the id has matched) a pubkey or signature that does not parse *)
  Lemma verify_error_iff e :
    verify e = VErr <->
    id_bytes e = None \/
    (id_bytes e = Some (H (serialize_fixed e)) /\
     match hex_decode (ev_pk e) with
     | None => True
     | Some pkb => PK pkb = false \/
         match hex_decode (ev_sig e) with
         | None => True
         | Some sgb => SG sgb = false
         end
     end).
  Proof.
    unfold Ser.verify, verify_with, id_bytes.
    destruct (hex_decode (ev_id e)) as [idb|]; [|split; [now left|reflexivity]].
    rewrite g_verify_id_reject_spec.
    destruct (str_eqb idb (H (serialize_fixed e))) eqn:Eid; cbn [negb].
    - apply str_eqb_eq in Eid. subst idb.
      destruct (hex_decode (ev_pk e)) as [pkb|]; [|split; [intros _; right; split; [reflexivity|exact I]|reflexivity]].
      destruct (PK pkb) eqn:Epk; cbn [negb].
      + destruct (hex_decode (ev_sig e)) as [sgb|].
        * destruct (SG sgb) eqn:Esg; cbn [negb].
          -- split; [discriminate|]. intros [X|[_ [X|X]]]; discriminate.
          -- split; [intros _; right; split; [reflexivity|now right]|reflexivity].
        * split; [intros _; right; split; [reflexivity|now right]|reflexivity].
      + split; [intros _; right; split; [reflexivity|now left]|reflexivity].
    - apply str_eqb_neq in Eid. split; [discriminate|].
      intros [X|[X _]]; [discriminate|]. inversion X. contradiction.
  Qed.
End VerifyProofs.

(** the hypotheses of the tamper theorems are satisfiable: with a constant
    "hash" and an always-accepting "signature check" two different events are
    both accepted under one id, and the collision is the one exhibited *)
Definition ex_H (_ : str) : str := [171%N].
Definition ex_e1 : event := mkEvent [97; 98]%N [48; 49]%N 5 1 [[[101%N]; [60; 10]%N]] [104; 105]%N [50; 51]%N.
Definition ex_e2 : event := mkEvent [65; 66]%N [48; 49]%N 5 1 [[[101%N]; [60; 10]%N]] [104; 111]%N [50; 51]%N.

Example tamper_hypotheses_satisfiable :
  verify ex_H (fun _ => true) (fun _ => true) (fun _ _ _ => true) ex_e1 = VOk true /\
  verify ex_H (fun _ => true) (fun _ => true) (fun _ _ _ => true) ex_e2 = VOk true /\
  id_bytes ex_e2 = id_bytes ex_e1 /\ signed_fields ex_e2 <> signed_fields ex_e1 /\
  bytes_ok_event ex_e1 /\ bytes_ok_event ex_e2.
Proof.
  repeat split; try (vm_compute; reflexivity); try (vm_compute; discriminate);
    unfold bytes_ok; repeat constructor.
Qed.

(* ------------------------------------------------------------------ *)
(** * The boolean oracle of the correspondence check is the specification *)

Lemma hex_digit_lt c v : hex_digit c v -> (v < 16)%N.
Proof. intro Hd. inversion Hd; subst; lia. Qed.

Lemma digit_isb_digit c d : (d < 16)%N -> (digit_isb c d = true <-> hex_digit c d).
Proof.
  intro Hd. unfold digit_isb, lc_hex, uc_hex. rewrite orb_true_iff, !N.eqb_eq. split.
  - destruct (N.ltb_spec d 10) as [L|L]; intros [E|E]; subst c.
    + replace d with (48 + d - 48)%N at 2 by lia. constructor. lia.
    + replace d with (48 + d - 48)%N at 2 by lia. constructor. lia.
    + replace d with (87 + d - 87)%N at 2 by lia. constructor. lia.
    + replace d with (55 + d - 55)%N at 2 by lia. constructor. lia.
  - intro Hx. inversion Hx as [c0 A|c0 A|c0 A]; subst.
    + destruct (N.ltb_spec (c - 48) 10); [left; lia|lia].
    + destruct (N.ltb_spec (c - 87) 10); [lia|left; lia].
    + destruct (N.ltb_spec (c - 55) 10); [lia|right; lia].
Qed.

Lemma split_byte v1 v2 :
  (v1 < 16)%N -> (v2 < 16)%N ->
  ((16 * v1 + v2) / 16 = v1 /\ (16 * v1 + v2) mod 16 = v2 /\ 16 * v1 + v2 < 256)%N.
Proof.
  intros A B. repeat split; [| |lia].
  - symmetry. apply (N.div_unique _ 16 v1 v2); [assumption|reflexivity].
  - symmetry. apply (N.mod_unique _ 16 v1 v2); [assumption|reflexivity].
Qed.

Lemma hex_denotesb_denotes s bs : hex_denotesb s bs = true <-> hex_denotes s bs.
Proof.
  split.
  - revert s. induction bs as [|v bs IH]; intros s Hb.
    + destruct s; [constructor|discriminate].
    + destruct s as [|c1 [|c2 s]]; try discriminate.
      cbn [hex_denotesb] in Hb.
      apply andb_true_iff in Hb as [Hb H4]. apply andb_true_iff in Hb as [Hb H3].
      apply andb_true_iff in Hb as [H1 H2]. apply N.ltb_lt in H1.
      assert (D1 : (v / 16 < 16)%N) by (apply N.div_lt_upper_bound; lia).
      assert (D2 : (v mod 16 < 16)%N) by (apply N.mod_lt; lia).
      apply digit_isb_digit in H2, H3; try assumption.
      rewrite (N.div_mod v 16) at 1 by lia. constructor; auto.
  - induction 1 as [|c1 c2 v1 v2 s bs H1 H2 _ IH]; [reflexivity|].
    cbn [hex_denotesb]. pose proof (hex_digit_lt _ _ H1) as L1. pose proof (hex_digit_lt _ _ H2) as L2.
    destruct (split_byte v1 v2 L1 L2) as [Q [R B]]. rewrite Q, R, IH.
    apply N.ltb_lt in B. rewrite B.
    apply (digit_isb_digit c1 v1 L1) in H1. apply (digit_isb_digit c2 v2 L2) in H2. now rewrite H1, H2.
Qed.

Section OracleProofs.
  Variable H : str -> str.
  Variable PK : str -> bool.
  Variable SG : str -> bool.
  Variable V : str -> str -> str -> bool.

  Lemma authentic_specb_spec e :
    authentic_spec H PK SG V e <-> exists pkb sgb, authentic_specb H PK SG V e pkb sgb = true.
  Proof.
    unfold authentic_spec, authentic_specb. split.
    - intros [pkb [sgb [D1 [D2 [D3 B]]]]]. exists pkb, sgb.
      apply hex_denotesb_denotes in D1, D2, D3. now rewrite D1, D2, D3, B.
    - intros [pkb [sgb E]]. exists pkb, sgb.
      apply andb_true_iff in E as [E B]. apply andb_true_iff in E as [E D3].
      apply andb_true_iff in E as [D1 D2].
      apply hex_denotesb_denotes in D1, D2, D3. auto.
  Qed.

  (** the candidate decodings are forced: with any other candidates the
      boolean form is false, so the oracle may be handed the harness's *)
  Lemma authentic_specb_unique e pkb sgb pkb' sgb' :
    authentic_specb H PK SG V e pkb sgb = true ->
    hex_denotes (ev_pk e) pkb' -> hex_denotes (ev_sig e) sgb' ->
    pkb' = pkb /\ sgb' = sgb.
  Proof.
    unfold authentic_specb. intros E D2' D3'.
    apply andb_true_iff in E as [E B]. apply andb_true_iff in E as [E D3].
    apply andb_true_iff in E as [D1 D2]. apply hex_denotesb_denotes in D2, D3.
    split; eapply hex_denotes_functional; eassumption.
  Qed.
End OracleProofs.
