(* Json.v — the generic JSON value that Go's encoding/json hands to the
   repository's decoders, and the outcome type of the codec model.
   Definitions only (no proofs): C10/C11 correspondence files import this.

   The text <-> value layer (tokenising, string unescaping, UTF-8 coercion,
   white space, maximum nesting depth) is Go's encoding/json and is trusted;
   this AST is what that layer produces:

   - a number keeps exactly what strconv.ParseInt / ParseUint look at in a
     literal that is already a valid JSON number: whether it is an integer
     literal (no fraction, no exponent), its sign character and its magnitude
     (unbounded).  "-0" is [NInt true 0].
   - an object keeps its members in source order, duplicates included; Go's
     map[string]any semantics (last duplicate wins, len counts distinct keys)
     are the functions [obj_norm], [obj_get], [obj_len] below.  Decoding into
     a struct (the COUNT payload) walks the members in order instead. *)
From Moc Require Import Base.
Open Scope Z_scope.

Inductive jnum :=
| NInt (neg : bool) (mag : N)   (* integer literal: '-' present?, magnitude *)
| NFrac.                        (* any literal with a fraction or an exponent *)

Inductive jv :=
| JNull
| JBool (b : bool)
| JNum (n : jnum)
| JStr (s : str)
| JArr (l : list jv)
| JObj (m : list (str * jv)).

Definition int64_min : Z := -9223372036854775808.
Definition int64_max : Z := 9223372036854775807.
Definition uint64_max : N := 18446744073709551615%N.

Definition int64_ok (z : Z) : Prop := int64_min <= z <= int64_max.
Definition int64_okb (z : Z) : bool := (int64_min <=? z) && (z <=? int64_max).
Definition uint64_ok (n : N) : Prop := (n <= uint64_max)%N.
Definition uint64_okb (n : N) : bool := (n <=? uint64_max)%N.

(** json.Number.Int64 = strconv.ParseInt(literal, 10, 64) on a valid literal *)
Definition int64_of (n : jnum) : option Z :=
  match n with
  | NInt false m => let z := Z.of_N m in if z <=? int64_max then Some z else None
  | NInt true m => let z := - Z.of_N m in if int64_min <=? z then Some z else None
  | NFrac => None
  end.

(** decoding into a uint64 struct field = strconv.ParseUint(literal, 10, 64):
    a sign character is refused, even in "-0" *)
Definition uint64_of (n : jnum) : option N :=
  match n with
  | NInt false m => if (m <=? uint64_max)%N then Some m else None
  | _ => None
  end.

Definition num_of_Z (z : Z) : jnum := NInt (z <? 0) (Z.abs_N z).
Definition num_of_N (n : N) : jnum := NInt false n.
Definition JInt (z : Z) : jv := JNum (num_of_Z z).

(* ------------------------------------------------------------------ *)
(** * Objects as Go maps *)

Definition has_key {B} (k : str) (m : list (str * B)) : bool :=
  existsb (fun kv => str_eqb k (fst kv)) m.

(** keep, for every key, its last occurrence (at the position of that
    occurrence): the content of the map[string]any built by the decoder *)
Fixpoint obj_norm {B} (m : list (str * B)) : list (str * B) :=
  match m with
  | [] => []
  | (k, v) :: m' => if has_key k m' then obj_norm m' else (k, v) :: obj_norm m'
  end.

Definition obj_get {B} (k : str) (m : list (str * B)) : option B := assoc k (obj_norm m).
Definition obj_len {B} (m : list (str * B)) : Z := Z.of_nat (length (obj_norm m)).

(* ------------------------------------------------------------------ *)
(** * Outcomes: a value, an error return, or a Go run-time panic *)

Inductive res (A : Type) :=
| Val (a : A)
| Err
| Panic.
Arguments Val {A} a.
Arguments Err {A}.
Arguments Panic {A}.

Definition rbind {A B} (r : res A) (f : A -> res B) : res B :=
  match r with
  | Val a => f a
  | Err => Err
  | Panic => Panic
  end.

Notation "x <- r ;; k" := (rbind r (fun x => k)) (at level 61, r at next level, right associativity).

Definition rmap {A B} (f : A -> B) (r : res A) : res B := rbind r (fun a => Val (f a)).

Fixpoint rmapM {A B} (f : A -> res B) (l : list A) : res (list B) :=
  match l with
  | [] => Val []
  | x :: l' => y <- f x ;; ys <- rmapM f l' ;; Val (y :: ys)
  end.

(** slice indexing [l[i]]: out of range is a run-time panic *)
Definition idx {A} (i : nat) (l : list A) : res A :=
  match nth_error l i with
  | Some x => Val x
  | None => Panic
  end.

Definition zlen {A} (l : list A) : Z := Z.of_nat (length l).

Definition is_val {A} (r : res A) : bool := match r with Val _ => true | _ => false end.
Definition is_panic {A} (r : res A) : bool := match r with Panic => true | _ => false end.

(* ------------------------------------------------------------------ *)
(** * Equality of JSON values, objects compared as maps (for comparing an
      encoder's output, whose member order Go fixes by sorting) *)

Definition jnum_eqb (a b : jnum) : bool :=
  match a, b with
  | NInt s m, NInt s' m' => Bool.eqb s s' && N.eqb m m'
  | NFrac, NFrac => true
  | _, _ => false
  end.

Fixpoint jv_eqv (a b : jv) {struct a} : bool :=
  match a, b with
  | JNull, JNull => true
  | JBool x, JBool y => Bool.eqb x y
  | JNum x, JNum y => jnum_eqb x y
  | JStr x, JStr y => str_eqb x y
  | JArr la, JArr lb =>
      (fix go (la lb : list jv) {struct la} : bool :=
         match la, lb with
         | [], [] => true
         | x :: la', y :: lb' => jv_eqv x y && go la' lb'
         | _, _ => false
         end) la lb
  | JObj ma, JObj mb =>
      Nat.eqb (length (obj_norm ma)) (length (obj_norm mb)) &&
      (fix go (ma' : list (str * jv)) {struct ma'} : bool :=
         match ma' with
         | [] => true
         | (k, v) :: ma'' =>
             (if has_key k ma'' then true   (* shadowed by a later duplicate *)
              else match obj_get k mb with
                   | Some v' => jv_eqv v v'
                   | None => false
                   end) && go ma''
         end) ma
  | _, _ => false
  end.
