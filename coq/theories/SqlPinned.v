(* SqlPinned.v — C06 on the PINNED tree: the two places where the store
   departs from the specification (F6: a deletion request's ["e"/"a", v, ...]
   tag counts only if it has exactly two elements; F7: `limit: 0` is turned by
   goqu's Limit(0) into "no limit") are refuted by concrete witnesses, and the
   theorem is proved with exactly these two cases excluded.
   After the repairs this file is replaced by SqlProofsFixed.v (coq/fixed). *)
From Moc Require Import SqlProofs.
From Moc.Gen Require Import GenMsg GenSql.
Open Scope Z_scope.

(** every e / a tag of a deletion request has exactly two elements *)
Definition k5_tags_two (es : list event) : Prop :=
  forall d n v rest, In d es -> ev_kind d = 5 -> In (n :: v :: rest) (ev_tags d) ->
    n = s_e \/ n = s_a -> rest = [].

Lemma k5_counted_of_two es : k5_tags_two es -> k5_counted es.
Proof.
  intros H d n v rest Hd K Ht. split; intro N; rewrite (H d n v rest Hd K Ht) by auto; reflexivity.
Qed.

(** on the pinned tree the generated LIMIT agrees with the specification
    except for `limit: 0` *)
Lemma limits_agree_pinned fs maxLimit :
  Forall (fun f => gate_valid_filter f = true) fs -> 0 < maxLimit <= NoLimit ->
  (forall f, In f fs -> f_limit f <> Some 0) -> limits_agree fs maxLimit.
Proof.
  intros Gf Hml Nz f Hf. rewrite Forall_forall in Gf.
  destruct (gate_valid_filter_facts f (Gf f Hf)) as [_ [_ [_ Hl]]]. specialize (Nz f Hf).
  split; [|apply goqu_limit_nonneg].
  unfold sub_limit_of, goqu_limit_of, eff_limit, spec_limit. rewrite g_sql_limit_present_spec, g_sql_has_limit_spec.
  destruct (f_limit f) as [l|]; simpl.
  - specialize (Hl l eq_refl). assert (l <> 0) by congruence.
    assert (U : to_uint l = l). { unfold to_uint, two64, two63 in *. apply Z.mod_small. lia. }
    rewrite U. unfold NoLimit, two63 in *.
    destruct (Z.min maxLimit l =? 18446744073709551615) eqn:E; simpl; [apply Z.eqb_eq in E; lia|].
    destruct (0 <? Z.min maxLimit l) eqn:L; [now rewrite Z.min_comm | apply Z.ltb_ge in L; lia].
  - destruct (maxLimit =? NoLimit) eqn:E; simpl; [reflexivity|].
    destruct (0 <? maxLimit) eqn:L; [reflexivity | apply Z.ltb_ge in L; lia].
Qed.

(** C06 query_correct, pinned tree: for every batch history of gate-valid
    events with functional ids and every non-empty list of gate-valid
    filters, the query over the tables answers as specified - provided no
    deletion request carries a longer-than-two e/a tag (F6) and no filter has
    limit 0 (F7) *)
Theorem query_correct_partial
  (xx : Z -> str -> Z) (md5 : str -> str) seed (h : list (list event)) fs maxLimit :
  no_collision xx md5 seed (concat h) fs ->
  gate_valid (concat h) -> ids_functional (concat h) ->
  e_refs_canonical (concat h) = true -> a_refs_scoped (concat h) = true ->
  k5_tags_two (concat h) ->
  fs <> [] -> Forall (fun f => gate_valid_filter f = true) fs -> 0 < maxLimit <= NoLimit ->
  (forall f, In f fs -> f_limit f <> Some 0) ->
  exists out, query (run seed empty_db h) fs maxLimit = Some out /\ query_spec (concat h) fs maxLimit out.
Proof.
  intros NC G F Ec As K2 Ne Gf Hml Nz.
  apply (query_correct_history xx md5); auto.
  - now apply k5_counted_of_two.
  - now apply limits_agree_pinned.
Qed.

(* ------------------------------------------------------------------ *)
(** * witnesses *)

Definition w_pk : str := repeat 97%N 64.
Definition w_sig : str := repeat 48%N 128.
Definition w_id1 : str := repeat 49%N 64.
Definition w_id2 : str := repeat 50%N 64.
Definition w_id3 : str := repeat 51%N 64.
Definition w_relay : str := [119; 115; 115]%N.

(** a note, and a deletion request for it whose e tag carries a relay hint *)
Definition w_note : event := mkEvent w_id1 w_pk 1 1 [] [104; 105]%N w_sig.
Definition w_del3 : event := mkEvent w_id2 w_pk 2 5 [[s_e; w_id1; w_relay]] [] w_sig.
Definition w_del2 : event := mkEvent w_id2 w_pk 2 5 [[s_e; w_id1]] [] w_sig.
(** two versions of a replaceable event *)
Definition w_meta1 : event := mkEvent w_id1 w_pk 1 0 [] [] w_sig.
Definition w_meta2 : event := mkEvent w_id3 w_pk 3 0 [] [] w_sig.
Definition w_id4 : str := repeat 52%N 64.
Definition w_note4 : event := mkEvent w_id4 w_pk 1 1 [] [104; 105]%N w_sig.
Definition w_del4 : event := mkEvent w_id2 w_pk 2 5 [[s_e; w_id4]] [] w_sig.

Definition f_all : rfilter := empty_filter.
Definition f_limit0 : rfilter := mkFilter None None None None None None (Some 0).

Lemma no_collision_trivial seed es fs :
  no_collision (fun _ s => 0) (fun s => s) seed es fs -> True.
Proof. auto. Qed.

(** F7: with `limit: 0` the store returns every match *)
Theorem query_limit0_refuted :
  exists (h : list (list event)) fs out,
    gate_valid (concat h) /\ ids_functional (concat h) /\ fs <> [] /\
    Forall (fun f => gate_valid_filter f = true) fs /\
    query (run 0 empty_db h) fs NoLimit = Some out /\ ~ query_spec (concat h) fs NoLimit out.
Proof.
  exists [[w_note]], [f_limit0], [w_note].
  split; [repeat constructor|]. split.
  { intros x y [<- |[]] [<- |[]] _. reflexivity. }
  split; [discriminate|]. split; [repeat constructor|]. split; [vm_compute; reflexivity|].
  intros [ress [F2 [T _]]].
  inversion F2 as [|f res fs' ress' T1 F2']; subst. inversion F2'; subst.
  destruct T1 as [_ [_ [L _]]]. simpl in L.
  assert (res = []). { destruct res; [reflexivity|]. unfold zlen in L. simpl in L. lia. }
  subst res. destruct T as [_ [Sub _]].
  destruct (Sub w_note (or_introl eq_refl)) as [r [[<- |[]] []]].
Qed.

(** F6: a deletion request whose e tag has a third element deletes nothing *)
Theorem deletion_three_element_tag_refuted :
  exists (h : list (list event)) fs out,
    gate_valid (concat h) /\ ids_functional (concat h) /\
    e_refs_canonical (concat h) = true /\ a_refs_scoped (concat h) = true /\ fs <> [] /\
    Forall (fun f => gate_valid_filter f = true) fs /\
    query (run 0 empty_db h) fs NoLimit = Some out /\ ~ query_spec (concat h) fs NoLimit out.
Proof.
  exists [[w_note; w_del3]], [f_all], [w_del3; w_note].
  split; [repeat constructor|]. split.
  { intros x y Hx Hy E. simpl in Hx, Hy.
    destruct Hx as [<- |[<- |[]]]; destruct Hy as [<- |[<- |[]]]; try reflexivity; vm_compute in E; discriminate. }
  split; [reflexivity|]. split; [reflexivity|].
  split; [discriminate|]. split; [repeat constructor|]. split; [vm_compute; reflexivity|].
  intros [ress [F2 [T _]]].
  inversion F2 as [|f res fs' ress' T1 F2']; subst. inversion F2'; subst.
  destruct T as [_ [Sub _]].
  destruct (Sub w_note (or_intror (or_introl eq_refl))) as [r [[<- |[]] Hr]].
  destruct T1 as [_ [U _]]. destruct (U w_note Hr) as [[_ ND] _].
  apply ND. exists w_del3, [s_e; w_id1; w_relay]. repeat split; try reflexivity; simpl; auto.
Qed.

(** the hypotheses of [query_correct_partial] are satisfiable on a history
    with a replacement and an effective deletion, and the answer is the
    expected one *)
Example query_correct_partial_example :
  let h := [[w_meta1; w_note4]; [w_meta2; w_del4]] in
  gate_valid (concat h) /\ ids_functional (concat h) /\
  e_refs_canonical (concat h) = true /\ a_refs_scoped (concat h) = true /\ k5_tags_two (concat h) /\
  query (run 0 empty_db h) [f_all] NoLimit = Some [w_meta2; w_del4].
Proof.
  simpl. split; [repeat constructor|]. split.
  { intros x y Hx Hy E. simpl in Hx, Hy.
    destruct Hx as [<- |[<- |[<- |[<- |[]]]]]; destruct Hy as [<- |[<- |[<- |[<- |[]]]]];
      try reflexivity; vm_compute in E; discriminate. }
  split; [reflexivity|]. split; [reflexivity|]. split; [|vm_compute; reflexivity].
  intros d n v rest Hd K Ht _. simpl in Hd.
  destruct Hd as [<- |[<- |[<- |[<- |[]]]]]; simpl in K; try discriminate.
  simpl in Ht. destruct Ht as [E|[]]. now inversion E.
Qed.
