(* PromProofs.v — C19: the metrics middleware's gauges and counters equal
   what happened, for every well-formed history of any number of sessions. *)
From Moc Require Import Base Prom.
From Moc.Gen Require Import GenProm.
Open Scope Z_scope.
Import Coq.Strings.String.StringSyntax.

(* ------------------------------------------------------------------ *)
(** * Facts about the generated tables (one lemma per table; everything
      else uses only these) *)

Lemma conn_delta_start : conn_delta "ServeNostrStart" = 1.
Proof. reflexivity. Qed.
Lemma conn_delta_end : conn_delta "ServeNostrEnd" = -1.
Proof. reflexivity. Qed.
Lemma conn_delta_client : conn_delta "ServeNostrClientMsg" = 0.
Proof. reflexivity. Qed.
Lemma conn_delta_server : conn_delta "ServeNostrServerMsg" = 0.
Proof. reflexivity. Qed.

Lemma recv_label_spec w : recv_label w = Some (clabel w).
Proof. destruct w; reflexivity. Qed.

Lemma send_label_spec w : send_label w = Some (slabel w).
Proof. destruct w; reflexivity. Qed.

Lemma kind_label_spec w :
  kind_label w = match w with CEvent k => Some (showZ k) | _ => None end.
Proof. destruct w; reflexivity. Qed.

(** REQ: `if !ok { set; Inc }`; CLOSE: `if ok { delete; Dec }`; nothing else *)
Lemma req_rule_c_spec w :
  req_rule_c w = match w with
                 | CReq s => Some ((0, (1, 1)), s)
                 | CClose s => Some ((1, (2, -1)), s)
                 | _ => None
                 end.
Proof. destruct w; reflexivity. Qed.

(** CLOSED: `if ok { delete; Dec }`; nothing else (in particular not EOSE) *)
Lemma req_rule_s_spec w :
  req_rule_s w = match w with
                 | SClosed s => Some ((1, (2, -1)), s)
                 | _ => None
                 end.
Proof. destruct w; reflexivity. Qed.

Lemma start_fresh_spec : start_fresh = true.
Proof. reflexivity. Qed.

(** session end: Sub(len) and delete *)
Lemma end_rule_spec : end_rule = (true, true).
Proof. reflexivity. Qed.

Lemma forward_spec : g_prom_client_forward = 1 /\ g_prom_server_forward = 1.
Proof. split; reflexivity. Qed.

(** all four methods of reqCounter hold the mutex around every access *)
Lemma all_locked_spec : all_locked = true.
Proof. reflexivity. Qed.

(** the session key is a fresh uuid, set into the context and nothing else *)
Lemma session_key_fresh_spec : session_key_fresh = true.
Proof. reflexivity. Qed.

(* ------------------------------------------------------------------ *)
(** * The step function in closed form *)

Definition set_map (st : pstate) (o : list (Z * list str)) (r : Z) : pstate :=
  mkP o (p_conn st) r (p_recv st) (p_kind st) (p_send st).

Definition do_req (s : Z) (sub : str) (st : pstate) : presult pstate :=
  match zget s (p_open st) with
  | None => PPanic
  | Some l => if mem_str sub l then POk st
              else POk (set_map st (zset s (sub :: l) (p_open st)) (p_req st + 1))
  end.

Definition do_close (s : Z) (sub : str) (st : pstate) : presult pstate :=
  match zget s (p_open st) with
  | None => POk st
  | Some l => if mem_str sub l
              then POk (set_map st (zset s (sremove sub l) (p_open st)) (p_req st - 1))
              else POk st
  end.

Lemma apply_rule_req s sub st : apply_rule (0, (1, 1)) s sub st = do_req s sub st.
Proof.
  unfold apply_rule, do_req, set_map. destruct (zget s (p_open st)) as [l|]; simpl.
  - destruct (mem_str sub l); reflexivity.
  - reflexivity.
Qed.

Lemma apply_rule_close s sub st : apply_rule (1, (2, -1)) s sub st = do_close s sub st.
Proof.
  unfold apply_rule, do_close, set_map. destruct (zget s (p_open st)) as [l|]; simpl.
  - destruct (mem_str sub l); reflexivity.
  - reflexivity.
Qed.

Definition sem_step (st : pstate) (x : pstep) : presult pstate :=
  match x with
  | Start s => POk (mkP (zset s [] (p_open st)) (p_conn st + 1) (p_req st) (p_recv st) (p_kind st) (p_send st))
  | End s =>
      POk (mkP (zdel s (p_open st)) (p_conn st - 1)
               (p_req st - Z.of_nat (length (match zget s (p_open st) with Some l => l | None => [] end)))
               (p_recv st) (p_kind st) (p_send st))
  | Client s m =>
      let st1 := mkP (p_open st) (p_conn st) (p_req st) (cv_inc (clabel (cm_what m)) (p_recv st))
                     (match cm_what m with CEvent k => cv_inc (showZ k) (p_kind st) | _ => p_kind st end)
                     (p_send st) in
      match cm_what m with
      | CReq sub => do_req s sub st1
      | CClose sub => do_close s sub st1
      | _ => POk st1
      end
  | Server s m =>
      let st1 := mkP (p_open st) (p_conn st) (p_req st) (p_recv st) (p_kind st)
                     (cv_inc (slabel (sm_what m)) (p_send st)) in
      match sm_what m with
      | SClosed sub => do_close s sub st1
      | _ => POk st1
      end
  end.

Lemma step_sem st x : step st x = sem_step st x.
Proof.
  destruct x as [s|s|s m|s m]; unfold step, sem_step.
  - rewrite start_fresh_spec, conn_delta_start. reflexivity.
  - rewrite end_rule_spec, conn_delta_end. reflexivity.
  - rewrite recv_label_spec, kind_label_spec, req_rule_c_spec, conn_delta_client, Z.add_0_r.
    destruct (cm_what m); cbv beta iota zeta; try reflexivity.
    + apply apply_rule_req.
    + apply apply_rule_close.
  - rewrite send_label_spec, req_rule_s_spec, conn_delta_server, Z.add_0_r.
    destruct (sm_what m); cbv beta iota zeta; try reflexivity.
    apply apply_rule_close.
Qed.

Lemma run_from_app st h1 h2 :
  run_from st (h1 ++ h2) = match run_from st h1 with POk st' => run_from st' h2 | PPanic => PPanic end.
Proof.
  revert st; induction h1 as [|x h1 IH]; intro st; simpl; [reflexivity|].
  destruct (step st x); [apply IH | reflexivity].
Qed.

Lemma run_snoc h x :
  run (h ++ [x]) = match run h with POk st => step st x | PPanic => PPanic end.
Proof.
  unfold run. rewrite run_from_app. destruct (run_from p_init h) as [st|]; [|reflexivity].
  simpl. destruct (step st x); reflexivity.
Qed.

(* ------------------------------------------------------------------ *)
(** * "since": snoc characterisation and the boolean oracle *)

Lemma app_snoc_split {A} (h h1 h2 : list A) x y :
  h ++ [x] = h1 ++ y :: h2 ->
  (h2 = [] /\ h = h1 /\ x = y) \/ exists h2', h2 = h2' ++ [x] /\ h = h1 ++ y :: h2'.
Proof.
  intro E. induction h2 as [|z h2 _] using rev_ind.
  - left. change (h1 ++ [y]) with (h1 ++ [y]) in E. apply app_inj_tail in E as [E1 E2]. auto.
  - right. exists h2.
    assert (E' : h ++ [x] = (h1 ++ y :: h2) ++ [z]) by (rewrite E, <- app_assoc; reflexivity).
    apply app_inj_tail in E' as [E1 E2]. subst. auto.
Qed.

Lemma since_snoc P Q h x :
  since P Q (h ++ [x]) <-> P x = true \/ (Q x = false /\ since P Q h).
Proof.
  split.
  - intros (h1 & y & h2 & E & Py & Hq).
    apply app_snoc_split in E as [(-> & -> & ->) | (h2' & -> & ->)].
    + now left.
    + right. split.
      * apply Hq, in_or_app. right. now left.
      * exists h1, y, h2'. repeat split; auto. intros x0 Hx. apply Hq, in_or_app. now left.
  - intros [Px | (Qx & h1 & y & h2 & -> & Py & Hq)].
    + exists h, x, []. repeat split; auto. intros ? [].
    + exists h1, y, (h2 ++ [x]). repeat split; auto.
      * rewrite <- app_assoc. reflexivity.
      * intros x0 Hx. apply in_app_or in Hx as [Hx | [<- | []]]; auto.
Qed.

Lemma since_nil P Q : ~ since P Q [].
Proof. intros (h1 & y & h2 & E & _). destruct h1; discriminate. Qed.

Lemma since_snoc_neutral P Q h x :
  P x = false -> Q x = false -> (since P Q (h ++ [x]) <-> since P Q h).
Proof.
  intros Px Qx. rewrite since_snoc. split.
  - intros [H | [_ H]]; [congruence | exact H].
  - intro H. right. auto.
Qed.

Lemma sinceb_snoc P Q h x :
  sinceb P Q (h ++ [x]) = if P x then true else if Q x then false else sinceb P Q h.
Proof. unfold sinceb. rewrite rev_unit. reflexivity. Qed.

Lemma sinceb_spec P Q h : sinceb P Q h = true <-> since P Q h.
Proof.
  induction h as [|x h IH] using rev_ind.
  - split; [discriminate | intro H; exfalso; exact (since_nil _ _ H)].
  - rewrite sinceb_snoc, since_snoc. destruct (P x), (Q x); rewrite ?IH; intuition congruence.
Qed.

Lemma liveb_spec h s : liveb h s = true <-> live h s.
Proof. apply sinceb_spec. Qed.

Lemma sub_openb_spec h s sub : sub_openb h s sub = true <-> sub_open h s sub.
Proof. apply sinceb_spec. Qed.

(* ------------------------------------------------------------------ *)
(** * Well-formed histories *)

Lemma wf_snoc h x : wf (h ++ [x]) -> wf h /\ step_ok h x.
Proof.
  intro W. split.
  - intros h1 y h2 E. apply (W h1 y (h2 ++ [x])). rewrite E, <- app_assoc. reflexivity.
  - apply (W h x []). reflexivity.
Qed.

Lemma wf_nil : wf [].
Proof. intros h1 x h2 E. destruct h1; discriminate. Qed.

Lemma step_okb_sound h x : step_okb h x = true -> step_ok h x.
Proof.
  destruct x; simpl; intro H; try (now apply liveb_spec).
  intro L. apply liveb_spec in L. rewrite L in H. discriminate.
Qed.

Lemma wfb_from_sound h : forall pre, wfb_from pre h = true ->
  forall h1 x h2, h = h1 ++ x :: h2 -> step_ok (pre ++ h1) x.
Proof.
  induction h as [|a h IH]; intros pre H h1 x h2 E.
  - destruct h1; discriminate.
  - simpl in H. apply andb_true_iff in H as [H1 H2].
    destruct h1 as [|z h1]; simpl in E; inversion E; subst.
    + rewrite app_nil_r. now apply step_okb_sound.
    + specialize (IH _ H2 h1 x h2 eq_refl). rewrite <- app_assoc in IH. exact IH.
Qed.

Lemma wfb_sound h : wfb h = true -> wf h.
Proof. intros H h1 x h2 E. exact (wfb_from_sound h [] H h1 x h2 E). Qed.

(** effect of one step on liveness *)
Lemma live_snoc h x s :
  live (h ++ [x]) s <-> is_start s x = true \/ (is_end s x = false /\ live h s).
Proof. apply since_snoc. Qed.

Lemma sub_open_snoc h x s sub :
  sub_open (h ++ [x]) s sub <-> is_req s sub x = true \/ (ends_sub s sub x = false /\ sub_open h s sub).
Proof. apply since_snoc. Qed.

Lemma ends_sub_false_is_end s sub x : ends_sub s sub x = false -> is_end s x = false.
Proof. destruct x; simpl; auto. Qed.

Lemma is_req_session s sub x : is_req s sub x = true -> exists m, x = Client s m.
Proof.
  destruct x; simpl; try discriminate. intro H. apply andb_true_iff in H as [H _].
  apply Z.eqb_eq in H. subst. eauto.
Qed.

(** an open subscription belongs to a live session *)
Lemma open_live h : wf h -> forall s sub, sub_open h s sub -> live h s.
Proof.
  induction h as [|x h IH] using rev_ind; intros W s sub H.
  - exfalso. exact (since_nil _ _ H).
  - apply wf_snoc in W as [W Hx]. apply sub_open_snoc in H as [H | [H1 H2]].
    + apply is_req_session in H as [m ->]. simpl in Hx.
      apply live_snoc. right. split; [reflexivity | exact Hx].
    + apply live_snoc. right. split; [now apply ends_sub_false_is_end with sub | eauto].
Qed.

(* ------------------------------------------------------------------ *)
(** * Association lists keyed by session *)

Definition total (m : list (Z * list str)) : Z :=
  fold_right (fun kv acc => Z.of_nat (length (snd kv)) + acc) 0 m.

Definition keys {A} (m : list (Z * A)) : list Z := List.map fst m.

Lemma zget_None {A} s (m : list (Z * A)) : zget s m = None <-> ~ In s (keys m).
Proof.
  induction m as [|[k v] m IH]; simpl.
  - split; auto.
  - destruct (k =? s) eqn:E.
    + apply Z.eqb_eq in E. split; [discriminate | intro H; exfalso; apply H; now left].
    + apply Z.eqb_neq in E. rewrite IH. split.
      * intros H [H1|H1]; [congruence | contradiction].
      * intros H H1. apply H. now right.
Qed.

Lemma zget_In {A} s (m : list (Z * A)) v : zget s m = Some v -> In (s, v) m.
Proof.
  induction m as [|[k x] m IH]; simpl; [discriminate|].
  destruct (k =? s) eqn:E.
  - apply Z.eqb_eq in E. intro H; inversion H; subst. now left.
  - intro H. right. now apply IH.
Qed.

Lemma In_zget {A} s (m : list (Z * A)) v : NoDup (keys m) -> In (s, v) m -> zget s m = Some v.
Proof.
  induction m as [|[k x] m IH]; simpl; [contradiction|].
  intros ND [E|Hin].
  - inversion E; subst. now rewrite Z.eqb_refl.
  - inversion ND as [|? ? Hn ND']; subst. destruct (k =? s) eqn:E.
    + apply Z.eqb_eq in E; subst. exfalso. apply Hn. change s with (fst (s, v)). now apply in_map.
    + now apply IH.
Qed.

Lemma zget_zset {A} s s0 (v : A) m : zget s (zset s0 v m) = if s =? s0 then Some v else zget s m.
Proof.
  induction m as [|[k x] m IH]; simpl.
  - rewrite (Z.eqb_sym s0 s). reflexivity.
  - destruct (k =? s0) eqn:E; simpl.
    + apply Z.eqb_eq in E; subst. rewrite (Z.eqb_sym s0 s). destruct (s =? s0); reflexivity.
    + destruct (k =? s) eqn:E2.
      * apply Z.eqb_eq in E2; subst. rewrite E. reflexivity.
      * exact IH.
Qed.

Lemma zget_zdel {A} s s0 (m : list (Z * A)) : zget s (zdel s0 m) = if s =? s0 then None else zget s m.
Proof.
  induction m as [|[k x] m IH]; simpl.
  - destruct (s =? s0); reflexivity.
  - destruct (k =? s0) eqn:E; simpl.
    + apply Z.eqb_eq in E; subst. rewrite IH. rewrite (Z.eqb_sym s0 s). destruct (s =? s0); reflexivity.
    + destruct (k =? s) eqn:E2.
      * apply Z.eqb_eq in E2; subst. rewrite E. reflexivity.
      * exact IH.
Qed.

Lemma keys_zset {A} k s (v : A) m : In k (keys (zset s v m)) <-> k = s \/ In k (keys m).
Proof.
  induction m as [|[k' x] m IH]; simpl.
  - intuition.
  - destruct (k' =? s) eqn:E; simpl.
    + apply Z.eqb_eq in E; subst. intuition.
    + rewrite IH. intuition.
Qed.

Lemma NoDup_zset {A} s (v : A) m : NoDup (keys m) -> NoDup (keys (zset s v m)).
Proof.
  induction m as [|[k x] m IH]; simpl; intro ND.
  - constructor; [intros [] | constructor].
  - inversion ND as [|? ? Hn ND']; subst. destruct (k =? s) eqn:E; simpl.
    + apply Z.eqb_eq in E; subst. now constructor.
    + constructor; [|now apply IH]. intro H. apply keys_zset in H as [H|H]; [|contradiction].
      apply Z.eqb_neq in E. congruence.
Qed.

Lemma NoDup_map_filter {A B} (f : A -> B) p l : NoDup (List.map f l) -> NoDup (List.map f (filter p l)).
Proof.
  induction l as [|x l IH]; simpl; intro ND; [constructor|].
  inversion ND as [|? ? Hn ND']; subst. destruct (p x); simpl; [|now apply IH].
  constructor; [|now apply IH]. intro H. apply Hn.
  apply in_map_iff in H as (y & E & Hy). apply filter_In in Hy as [Hy _].
  rewrite <- E. now apply in_map.
Qed.

Lemma NoDup_zdel {A} s (m : list (Z * A)) : NoDup (keys m) -> NoDup (keys (zdel s m)).
Proof. apply NoDup_map_filter. Qed.

Lemma zdel_absent {A} s (m : list (Z * A)) : ~ In s (keys m) -> zdel s m = m.
Proof.
  induction m as [|[k x] m IH]; simpl; intro H; [reflexivity|].
  destruct (k =? s) eqn:E; simpl.
  - apply Z.eqb_eq in E. exfalso. apply H. now left.
  - f_equal. apply IH. intro H1. apply H. now right.
Qed.

Lemma zset_absent s v (m : list (Z * list str)) :
  zget s m = None ->
  length (zset s v m) = S (length m) /\ total (zset s v m) = total m + Z.of_nat (length v).
Proof.
  induction m as [|[k x] m IH]; simpl; intro H.
  - split; [reflexivity | lia].
  - destruct (k =? s) eqn:E; [discriminate|]. simpl. destruct (IH H) as [I1 I2]. split; [now rewrite I1 | lia].
Qed.

Lemma zset_present s v (m : list (Z * list str)) l :
  zget s m = Some l ->
  length (zset s v m) = length m /\
  total (zset s v m) = total m - Z.of_nat (length l) + Z.of_nat (length v).
Proof.
  induction m as [|[k x] m IH]; simpl; intro H; [discriminate|].
  destruct (k =? s) eqn:E; simpl.
  - inversion H; subst. split; [reflexivity | lia].
  - destruct (IH H) as [I1 I2]. split; [now rewrite I1 | lia].
Qed.

Lemma zdel_present s (m : list (Z * list str)) l :
  NoDup (keys m) -> zget s m = Some l ->
  S (length (zdel s m)) = length m /\ total (zdel s m) = total m - Z.of_nat (length l).
Proof.
  induction m as [|[k x] m IH]; simpl; intros ND H; [discriminate|].
  inversion ND as [|? ? Hn ND']; subst. destruct (k =? s) eqn:E; simpl.
  - apply Z.eqb_eq in E; subst. inversion H; subst.
    fold (zdel s m). rewrite (zdel_absent s m Hn). split; [reflexivity | lia].
  - fold (zdel s m). destruct (IH ND' H) as [I1 I2]. split; [now rewrite I1 | lia].
Qed.

(** subscription sets *)
Lemma sremove_In x y l : In y (sremove x l) <-> In y l /\ y <> x.
Proof.
  unfold sremove. rewrite filter_In, negb_true_iff, str_eqb_neq. reflexivity.
Qed.

Lemma NoDup_sremove x l : NoDup l -> NoDup (sremove x l).
Proof.
  intro ND. unfold sremove. induction l as [|y l IH]; simpl; [constructor|].
  inversion ND as [|? ? Hn ND']; subst. destruct (negb (str_eqb y x)); [|now apply IH].
  constructor; [|now apply IH]. intro H. apply filter_In in H as [H _]. contradiction.
Qed.

Lemma sremove_length x l : NoDup l -> In x l -> S (length (sremove x l)) = length l.
Proof.
  intros ND Hin. induction l as [|y l IH]; [contradiction|].
  inversion ND as [|? ? Hn ND']; subst. unfold sremove. simpl.
  destruct (str_eqb y x) eqn:E; simpl.
  - apply str_eqb_eq in E; subst. f_equal.
    assert (F : filter (fun y => negb (str_eqb y x)) l = l).
    { clear IH ND ND' Hin. induction l as [|z l IH]; simpl; [reflexivity|].
      destruct (str_eqb z x) eqn:E; simpl.
      - apply str_eqb_eq in E. subst. exfalso. apply Hn. now left.
      - f_equal. apply IH. intro H. apply Hn. now right. }
    now rewrite F.
  - destruct Hin as [->|Hin]; [rewrite str_eqb_refl in E; discriminate|].
    f_equal. apply IH; assumption.
Qed.

(** counter vectors *)
Lemma cv_get_inc l l0 cv : cv_get l (cv_inc l0 cv) = cv_get l cv + (if str_eqb l0 l then 1 else 0).
Proof.
  induction cv as [|[k v] cv IH]; simpl.
  - destruct (str_eqb l0 l); reflexivity.
  - destruct (str_eqb k l0) eqn:E; simpl.
    + apply str_eqb_eq in E; subst. destruct (str_eqb l0 l); lia.
    + destruct (str_eqb k l) eqn:E2; [|exact IH].
      apply str_eqb_eq in E2; subst. rewrite str_eqb_sym, E. lia.
Qed.

(* ------------------------------------------------------------------ *)
(** * The invariant on the map and the two gauges *)

Definition InvMap (h : list pstep) (o : list (Z * list str)) (c r : Z) : Prop :=
  (forall s, zget s o <> None <-> live h s) /\
  NoDup (keys o) /\
  (forall s l, zget s o = Some l -> NoDup l /\ forall sub, In sub l <-> sub_open h s sub) /\
  c = Z.of_nat (length o) /\
  r = total o.

Lemma invmap_nil : InvMap [] [] 0 0.
Proof.
  repeat split; simpl; try constructor; try discriminate.
  - intro H. now contradiction H.
  - intro H. exfalso. exact (since_nil _ _ H).
Qed.

(** steps that are neither Start/End nor REQ/CLOSE/CLOSED change nothing *)
Definition neutral (x : pstep) : bool :=
  match x with
  | Client _ m => match cm_what m with CReq _ | CClose _ => false | _ => true end
  | Server _ m => match sm_what m with SClosed _ => false | _ => true end
  | _ => false
  end.

Lemma neutral_facts x : neutral x = true ->
  forall s, is_start s x = false /\ is_end s x = false /\
            forall sub, is_req s sub x = false /\ ends_sub s sub x = false.
Proof.
  destruct x as [s0|s0|s0 m|s0 m]; simpl; try discriminate; intros H s; repeat split; intros;
    try reflexivity.
  - destruct (cm_what m); try discriminate; now rewrite andb_false_r.
  - destruct (cm_what m); try discriminate; now rewrite andb_false_r.
  - destruct (sm_what m); try discriminate; now rewrite andb_false_r.
Qed.

Lemma invmap_neutral h x o c r : neutral x = true -> InvMap h o c r -> InvMap (h ++ [x]) o c r.
Proof.
  intros N (K & ND & O & C & R). pose proof (neutral_facts x N) as F.
  repeat split; auto.
  - intro H. destruct (F s) as (F1 & F2 & _). apply since_snoc_neutral; auto. now apply K.
  - intro H. destruct (F s) as (F1 & F2 & _). apply K. now apply since_snoc_neutral in H.
  - now apply (O s l).
  - intro H1. destruct (F s) as (_ & _ & F3). destruct (F3 sub) as [F4 F5].
    apply since_snoc_neutral; auto. now apply (O s l).
  - intro H1. destruct (F s) as (_ & _ & F3). destruct (F3 sub) as [F4 F5].
    apply (O s l H). now apply since_snoc_neutral in H1.
Qed.

Lemma invmap_start h o c r s0 :
  wf h -> ~ live h s0 -> InvMap h o c r -> InvMap (h ++ [Start s0]) (zset s0 [] o) (c + 1) r.
Proof.
  intros W NL (K & ND & O & C & R).
  assert (G0 : zget s0 o = None).
  { destruct (zget s0 o) eqn:E; [|reflexivity]. exfalso. apply NL, K. congruence. }
  destruct (zset_absent s0 [] o G0) as [L1 L2].
  repeat split.
  - rewrite zget_zset. intro H. apply live_snoc. simpl. destruct (s =? s0) eqn:E.
    + left. now rewrite Z.eqb_sym.
    + right. split; [reflexivity | now apply K].
  - rewrite zget_zset. intro H. apply live_snoc in H. simpl in H. destruct (s =? s0) eqn:E; [discriminate|].
    destruct H as [H | [_ H]]; [rewrite Z.eqb_sym in H; congruence | now apply K].
  - now apply NoDup_zset.
  - rewrite zget_zset in H. destruct (s =? s0) eqn:E.
    + inversion H; subst. constructor.
    + now apply (O s l).
  - rewrite zget_zset in H. destruct (s =? s0) eqn:E.
    + inversion H; subst. intros [].
    + intro H1. apply sub_open_snoc. right. split; [reflexivity | now apply (O s l)].
  - rewrite zget_zset in H. intro H1. apply sub_open_snoc in H1 as [H1 | [_ H1]]; [discriminate|].
    destruct (s =? s0) eqn:E.
    + apply Z.eqb_eq in E; subst. exfalso. apply NL. eapply open_live; eauto.
    + now apply (O s l H).
  - rewrite L1, C. lia.
  - rewrite L2, R. simpl. lia.
Qed.

Lemma invmap_end h o c r s0 l0 :
  zget s0 o = Some l0 -> InvMap h o c r ->
  InvMap (h ++ [End s0]) (zdel s0 o) (c - 1) (r - Z.of_nat (length l0)).
Proof.
  intros G0 (K & ND & O & C & R).
  destruct (zdel_present s0 o l0 ND G0) as [L1 L2].
  repeat split.
  - rewrite zget_zdel. destruct (s =? s0) eqn:E; [congruence|]. intro H.
    apply live_snoc. right. simpl. rewrite Z.eqb_sym, E. split; [reflexivity | now apply K].
  - rewrite zget_zdel. intro H. apply live_snoc in H as [H | [H1 H2]]; [discriminate|].
    simpl in H1. rewrite Z.eqb_sym in H1. rewrite H1. now apply K.
  - now apply NoDup_zdel.
  - rewrite zget_zdel in H. destruct (s =? s0); [discriminate | now apply (O s l)].
  - rewrite zget_zdel in H. destruct (s =? s0) eqn:E; [discriminate|]. intro H1.
    apply sub_open_snoc. right. simpl. rewrite Z.eqb_sym, E. split; [reflexivity | now apply (O s l)].
  - rewrite zget_zdel in H. destruct (s =? s0) eqn:E; [discriminate|]. intro H1.
    apply sub_open_snoc in H1 as [H1 | [_ H1]]; [discriminate | now apply (O s l H)].
  - rewrite C. lia.
  - rewrite L2, R. reflexivity.
Qed.

(** REQ *)
Lemma invmap_req h o c r s0 sub0 u l0 :
  zget s0 o = Some l0 -> InvMap h o c r ->
  let x := Client s0 (mkCM (CReq sub0) u) in
  if mem_str sub0 l0 then InvMap (h ++ [x]) o c r
  else InvMap (h ++ [x]) (zset s0 (sub0 :: l0) o) c (r + 1).
Proof.
  intros G0 (K & ND & O & C & R) x.
  assert (LV : forall s, live (h ++ [x]) s <-> live h s).
  { intro s. apply since_snoc_neutral; reflexivity. }
  assert (SO : forall s sub, sub_open (h ++ [x]) s sub <->
                             ((s0 =? s) && str_eqb sub0 sub = true \/ sub_open h s sub)).
  { intros s sub. rewrite sub_open_snoc. unfold x; simpl. rewrite andb_false_r. intuition. }
  destruct (O s0 l0 G0) as [ND0 O0].
  destruct (mem_str sub0 l0) eqn:M.
  - apply mem_str_In in M. repeat split; auto.
    + intro H. apply LV. now apply K.
    + intro H. apply K. now apply LV.
    + now apply (O s l).
    + intro H1. apply SO. right. now apply (O s l).
    + intro H1. apply SO in H1 as [H1|H1]; [|now apply (O s l H)].
      apply andb_true_iff in H1 as [E1 E2]. apply Z.eqb_eq in E1. apply str_eqb_eq in E2. subst.
      rewrite G0 in H. inversion H; subst. exact M.
  - assert (NM : ~ In sub0 l0) by (intro H; apply mem_str_In in H; congruence).
    destruct (zset_present s0 (sub0 :: l0) o l0 G0) as [L1 L2].
    repeat split.
    + rewrite zget_zset. intro H. apply LV. destruct (s =? s0) eqn:E.
      * apply Z.eqb_eq in E; subst. apply K. congruence.
      * now apply K.
    + rewrite zget_zset. intro H. apply LV in H. destruct (s =? s0); [discriminate | now apply K].
    + now apply NoDup_zset.
    + rewrite zget_zset in H. destruct (s =? s0) eqn:E.
      * inversion H; subst. now constructor.
      * now apply (O s l).
    + rewrite zget_zset in H. intro H1. apply SO. destruct (s =? s0) eqn:E.
      * apply Z.eqb_eq in E; subst. inversion H; subst. destruct H1 as [<-|H1].
        -- left. now rewrite Z.eqb_refl, str_eqb_refl.
        -- right. now apply O0.
      * right. now apply (O s l).
    + rewrite zget_zset in H. intro H1. apply SO in H1. destruct (s =? s0) eqn:E.
      * apply Z.eqb_eq in E; subst. inversion H; subst. destruct H1 as [H1|H1].
        -- apply andb_true_iff in H1 as [_ E2]. apply str_eqb_eq in E2. now left.
        -- right. now apply O0.
      * destruct H1 as [H1|H1]; [|now apply (O s l H)].
        apply andb_true_iff in H1 as [E1 _]. rewrite Z.eqb_sym in E1. congruence.
    + rewrite L1. exact C.
    + rewrite L2, R. simpl length. lia.
Qed.

(** CLOSE from the client and CLOSED from the server act alike *)
Lemma invmap_close h o c r s0 sub0 l0 x :
  (forall s, is_start s x = false) -> (forall s, is_end s x = false) ->
  (forall s sub, is_req s sub x = false) ->
  (forall s sub, ends_sub s sub x = (s0 =? s) && str_eqb sub0 sub) ->
  zget s0 o = Some l0 -> InvMap h o c r ->
  if mem_str sub0 l0 then InvMap (h ++ [x]) (zset s0 (sremove sub0 l0) o) c (r - 1)
  else InvMap (h ++ [x]) o c r.
Proof.
  intros X1 X2 X3 X4 G0 (K & ND & O & C & R).
  assert (LV : forall s, live (h ++ [x]) s <-> live h s).
  { intro s. apply since_snoc_neutral; auto. }
  assert (SO : forall s sub, sub_open (h ++ [x]) s sub <->
                             ((s0 =? s) && str_eqb sub0 sub = false /\ sub_open h s sub)).
  { intros s sub. rewrite sub_open_snoc, X3, X4. intuition discriminate. }
  destruct (O s0 l0 G0) as [ND0 O0].
  destruct (mem_str sub0 l0) eqn:M.
  - apply mem_str_In in M.
    destruct (zset_present s0 (sremove sub0 l0) o l0 G0) as [L1 L2].
    pose proof (sremove_length sub0 l0 ND0 M) as L3.
    repeat split.
    + rewrite zget_zset. intro H. apply LV. destruct (s =? s0) eqn:E.
      * apply Z.eqb_eq in E; subst. apply K. congruence.
      * now apply K.
    + rewrite zget_zset. intro H. apply LV in H. destruct (s =? s0); [discriminate | now apply K].
    + now apply NoDup_zset.
    + rewrite zget_zset in H. destruct (s =? s0) eqn:E.
      * inversion H; subst. now apply NoDup_sremove.
      * now apply (O s l).
    + rewrite zget_zset in H. intro H1. apply SO. destruct (s =? s0) eqn:E.
      * apply Z.eqb_eq in E; subst. inversion H; subst. apply sremove_In in H1 as [H1 H2].
        split; [|now apply O0]. rewrite Z.eqb_refl. simpl. apply str_eqb_neq. congruence.
      * split; [|now apply (O s l)]. rewrite Z.eqb_sym, E. reflexivity.
    + rewrite zget_zset in H. intro H1. apply SO in H1 as [H1 H2]. destruct (s =? s0) eqn:E.
      * apply Z.eqb_eq in E; subst. inversion H; subst. rewrite Z.eqb_refl in H1. simpl in H1.
        apply str_eqb_neq in H1. apply sremove_In. split; [now apply O0 | congruence].
      * now apply (O s l H).
    + rewrite L1. exact C.
    + rewrite L2, R. lia.
  - assert (NM : ~ In sub0 l0) by (intro H; apply mem_str_In in H; congruence).
    repeat split; auto.
    + intro H. apply LV. now apply K.
    + intro H. apply K. now apply LV.
    + now apply (O s l).
    + intro H1. apply SO. split; [|now apply (O s l)].
      destruct (s0 =? s) eqn:E; [|reflexivity]. apply Z.eqb_eq in E; subst.
      rewrite G0 in H. inversion H; subst. simpl. apply str_eqb_neq. congruence.
    + intro H1. apply SO in H1 as [_ H1]. now apply (O s l H).
Qed.

(* ------------------------------------------------------------------ *)
(** * The counter vectors *)

Definition InvCnt (h : list pstep) (rv kd sd : list (str * Z)) : Prop :=
  (forall l, cv_get l rv = Z.of_nat (n_recv h l)) /\
  (forall l, cv_get l kd = Z.of_nat (n_kind h l)) /\
  (forall l, cv_get l sd = Z.of_nat (n_send h l)).

Lemma count_snoc (p : pstep -> bool) h x :
  Z.of_nat (count_occ_b p (h ++ [x])) = Z.of_nat (count_occ_b p h) + (if p x then 1 else 0).
Proof. rewrite count_occ_b_app. simpl. destruct (p x); lia. Qed.

Definition recv_after (x : pstep) (rv : list (str * Z)) :=
  match x with Client _ m => cv_inc (clabel (cm_what m)) rv | _ => rv end.
Definition kind_after (x : pstep) (kd : list (str * Z)) :=
  match x with
  | Client _ m => match cm_what m with CEvent k => cv_inc (showZ k) kd | _ => kd end
  | _ => kd
  end.
Definition send_after (x : pstep) (sd : list (str * Z)) :=
  match x with Server _ m => cv_inc (slabel (sm_what m)) sd | _ => sd end.

Lemma invcnt_step h x rv kd sd :
  InvCnt h rv kd sd -> InvCnt (h ++ [x]) (recv_after x rv) (kind_after x kd) (send_after x sd).
Proof.
  intros (A & B & C). repeat split; intro l; unfold n_recv, n_kind, n_send; rewrite count_snoc.
  - destruct x as [s|s|s m|s m]; simpl; rewrite ?cv_get_inc, A; unfold n_recv; lia.
  - destruct x as [s|s|s m|s m]; simpl; try (rewrite B; unfold n_kind; lia).
    destruct (cm_what m); rewrite ?cv_get_inc, B; unfold n_kind; lia.
  - destruct x as [s|s|s m|s m]; simpl; rewrite ?cv_get_inc, C; unfold n_send; lia.
Qed.

Lemma cnt_of_step st x st' :
  sem_step st x = POk st' ->
  p_recv st' = recv_after x (p_recv st) /\ p_kind st' = kind_after x (p_kind st) /\
  p_send st' = send_after x (p_send st).
Proof.
  destruct x as [s|s|s [w u]|s [w u]]; simpl.
  - intro H; inversion H; subst; simpl; auto.
  - intro H; inversion H; subst; simpl; auto.
  - destruct w; unfold do_req, do_close; simpl;
      try (intro H; inversion H; subst; simpl; now auto);
      destruct (zget s (p_open st)) as [l|]; try discriminate;
      try destruct (mem_str sub l); intro H; inversion H; subst; simpl; auto.
  - destruct w; unfold do_close; simpl;
      try (intro H; inversion H; subst; simpl; now auto);
      destruct (zget s (p_open st)) as [l|];
      try destruct (mem_str sub l); intro H; inversion H; subst; simpl; auto.
Qed.

(* ------------------------------------------------------------------ *)
(** * One step preserves the invariant and does not panic *)

Definition Inv (h : list pstep) (st : pstate) : Prop :=
  InvMap h (p_open st) (p_conn st) (p_req st) /\
  InvCnt h (p_recv st) (p_kind st) (p_send st).

Lemma live_zget h o c r s : InvMap h o c r -> live h s -> exists l, zget s o = Some l.
Proof.
  intros (K & _) L. apply K in L. destruct (zget s o) as [l|]; [eauto | congruence].
Qed.

Lemma map_of_step h st x :
  InvMap h (p_open st) (p_conn st) (p_req st) -> wf (h ++ [x]) ->
  exists st', sem_step st x = POk st' /\ InvMap (h ++ [x]) (p_open st') (p_conn st') (p_req st').
Proof.
  intros I W. apply wf_snoc in W as [W Hx].
  destruct x as [s|s|s [w u]|s [w u]]; simpl in Hx.
  - eexists; split; [reflexivity|]. simpl. now apply invmap_start.
  - destruct (live_zget _ _ _ _ _ I Hx) as [l0 G0]. eexists; split; [reflexivity|]. simpl.
    rewrite G0. now apply invmap_end.
  - destruct (live_zget _ _ _ _ _ I Hx) as [l0 G0].
    destruct w; simpl;
      try (eexists; split; [reflexivity|]; simpl; now apply invmap_neutral).
    + unfold do_req; simpl. rewrite G0.
      pose proof (invmap_req h (p_open st) (p_conn st) (p_req st) s sub u l0 G0 I) as P. simpl in P.
      destruct (mem_str sub l0); eexists; (split; [reflexivity|]); simpl; exact P.
    + unfold do_close; simpl. rewrite G0.
      assert (P := invmap_close h (p_open st) (p_conn st) (p_req st) s sub l0 (Client s (mkCM (CClose sub) u))
                     (fun _ => eq_refl) (fun _ => eq_refl)
                     (fun s' sub' => andb_false_r _)).
      specialize (P (fun _ _ => eq_refl) G0 I).
      destruct (mem_str sub l0); eexists; (split; [reflexivity|]); simpl; exact P.
  - destruct (live_zget _ _ _ _ _ I Hx) as [l0 G0].
    destruct w; simpl;
      try (eexists; split; [reflexivity|]; simpl; now apply invmap_neutral).
    unfold do_close; simpl. rewrite G0.
    assert (P := invmap_close h (p_open st) (p_conn st) (p_req st) s sub l0 (Server s (mkSM (SClosed sub) u))
                   (fun _ => eq_refl) (fun _ => eq_refl) (fun _ _ => eq_refl)).
    specialize (P (fun _ _ => eq_refl) G0 I).
    destruct (mem_str sub l0); eexists; (split; [reflexivity|]); simpl; exact P.
Qed.

Lemma step_inv h st x :
  Inv h st -> wf (h ++ [x]) -> exists st', step st x = POk st' /\ Inv (h ++ [x]) st'.
Proof.
  intros [IM IC] W. destruct (map_of_step h st x IM W) as (st' & E & IM').
  exists st'. rewrite step_sem. split; [exact E|]. split; [exact IM'|].
  destruct (cnt_of_step _ _ _ E) as (-> & -> & ->). now apply invcnt_step.
Qed.

Theorem run_inv h : wf h -> exists st, run h = POk st /\ Inv h st.
Proof.
  induction h as [|x h IH] using rev_ind; intro W.
  - exists p_init. split; [reflexivity|]. split; [apply invmap_nil|].
    repeat split; intro l; reflexivity.
  - destruct (wf_snoc _ _ W) as [W0 _]. destruct (IH W0) as (st & R & I).
    destruct (step_inv h st x I W) as (st' & E & I'). exists st'. split; [|exact I'].
    rewrite run_snoc, R. exact E.
Qed.

(* ------------------------------------------------------------------ *)
(** * The theorems of the property *)

Lemma NoDup_same_length {A} (l l' : list A) :
  NoDup l -> NoDup l' -> (forall x, In x l <-> In x l') -> length l = length l'.
Proof.
  intros N N' H. apply Nat.le_antisymm; apply NoDup_incl_length; auto; intros x Hx; now apply H.
Qed.

(** no step of a well-formed history panics *)
Theorem run_no_panic h : wf h -> exists st, run h = POk st.
Proof. intro W. destruct (run_inv h W) as (st & R & _). eauto. Qed.

(** the connection gauge is the number of live sessions *)
Theorem conn_gauge_eq h st :
  wf h -> run h = POk st ->
  forall L, NoDup L -> (forall s, In s L <-> live h s) -> p_conn st = Z.of_nat (length L).
Proof.
  intros W R L NL HL. destruct (run_inv h W) as (st0 & R0 & ((K & ND & _ & C & _) & _)).
  rewrite R in R0. inversion R0; subst st0. rewrite C. f_equal.
  transitivity (length (keys (p_open st))); [unfold keys; now rewrite map_length|].
  apply NoDup_same_length; auto. intro s. rewrite HL, <- K. split.
  - intros H E. apply zget_None in E. contradiction.
  - intro H. destruct (in_dec Z.eq_dec s (keys (p_open st))) as [i|n]; [exact i|].
    apply zget_None in n. contradiction.
Qed.

Definition pairs_of {A B} (m : list (A * list B)) : list (A * B) :=
  flat_map (fun kv => List.map (pair (fst kv)) (snd kv)) m.

Lemma pairs_of_In {A B} (m : list (A * list B)) k x :
  In (k, x) (pairs_of m) <-> exists l, In (k, l) m /\ In x l.
Proof.
  unfold pairs_of. rewrite in_flat_map. split.
  - intros ([k' l] & H1 & H2). simpl in H2. apply in_map_iff in H2 as (y & E & Hy).
    inversion E; subst. eauto.
  - intros (l & H1 & H2). exists (k, l). split; [exact H1|]. simpl. now apply in_map.
Qed.

Lemma NoDup_app_intro {A} (a b : list A) :
  NoDup a -> NoDup b -> (forall x, In x a -> ~ In x b) -> NoDup (a ++ b).
Proof.
  induction a as [|x a IH]; simpl; intros Na Nb H; [exact Nb|].
  inversion Na as [|? ? Hn Na']; subst. constructor.
  - intro Hx. apply in_app_or in Hx as [Hx|Hx]; [contradiction | exact (H x (or_introl eq_refl) Hx)].
  - apply IH; auto.
Qed.

Lemma NoDup_map_pair {A B} (k : A) (l : list B) : NoDup l -> NoDup (List.map (pair k) l).
Proof.
  induction l as [|x l IH]; simpl; intro N; [constructor|].
  inversion N as [|? ? Hn N']; subst. constructor; [|now apply IH].
  intro H. apply in_map_iff in H as (y & E & Hy). inversion E; subst. contradiction.
Qed.

Lemma NoDup_pairs_of {A B} (m : list (A * list B)) :
  NoDup (List.map fst m) -> (forall k l, In (k, l) m -> NoDup l) -> NoDup (pairs_of m).
Proof.
  induction m as [|[k l] m IH]; simpl; intros N H; [constructor|].
  inversion N as [|? ? Hn N']; subst. unfold pairs_of; simpl. apply NoDup_app_intro.
  - apply NoDup_map_pair. apply (H k l). now left.
  - apply IH; auto. intros k' l' Hin. apply (H k' l'). now right.
  - intros [k' x] H1 H2. apply in_map_iff in H1 as (y & E & Hy). inversion E; subst.
    apply (pairs_of_In m k' x) in H2 as (l' & H2 & _). apply Hn.
    change k' with (fst (k', l')). now apply in_map.
Qed.

Lemma pairs_of_length (m : list (Z * list str)) : Z.of_nat (length (pairs_of m)) = total m.
Proof.
  induction m as [|[k l] m IH]; simpl; [reflexivity|].
  unfold pairs_of in *; simpl. rewrite app_length, map_length. lia.
Qed.

(** the subscription gauge is the number of (session, subscription) pairs that
    were opened by REQ and not yet ended by CLOSE, CLOSED or the end of the session *)
Theorem req_gauge_eq h st :
  wf h -> run h = POk st ->
  forall L, NoDup L -> (forall s sub, In (s, sub) L <-> sub_open h s sub) ->
  p_req st = Z.of_nat (length L).
Proof.
  intros W R L NL HL. destruct (run_inv h W) as (st0 & R0 & ((K & ND & O & _ & RQ) & _)).
  rewrite R in R0. inversion R0; subst st0. rewrite RQ, <- pairs_of_length. f_equal.
  apply NoDup_same_length; auto.
  - apply NoDup_pairs_of; [exact ND|]. intros k l Hin. apply (O k l). now apply In_zget.
  - intros [s sub]. rewrite HL, pairs_of_In. split.
    + intros (l & H1 & H2). apply (O s l); [now apply In_zget | exact H2].
    + intro H. pose proof (open_live h W s sub H) as LV.
      apply K in LV. destruct (zget s (p_open st)) as [l|] eqn:G; [|congruence].
      exists l. split; [now apply zget_In | now apply (O s l G)].
Qed.

(** the map is the specification: its keys are the live sessions and the set
    stored for a session is its set of open subscriptions *)
Theorem open_is_spec h st :
  wf h -> run h = POk st ->
  (forall s, zget s (p_open st) <> None <-> live h s) /\
  (forall s sub, (exists l, zget s (p_open st) = Some l /\ In sub l) <-> sub_open h s sub).
Proof.
  intros W R. destruct (run_inv h W) as (st0 & R0 & ((K & ND & O & _) & _)).
  rewrite R in R0. inversion R0; subst st0. split; [exact K|]. intros s sub. split.
  - intros (l & G & Hin). now apply (O s l G).
  - intro H. pose proof (open_live h W s sub H) as LV. apply K in LV.
    destruct (zget s (p_open st)) as [l|] eqn:G; [|congruence]. exists l. split; [reflexivity|].
    now apply (O s l G).
Qed.

(** per-type and per-kind counters equal the numbers of messages that crossed *)
Theorem counters_eq h st :
  wf h -> run h = POk st ->
  forall l, cv_get l (p_recv st) = Z.of_nat (n_recv h l) /\
            cv_get l (p_kind st) = Z.of_nat (n_kind h l) /\
            cv_get l (p_send st) = Z.of_nat (n_send h l).
Proof.
  intros W R l. destruct (run_inv h W) as (st0 & R0 & (_ & (A & B & C))).
  rewrite R in R0. inversion R0; subst st0. auto.
Qed.

(** every message passes unaltered, exactly once, in order, and the middleware
    adds nothing of its own *)
Lemma emits_spec x :
  emits x = match x with Client s m => [ToHandler s m] | Server s m => [ToClient s m] | _ => [] end.
Proof.
  destruct forward_spec as [F1 F2]. destruct x; unfold emits; rewrite ?F1, ?F2; reflexivity.
Qed.

Theorem prom_transparent h s :
  handler_view s (trace h) = client_sent s h /\ client_view s (trace h) = server_sent s h.
Proof.
  unfold trace. induction h as [|x h [IH1 IH2]]; [split; reflexivity|].
  cbn [flat_map client_sent server_sent]. unfold handler_view, client_view in *.
  rewrite !flat_map_app, IH1, IH2, emits_spec.
  destruct x as [s'|s'|s' m|s' m]; simpl; try (split; reflexivity).
  - destruct (s' =? s); split; reflexivity.
  - destruct (s' =? s); split; reflexivity.
Qed.

(* ------------------------------------------------------------------ *)
(** * The oracle's enumerations are the sets of the specification *)

Lemma nodup_Z_spec l : NoDup (nodup_Z l) /\ forall x, In x (nodup_Z l) <-> In x l.
Proof.
  induction l as [|y l [N I]]; simpl; [split; [constructor | tauto]|].
  destruct (mem_Z y l) eqn:M.
  - apply mem_Z_In in M. split; [exact N|]. intro x. rewrite I. split; [tauto|].
    intros [<-|H]; assumption.
  - split.
    + constructor; [|exact N]. rewrite I. intro H. apply mem_Z_In in H. congruence.
    + intro x. simpl. rewrite I. tauto.
Qed.

Lemma nodup_str_spec l : NoDup (nodup_str l) /\ forall x, In x (nodup_str l) <-> In x l.
Proof.
  induction l as [|y l [N I]]; simpl; [split; [constructor | tauto]|].
  destruct (mem_str y l) eqn:M.
  - apply mem_str_In in M. split; [exact N|]. intro x. rewrite I. split; [tauto|].
    intros [<-|H]; assumption.
  - split.
    + constructor; [|exact N]. rewrite I. intro H. apply mem_str_In in H. congruence.
    + intro x. simpl. rewrite I. tauto.
Qed.

Lemma live_session_occurs h s : live h s -> In s (List.map step_session h).
Proof.
  intros (h1 & y & h2 & -> & Py & _). destruct y; simpl in Py; try discriminate.
  apply Z.eqb_eq in Py; subst. rewrite map_app. apply in_or_app. right. now left.
Qed.

Lemma open_sub_occurs h s sub :
  sub_open h s sub -> In s (List.map step_session h) /\ In sub (flat_map step_subs h).
Proof.
  intros (h1 & y & h2 & -> & Py & _). destruct y as [| |s' m|]; simpl in Py; try discriminate.
  apply andb_true_iff in Py as [E1 E2]. apply Z.eqb_eq in E1; subst.
  destruct m as [w u]; simpl in E2. destruct w; try discriminate. apply str_eqb_eq in E2; subst.
  split.
  - rewrite map_app. apply in_or_app. right. now left.
  - rewrite flat_map_app. apply in_or_app. right. simpl. now left.
Qed.

Lemma live_list_spec h : NoDup (live_list h) /\ forall s, In s (live_list h) <-> live h s.
Proof.
  unfold live_list, sessions_of. destruct (nodup_Z_spec (List.map step_session h)) as [N I]. split.
  - now apply NoDup_filter.
  - intro s. rewrite filter_In, I, liveb_spec. split; [tauto|]. intro L. split; [|exact L].
    now apply live_session_occurs.
Qed.

Lemma open_list_pairs h :
  open_list h = pairs_of (List.map (fun s => (s, filter (sub_openb h s) (subs_of h))) (sessions_of h)).
Proof.
  unfold open_list, pairs_of. induction (sessions_of h) as [|s l IH]; simpl; [reflexivity|].
  now rewrite IH.
Qed.

Lemma open_list_spec h :
  NoDup (open_list h) /\ forall s sub, In (s, sub) (open_list h) <-> sub_open h s sub.
Proof.
  rewrite open_list_pairs.
  destruct (nodup_Z_spec (List.map step_session h)) as [N I].
  destruct (nodup_str_spec (flat_map step_subs h)) as [N' I'].
  split.
  - apply NoDup_pairs_of.
    + rewrite map_map. simpl. rewrite map_id. exact N.
    + intros k l Hin. apply in_map_iff in Hin as (s & E & _). inversion E; subst.
      apply NoDup_filter. exact N'.
  - intros s sub. rewrite pairs_of_In. split.
    + intros (l & Hin & Hs). apply in_map_iff in Hin as (s' & E & _). inversion E; subst.
      apply filter_In in Hs as [_ Hs]. now apply sub_openb_spec.
    + intro H. destruct (open_sub_occurs h s sub H) as [H1 H2].
      exists (filter (sub_openb h s) (subs_of h)). split.
      * apply in_map_iff. exists s. split; [reflexivity|]. unfold sessions_of. now apply I.
      * apply filter_In. split; [unfold subs_of; now apply I' | now apply sub_openb_spec].
Qed.

(** the gauges as the oracle computes them *)
Corollary gauges_eq_oracle h st :
  wf h -> run h = POk st ->
  p_conn st = Z.of_nat (length (live_list h)) /\ p_req st = Z.of_nat (length (open_list h)).
Proof.
  intros W R. destruct (live_list_spec h) as [N1 I1]. destruct (open_list_spec h) as [N2 I2]. split.
  - now apply (conn_gauge_eq h st W R).
  - now apply (req_gauge_eq h st W R).
Qed.

(* ------------------------------------------------------------------ *)
(** * A non-trivial history: two interleaved sessions, a repeated REQ, CLOSE,
      a server-side CLOSED, an EOSE, and a session ending with a subscription open *)

Definition ex_a : str := sl "a".
Definition ex_b : str := sl "b".
Definition ex_hist : list pstep :=
  [Start 1; Client 1 (mkCM (CReq ex_a) 0); Start 2; Client 2 (mkCM (CReq ex_a) 1);
   Client 1 (mkCM (CReq ex_a) 2); Client 1 (mkCM (CReq ex_b) 3); Server 1 (mkSM (SEose ex_a) 4);
   Server 2 (mkSM (SClosed ex_a) 5); Client 1 (mkCM (CClose ex_b) 6); Client 2 (mkCM (CEvent 7) 7);
   Client 2 (mkCM (CReq ex_b) 8)].

Example ex_hist_wf : wf ex_hist /\ wf (ex_hist ++ [End 2]).
Proof. split; apply wfb_sound; vm_compute; reflexivity. Qed.

Example ex_hist_values :
  exists st st', run ex_hist = POk st /\ p_conn st = 2 /\ p_req st = 2 /\
                 run (ex_hist ++ [End 2]) = POk st' /\ p_conn st' = 1 /\ p_req st' = 1 /\
                 cv_get (sl "REQ") (p_recv st') = 5 /\ cv_get (sl "7") (p_kind st') = 1 /\
                 cv_get (sl "CLOSED") (p_send st') = 1.
Proof. eexists. eexists. vm_compute. repeat split; reflexivity. Qed.
